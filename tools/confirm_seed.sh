#!/bin/sh
# usage: confirm_seed.sh <seed-dir> <pkg-dir-of-demo> [more packages to test]
# Confirms, in a scratch worktree of /repo: existing tests pass with the patch, the demo fails with it and passes without.
set -u
SD="$1"; PKG="$2"; shift 2
export GOFLAGS=-mod=mod GOPROXY=off GOSUMDB=off GOTOOLCHAIN=local
WT=/tmp/wt-confirm-$$
git -C /repo worktree add -q "$WT" HEAD || exit 2
cd "$WT"
demo=$(ls "$SD"/*_test.go | head -1)
res=""
# 1. demo passes without the change
cp "$demo" "$PKG/seed_demo_test.go"
if go test -count=1 -run 'Seed' "./$PKG/" >/tmp/cs-$$.log 2>&1; then res="$res demo-passes-without=yes"; else res="$res demo-passes-without=NO"; fi
rm -f "$PKG/seed_demo_test.go"
# 2. apply
if ! git apply "$SD/patch.diff"; then echo "patch does not apply"; cd /; git -C /repo worktree remove --force "$WT"; exit 2; fi
# 3. existing tests pass with the change
if go build ./... >/dev/null 2>&1 && go test -count=1 "./$PKG/" "$@" >/tmp/cs-$$.log 2>&1; then res="$res existing-tests-pass-with=yes"; else res="$res existing-tests-pass-with=NO"; tail -5 /tmp/cs-$$.log; fi
# 4. demo fails with the change
cp "$demo" "$PKG/seed_demo_test.go"
if go test -count=1 -run 'Seed' "./$PKG/" >/tmp/cs-$$.log 2>&1; then res="$res demo-fails-with=NO"; else res="$res demo-fails-with=yes"; fi
cd /
git -C /repo worktree remove --force "$WT"
rm -f /tmp/cs-$$.log
echo "$SD:$res"
