#!/bin/sh
# usage: run_seed.sh <seed-dir> <check-id> [<check-id>…]  — applies the seeded change to /repo, runs the quick checks, reverts
SD="$1"; shift
cd /repo || exit 2
if [ -n "$(git status --porcelain)" ]; then echo "/repo not clean"; exit 2; fi
git apply "$SD/patch.diff" || exit 2
for c in "$@"; do
  out=$(/verif/check "$c" --tier quick 2>&1)
  rc=$?
  echo "$(basename $SD) check=$c exit=$rc $(echo "$out" | grep -c '^VIOLATION') violation-lines: $(echo "$out" | grep '^VIOLATION' | head -1 | cut -c1-120) | $(echo "$out" | tail -1 | cut -c1-160)"
done
git checkout -- . 
