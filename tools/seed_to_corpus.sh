#!/bin/sh
# usage: seed_to_corpus.sh <seed-id> <check-id>  — runs the check against a scratch worktree with the seeded change applied and
# stores the (shrunk) failing case of the first concrete replay as corpus/<check-id>/seed-<seed-id>.ops
S="$1"; C="$2"
WT=/tmp/wt-corpus-$$
git -C /repo worktree add -q "$WT" HEAD || exit 2
(cd "$WT" && git apply /verif/seeded/$S/patch.diff) || { git -C /repo worktree remove --force "$WT"; exit 2; }
before=$(ls /verif/replays 2>/dev/null | sort)
(cd /verif && VERIF_REPO="$WT" timeout 1500 ./check $C >/dev/null 2>&1)
git -C /repo worktree remove --force "$WT"; git -C /repo worktree prune
python3 - "$S" "$C" <<'PY'
import json,glob,os,sys
S,C=sys.argv[1],sys.argv[2]
fs=sorted(glob.glob('/verif/replays/%s-*.json'%C),key=os.path.getmtime)
pick=None
for f in fs:
    d=json.load(open(f))
    if d.get('kind')=='spec-violation' and d.get('ops') and d.get('reproduced_on_replay',True):
        if pick is None or len(d['ops'])<len(pick['ops']): pick=d
if not pick:
    print(S,"no concrete replay"); sys.exit(0)
os.makedirs('/verif/corpus/%s'%C,exist_ok=True)
out='/verif/corpus/%s/seed-%s.ops'%(C,S)
meta=json.load(open('/verif/seeded/%s/meta.json'%S))
with open(out,'w') as f:
    if pick.get('variant'): f.write('# variant=%s\n'%pick['variant'])
    f.write('# witness of seeded change %s (%s); passes on the unchanged tree\n'%(S,meta['needs_to_manifest'][:150].replace('\n',' ')))
    f.write("\n".join(pick['ops'])+"\n")
print(S,'->',out,len(pick['ops']),'lines')
for f in fs: os.remove(f)
PY
