import Driver.Common
import Driver.Nat
import TransportVerif.Model.Vnet
/- driver component `vnet` (C01):
   case <id>
   setup ops: router <netIP> <bits> <parent|-> <cap> - | napt <map> <filt> <lifeMs> <mapped csv> | one2one <mapped csv> <local csv>
              host <router|-> <ip csv>
   ops: start | stop | bind <h> <ip> <port> [<remote ip:port>] | w <h> <s> <dst ip:port> <hex> | route <r> | read <h> <s> # <what the implementation returned>
        | close <h> <s> | adv <ms> | end
   out: ok … | pkt <src ip:port> <hex> | empty | closed | …          state: q=<queue lengths> in=<inbox lengths per host>
   spec column of `read`: the implementation's own answer judged against the log of writes (at most once, intact, per-flow order) -/
namespace Driver.Vnet
open TV TV.Nat TV.Vnet Driver.Nat

/-- the judge's view of one write -/
structure WRec where
  origin : Nat × Nat
  dst : Addr
  payload : List UInt8
  matched : Bool

structure St where
  n : Net
  ws : Array WRec                              -- spec: log of successful writes
  last : List ((Nat × Nat) × Addr × (Nat × Nat) × Nat)   -- spec: (origin, dst, reader) ↦ index of the last write matched
  paths : List (((Nat × Nat) × Addr × (Nat × Nat)) × List TV.Vnet.Ctr) := []   -- hops of the last datagram read per (origin, written destination, reader)
  mreads : List (List UInt8) := []             -- payloads the model handed to readers
  ireads : List (List UInt8) := []             -- payloads the implementation handed to readers

def empty : Net := { routers := [], hosts := [], now := 0, started := false, written := [], drops := [] }

def ipcsv (s : String) : List Nat := if s = "-" then [] else (s.splitOn ",").map parseIP

def stateStr (n : Net) : String :=
  "q=" ++ String.intercalate "," (n.routers.map (fun r => toString r.queue.length)) ++
  " in=" ++ String.intercalate ";" (n.hosts.map (fun h => String.intercalate "," (h.socks.map (fun s => toString s.inbox.length))))

def dropTag : Drop → String
  | .notStarted _ => "drop-not-started " | .queueFull _ => "drop-queue-full " | .noNIC _ => "drop-no-nic "
  | .noRoute _ => "drop-no-route " | .natOut _ => "drop-nat-unpaired " | .natOutError _ => "drop-nat-exhausted "
  | .natIn _ .noPermission => "drop-nat-filtered " | .natIn _ _ => "drop-nat-unknown "
  | .noSocket _ => "drop-no-socket " | .inboxFull _ _ => "drop-inbox-full "

def newTags (before after : Net) : String :=
  String.join ((after.drops.drop before.drops.length).map (fun d => dropTag d.2))

partial def drain (n : Net) (r : Nat) (k : Nat) : Net :=
  if k = 0 then n else drain (n.routeOne r) r (k - 1)

/-- judge one datagram the implementation handed to reader socket (h, s) -/
def judgeRead (st : St) (reader : Nat × Nat) (payload : List UInt8) : St × Option String :=
  -- the earliest write with this payload that has not been delivered yet
  match (List.range st.ws.size).find? (fun i => match st.ws[i]? with | some w => !w.matched && w.payload == payload | none => false) with
  | none =>
    if st.ws.any (fun w => w.payload == payload) then (st, some "delivered-twice") else (st, some "payload-never-written")
  | some i =>
    match st.ws[i]? with
    | none => (st, some "internal")
    | some w =>
      let key := (w.origin, w.dst, reader)
      let prev := (st.last.find? (fun e => e.1 == key.1 && e.2.1 == key.2.1 && e.2.2.1 == key.2.2)).map (·.2.2.2)
      -- order is judged (and remembered) only when the payload identifies the write: empty and very
      -- short payloads repeat, and which of several equal writes a datagram stems from is not observable
      let unique := (st.ws.foldl (fun k x => if x.payload == payload then k + 1 else k) 0) == 1
      let st1 := { st with ws := st.ws.set! i { w with matched := true } }
      if !unique then (st1, none)
      else
        let st' := { st1 with last := (key.1, key.2.1, key.2.2, i) :: st.last.filter (fun e => !(e.1 == key.1 && e.2.1 == key.2.1 && e.2.2.1 == key.2.2)) }
        match prev with
        | some p => if i < p then (st', some "flow-out-of-order") else (st', none)
        | none => (st', none)

def comp : Component where
  σ := St
  init := { n := empty, ws := #[], last := [] }
  reset := fun _ => { n := empty, ws := #[], last := [] }
  step := fun st f =>
    let fin (n' : Net) (out spec tags : String) : St × String :=
      ({ st with n := n' }, line4 out (stateStr n') spec (tags ++ newTags st.n n'))
    match f with
    | "router" :: ip :: bits :: parent :: cap :: natCfg =>
      let nat : Option NAT := match natCfg with
        | ["napt", m, fl, life, mapped] => NAT.new false (dep m) (dep fl) (int! life) (ipcsv mapped) []
        | ["one2one", mapped, loc] => NAT.new true .indep .indep 0 (ipcsv mapped) (ipcsv loc)
        | _ => none
      let idx := st.n.routers.length
      let rt : RouterM := { netIP := parseIP ip, maskBits := nat! bits, parent := if parent = "-" then none else some (nat! parent),
                            nat := nat, nics := [], queue := [], cap := nat! cap }
      let n1 := { st.n with routers := st.n.routers ++ [rt] }
      -- the child router is a NIC of its parent under each of its WAN-side addresses
      let wan := match natCfg with | ["napt", _, _, _, mapped] => ipcsv mapped | ["one2one", mapped, _] => ipcsv mapped | _ => []
      let n2 := if parent = "-" then n1 else n1.modRouter (nat! parent) (fun p => { p with nics := p.nics.filter (fun e => !wan.contains e.1) ++ wan.map (fun a => (a, Node.router idx)) })
      ({ st with n := n2 }, line4 "ok" "-" "*" "setup ")
    | ["host", r, ips] =>
      let idx := st.n.hosts.length
      let hm : HostM := { ips := ipcsv ips, router := if r = "-" then none else some (nat! r), socks := [] }
      let n1 := { st.n with hosts := st.n.hosts ++ [hm] }
      let n2 := if r = "-" then n1 else n1.modRouter (nat! r) (fun p => { p with nics := p.nics.filter (fun e => !(ipcsv ips).contains e.1) ++ (ipcsv ips).map (fun a => (a, Node.host idx)) })
      ({ st with n := n2 }, line4 "ok" "-" "*" "setup ")
    | ["start"] => fin (step st.n .start) "ok" "*" "start "
    | ["stop"] => fin (step st.n .stop) "ok" "*" "stop "
    | "bind" :: h :: ip :: port :: rem =>
      let remote := match rem with | [a] => some (parseAddr a) | _ => none
      let (n', r) := st.n.bind (nat! h) (parseIP ip) (nat! port) remote
      let out := match r with | .ok s => "ok " ++ toString s | .cantAssign => "cantassign" | .inUse => "inuse" | .bad => "bad"
      fin n' out "*" ("bind " ++ (if remote.isSome then "connected " else "") ++ (if parseIP ip = 0 then "wildcard " else ""))
    | ["w", h, s, dst, hx] =>
      let dstA := parseAddr dst
      let payload := unhex hx
      let (n', r) := st.n.write (nat! h) (nat! s) dstA payload
      let out := match r with | .ok => "ok" | .noSourceIP => "nosrc" | .noRouter => "norouter" | .badSocket => "bad"
      let st1 := if r == .ok then { st with ws := st.ws.push { origin := (nat! h, nat! s), dst := dstA, payload := payload, matched := false } } else st
      let tags := "write " ++ (if isLoopback dstA.ip then "loopback " else "") ++ (if payload.isEmpty then "empty-payload " else "") ++
        (if payload.length ≥ 1000 then "big-payload " else "")
      ({ st1 with n := n' }, line4 out (stateStr n') "*" (tags ++ newTags st.n n'))
    | ["route", r] =>
      let r := nat! r
      let k := match st.n.routers[r]? with | some rt => rt.queue.length | none => 0
      let n' := drain st.n r k
      let natBefore : List Nat := st.n.routers.map (fun x => match x.nat with | some t => t.counter | none => 0)
      let natAfter : List Nat := n'.routers.map (fun x => match x.nat with | some t => t.counter | none => 0)
      let delivered := (n'.hosts.map (fun h => (h.socks.map (fun s => s.delivered.length)).sum)).sum - (st.n.hosts.map (fun h => (h.socks.map (fun s => s.delivered.length)).sum)).sum
      fin n' "-" "*" ("route " ++ (if k = 0 then "route-idle " else "") ++ (if k > 1 then "route-several " else "") ++
        (if natBefore ≠ natAfter then "nat-allocates " else "") ++ (if delivered > 0 then "delivers " else "") ++
        (if (n'.routers.zip st.n.routers).any (fun e => e.1.queue.length > e.2.queue.length) then "forwards " else ""))
    | "read" :: h :: s :: "#" :: impl =>
      let (n', r) := st.n.read (nat! h) (nat! s)
      let out := match r with | .pkt c => "pkt " ++ showAddr c.src ++ " " ++ hex c.payload | .empty => "empty" | .closed => "closed" | .bad => "bad"
      let implOut := String.intercalate " " impl
      -- spec: judge what the implementation returned
      let (st1, verdict) := match impl with
        | ["pkt", _, hx] => judgeRead st (nat! h, nat! s) (unhex hx)
        | _ => (st, none)
      let spec := match verdict with | none => implOut | some v => v
      let hopsTag := match r with
        | .pkt c => (if c.src ≠ ({ ip := (match (st.n.hosts[c.origin.1]?) with | some hm => (match hm.socks[c.origin.2]? with | some sk => if sk.ip ≠ 0 then sk.ip else hm.ips.headD 0 | none => 0) | none => 0), port := c.src.port } : Addr) then "read-translated-source " else "") ++
                    (if c.hops.length ≥ 4 then "read-long-path " else "") ++ (if c.dst ≠ c.odst then "read-translated-dest " else "")
        | _ => ""
      -- the hypothesis of flow_fifo_partial, observed: do two datagrams of one flow read at one socket have the same hops?
      let (pathTag, paths') : String × List (((Nat × Nat) × Addr × (Nat × Nat)) × List TV.Vnet.Ctr) := match r with
        | .pkt c =>
          let key := (c.origin, c.odst, (nat! h, nat! s))
          let prev := (st1.paths.find? (fun e => e.1 == key)).map (·.2)
          ((match prev with | some p => if p == c.hops then "flow-same-path " else "flow-path-changed " | none => ""),
           (key, c.hops) :: st1.paths.filter (fun e => !(e.1 == key)))
        | _ => ("", st1.paths)
      let st1 := { st1 with paths := paths' }
      let hopsTag := hopsTag ++ pathTag
      let st1 := { st1 with mreads := (match r with | .pkt c => c.payload :: st1.mreads | _ => st1.mreads),
                            ireads := (match impl with | ["pkt", _, hx] => unhex hx :: st1.ireads | _ => st1.ireads) }
      ({ st1 with n := n' }, line4 out (stateStr n') spec ("read " ++ (match r with | .pkt _ => "read-pkt " | .empty => "read-empty " | .closed => "read-closed " | .bad => "") ++ hopsTag))
    | ["close", h, s] => fin (st.n.close (nat! h) (nat! s)) "-" "*" "close "
    | ["natctr", r, v] =>
      -- white-box jump of a NAT's port counter (reaches port exhaustion without 16384 datagrams)
      fin (st.n.modRouter (nat! r) (fun x => { x with nat := x.nat.map (fun t => { t with counter := nat! v }) })) "-" "*" "natctr "
    | ["adv", ms] => fin (step st.n (.adv (nat! ms))) "-" "*" "adv "
    | "conc" :: "#" :: kvs =>
      -- the concurrent part (real router goroutines): the harness' own tally of what arrived
      let bad := kvs.filter (fun x => match x.splitOn "=" with | [_, v] => v != "0" | _ => true)
      (st, line4 "conc" "-" (if bad.isEmpty then "conc" else "concurrent-run:" ++ String.intercalate "," bad) "concurrent ")
    | ["end"] =>
      -- no silent loss: whatever the (proved) model delivered, the implementation must have delivered
      let cnt (l : List (List UInt8)) (p : List UInt8) : Nat := (l.filter (· == p)).length
      let spec := match st.mreads.find? (fun p => cnt st.mreads p > cnt st.ireads p) with
        | some p => "datagram-lost:" ++ hex (p.take 8)
        | none => "end"
      fin st.n "end" spec "end "
    | _ => (st, "bad-op")

end Driver.Vnet
