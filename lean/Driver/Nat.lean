import Driver.Common
import TransportVerif.Model.Nat
import TransportVerif.Spec.Nat
/- driver component `nat <C02|C03>`:
   case <id> napt <mapBeh> <filtBeh> <lifetime ms> <mappedIP>     (behaviours: 0 indep, 1 addr, 2 addrPort)
   case <id> one2one <m1,m2,…> <l1,l2,…>
   ops: o <src> <dst> | i <remote> <ext> | adv <ms>           addresses a.b.c.d:port
   out: ok a.b.c.d:p | drop | badport | nomapped | nobind | noperm | noassoc | - -/
namespace Driver.Nat
open TV TV.Nat

def parseIP (s : String) : Nat :=
  (s.splitOn ".").foldl (fun acc x => acc * 256 + nat! x) 0

def parseAddr (s : String) : Addr :=
  match s.splitOn ":" with
  | [ip, p] => { ip := parseIP ip, port := nat! p }
  | _ => { ip := 0, port := 0 }

def showIP (n : Nat) : String :=
  toString (n / 16777216 % 256) ++ "." ++ toString (n / 65536 % 256) ++ "." ++ toString (n / 256 % 256) ++ "." ++ toString (n % 256)

def showAddr (a : Addr) : String := showIP a.ip ++ ":" ++ toString a.port

def showKey : Key → String
  | .none => "*"
  | .ip i => showIP i
  | .full a => showAddr a

def dep (s : String) : Dep := if s = "1" then .addr else if s = "2" then .addrPort else .indep

def outStr : OutRes → String
  | .ok a => "ok " ++ showAddr a | .drop => "drop" | .badPort => "badport" | .noMappedIP => "nomapped"
def inStr : InRes → String
  | .ok a => "ok " ++ showAddr a | .noAssoc => "noassoc" | .noBinding => "nobind" | .noPermission => "noperm"

structure St where
  n : Option NAT
  now : Int
  c : NatSpec.Cfg
  h : NatSpec.Hist

/-- floor((rem + 250) / 1000): remaining lifetime in seconds, robust against a few ms of real time -/
def remSec (expires now : Int) : Int := (expires - now + 250) / 1000

def mapStr (now : Int) (m : Mapping) : String :=
  toString m.id ++ "/" ++ showAddr m.loc ++ "/" ++ showKey m.bound ++ "/" ++
    String.intercalate "," ((m.filters.map showKey).toArray.qsort (· < ·)).toList ++ "/" ++ toString (remSec m.expires now)

def stateStr (n : NAT) (now : Int) : String :=
  if n.outbound.length > 12 ∨ n.inbound.length > 12 then
    "c=" ++ toString n.counter ++ " n=" ++ toString n.outbound.length ++ "," ++ toString n.inbound.length
  else
    let o := ((n.outbound.map (fun e => mapStr now e.2)).toArray.qsort (· < ·)).toList
    let i := ((n.inbound.map (fun e => toString e.2.id ++ "@" ++ showIP e.1.1 ++ ":" ++ toString e.1.2)).toArray.qsort (· < ·)).toList
    "c=" ++ toString n.counter ++ " out=[" ++ String.intercalate ";" o ++ "] in=[" ++ String.intercalate ";" i ++ "]"

/-- spec column for an outbound datagram: a literal, or `fresh:<ip>:<lo>-<hi>:!p1,p2` (any valid port
    not held by a live mapping), possibly with `badport` as an alternative -/
def specOut (c : NatSpec.Cfg) (h : NatSpec.Hist) (src dst : Addr) (modelOut : OutRes) : String :=
  if h.entries.length > 40 then
    -- large histories: the exclusion list would be enormous; the model's own answer is judged by the
    -- spec and offered as the only alternative (the implementation must then equal it)
    if NatSpec.allowedOut c h src dst modelOut then outStr modelOut else "spec-rejects-model"
  else
  if c.one2one then
    match paired c.localIPs c.mappedIPs src.ip with
    | some ip => outStr (.ok { ip := ip, port := src.port })
    | none => "drop"
  else
    match h.liveFor c src (keyOf c.mapBeh dst) with
    | some e => outStr (.ok e.ext)
    | none =>
      let liveP := (h.entries.filter (fun e => e.live c h.now ∧ some e.ext.ip == c.mappedIPs.head?)).map (fun e => toString e.ext.port)
      let fresh := match c.mappedIPs.head? with
        | some ip => "fresh:" ++ showIP ip ++ ":" ++ toString NatSpec.portLo ++ "-" ++ toString NatSpec.portHi ++ ":!" ++ String.intercalate "," liveP
        | none => "nomapped"
      if h.allocs ≥ NatSpec.portHi + 1 - NatSpec.portLo then fresh ++ ";badport" else fresh

def specIn (c : NatSpec.Cfg) (h : NatSpec.Hist) (remote ext : Addr) : String :=
  let dropped := "nobind;noperm;noassoc"
  if c.one2one then
    match paired c.mappedIPs c.localIPs ext.ip with
    | some ip => inStr (.ok { ip := ip, port := ext.port })
    | none => dropped
  else
    match h.liveAt c ext with
    | some e => if e.perms.contains (keyOf c.filtBeh remote) then inStr (.ok e.owner) else dropped
    | none => dropped

def mkSt (cfg : List String) : St :=
  match cfg with
  | ["napt", mb, fb, lt, ip] =>
    let n := NAT.new false (dep mb) (dep fb) (int! lt) [parseIP ip] []
    { n := n, now := 0, h := .empty,
      c := { one2one := false, mapBeh := dep mb, filtBeh := dep fb, lifetime := if int! lt = 0 then defaultLifetime else int! lt,
             mappedIPs := [parseIP ip], localIPs := [] } }
  | ["one2one", ms, ls] =>
    let m := if ms = "-" then [] else (ms.splitOn ",").map parseIP
    let l := if ls = "-" then [] else (ls.splitOn ",").map parseIP
    { n := NAT.new true .indep .indep 0 m l, now := 0, h := .empty,
      c := { one2one := true, mapBeh := .indep, filtBeh := .indep, lifetime := 0, mappedIPs := m, localIPs := l } }
  | _ => { n := none, now := 0, h := .empty, c := { one2one := false, mapBeh := .indep, filtBeh := .indep, lifetime := 0, mappedIPs := [], localIPs := [] } }

def comp (_mode : String) : Component where
  σ := St
  init := mkSt []
  reset := mkSt
  step := fun s f =>
    match s.n with
    | none => (s, line4 "noctor" "-" "noctor" "ctor-error ")
    | some n =>
    match f with
    | ["o", a, b] =>
      let src := parseAddr a; let dst := parseAddr b
      let (n', r) := n.translateOutbound s.now src dst
      let sp := specOut s.c s.h src dst r
      let live := (s.h.liveFor s.c src (keyOf s.c.mapBeh dst))
      let sameOwnerOther := s.h.entries.any (fun e => e.owner = src ∧ e.live s.c s.h.now ∧ e.bound ≠ keyOf s.c.mapBeh dst)
      let expiredSame := s.h.entries.any (fun e => e.owner = src ∧ e.bound = keyOf s.c.mapBeh dst ∧ !e.live s.c s.h.now)
      let tags := (if s.c.one2one then "one2one " else "") ++
        (match live with | some e => "reuse " ++ (if s.h.now > e.lastUse then "refresh " else "") | none => "alloc ") ++
        (if sameOwnerOther then "same-endpoint-other-mapping " else "") ++ (if expiredSame then "realloc-after-expiry " else "") ++
        (match r with | .badPort => "exhausted " | .drop => "unpaired " | _ => "")
      ({ s with n := some n', h := s.h.recordOut s.c src dst r }, line4 (outStr r) (stateStr n' s.now) sp tags)
    | ["i", a, b] =>
      let rem := parseAddr a; let ext := parseAddr b
      let (n', r) := n.translateInbound s.now rem ext
      let sp := specIn s.c s.h rem ext
      let known := s.h.entries.any (fun e => e.ext = ext)
      let tags := (if s.c.one2one then "one2one " else "") ++ (match r with
        | .ok _ => "admitted "
        | .noPermission => "refused-noperm "
        | .noBinding => if known then "refused-expired " else "refused-unknown "
        | .noAssoc => "refused-unpaired ")
      ({ s with n := some n' }, line4 (inStr r) (stateStr n' s.now) sp tags)
    | ["ctr", k] =>
      let n' := { n with counter := nat! k }
      ({ s with n := some n', h := { s.h with allocs := nat! k } }, line4 "-" (stateStr n' s.now) "-" "counter-jump ")
    | ["adv", dt] =>
      let now' := s.now + (nat! dt : Int)
      ({ s with now := now', h := s.h.advance (nat! dt) }, line4 "-" (stateStr n now') "-" "adv ")
    | _ => (s, "bad-op")

end Driver.Nat
