import Driver.Common
import TransportVerif.Model.Delay
/- driver component `delay`:
   case <id> <delay ns> <senders>
   ops: s <k> | n <k> | l | adv <dt> | end # <implementation's final line>
   out: t=<now> q=<queue len> L=<A at select|P parked|X panicked|K stuck> S=<pc of every sender: S,N,W,D> f=<id@time,…|->
   `end`: the IMPLEMENTATION's final line is judged: no panic, every forward at or after arrival+delay,
   in arrival order, no duplicates, and (the harness drains before `end`) every notified chunk forwarded. -/
namespace Driver.Delay
open TV TV.Delay

structure St where
  s : Sys
  arrivals : List (Nat × Int)    -- (chunk id, time it entered the filter)
  notified : List Nat

def lpc : LPc → String | .atSelect => "A" | .parked => "P" | .panicked => "X" | .stuck => "K"
def spc : SPc → String | .start => "S" | .atSend => "N" | .sending => "W" | .done => "D"

def fwdStr (l : List (Nat × Int)) : String :=
  if l.isEmpty then "-" else String.intercalate "," (l.map (fun e => toString e.1 ++ "@" ++ toString e.2))

def sysStr (s : Sys) : String :=
  "t=" ++ toString s.now ++ " q=" ++ toString s.queue.length ++ " L=" ++ lpc s.loop ++ " S=" ++
    String.intercalate "," (s.senders.map spc) ++ " f=" ++ fwdStr s.forwarded

def parseFwd (s : String) : List (Nat × Int) :=
  if s = "-" then [] else (s.splitOn ",").map (fun e => match e.splitOn "@" with | [a, b] => (nat! a, int! b) | _ => (0, 0))

def judge (st : St) (f : List String) : String :=
  match f with
  | [_, _, l, _, fw] =>
    let fwd := parseFwd (fw.drop 2).toString
    if l == "L=X" then "panic-in-forwarding-loop"
    else if l == "L=K" then "forwarding-loop-stuck"
    else
      let early := fwd.find? (fun e => match st.arrivals.find? (fun a => a.1 == e.1) with
        | some a => decide (e.2 < a.2 + st.s.delay)
        | none => true)
      match early with
      | some e => "forwarded-before-delay-or-unknown:" ++ toString e.1 ++ "@" ++ toString e.2
      | none =>
        let ids := fwd.map (·.1)
        let order := st.arrivals.map (·.1)
        let expected := order.filter (fun i => ids.contains i)
        if ids != expected then "reordered-or-duplicated:" ++ toString ids
        else if st.notified.any (fun i => !ids.contains i) then "not-forwarded:" ++ toString (st.notified.filter (fun i => !ids.contains i))
        else "end"
  | _ => "bad-final-line"

def comp : Component where
  σ := St
  init := { s := Sys.init 0 0, arrivals := [], notified := [] }
  reset := fun cfg => match cfg with
    | [d, n] => { s := Sys.init (int! d) (nat! n), arrivals := [], notified := [] }
    | _ => { s := Sys.init 0 0, arrivals := [], notified := [] }
  step := fun st f =>
    let go (op : Op) (st' : St) (tags : String) : St × String :=
      let s' := step st.s op
      ({ st' with s := s' }, line4 (sysStr s') "-" "*" (tags ++
        (if s'.forwarded.length > st.s.forwarded.length then "forward " else "") ++
        (match s'.loop with | .panicked => "panic " | .stuck => "stuck " | _ => "")))
    match f with
    | ["s", k] =>
      if st.s.senders[nat! k]? = some .start then go (.send (nat! k)) { st with arrivals := st.arrivals ++ [(nat! k, st.s.now)] } "send "
      else go (.send (nat! k)) st "send-noop "
    | ["n", k] =>
      if st.s.senders[nat! k]? ≠ some .atSend then go (.notify (nat! k)) st "notify-noop " else
      go (.notify (nat! k)) { st with notified := st.notified ++ [nat! k] }
        ("notify " ++ (if st.s.loop == .parked then "notify-wakes-loop " else "") ++ (if st.s.queue.isEmpty then "notify-after-drain " else ""))
    | ["l"] => go .loop st ("loop " ++ (match st.s.sendQ, st.s.tick with
        | _ :: _, some _ => "both-ready "
        | _ :: _, none => "push-arm "
        | [], some _ => (if st.s.senders.any (· == .atSend) then "tick-arm-while-sender-in-window " else "tick-arm ")
        | [], none => "loop-parks "))
    | ["adv", dt] => go (.advance (nat! dt)) st ("advance " ++ (if st.s.armed ∧ st.s.due ≤ st.s.now + nat! dt then "timer-fires " else ""))
    | "end" :: "#" :: rest => (st, line4 "end" "-" (judge st rest) "end ")
    | ["end"] => (st, line4 "end" "-" "end" "end ")
    | _ => (st, "bad-op")

end Driver.Delay
