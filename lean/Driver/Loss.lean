import Driver.Common
import TransportVerif.Model.Loss
/- driver component `loss`: case <id> <chance>; ops: c <draw> <hex> | stat <n> -/
namespace Driver.Loss
open TV

def comp : Component where
  σ := Int
  init := 0
  reset := fun cfg => match cfg with | [c] => int! c | _ => 0
  step := fun chance f =>
    match f with
    | ["c", d, h] =>
      let fwd := Loss.forward chance (nat! d)
      let out := if fwd then "fwd " ++ h else "drop"
      -- C16: chance ≤ 0 forwards everything, ≥ 100 nothing; in between either outcome is allowed for a
      -- single datagram, but a forwarded datagram must be the one that arrived
      let spec := if chance ≤ 0 then "fwd " ++ h else if chance ≥ 100 then "drop" else "fwd " ++ h ++ ";drop"
      let tags := (if chance ≤ 0 ∨ chance ≥ 100 then "endpoint " else "between ") ++
        (if (nat! d : Int) == chance ∨ (nat! d : Int) + 1 == chance then "draw-at-threshold " else "") ++
        (if fwd then "fwd " else "drop ")
      (chance, line4 out "-" spec tags)
    | ["stat", _] => (chance, line4 "stat-ok" "-" "stat-ok" "stat ")
    | _ => (chance, "bad-op")

end Driver.Loss
