import Driver.Common
import TransportVerif.Model.ReadDeadline
/- driver component `rdl`: case <id> <kind>; ops: dl <T|zero> | arr | read | adv <dt> | close
   out: - | blocked | r=data3 | r=timeout ; spec (C10): a timeout only if a non-zero deadline is in force and has
   passed; a read blocked past its deadline is released; with a passed deadline every read times out. -/
namespace Driver.RDL
open TV TV.ReadDeadline

structure St where
  c : Conn
  dl : Option Int     -- deadline in force (spec side)
  now : Int
  queued : Nat
  blocked : Bool
  closed : Bool := false

def resStr : Res → String
  | .none => "-" | .blocked => "blocked" | .data => "r=data3" | .timeout => "r=timeout" | .eof => "r=eof"

def passed (s : St) : Bool := match s.dl with | some t => decide (t ≤ s.now) | none => false

def comp : Component where
  σ := St
  init := { c := .new, dl := none, now := 0, queued := 0, blocked := false }
  reset := fun _ => { c := .new, dl := none, now := 0, queued := 0, blocked := false }
  step := fun s f =>
    let fin (op : Op) (s1 : St) (tags : String) : St × String :=
      let (c', r) := step s.c op
      -- C10 on the spec side: what the read must do given deadline in force, time, data
      let (s2, spec) : St × String :=
        match op with
        | .read =>
          if s1.blocked then (s1, "blocked")
          else if passed s1 then (s1, "r=timeout")
          else if s1.queued > 0 then ({ s1 with queued := s1.queued - 1 }, "r=data3")
          else if s1.closed then (s1, "r=eof")
          else ({ s1 with blocked := true }, "blocked")
        | .arrive =>
          if s1.closed then (s1, "-")
          else if s1.blocked then ({ s1 with blocked := false }, "r=data3") else ({ s1 with queued := s1.queued + 1 }, "-")
        | .close =>
          if s1.blocked then ({ s1 with blocked := false, closed := true }, "r=eof") else ({ s1 with closed := true }, "-")
        | _ =>
          if s1.blocked ∧ passed s1 then ({ s1 with blocked := false }, "r=timeout")
          else (s1, if s1.blocked then "blocked" else "-")
      ({ s2 with c := c' }, line4 (resStr r) "-" spec (tags ++ (match r with | .timeout => "timeout " | .data => "data " | .blocked => "blocked " | .eof => "eof " | .none => "")))
    -- `dlb` is SetDeadline: for the read side it is SetReadDeadline
    let f := match f with | "dlb" :: rest => "dl" :: rest | _ => f
    match f with
    | ["dl", "zero"] => fin (.setDeadline none) { s with dl := none } ("dl-zero " ++ (if passed s then "reset-after-expiry " else ""))
    | ["dl", t] => fin (.setDeadline (some (int! t))) { s with dl := some (int! t) }
        ((if int! t ≤ s.now then "dl-past " else "dl-future ") ++ (if passed s then "reset-after-expiry " else "") ++ (if s.blocked then "dl-while-blocked " else ""))
    | ["close"] => fin .close s ("close " ++ (if s.blocked then "close-wakes-reader " else "") ++ (if passed s then "close-after-expiry " else "") ++ (if s.queued > 0 then "close-with-data " else ""))
    | ["arr"] => fin .arrive s "arrive "
    | ["read"] => fin .read s ("read " ++ (if s.closed then "read-closed " else "") ++ (if s.closed ∧ passed s ∧ s.queued > 0 then "read-closed-expired-with-data " else "") ++ (if passed s ∧ s.queued > 0 then "read-expired-with-data " else "") ++ (if passed s then "read-after-expiry " else ""))
    | ["adv", dt] => fin (.advance (nat! dt)) { s with now := s.now + nat! dt }
        ("adv " ++ (match s.dl with | some t => (if s.now < t ∧ t ≤ s.now + nat! dt then (if s.blocked then "expires-while-blocked " else "expires-unobserved ") else "") | none => ""))
    | _ => (s, "bad-op")

end Driver.RDL
