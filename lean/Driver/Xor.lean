import Driver.Common
import TransportVerif.Model.Xor
/- driver component `xor`: case <id> <generic|old>;
   op: x <alias> <dOff> <aOff> <bOff> <dLen> <aLen> <bLen> <seed>   (offsets do not matter to a value model)
   out: n=<n> d=<hex> a=<hex> b=<hex> g=ok | panic -/
namespace Driver.Xor
open TV TV.Xor

def gen (len seed : Nat) : List UInt8 :=
  (List.range len).map (fun i => UInt8.ofNat (seed + i * 131 + (i / 256) * 7))

def render (r : Option (Mem × Nat)) : String :=
  match r with
  | none => "panic"
  | some (m, n) => "n=" ++ toString n ++ " d=" ++ hex m.dst ++ " a=" ++ hex m.a ++ " b=" ++ hex m.b ++ " g=ok"

def comp : Component where
  σ := Bool   -- true = the word-wise implementation of xor_old.go is the one compiled
  init := false
  reset := fun cfg => cfg.head? == some "old"
  step := fun old f =>
    match f with
    | ["x", al, _, _, _, dLen, aLen, bLen, seed] =>
      let a := gen (nat! aLen) (nat! seed)
      let b := gen (nat! bLen) (nat! seed + 77)
      let m : Mem := match al with
        | "dstA" => { dst := a, a := a, b := b, alias := .dstA }
        | "dstB" => { dst := b, a := a, b := b, alias := .dstB }
        | _ => { dst := gen (nat! dLen) (nat! seed + 33), a := a, b := b, alias := .none }
      let model := if old then xorBytesOld m else contract m
      let n := min a.length b.length
      let tags := (if al != "none" then "aliased " else "") ++ (if a.length != b.length then "unequal " else "") ++
        (if n ≥ 8 ∧ n % 8 ≠ 0 then "words+tail " else if n ≥ 8 then "words " else if n > 0 then "tail-only " else "empty ") ++
        (if m.dst.length < n then "dst-short " else if m.dst.length > n then "dst-longer " else "")
      (old, line4 (render model) "-" (render (contract m)) tags)
    | _ => (old, "bad-op")

end Driver.Xor
