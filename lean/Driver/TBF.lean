import Driver.Common
import TransportVerif.Model.TBF
/- driver component `tbf`:
   case <id> <rate bit/s> <maxBurst bytes> <queue bytes>
   ops: arr <dt ns> <size> # <ids the implementation forwarded during this op, comma separated or ->
        rate <r> | burst <b> | close # <ids> | end
   out: fwd <ids|-> ; state: <tokens as IEEE bits> q<len>/<bytes>
   The Float instance of the model is the one compared with the implementation; the oracle (rate bound
   over every sub-interval, order, no duplicates) judges the IMPLEMENTATION's forwards given after `#`. -/
namespace Driver.TBF
open TV TV.TBF

structure Fwd where
  time : Int
  id : Nat
  size : Nat
deriving Inhabited

structure St where
  r : Run Float
  q : Run Rat                    -- the exact model, run alongside (divergence from Float is tagged)
  nextId : Nat
  sizes : List (Nat × Nat)       -- id → size of every arrival
  fwds : List Fwd                -- implementation's forwards, oldest first
  rates : List (Int × Int)       -- (time, rate) changes, oldest first
  bursts : List (Int × Int)
  bad : Option String            -- order / duplicate / unknown-id violations seen so far

def idsStr (l : List Pkt) : String := if l.isEmpty then "-" else String.intercalate "," (l.map (fun p => toString p.id))

def stStr (t : TBF Float) : String :=
  String.ofList (Nat.toDigits 16 t.tokens.toBits.toNat) ++ " q" ++ toString t.queue.length ++ "/" ++ toString t.queueBytes

def parseIds (s : String) : List Nat := if s = "-" then [] else (s.splitOn ",").map nat!

/-- the largest value in force at some moment of the closed interval [t1, t2]: a value set at time
    `a` and replaced at time `b` is in force during [a, b] (both ends included, so that a change made
    at the very instant of a forward does not retroactively tighten the bound) -/
def maxInForce (changes : List (Int × Int)) (t1 t2 : Int) : Int :=
  let ends := (changes.drop 1).map (fun c => some c.1) ++ [none]
  let spans := changes.zip ends
  let vals := spans.filterMap (fun (c, e) =>
    let live : Bool := match e with | some x => decide (t1 ≤ x) | none => true
    if decide (c.1 ≤ t2) && live then some c.2 else none)
  vals.foldl max 0

/-- C15's rate bound over every pair of forwards i ≤ j: Σ sizes ≤ burst + rate·Δ/8 (Δ in ns) -/
def rateViolation (s : St) : Option String :=
  let fw := s.fwds.toArray
  let n := fw.size
  Id.run do
    let mut res : Option String := none
    for i in [0:n] do
      let mut sum : Nat := 0
      for j in [i:n] do
        sum := sum + fw[j]!.size
        let dt := fw[j]!.time - fw[i]!.time
        let b := maxInForce s.bursts fw[i]!.time fw[j]!.time
        let r := maxInForce s.rates fw[i]!.time fw[j]!.time
        -- sum ≤ b + r·dt/(8·10^9)  ⇔  sum·8·10^9 ≤ b·8·10^9 + r·dt   (one thousandth of a byte of slack for float rounding)
        if (sum : Int) * 8000000000 > b * 8000000000 + r * dt + 8000000 then
          if res.isNone then
            res := some ("rate-bound-violated:ids" ++ toString fw[i]!.id ++ ".." ++ toString fw[j]!.id ++ ":bytes=" ++ toString sum ++ ":dt_ns=" ++ toString dt ++ ":burst=" ++ toString b ++ ":rate=" ++ toString r)
    return res

def noteFwds (s : St) (ids : List Nat) (now : Int) : St :=
  ids.foldl (fun s id =>
    let size := ((s.sizes.find? (fun e => e.1 == id)).map (·.2))
    let lastId := s.fwds.getLast?.map (·.id)
    let bad := match s.bad with
      | some b => some b
      | none => match size with
        | none => some ("invented:" ++ toString id)
        | some _ => match lastId with
          | some l => if id ≤ l then some ("out-of-order-or-duplicate:" ++ toString id ++ "-after-" ++ toString l) else none
          | none => none
    { s with fwds := s.fwds ++ [{ time := now, id := id, size := size.getD 0 }], bad := bad }) s

def implIds (f : List String) : List String × List Nat :=
  match f.span (· ≠ "#") with
  | (op, _ :: rest) => (op, parseIds (rest.headD "-"))
  | (op, []) => (op, [])

def comp : Component where
  σ := St
  init := { r := { t := .new 0 0 0 0, now := 0 }, q := { t := .new 0 0 0 0, now := 0 }, nextId := 0, sizes := [], fwds := [], rates := [], bursts := [], bad := none }
  reset := fun cfg => match cfg with
    | [r, b, q] => { r := { t := .new (int! r) (int! b) (int! q) 0, now := 0 }, q := { t := .new (int! r) (int! b) (int! q) 0, now := 0 },
                     nextId := 0, sizes := [], fwds := [], rates := [(0, int! r)], bursts := [(0, int! b)], bad := none }
    | _ => { r := { t := .new 0 0 0 0, now := 0 }, q := { t := .new 0 0 0 0, now := 0 }, nextId := 0, sizes := [], fwds := [], rates := [], bursts := [], bad := none }
  step := fun s f =>
    let (op, impl) := implIds f
    let run (o : Op) (s : St) (tags : String) : St × String :=
      let (r', out) := s.r.step o
      let (q', outq) := s.q.step o
      let s1 := { s with r := r', q := q' }
      let s2 := noteFwds s1 impl r'.now
      let div := if out.map (·.id) != outq.map (·.id) then "float-rat-divergence " else ""
      (s2, line4 ("fwd " ++ idsStr out) (stStr r'.t) "*" (tags ++ div ++ (if out.length > 1 then "multi-forward " else "") ++
         (if r'.t.queue.length > 0 then "queued " else "")))
    match op with
    | ["arr", dt, size] =>
      let p : Pkt := { id := s.nextId, size := nat! size }
      let full := s.r.t.queueMax > 0 ∧ ((s.r.t.queueBytes + p.size : Nat) : Int) ≥ s.r.t.queueMax
      run (.arrive (nat! dt) p) { s with nextId := s.nextId + 1, sizes := s.sizes ++ [(p.id, p.size)] }
        ("arrive " ++ (if full then "dropped-queue-full " else "") ++ (if nat! dt == 0 then "burst-arrival " else if nat! dt ≥ 1000000000 then "after-idle " else ""))
    | ["rate", r] => run (.setRate (int! r)) { s with rates := s.rates ++ [(s.r.now, int! r)] } "set-rate "
    | ["burst", b] => run (.setBurst (int! b)) { s with bursts := s.bursts ++ [(s.r.now, int! b)] } "set-burst "
    | ["close"] => run .close s "close "
    | ["end"] =>
      let verdict := match s.bad with
        | some b => b
        | none => match rateViolation s with | some v => v | none => "end"
      (s, line4 "end" "-" verdict "end ")
    | _ => (s, "bad-op")

end Driver.TBF
