import Driver.Common
import TransportVerif.Model.Bridge
import TransportVerif.Model.DPipe
/- driver components `bridge` and `dpipe`.
   bridge ops: w <d> <hex> | rd <d> <n> | reorder <d> | drop <d> <off> <n> | dropnext <d> <n> | reordernext <d> <n>
               | filter <d> <m> <r> | nofilter <d>
     out: - | got <hex> | none | reorder ok|err ; each followed by ` l=<len0>,<len1>`; state: stack/drop/reorder counters
   dpipe ops: w <e> <hex> | r <e> <n> | close <e>
     out: ok <n> | closed | block | got <hex> | eof | - -/
namespace Driver.Pipe
open TV TV.PipeSpec

structure BSt where
  m : Bridge.Bridge
  l0 : Lane
  l1 : Lane

def lens (a b : Nat) : String := " l=" ++ toString a ++ "," ++ toString b

def bstate (b : Bridge.Bridge) : String :=
  toString b.stack0.length ++ "," ++ toString b.stack1.length ++ " " ++ toString b.dropNWrites0 ++ "," ++
  toString b.dropNWrites1 ++ " " ++ toString b.reorderNWrites0 ++ "," ++ toString b.reorderNWrites1

def bridge : Component where
  σ := BSt
  init := { m := .new, l0 := .new, l1 := .new }
  reset := fun _ => { m := .new, l0 := .new, l1 := .new }
  step := fun s f =>
    -- apply a lane update to the lane of direction d
    let upd (d : Nat) (g : Lane → Lane) : Lane × Lane := if d = 0 then (g s.l0, s.l1) else (s.l0, g s.l1)
    let fin (m' : Bridge.Bridge) (ls : Lane × Lane) (out sout tags : String) : BSt × String :=
      ({ m := m', l0 := ls.1, l1 := ls.2 },
       line4 (out ++ lens (m'.len 0) (m'.len 1)) (bstate m') (sout ++ lens ls.1.inflight.length ls.2.inflight.length) tags)
    match f with
    | ["w", d, h] =>
      let d := nat! d; let x := unhex h
      let lane := if d = 0 then s.l0 else s.l1
      let tags := (if lane.pendingDrop > 0 then "dropped-by-count " else if lane.pendingReorder > 0 then
          (if lane.pendingReorder == 1 then "block-complete " else "block-collect ") ++ (if lane.block.length + 1 == 1 ∧ lane.pendingReorder == 1 then "block-of-one " else "")
        else if !Filter.accepts lane.filter x then "filtered " else "queued ")
      fin (s.m.push d x) (upd d (·.write x)) "-" "-" tags
    | ["rd", d, n] =>
      let d := nat! d; let n := nat! n
      let (m', got) := s.m.deliver d n
      let lane := if d = 0 then s.l0 else s.l1
      let (lane', sgot) := lane.deliver n
      let render := fun (g : Option Msg) => match g with | some x => "got " ++ hex x | none => "none"
      let tags := match sgot with | some x => (if (lane.inflight.head?.map (·.length)).getD 0 > x.length then "cut " else "delivered ") | none => "empty "
      fin m' (if d = 0 then (lane', s.l1) else (s.l0, lane')) (render got) (render sgot) tags
    | ["reorder", d] =>
      let d := nat! d
      let (m', ok) := s.m.reorder d
      let lane := if d = 0 then s.l0 else s.l1
      let (lane', sok) := lane.reorder
      fin m' (if d = 0 then (lane', s.l1) else (s.l0, lane')) (if ok then "reorder ok" else "reorder err") (if sok then "reorder ok" else "reorder err")
        (if sok then "reorder-queue " else "reorder-short ")
    | ["drop", d, o, n] =>
      let d := nat! d
      let lane := if d = 0 then s.l0 else s.l1
      let tags := if int! o ≥ lane.inflight.length then "drop-beyond " else if int! o + int! n > lane.inflight.length then "drop-clamped " else
        if int! n ≤ 0 then "drop-nothing " else "drop-inside "
      fin (s.m.drop d (int! o) (int! n)) (upd d (·.drop (int! o) (int! n))) "-" "-" tags
    | ["dropnext", d, n] =>
      fin (s.m.dropNext (nat! d) (int! n)) (upd (nat! d) (fun l => { l with pendingDrop := int! n })) "-" "-" "dropnext "
    | ["reordernext", d, n] =>
      let lane := if nat! d = 0 then s.l0 else s.l1
      fin (s.m.reorderNext (nat! d) (int! n)) (upd (nat! d) (fun l => { l with pendingReorder := int! n })) "-" "-"
        ("reordernext " ++ (if lane.block.length > 0 then "reordernext-during-block " else "") ++ (if int! n == 1 then "reordernext-one " else ""))
    | ["filter", d, m, r] =>
      let flt : Option Filter := some { m := nat! m, r := nat! r }
      fin (s.m.setFilter (nat! d) flt) (upd (nat! d) (fun l => { l with filter := flt })) "-" "-" "filter "
    | ["nofilter", d] =>
      fin (s.m.setFilter (nat! d) none) (upd (nat! d) (fun l => { l with filter := none })) "-" "-" "filter "
    | _ => (s, "bad-op")

structure DSt where
  m : DPipe.Pipe
  s : DPipe

def wres : WRes → String
  | .ok n => "ok " ++ toString n | .closedPipe => "closed" | .wouldBlock => "block"
def rres : RRes → String
  | .ok b => "got " ++ hex b | .eof => "eof" | .wouldBlock => "block"

def dpipe : Component where
  σ := DSt
  init := { m := .new, s := .new }
  reset := fun _ => { m := .new, s := .new }
  step := fun st f =>
    let stt (m : DPipe.Pipe) : String := toString m.ch0.length ++ "," ++ toString m.ch1.length
    match f with
    | ["w", e, h] =>
      let (m', r) := st.m.write (nat! e) (unhex h)
      let (s', sr) := st.s.write (nat! e) (unhex h)
      ({ m := m', s := s' }, line4 (wres r) (stt m') (wres sr)
        (match r with | .ok _ => (if (if nat! e = 0 then st.m.closed1 else st.m.closed0) then "write-to-closed-peer " else "write ") | .closedPipe => "write-closed " | .wouldBlock => "write-full "))
    | ["r", e, n] =>
      let (m', r) := st.m.read (nat! e) (nat! n)
      let (s', sr) := st.s.read (nat! e) (nat! n)
      ({ m := m', s := s' }, line4 (rres r) (stt m') (rres sr)
        (match r with | .ok b => (if (if nat! e = 0 then st.m.closed1 else st.m.closed0) then "read-after-peer-close " else "") ++ (if b.length == nat! n then "read-cut-or-exact " else "read ") | .eof => "eof " | .wouldBlock => "block "))
    | ["close", e] =>
      let m' := st.m.close (nat! e)
      ({ m := m', s := st.s.close (nat! e) }, line4 "-" (stt m') "-" "close ")
    | _ => (st, "bad-op")

end Driver.Pipe
