import Driver.Common
import Driver.Replay
import Driver.Ring

def main (args : List String) : IO UInt32 := do
  match args with
  | ["replay", mode] => Driver.runComponent (Driver.Replay.comp mode); return 0
  | ["ring"] => Driver.runComponent Driver.Ring.comp; return 0
  | _ => IO.eprintln "usage: vdrv <component> [args]"; return 2
