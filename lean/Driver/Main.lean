import Driver.Common
import Driver.Replay
import Driver.Ring
import Driver.Loss
import Driver.Xor
import Driver.Pipe
import Driver.Nat
import Driver.Addressing
import Driver.Deadline
import Driver.TBF
import Driver.BufSync
import Driver.Delay
import Driver.RDL
import Driver.Listener
import Driver.Life
import Driver.Ctx
import Driver.Vnet

def main (args : List String) : IO UInt32 := do
  match args with
  | ["replay", mode] => Driver.runComponent (Driver.Replay.comp mode); return 0
  | ["ring"] => Driver.runComponent Driver.Ring.comp; return 0
  | ["loss"] => Driver.runComponent Driver.Loss.comp; return 0
  | ["xor"] => Driver.runComponent Driver.Xor.comp; return 0
  | ["bridge"] => Driver.runComponent Driver.Pipe.bridge; return 0
  | ["dpipe"] => Driver.runComponent Driver.Pipe.dpipe; return 0
  | ["nat", mode] => Driver.runComponent (Driver.Nat.comp mode); return 0
  | ["router"] => Driver.runComponent Driver.Addressing.router; return 0
  | ["host"] => Driver.runComponent Driver.Addressing.host; return 0
  | ["deadline"] => Driver.runComponent Driver.Deadline.comp; return 0
  | ["tbf"] => Driver.runComponent Driver.TBF.comp; return 0
  | ["bufsync"] => Driver.runComponent Driver.BufSync.comp; return 0
  | ["delay"] => Driver.runComponent Driver.Delay.comp; return 0
  | ["rdl"] => Driver.runComponent Driver.RDL.comp; return 0
  | ["listener"] => Driver.runComponent Driver.Listener.comp; return 0
  | ["life"] => Driver.runComponent Driver.Life.comp; return 0
  | ["ctx"] => Driver.runComponent Driver.Ctx.comp; return 0
  | ["vnet"] => Driver.runComponent Driver.Vnet.comp; return 0
  | _ => IO.eprintln "usage: vdrv <component> [args]"; return 2
