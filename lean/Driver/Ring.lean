import Driver.Common
import TransportVerif.Model.Ring
import TransportVerif.Spec.Ring
/- driver component `ring`:
   case <id> <hard:0|1>
   w <hex> | wg <len> <seed> | r <dstLen> | close | lc <int> | ls <int>
   out: <res> c=<Count> s=<Size>;  res: ok <n> | toobig | closed | full | ok <len>:<hash> | short <len>:<hash> | eof | block | -
   state: head tail len count -/
namespace Driver.Ring
open TV TV.Ring

structure St where
  m : Ring.Ring
  f : RingSpec.Fifo
  hard : Bool

def fnv (bs : List UInt8) : UInt64 :=
  bs.foldl (fun h b => (h ^^^ b.toUInt64) * 1099511628211) 14695981039346656037

def hexU64 (w : UInt64) : String := String.ofList (Nat.toDigits 16 w.toNat)

def bytesStr (bs : List UInt8) : String := toString bs.length ++ ":" ++ hexU64 (fnv bs)

/-- deterministic payload: the same generator is in the Go harness -/
def genBytes (len seed : Nat) : List UInt8 :=
  (List.range len).map (fun i => UInt8.ofNat (seed + i * 131 + (i / 256) * 7))

def wres : Ring.WriteRes → String
  | .ok n => "ok " ++ toString n | .tooBig => "toobig" | .closedPipe => "closed" | .full => "full"
def rres : Ring.ReadRes → String
  | .ok b => "ok " ++ bytesStr b | .short b => "short " ++ bytesStr b | .eof => "eof" | .wouldBlock => "block"
def swres : RingSpec.WriteRes → String
  | .ok n => "ok " ++ toString n | .tooBig => "toobig" | .closedPipe => "closed" | .full => "full"
def srres : RingSpec.ReadRes → String
  | .ok b => "ok " ++ bytesStr b | .short b => "short " ++ bytesStr b | .eof => "eof" | .wouldBlock => "block"

def occ (c s : Nat) : String := " c=" ++ toString c ++ " s=" ++ toString s

def stateStr (r : Ring.Ring) : String :=
  toString r.head ++ " " ++ toString r.tail ++ " " ++ toString r.data.size ++ " " ++ toString r.count

/-- the scalar part of a ring (so that tags can be computed after the ring itself was consumed) -/
structure Geo where
  head : Nat
  tail : Nat
  len : Nat
  count : Nat
  size : Nat
  limitCount : Int
  limitSize : Int
  closed : Bool

def geo (r : Ring.Ring) : Geo :=
  { head := r.head, tail := r.tail, len := r.data.size, count := r.count, size := r.size,
    limitCount := r.limitCount, limitSize := r.limitSize, closed := r.closed }

def writeTags (r : Geo) (p : List UInt8) (res : Ring.WriteRes) (after : Geo) : String :=
  match res with
  | .ok _ =>
    let grew := after.len != r.len
    let g := if grew then
        (if r.head != r.tail then "grow-with-data " else "grow-empty ") ++
        (if r.tail < r.head then "grow-discontinuous " else "") ++
        (if after.len ≥ Ring.cutoffSize then "grow-above-cutoff " else "")
      else ""
    let t0 := if grew then r.size else r.tail
    let len := after.len
    g ++ (if t0 + 1 == len then "wrap-header-split " else if t0 + 2 == len then "wrap-after-header " else "") ++
      (if t0 + 2 < len ∧ t0 + 2 + p.length > len then "wrap-payload " else "") ++
      (if t0 + 2 + p.length == len then "payload-ends-at-end " else "") ++
      (if p.length == 0 then "empty-packet " else "") ++
      (if p.length ≥ 60000 then "huge-packet " else "")
  | .full =>
    (if r.limitCount > 0 ∧ (r.count : Int) ≥ r.limitCount then "full-count " else "") ++
    (if r.limitSize > 0 ∧ ((r.size + 2 + p.length : Nat) : Int) > r.limitSize then "full-size " else "") ++
    (if r.size + 2 + p.length + 1 > Ring.maxSize then "full-cap " else "") ++
    (if r.limitSize > 0 ∧ ((r.size + 2 + p.length : Nat) : Int) == r.limitSize + 1 then "full-by-one " else "")
  | .tooBig => "toobig "
  | .closedPipe => "closed-write "

def readTags (r : Geo) (n : Nat) (res : Ring.ReadRes) : String :=
  match res with
  | .ok b | .short b =>
    let len := r.len
    (if r.head + 1 == len then "read-header-split " else "") ++
    (if r.head + 2 < len ∧ r.head + 2 + b.length ≥ len ∧ b.length > 0 then "read-wrap " else "") ++
    (match res with | .short _ => "short-read " | _ => "") ++
    (if n == 0 then "read-into-empty " else "") ++
    (if r.closed then "read-after-close " else "") ++
    (if r.count == 1 then "read-empties " else "")
  | .eof => "eof "
  | .wouldBlock => "block "

def exactFit (r : Geo) (p : List UInt8) : String :=
  (if r.limitSize > 0 ∧ ((r.size + 2 + p.length : Nat) : Int) == r.limitSize then "fits-size-exactly " else "") ++
  (if r.limitCount > 0 ∧ (r.count : Int) + 1 == r.limitCount then "fits-count-exactly " else "") ++
  (if r.limitSize ≤ 0 ∧ r.size + 2 + p.length + 1 == Ring.maxSize then "fits-cap-exactly " else "")

def doWrite (m : Ring.Ring) (fifo : RingSpec.Fifo) (hard : Bool) (p : List UInt8) : St × String :=
  let pre := geo m
  let (m', res) := m.write p
  let (f', sres) := fifo.write hard p
  let post := geo m'
  ({ m := m', f := f', hard },
   line4 (wres res ++ occ post.count post.size) (stateStr m') (swres sres ++ occ f'.count f'.size)
     (writeTags pre p res post ++ (match res with | .ok _ => exactFit pre p | _ => "")))

def doRead (m : Ring.Ring) (fifo : RingSpec.Fifo) (hard : Bool) (n : Nat) : St × String :=
  let pre := geo m
  let (m', res) := m.read n
  let (f', sres) := fifo.read n
  ({ m := m', f := f', hard },
   line4 (rres res ++ occ m'.count m'.size) (stateStr m') (srres sres ++ occ f'.count f'.size) (readTags pre n res))

def simple (m' : Ring.Ring) (f' : RingSpec.Fifo) (hard : Bool) (tag : String) : St × String :=
  ({ m := m', f := f', hard }, line4 ("-" ++ occ m'.count m'.size) (stateStr m') ("-" ++ occ f'.count f'.size) tag)

def stepSt (s : St) (f : List String) : St × String :=
  match s with
  | { m, f := fifo, hard } =>
    match f with
    | ["w", h] => doWrite m fifo hard (unhex h)
    | ["wg", l, sd] => doWrite m fifo hard (genBytes (nat! l) (nat! sd))
    | ["r", n] => doRead m fifo hard (nat! n)
    | ["close"] => simple m.close { fifo with closed := true } hard "close "
    | ["lc", l] => simple (m.setLimitCount (int! l)) { fifo with limitCount := int! l } hard "limit-change "
    | ["ls", l] => simple (m.setLimitSize (int! l)) { fifo with limitSize := int! l } hard "limit-change "
    | _ => ({ m, f := fifo, hard }, "bad-op")

def comp : Component where
  σ := St
  init := { m := .new false, f := .new, hard := false }
  reset := fun cfg =>
    let hard := cfg.head? == some "1"
    { m := .new hard, f := .new, hard }
  step := stepSt

end Driver.Ring
