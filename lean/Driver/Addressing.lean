import Driver.Common
import Driver.Nat
import TransportVerif.Model.Addressing
import TransportVerif.Spec.Addressing
/- driver components `router` and `host` (C13).
   router: case <id> <netIP> <maskBits>; ops: static <ip,ip,…> | auto ; out: ok <ips> | exhausted | beyond
   host:   case <id> <ip,ip,…>; ops: bind <ip> <port> <offset> | close <k> | probe <ip> <port>
           out: ok <ip>:<port> | cantassign | inuse | exhausted | - | sock <k> | none -/
namespace Driver.Addressing
open TV TV.Addressing Driver.Nat

def ipList (s : String) : List Nat := if s = "-" then [] else (s.splitOn ",").map parseIP
def showIPs (l : List Nat) : String := String.intercalate "," (l.map showIP)
def sortedIPs (l : List Nat) : String := showIPs (l.toArray.qsort (· < ·)).toList

structure RSt where
  m : Router
  s : AddressingSpec.RouterS

def router : Component where
  σ := RSt
  init := { m := .new 0 24, s := { netIP := 0, maskBits := 24, taken := [] } }
  reset := fun cfg => match cfg with
    | [ip, b] => { m := .new (parseIP ip) (nat! b), s := { netIP := parseIP ip, maskBits := nat! b, taken := [] } }
    | _ => { m := .new 0 24, s := { netIP := 0, maskBits := 24, taken := [] } }
  step := fun st f =>
    let res (r : AssignRes) : String := match r with | .ok ips => "ok " ++ showIPs ips | .exhausted => "exhausted" | .beyondSubnet => "beyond"
    let stStr (m : Router) : String := toString m.lastID ++ " " ++ sortedIPs m.nics
    let fin (m' : Router) (r : AssignRes) (spec tags : String) : RSt × String :=
      -- the recorder follows the observed outcome
      let taken' := match r with | .ok ips => st.s.taken ++ ips.filter (fun i => !st.s.taken.contains i) | _ => m'.nics
      ({ m := m', s := { st.s with taken := taken' } }, line4 (res r) (stStr m') spec tags)
    match f with
    | ["static", ips] =>
      let l := ipList ips
      let (m', r) := st.m.addNIC l
      let spec := if l.all st.s.inSubnet then "ok " ++ showIPs l else "beyond"
      fin m' r spec ("static " ++ (if l.any (fun ip => st.s.pool.contains ip) then "static-in-auto-range " else "") ++ (if l.length > 1 then "multi " else ""))
    | ["auto"] =>
      let (m', r) := st.m.addNIC []
      let freeOut := st.s.pool.filter (fun ip => !st.s.taken.contains ip ∧ !st.s.inSubnet ip)
      let spec := "anyip:" ++ showIP st.s.netIP ++ "/" ++ toString st.s.maskBits ++ ":!" ++ showIPs st.s.taken ++
        (if st.s.exhaustedOk then ";exhausted" else "") ++ (if !freeOut.isEmpty then ";beyond" else "")
      let skipped := match r with | .ok [ip] => decide (ip % 256 > st.m.lastID + 1) | _ => false
      fin m' r spec ("auto " ++ (if skipped then "auto-skips-static " else "") ++ (match r with | .exhausted => "exhausted " | .beyondSubnet => "auto-beyond " | _ => ""))
    | _ => (st, "bad-op")

structure HSt where
  m : Host
  socks : List Sock            -- model sockets in creation order (closed ones included), index = k
  s : AddressingSpec.HostS
  sids : List Nat              -- ids parallel to s.open_

def host : Component where
  σ := HSt
  init := { m := .new [], socks := [], s := { ips := [], open_ := [] }, sids := [] }
  reset := fun cfg => match cfg with
    | [ips] => { m := .new (ipList ips), socks := [], s := { ips := ipList ips, open_ := [] }, sids := [] }
    | _ => { m := .new [], socks := [], s := { ips := [], open_ := [] }, sids := [] }
  step := fun st f =>
    let stStr (m : Host) : String :=
      String.intercalate ";" ((m.portMap.map (fun e => toString e.1 ++ "=" ++ String.intercalate "," (e.2.map (fun c => showIP c.ip)))).toArray.qsort (· < ·)).toList
    match f with
    | ["bind", ip, port, off] =>
      let ip := parseIP ip; let port := nat! port
      let (m', r) := st.m.bind ip port (nat! off)
      let out := match r with | .ok s => "ok " ++ showIP s.ip ++ ":" ++ toString s.port | .cantAssign => "cantassign" | .inUse => "inuse" | .exhausted => "exhausted"
      let spec :=
        if !st.s.owns ip then "cantassign"
        else if port ≠ 0 then (if st.s.free ({ ip := ip, port := port } : AddressingSpec.SockS) then "ok " ++ showIP ip ++ ":" ++ toString port else "inuse")
        else
          let fp := st.s.freePorts ip
          if fp.isEmpty then "exhausted"
          else "fresh:" ++ showIP ip ++ ":5000-5999:!" ++ String.intercalate "," ((((List.range 1000).map (· + 5000)).filter (fun p => !fp.contains p)).map toString)
      let upd : List Sock × AddressingSpec.HostS × List Nat := match r with
        | .ok s => (st.socks ++ [s], ({ st.s with open_ := st.s.open_ ++ [({ ip := s.ip, port := s.port } : AddressingSpec.SockS)] } : AddressingSpec.HostS), st.sids ++ [s.id])
        | _ => (st.socks, st.s, st.sids)
      let socks' := upd.1
      let s' := upd.2.1
      let sids' := upd.2.2
      let tags := (if ip = 0 then "wildcard " else "") ++ (if port = 0 then "ephemeral " else "explicit ") ++
        (match r with | .inUse => "conflict " | .exhausted => "exhausted " | .cantAssign => "foreign-ip " | .ok s => (if port = 0 ∧ s.port ≠ (nat! off) % 1000 + 5000 then "ephemeral-skips-used " else "")) ++
        (if st.s.open_.any (fun o => o.port == port ∧ o.ip ≠ ip ∧ o.ip ≠ 0 ∧ ip ≠ 0) then "same-port-other-ip " else "")
      ({ m := m', socks := socks', s := s', sids := sids' }, line4 out (stStr m') spec tags)
    | ["close", k] =>
      match st.socks[nat! k]? with
      | none => (st, line4 "-" (stStr st.m) "-" "close-unknown ")
      | some s =>
        let m' := st.m.close s
        -- spec: the socket leaves the open set (a second Close of the same socket finds nothing)
        let idx := st.sids.idxOf s.id
        let open' := if idx < st.sids.length then st.s.open_.eraseIdx idx else st.s.open_
        let sids' := if idx < st.sids.length then st.sids.eraseIdx idx else st.sids
        ({ st with m := m', s := { st.s with open_ := open' }, sids := sids' }, line4 "-" (stStr m') "-" "close ")
    | ["probe", ip, port] =>
      let ip := parseIP ip; let port := nat! port
      let out := match st.m.find ip port with | some s => "sock " ++ toString s.id | none => "none"
      let cov := (st.s.open_.zip st.sids).filter (fun e => e.1.port == port && (e.1.ip == 0 || e.1.ip == ip))
      let spec := match cov with | [] => "none" | [e] => "sock " ++ toString e.2 | _ => "ambiguous"
      (st, line4 out (stStr st.m) spec (match cov with | [] => "probe-none " | _ => "probe-hit "))
    | _ => (st, "bad-op")

end Driver.Addressing
