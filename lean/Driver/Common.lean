/-
Line protocol shared by all driver components (DESIGN.md section 3, E2).
Input: one operation per line, `case <id> <cfg…>` starts a new case.
Output: one line per input line, `<model out> | <model state> | <spec out> | <tags>`.
-/
namespace Driver

def fields (line : String) : List String :=
  (line.splitOn " ").filter (· ≠ "")

def hexDigit (c : Char) : Nat :=
  if '0' ≤ c ∧ c ≤ '9' then c.toNat - '0'.toNat
  else if 'a' ≤ c ∧ c ≤ 'f' then c.toNat - 'a'.toNat + 10
  else if 'A' ≤ c ∧ c ≤ 'F' then c.toNat - 'A'.toNat + 10
  else 0

partial def unhexAux : List Char → List UInt8 → List UInt8
  | h :: l :: rest, acc => unhexAux rest (UInt8.ofNat (hexDigit h * 16 + hexDigit l) :: acc)
  | _, acc => acc.reverse

def unhex (s : String) : List UInt8 :=
  if s = "-" then [] else unhexAux s.toList []

def hexChar (n : Nat) : Char :=
  if n < 10 then Char.ofNat (n + '0'.toNat) else Char.ofNat (n - 10 + 'a'.toNat)

def hex (bs : List UInt8) : String :=
  if bs.isEmpty then "-" else
  String.ofList (bs.foldr (fun b acc => hexChar (b.toNat / 16) :: hexChar (b.toNat % 16) :: acc) [])

def nat! (s : String) : Nat := s.toNat?.getD 0
def int! (s : String) : Int := s.toInt?.getD 0

def line4 (out st spec tags : String) : String :=
  out ++ " | " ++ st ++ " | " ++ spec ++ " | " ++ tags

/-- A component: a state, reset on `case`, stepped on every other line. -/
structure Component where
  σ : Type
  init : σ
  /-- `case` line (fields after the id) -/
  reset : List String → σ
  step : σ → List String → σ × String

partial def loop (c : Component) (h : IO.FS.Stream) (out : IO.FS.Stream) (s : c.σ) : IO Unit := do
  let line ← h.getLine
  if line.isEmpty then return ()
  let f := fields (line.trimAsciiEnd.toString)
  match f with
  | "case" :: id :: cfg =>
    out.putStrLn ("case " ++ id)
    loop c h out (c.reset cfg)
  | [] =>
    out.putStrLn "bad-op"
    loop c h out s
  | _ =>
    let (s', o) := c.step s f
    out.putStrLn o
    loop c h out s'

def runComponent (c : Component) : IO Unit := do
  let i ← IO.getStdin
  let o ← IO.getStdout
  loop c i o c.init
  o.flush

end Driver
