import Driver.Common
import TransportVerif.Model.Listener
import TransportVerif.Spec.Listener
/- driver component `listener`: case <id> <backlog> <filter m r | ->;
   ops: arr <remote> <hex> | accept | read <conn> <n> | cclose <conn> | lclose
   out: - | conn <id> | closed | block | got <hex> | eof | noconn ; state: conns map, accept queue length -/
namespace Driver.Listener
open TV

structure St where
  m : Listener.L
  s : ListenerSpec.S
  accepted : List Nat := []   -- a client only holds connections that Accept returned

def aStr : Listener.AcceptRes → String | .conn i => "conn " ++ toString i | .closedListener => "closed" | .wouldBlock => "block"
def rStr : Listener.ReadRes → String | .data p => "got " ++ hex p | .eof => "eof" | .wouldBlock => "block" | .noSuchConn => "noconn"
def saStr : ListenerSpec.AcceptRes → String | .conn i => "conn " ++ toString i | .closedListener => "closed" | .wouldBlock => "block"
def srStr : ListenerSpec.ReadRes → String | .data p => "got " ++ hex p | .eof => "eof" | .wouldBlock => "block" | .noSuchConn => "noconn"

def stStr (l : Listener.L) : String :=
  "q" ++ toString l.acceptQ.length ++ " " ++
    String.intercalate "," ((l.conns.map (fun e => toString e.1 ++ ">" ++ toString e.2)).toArray.qsort (· < ·)).toList

def mk (cfg : List String) : St :=
  match cfg with
  | [b, "-"] => { m := .new (nat! b) none, s := .new (nat! b) none }
  | [b, m, r] => { m := .new (nat! b) (some (nat! m, nat! r)), s := .new (nat! b) (some (nat! m, nat! r)) }
  | _ => { m := .new 0 none, s := .new 0 none }

def comp : Component where
  σ := St
  init := mk []
  reset := mk
  step := fun st f =>
    match f with
    | ["arr", rm, h] =>
      let rm := nat! rm; let p := unhex h
      let known := (st.s.openFor rm).isSome
      let m' := st.m.dispatch rm p
      let created := m'.nextId > st.m.nextId
      let tags := if known then "to-existing " else if created then ("creates-conn " ++ (if st.s.conns.any (fun c => c.remote == rm) then "fresh-after-close " else "")) else
        ("discarded " ++ (if !st.m.accepting then "listener-closed " else if !Listener.admits st.m.filter p then "filtered " else "backlog-full "))
      ({ st with m := m', s := st.s.arrive rm p }, line4 "-" (stStr m') "-" tags)
    | ["accept"] =>
      let (m', r) := st.m.accept
      let (s', sr) := st.s.accept
      let acc := match r with | .conn i => st.accepted ++ [i] | _ => st.accepted
      ({ m := m', s := s', accepted := acc }, line4 (aStr r) (stStr m') (saStr sr) (match r with | .conn _ => "accepted " | .closedListener => "accept-after-close " | .wouldBlock => "accept-empty "))
    | ["read", id, _] =>
      if !st.accepted.contains (nat! id) then (st, line4 "noconn" (stStr st.m) "noconn" "not-accepted ") else
      let n := f.getD 2 "0"
      let (m', r) := st.m.read (nat! id) (nat! n)
      let (s', sr) := st.s.read (nat! id) (nat! n)
      ({ st with m := m', s := s' }, line4 (rStr r) (stStr m') (srStr sr) (match r with | .data _ => "read-data " | .eof => "read-eof " | _ => "read-other "))
    | ["cclose", id] =>
      if !st.accepted.contains (nat! id) then (st, line4 "-" (stStr st.m) "-" "not-accepted ") else
      let m' := st.m.connClose (nat! id)
      ({ st with m := m', s := st.s.connClose (nat! id) }, line4 "-" (stStr m') "-" "conn-close ")
    | ["lclose"] =>
      let m' := st.m.close
      ({ st with m := m', s := st.s.close }, line4 "-" (stStr m') "-" ("listener-close " ++ (if !st.m.acceptQ.isEmpty then "discards-unaccepted " else "")))
    | _ => (st, "bad-op")

end Driver.Listener
