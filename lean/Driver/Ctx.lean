import Driver.Common
import TransportVerif.Model.Ctx
import TransportVerif.Link.Ctx
/- driver component `ctx` (C17):
   case <id> <flavour>
   ops: begin r|w <want> <ctx already cancelled 0|1> | m | w | wc | cancel | data <k>
        | fin # n=<n> err=<nil|ctx|timeout|other> moved=<bytes that left the wrapped conn> cancelled=<0|1> old=<0|1> order=<0|1>
        | end # stuck=<0|1>
   out: M=<caller pc> W=<watcher pc> old=<0|1> avail=<n> res=<n>,<err> | -
   `wc`: the watcher's select had both cases ready and Go took ctx.Done() (reported by the harness) -/
namespace Driver.Ctx
open TV TV.Ctx

structure St where
  o : Op
  isRead : Bool
  rAvail : Nat
  wAvail : Nat
  active : Bool
  streamWrites : Bool := true                  -- flavour: conn and connctx write streams, the packet wrapper datagrams
  q : Option (Nat × Bool × Bool) := none       -- a second operation queued on the wrapper's mutex: want, cancelled, has been scheduled

def mpc : MPc → String
  | .start => "start" | .inCall => "inCall" | .atWait => "atWait" | .parkedWait => "parkedWait" | .finished => "finished"
def wpc : WPc → String
  | .none => "none" | .start => "start" | .atSelect => "atSelect" | .parkedSelect => "parkedSelect"
  | .atRecv => "atRecv" | .parkedRecv => "parkedRecv" | .exited => "exited"
def errStr : Err → String | .nil => "nil" | .timeout => "timeout" | .ctx => "ctx"

def qStr (st : St) : String :=
  match st.q with
  | none => "-"
  | some (_, _, granted) => if granted then "lockWait" else "start"

def show_ (o : Op) : String :=
  "M=" ++ mpc o.main ++ " W=" ++ wpc o.watcher ++ " old=" ++ (if o.deadlineOld then "1" else "0") ++ " avail=" ++ toString o.avail ++
  " res=" ++ (match o.result with | some (n, e) => toString n ++ "," ++ errStr e | none => "-")

def kv (s : String) : String := ((s.splitOn "=").getD 1 "")

/-- C17 on the implementation's own report of a completed operation -/
def judgeFin (f : List String) : String :=
  match f with
  | [n, err, moved, canc, old, order, want] =>
    let n := nat! (kv n); let err := kv err; let moved := nat! (kv moved); let want := nat! (kv want)
    let canc := kv canc == "1"; let old := kv old == "1"
    if n ≠ moved then "reported-" ++ toString n ++ "-bytes-but-" ++ toString moved ++ "-were-transferred"
    else if kv order ≠ "1" then "bytes-out-of-order"
    else if err == "ctx" ∧ !canc then "context-error-without-cancellation"
    else if err == "ctx" ∧ n ≠ 0 then "context-error-with-bytes"
    else if err == "timeout" ∧ !canc then "timed-out-by-a-leftover-deadline"
    else if err == "timeout" ∧ !(0 < n ∧ n < want) then "raw-timeout-instead-of-context-error"
    else if err == "other" then "unexpected-error"
    else if old then "leftover-deadline-on-the-wrapped-connection"
    else if !canc ∧ n == 0 then "returned-without-data-or-cancellation"
    else "fin"
  | _ => "bad-fin-line"

def comp : Component where
  σ := St
  init := { o := Op.new 0 0 false, isRead := true, rAvail := 0, wAvail := 0, active := false }
  reset := fun cfg => { o := Op.new 0 0 false, isRead := true, rAvail := 0, wAvail := 0, active := false, streamWrites := cfg != ["packet"] }
  step := fun st f =>
    let stepWith (s : Step) (tags : String) : St × String :=
      let o' := step st.o s
      let tags := tags ++
        (if o'.main == .finished ∧ st.o.main != .finished then
          (match o'.result with
           | some (0, .ctx) => "returns-ctx-error "
           | some (_, .nil) => if o'.cancelled then "returns-data-despite-cancel " else "returns-data "
           | _ => "returns-other ") else "") ++
        (if o'.deadlineOld ∧ !st.o.deadlineOld then "deadline-forced " else "") ++
        (if !o'.deadlineOld ∧ st.o.deadlineOld then "deadline-restored " else "")
      -- when the operation returns, a queued caller that is already in the mutex goes on by itself
      let st' := { st with o := o' }
      ({ st' with o := o' }, line4 (show_ o' ++ " Q=" ++ (if o'.main == .finished ∧ st.q.any (·.2.2) then "inCall" else qStr st')) "-" "*" tags)
    match f with
    | ["begin", rw, want, canc] =>
      if st.active ∧ st.o.main != .finished then (st, line4 (show_ st.o ++ " Q=" ++ qStr st) "-" "*" "begin-ignored ") else
      let isRead := rw == "r"
      -- bytes the wrapped connection still holds carry over; so would a leftover deadline
      let st1 := if st.active then (if st.isRead then { st with rAvail := st.o.avail } else { st with wAvail := st.o.avail }) else st
      let o := { Op.new (nat! want) (if isRead then st1.rAvail else st1.wAvail) (canc == "1") (!isRead && st.streamWrites) with
                 deadlineOld := st.active ∧ st.o.deadlineOld ∧ st.isRead == isRead }
      let st2 := { st1 with o := o, isRead := isRead, active := true, q := none }
      (st2, line4 (show_ o ++ " Q=-") "-" "*" ("begin " ++ (if canc == "1" then "cancelled-before " else "") ++ (if !isRead && st.streamWrites then "stream-write " else "")))
    | ["begin2", want, canc] =>
      let st' := if st.q.isNone ∧ st.isRead then { st with q := some (nat! want, canc == "1", false) } else st
      (st', line4 (show_ st'.o ++ " Q=" ++ qStr st') "-" "*" "queued-begin ")
    | ["m2"] =>
      -- the queued caller runs into the wrapper's mutex, held by the operation in progress
      -- (before the first operation's first step nobody holds the mutex: the harness does not schedule that)
      let st' := if st.o.main == .start then st else { st with q := st.q.map (fun e => (e.1, e.2.1, true)) }
      (st', line4 (show_ st'.o ++ " Q=" ++ qStr st') "-" "*" "queued-waits-for-mutex ")
    | ["promote"] =>
      match st.q with
      | none => (st, line4 (show_ st.o ++ " Q=-") "-" "*" "promote ")
      | some (want, canc, granted) =>
        let o0 := TV.CtxLink.Op.next st.o want canc (!st.isRead && st.streamWrites)
        let o1 := if granted then step o0 .main else o0
        let st' := { st with o := o1, q := none }
        (st', line4 (show_ o1 ++ " Q=-") "-" "*" ("promote " ++ (if granted then "queued-proceeds " else "")))
    | ["m"] =>
      let t := match st.o.main with
        | .start => "spawn "
        | .inCall => if st.o.deadlineOld then "call-times-out " else if st.o.avail > 0 then ((if st.o.cancelled then "call-transfers-after-cancel " else "call-transfers ") ++ (if st.o.stream ∧ st.o.n + min st.o.avail (st.o.want - st.o.n) < st.o.want then "partial-write " else "")) else "call-blocks "
        | .atWait => if st.o.watcher == .exited then "wait-free " else "wait-parks "
        | _ => "main-idle "
      stepWith .main t
    | ["w"] =>
      let t := match st.o.watcher with
        | .start => "watcher-starts "
        | .atSelect => if st.o.doneClosed then (if st.o.cancelled then "select-both-ready-done " else "select-done ") else if st.o.cancelled then "select-ctx " else "select-parks "
        | .atRecv => if st.o.doneClosed then "recv-free " else "recv-parks "
        | _ => "watcher-idle "
      stepWith .watcher t
    | ["wc"] => stepWith .watcherCtx (if st.o.doneClosed then "select-both-ready-ctx " else "select-ctx ")
    | ["cancel"] => stepWith .cancel ("cancel " ++ (if st.o.watcher == .parkedSelect then "cancel-wakes-watcher " else "") ++
        (match st.o.main with | .start => "cancel-before-call " | .inCall => "cancel-during-call " | _ => "cancel-after-call "))
    | ["data", k] => stepWith (.data (nat! k)) "data "
    | "fin" :: "#" :: rest => (st, line4 "fin" "-" (judgeFin rest) "fin ")
    | ["end", "#", stuck] => (st, line4 "end" "-" (if kv stuck == "1" then "cancelled-operation-never-returns" else "end") "end ")
    | _ => (st, "bad-op")

end Driver.Ctx
