import Driver.Common
import TransportVerif.Model.Ctx
/- driver component `ctx` (C17):
   case <id> <flavour>
   ops: begin r|w <want> <ctx already cancelled 0|1> | m | w | wc | cancel | data <k>
        | fin # n=<n> err=<nil|ctx|timeout|other> moved=<bytes that left the wrapped conn> cancelled=<0|1> old=<0|1> order=<0|1>
        | end # stuck=<0|1>
   out: M=<caller pc> W=<watcher pc> old=<0|1> avail=<n> res=<n>,<err> | -
   `wc`: the watcher's select had both cases ready and Go took ctx.Done() (reported by the harness) -/
namespace Driver.Ctx
open TV TV.Ctx

structure St where
  o : Op
  isRead : Bool
  rAvail : Nat
  wAvail : Nat
  active : Bool

def mpc : MPc → String
  | .start => "start" | .inCall => "inCall" | .atWait => "atWait" | .parkedWait => "parkedWait" | .finished => "finished"
def wpc : WPc → String
  | .none => "none" | .start => "start" | .atSelect => "atSelect" | .parkedSelect => "parkedSelect"
  | .atRecv => "atRecv" | .parkedRecv => "parkedRecv" | .exited => "exited"
def errStr : Err → String | .nil => "nil" | .timeout => "timeout" | .ctx => "ctx"

def show_ (o : Op) : String :=
  "M=" ++ mpc o.main ++ " W=" ++ wpc o.watcher ++ " old=" ++ (if o.deadlineOld then "1" else "0") ++ " avail=" ++ toString o.avail ++
  " res=" ++ (match o.result with | some (n, e) => toString n ++ "," ++ errStr e | none => "-")

def kv (s : String) : String := ((s.splitOn "=").getD 1 "")

/-- C17 on the implementation's own report of a completed operation -/
def judgeFin (f : List String) : String :=
  match f with
  | [n, err, moved, canc, old, order] =>
    let n := nat! (kv n); let err := kv err; let moved := nat! (kv moved)
    let canc := kv canc == "1"; let old := kv old == "1"
    if n ≠ moved then "reported-" ++ toString n ++ "-bytes-but-" ++ toString moved ++ "-were-transferred"
    else if kv order ≠ "1" then "bytes-out-of-order"
    else if err == "ctx" ∧ !canc then "context-error-without-cancellation"
    else if err == "timeout" then (if canc then "raw-timeout-instead-of-context-error" else "timed-out-by-a-leftover-deadline")
    else if err == "other" then "unexpected-error"
    else if old then "leftover-deadline-on-the-wrapped-connection"
    else if !canc ∧ n == 0 then "returned-without-data-or-cancellation"
    else "fin"
  | _ => "bad-fin-line"

def comp : Component where
  σ := St
  init := { o := Op.new 0 0 false, isRead := true, rAvail := 0, wAvail := 0, active := false }
  reset := fun _ => { o := Op.new 0 0 false, isRead := true, rAvail := 0, wAvail := 0, active := false }
  step := fun st f =>
    let stepWith (s : Step) (tags : String) : St × String :=
      let o' := step st.o s
      let tags := tags ++
        (if o'.main == .finished ∧ st.o.main != .finished then
          (match o'.result with
           | some (0, .ctx) => "returns-ctx-error "
           | some (_, .nil) => if o'.cancelled then "returns-data-despite-cancel " else "returns-data "
           | _ => "returns-other ") else "") ++
        (if o'.deadlineOld ∧ !st.o.deadlineOld then "deadline-forced " else "") ++
        (if !o'.deadlineOld ∧ st.o.deadlineOld then "deadline-restored " else "")
      ({ st with o := o' }, line4 (show_ o') "-" "*" tags)
    match f with
    | ["begin", rw, want, canc] =>
      let isRead := rw == "r"
      -- bytes the wrapped connection still holds carry over; so would a leftover deadline
      let st1 := if st.active then (if st.isRead then { st with rAvail := st.o.avail } else { st with wAvail := st.o.avail }) else st
      let o := { Op.new (nat! want) (if isRead then st1.rAvail else st1.wAvail) (canc == "1") with
                 deadlineOld := st.active ∧ st.o.deadlineOld ∧ st.isRead == isRead }
      ({ st1 with o := o, isRead := isRead, active := true }, line4 (show_ o) "-" "*" ("begin " ++ (if canc == "1" then "cancelled-before " else "")))
    | ["m"] =>
      let t := match st.o.main with
        | .start => "spawn "
        | .inCall => if st.o.deadlineOld then "call-times-out " else if st.o.avail > 0 then (if st.o.cancelled then "call-transfers-after-cancel " else "call-transfers ") else "call-blocks "
        | .atWait => if st.o.watcher == .exited then "wait-free " else "wait-parks "
        | _ => "main-idle "
      stepWith .main t
    | ["w"] =>
      let t := match st.o.watcher with
        | .start => "watcher-starts "
        | .atSelect => if st.o.doneClosed then (if st.o.cancelled then "select-both-ready-done " else "select-done ") else if st.o.cancelled then "select-ctx " else "select-parks "
        | .atRecv => if st.o.doneClosed then "recv-free " else "recv-parks "
        | _ => "watcher-idle "
      stepWith .watcher t
    | ["wc"] => stepWith .watcherCtx (if st.o.doneClosed then "select-both-ready-ctx " else "select-ctx ")
    | ["cancel"] => stepWith .cancel ("cancel " ++ (if st.o.watcher == .parkedSelect then "cancel-wakes-watcher " else "") ++
        (match st.o.main with | .start => "cancel-before-call " | .inCall => "cancel-during-call " | _ => "cancel-after-call "))
    | ["data", k] => stepWith (.data (nat! k)) "data "
    | "fin" :: "#" :: rest => (st, line4 "fin" "-" (judgeFin rest) "fin ")
    | ["end", "#", stuck] => (st, line4 "end" "-" (if kv stuck == "1" then "cancelled-operation-never-returns" else "end") "end ")
    | _ => (st, "bad-op")

end Driver.Ctx
