import Driver.Common
import TransportVerif.Model.Deadline
import TransportVerif.Spec.Deadline
/- driver component `deadline`: ops: set <t|zero> | fire | cb | adv <dt>
   out: <closed 0/1> g<gen> <err 0/1> <deadline|none> ; state: <state> p<pending> a<armed> o<outstanding> -/
namespace Driver.Deadline
open TV TV.Deadline

structure S where
  d : D
  h : DeadlineSpec.Hist

def b (x : Bool) : String := if x then "1" else "0"
def optI : Option Int → String | some t => toString t | none => "none"

def obsStr (o : Obs) : String := b o.closed ++ " g" ++ toString o.gen ++ " " ++ b o.errExceeded ++ " " ++ optI o.deadline

def stStr (d : D) : String :=
  (match d.state with | .stopped => "stopped" | .started => "started" | .exceeded => "exceeded") ++
  " p" ++ toString d.pending ++ " a" ++ b d.armed ++ " o" ++ toString d.outstanding

def toSpecObs (o : Obs) : DeadlineSpec.Obs := { closed := o.closed, gen := o.gen, errExceeded := o.errExceeded, deadline := o.deadline }

/-- the spec column: all observations (closed, err) admitted; gen is `g*` unless a fresh channel is
    demanded, in which case the old generation is excluded (`g!k`) -/
def specStr (h' : DeadlineSpec.Hist) (before : Obs) (isSet : Bool) : String :=
  let alts := [(false, false), (true, true), (true, false), (false, true)].filter (fun ce =>
    DeadlineSpec.allowed h' { closed := ce.1, gen := 0, errExceeded := ce.2, deadline := h'.lastSet })
  let g := if isSet ∧ before.closed then "g!" ++ toString before.gen else "g*"
  String.intercalate ";" (alts.map (fun ce => b ce.1 ++ " " ++ g ++ " " ++ b ce.2 ++ " " ++ optI h'.lastSet))

def comp : Component where
  σ := S
  init := { d := .new, h := .empty }
  reset := fun _ => { d := .new, h := .empty }
  step := fun s f =>
    let go (op : Op) (ev : DeadlineSpec.Ev) (tags : String) : S × String :=
      let before := s.d.obs
      let d' := step s.d op
      let h' := s.h.step ev
      let isSet := match op with | .set _ => true | _ => false
      let out := if d'.panicked then "panic" else obsStr d'.obs
      ({ d := d', h := h' }, line4 out (stStr d') (specStr h' before isSet)
        (tags ++ (if h'.settled then "settled " else "inflight ") ++ (if d'.obs.closed then "closed " else "")))
    match f with
    | ["set", "zero"] => go (.set none) (.set none) ("set-zero " ++ (if s.d.outstanding > 0 then "set-with-callback-outstanding " else "") ++ (if s.d.obs.closed then "set-after-expiry " else ""))
    | ["set", t] =>
      go (.set (some (int! t))) (.set (some (int! t)))
        ((if int! t > s.d.now then "set-future " else "set-past ") ++ (if s.d.outstanding > 0 then "set-with-callback-outstanding " else "") ++
         (if s.d.obs.closed then "set-after-expiry " else "") ++ (if s.d.armed then "set-rearm " else ""))
    | ["fire"] => go .fire .fire (if s.d.armed ∧ s.d.due ≤ s.d.now then "fire " else "fire-noop ")
    | ["cb"] => go .callback .callback (if s.d.outstanding > 0 then
        (if s.d.pending != 1 ∨ s.d.state != .started then "stale-callback " else "live-callback ") else "cb-noop ")
    | ["adv", dt] => go (.advance (nat! dt)) (.advance (nat! dt)) "adv "
    | _ => (s, "bad-op")

end Driver.Deadline
