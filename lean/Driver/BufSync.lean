import Driver.Common
import TransportVerif.Model.BufferSync
/- driver component `bufsync`:
   case <id> <pre-written packets> <readers> <writers> <closers>
   ops: step <thread>  |  end # <implementation's final line>
   out: c=<count> k=<closed 0/1> <pc of every thread, comma separated>   (S start, L at lock, X at select, P parked, or the result)
   `end`: the spec judges the IMPLEMENTATION's final positions: no reader parked while a packet is buffered
   or after Close. -/
namespace Driver.BufSync
open TV TV.BufferSync

def pcStr : Pc → String
  | .start => "S" | .atLock => "L" | .atSelect => "X" | .parked => "P"
  | .done .got => "got" | .done .eof => "eof" | .done .wrote => "wrote" | .done .refused => "refused" | .done .closedOk => "closed"

def sysStr (s : Sys) : String :=
  "c=" ++ toString s.count ++ " k=" ++ (if s.closed then "1" else "0") ++ " " ++ String.intercalate "," (s.ths.map (fun t => pcStr t.pc))

/-- judge an observed final line `c=<n> k=<0/1> pcs` -/
def judgeFinal (f : List String) : String :=
  match f with
  | [c, k, pcs, bad] =>
    if bad != "bad=0" then "eof-while-packets-buffered:" ++ bad else judgeFinal [c, k, pcs]
  | [c, k, pcs] =>
    let count := nat! (c.drop 2).toString
    let closed := k == "k=1"
    let ps := pcs.splitOn ","
    let parked := ps.any (· == "P")
    let pending := ps.any (fun p => p == "S" ∨ p == "L" ∨ p == "X")
    if pending then "not-quiescent"
    else if parked ∧ count > 0 then "stranded-reader:parked-with-" ++ toString count ++ "-buffered"
    else if parked ∧ closed then "stranded-reader:parked-after-close"
    -- after Close nothing more is stored, so packets left at the end were there when a reader was told end-of-file
    else if ps.any (· == "eof") ∧ count > 0 then "eof-with-" ++ toString count ++ "-packets-still-buffered"
    else "end"
  | _ => "bad-final-line"

def comp : Component where
  σ := Sys
  init := Sys.init 0 0 0 0
  reset := fun cfg => match cfg with
    | [p, r, w, c] => Sys.init (nat! p) (nat! r) (nat! w) (nat! c)
    | _ => Sys.init 0 0 0 0
  step := fun s f =>
    match f with
    | ["step", t] =>
      let t := nat! t
      let s' := step s t
      let th := s.ths[t]?
      let tags := match th with
        | some th => (match th.role, th.pc with
          | .reader, .atSelect => if s.closed then "select-closed " else if s.token then "select-token " else "select-parks "
          | .reader, .atLock => if s.count > 0 then (if s.count > 1 ∧ !s.closed then "take-and-repost " else "take-last ") else if s.closed then "eof " else "empty-unlock "
          | .writer, .atLock => if s.closed then "write-refused " else if !s.parked.isEmpty then "write-handoff " else if s.token then "write-token-dropped " else "write-token-buffered "
          | .closer, .atLock => if !s.parked.isEmpty then "close-wakes " else "close "
          | _, _ => "start ")
        | none => "bad-thread "
      let windows := (s.ths.filter (fun th => th.role == .reader ∧ th.pc == .atSelect)).length
      (s', line4 (sysStr s') "-" "*" (tags ++ (if windows ≥ 2 then "two-readers-in-window " else "")))
    | "end" :: "#" :: rest => (s, line4 "end" "-" (judgeFinal rest) (if s.quiescent then "quiescent " else "not-quiescent "))
    | ["end"] => (s, line4 "end" "-" (if s.stranded then "model-stranded" else "end") "")
    | _ => (s, "bad-op")

end Driver.BufSync
