import Driver.Common
import TransportVerif.Model.Replay
import TransportVerif.Spec.Replay
import TransportVerif.Link.Replay
/- driver component `replay <C04|C05>`:
   case <id> <plain|wrap> <window> <max>
   check <s> | ca <s>
   out: 0 | 1 | 1 t | 1 f | panic ; state: latestSeq init words… -/
namespace Driver.Replay
open TV TV.Replay

structure St where
  d : Det
  c : ReplaySpec.Cfg
  h : ReplaySpec.Hist

def outStr : Replay.Out → String
  | .refused => "0"
  | .okNoAccept => "1"
  | .accepted true => "1 t"
  | .accepted false => "1 f"
  | .panic => "panic"

/-- the same conversion the theorems use (Link/Replay.lean) -/
def toSpecOut : Replay.Out → ReplaySpec.Out := ReplayLink.specOut

def allOuts : List Replay.Out := [.refused, .okNoAccept, .accepted true, .accepted false, .panic]

def hex16 (w : BitVec 64) : String :=
  let s := (Nat.toDigits 16 w.toNat)
  String.ofList (List.replicate (16 - s.length) '0' ++ s)

def stateStr (d : Det) : String :=
  toString d.latestSeq ++ " " ++ (if d.init then "1" else "0") ++ " " ++
    String.intercalate "," (d.mask.bits.map hex16)

def mk (kind : String) (w m : Nat) : St :=
  let k := if kind = "wrap" then Replay.Kind.wrap else .plain
  let sk := if kind = "wrap" then ReplaySpec.Kind.wrap else .plain
  { d := Det.new k w m, c := { kind := sk, window := w, max := m }, h := .empty }

def tagsOf (s : St) (x : Nat) (o : Replay.Out) : String :=
  let inAcc := s.h.acc.any (fun e => e.1 == x)
  let w := s.c.window
  let t1 := if inAcc then
      (match s.h.acc.find? (fun e => e.1 == x) with
       | some e => if e.2 < w then (if w % 64 ≠ 0 ∧ e.2 / 64 == (w - 1) / 64 then "replay-in-window replay-top-word " else "replay-in-window ")
                   else "replay-behind-window "
       | none => "") else ""
  let t2 := if s.c.max < x then "above-max " else ""
  let t3 := match o with
    | .accepted true =>
      let a := if s.c.kind == .wrap then ReplaySpec.ahead s.c s.h x else x - s.h.latest
      (if a ≥ 64 then "shift>=64 " else if a > 0 then "shift<64 " else "") ++
      (if a ≥ w ∧ w > 0 then "shift>=window " else "") ++
      (if s.c.kind == .wrap ∧ x < s.h.latest ∧ s.h.started then "advance-across-wrap " else "")
    | .accepted false =>
      "late " ++ (if s.c.kind == .wrap ∧ x > s.h.latest then "late-across-wrap " else "")
    | .panic => "panic "
    | _ => ""
  let t4 := if s.c.kind == .wrap ∧ s.h.started ∧ ReplaySpec.nearBoundary s.c s.h x then "near-boundary " else ""
  let t5 := if x + w ≥ two64 then "near-2^64 " else ""
  t1 ++ t2 ++ t3 ++ t4 ++ t5

def comp (mode : String) : Component where
  σ := St
  init := mk "plain" 0 0
  reset := fun cfg => match cfg with
    | [k, w, m] => mk k (nat! w) (nat! m)
    | _ => mk "plain" 0 0
  step := fun s f =>
    let go (x : Nat) (acc : Bool) : St × String :=
      let (d', o) := Replay.step s.d (if acc then .checkAccept x else .check x)
      let allowed := allOuts.filter (fun o' =>
        if mode = "C04" then ReplaySpec.allowed04 s.c s.h x (toSpecOut o')
        else ReplaySpec.allowed05 s.c s.h x acc (toSpecOut o'))
      -- outcomes that cannot arise from this operation are not offered
      let allowed := allowed.filter (fun o' => match o' with
        | .okNoAccept => !acc
        | .accepted _ => acc
        | _ => true)
      let spec := String.intercalate ";" (allowed.map outStr)
      let h' := s.h.step s.c x (toSpecOut o)
      ({ s with d := d', h := h' }, line4 (outStr o) (stateStr d') spec (tagsOf s x o))
    match f with
    | ["check", x] => go (nat! x) false
    | ["ca", x] => go (nat! x) true
    | _ => (s, "bad-op")

end Driver.Replay
