import Driver.Common
import TransportVerif.Model.ListenerLife
/- driver component `life` (C12):
   case <id> <accepted> <queued> <backlog> <roles: A | L | C<k> | K<a> (closer of the connection thread a accepts) …>
   ops: g <thread> | arr | end # k=<socket closed 0/1> lc=<listener closed 0/1> open=<accepted connections still open> pending=<threads not finished>
   out: k=<0/1> q=<backlog length> n=<table size> <pc of every thread>
        pcs: S start, X at select, P parked in select, L at lock, W at wait, V parked in wait, c<k> got connection k, err, ok -/
namespace Driver.Life
open TV TV.ListenerLife

structure St where
  s : Sys
  backlog : Nat

def pcStr : Pc → String
  | .start => "S" | .atSelect => "X" | .parkedSelect => "P" | .atLock => "L" | .atWait => "W" | .parkedWait => "V"
  | .done (.conn c) => "c" ++ toString c | .done .err => "err" | .done .ok => "ok"

def sysStr (s : Sys) : String :=
  "k=" ++ (if s.sockClosed then "1" else "0") ++ " q=" ++ toString s.acceptQ.length ++ " n=" ++ toString s.table.length ++ " " ++
    String.intercalate "," (s.ths.map (fun t => pcStr t.pc))

def role (x : String) : Role :=
  if x = "A" then .acceptor else if x = "L" then .lcloser
  else if x.startsWith "K" then .acloser (nat! (x.drop 1).toString)
  else .ccloser (nat! (x.drop 1).toString)

/-- C12 at quiescence, on the implementation's own final observation: the socket is closed exactly
    when the listener and every accepted connection have been closed -/
def judge (f : List String) : String :=
  match f with
  | [k, lc, op, pend] =>
    let sock := k == "k=1"
    let lclosed := lc == "lc=1"
    let open_ := nat! (op.drop 5).toString
    let pending := nat! (pend.drop 8).toString
    if pending > 0 then "threads-not-finished:" ++ toString pending
    else if sock ∧ !(lclosed ∧ open_ == 0) then "socket-closed-too-early:listener-closed=" ++ toString lclosed ++ ",open-conns=" ++ toString open_
    else if !sock ∧ lclosed ∧ open_ == 0 then "socket-left-open"
    else "end"
  | _ => "bad-final-line"

def comp : Component where
  σ := St
  init := { s := Sys.init 0 0 [], backlog := 128 }
  reset := fun cfg => match cfg with
    | a :: q :: b :: roles => { s := Sys.init (nat! a) (nat! q) (roles.map role), backlog := nat! b }
    | _ => { s := Sys.init 0 0 [], backlog := 128 }
  step := fun st f =>
    match f with
    | "g" :: t :: hint =>
      let t := nat! t
      -- the harness reports which way an ambiguous Accept select went (`err`)
      let s' := stepOp st.backlog st.s (if hint == ["err"] then .grantErr t else .grant t)
      let tags := match st.s.ths[t]? with
        | some th => (match th.role, th.pc with
          | .acceptor, .atSelect => if !st.s.acceptQ.isEmpty then (if st.s.doneClosed then "accept-takes-after-close-began " else "accept-takes ") else if st.s.doneClosed then "accept-fails " else "accept-parks "
          | .lcloser, .start => "lclose-begins " ++ (if st.s.ths.any (fun x => x.pc == .parkedSelect) then "wakes-acceptors " else "")
          | .lcloser, .atLock => "lclose-drains " ++ (if !st.s.acceptQ.isEmpty then "discards-unaccepted " else "") ++ (if s'.sockClosed ∧ !st.s.sockClosed then "socket-closes " else "")
          | .ccloser _, .start => "cclose-begins " ++ (if s'.sockClosed ∧ !st.s.sockClosed then "socket-closes " else "")
          | .ccloser _, .atLock => "cclose-unregisters "
          | .acloser _, .start => (if s' == st.s then "aclose-waits-for-accept " else "aclose-begins ") ++ (if s'.sockClosed ∧ !st.s.sockClosed then "socket-closes " else "")
          | .acloser _, .atLock => "aclose-unregisters "
          | _, .atWait => "waits-for-readloop "
          | _, _ => "start ")
        | none => "bad-thread "
      ({ st with s := s' }, line4 (sysStr s') "-" "*" tags)
    | ["ar0"] =>
      -- the read loop is about to take connLock in getConn: nothing has been looked at yet
      (st, line4 (sysStr st.s) "-" "*" "arrival-at-lock ")
    | ["arb"] =>
      -- the read loop is inside getConn (holding connLock), past the admission check, about to count the connection
      let s' := stepOp st.backlog st.s .arriveBegin
      ({ st with s := s' }, line4 (sysStr s') "-" "*" (if s'.arrPending then "arrival-begins " else "arrival-refused "))
    | ["are", t] =>
      -- several Accept callers were blocked: the harness reports which one Go served (the one waiting longest)
      let s' := stepOp st.backlog st.s (.arriveEndTo (nat! t))
      ({ st with s := s' }, line4 (sysStr s') "-" "*" ("arrival-ends arrival-creates arrival-to-waiting-acceptor " ++
        (if (st.s.ths.filter (fun x => x.pc == .parkedSelect)).length > 1 then "several-acceptors-waiting " else "")))
    | ["arr", t] =>
      let s' := stepOp st.backlog st.s (.arriveTo (nat! t))
      ({ st with s := s' }, line4 (sysStr s') "-" "*" ("arrival-creates arrival-to-waiting-acceptor " ++
        (if (st.s.ths.filter (fun x => x.pc == .parkedSelect)).length > 1 then "several-acceptors-waiting " else "")))
    | ["are"] =>
      let s' := stepOp st.backlog st.s .arriveEnd
      ({ st with s := s' }, line4 (sysStr s') "-" "*" ("arrival-ends " ++ (if s'.nextConn > st.s.nextConn then "arrival-creates " else "arrival-discarded ") ++
        (if st.s.arrPending ∧ !st.s.accepting then "arrival-after-close-began " else "")))
    | ["arr"] =>
      let s' := stepOp st.backlog st.s .arrive
      ({ st with s := s' }, line4 (sysStr s') "-" "*" (if s'.nextConn > st.s.nextConn then "arrival-creates " else "arrival-discarded "))
    | "end" :: "#" :: rest => (st, line4 "end" "-" (judge rest) "end ")
    | _ => (st, "bad-op")

end Driver.Life
