/-
Model of vnet/tbf.go (TokenBucketFilter), the `run` loop as a function of timed arrivals.
The arithmetic is written once over an abstract number type `ν` (`Num`): instantiated with `Float`
(IEEE double, the same operations in the same order as the Go code: used for the bit-for-bit
correspondence) and with `Rat` (exact arithmetic: used for the theorems).  Times are nanoseconds.
-/
namespace TV.TBF

class Num (ν : Type) where
  ofInt : Int → ν
  add : ν → ν → ν
  sub : ν → ν → ν
  mul : ν → ν → ν
  div : ν → ν → ν
  lt : ν → ν → Bool

instance : Num Float where
  ofInt := Float.ofInt
  add := (· + ·)
  sub := (· - ·)
  mul := (· * ·)
  div := (· / ·)
  lt := fun a b => a < b

instance : Num Rat where
  ofInt := fun i => (i : Rat)
  add := (· + ·)
  sub := (· - ·)
  mul := (· * ·)
  div := (· / ·)
  lt := fun a b => decide (a < b)

open Num

/-- a datagram: identifier and payload length -/
structure Pkt where
  id : Nat
  size : Nat
deriving Repr, DecidableEq

structure TBF (ν : Type) where
  tokens : ν                -- currentTokensInBucket
  lastRefill : Int          -- ns
  rate : Int                -- bits per second
  maxBurst : Int            -- bytes
  queue : List Pkt
  queueBytes : Nat          -- chunkQueue.currentBytes
  queueMax : Int            -- chunkQueue.maxBytes (<= 0: unlimited)

/-- `Duration.Seconds()`: float64(sec) + float64(nsec)/1e9 -/
def seconds {ν : Type} [Num ν] (dt : Int) : ν :=
  add (ofInt (dt / 1000000000)) (div (ofInt (dt % 1000000000)) (ofInt 1000000000))

def minN {ν : Type} [Num ν] (a b : ν) : ν := if lt b a then b else a

/-- `refillTokens(dt)`: tokens = min(maxBurst, tokens + rate * dt.Seconds() / 8) -/
def TBF.refill {ν : Type} [Num ν] (t : TBF ν) (dt : Int) : TBF ν :=
  let addv : ν := div (mul (ofInt t.rate) (seconds dt)) (ofInt 8)
  { t with tokens := minN (ofInt t.maxBurst) (add t.tokens addv) }

/-- `drainQueue`: forward from the head while the tokens suffice -/
def TBF.drain {ν : Type} [Num ν] (t : TBF ν) : Nat → TBF ν × List Pkt
  | 0 => (t, [])
  | fuel + 1 =>
    match t.queue with
    | [] => (t, [])
    | p :: rest =>
      if lt t.tokens (ofInt p.size) then (t, [])
      else
        let t' := { t with queue := rest, queueBytes := t.queueBytes - p.size, tokens := sub t.tokens (ofInt p.size) }
        let r := t'.drain fuel
        (r.1, p :: r.2)

/-- `chunkQueue.push` with the byte limit -/
def TBF.push {ν : Type} (t : TBF ν) (p : Pkt) : TBF ν :=
  if t.queueMax > 0 ∧ ((t.queueBytes + p.size : Nat) : Int) ≥ t.queueMax then t
  else { t with queue := t.queue ++ [p], queueBytes := t.queueBytes + p.size }

/-- `NewTokenBucketFilter` at time `now`: the bucket starts with 100 ms worth of tokens -/
def TBF.new {ν : Type} [Num ν] (rate maxBurst queueMax now : Int) : TBF ν :=
  ({ tokens := ofInt 0, lastRefill := now, rate, maxBurst, queue := [], queueBytes := 0, queueMax } : TBF ν).refill 100000000

/-- the `case chunk := <-t.c` arm of `run` at time `now`; returns what is handed downstream -/
def TBF.arrive {ν : Type} [Num ν] (t : TBF ν) (now : Int) (p : Pkt) : TBF ν × List Pkt :=
  let t1 := (t.refill (now - t.lastRefill))
  let t2 := { t1 with lastRefill := now }
  let t3 := t2.push p
  t3.drain (t3.queue.length + 1)

/-- `Close`: the `done` arm drains once more (no refill) -/
def TBF.close {ν : Type} [Num ν] (t : TBF ν) : TBF ν × List Pkt := t.drain (t.queue.length + 1)

inductive Op
  | arrive (dt : Nat) (p : Pkt)     -- dt ns after the previous event
  | setRate (r : Int)
  | setBurst (b : Int)
  | close
deriving Repr, DecidableEq

/-- state of a run: filter and clock -/
structure Run (ν : Type) where
  t : TBF ν
  now : Int

def Run.step {ν : Type} [Num ν] (r : Run ν) : Op → Run ν × List Pkt
  | .arrive dt p => let x := r.t.arrive (r.now + dt) p; ({ t := x.1, now := r.now + dt }, x.2)
  | .setRate v => ({ r with t := { r.t with rate := v } }, [])
  | .setBurst v => ({ r with t := { r.t with maxBurst := v } }, [])
  | .close => let x := r.t.close; ({ r with t := x.1 }, x.2)

end TV.TBF
