import TransportVerif.Spec.Pipe
/-
Model of dpipe/dpipe.go, sequential part: `Pipe()` makes two conns sharing two buffered channels
(capacity 1000); conn 0 reads `ch0` and writes `ch1`, conn 1 the other way round.  Each conn has
its own `closed` channel (closed by `Close`, once).  The `closing` channel of the code is never
closed by anything and is therefore not modelled.  Deadlines are C10's subject.
-/
namespace TV.DPipe
open TV.PipeSpec

def chanCap : Nat := 1000

structure Pipe where
  ch0 : List Msg        -- rCh of conn 0, wCh of conn 1
  ch1 : List Msg        -- rCh of conn 1, wCh of conn 0
  closed0 : Bool
  closed1 : Bool
deriving Repr, DecidableEq

def Pipe.new : Pipe := { ch0 := [], ch1 := [], closed0 := false, closed1 := false }

/-- `conn.Read(data)` with `len data = n` on conn `e` -/
def Pipe.read (p : Pipe) (e : Nat) (n : Nat) : Pipe × RRes :=
  let closed := if e = 0 then p.closed0 else p.closed1
  if closed then (p, .eof)                        -- first select: `case <-c.closed`
  else
    let rCh := if e = 0 then p.ch0 else p.ch1
    match rCh with
    | [] => (p, .wouldBlock)
    | d :: rest =>
      let got := if d.length ≤ n then d else d.take n
      (if e = 0 then { p with ch0 := rest } else { p with ch1 := rest }, .ok got)

/-- `conn.Write(data)` on conn `e` -/
def Pipe.write (p : Pipe) (e : Nat) (x : Msg) : Pipe × WRes :=
  let closed := if e = 0 then p.closed0 else p.closed1
  if closed then (p, .closedPipe)
  else
    let wCh := if e = 0 then p.ch1 else p.ch0
    if wCh.length ≥ chanCap then (p, .wouldBlock)
    else (if e = 0 then { p with ch1 := p.ch1 ++ [x] } else { p with ch0 := p.ch0 ++ [x] }, .ok x.length)

def Pipe.close (p : Pipe) (e : Nat) : Pipe :=
  if e = 0 then { p with closed0 := true } else { p with closed1 := true }

inductive Op
  | write (e : Nat) (x : Msg)
  | read (e : Nat) (n : Nat)
  | close (e : Nat)
deriving Repr, DecidableEq

inductive Out
  | w (r : WRes)
  | r (r : RRes)
  | unit
deriving Repr, DecidableEq

def step (p : Pipe) : Op → Pipe × Out
  | .write e x => let r := p.write e x; (r.1, .w r.2)
  | .read e n => let r := p.read e n; (r.1, .r r.2)
  | .close e => (p.close e, .unit)

end TV.DPipe
