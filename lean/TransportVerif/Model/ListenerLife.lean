/-
Model of the lifetime bookkeeping of udp/conn.go (C12): which goroutine closes the shared socket
and when.  A transition system whose steps are the code segments between the yield points that
vrewrite inserts in `Accept` (before its select), listener `Close` (before `connLock.Lock()` and
before `readWG.Wait()`) and `Conn.Close` (same two places).  The read loop and the closer goroutine
(`connWG.Wait(); pConn.Close(); readWG.Done()`) are not managed: their reaction to the reference
count reaching zero (socket closed, read loop ends, `readWG` drops to zero) happens within the step
that caused it (`cascade`).

Reference counting as in the repaired code: the listener holds one reference; a connection holds
one from the moment it is queued for Accept until it is closed or discarded by listener Close.
-/
namespace TV.ListenerLife

inductive Res | conn (c : Nat) | err | ok
deriving Repr, DecidableEq

inductive Pc
  | start
  | atSelect          -- Accept: before the select
  | parkedSelect      -- Accept: blocked in the select
  | atLock            -- Close: before connLock.Lock()
  | atWait            -- Close: before readWG.Wait()
  | parkedWait        -- blocked in readWG.Wait()
  | done (r : Res)
deriving Repr, DecidableEq

inductive Role
  | acceptor
  | lcloser
  | ccloser (c : Nat)
  | acloser (a : Nat)      -- closes the connection that the Accept of thread `a` returned (once it has returned one)
deriving Repr, DecidableEq

structure Th where
  role : Role
  pc : Pc
deriving Repr, DecidableEq

structure Sys where
  accepting : Bool
  doneClosed : Bool            -- l.doneCh closed
  acceptQ : List Nat           -- queued connection ids, oldest first
  table : List Nat             -- l.conns (ids)
  wg : Nat                     -- connWG counter
  sockClosed : Bool
  readWG : Nat
  nextConn : Nat
  ths : List Th
  arrPending : Bool := false   -- the read loop is inside getConn with a new connection, holding connLock
deriving Repr, DecidableEq

def Sys.setPc (s : Sys) (t : Nat) (pc : Pc) : Sys :=
  { s with ths := s.ths.mapIdx (fun i th => if i = t then { th with pc := pc } else th) }

/-- when the count reaches zero the closer goroutine closes the socket, the read loop ends, both
    drop `readWG`; everyone blocked in `readWG.Wait()` continues (and finishes its Close) -/
def Sys.cascade (s : Sys) : Sys :=
  if s.wg = 0 ∧ !s.sockClosed then
    let s1 := { s with sockClosed := true, readWG := 0 }
    -- acceptors blocked in the select see readDoneCh closed
    let s2 := { s1 with ths := s1.ths.map (fun (th : Th) => if th.pc = Pc.parkedSelect then { th with pc := Pc.done .err } else th) }
    -- waiters of readWG resume and their Close returns
    let s3 := { s2 with ths := s2.ths.map (fun (th : Th) => if th.pc = Pc.parkedWait then { th with pc := Pc.done .ok } else th) }
    s3
  else s

/-- A datagram from a new remote arrives.  `getConn` takes `connLock`, checks that the listener is
    still accepting (`arriveBegin`), and then — still holding the lock — counts the new connection
    and queues it if the backlog has room (`arriveEnd`).  Other goroutines can run in between
    (`Accept` takes no lock; the first step of `Close` needs none), but nobody who needs `connLock`. -/
def Sys.arriveBegin (s : Sys) : Sys :=
  if !s.accepting ∨ s.sockClosed ∨ s.arrPending then s else { s with arrPending := true }

def Sys.arriveEnd (s : Sys) (backlog : Nat) : Sys :=
  if !s.arrPending then s
  else
    let s0 := { s with arrPending := false }
    if s0.acceptQ.length ≥ backlog then s0
    else
      let c := s0.nextConn
      let s1 := { s0 with nextConn := c + 1, wg := s0.wg + 1, table := s0.table ++ [c] }
      -- an acceptor blocked in the select takes it at once (oldest first)
      match (s1.ths.zipIdx.find? (fun (e : Th × Nat) => e.1.pc = Pc.parkedSelect)).map (·.2) with
      | some t => s1.setPc t (.done (.conn c))
      | none => { s1 with acceptQ := s1.acceptQ ++ [c] }

/-- `arriveEnd` when several Accept callers are blocked in the select: Go hands the connection to the
    one that has been waiting longest (the channel's receive queue is first-in first-out); the model
    does not track parking order, so the harness reports which caller got it (`pref`).  If `pref` is not
    a blocked acceptor this is `arriveEnd`. -/
def Sys.arriveEndTo (s : Sys) (backlog : Nat) (pref : Nat) : Sys :=
  if !s.arrPending then s
  else
    match s.ths[pref]? with
    | some th =>
      if th.pc = Pc.parkedSelect ∧ s.acceptQ.length < backlog then
        let s0 := { s with arrPending := false }
        let c := s0.nextConn
        let s1 := { s0 with nextConn := c + 1, wg := s0.wg + 1, table := s0.table ++ [c] }
        s1.setPc pref (.done (.conn c))
      else s.arriveEnd backlog
    | none => s.arriveEnd backlog

/-- an arrival nobody interleaves with -/
def Sys.arrive (s : Sys) (backlog : Nat) : Sys := (s.arriveBegin).arriveEnd backlog

/-- the connection the Accept of thread `a` has returned, if it has -/
def Sys.accepted? (s : Sys) (a : Nat) : Option Nat :=
  match s.ths[a]? with
  | some th => (match th.role, th.pc with | .acceptor, .done (.conn c) => some c | _, _ => none)
  | none => none

def step (s : Sys) (t : Nat) : Sys :=
  match s.ths[t]? with
  | none => s
  | some th =>
    match th.role, th.pc with
    | .acceptor, .start => s.setPc t .atSelect
    | .acceptor, .atSelect =>
      match s.acceptQ with
      | c :: rest => ({ s with acceptQ := rest }).setPc t (.done (.conn c))
      | [] => if s.doneClosed ∨ s.sockClosed then s.setPc t (.done .err) else s.setPc t .parkedSelect
    | .lcloser, .start =>
      -- accepting.Store(false); close(doneCh): blocked Accepts fail
      let s1 := { s with accepting := false, doneClosed := true,
                         ths := s.ths.map (fun (th : Th) => if th.pc = Pc.parkedSelect then { th with pc := Pc.done .err } else th) }
      s1.setPc t .atLock
    | .lcloser, .atLock =>
      if s.arrPending then s else     -- blocked on connLock
      -- drain the backlog: every discarded connection gives its reference back; then the listener's own
      let discarded := s.acceptQ
      let s1 := { s with acceptQ := [], table := s.table.filter (fun c => !discarded.contains c),
                         wg := s.wg - discarded.length - 1 }
      let last := s1.table.isEmpty
      let s2 := s1.cascade
      if last then s2.setPc t .atWait      -- the yield precedes readWG.Wait() whether or not it will block
      else s2.setPc t (.done .ok)
    | .ccloser _, .start =>
      -- connWG.Done(); close(c.doneCh)
      (({ s with wg := s.wg - 1 }).setPc t .atLock).cascade
    | .ccloser c, .atLock =>
      if s.arrPending then s else     -- blocked on connLock
      let s1 := { s with table := s.table.filter (· ≠ c) }
      if s1.table.isEmpty ∧ !s1.accepting then s1.setPc t .atWait
      else s1.setPc t (.done .ok)
    | .acloser a, .start =>
      -- Conn.Close of the connection thread `a` accepted; it cannot start before that Accept has returned
      match s.accepted? a with
      | some _ => (({ s with wg := s.wg - 1 }).setPc t .atLock).cascade
      | none => s
    | .acloser a, .atLock =>
      if s.arrPending then s else     -- blocked on connLock
      match s.accepted? a with
      | some c =>
        let s1 := { s with table := s.table.filter (· ≠ c) }
        if s1.table.isEmpty ∧ !s1.accepting then s1.setPc t .atWait
        else s1.setPc t (.done .ok)
      | none => s
    | _, .atWait =>
      if s.readWG = 0 then s.setPc t (.done .ok) else s.setPc t .parkedWait
    | _, _ => s

def Th.atYield (th : Th) : Bool := th.pc == .start || th.pc == .atSelect || th.pc == .atLock || th.pc == .atWait

/-- a listener with `accepted` connections already returned by Accept and `queued` ones waiting in
    the backlog; then acceptor threads, at most one listener-closer and at most one closer per
    accepted connection (idempotence of Close is exercised sequentially by the harness) -/
def Sys.init (accepted queued : Nat) (roles : List Role) : Sys :=
  { accepting := true, doneClosed := false, acceptQ := (List.range queued).map (· + accepted),
    table := List.range (accepted + queued), wg := 1 + accepted + queued, sockClosed := false, readWG := 2,
    nextConn := accepted + queued, ths := roles.map (fun r => { role := r, pc := .start }), arrPending := false }

/-- `grantErr t`: an acceptor whose select finds both a queued connection and the closed `doneCh`
    ready may take either; this is the other choice (it fails) -/
inductive Op | grant (t : Nat) | grantErr (t : Nat) | arrive | arriveBegin | arriveEnd | arriveEndTo (t : Nat) | arriveTo (t : Nat)
deriving Repr, DecidableEq

def stepOp (backlog : Nat) (s : Sys) : Op → Sys
  | .grant t => step s t
  | .grantErr t =>
    match s.ths[t]? with
    | some th => if th.role = .acceptor ∧ th.pc = .atSelect ∧ s.doneClosed then s.setPc t (.done .err) else step s t
    | none => s
  | .arrive => s.arrive backlog
  | .arriveBegin => s.arriveBegin
  | .arriveEnd => s.arriveEnd backlog
  | .arriveEndTo t => s.arriveEndTo backlog t
  | .arriveTo t => (s.arriveBegin).arriveEndTo backlog t

def run (backlog : Nat) (s : Sys) : List Op → Sys
  | [] => s
  | op :: ops => run backlog (stepOp backlog s op) ops

end TV.ListenerLife
