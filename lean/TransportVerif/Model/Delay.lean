/-
Model of vnet/delay_filter.go (C14): `onInboundChunk` (queue push, then the unbuffered `push`
notification) and the `Run` loop with its runtime timer, as a transition system at the granularity
of the yield points vrewrite inserts (before the `push <- …` send and before the select of `Run`).

The timer follows Go's channel-timer semantics for the repository's go.mod (asynctimerchan=1):
a channel of capacity one (`tick`), a non-blocking send at expiry, `Stop` reports whether it
prevented the expiry, `Reset` does not drain.  The runtime never fires a timer early; the time
carried by a tick is the (virtual) time of the expiry plus a positive lateness `late`.
-/
namespace TV.Delay

structure Chunk where
  id : Nat
  deadline : Int        -- arrival time + delay
deriving Repr, DecidableEq

inductive SPc | start | atSend | sending | done
deriving Repr, DecidableEq

inductive LPc
  | atSelect            -- at the yield before the select
  | parked              -- blocked in the select
  | panicked            -- a panic in the loop (unreachable in the repaired code: kept for the driver's vocabulary)
  | stuck               -- `<-timer.C` with nothing to receive
deriving Repr, DecidableEq

structure Sys where
  delay : Int
  late : Int                      -- lateness of timer ticks (> 0)
  now : Int
  queue : List Chunk
  senders : List SPc              -- sender k delivers chunk k
  sendQ : List Nat                -- senders blocked on `push <-`, oldest first
  loop : LPc
  armed : Bool
  due : Int
  tick : Option Int               -- the value sitting in timer.C
  forwarded : List (Nat × Int)    -- (chunk id, time handed downstream), oldest first
deriving Repr, DecidableEq

def Sys.init (delay : Int) (nSenders : Nat) : Sys :=
  { delay, late := 1, now := 0, queue := [], senders := List.replicate nSenders .start, sendQ := [],
    loop := .atSelect, armed := true, due := 0, tick := none, forwarded := [] }   -- timer := time.NewTimer(0)

def minute : Int := 60000000000

def Sys.setS (s : Sys) (k : Nat) (pc : SPc) : Sys :=
  { s with senders := s.senders.mapIdx (fun i p => if i = k then pc else p) }

/-- `timer.Reset(d)` -/
def Sys.reset (s : Sys) (d : Int) : Sys := { s with armed := true, due := s.now + (if d < 0 then 0 else d) }

/-- the `case <-f.push` arm, entered after receiving from sender `k` -/
def Sys.pushArm (s : Sys) (k : Nat) : Sys :=
  let s := (({ s with sendQ := s.sendQ.filter (· ≠ k) }).setS k .done)
  match s.queue with
  | [] => s        -- `next, ok := peek().(timedChunk); if !ok { continue }`: already forwarded by the timer arm
  | next :: _ =>
    -- if !timer.Stop() { <-timer.C }
    let drained : Option Sys :=
      if s.armed then some { s with armed := false }
      else match s.tick with
        | some _ => some { s with tick := none }
        | none => none
    match drained with
    | none => { s with loop := .stuck }
    | some s1 => (s1.reset (next.deadline - s1.now))

/-- the `case now := <-timer.C` arm with tick value `tnow` -/
def Sys.tickArm (s : Sys) (tnow : Int) : Sys :=
  let s := { s with tick := none }
  match s.queue with
  | [] => s.reset minute
  | n :: rest =>
    let s1 := if n.deadline < tnow then { s with queue := rest, forwarded := s.forwarded ++ [(n.id, s.now)] } else s
    match s1.queue with
    | [] => s1.reset minute
    | n2 :: _ => s1.reset (n2.deadline - s1.now)

/-- the loop evaluates its select (it is at the yield or parked and something became ready).
    The harness never lets both cases be ready at once, so the choice is determined. -/
def Sys.select (s : Sys) : Sys :=
  match s.sendQ, s.tick with
  | k :: _, _ => ({ s with loop := .atSelect }).pushArm k
  | [], some t => ({ s with loop := .atSelect }).tickArm t
  | [], none => { s with loop := .parked }

inductive Op
  | send (k : Nat)        -- grant sender k at `start`: it timestamps and queues its chunk, stops before the notification
  | notify (k : Nat)      -- grant sender k at the send: it blocks on `push <-` until the loop receives
  | loop                  -- grant the loop at its select
  | advance (dt : Nat)    -- time passes; a due timer expires (at most one expiry per step, then the woken loop runs)
deriving Repr, DecidableEq

def step (s : Sys) : Op → Sys
  | .send k =>
    if s.senders[k]? = some .start then
      ({ s with queue := s.queue ++ [({ id := k, deadline := s.now + s.delay } : Chunk)] }).setS k .atSend
    else s
  | .notify k =>
    if s.senders[k]? = some .atSend then
      let s1 := ({ s with sendQ := s.sendQ ++ [k] }).setS k .sending
      -- a loop blocked in the select is woken by the send and runs the push arm to its next yield
      if s1.loop = .parked then s1.select else s1
    else s
  | .loop => if s.loop = .atSelect then s.select else s
  | .advance dt =>
    let s1 := { s with now := s.now + dt }
    if s1.armed ∧ s1.due ≤ s1.now then
      let s2 := { s1 with armed := false, tick := (match s1.tick with | some t => some t | none => some (s1.now + s1.late)) }
      if s2.loop = .parked then s2.select else s2
    else s1

def run (s : Sys) : List Op → Sys
  | [] => s
  | op :: ops => run (step s op) ops

end TV.Delay
