import TransportVerif.Model.Nat
/-
Model of the vnet data path (C01): `UDPConn.WriteTo` → `Net.write` → `Router.push` /
`Router.processChunks` (one chunk per step) → `Router.onInboundChunk` (child router, NAT inbound)
or `Net.onInboundChunk` → `udpConnMap.find` → `UDPConn.onInboundChunk` → `UDPConn.ReadFrom`.

* A network is a list of routers (subnet, optional parent and NAT towards it, NIC table, FIFO queue
  with optional capacity) and a list of hosts (eth0 addresses, sockets in creation order).
* The topology (who holds which address) is taken as built: address assignment is C13's subject.
* A step of a router is one iteration of the loop in `processChunks`: pop the head, route it.  The
  Go loop drains the queue in one call; other goroutines can push in the windows where the router
  drops its mutex, so "one chunk" is the atomic unit.
* Chunks carry ghost fields that the code does not have (`id` = number of the write that created it,
  `origin`, `odst` = destination as written, `hops` = containers visited, `route` = the same with
  the destination carried on entry) for the theorems.
* NAT translation is Model/Nat.lean (C02/C03), time is an integer passed to it.
-/
namespace TV.Vnet
open TV.Nat

/-- a container a chunk can sit in -/
inductive Ctr
  | queue (r : Nat)
  | inbox (h s : Nat)
deriving Repr, DecidableEq

structure Chunk where
  id : Nat
  origin : Nat × Nat        -- (host, socket) that wrote it
  odst : Addr               -- destination as written
  src : Addr
  dst : Addr
  payload : List UInt8
  hops : List Ctr
  route : List (Ctr × Addr) := []   -- ghost: every container entered, with the destination the chunk carried then
deriving Repr, DecidableEq

inductive Node
  | host (h : Nat)
  | router (r : Nat)
deriving Repr, DecidableEq

inductive Drop
  | notStarted (r : Nat)        -- push while the router is stopped
  | queueFull (r : Nat)
  | noNIC (r : Nat)             -- destination in the subnet, nobody holds it
  | noRoute (r : Nat)           -- root router, destination outside
  | natOut (r : Nat)            -- 1:1 NAT without a pair for the source
  | natOutError (r : Nat)       -- NAT could not translate (port space used up)
  | natIn (r : Nat) (e : InRes) -- inbound refused by the child's NAT
  | noSocket (h : Nat)
  | inboxFull (h s : Nat)
deriving Repr, DecidableEq

structure RouterM where
  netIP : Nat
  maskBits : Nat
  parent : Option Nat
  nat : Option NAT
  nics : List (Nat × Node)
  queue : List Chunk
  cap : Nat                      -- 0 = unlimited
deriving Repr, DecidableEq

structure SockM where
  ip : Nat                       -- 0 = wildcard
  port : Nat
  remote : Option Addr
  inbox : List Chunk             -- unread, oldest first (`readCh`)
  delivered : List Chunk         -- ghost: everything ever put into the inbox, oldest first
  closed : Bool
deriving Repr, DecidableEq

structure HostM where
  ips : List Nat                 -- eth0 addresses in order
  router : Option Nat
  socks : List SockM
deriving Repr, DecidableEq

structure Written where
  origin : Nat × Nat
  dst : Addr
  payload : List UInt8
deriving Repr, DecidableEq

structure Net where
  routers : List RouterM
  hosts : List HostM
  now : Int
  started : Bool
  written : List Written         -- ghost: the writes so far; a chunk's id indexes this list
  drops : List (Chunk × Drop)    -- ghost: what was discarded and why
deriving Repr, DecidableEq

def inboxCap : Nat := 1024
def loopbackNet : Nat := 127 * 2 ^ 24
def isLoopback (ip : Nat) : Bool := ip / 2 ^ 24 == 127
def loopbackIP : Nat := loopbackNet + 1

def RouterM.contains (r : RouterM) (ip : Nat) : Bool :=
  ip / 2 ^ (32 - r.maskBits) == r.netIP / 2 ^ (32 - r.maskBits)

def Net.modRouter (n : Net) (r : Nat) (f : RouterM → RouterM) : Net :=
  { n with routers := n.routers.modify r f }

def Net.modHost (n : Net) (h : Nat) (f : HostM → HostM) : Net :=
  { n with hosts := n.hosts.modify h f }

def Net.drop (n : Net) (c : Chunk) (d : Drop) : Net := { n with drops := n.drops ++ [(c, d)] }

/-- `Router.push` -/
def Net.pushTo (n : Net) (r : Nat) (c : Chunk) : Net :=
  match n.routers[r]? with
  | none => n.drop c (.notStarted r)
  | some rt =>
    if !n.started then n.drop c (.notStarted r)
    else if rt.cap > 0 ∧ rt.queue.length ≥ rt.cap then n.drop c (.queueFull r)
    else n.modRouter r (fun rt => { rt with queue := rt.queue ++ [{ c with hops := c.hops ++ [.queue r], route := c.route ++ [(.queue r, c.dst)] }] })

/-- a socket covers an address: same port, and the socket is bound to that IP or to the wildcard -/
def SockM.covers (s : SockM) (a : Addr) : Bool := !s.closed && s.port == a.port && (s.ip == 0 || s.ip == a.ip)

/-- `udpConnMap.find` (for a specific destination IP) -/
def HostM.findSock (h : HostM) (a : Addr) : Option Nat :=
  (h.socks.zipIdx.find? (fun e => e.1.covers a)).map (·.2)

/-- `Net.onInboundChunk` and `UDPConn.onInboundChunk` -/
def Net.deliver (n : Net) (h : Nat) (c : Chunk) : Net :=
  match n.hosts[h]? with
  | none => n.drop c (.noSocket h)
  | some hm =>
    match hm.findSock c.dst with
    | none => n.drop c (.noSocket h)
    | some s =>
      match hm.socks[s]? with
      | none => n.drop c (.noSocket h)
      | some sk =>
        if sk.inbox.length ≥ inboxCap then n.drop c (.inboxFull h s)
        else
          let c' := { c with hops := c.hops ++ [.inbox h s], route := c.route ++ [(.inbox h s, c.dst)] }
          n.modHost h (fun hm => { hm with socks := hm.socks.modify s (fun sk =>
            { sk with inbox := sk.inbox ++ [c'], delivered := sk.delivered ++ [c'] }) })

inductive WriteRes | ok | noSourceIP | noRouter | badSocket
deriving Repr, DecidableEq

/-- `determineSourceIP` -/
def sourceIP (hm : HostM) (sk : SockM) (dst : Addr) : Option Nat :=
  if sk.ip ≠ 0 then some sk.ip
  else if isLoopback dst.ip then some loopbackIP
  else hm.ips.head?

/-- `UDPConn.WriteTo` + `Net.write` -/
def Net.write (n : Net) (h s : Nat) (dst : Addr) (payload : List UInt8) : Net × WriteRes :=
  match n.hosts[h]? with
  | none => (n, .badSocket)
  | some hm =>
    match hm.socks[s]? with
    | none => (n, .badSocket)
    | some sk =>
      match sourceIP hm sk dst with
      | none => (n, .noSourceIP)
      | some ip =>
        let c : Chunk := { id := n.written.length, origin := (h, s), odst := dst, src := { ip := ip, port := sk.port },
                           dst := dst, payload := payload, hops := [], route := [] }
        let n1 : Net := { n with written := n.written ++ [({ origin := (h, s), dst := dst, payload := payload } : Written)] }
        if isLoopback dst.ip then (n1.deliver h c, .ok)
        else
          match hm.router with
          | none => (n, .noRouter)
          | some r => (n1.pushTo r c, .ok)

/-- what one iteration of the `processChunks` loop does with the chunk it popped -/
def Net.forward (n : Net) (r : Nat) (rt : RouterM) (c : Chunk) : Net :=
  if rt.contains c.dst.ip then
    match ((rt.nics.find? (fun e => e.1 == c.dst.ip)).map (·.2) : Option Node) with
    | none => n.drop c (.noNIC r)
    | some (Node.host h) => n.deliver h c
    | some (Node.router k) =>
      -- `Router.onInboundChunk` of the child: NAT inbound, then its own queue
      match n.routers[k]? with
      | none => n.drop c (.noNIC r)
      | some child =>
        match child.nat with
        | none => n.drop c (.noNIC r)
        | some nat =>
          let (nat', res) := nat.translateInbound n.now c.src c.dst
          let n1 := n.modRouter k (fun x => { x with nat := some nat' })
          match res with
          | .ok dst' => n1.pushTo k { c with dst := dst' }
          | e => n1.drop c (.natIn k e)
  else
    match rt.parent, rt.nat with
    | some p, some nat =>
      let (nat', res) := nat.translateOutbound n.now c.src c.dst
      let n1 := n.modRouter r (fun x => { x with nat := some nat' })
      match res with
      | .ok src' => n1.pushTo p { c with src := src' }
      | .drop => n1.drop c (.natOut r)
      | _ => n1.drop c (.natOutError r)
    | _, _ => n.drop c (.noRoute r)

/-- one iteration of the loop in `Router.processChunks` of router `r` -/
def Net.routeOne (n : Net) (r : Nat) : Net :=
  match n.routers[r]? with
  | none => n
  | some rt =>
    match rt.queue with
    | [] => n
    | c :: rest =>
      let rt' := { rt with queue := rest }
      (n.modRouter r (fun _ => rt')).forward r rt' c

inductive ReadRes
  | pkt (c : Chunk)
  | empty
  | closed
  | bad
deriving Repr, DecidableEq

/-- `UDPConn.ReadFrom` without blocking: a connected socket discards datagrams of other sources -/
def readInbox (remote : Option Addr) : List Chunk → List Chunk × Option Chunk
  | [] => ([], none)
  | c :: rest =>
    match remote with
    | some ra => if c.src = ra then (rest, some c) else readInbox remote rest
    | none => (rest, some c)

def Net.read (n : Net) (h s : Nat) : Net × ReadRes :=
  match n.hosts[h]? with
  | none => (n, .bad)
  | some hm =>
    match hm.socks[s]? with
    | none => (n, .bad)
    | some sk =>
      let (rest, got) := readInbox sk.remote sk.inbox
      let n' := n.modHost h (fun hm => { hm with socks := hm.socks.modify s (fun sk => { sk with inbox := rest }) })
      match got with
      | some c => (n', .pkt c)
      | none => (n', if sk.closed then .closed else .empty)

inductive BindRes | ok (s : Nat) | cantAssign | inUse | bad
deriving Repr, DecidableEq

def HostM.hasIP (hm : HostM) (ip : Nat) : Bool := ip == 0 || ip == loopbackIP || hm.ips.contains ip

/-- `ListenUDP` / `DialUDP` with an explicit port -/
def Net.bind (n : Net) (h : Nat) (ip port : Nat) (remote : Option Addr) : Net × BindRes :=
  match n.hosts[h]? with
  | none => (n, .bad)
  | some hm =>
    if !hm.hasIP ip then (n, .cantAssign)
    else if hm.socks.any (fun sk => !sk.closed && sk.port == port && (ip == 0 || sk.ip == 0 || sk.ip == ip)) then (n, .inUse)
    else
      (n.modHost h (fun hm => { hm with socks := hm.socks ++ [({ ip, port, remote, inbox := [], delivered := [], closed := false } : SockM)] }),
       .ok hm.socks.length)

/-- `UDPConn.Close` -/
def Net.close (n : Net) (h s : Nat) : Net :=
  n.modHost h (fun hm => { hm with socks := hm.socks.modify s (fun sk => { sk with closed := true }) })

inductive Op
  | write (h s : Nat) (dst : Addr) (payload : List UInt8)
  | route (r : Nat)
  | read (h s : Nat)
  | bind (h : Nat) (ip port : Nat) (remote : Option Addr)
  | close (h s : Nat)
  | adv (dt : Nat)
  | start
  | stop
deriving Repr, DecidableEq

def step (n : Net) : Op → Net
  | .write h s dst p => (n.write h s dst p).1
  | .route r => n.routeOne r
  | .read h s => (n.read h s).1
  | .bind h ip port rem => (n.bind h ip port rem).1
  | .close h s => n.close h s
  | .adv dt => { n with now := n.now + dt }
  | .start => { n with started := true }
  | .stop => { n with started := false }

def run (n : Net) : List Op → Net
  | [] => n
  | op :: ops => run (step n op) ops

/-- a network before any traffic: empty queues, no sockets, nothing written -/
def Net.Fresh (n : Net) : Prop :=
  n.written = [] ∧ n.drops = [] ∧ (∀ r ∈ n.routers, r.queue = []) ∧ (∀ h ∈ n.hosts, h.socks = [])

end TV.Vnet
