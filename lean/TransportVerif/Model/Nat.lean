/-
Model of vnet/nat.go (`networkAddressTranslator`): NAPT with the RFC 4787 mapping and filtering
behaviours, mapping lifetime, and the 1:1 mode.

* Addresses are (ip, port) pairs of naturals; the Go code builds string keys
  `"udp:<ip>:<port>:<bound>"`, which for dotted-quad/decimal text are injective in the tuple
  (DESIGN.md 7.2), so tuple keys are used.
* The two Go maps hold pointers to shared `mapping` objects; here both maps hold copies and every
  mutation (`filters`, `expires`) is applied to the copies in both maps by mapping identity `id`
  (the allocation number, which also determines the external port).
* Time is an integer (milliseconds) passed in by the caller: one clock reading per call.
-/
namespace TV.Nat

structure Addr where
  ip : Nat
  port : Nat
deriving Repr, DecidableEq

inductive Dep | indep | addr | addrPort
deriving Repr, DecidableEq

/-- the behaviour-dependent part of a remote address: `""`, `"<ip>"` or `"<ip>:<port>"` -/
inductive Key
  | none
  | ip (ip : Nat)
  | full (a : Addr)
deriving Repr, DecidableEq

def keyOf : Dep → Addr → Key
  | .indep, _ => .none
  | .addr, a => .ip a.ip
  | .addrPort, a => .full a

structure Mapping where
  id : Nat
  loc : Addr            -- `local`
  mappedIP : Nat
  mappedPort : Nat      -- may exceed 65535 once the counter has run past the port space
  bound : Key
  filters : List Key
  expires : Int
deriving Repr, DecidableEq

def basePort : Nat := 0xC000

structure NAT where
  one2one : Bool
  mapBeh : Dep
  filtBeh : Dep
  lifetime : Int
  mappedIPs : List Nat
  localIPs : List Nat
  outbound : List ((Addr × Key) × Mapping)     -- outboundMap
  inbound : List ((Nat × Nat) × Mapping)        -- inboundMap, key = (mapped ip, mapped port)
  counter : Nat                                  -- udpPortCounter
deriving Repr, DecidableEq

def defaultLifetime : Int := 30000

/-- `newNAT`; `none` = constructor error (1:1 needs equally many mapped and local IPs, at least one) -/
def NAT.new (one2one : Bool) (mapBeh filtBeh : Dep) (lifetime : Int) (mappedIPs localIPs : List Nat) : Option NAT :=
  if one2one then
    if mappedIPs.length = 0 then none
    else if mappedIPs.length ≠ localIPs.length then none
    else some { one2one := true, mapBeh := .indep, filtBeh := .indep, lifetime := 0, mappedIPs, localIPs,
                outbound := [], inbound := [], counter := 0 }
  else
    some { one2one := false, mapBeh, filtBeh, lifetime := if lifetime = 0 then defaultLifetime else lifetime,
           mappedIPs, localIPs, outbound := [], inbound := [], counter := 0 }

def lookup {κ : Type} [DecidableEq κ] (l : List (κ × Mapping)) (k : κ) : Option Mapping :=
  (l.find? (fun e => e.1 = k)).map (·.2)

def erase {κ : Type} [DecidableEq κ] (l : List (κ × Mapping)) (k : κ) : List (κ × Mapping) :=
  l.filter (fun e => e.1 ≠ k)

/-- apply `f` to every copy of the mapping object `id` -/
def updId {κ : Type} (l : List (κ × Mapping)) (id : Nat) (f : Mapping → Mapping) : List (κ × Mapping) :=
  l.map (fun e => if e.2.id = id then (e.1, f e.2) else e)

/-- `removeMapping(m)`: deletes `m`'s own two keys -/
def NAT.removeMapping (n : NAT) (m : Mapping) : NAT :=
  { n with outbound := erase n.outbound (m.loc, m.bound),
           inbound := erase n.inbound (m.mappedIP, m.mappedPort) }

def NAT.mutate (n : NAT) (id : Nat) (f : Mapping → Mapping) : NAT :=
  { n with outbound := updId n.outbound id f, inbound := updId n.inbound id f }

/-- `findOutboundMapping` -/
def NAT.findOutbound (n : NAT) (now : Int) (k : Addr × Key) : NAT × Option Mapping :=
  match lookup n.outbound k with
  | none => (n, none)
  | some m =>
    if now > m.expires then (n.removeMapping m, none)
    else
      let m' := { m with expires := now + n.lifetime }
      (n.mutate m.id (fun x => { x with expires := now + n.lifetime }), some m')

/-- `findInboundMapping` -/
def NAT.findInbound (n : NAT) (now : Int) (k : Nat × Nat) : NAT × Option Mapping :=
  match lookup n.inbound k with
  | none => (n, none)
  | some m => if now > m.expires then (n.removeMapping m, none) else (n, some m)

inductive OutRes
  | ok (src : Addr)       -- translated source address
  | drop                  -- (nil, nil): 1:1 mode, unpaired local IP
  | badPort               -- setSourceAddr failed: port above 65535
  | noMappedIP            -- mappedIPs[0] on an empty list (panic)
deriving Repr, DecidableEq

inductive InRes
  | ok (dst : Addr)       -- translated destination address
  | noAssoc               -- errNoAssociatedLocalAddress
  | noBinding             -- errNoNATBindingFound
  | noPermission          -- errHasNoPermission
deriving Repr, DecidableEq

def paired (keys vals : List Nat) (k : Nat) : Option Nat :=
  ((keys.zip vals).find? (fun e => e.1 = k)).map (·.2)

/-- `translateOutbound` for a UDP chunk from `src` to `dst` -/
def NAT.translateOutbound (n : NAT) (now : Int) (src dst : Addr) : NAT × OutRes :=
  if n.one2one then
    match paired n.localIPs n.mappedIPs src.ip with
    | none => (n, .drop)
    | some ip => (n, .ok { ip := ip, port := src.port })
  else
    let bound := keyOf n.mapBeh dst
    let fkey := keyOf n.filtBeh dst
    let (n1, found) := n.findOutbound now (src, bound)
    match found with
    | none =>
      match n1.mappedIPs.head? with
      | none => (n1, .noMappedIP)
      | some ip0 =>
        let m : Mapping := { id := n1.counter, loc := src, mappedIP := ip0, mappedPort := basePort + n1.counter,
                             bound := bound, filters := [fkey], expires := now + n1.lifetime }
        let n2 := { n1 with counter := n1.counter + 1,
                            outbound := erase n1.outbound (src, bound) ++ [((src, bound), m)],
                            inbound := erase n1.inbound (ip0, m.mappedPort) ++ [((ip0, m.mappedPort), m)] }
        if m.mappedPort > 65535 then (n2, .badPort) else (n2, .ok { ip := ip0, port := m.mappedPort })
    | some m =>
      let n2 := if m.filters.contains fkey then n1 else n1.mutate m.id (fun x => { x with filters := x.filters ++ [fkey] })
      if m.mappedPort > 65535 then (n2, .badPort) else (n2, .ok { ip := m.mappedIP, port := m.mappedPort })

/-- `translateInbound` for a UDP chunk from `src` (the remote) to `dst` (an external address) -/
def NAT.translateInbound (n : NAT) (now : Int) (src dst : Addr) : NAT × InRes :=
  if n.one2one then
    match paired n.mappedIPs n.localIPs dst.ip with
    | none => (n, .noAssoc)
    | some ip => (n, .ok { ip := ip, port := dst.port })
  else
    let (n1, found) := n.findInbound now (dst.ip, dst.port)
    match found with
    | none => (n1, .noBinding)
    | some m =>
      let fkey := keyOf n.filtBeh src
      if m.filters.contains fkey then (n1, .ok m.loc) else (n1, .noPermission)

inductive Op
  | out (src dst : Addr)
  | inb (src dst : Addr)
  | adv (dt : Nat)        -- time passes
deriving Repr, DecidableEq

inductive Out
  | o (r : OutRes)
  | i (r : InRes)
  | unit
deriving Repr, DecidableEq

/-- state = (NAT, current time) -/
def step (s : NAT × Int) : Op → (NAT × Int) × Out
  | .out a b => let r := s.1.translateOutbound s.2 a b; ((r.1, s.2), .o r.2)
  | .inb a b => let r := s.1.translateInbound s.2 a b; ((r.1, s.2), .i r.2)
  | .adv dt => ((s.1, s.2 + dt), .unit)

end TV.Nat
