/-
Model of replaydetector/fixedbig.go: a fixed-width multi-word integer.
Words are `BitVec 64`; Go's shift semantics (shift count ≥ 64 gives 0) is that of
`BitVec.shiftLeft/ushiftRight` with a `Nat` count.  `Lsh` is the same descending in-place loop.
-/
namespace TV

abbrev Word := BitVec 64

structure FixedBig where
  bits : List Word
  n : Nat
  msbMask : Word
deriving Repr, DecidableEq

namespace FixedBig

/-- Go's `x << n` on uint64: 0 once the count reaches the width (also keeps huge counts away
    from `Nat.shiftLeft` at run time) -/
def shl (x : Word) (n : Nat) : Word := if 64 ≤ n then 0#64 else x <<< n
/-- Go's `x >> n` on uint64 -/
def shr (x : Word) (n : Nat) : Word := if 64 ≤ n then 0#64 else x >>> n

/-- `newFixedBigInt` -/
def new (n : Nat) : FixedBig :=
  let chunk := (n + 63) / 64
  let chunk := if chunk = 0 then 1 else chunk
  { bits := List.replicate chunk 0#64, n := n,
    msbMask := if n % 64 ≠ 0 then shl 1#64 (n % 64) - 1#64 else BitVec.allOnes 64 }

/-- the value computed for `s.bits[i]` in one iteration of the loop of `Lsh`, reading `bits` -/
def lshWord (bits : List Word) (n i : Nat) : Word :=
  let nChunk := n / 64
  let nN := n % 64
  let carry : Word :=
    if nChunk ≤ i then
      let c := shl (bits.getD (i - nChunk) 0#64) nN
      if 1 ≤ i - nChunk then c ||| shr (bits.getD (i - nChunk - 1) 0#64) (64 - nN) else c
    else 0#64
  shl (bits.getD i 0#64) n ||| carry

/-- the loop `for i := len-1; i >= 0; i--`, as `k = i+1` counting down, in place -/
def lshLoop (n : Nat) : Nat → List Word → List Word
  | 0, bits => bits
  | k + 1, bits => lshLoop n k (bits.set k (lshWord bits n k))

def lsh (s : FixedBig) (n : Nat) : FixedBig :=
  if n = 0 then s else
  let bits := lshLoop n s.bits.length s.bits
  let last := bits.length - 1
  { s with bits := bits.set last (bits.getD last 0#64 &&& s.msbMask) }

def bit (s : FixedBig) (i : Nat) : Bool :=
  if s.n ≤ i then false
  else (s.bits.getD (i / 64) 0#64 &&& shl 1#64 (i % 64)) != 0#64

def setBit (s : FixedBig) (i : Nat) : FixedBig :=
  if s.n ≤ i then s
  else { s with bits := s.bits.set (i / 64) (s.bits.getD (i / 64) 0#64 ||| shl 1#64 (i % 64)) }

end FixedBig
end TV
