import TransportVerif.Model.Deadline
/-
Model of a read with a deadline (C10), parametric in nothing: every connection type of the module
that accepts a read deadline follows the same scheme on top of `deadline.Deadline` (Model/Deadline):

    Read:  if Done is closed           → timeout            (checked first)
           else buffered data          → data               (also after Close)
           else closed                 → end of file
           else wait for (data | Done | close)

packetio.Buffer, dpipe, udp.Conn (= its packetio.Buffer), Bridge endpoints, and — after the repair —
the vnet UDP socket.  The state is the Deadline model plus the number of queued messages and
whether a Read is blocked.  Timer expiry and its callback are taken together (`expire`), because
the harness settles all callbacks before it observes (C09 covers their interleavings).
-/
namespace TV.ReadDeadline
open TV.Deadline

structure Conn where
  d : D
  queued : Nat
  blocked : Bool          -- a Read is waiting
  closed : Bool := false  -- Close was called: buffered data stays readable, then end of file; nothing blocks
deriving Repr, DecidableEq

def Conn.new : Conn := { d := D.new, queued := 0, blocked := false, closed := false }

inductive Res | none | blocked | data | timeout | eof
deriving Repr, DecidableEq

/-- run every due expiry and its callback (possibly several stale ones) -/
def settle (d : D) : Nat → D
  | 0 => d
  | fuel + 1 =>
    let d1 := d.fire
    let d2 := if d1.outstanding > 0 then d1.callback else d1
    if d2 = d then d else settle d2 fuel

/-- a blocked Read is released when the deadline signal is raised -/
def Conn.release (c : Conn) : Conn × Res :=
  if c.blocked ∧ c.d.doneClosed then ({ c with blocked := false }, .timeout) else (c, if c.blocked then .blocked else .none)

inductive Op
  | setDeadline (t : Option Int)
  | arrive
  | read
  | advance (dt : Nat)
  | close
deriving Repr, DecidableEq

def step (c : Conn) : Op → Conn × Res
  | .setDeadline t => ({ c with d := settle (c.d.set t) 4 }).release
  | .arrive =>
    if c.closed then (c, .none)                                    -- a write to a closed connection is refused
    else if c.blocked then ({ c with blocked := false }, .data)   -- handed to the waiting Read
    else ({ c with queued := c.queued + 1 }, .none)
  | .read =>
    if c.blocked then (c, .blocked)                                -- one Read at a time in this harness
    else if c.d.doneClosed then (c, .timeout)                      -- the deadline has passed: timeout first
    else if c.queued > 0 then ({ c with queued := c.queued - 1 }, .data)
    else if c.closed then (c, .eof)
    else ({ c with blocked := true }, .blocked)
  | .advance dt => ({ c with d := settle (c.d.advance dt) 4 }).release
  | .close =>
    -- Close wakes a blocked Read (nothing is buffered then): end of file
    if c.blocked then ({ c with closed := true, blocked := false }, .eof) else ({ c with closed := true }, .none)

end TV.ReadDeadline
