/-
Model of the blocking behaviour of packetio.Buffer (C08): a transition system whose atomic steps
are the code segments between two consecutive yield points of the rewritten source (vrewrite puts
a yield before every `mutex.Lock()` statement and before the blocking `select` of `Read`), for any
number of reader, writer and closer threads.

Shared state: `count` (packets buffered), `token` (the one-slot buffer of the `notify` channel),
`parked` (readers blocked in the select, in arrival order — Go hands a sent value to the
longest-waiting receiver before it touches the channel buffer), `closed`.
-/
namespace TV.BufferSync

inductive Role | reader | writer | closer
deriving Repr, DecidableEq

inductive Res | got | eof | wrote | refused | closedOk
deriving Repr, DecidableEq

inductive Pc
  | start            -- before the call
  | atLock           -- at the yield before `b.mutex.Lock()`
  | atSelect         -- (readers) at the yield before `select { <-deadline | <-notify }`
  | parked           -- (readers) blocked in that select
  | done (r : Res)
deriving Repr, DecidableEq

structure Th where
  role : Role
  pc : Pc
deriving Repr, DecidableEq

structure Sys where
  count : Nat
  token : Bool
  parked : List Nat        -- thread ids, oldest first
  closed : Bool
  ths : List Th
deriving Repr, DecidableEq

def Sys.setPc (s : Sys) (t : Nat) (pc : Pc) : Sys :=
  { s with ths := s.ths.mapIdx (fun i th => if i = t then { th with pc := pc } else th) }

/-- `select { case b.notify <- struct{}{}: default: }` — the non-blocking post of a token -/
def Sys.post (s : Sys) : Sys :=
  match s.parked with
  | r :: rest => ({ s with parked := rest }).setPc r .atLock     -- handed to the longest-waiting reader, who runs to its next yield
  | [] => { s with token := true }                                -- buffered (or dropped if the slot is full)

/-- `close(b.notify)`: every parked reader is released -/
def Sys.wakeAll (s : Sys) : Sys :=
  s.parked.foldl (fun s r => s.setPc r .atLock) { s with parked := [] }

/-- grant thread `t`: it runs from its yield point to the next one (or to the end, or parks) -/
def step (s : Sys) (t : Nat) : Sys :=
  match s.ths[t]? with
  | none => s
  | some th =>
    match th.role, th.pc with
    | _, .start => s.setPc t .atLock
    | .reader, .atLock =>
      if s.count > 0 then
        -- take the packet; if more are left behind (and the channel is still open) pass the token on
        let s1 := { s with count := s.count - 1 }
        let s2 := if s1.count > 0 ∧ !s1.closed then s1.post else s1
        s2.setPc t (.done .got)
      else if s.closed then s.setPc t (.done .eof)
      else s.setPc t .atSelect
    | .reader, .atSelect =>
      if s.closed then s.setPc t .atLock                  -- receive from the closed channel
      else if s.token then ({ s with token := false }).setPc t .atLock
      else ({ s with parked := s.parked ++ [t] }).setPc t .parked
    | .writer, .atLock =>
      if s.closed then s.setPc t (.done .refused)
      else (({ s with count := s.count + 1 }).post).setPc t (.done .wrote)
    | .closer, .atLock =>
      if s.closed then s.setPc t (.done .closedOk)
      else (({ s with closed := true }).wakeAll).setPc t (.done .closedOk)
    | _, _ => s

/-- a thread can be granted iff it is at a yield point -/
def Th.atYield (th : Th) : Bool := th.pc == .start || th.pc == .atLock || th.pc == .atSelect

def Sys.init (pre : Nat) (readers writers closers : Nat) : Sys :=
  { count := pre, token := decide (pre > 0), parked := [], closed := false,
    ths := List.replicate readers { role := .reader, pc := .start } ++
           List.replicate writers { role := .writer, pc := .start } ++
           List.replicate closers { role := .closer, pc := .start } }

def run (s : Sys) : List Nat → Sys
  | [] => s
  | t :: ts => run (step s t) ts

/-- no thread can be granted any more -/
def Sys.quiescent (s : Sys) : Bool := s.ths.all (fun th => !th.atYield)

/-- C08: a reader is stranded — blocked in the wait while a packet it could take is buffered, or
    still blocked although the buffer was closed -/
def Sys.stranded (s : Sys) : Bool := !s.parked.isEmpty && (s.count > 0 || s.closed)

end TV.BufferSync
