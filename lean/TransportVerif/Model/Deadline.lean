/-
Model of deadline/deadline.go.  The runtime timer is the `timer` interface of the package; its
semantics (time.AfterFunc) are modelled by `armed`/`due`: `Stop` reports whether it prevented the
expiry, `Reset` re-arms, the runtime *fires* an armed timer whose time has come (the timer is then
expired and one callback instance is outstanding), and the callback body `timeout()` runs at some
later point — possibly after further `Set` calls.  Time is an integer; `now` only moves forward.
`pending` is the uint8 of the code (arithmetic modulo 256).  `gen` identifies the current `done`
channel (a new channel = a new number).
-/
namespace TV.Deadline

inductive St | stopped | started | exceeded
deriving Repr, DecidableEq

structure D where
  state : St
  pending : Nat            -- uint8
  gen : Nat                -- identity of `d.done`
  doneClosed : Bool        -- is the current `d.done` closed
  deadline : Option Int    -- `none` = the zero time
  armed : Bool             -- runtime timer armed (not yet expired, not stopped)
  due : Int
  outstanding : Nat        -- callbacks dispatched by the runtime that have not run yet
  now : Int
  panicked : Bool          -- close of a closed channel
deriving Repr, DecidableEq

def D.new : D :=
  { state := .stopped, pending := 0, gen := 0, doneClosed := false, deadline := none, armed := false,
    due := 0, outstanding := 0, now := 0, panicked := false }

def dec8 (x : Nat) : Nat := (x + 255) % 256
def inc8 (x : Nat) : Nat := (x + 1) % 256

/-- `close(d.done)` -/
def D.closeDone (d : D) : D := if d.doneClosed then { d with panicked := true } else { d with doneClosed := true }

/-- `Set(setTo)` -/
def D.set (d : D) (setTo : Option Int) : D :=
  -- `if d.state == deadlineStarted && d.timer.Stop() { d.pending-- }`
  let stopped := d.state == .started && d.armed
  let d1 := if d.state == .started then { d with armed := false } else d
  let d2 := if stopped then { d1 with pending := dec8 d1.pending } else d1
  let d3 := { d2 with deadline := setTo, pending := inc8 d2.pending }
  let d4 := if d3.state == .exceeded then { d3 with gen := d3.gen + 1, doneClosed := false } else d3
  match setTo with
  | none => { d4 with pending := dec8 d4.pending, state := .stopped }
  | some t =>
    if t > d4.now then { d4 with state := .started, armed := true, due := t }     -- timer.Reset(dur)
    else ({ d4 with pending := dec8 d4.pending, state := .exceeded }).closeDone

/-- the runtime dispatches the expiry of the armed timer -/
def D.fire (d : D) : D :=
  if d.armed ∧ d.due ≤ d.now then { d with armed := false, outstanding := d.outstanding + 1 } else d

/-- one outstanding callback runs: the body of `timeout()` -/
def D.callback (d : D) : D :=
  if d.outstanding = 0 then d else
  let d1 := { d with outstanding := d.outstanding - 1, pending := dec8 d.pending }
  if d1.pending ≠ 0 ∨ d1.state ≠ .started then d1
  else ({ d1 with state := .exceeded }).closeDone

def D.advance (d : D) (dt : Nat) : D := { d with now := d.now + dt }

inductive Op
  | set (t : Option Int)
  | fire
  | callback
  | advance (dt : Nat)
deriving Repr, DecidableEq

def step (d : D) : Op → D
  | .set t => d.set t
  | .fire => d.fire
  | .callback => d.callback
  | .advance dt => d.advance dt

/-- what a client can observe: is Done closed, which channel it is, Err, Deadline -/
structure Obs where
  closed : Bool
  gen : Nat
  errExceeded : Bool
  deadline : Option Int
deriving Repr, DecidableEq

def D.obs (d : D) : Obs :=
  { closed := d.doneClosed, gen := d.gen, errExceeded := d.state == .exceeded, deadline := d.deadline }

def run (d : D) : List Op → D
  | [] => d
  | op :: ops => run (step d op) ops

end TV.Deadline
