/-
Models for C13.
(a) `Router`: automatic/static IP assignment of vnet/router.go (`addNIC`, `assignIPAddress`).
(b) `Host`: the socket table of a vnet host — vnet/conn_map.go (`insert/find/delete`) and the
    bind path of vnet/net.go (`_dialUDP`, `hasIPAddr`, `allocateLocalAddr`, `assignPort`).
IPv4 addresses are naturals; 0 is the unspecified address 0.0.0.0.
-/
namespace TV.Addressing

/-! ### (a) router address assignment -/

structure Router where
  netIP : Nat          -- network address of the CIDR
  maskBits : Nat       -- prefix length
  lastID : Nat
  nics : List Nat      -- keys of `r.nics` (IP → NIC), in insertion order; a re-registration keeps one key
deriving Repr, DecidableEq

def Router.new (netIP maskBits : Nat) : Router := { netIP, maskBits, lastID := 0, nics := [] }

def Router.contains (r : Router) (ip : Nat) : Bool :=
  ip / 2 ^ (32 - r.maskBits) == r.netIP / 2 ^ (32 - r.maskBits) && ip < 2 ^ 32

inductive AssignRes | ok (ips : List Nat) | exhausted | beyondSubnet
deriving Repr, DecidableEq

/-- `assignIPAddress`: the next host byte not already registered on this router; `fuel` bounds the
    search (at most 255 candidates exist) -/
def Router.assign (r : Router) : Nat → Router × Option Nat
  | 0 => (r, none)
  | fuel + 1 =>
    if r.lastID = 0xfe then (r, none)
    else
      let r' := { r with lastID := r.lastID + 1 }
      let ip := (r.netIP / 256) * 256 + r'.lastID       -- first three octets of the network + lastID
      if r.nics.contains ip then r'.assign fuel else (r', some ip)

/-- registration loop of `addNIC` over the NIC's addresses: subnet test, then `r.nics[ip] = nic` -/
def Router.register (r : Router) : List Nat → Router × Bool
  | [] => (r, true)
  | ip :: rest =>
    if !r.contains ip then (r, false)
    else ({ r with nics := if r.nics.contains ip then r.nics else r.nics ++ [ip] }).register rest

/-- `addNIC` for a NIC with the given static IPs (empty = automatic assignment) -/
def Router.addNIC (r : Router) (static : List Nat) : Router × AssignRes :=
  if static.isEmpty then
    match r.assign 256 with
    | (r1, none) => (r1, .exhausted)
    | (r1, some ip) =>
      match r1.register [ip] with
      | (r2, true) => (r2, .ok [ip])
      | (r2, false) => (r2, .beyondSubnet)
  else
    match r.register static with
    | (r2, true) => (r2, .ok static)
    | (r2, false) => (r2, .beyondSubnet)

/-! ### (b) host socket table -/

structure Sock where
  id : Nat
  ip : Nat
  port : Nat
deriving Repr, DecidableEq

structure Host where
  ips : List Nat                       -- addresses of lo0 and eth0, in interface order
  portMap : List (Nat × List Sock)     -- udpConnMap.portMap
  nextId : Nat
  closed : List Nat                    -- ids of sockets whose `closed` flag is set
deriving Repr, DecidableEq

def Host.new (ips : List Nat) : Host := { ips, portMap := [], nextId := 0, closed := [] }

def pmGet (pm : List (Nat × List Sock)) (port : Nat) : Option (List Sock) :=
  (pm.find? (fun e => e.1 = port)).map (·.2)

def pmSet (pm : List (Nat × List Sock)) (port : Nat) (v : List Sock) : List (Nat × List Sock) :=
  pm.filter (fun e => e.1 ≠ port) ++ [(port, v)]

def pmDel (pm : List (Nat × List Sock)) (port : Nat) : List (Nat × List Sock) :=
  pm.filter (fun e => e.1 ≠ port)

/-- `udpConnMap.find` -/
def Host.find (h : Host) (ip port : Nat) : Option Sock :=
  match pmGet h.portMap port with
  | none => none
  | some conns =>
    if ip = 0 then conns.head?
    else conns.find? (fun c => c.ip = 0 ∨ c.ip = ip)

/-- `udpConnMap.insert`; `none` = errAddressAlreadyInUse -/
def Host.insert (h : Host) (s : Sock) : Option Host :=
  match pmGet h.portMap s.port with
  | some conns =>
    if s.ip = 0 then none
    else if conns.any (fun c => c.ip = 0 ∨ c.ip = s.ip) then none
    else some { h with portMap := pmSet h.portMap s.port (conns ++ [s]) }
  | none => some { h with portMap := pmSet h.portMap s.port [s] }

/-- `udpConnMap.delete` (the error results are ignored by `onClosed`) -/
def Host.delete (h : Host) (ip port : Nat) : Host :=
  match pmGet h.portMap port with
  | none => h
  | some conns =>
    if ip = 0 then { h with portMap := pmDel h.portMap port }
    else if conns.any (fun c => c.ip = 0) then h          -- errCannotRemoveUnspecifiedIP
    else
      let rest := conns.filter (fun c => c.ip ≠ ip)
      if rest.isEmpty then { h with portMap := pmDel h.portMap port }
      else { h with portMap := pmSet h.portMap port rest }

/-- `hasIPAddr` (IPv4 only) -/
def Host.hasIP (h : Host) (ip : Nat) : Bool := if ip = 0 then !h.ips.isEmpty else h.ips.contains ip

/-- `allocateLocalAddr`: true = the transport address is free on every IP it would cover -/
def Host.allocatable (h : Host) (ip port : Nat) : Bool :=
  let ips := if ip = 0 then h.ips else if h.hasIP ip then [ip] else []
  !ips.isEmpty && ips.all (fun ip2 => (h.find ip2 port).isNone)

def portStart : Nat := 5000
def portEnd : Nat := 5999

/-- `assignPort(ip, 5000, 5999)` with the random offset given -/
def Host.assignPort (h : Host) (ip offset : Nat) : Option Nat :=
  let space := portEnd + 1 - portStart
  ((List.range space).map (fun i => (offset + i) % space + portStart)).find? (fun p => h.allocatable ip p)

inductive BindRes | ok (s : Sock) | cantAssign | inUse | exhausted
deriving Repr, DecidableEq

/-- `_dialUDP` with local address `ip:port`; `offset` is the value drawn by `rand.Intn(1000)` when the port is 0 -/
def Host.bind (h : Host) (ip port offset : Nat) : Host × BindRes :=
  if !h.hasIP ip then (h, .cantAssign)
  else
    let chosen : Option Nat :=
      if port = 0 then h.assignPort ip offset
      else if (h.find ip port).isSome then none else some port
    match chosen with
    | none => (h, if port = 0 then .exhausted else .inUse)
    | some p =>
      let s : Sock := { id := h.nextId, ip := ip, port := p }
      match h.insert s with
      | none => (h, .inUse)
      | some h' => ({ h' with nextId := h.nextId + 1 }, .ok s)

/-- `UDPConn.Close`: a second Close returns errAlreadyClosed and does nothing; the first one calls
    `onClosed(locAddr)` → `udpConns.delete` -/
def Host.close (h : Host) (s : Sock) : Host :=
  if h.closed.contains s.id then h
  else { (h.delete s.ip s.port) with closed := s.id :: h.closed }

inductive HostOp
  | bind (ip port offset : Nat)
  | close (k : Nat)          -- close the k-th socket ever created (no-op if there is none)
deriving Repr, DecidableEq

/-- state of a host history: the host and the sockets created so far, in creation order -/
structure HostRun where
  h : Host
  created : List Sock
deriving Repr, DecidableEq

def HostRun.step (r : HostRun) : HostOp → HostRun × Option BindRes
  | .bind ip port off =>
    let x := r.h.bind ip port off
    ({ h := x.1, created := match x.2 with | .ok s => r.created ++ [s] | _ => r.created }, some x.2)
  | .close k =>
    match r.created[k]? with
    | some s => ({ r with h := r.h.close s }, none)
    | none => (r, none)

def HostRun.run (r : HostRun) : List HostOp → HostRun
  | [] => r
  | op :: ops => (r.step op).1.run ops

end TV.Addressing
