/-
Model of the demultiplexing part of udp/conn.go (C11): `dispatchMsg`/`getConn` (the read loop's
handling of one datagram), `Accept` (when a connection is queued), `Conn.Read`, `Conn.Close`,
listener `Close` — sequential.  The per-connection buffer is a packet FIFO (packetio.Buffer, whose
FIFO behaviour is C06).  Remote addresses and connections are numbers; the accept filter is a
predicate family on the first payload byte.
-/
namespace TV.Listener

abbrev Msg := List UInt8

/-- accept filter: `none` = no filter; `some (m, r)`: datagrams whose first byte is ≡ r (mod m) are refused -/
def admits (flt : Option (Nat × Nat)) (p : Msg) : Bool :=
  match flt with
  | none => true
  | some (m, r) => !((p.headD 0).toNat % m == r)

structure Conn where
  id : Nat
  remote : Nat
  buf : List Msg
  closed : Bool           -- Conn.Close called (or discarded by the listener): buffer closed
deriving Repr, DecidableEq

structure L where
  backlog : Nat
  filter : Option (Nat × Nat)
  accepting : Bool
  conns : List (Nat × Nat)      -- l.conns: remote ↦ conn id
  acceptQ : List Nat             -- l.acceptCh, oldest first
  store : List Conn              -- every connection ever created, by id
  nextId : Nat
deriving Repr, DecidableEq

def L.new (backlog : Nat) (filter : Option (Nat × Nat)) : L :=
  { backlog := if backlog = 0 then 128 else backlog, filter, accepting := true, conns := [], acceptQ := [], store := [], nextId := 0 }

def L.upd (l : L) (id : Nat) (f : Conn → Conn) : L :=
  { l with store := l.store.map (fun c => if c.id = id then f c else c) }

def L.conn? (l : L) (id : Nat) : Option Conn := l.store.find? (fun c => c.id = id)

/-- `dispatchMsg(addr, buf)` -/
def L.dispatch (l : L) (remote : Nat) (p : Msg) : L :=
  match (l.conns.find? (fun e => e.1 = remote)).map (·.2) with
  | some id =>
    -- `conn.buffer.Write(buf)`: refused silently once the buffer is closed
    l.upd id (fun c => if c.closed then c else { c with buf := c.buf ++ [p] })
  | none =>
    if !l.accepting then l
    else if !admits l.filter p then l
    else if l.acceptQ.length ≥ l.backlog then l           -- ErrListenQueueExceeded
    else
      let c : Conn := { id := l.nextId, remote := remote, buf := [p], closed := false }
      { l with nextId := l.nextId + 1, store := l.store ++ [c], acceptQ := l.acceptQ ++ [c.id],
               conns := l.conns ++ [(remote, c.id)] }

inductive AcceptRes | conn (id : Nat) | closedListener | wouldBlock
deriving Repr, DecidableEq

/-- `Accept()` -/
def L.accept (l : L) : L × AcceptRes :=
  match l.acceptQ with
  | id :: rest => ({ l with acceptQ := rest }, .conn id)
  | [] => (l, if l.accepting then .wouldBlock else .closedListener)

inductive ReadRes | data (p : Msg) | eof | wouldBlock | noSuchConn
deriving Repr, DecidableEq

/-- `Conn.Read` into a slice of `n` bytes (packet semantics of the buffer: the rest of a longer packet is dropped) -/
def L.read (l : L) (id n : Nat) : L × ReadRes :=
  match l.conn? id with
  | none => (l, .noSuchConn)
  | some c =>
    match c.buf with
    | p :: rest => (l.upd id (fun c => { c with buf := rest }), .data (p.take n))
    | [] => (l, if c.closed then .eof else .wouldBlock)

/-- `Conn.Close` (idempotent) -/
def L.connClose (l : L) (id : Nat) : L :=
  match l.conn? id with
  | none => l
  | some c =>
    if c.closed then l
    else ({ l with conns := l.conns.filter (fun e => !(e.1 = c.remote ∧ e.2 = id)) }).upd id (fun c => { c with closed := true })

/-- listener `Close` (idempotent): stop accepting, discard what nobody accepted -/
def L.close (l : L) : L :=
  if !l.accepting then l
  else
    let dropped := l.acceptQ
    let l1 := { l with accepting := false, acceptQ := [], conns := l.conns.filter (fun e => !dropped.contains e.2) }
    dropped.foldl (fun l id => l.upd id (fun c => { c with closed := true })) l1

inductive Op
  | arrive (remote : Nat) (p : Msg)
  | accept
  | read (id n : Nat)
  | connClose (id : Nat)
  | close
deriving Repr, DecidableEq

inductive Out
  | unit
  | a (r : AcceptRes)
  | r (r : ReadRes)
deriving Repr, DecidableEq

def step (l : L) : Op → L × Out
  | .arrive rm p => (l.dispatch rm p, .unit)
  | .accept => let x := l.accept; (x.1, .a x.2)
  | .read id n => let x := l.read id n; (x.1, .r x.2)
  | .connClose id => (l.connClose id, .unit)
  | .close => (l.close, .unit)

end TV.Listener
