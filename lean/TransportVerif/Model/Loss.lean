/-
Model of vnet/loss_filter.go: one draw in [0,100) per datagram, the datagram is dropped iff
`draw < chance`, otherwise handed downstream unchanged.
-/
namespace TV.Loss

/-- `rand.Intn(100) < f.chance` is the drop test -/
def forward (chance : Int) (draw : Nat) : Bool := !((draw : Int) < chance)

/-- the stream of (draw, datagram) pairs through the filter -/
def run {α : Type} (chance : Int) : List (Nat × α) → List α
  | [] => []
  | (d, x) :: rest => if forward chance d then x :: run chance rest else run chance rest

end TV.Loss
