/-
Model of packetio/buffer.go (the sequential part: ring storage, growth, limits, accounting).
`data` is an `Array UInt8` indexed like the Go slice; `head`, `tail`, `count` as in the code;
limits are `Int` because the Go fields are `int` and callers may pass zero or negative values.
Blocking, wake-up and deadlines are the subject of Model/BufferSync (C08); here a `read` on an
empty open buffer reports `wouldBlock`.
-/
namespace TV.Ring

/-- the constants of buffer.go; checked against the source by Generated/Consts on every run -/
def minSize : Nat := 2048
def cutoffSize : Nat := 128 * 1024
def maxSize : Nat := 4 * 1024 * 1024
def maxPacket : Nat := 65536

structure Ring where
  data : Array UInt8
  head : Nat
  tail : Nat
  count : Nat
  limitCount : Int
  limitSize : Int
  closed : Bool
  /-- build tag packetioSizeHardlimit -/
  hard : Bool
deriving Repr, DecidableEq

def Ring.new (hard : Bool) : Ring :=
  { data := #[], head := 0, tail := 0, count := 0, limitCount := 0, limitSize := 0, closed := false, hard }

/-- `size()` -/
def Ring.size (r : Ring) : Nat :=
  if r.head ≤ r.tail then r.tail - r.head else r.tail + r.data.size - r.head

/-- `available(size)`: `size+2+1 > available` is "does not fit" -/
def Ring.available (r : Ring) (n : Nat) : Bool :=
  let av : Nat := if r.tail < r.head then r.head - r.tail else r.head + r.data.size - r.tail
  !(av < n + 2 + 1)

/-- Go's `copy(dst[at:], src)`: copies `min (len dst - at) (len src)` bytes -/
def copyAt (dst : Array UInt8) (off : Nat) : List UInt8 → Array UInt8
  | [] => dst
  | x :: xs => if off < dst.size then copyAt (dst.setIfInBounds off x) (off + 1) xs else dst

/-- `data[lo:hi]` as a list -/
def slice (a : Array UInt8) (lo hi : Nat) : List UInt8 :=
  (List.range (hi - lo)).map (fun k => a.getD (lo + k) 0)

/-- the size `grow` chooses; `none` = ErrFull -/
def Ring.newSize (r : Ring) : Option Nat :=
  let len := r.data.size
  let s0 := if len < cutoffSize then 2 * len else 5 * len / 4
  let s1 := if s0 < minSize then minSize else s0
  let s2 := if (r.limitSize ≤ 0 ∨ r.hard) ∧ s1 > maxSize then maxSize else s1
  let s3 := if r.limitSize > 0 ∧ (s2 : Int) > r.limitSize + 1 then (r.limitSize + 1).toNat else s2
  if s3 ≤ len then none else some s3

/-- `copy(dst[off:], src[lo:lo+k])` for a destination with enough room -/
def copyN (dst : Array UInt8) (off : Nat) (src : Array UInt8) (lo : Nat) : Nat → Array UInt8
  | 0 => dst
  | k + 1 => copyN (dst.setIfInBounds off (src.getD lo 0)) (off + 1) src (lo + 1) k

/-- `grow` -/
def Ring.grow (r : Ring) : Option Ring :=
  match r.newSize with
  | none => none
  | some ns =>
    let newData : Array UInt8 := Array.replicate ns 0
    if r.head ≤ r.tail then
      -- data was contiguous
      let n := r.tail - r.head
      some { r with data := copyN newData 0 r.data r.head n, head := 0, tail := n }
    else
      -- data was discontinuous
      let n1 := r.data.size - r.head
      some { r with data := copyN (copyN newData 0 r.data r.head n1) n1 r.data 0 r.tail, head := 0,
                    tail := n1 + r.tail }

/-- upper bound of the ring size reachable by `grow` under the current limit -/
def Ring.cap (r : Ring) : Nat :=
  if r.limitSize > 0 then
    (if r.hard then min maxSize (r.limitSize + 1).toNat else (r.limitSize + 1).toNat)
  else maxSize

theorem Ring.newSize_gt (r : Ring) (ns : Nat) (h : r.newSize = some ns) : r.data.size < ns := by
  unfold Ring.newSize at h
  grind

theorem Ring.newSize_le_cap (r : Ring) (ns : Nat) (h : r.newSize = some ns) : ns ≤ r.cap := by
  unfold Ring.newSize at h
  unfold Ring.cap
  simp only [minSize, maxSize, cutoffSize] at *
  grind

@[simp] theorem copyAt_size (dst : Array UInt8) (off : Nat) (src : List UInt8) :
    (copyAt dst off src).size = dst.size := by
  induction src generalizing dst off with
  | nil => rfl
  | cons x xs ih =>
    unfold copyAt
    split
    · rw [ih]; simp
    · rfl

@[simp] theorem copyN_size (dst : Array UInt8) (off : Nat) (src : Array UInt8) (lo k : Nat) :
    (copyN dst off src lo k).size = dst.size := by
  induction k generalizing dst off lo with
  | zero => rfl
  | succ k ih => unfold copyN; rw [ih]; simp

theorem Ring.grow_size (r r' : Ring) (h : r.grow = some r') :
    r.data.size < r'.data.size ∧ r'.data.size ≤ r.cap ∧ r'.cap = r.cap := by
  unfold Ring.grow at h
  split at h
  · exact absurd h (by simp)
  · rename_i ns hns
    have h1 := Ring.newSize_gt r ns hns
    have h2 := Ring.newSize_le_cap r ns hns
    split at h <;> simp only [Option.some.injEq] at h <;> subst h <;>
      refine ⟨?_, ?_, rfl⟩ <;> simp only [copyN_size, Array.size_replicate] <;> assumption

/-- the loop `for !b.available(len) { if grow() != nil { return ErrFull } }`.  Returns the ring as
    the loop leaves it (earlier successful `grow`s persist) and whether the packet now fits.
    Terminates because every successful `grow` strictly enlarges the ring and never beyond `cap`. -/
def Ring.growUntil (r : Ring) (n : Nat) : Ring × Bool :=
  if r.available n then (r, true) else
  match h : r.grow with
  | none => (r, false)
  | some r' => r'.growUntil n
termination_by r.cap - r.data.size
decreasing_by
  have := Ring.grow_size r r' h
  omega

inductive WriteRes
  | ok (n : Nat)
  | tooBig
  | closedPipe
  | full
deriving Repr, DecidableEq

/-- `tail++; if tail >= len(data) { tail = 0 }` -/
def bump (len i : Nat) : Nat := if i + 1 ≥ len then 0 else i + 1

/-- the part of `Write` after the ring has room: header, payload (possibly in two pieces), count.
    The fields are taken apart first so that the compiled driver updates `data` in place. -/
def Ring.store (g : Ring) (p : List UInt8) : Ring :=
  match g with
  | { data, head, tail, count, limitCount, limitSize, closed, hard } =>
    let len := data.size
    -- the two header bytes
    let d1 := data.setIfInBounds tail (UInt8.ofNat (p.length >>> 8))
    let t1 := bump len tail
    let d2 := d1.setIfInBounds t1 (UInt8.ofNat p.length)
    let t2 := bump len t1
    -- the payload
    let n := min (len - t2) p.length
    let d3 := copyAt d2 t2 p
    let t3 := t2 + n
    if t3 ≥ len then
      let rest := p.drop n
      { data := copyAt d3 0 rest, head, tail := rest.length, count := count + 1, limitCount, limitSize, closed, hard }
    else
      { data := d3, head, tail := t3, count := count + 1, limitCount, limitSize, closed, hard }

/-- the limit test of `Write` -/
def Ring.overLimit (r : Ring) (n : Nat) : Bool :=
  (r.limitCount > 0 && decide ((r.count : Int) ≥ r.limitCount)) ||
  (r.limitSize > 0 && decide (((r.size + 2 + n : Nat) : Int) > r.limitSize)) ||
  ((r.limitSize ≤ 0 || r.hard) && decide (r.size + 2 + n ≥ maxSize))

/-- `Write` -/
def Ring.write (r : Ring) (p : List UInt8) : Ring × WriteRes :=
  if p.length ≥ maxPacket then (r, .tooBig)
  else if r.closed then (r, .closedPipe)
  else if r.overLimit p.length then (r, .full)
  else
    match r.growUntil p.length with
    | (g, false) => (g, .full)
    | (g, true) => (g.store p, .ok p.length)

inductive ReadRes
  | ok (bytes : List UInt8)
  | short (bytes : List UInt8)
  | eof
  | wouldBlock
deriving Repr, DecidableEq

/-- `Read` into a slice of length `dstLen` (what lands in the slice is returned) -/
def Ring.read (r : Ring) (dstLen : Nat) : Ring × ReadRes :=
  if r.head ≠ r.tail then
    let len := r.data.size
    let n1 := r.data.getD r.head 0
    let h1 := bump len r.head
    let n2 := r.data.getD h1 0
    let h2 := bump len h1
    let count := n1.toNat * 256 + n2.toNat
    let copied := min count dstLen
    let bytes :=
      if h2 + copied < len then slice r.data h2 (h2 + copied)
      else
        let k := min copied (len - h2)
        slice r.data h2 len ++ slice r.data 0 (copied - k)
    let h3 := h2 + count
    let h4 := if h3 ≥ len then h3 - len else h3
    let (h5, t5) := if h4 = r.tail then (0, 0) else (h4, r.tail)
    let r' := { r with head := h5, tail := t5, count := r.count - 1 }
    (r', if copied < count then .short bytes else .ok bytes)
  else if r.closed then (r, .eof)
  else (r, .wouldBlock)

def Ring.close (r : Ring) : Ring := { r with closed := true }
def Ring.setLimitCount (r : Ring) (l : Int) : Ring := { r with limitCount := l }
def Ring.setLimitSize (r : Ring) (l : Int) : Ring := { r with limitSize := l }

inductive Op
  | write (p : List UInt8)
  | read (dstLen : Nat)
  | close
  | limitCount (l : Int)
  | limitSize (l : Int)
deriving Repr, DecidableEq

inductive Out
  | w (res : WriteRes)
  | r (res : ReadRes)
  | unit
deriving Repr, DecidableEq

def step (s : Ring) : Op → Ring × Out
  | .write p => let x := s.write p; (x.1, .w x.2)
  | .read n => let x := s.read n; (x.1, .r x.2)
  | .close => (s.close, .unit)
  | .limitCount l => (s.setLimitCount l, .unit)
  | .limitSize l => (s.setLimitSize l, .unit)

end TV.Ring
