/-
Model of one context-aware operation of netctx / connctx (C17): `ReadContext` (and, with "bytes
the wrapped connection takes" instead of "bytes it has", `WriteContext`; the packet flavour and
connctx have the same structure).  Two goroutines — the caller and the watcher it spawns — at the
granularity of the yield points vrewrite inserts (the watcher's `select` and `<-done`, the
caller's `wg.Wait()`), plus the point where the caller sits inside the wrapped connection's
blocking call.  The wrapped connection is abstract: it has a deadline (zero or "very old") and a
number of bytes it can transfer; its blocking call returns when it can transfer something (a stream write: when
everything is written) or when its deadline is in the past (then the bytes transferred so far and a timeout error).
-/
namespace TV.Ctx

inductive MPc
  | start               -- before the call
  | inCall              -- inside nextConn.Read / Write (blocked or about to look again)
  | atWait              -- after close(done), at the yield before wg.Wait()
  | parkedWait          -- blocked in wg.Wait()
  | finished
deriving Repr, DecidableEq

inductive WPc
  | none                -- not spawned yet
  | start
  | atSelect
  | parkedSelect
  | atRecv              -- context fired: deadline forced into the past; before `<-done`
  | parkedRecv
  | exited
deriving Repr, DecidableEq

inductive Err | nil | timeout | ctx
deriving Repr, DecidableEq

structure Op where
  main : MPc
  watcher : WPc
  cancelled : Bool        -- ctx.Done() is closed
  doneClosed : Bool       -- the operation's `done` channel
  deadlineOld : Bool      -- wrapped connection's deadline is `veryOld`
  avail : Nat             -- bytes the wrapped connection can transfer right now
  want : Nat              -- length of the caller's slice
  n : Nat                 -- bytes the wrapped call reported
  callErr : Err           -- error of the wrapped call
  result : Option (Nat × Err)
  transferred : Nat       -- bytes that actually left the wrapped connection during this operation
  stream : Bool := false  -- a stream write: the wrapped call returns only when all `want` bytes are written (or on its deadline)
deriving Repr, DecidableEq

def Op.new (want avail : Nat) (cancelled : Bool) (stream : Bool := false) : Op :=
  { main := .start, watcher := .none, cancelled, doneClosed := false, deadlineOld := false, avail, want,
    n := 0, callErr := .nil, result := none, transferred := 0, stream }

/-- the watcher's ctx branch: `SetDeadline(veryOld)`, then it stops before `<-done` -/
def Op.ctxBranch (o : Op) : Op := { o with deadlineOld := true, watcher := .atRecv }

/-- the caller's epilogue after `wg.Wait()` returned: the context's error wins only when nothing was transferred -/
def Op.finish (o : Op) : Op :=
  let err := if o.cancelled ∧ o.n = 0 then Err.ctx else o.callErr
  { o with main := .finished, result := some (o.n, err) }

/-- the watcher exits (either branch); a caller blocked in `wg.Wait()` continues to the end -/
def Op.watcherExit (o : Op) (clearDeadline : Bool) : Op :=
  let o1 := { o with watcher := .exited, deadlineOld := if clearDeadline then false else o.deadlineOld }
  if o1.main = .parkedWait then o1.finish else o1

/-- `close(done)`: wakes a watcher blocked in its select (it takes the `done` branch and exits) or
    blocked in `<-done` (it restores the deadline and exits) -/
def Op.closeDone (o : Op) : Op :=
  let o1 := { o with doneClosed := true }
  match o1.watcher with
  | .parkedSelect => o1.watcherExit false
  | .parkedRecv => o1.watcherExit true
  | _ => o1

inductive Step
  | main                  -- grant the caller
  | watcher               -- grant the watcher
  | watcherCtx            -- grant the watcher at its select when both cases are ready and Go picked ctx.Done()
  | cancel                -- the context is cancelled / times out
  | data (k : Nat)        -- the wrapped connection becomes able to transfer k more bytes
deriving Repr, DecidableEq

def Op.stepWatcher (o : Op) : Op :=
  match o.watcher with
  | .start => { o with watcher := .atSelect }
  | .atSelect =>
    if o.doneClosed then o.watcherExit false                       -- (if ctx is ready too, Go may pick either: see watcherCtx)
    else if o.cancelled then o.ctxBranch
    else { o with watcher := .parkedSelect }
  | .atRecv => if o.doneClosed then o.watcherExit true else { o with watcher := .parkedRecv }
  | _ => o

def step (o : Op) : Step → Op
  | .main =>
    match o.main with
    | .start => { o with main := .inCall, watcher := .start }      -- spawn the watcher, enter the wrapped call
    | .inCall =>
      -- the wrapped call looks at its state: a past deadline fails it (reporting what it has transferred so
      -- far), else it transfers what it can; a read or a packet write then returns, a stream write only
      -- once everything is written
      if o.deadlineOld then ({ o with callErr := .timeout, main := .atWait }).closeDone
      else if o.avail > 0 then
        let k := min o.avail (o.want - o.n)
        let o1 := { o with n := o.n + k, avail := o.avail - k, transferred := o.transferred + k }
        if o.stream ∧ o1.n < o.want then o1
        else ({ o1 with callErr := .nil, main := .atWait }).closeDone
      else o                                                         -- still blocked
    | .atWait => if o.watcher = .exited then o.finish else { o with main := .parkedWait }
    | _ => o
  | .watcher => o.stepWatcher
  | .watcherCtx => if o.watcher = .atSelect ∧ o.cancelled then o.ctxBranch else o.stepWatcher
  | .cancel =>
    let o1 := { o with cancelled := true }
    if o1.watcher = .parkedSelect then o1.ctxBranch else o1
  | .data k => { o with avail := o.avail + k }

def run (o : Op) : List Step → Op
  | [] => o
  | s :: ss => run (step o s) ss

/-- nothing can move without a further external event (data or cancellation) -/
def Op.quiescent (o : Op) : Bool :=
  (o.main == .finished || o.main == .parkedWait || (o.main == .inCall && !o.deadlineOld && o.avail == 0)) &&
  (o.watcher == .exited || o.watcher == .none || o.watcher == .parkedSelect || o.watcher == .parkedRecv)

end TV.Ctx
