/-
Model of utils/xor.  Two implementations are compiled from this repository on amd64:
* xor_generic.go (default build): delegates to `crypto/subtle.XORBytes`, whose documented contract
  is `contract` below — that routine is standard-library assembly and is trusted, not modelled;
* xor_old.go (build tag gccgo, or Go < 1.20): `fastXORBytes` — a word loop over 8-byte words
  followed by a byte loop for the tail — modelled here over three byte lists with an aliasing
  mode, so that `dst` being exactly `a` or exactly `b` is expressible: a store to `dst` is then
  visible through the aliased slice.
-/
namespace TV.Xor

inductive Alias | none | dstA | dstB
deriving Repr, DecidableEq

structure Mem where
  dst : List UInt8
  a : List UInt8
  b : List UInt8
  alias : Alias
deriving Repr, DecidableEq

/-- the aliasing mode is honest: the aliased slices hold the same bytes -/
def Mem.Wf (m : Mem) : Prop :=
  (m.alias = .dstA → m.dst = m.a) ∧ (m.alias = .dstB → m.dst = m.b)

/-- `dst[i] = v` -/
def Mem.store (m : Mem) (i : Nat) (v : UInt8) : Mem :=
  let d := m.dst.set i v
  { m with dst := d, a := if m.alias = .dstA then d else m.a, b := if m.alias = .dstB then d else m.b }

/-- the contract of XorBytes: `n = min (len a) (len b)`; `dst[i] = a[i] ^ b[i]` for `i < n`;
    everything else unchanged; `none` = the call panics because `dst` is shorter than `n` -/
def contract (m : Mem) : Option (Mem × Nat) :=
  let n := min m.a.length m.b.length
  if m.dst.length < n then none
  else
    let d := List.zipWith (· ^^^ ·) (m.a.take n) (m.b.take n) ++ m.dst.drop n
    some ({ m with dst := d, a := if m.alias = .dstA then d else m.a, b := if m.alias = .dstB then d else m.b }, n)

/-- `for i := lo; i < lo+k; i++ { dst[i] = a[i] ^ b[i] }` (safeXORBytes and the tail loop) -/
def byteLoop (m : Mem) (lo : Nat) : Nat → Mem
  | 0 => m
  | k + 1 => byteLoop (m.store lo (m.a.getD lo 0 ^^^ m.b.getD lo 0)) (lo + 1) k

/-- `dw[i] = aw[i] ^ bw[i]` on 8-byte words: both words are loaded, then the result is stored.
    (The XOR of two machine words is the bytewise XOR of their memory images, whatever the byte
    order.) -/
def wordStep (m : Mem) (i : Nat) : Mem :=
  let wa := (List.range 8).map (fun j => m.a.getD (8 * i + j) 0)
  let wb := (List.range 8).map (fun j => m.b.getD (8 * i + j) 0)
  (List.range 8).foldl (fun m j => m.store (8 * i + j) (wa.getD j 0 ^^^ wb.getD j 0)) m

/-- `for i := i0; i < i0+k; i++ { dw[i] = aw[i] ^ bw[i] }` -/
def wordLoop (m : Mem) (i : Nat) : Nat → Mem
  | 0 => m
  | k + 1 => wordLoop (wordStep m i) (i + 1) k

/-- `fastXORBytes(dst, a, b, n)` with `wordSize = 8` -/
def fastXOR (m : Mem) (n : Nat) : Mem :=
  let w := n / 8
  let m1 := if w > 0 then wordLoop m 0 w else m
  byteLoop m1 (n - n % 8) (n % 8)

/-- `XorBytes` of xor_old.go on an architecture with unaligned access (amd64) -/
def xorBytesOld (m : Mem) : Option (Mem × Nat) :=
  let n := min m.a.length m.b.length
  if n = 0 then some (m, 0)
  else if m.dst.length < n then none     -- `_ = dst[n-1]` panics
  else some (fastXOR m n, n)

end TV.Xor
