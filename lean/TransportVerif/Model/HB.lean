/-
Executions and happens-before, for C19 (data-race freedom by lock discipline).

An execution is a list of events in the order a sequentially consistent interleaving performed
them.  Threads, locks and memory locations are numbers (a location stands for one field of one
object, a lock for one mutex of one object).  Happens-before is the Go memory model's relation
restricted to the synchronisation the code base uses for its shared fields: program order, an
unlock before the next lock of the same mutex, and `go` statements before the started goroutine.
-/
namespace TV.HB

abbrev Tid := Nat
abbrev Lock := Nat
abbrev Loc := Nat

inductive Ev
  | acq (t : Tid) (m : Lock)
  | rel (t : Tid) (m : Lock)
  | rd (t : Tid) (x : Loc)
  | wr (t : Tid) (x : Loc)
  | fork (t child : Tid)
deriving Repr, DecidableEq

def Ev.tid : Ev → Tid
  | .acq t _ | .rel t _ | .rd t _ | .wr t _ | .fork t _ => t

/-- the effect of one event on who holds lock `m` (mutexes are not re-entrant) -/
def holdStep (m : Lock) (h : Option Tid) : Ev → Option Tid
  | .acq t m' => if m' = m then some t else h
  | .rel _ m' => if m' = m then none else h
  | _ => h

/-- who holds lock `m` after the events of `tr` (oldest first) -/
def holder (m : Lock) (tr : List Ev) : Option Tid := tr.foldl (holdStep m) none

/-- the execution respects mutual exclusion: a lock is acquired only when free and released only by its holder -/
def WfLocks : List Ev → List Ev → Prop
  | _, [] => True
  | pre, .acq t m :: rest => holder m pre = none ∧ WfLocks (pre ++ [.acq t m]) rest
  | pre, .rel t m :: rest => holder m pre = some t ∧ WfLocks (pre ++ [.rel t m]) rest
  | pre, e :: rest => WfLocks (pre ++ [e]) rest

def Wf (tr : List Ev) : Prop := WfLocks [] tr

/-- direct happens-before edges between positions `i < j` of the execution -/
def Edge (tr : List Ev) (i j : Nat) : Prop :=
  i < j ∧ ∃ ei ej, tr[i]? = some ei ∧ tr[j]? = some ej ∧
    (ei.tid = ej.tid ∨
     (∃ t t' m, ei = .rel t m ∧ ej = .acq t' m) ∨
     (∃ t c, ei = .fork t c ∧ ej.tid = c))

/-- happens-before: the transitive closure -/
inductive HB (tr : List Ev) : Nat → Nat → Prop
  | edge {i j} : Edge tr i j → HB tr i j
  | trans {i j k} : HB tr i j → HB tr j k → HB tr i k

/-- the event at position `i` accesses location `x`; `w` says whether it writes -/
def accessAt (tr : List Ev) (i : Nat) (t : Tid) (x : Loc) (w : Bool) : Prop :=
  tr[i]? = some (if w then .wr t x else .rd t x)

/-- lock discipline for the guarded locations: every access to a location `x` with a guard is made
    by a thread that holds `guard x` at that moment -/
def Disciplined (guard : Loc → Option Lock) (tr : List Ev) : Prop :=
  ∀ i t x w m, accessAt tr i t x w → guard x = some m → holder m (tr.take i) = some t

/-- a data race: two accesses to the same location by different threads, at least one a write,
    not ordered by happens-before (in either direction; positions are ordered, so only i → j can hold) -/
def Race (tr : List Ev) (x : Loc) : Prop :=
  ∃ i j t t' w w', i < j ∧ accessAt tr i t x w ∧ accessAt tr j t' x w' ∧ t ≠ t' ∧ (w = true ∨ w' = true) ∧ ¬ HB tr i j

end TV.HB
