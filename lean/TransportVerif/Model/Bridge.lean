import TransportVerif.Spec.Pipe
/-
Model of test/bridge.go (`Bridge`): the code keeps two hand-written copies of every per-direction
field and of the Push logic; the model does the same (fields `…0`/`…1`, two branches), so that a
divergence between the copies shows up as a difference from the symmetric spec.
Not modelled: Close of an endpoint, SetLossChance (random), deadlines (C10).
-/
namespace TV.Bridge
open TV.PipeSpec

structure Bridge where
  queue0to1 : List Msg
  queue1to0 : List Msg
  dropNWrites0 : Int
  dropNWrites1 : Int
  reorderNWrites0 : Int
  reorderNWrites1 : Int
  stack0 : List Msg
  stack1 : List Msg
  filter0 : Option Filter
  filter1 : Option Filter
deriving Repr, DecidableEq

def Bridge.new : Bridge :=
  { queue0to1 := [], queue1to0 := [], dropNWrites0 := 0, dropNWrites1 := 0, reorderNWrites0 := 0,
    reorderNWrites1 := 0, stack0 := [], stack1 := [], filter0 := none, filter1 := none }

/-- `inverse`: `none` = errInverseArrayWithOne -/
def inverse (s : List Msg) : Option (List Msg) :=
  if s.length < 2 then none else some s.reverse

/-- `drop(s, offset, n)` -/
def dropSlice (s : List Msg) (offset n : Int) : List Msg :=
  if offset < 0 ∨ n ≤ 0 ∨ offset ≥ s.length then s
  else
    let n' : Int := if offset + n > s.length then s.length - offset else n
    s.take offset.toNat ++ s.drop (offset.toNat + n'.toNat)

/-- `Push(data, fromID)` with no endpoint closing -/
def Bridge.push (b : Bridge) (fromID : Nat) (data : Msg) : Bridge :=
  if fromID = 0 then
    if b.dropNWrites0 > 0 then { b with dropNWrites0 := b.dropNWrites0 - 1 }
    else if b.reorderNWrites0 > 0 then
      let b1 := { b with reorderNWrites0 := b.reorderNWrites0 - 1, stack0 := b.stack0 ++ [data] }
      if b1.reorderNWrites0 = 0 then
        let st := match inverse b1.stack0 with | some r => r | none => b1.stack0
        { b1 with queue0to1 := b1.queue0to1 ++ st, stack0 := [] }
      else b1
    else if !Filter.accepts b.filter0 data then b
    else { b with queue0to1 := b.queue0to1 ++ [data] }
  else
    if b.dropNWrites1 > 0 then { b with dropNWrites1 := b.dropNWrites1 - 1 }
    else if b.reorderNWrites1 > 0 then
      let b1 := { b with reorderNWrites1 := b.reorderNWrites1 - 1, stack1 := b.stack1 ++ [data] }
      if b1.reorderNWrites1 = 0 then
        let st := match inverse b1.stack1 with | some r => r | none => b1.stack1
        { b1 with queue1to0 := b1.queue1to0 ++ st, stack1 := [] }
      else b1
    else if !Filter.accepts b.filter1 data then b
    else { b with queue1to0 := b.queue1to0 ++ [data] }

/-- one `Tick` with a reader waiting on the receiving endpoint of direction `fromID`, reading into
    `n` bytes: the head of that queue is handed over -/
def Bridge.deliver (b : Bridge) (fromID : Nat) (n : Nat) : Bridge × Option Msg :=
  if fromID = 0 then
    match b.queue0to1 with
    | [] => (b, none)
    | x :: rest => ({ b with queue0to1 := rest }, some (x.take n))
  else
    match b.queue1to0 with
    | [] => (b, none)
    | x :: rest => ({ b with queue1to0 := rest }, some (x.take n))

def Bridge.reorder (b : Bridge) (fromID : Nat) : Bridge × Bool :=
  if fromID = 0 then
    match inverse b.queue0to1 with | some r => ({ b with queue0to1 := r }, true) | none => (b, false)
  else
    match inverse b.queue1to0 with | some r => ({ b with queue1to0 := r }, true) | none => (b, false)

def Bridge.drop (b : Bridge) (fromID : Nat) (offset n : Int) : Bridge :=
  if fromID = 0 then { b with queue0to1 := dropSlice b.queue0to1 offset n }
  else { b with queue1to0 := dropSlice b.queue1to0 offset n }

def Bridge.dropNext (b : Bridge) (fromID : Nat) (n : Int) : Bridge :=
  if fromID = 0 then { b with dropNWrites0 := n } else { b with dropNWrites1 := n }

def Bridge.reorderNext (b : Bridge) (fromID : Nat) (n : Int) : Bridge :=
  if fromID = 0 then { b with reorderNWrites0 := n } else { b with reorderNWrites1 := n }

def Bridge.setFilter (b : Bridge) (fromID : Nat) (f : Option Filter) : Bridge :=
  if fromID = 0 then { b with filter0 := f } else { b with filter1 := f }

def Bridge.len (b : Bridge) (fromID : Nat) : Nat :=
  if fromID = 0 then b.queue0to1.length else b.queue1to0.length

inductive Op
  | write (fromID : Nat) (x : Msg)
  | deliver (fromID : Nat) (n : Nat)
  | reorder (fromID : Nat)
  | drop (fromID : Nat) (offset n : Int)
  | dropNext (fromID : Nat) (n : Int)
  | reorderNext (fromID : Nat) (n : Int)
  | filter (fromID : Nat) (f : Option Filter)
deriving Repr, DecidableEq

inductive Out
  | unit
  | delivered (m : Option Msg)
  | reordered (ok : Bool)
deriving Repr, DecidableEq

def step (b : Bridge) : Op → Bridge × Out
  | .write d x => (b.push d x, .unit)
  | .deliver d n => let r := b.deliver d n; (r.1, .delivered r.2)
  | .reorder d => let r := b.reorder d; (r.1, .reordered r.2)
  | .drop d o n => (b.drop d o n, .unit)
  | .dropNext d n => (b.dropNext d n, .unit)
  | .reorderNext d n => (b.reorderNext d n, .unit)
  | .filter d f => (b.setFilter d f, .unit)

end TV.Bridge
