import TransportVerif.Model.FixedBig
/-
Model of replaydetector/replaydetector.go: the plain and the wrapping sliding-window detector.
Sequence numbers are `Nat` below 2^64; every place where the Go code can wrap (uint64 arithmetic,
int64 conversion/subtraction) is written with an explicit `u64`/`i64` reduction.
An operation is `check s` (the accept callback is not invoked) or `checkAccept s` (invoked iff ok).
-/
namespace TV.Replay

def two64 : Nat := 18446744073709551616
def u64 (x : Nat) : Nat := x % two64
/-- two's complement reduction of an integer to int64 -/
def i64 (x : Int) : Int :=
  let r := x % (two64 : Int)
  if r < 9223372036854775808 then r else r - two64
/-- reinterpretation of an int64 as uint64 -/
def toU64 (x : Int) : Nat := (x % (two64 : Int)).toNat

inductive Kind | plain | wrap
deriving Repr, DecidableEq

structure Det where
  kind : Kind
  latestSeq : Nat
  maxSeq : Nat
  windowSize : Nat
  mask : FixedBig
  init : Bool
deriving Repr, DecidableEq

def Det.new (kind : Kind) (window maxSeq : Nat) : Det :=
  { kind, latestSeq := 0, maxSeq, windowSize := window, mask := FixedBig.new window, init := false }

/-- result of `Check`: refused, or ok together with the effect of the accept callback
    (detector after the callback, the callback's return value).  `Check` itself never changes
    the detector. -/
inductive CheckRes
  | refused
  | ok (afterAccept : Det) (latest : Bool)

def plainCheck (d : Det) (seq : Nat) : CheckRes :=
  if d.maxSeq < seq then .refused
  else if seq ≤ d.latestSeq ∧ d.windowSize ≤ d.latestSeq - seq then .refused
  else if seq ≤ d.latestSeq ∧ d.mask.bit (d.latestSeq - seq) then .refused
  else
    -- the accept closure
    if d.latestSeq < seq then
      .ok { d with mask := (d.mask.lsh (seq - d.latestSeq)).setBit 0, latestSeq := seq } true
    else
      .ok { d with mask := d.mask.setBit (d.latestSeq - seq) } (seq == 0 && d.latestSeq == 0)

/-- the folded signed distance `diff` computed by the wrapping `Check` -/
def wrapDiff (latestSeq maxSeq seq : Nat) : Int :=
  let diff0 : Int := i64 (i64 latestSeq - i64 seq)
  let halfT : Int := Int.tdiv (i64 maxSeq) 2           -- Go: truncated division
  let negHalfT : Int := Int.tdiv (i64 (-(i64 maxSeq))) 2
  if diff0 > halfT then i64 (diff0 - i64 (u64 (maxSeq + 1)))
  else if diff0 < negHalfT then i64 (diff0 + i64 (u64 (maxSeq + 1)))
  else diff0

/-- where the window would be positioned by this number if nothing was accepted yet -/
def wrapLatest (d : Det) (seq : Nat) : Nat :=
  if !d.init then (if seq ≠ 0 then seq - 1 else d.maxSeq) else d.latestSeq

/-- bit index computed by the accept closure of the wrapping detector (uint64 arithmetic) -/
def wrapPos (latestSeq maxSeq seq : Nat) : Nat :=
  let pos0 := u64 (latestSeq + two64 - seq)
  if latestSeq < seq then u64 (pos0 + u64 (maxSeq + 1)) else pos0

def wrapCheck (d : Det) (seq : Nat) : CheckRes :=
  if d.maxSeq < seq then .refused
  else
    let latestSeq := wrapLatest d seq
    let diff := wrapDiff latestSeq d.maxSeq seq
    if diff ≥ i64 d.windowSize then .refused
    else if diff ≥ 0 ∧ d.mask.bit diff.toNat then .refused
    else
      -- the accept closure (positions the window on first use)
      if diff < 0 then
        .ok { d with init := true, latestSeq := seq,
                     mask := (d.mask.lsh (toU64 (i64 (-diff)))).setBit (wrapPos seq d.maxSeq seq) } true
      else
        .ok { d with init := true, latestSeq := latestSeq,
                     mask := d.mask.setBit (wrapPos latestSeq d.maxSeq seq) } false

def check (d : Det) (seq : Nat) : CheckRes :=
  match d.kind with
  | .plain => plainCheck d seq
  | .wrap => wrapCheck d seq

inductive Op
  | check (s : Nat)
  | checkAccept (s : Nat)
deriving Repr, DecidableEq

inductive Out
  | refused
  | okNoAccept
  | accepted (latest : Bool)
  | panic
deriving Repr, DecidableEq

def step (d : Det) : Op → Det × Out
  | .check s => match check d s with
    | .refused => (d, .refused)
    | .ok _ _ => (d, .okNoAccept)
  | .checkAccept s => match check d s with
    | .refused => (d, .refused)
    | .ok d' l => (d', .accepted l)

end TV.Replay
