import TransportVerif.Model.TBF
/- Glue for C15: runs of the exact (Rat) instance of the token-bucket model. -/
namespace TV.TBFLink
open TV.TBF

abbrev R := Run Rat

/-- everything handed downstream while running `ops`, in order -/
def forwards (r : R) : List Op → List Pkt
  | [] => []
  | op :: ops => (r.step op).2 ++ forwards (r.step op).1 ops

def finalState (r : R) : List Op → R
  | [] => r
  | op :: ops => finalState (r.step op).1 ops

def bytes (l : List Pkt) : Nat := (l.map (·.size)).sum

/-- time spent by `ops` (nanoseconds) -/
def elapsed : List Op → Nat
  | [] => 0
  | .arrive dt _ :: ops => dt + elapsed ops
  | _ :: ops => elapsed ops

/-- the arrivals of `ops`, in order -/
def arrivals : List Op → List Pkt
  | [] => []
  | .arrive _ p :: ops => p :: arrivals ops
  | _ :: ops => arrivals ops

/-- every rate set by `ops` lies in [0, Rmax] and every burst in [0, Bmax] -/
def Bounded (Rmax Bmax : Int) : List Op → Prop
  | [] => True
  | .setRate v :: ops => 0 ≤ v ∧ v ≤ Rmax ∧ Bounded Rmax Bmax ops
  | .setBurst v :: ops => 0 ≤ v ∧ v ≤ Bmax ∧ Bounded Rmax Bmax ops
  | _ :: ops => Bounded Rmax Bmax ops

/-- a freshly constructed filter at time 0 -/
def fresh (rate burst queueMax : Int) : R := { t := TBF.new rate burst queueMax 0, now := 0 }

end TV.TBFLink
