import TransportVerif.Model.Listener
import TransportVerif.Spec.Listener
/- Glue for C11: the listener model and the per-remote spec run over the same history. -/
namespace TV.ListenerLink
open TV

def convA : ListenerSpec.AcceptRes → Listener.AcceptRes
  | .conn i => .conn i | .closedListener => .closedListener | .wouldBlock => .wouldBlock
def convR : ListenerSpec.ReadRes → Listener.ReadRes
  | .data p => .data p | .eof => .eof | .wouldBlock => .wouldBlock | .noSuchConn => .noSuchConn

def specStep (s : ListenerSpec.S) : Listener.Op → ListenerSpec.S × Listener.Out
  | .arrive rm p => (s.arrive rm p, .unit)
  | .accept => let x := s.accept; (x.1, .a (convA x.2))
  | .read id n => let x := s.read id n; (x.1, .r (convR x.2))
  | .connClose id => (s.connClose id, .unit)
  | .close => (s.close, .unit)

def outsModel (l : Listener.L) : List Listener.Op → List Listener.Out
  | [] => []
  | op :: ops => (Listener.step l op).2 :: outsModel (Listener.step l op).1 ops

def outsSpec (s : ListenerSpec.S) : List Listener.Op → List Listener.Out
  | [] => []
  | op :: ops => (specStep s op).2 :: outsSpec (specStep s op).1 ops

def runModel (l : Listener.L) : List Listener.Op → Listener.L
  | [] => l
  | op :: ops => runModel (Listener.step l op).1 ops

def runSpec (s : ListenerSpec.S) : List Listener.Op → ListenerSpec.S
  | [] => s
  | op :: ops => runSpec (specStep s op).1 ops

end TV.ListenerLink
