import TransportVerif.Model.Deadline
import TransportVerif.Spec.Deadline
/- Glue for C09: the run of the Deadline model with the spec's environment recorder. -/
namespace TV.DeadlineLink
open TV.Deadline

def ev : Op → DeadlineSpec.Ev
  | .set t => .set t
  | .fire => .fire
  | .callback => .callback
  | .advance dt => .advance dt

def specObs (o : Obs) : DeadlineSpec.Obs :=
  { closed := o.closed, gen := o.gen, errExceeded := o.errExceeded, deadline := o.deadline }

/-- one observed step: the operation, what the client saw before and after it, the environment after it -/
structure Step where
  op : Op
  before : Obs
  after : Obs
  hist : DeadlineSpec.Hist
  panicked : Bool
  outstanding : Nat

def trace (d : D) (h : DeadlineSpec.Hist) : List Op → List Step
  | [] => []
  | op :: ops =>
    let d' := step d op
    let h' := h.step (ev op)
    { op := op, before := d.obs, after := d'.obs, hist := h', panicked := d'.panicked, outstanding := d'.outstanding } ::
      trace d' h' ops

def Step.isSet (s : Step) : Bool := match s.op with | .set _ => true | _ => false

/-- C09's judgement of one step -/
def Step.ok (s : Step) : Bool :=
  !s.panicked && DeadlineSpec.allowed s.hist (specObs s.after) &&
  (!s.isSet || DeadlineSpec.freshAfterSet (specObs s.before) (specObs s.after))

end TV.DeadlineLink
