import TransportVerif.Model.Delay
/- Glue for C14: ghost bookkeeping over runs of the DelayFilter transition system. -/
namespace TV.DelayLink
open TV.Delay

/-- (chunk id, time it entered the filter) for every effective `send`, in order -/
def arrivals (s : Sys) : List Op → List (Nat × Int)
  | [] => []
  | .send k :: ops =>
    (if s.senders[k]? = some .start then [(k, s.now)] else []) ++ arrivals (step s (.send k)) ops
  | op :: ops => arrivals (step s op) ops

def Reach (s : Sys) : Prop := ∃ delay n ops, 0 ≤ delay ∧ s = run (Sys.init delay n) ops

end TV.DelayLink
