import TransportVerif.Model.Ctx
/- Definitions shared by the C17 theorems and nothing else: bytes offered during a schedule, and a
   session of consecutive operations on one wrapped connection. -/
namespace TV.CtxLink
open TV.Ctx

/-- bytes the wrapped connection became able to transfer during a schedule -/
def dataSum : List Step → Nat
  | [] => 0
  | .data k :: ss => k + dataSum ss
  | _ :: ss => dataSum ss

/-- the next operation on the same wrapped connection: it inherits the bytes still available and
    whatever deadline the previous operation left behind -/
def Op.next (prev : Op) (want : Nat) (cancelled : Bool) (stream : Bool := false) : Op :=
  { Op.new want prev.avail cancelled stream with deadlineOld := prev.deadlineOld }

/-- one operation of a session: slice length, whether its context is already cancelled, its schedule -/
structure Call where
  want : Nat
  cancelled : Bool
  sched : List Step
  stream : Bool := false

/-- run consecutive operations; each starts when the previous one has returned (operations of one
    direction are serialised by the wrapper's mutex).  Returns the final state of every operation. -/
def session (first : Op) : List Call → List Op
  | [] => []
  | c :: cs =>
    let o := run first c.sched
    o :: (match cs with
          | [] => []
          | c' :: _ => session (Op.next o c'.want c'.cancelled c'.stream) cs)

/-- the first operation of a session on a connection holding `avail` bytes and no deadline -/
def start (avail : Nat) : List Call → Op
  | [] => Op.new 0 avail false
  | c :: _ => Op.new c.want avail c.cancelled c.stream

def reported (os : List Op) : Nat := (os.map (fun o => match o.result with | some (n, _) => n | none => 0)).sum
def offered (cs : List Call) : Nat := (cs.map (fun c => dataSum c.sched)).sum

end TV.CtxLink
