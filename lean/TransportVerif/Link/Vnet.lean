import TransportVerif.Model.Vnet
/- Definitions used by the C01 theorems: where chunks are, and "before" in a list. -/
namespace TV.VnetLink
open TV.Nat TV.Vnet

/-- every chunk sitting in a router queue -/
def queued (n : Net) : List Chunk := n.routers.flatMap (·.queue)
/-- every chunk ever handed to a socket (read or not) -/
def deliveredAll (n : Net) : List Chunk := n.hosts.flatMap (fun h => h.socks.flatMap (·.delivered))
/-- every chunk discarded, with a recorded reason -/
def dropped (n : Net) : List Chunk := n.drops.map (·.1)
/-- everything that was ever written is in exactly one of these three places (theorem `accounting`) -/
def allChunks (n : Net) : List Chunk := queued n ++ deliveredAll n ++ dropped n

/-- the socket `s` of host `h` -/
def sockAt (n : Net) (h s : Nat) : Option SockM := (n.hosts[h]?).bind (fun hm => hm.socks[s]?)

/-- `a` occurs before `b` in `l` -/
def Before (l : List Chunk) (a b : Chunk) : Prop := ∃ l1 l2 l3, l = l1 ++ a :: l2 ++ b :: l3

/-- a network reachable from a fresh one (any topology, any NAT configuration) by any operations -/
def Reach (n : Net) : Prop := ∃ n0 ops, n0.Fresh ∧ n = run n0 ops

/-- a fresh network whose clock stands at 0 and whose NATs are freshly constructed (any configuration) -/
def Fresh2 (n : Net) : Prop :=
  n.Fresh ∧ n.now = 0 ∧
  ∀ r ∈ n.routers, ∀ nat, r.nat = some nat → ∃ o mb fb lt mapped loc, NAT.new o mb fb lt mapped loc = some nat

def Reach2 (n : Net) : Prop := ∃ n0 ops, Fresh2 n0 ∧ n = run n0 ops

end TV.VnetLink
