import TransportVerif.Model.Nat
import TransportVerif.Spec.Nat
/- Glue between the NAT model and its spec: the run of the model over a call history with the
   spec's recorder advanced by the observed outcomes. -/
namespace TV.NatLink
open TV.Nat

/-- the spec configuration of a constructed NAT -/
def cfgOf (n : NAT) : NatSpec.Cfg :=
  { one2one := n.one2one, mapBeh := n.mapBeh, filtBeh := n.filtBeh, lifetime := n.lifetime,
    mappedIPs := n.mappedIPs, localIPs := n.localIPs }

structure Obs where
  before : NatSpec.Hist
  op : Op
  out : Out

def histStep (c : NatSpec.Cfg) (h : NatSpec.Hist) : Op → Out → NatSpec.Hist
  | .out a b, .o r => h.recordOut c a b r
  | .adv dt, _ => h.advance dt
  | _, _ => h

def run (c : NatSpec.Cfg) : (NAT × Int) → NatSpec.Hist → List Op → List Obs
  | _, _, [] => []
  | s, h, op :: ops =>
    let r := step s op
    { before := h, op := op, out := r.2 } :: run c r.1 (histStep c h op r.2) ops

/-- the run of a freshly constructed NAT, clock at 0 -/
def runNew (n : NAT) (ops : List Op) : List Obs := run (cfgOf n) (n, 0) .empty ops

def outs (s : NAT × Int) : List Op → List Out
  | [] => []
  | op :: ops => (step s op).2 :: outs (step s op).1 ops

def runState (s : NAT × Int) : List Op → NAT × Int
  | [] => s
  | op :: ops => runState (step s op).1 ops

/-- the judgement of one observation (C02 for outbound, C03 for inbound calls) -/
def Obs.ok (c : NatSpec.Cfg) (o : Obs) : Bool :=
  match o.op, o.out with
  | .out a b, .o r => NatSpec.allowedOut c o.before a b r
  | .inb a b, .i r => NatSpec.allowedIn c o.before a b r
  | .adv _, .unit => true
  | _, _ => false

end TV.NatLink
