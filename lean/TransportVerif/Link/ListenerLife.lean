import TransportVerif.Model.ListenerLife
/- Glue for C12: what the property talks about, read off a state of the transition system. -/
namespace TV.LifeLink
open TV.ListenerLife

/-- well-formed scenario: every connection closer targets one of the `accepted` connections or the
    connection an acceptor thread of the scenario will return, at most one closer per connection, at
    most one listener closer -/
def WfRoles (accepted : Nat) (roles : List Role) : Prop :=
  (∀ c, Role.ccloser c ∈ roles → c < accepted) ∧
  (roles.filter (· = .lcloser)).length ≤ 1 ∧
  (∀ c, (roles.filter (· = .ccloser c)).length ≤ 1) ∧
  (∀ a, Role.acloser a ∈ roles → roles[a]? = some .acceptor) ∧
  ∀ a, (roles.filter (· = .acloser a)).length ≤ 1

def Reach (s : Sys) : Prop :=
  ∃ accepted queued backlog roles ops, WfRoles accepted roles ∧ s = run backlog (Sys.init accepted queued roles) ops

/-- the listener still holds its reference: its Close has not reached the point where it drops it -/
def listenerRef (s : Sys) : Nat :=
  if s.ths.any (fun th => th.role = .lcloser ∧ (th.pc = .atWait ∨ th.pc = .parkedWait ∨ th.pc = .done .ok)) then 0 else 1

/-- thread `th` has started to close connection `c` -/
def closes (s : Sys) (th : Th) (c : Nat) : Bool :=
  match th.role with
  | .ccloser c' => c' == c && th.pc != .start
  | .acloser a => th.pc != .start && s.accepted? a == some c
  | _ => false

/-- connections a client holds (accepted before the phase: ids below `accepted`; or returned by an
    Accept of the phase) whose Close has not started -/
def openHeld (accepted : Nat) (s : Sys) : Nat :=
  let held := List.range accepted ++ s.ths.filterMap (fun th => match th.pc with | .done (.conn c) => some c | _ => none)
  (held.filter (fun c => !(s.ths.any (fun th => closes s th c)))).length

def listenerClosed (s : Sys) : Bool := listenerRef s == 0

end TV.LifeLink
