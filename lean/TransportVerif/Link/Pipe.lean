import TransportVerif.Model.Bridge
import TransportVerif.Model.DPipe
/-
Glue for C18: the Bridge model against two `Lane`s, the dpipe model against `PipeSpec.DPipe`, and a
ghost-instrumented lane (what was written, delivered, discarded) for the conservation statements.
-/
namespace TV.PipeLink
open TV.PipeSpec

/-- abstraction of a Bridge state: each direction is a lane; the collecting stack holds the
    block oldest-first, the lane newest-first -/
def absLane0 (b : Bridge.Bridge) : Lane :=
  { inflight := b.queue0to1, pendingDrop := b.dropNWrites0, pendingReorder := b.reorderNWrites0,
    block := b.stack0.reverse, filter := b.filter0 }
def absLane1 (b : Bridge.Bridge) : Lane :=
  { inflight := b.queue1to0, pendingDrop := b.dropNWrites1, pendingReorder := b.reorderNWrites1,
    block := b.stack1.reverse, filter := b.filter1 }

/-- the script semantics of one Bridge operation on the pair of lanes -/
def specStep (l : Lane × Lane) : Bridge.Op → (Lane × Lane) × Bridge.Out
  | .write d x => (if d = 0 then (l.1.write x, l.2) else (l.1, l.2.write x), .unit)
  | .deliver d n =>
    if d = 0 then let r := l.1.deliver n; ((r.1, l.2), .delivered r.2)
    else let r := l.2.deliver n; ((l.1, r.1), .delivered r.2)
  | .reorder d =>
    if d = 0 then let r := l.1.reorder; ((r.1, l.2), .reordered r.2)
    else let r := l.2.reorder; ((l.1, r.1), .reordered r.2)
  | .drop d o n => (if d = 0 then (l.1.drop o n, l.2) else (l.1, l.2.drop o n), .unit)
  | .dropNext d n =>
    (if d = 0 then ({ l.1 with pendingDrop := n }, l.2) else (l.1, { l.2 with pendingDrop := n }), .unit)
  | .reorderNext d n =>
    (if d = 0 then ({ l.1 with pendingReorder := n }, l.2) else (l.1, { l.2 with pendingReorder := n }), .unit)
  | .filter d f =>
    (if d = 0 then ({ l.1 with filter := f }, l.2) else (l.1, { l.2 with filter := f }), .unit)

def outsModel (b : Bridge.Bridge) : List Bridge.Op → List Bridge.Out
  | [] => []
  | op :: ops => (Bridge.step b op).2 :: outsModel (Bridge.step b op).1 ops

def outsSpec (l : Lane × Lane) : List Bridge.Op → List Bridge.Out
  | [] => []
  | op :: ops => (specStep l op).2 :: outsSpec (specStep l op).1 ops

/-! ghost-instrumented lane -/

inductive LaneOp
  | write (x : Msg)
  | deliver (n : Nat)
  | drop (offset n : Int)
  | reorder
  | dropNext (n : Int)
  | reorderNext (n : Int)
  | filter (f : Option Filter)
deriving Repr, DecidableEq

/-- what happened so far: every message written, every message handed to a reader (in full, even
    if the reader's slice was shorter), every message discarded by count, filter or Drop -/
structure Ghost where
  written : List Msg
  delivered : List Msg
  discarded : List Msg
deriving Repr, DecidableEq

def Ghost.empty : Ghost := { written := [], delivered := [], discarded := [] }

def stepG (l : Lane) (g : Ghost) : LaneOp → Lane × Ghost
  | .write x =>
    let g1 := { g with written := g.written ++ [x] }
    let l' := l.write x
    -- discarded iff swallowed by the drop count or rejected by the filter
    if l.pendingDrop > 0 ∨ (¬ l.pendingReorder > 0 ∧ !Filter.accepts l.filter x) then
      (l', { g1 with discarded := g1.discarded ++ [x] })
    else (l', g1)
  | .deliver n =>
    match l.inflight with
    | [] => (l, g)
    | x :: _ => ((l.deliver n).1, { g with delivered := g.delivered ++ [x] })
  | .drop o n =>
    let l' := l.drop o n
    if o < 0 ∨ n ≤ 0 ∨ o ≥ l.inflight.length then (l', g)
    else (l', { g with discarded := g.discarded ++ (l.inflight.drop o.toNat).take n.toNat })
  | .reorder => ((l.reorder).1, g)
  | .dropNext n => ({ l with pendingDrop := n }, g)
  | .reorderNext n => ({ l with pendingReorder := n }, g)
  | .filter f => ({ l with filter := f }, g)

def runG (l : Lane) (g : Ghost) : List LaneOp → Lane × Ghost
  | [] => (l, g)
  | op :: ops => let r := stepG l g op; runG r.1 r.2 ops

/-- lane operations without any impairment -/
def LaneOp.plain : LaneOp → Bool
  | .write _ => true
  | .deliver _ => true
  | _ => false

/-! dpipe -/

def absPipe (p : DPipe.Pipe) : DPipe :=
  { q01 := p.ch1, q10 := p.ch0, closed0 := p.closed0, closed1 := p.closed1 }

def specStepD (s : DPipe) : DPipe.Op → DPipe × DPipe.Out
  | .write e x => let r := s.write e x; (r.1, .w r.2)
  | .read e n => let r := s.read e n; (r.1, .r r.2)
  | .close e => (s.close e, .unit)

def outsModelD (p : DPipe.Pipe) : List DPipe.Op → List DPipe.Out
  | [] => []
  | op :: ops => (DPipe.step p op).2 :: outsModelD (DPipe.step p op).1 ops

def outsSpecD (s : DPipe) : List DPipe.Op → List DPipe.Out
  | [] => []
  | op :: ops => (specStepD s op).2 :: outsSpecD (specStepD s op).1 ops

end TV.PipeLink
