import TransportVerif.Model.Ring
import TransportVerif.Spec.Ring
/-
Glue between the ring model and the FIFO spec: both are run over the same operation list and
observed the same way (result of the operation, then Count and Size), which is exactly what the
driver prints and what the harness records from the real Buffer.
-/
namespace TV.RingLink
open TV.Ring

def convW : RingSpec.WriteRes → Ring.WriteRes
  | .ok n => .ok n | .tooBig => .tooBig | .closedPipe => .closedPipe | .full => .full
def convR : RingSpec.ReadRes → Ring.ReadRes
  | .ok b => .ok b | .short b => .short b | .eof => .eof | .wouldBlock => .wouldBlock

/-- one step of the spec on a model operation -/
def specStep (hard : Bool) (f : RingSpec.Fifo) : Ring.Op → RingSpec.Fifo × Ring.Out
  | .write p => let x := f.write hard p; (x.1, .w (convW x.2))
  | .read n => let x := f.read n; (x.1, .r (convR x.2))
  | .close => ({ f with closed := true }, .unit)
  | .limitCount l => ({ f with limitCount := l }, .unit)
  | .limitSize l => ({ f with limitSize := l }, .unit)

/-- an observation: the operation's result, then `Count()` and `Size()` -/
structure Obs where
  out : Ring.Out
  count : Nat
  size : Nat
deriving Repr, DecidableEq

def obsModel (r : Ring.Ring) : List Ring.Op → List Obs
  | [] => []
  | op :: ops =>
    let x := Ring.step r op
    { out := x.2, count := x.1.count, size := x.1.size } :: obsModel x.1 ops

def obsSpec (hard : Bool) (f : RingSpec.Fifo) : List Ring.Op → List Obs
  | [] => []
  | op :: ops =>
    let x := specStep hard f op
    { out := x.2, count := x.1.count, size := x.1.size } :: obsSpec hard x.1 ops

/-- the state of the model after an operation list -/
def runModel (r : Ring.Ring) : List Ring.Op → Ring.Ring
  | [] => r
  | op :: ops => runModel (Ring.step r op).1 ops

/-- states reachable from a new buffer -/
def Reachable (r : Ring.Ring) : Prop := ∃ hard ops, r = runModel (Ring.new hard) ops

end TV.RingLink
