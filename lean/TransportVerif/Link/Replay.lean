import TransportVerif.Model.Replay
import TransportVerif.Spec.Replay
/-
Glue between the replay-detector model and its spec: the run of the model over an operation
list, with the spec's history recorder advanced by the observed outcomes.  Used by the theorems
(Props/C04, Props/C05) and by the driver, so both talk about the same run.
-/
namespace TV.ReplayLink
open TV.Replay

def specKind : Replay.Kind → ReplaySpec.Kind
  | .plain => .plain
  | .wrap => .wrap

def specOut : Replay.Out → ReplaySpec.Out
  | .refused => .refused
  | .okNoAccept => .okNoAccept
  | .accepted b => .accepted b
  | .panic => .panic

def cfgOf (kind : Replay.Kind) (window maxSeq : Nat) : ReplaySpec.Cfg :=
  { kind := specKind kind, window := window, max := maxSeq }

def Op.num : Replay.Op → Nat
  | .check s => s
  | .checkAccept s => s

def Op.acc : Replay.Op → Bool
  | .check _ => false
  | .checkAccept _ => true

/-- one observed step: the history before it, the operation, the model's outcome -/
structure Obs where
  before : ReplaySpec.Hist
  op : Replay.Op
  out : Replay.Out

/-- run the model from detector `d`, recording from history `h` -/
def run (c : ReplaySpec.Cfg) : Det → ReplaySpec.Hist → List Replay.Op → List Obs
  | _, _, [] => []
  | d, h, op :: ops =>
    let r := Replay.step d op
    { before := h, op := op, out := r.2 } ::
      run c r.1 (h.step c (Op.num op) (specOut r.2)) ops

/-- the run from a freshly constructed detector -/
def runNew (kind : Replay.Kind) (window maxSeq : Nat) (ops : List Replay.Op) : List Obs :=
  run (cfgOf kind window maxSeq) (Det.new kind window maxSeq) .empty ops

/-- the outcomes only -/
def outs (d : Det) : List Replay.Op → List Replay.Out
  | [] => []
  | op :: ops => (Replay.step d op).2 :: outs (Replay.step d op).1 ops

end TV.ReplayLink
