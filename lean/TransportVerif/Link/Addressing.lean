import TransportVerif.Model.Addressing
import TransportVerif.Spec.Addressing
/- Glue for C13: abstraction of the model states to the spec states, and histories. -/
namespace TV.AddressingLink
open TV.Addressing

def absRouter (r : Router) : AddressingSpec.RouterS := { netIP := r.netIP, maskBits := r.maskBits, taken := r.nics }

/-- a router history: each element is the static address list of the attached NIC ([] = automatic) -/
def runRouter (r : Router) : List (List Nat) → Router
  | [] => r
  | st :: rest => runRouter (r.addNIC st).1 rest

/-- all addresses handed to NICs along a history, in order -/
def assigned (r : Router) : List (List Nat) → List Nat
  | [] => []
  | st :: rest => (match (r.addNIC st).2 with | .ok ips => ips | _ => []) ++ assigned (r.addNIC st).1 rest

/-- the user never supplies an address that is already held, nor the same one twice in one NIC -/
def StaticsFresh (r : Router) : List (List Nat) → Prop
  | [] => True
  | st :: rest => st.Nodup ∧ (∀ ip ∈ st, ip ∉ r.nics) ∧ StaticsFresh (r.addNIC st).1 rest

/-- open sockets of a host -/
def openSocks (h : Host) : List Sock := h.portMap.flatMap (·.2)

def absHost (h : Host) : AddressingSpec.HostS :=
  { ips := h.ips, open_ := (openSocks h).map (fun s => { ip := s.ip, port := s.port }) }

def ReachHost (r : HostRun) : Prop := ∃ ips ops, r = ({ h := Host.new ips, created := [] } : HostRun).run ops

end TV.AddressingLink
