import TransportVerif.Link.Nat
import TransportVerif.Proofs.Nat
import TransportVerif.Proofs.NatStable
/-
C01, ingredient of per-flow ordering: a NAT never forwards two inbound datagrams addressed to the
same external address to two different internal addresses — however much time passes and whatever
else it translates in between.  (External ports are allocated from a counter that only grows, so an
external address, once it has belonged to a mapping, never belongs to another one.)
The statements below are FIXED; only the proofs may change.
-/
namespace TV.Props.C01NatStable
open TV TV.Nat TV.NatLink

/-- the answers of a NAT along a history, with the operation each one answers -/
def trace : NAT × Int → List Op → List (Op × Out)
  | _, [] => []
  | s, op :: ops => (op, (step s op).2) :: trace (step s op).1 ops

/-- NAPT mode: in any history from a freshly constructed NAT, two inbound datagrams to the same
    external address that are both forwarded are forwarded to the same internal address. -/
theorem inbound_key_stable (mb fb : Dep) (lt : Int) (mapped loc : List Nat) (n : NAT) (ops : List Op)
    (hn : NAT.new false mb fb lt mapped loc = some n)
    (r1 r2 ext l1 l2 : Addr)
    (h1 : (Op.inb r1 ext, Out.i (.ok l1)) ∈ trace (n, 0) ops)
    (h2 : (Op.inb r2 ext, Out.i (.ok l2)) ∈ trace (n, 0) ops) : l1 = l2 := by
  exact Proofs.NatStable.inbound_key_stable trace (fun _ => rfl) (fun _ _ _ => rfl)
    mb fb lt mapped loc n ops hn r1 r2 ext l1 l2 h1 h2

/-- … and it is the internal address whose outbound datagram was shown that external address: if an
    outbound datagram of `src` left showing `ext`, every inbound datagram to `ext` that is ever
    forwarded goes to `src`. -/
theorem inbound_goes_to_the_owner (mb fb : Dep) (lt : Int) (mapped loc : List Nat) (n : NAT) (ops : List Op)
    (hn : NAT.new false mb fb lt mapped loc = some n)
    (src dst r ext l : Addr)
    (h1 : (Op.out src dst, Out.o (.ok ext)) ∈ trace (n, 0) ops)
    (h2 : (Op.inb r ext, Out.i (.ok l)) ∈ trace (n, 0) ops) : l = src := by
  exact Proofs.NatStable.inbound_goes_to_the_owner trace (fun _ => rfl) (fun _ _ _ => rfl)
    mb fb lt mapped loc n ops hn src dst r ext l h1 h2

/-- 1:1 mode: the translation of an inbound destination is a function of the destination alone -/
theorem inbound_key_stable_one2one (n : NAT) (h : n.one2one = true) (now now' : Int) (r1 r2 ext : Addr) :
    (n.translateInbound now r1 ext).2 = (n.translateInbound now' r2 ext).2 ∧
    (n.translateInbound now r1 ext).1 = n := by
  exact Proofs.NatStable.inbound_key_stable_one2one n h now now' r1 r2 ext

end TV.Props.C01NatStable
