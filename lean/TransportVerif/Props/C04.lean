import TransportVerif.Link.Replay
import TransportVerif.Proofs.Replay
/-
C04 — a replay detector never accepts the same sequence number twice; nothing above the maximum
is accepted.  The statements below are FIXED; only the proofs may change.
-/
namespace TV.Props.C04
open TV TV.Replay TV.ReplayLink

/-- every sequence number of the history is a uint64 -/
def OpsU64 (ops : List Replay.Op) : Prop := ∀ op ∈ ops, Op.num op < two64

set_option linter.unusedVariables false in
/-- Main theorem (judgement form).  For both detectors, every window size and maximum (the
wrapping detector: maximum below 2^62), and every history of check / check+accept operations,
every outcome of the model is admitted by C04's judgement against the recorded history: a number
above the maximum, or one accepted before (wrapping: while the newest accepted number is less
than half the sequence space ahead of it), is refused. -/
theorem judged04 (kind : Replay.Kind) (w m : Nat) (ops : List Replay.Op)
    (hm : m < two64) (hw : w < 2 ^ 63) (hwrap : kind = .wrap → m < 2 ^ 62) (hops : OpsU64 ops) :
    ∀ o ∈ runNew kind w m ops,
      ReplaySpec.allowed04 (cfgOf kind w m) o.before (Op.num o.op) (specOut o.out) = true :=
  Proofs.Replay.run04 kind w m ops hw hwrap

set_option linter.unusedVariables false in
/-- Direct form for the plain detector: once `s` was accepted at position `i`, every later
operation on `s` is refused — no recorder involved. -/
theorem plain_never_twice (w m : Nat) (ops : List Replay.Op) (i j : Nat) (s : Nat) (b : Bool)
    (hm : m < two64) (hops : OpsU64 ops) (hij : i < j)
    (hi : ops[i]? = some (.checkAccept s))
    (hacc : (outs (Det.new .plain w m) ops)[i]? = some (.accepted b))
    (hj : (ops[j]?).map Op.num = some s) :
    (outs (Det.new .plain w m) ops)[j]? = some .refused :=
  Proofs.Replay.plain_never_twice_gen w m s b ops _ _ i j (Proofs.Replay.Rp_new w m) hij hi hacc hj

/-- No sequence number above the configured maximum is ever accepted (both detectors, any history,
no side condition at all). -/
theorem never_above_max (kind : Replay.Kind) (w m : Nat) (ops : List Replay.Op) (j : Nat) (op : Replay.Op)
    (hj : ops[j]? = some op) (habove : m < Op.num op) :
    (outs (Det.new kind w m) ops)[j]? = some .refused :=
  Proofs.Replay.outs_above_max m ops _ j op rfl hj habove

/-- The accept callback never panics in the model (no division, no out-of-range index). -/
theorem never_panics (d : Det) (op : Replay.Op) : (Replay.step d op).2 ≠ .panic :=
  Proofs.Replay.step_ne_panic d op

-- non-vacuity: a concrete history with a window whose top word is partially used (48 bits),
-- the replay of 100 after the window moved by 47 is refused (this is the pinned tree's 8-A)
example : outs (Det.new .plain 48 1000) [.checkAccept 100, .checkAccept 147, .checkAccept 100]
    = [.accepted true, .accepted true, .refused] := by decide
-- late number across the wrap, then replayed (8-B)
example : outs (Det.new .wrap 64 65535) [.checkAccept 65533, .checkAccept 2, .checkAccept 65534, .checkAccept 65534]
    = [.accepted true, .accepted true, .accepted false, .refused] := by decide

end TV.Props.C04
