import TransportVerif.Model.Replay
import TransportVerif.Spec.Replay
namespace TV.Props.C04
theorem placeholder : True := trivial
end TV.Props.C04
