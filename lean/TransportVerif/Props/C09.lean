import TransportVerif.Model.Deadline
import TransportVerif.Spec.Deadline
namespace TV.Props.C09
theorem placeholder : True := trivial
end TV.Props.C09
