import TransportVerif.Link.Deadline
import TransportVerif.Proofs.Deadline
/-
C09 — Deadline fires exactly when the latest set time passes, never from a stale timer.
The statements below are FIXED; only the proofs may change.
-/
namespace TV.Props.C09
open TV TV.Deadline TV.DeadlineLink

/-- Main theorem.  For EVERY history of Set(zero | past | future …), clock advances, timer expiries
    dispatched by the runtime and callbacks that run arbitrarily late (also after further Sets), as
    long as fewer than 255 callbacks are outstanding at any time (`pending` is a uint8), every step
    is admitted by C09's judgement: Done is never closed unless the most recent Set gave a
    non-zero time that has passed (hence never by the timer of a superseded Set), Err agrees with
    Done, Deadline reports the last Set, whenever nothing is in flight Done is closed exactly when
    that time has passed, a Set after expiry installs a different, unsignalled channel, and
    `close` is never applied to a closed channel. -/
theorem judged09 (ops : List Op)
    (hK : ∀ s ∈ trace D.new DeadlineSpec.Hist.empty ops, s.outstanding < 255) :
    ∀ s ∈ trace D.new DeadlineSpec.Hist.empty ops, s.ok = true :=
  Proofs.Deadline.trace_ok ops D.new DeadlineSpec.Hist.empty Proofs.Deadline.inv_new hK

/-- the excluded point is real: with 256 callbacks outstanding the uint8 wraps and a stale callback
    signals a deadline that has not passed (documented; shown on the model) -/
theorem pending_wrap_witness :
    ∃ ops : List Op, ∃ s ∈ trace D.new DeadlineSpec.Hist.empty ops, s.ok = false :=
  ⟨Proofs.Deadline.wrapOps, Proofs.Deadline.wrap_bad⟩

/-- `Deadline()` reports the most recently set time after any history -/
theorem deadline_reports_last_set (ops : List Op) (t : Option Int) :
    (run D.new (ops ++ [.set t])).obs.deadline = t := by
  rw [Proofs.Deadline.run_append]
  exact Proofs.Deadline.set_deadline _ t

-- non-vacuity: the stale-callback history (set 3, time passes, expiry dispatched, set 16, callback runs)
example : ((trace D.new DeadlineSpec.Hist.empty
    [.set (some 3), .advance 6, .fire, .set (some 16), .callback]).map (fun s => (s.after.closed, s.ok)))
  = [(false, true), (false, true), (false, true), (false, true), (false, true)] := by decide

end TV.Props.C09
