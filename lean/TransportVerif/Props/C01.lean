import TransportVerif.Link.Vnet
import TransportVerif.Proofs.Vnet
import TransportVerif.Proofs.VnetPath
import TransportVerif.Proofs.VnetAcc
import TransportVerif.Proofs.VnetFifo
/-
C01 — vnet delivers each datagram at most once, intact, in order, to its socket only.
The statements below are FIXED; only the proofs may change.

The model (Model/Vnet.lean) is the vnet data path at queue granularity; `Reach n` ranges over EVERY
topology (any list of routers with any parent links, subnets, NIC tables, queue capacities and NAT
configurations, any hosts) and EVERY sequence of writes from any socket to any destination with
any payload, router iterations in any order, reads, binds, closes, time steps, starts and stops.
-/
namespace TV.Props.C01
open TV TV.Nat TV.Vnet TV.VnetLink

/-- At most once, and never silently lost: the chunks in the router queues, the chunks handed to
    sockets and the chunks discarded (each with its reason) are, as a multiset of write numbers,
    exactly the writes made so far — every datagram written is in exactly one place, exactly once. -/
theorem accounting (n : Net) (h : Reach n) :
    ((allChunks n).map (·.id)).Perm (List.range n.written.length) := by
  exact Proofs.Vnet.accounting n h

/-- … in particular no datagram is ever delivered twice, to the same or to two sockets. -/
theorem delivered_at_most_once (n : Net) (h : Reach n) : ((deliveredAll n).map (·.id)).Nodup := by
  exact Proofs.Vnet.delivered_at_most_once n h

/-- … and once every queue is empty, every datagram written so far has been handed to a socket or
    was discarded for one of the recorded reasons (`Drop`): nothing else is missing. -/
theorem nothing_missing_at_rest (n : Net) (h : Reach n) (hq : ∀ r ∈ n.routers, r.queue = []) (i : Nat)
    (hi : i < n.written.length) :
    (∃ c ∈ deliveredAll n, c.id = i) ∨ (∃ c ∈ dropped n, c.id = i) := by
  exact Proofs.Vnet.nothing_missing_at_rest n h hq i hi

/-- Intact: wherever a chunk is, its payload, its origin socket and the destination it was written to
    are those of the write that created it (translation rewrites addresses, never the payload). -/
theorem payload_intact (n : Net) (h : Reach n) (c : Chunk) (hc : c ∈ allChunks n) :
    n.written[c.id]? = some { origin := c.origin, dst := c.odst, payload := c.payload } := by
  exact Proofs.Vnet.payload_intact n h c hc

/-- Only to its socket: whatever a socket was handed is addressed (after translation) to the port the
    socket is bound to and to its IP unless it is bound to the wildcard, and the hand-over was the
    chunk's last hop. -/
theorem only_bound_socket (n : Net) (h : Reach n) (hh s : Nat) (sk : SockM) (hs : sockAt n hh s = some sk)
    (c : Chunk) (hc : c ∈ sk.delivered) :
    c.dst.port = sk.port ∧ (sk.ip = 0 ∨ sk.ip = c.dst.ip) ∧ c.hops.getLast? = some (.inbox hh s) := by
  exact Proofs.Vnet.only_bound_socket n h hh s sk hs c hc

/-- … and the hand-over only ever goes to an open socket that covers the destination: `deliver`
    either records a drop or appends the chunk to exactly the socket `findSock` returns, which is
    open and covers the chunk's destination; every other socket of the network is untouched. -/
theorem deliver_target (n : Net) (hh : Nat) (c : Chunk) :
    (∃ d, n.deliver hh c = n.drop c d) ∨
    (∃ hm s sk, n.hosts[hh]? = some hm ∧ hm.findSock c.dst = some s ∧ hm.socks[s]? = some sk ∧ sk.covers c.dst = true ∧
      (n.deliver hh c).drops = n.drops ∧ (n.deliver hh c).routers = n.routers ∧
      ∀ h' s', (h', s') ≠ (hh, s) → sockAt (n.deliver hh c) h' s' = sockAt n h' s') := by
  exact Proofs.Vnet.deliver_target n hh c

/-- What the application reads is what was handed over, in that order, each datagram once: the
    unread datagrams are always a suffix of the hand-over log … -/
theorem inbox_is_suffix (n : Net) (h : Reach n) (hh s : Nat) (sk : SockM) (hs : sockAt n hh s = some sk) :
    sk.inbox <:+ sk.delivered := by
  exact Proofs.Vnet.inbox_is_suffix n h hh s sk hs

/-- … a read returns one of the unread datagrams and leaves exactly those after it; a connected
    socket returns only datagrams of its peer (and skips only datagrams of others). -/
theorem read_takes_next (n : Net) (hh s : Nat) (sk : SockM) (hs : sockAt n hh s = some sk) (n' : Net) (c : Chunk)
    (hr : n.read hh s = (n', .pkt c)) :
    ∃ skipped sk', sockAt n' hh s = some sk' ∧ sk.inbox = skipped ++ c :: sk'.inbox ∧ sk'.delivered = sk.delivered ∧
      (∀ ra, sk.remote = some ra → c.src = ra ∧ ∀ x ∈ skipped, x.src ≠ ra) ∧ (sk.remote = none → skipped = []) := by
  exact Proofs.Vnet.read_takes_next n hh s sk hs n' c hr

/-- In order (FIFO per flow).  Two datagrams written by the same socket that travelled through the
    same sequence of queues to the same socket are handed over in the order they were written —
    for every topology and every interleaving of writers and routers.  (`flow_fifo` below removes the same-path hypothesis for networks whose NATs start freshly constructed.) -/
theorem flow_fifo_partial (n : Net) (h : Reach n) (hh s : Nat) (sk : SockM) (hs : sockAt n hh s = some sk)
    (a b : Chunk) (ha : a ∈ sk.delivered) (hb : b ∈ sk.delivered)
    (ho : a.origin = b.origin) (hp : a.hops = b.hops) (hlt : a.id < b.id) :
    Before sk.delivered a b := by
  exact Proofs.Vnet.flow_fifo_partial n h hh s sk hs a b ha hb ho hp hlt

/-- Same flow, same path: two datagrams written by one socket to one destination that are handed
    to the same socket travelled through the same sequence of queues — in every network whose NATs
    start freshly constructed, whatever the NATs translated in between and however much time passed
    (a NAT never forwards one external address to two different internal addresses,
    `Props/C01NatStable`; every other routing decision depends on the destination only). -/
theorem same_flow_same_path (n : Net) (h : Reach2 n) (hh s : Nat) (sk : SockM) (hs : sockAt n hh s = some sk)
    (a b : Chunk) (ha : a ∈ sk.delivered) (hb : b ∈ sk.delivered) (ho : a.origin = b.origin) (hd : a.odst = b.odst) :
    a.hops = b.hops := by
  exact Proofs.Vnet.same_flow_same_path n h hh s sk hs a b ha hb ho hd

/-- In order (FIFO per flow), the full claim: datagrams between the same two sockets are handed over
    in the order they were written. -/
theorem flow_fifo (n : Net) (h : Reach2 n) (hh s : Nat) (sk : SockM) (hs : sockAt n hh s = some sk)
    (a b : Chunk) (ha : a ∈ sk.delivered) (hb : b ∈ sk.delivered)
    (ho : a.origin = b.origin) (hd : a.odst = b.odst) (hlt : a.id < b.id) :
    Before sk.delivered a b := by
  exact Proofs.Vnet.flow_fifo n h hh s sk hs a b ha hb ho hd hlt

/-- Not lost while admissible, step by step: a push into a started router below capacity discards nothing … -/
theorem push_keeps (n : Net) (r : Nat) (rt : RouterM) (c : Chunk) (hr : n.routers[r]? = some rt)
    (hs : n.started = true) (hcap : rt.cap = 0 ∨ rt.queue.length < rt.cap) :
    (n.pushTo r c).drops = n.drops ∧
    ∃ rt', (n.pushTo r c).routers[r]? = some rt' ∧ rt'.queue = rt.queue ++ [{ c with hops := c.hops ++ [.queue r], route := c.route ++ [(.queue r, c.dst)] }] := by
  exact Proofs.Vnet.push_keeps n r rt c hr hs hcap

/-- … and a hand-over to a host that has an open socket covering the destination, with room in its
    inbox, discards nothing. -/
theorem deliver_keeps (n : Net) (hh : Nat) (hm : HostM) (s : Nat) (sk : SockM) (c : Chunk) (h1 : n.hosts[hh]? = some hm)
    (h2 : hm.findSock c.dst = some s) (h3 : hm.socks[s]? = some sk) (h4 : sk.inbox.length < inboxCap) :
    (n.deliver hh c).drops = n.drops ∧
    ∃ sk', sockAt (n.deliver hh c) hh s = some sk' ∧ sk'.delivered = sk.delivered ++ [{ c with hops := c.hops ++ [.inbox hh s], route := c.route ++ [(.inbox hh s, c.dst)] }] := by
  exact Proofs.Vnet.deliver_keeps n hh hm s sk c h1 h2 h3 h4

/-- one iteration of a router takes exactly the head of its queue -/
theorem route_pops_head (n : Net) (r : Nat) (rt : RouterM) (c : Chunk) (rest : List Chunk)
    (hr : n.routers[r]? = some rt) (hq : rt.queue = c :: rest) :
    ∃ rt', (n.routeOne r).routers[r]? = some rt' ∧ (rt'.queue = rest ∨ ∃ c', rt'.queue = rest ++ [c']) := by
  exact Proofs.Vnet.route_pops_head n r rt c rest hr hq

-- non-vacuity: two hosts on one router, one datagram written, routed, read
def demoNet : Net :=
  { routers := [{ netIP := 0x01020300, maskBits := 24, parent := none, nat := none,
                  nics := [(0x01020302, .host 0), (0x01020303, .host 1)], queue := [], cap := 0 }],
    hosts := [{ ips := [0x01020302], router := some 0, socks := [] }, { ips := [0x01020303], router := some 0, socks := [] }],
    now := 0, started := false, written := [], drops := [] }

example : demoNet.Fresh := by
  refine ⟨rfl, rfl, ?_, ?_⟩ <;> intro x hx <;> simp [demoNet] at hx <;> rcases hx with rfl | rfl <;> rfl

example : ((run demoNet [.start, .bind 0 0 4000 none, .bind 1 0x01020303 4000 none,
    .write 0 0 ⟨0x01020303, 4000⟩ [1, 2, 3], .route 0]).hosts[1]?.bind (·.socks[0]?)).map (fun sk => sk.delivered.map (fun c => (c.id, c.src, c.payload)))
    = some [(0, ⟨0x01020302, 4000⟩, [1, 2, 3])] := by decide

end TV.Props.C01
