import TransportVerif.Model.Vnet
namespace TV.Props.C01
theorem placeholder : True := trivial
end TV.Props.C01
