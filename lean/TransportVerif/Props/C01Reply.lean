import TransportVerif.Link.Nat
import TransportVerif.Proofs.Nat
import TransportVerif.Proofs.NatReply
/-
C01, the clause "it shows as source the sender's address as translated by the NATs on the path, so
that a datagram sent back to that source from the address the original was sent to reaches the
original sender's socket" — for one NAT on the path.  The statements below are FIXED; only the proofs
may change.
-/
namespace TV.Props.C01Reply
open TV TV.Nat TV.NatLink

/-- a NAT state reachable from a freshly constructed NAT (any behaviours, lifetime ≥ 0) by any history of
    datagrams and time steps -/
def ReachNat (s : NAT × Int) : Prop :=
  ∃ one2one mb fb lt mapped loc n ops, 0 ≤ lt ∧ NAT.new one2one mb fb lt mapped loc = some n ∧ s = runState (n, 0) ops

/-- NAPT mode: if the NAT lets an outbound datagram `src → dst` through, showing `ext` as its source,
    then a datagram sent back at that moment from exactly `dst` to `ext` is forwarded to `src` — in
    every reachable NAT state, for every mapping and filtering behaviour. -/
theorem reply_reaches_sender (s : NAT × Int) (h : ReachNat s) (h1 : s.1.one2one = false) (src dst ext : Addr)
    (ho : (s.1.translateOutbound s.2 src dst).2 = .ok ext) :
    ((s.1.translateOutbound s.2 src dst).1.translateInbound s.2 dst ext).2 = .ok src := by
  have hl := Proofs.NatReply.lifetime_nonneg s h h1 src dst
  exact Proofs.NatReply.reply_at s h h1 src dst ext ho s.2 (by omega)

/-- … and the reply is still forwarded at any later moment within the mapping's lifetime, whatever
    other datagrams the NAT translated in between, as long as none of them is outbound (an
    outbound datagram of the same endpoint would only refresh the mapping; an inbound one changes
    nothing, `inbound_is_silent`). -/
theorem reply_within_lifetime (s : NAT × Int) (h : ReachNat s) (h1 : s.1.one2one = false) (src dst ext : Addr)
    (ho : (s.1.translateOutbound s.2 src dst).2 = .ok ext) (dt : Nat)
    (hdt : (dt : Int) ≤ (s.1.translateOutbound s.2 src dst).1.lifetime) :
    ((s.1.translateOutbound s.2 src dst).1.translateInbound (s.2 + dt) dst ext).2 = .ok src := by
  exact Proofs.NatReply.reply_at s h h1 src dst ext ho (s.2 + dt) (by omega)

/-- 1:1 mode (any state): the reply to the translated source comes back to the sender, provided the
    pairing is a bijection between the local and the mapped addresses at the sender's entry. -/
theorem reply_reaches_sender_one2one (n : NAT) (now : Int) (h1 : n.one2one = true) (src dst ext : Addr)
    (ho : (n.translateOutbound now src dst).2 = .ok ext)
    (hinj : paired n.mappedIPs n.localIPs ext.ip = some src.ip) :
    ((n.translateOutbound now src dst).1.translateInbound now dst ext).2 = .ok src := by
  exact Proofs.NatReply.reply_one2one n now h1 src dst ext ho hinj

-- non-vacuity
example : (NAT.new false .addrPort .addrPort 30000 [0x1B010101] []).map (fun n =>
    let r := n.translateOutbound 0 ⟨0x0A000002, 5000⟩ ⟨0x05060708, 80⟩
    (r.2, (r.1.translateInbound 7 ⟨0x05060708, 80⟩ ⟨0x1B010101, 49152⟩).2))
  = some (.ok ⟨0x1B010101, 49152⟩, .ok ⟨0x0A000002, 5000⟩) := by decide

end TV.Props.C01Reply
