import TransportVerif.Link.Ring
import TransportVerif.Proofs.Ring
import TransportVerif.Props.C06
/-
C07 — limits and occupancy are exact.  The statements below are FIXED; only the proofs may change.
-/
namespace TV.Props.C07
open TV TV.Ring TV.RingLink

/-- In every reachable state the growth loop succeeds whenever the limit test of `Write` lets the
    packet through: "every packet that fits is accepted" (the loop's termination is part of the
    definition of `growUntil`, see Model/Ring.lean). -/
theorem growUntil_succeeds (r : Ring.Ring) (hr : Reachable r) (n : Nat)
    (hn : n < Ring.maxPacket) (hl : r.overLimit n = false) : (r.growUntil n).2 = true := by
  -- `hn` is not needed: the growth loop succeeds for any length that passes the limit test
  have _ := hn
  obtain ⟨f, hi⟩ := Proofs.Ring.reachable_inv r hr
  exact Proofs.Ring.growUntil_true r n hi.geo hl

/-- A Write is refused with buffer-full exactly when accepting it would exceed the count limit,
    the size limit, or (no size limit, or hard-limit build) the 4 MiB cap — stated on the model's
    own `count` and `size`, which by `ring_refines_fifo` are the number of unread packets and the sum of
    their lengths plus two each. -/
theorem write_full_iff (r : Ring.Ring) (hr : Reachable r) (p : List UInt8) :
    (r.write p).2 = .full ↔
      (p.length < Ring.maxPacket ∧ r.closed = false ∧
        ((r.limitCount > 0 ∧ (r.count : Int) ≥ r.limitCount) ∨
         (r.limitSize > 0 ∧ ((r.size + 2 + p.length : Nat) : Int) > r.limitSize) ∨
         ((r.limitSize ≤ 0 ∨ r.hard = true) ∧ r.size + 2 + p.length ≥ Ring.maxSize))) := by
  obtain ⟨f, hi⟩ := Proofs.Ring.reachable_inv r hr
  have hov : r.overLimit p.length = true ↔
      ((r.limitCount > 0 ∧ (r.count : Int) ≥ r.limitCount) ∨
       (r.limitSize > 0 ∧ ((r.size + 2 + p.length : Nat) : Int) > r.limitSize) ∨
       ((r.limitSize ≤ 0 ∨ r.hard = true) ∧ r.size + 2 + p.length ≥ Ring.maxSize)) := by
    unfold Ring.overLimit
    simp only [Bool.or_eq_true, Bool.and_eq_true, decide_eq_true_eq, or_assoc]
  rw [← hov]
  unfold Ring.write
  by_cases h1 : p.length ≥ Ring.maxPacket
  · rw [if_pos h1]
    constructor
    · intro h; simp at h
    · intro h; omega
  · rw [if_neg h1]
    by_cases h2 : r.closed = true
    · rw [if_pos h2]
      constructor
      · intro h; simp at h
      · intro h; rw [h2] at h; simp at h
    · rw [if_neg h2]
      by_cases h3 : r.overLimit p.length = true
      · rw [if_pos h3]
        exact ⟨fun _ => ⟨by omega, by simpa using h2, h3⟩, fun _ => rfl⟩
      · rw [if_neg h3]
        have hgt := Proofs.Ring.growUntil_true r p.length hi.geo (by simpa using h3)
        rcases hgu : r.growUntil p.length with ⟨g, b⟩
        rw [hgu] at hgt
        simp only at hgt
        subst hgt
        simp only []
        constructor
        · intro h; simp at h
        · intro h; exact absurd h.2.2 h3

/-- A refused Write (any reason) leaves the whole ring state unchanged in every reachable state. -/
theorem refused_write_is_noop (r : Ring.Ring) (hr : Reachable r) (p : List UInt8)
    (h : ∀ n, (r.write p).2 ≠ .ok n) : (r.write p).1 = r := by
  obtain ⟨f, hi⟩ := Proofs.Ring.reachable_inv r hr
  unfold Ring.write at h ⊢
  by_cases h1 : p.length ≥ Ring.maxPacket
  · rw [if_pos h1]
  · rw [if_neg h1] at h ⊢
    by_cases h2 : r.closed = true
    · rw [if_pos h2]
    · rw [if_neg h2] at h ⊢
      by_cases h3 : r.overLimit p.length = true
      · rw [if_pos h3]
      · rw [if_neg h3] at h ⊢
        have hgt := Proofs.Ring.growUntil_true r p.length hi.geo (by simpa using h3)
        rcases hgu : r.growUntil p.length with ⟨g, b⟩
        rw [hgu] at hgt h
        simp only at hgt
        subst hgt
        exact absurd rfl (h p.length)

/-- Count and Size of the model equal the spec's along every history (corollary of the main theorem,
    stated separately because it is C07's first sentence). -/
theorem count_size_exact (hard : Bool) (ops : List Ring.Op) :
    (obsModel (Ring.new hard) ops).map (fun o => (o.count, o.size)) =
    (obsSpec hard RingSpec.Fifo.new ops).map (fun o => (o.count, o.size)) := by
  rw [C06.ring_refines_fifo]

-- non-vacuity: reachable states exist (the new buffer, and anything after it)
example : Reachable (Ring.new false) := ⟨false, [], rfl⟩
example : Reachable (runModel (Ring.new true) [.limitSize 7, .write [1, 2, 3, 4, 5]]) := ⟨true, _, rfl⟩

end TV.Props.C07
