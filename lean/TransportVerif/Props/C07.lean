import TransportVerif.Model.Ring
import TransportVerif.Spec.Ring
namespace TV.Props.C07
theorem placeholder : True := trivial
end TV.Props.C07
