import TransportVerif.Link.Listener
import TransportVerif.Proofs.Listener
/-
C11 — the UDP listener hands each datagram to the one connection of its remote address.
The statements below are FIXED; only the proofs may change.
-/
namespace TV.Props.C11
open TV TV.Listener TV.ListenerLink TV.Proofs.Listener

/-- Main theorem: for every backlog and accept filter and EVERY history of datagram arrivals from
    any remotes, Accept, Read, connection Close and listener Close, the listener model (table,
    backlog queue, per-connection FIFO) answers exactly as the per-remote spec. -/
theorem listener_refines_spec (backlog : Nat) (flt : Option (Nat × Nat)) (ops : List Op) :
    outsModel (L.new backlog flt) ops = outsSpec (ListenerSpec.S.new backlog flt) ops := by
  rw [← abs_new]
  exact outs_ref ops _ (inv_new backlog flt)

/-- while a connection is open no second connection for the same remote exists: in every reachable
    state the table has at most one entry per remote, it points to an open connection of that remote -/
theorem one_conn_per_remote (backlog : Nat) (flt : Option (Nat × Nat)) (ops : List Op) :
    let l := runModel (L.new backlog flt) ops
    (l.conns.map (·.1)).Nodup ∧
    ∀ e ∈ l.conns, ∃ c, l.conn? e.2 = some c ∧ c.remote = e.1 ∧ c.closed = false := by
  exact inv_one_conn (inv_run ops _ (inv_new backlog flt))

/-- isolation: a datagram only ever changes the buffer of a connection whose remote is its sender -/
theorem delivered_to_own_conn (backlog : Nat) (flt : Option (Nat × Nat)) (ops : List Op) (rm : Nat) (p : Msg) :
    let l := runModel (L.new backlog flt) ops
    ∀ c ∈ l.store, c.remote ≠ rm → (l.dispatch rm p).conn? c.id = some c := by
  exact inv_delivered (inv_run ops _ (inv_new backlog flt)) rm p

/-- the first datagram from an unknown remote creates exactly one connection holding that datagram
    iff the listener accepts, the filter admits it and the backlog has room; otherwise nothing is created -/
theorem first_datagram_creates_one (l : L) (rm : Nat) (p : Msg) (hnew : (l.conns.find? (fun e => e.1 = rm)) = none) :
    (l.accepting = true ∧ admits l.filter p = true ∧ l.acceptQ.length < l.backlog →
       (l.dispatch rm p).store = l.store ++ [{ id := l.nextId, remote := rm, buf := [p], closed := false }] ∧
       (l.dispatch rm p).acceptQ = l.acceptQ ++ [l.nextId] ∧ (l.dispatch rm p).conns = l.conns ++ [(rm, l.nextId)]) ∧
    (¬ (l.accepting = true ∧ admits l.filter p = true ∧ l.acceptQ.length < l.backlog) → l.dispatch rm p = l) := by
  rw [dispatch_none p hnew]
  constructor
  · intro h
    rw [if_pos h]
    exact ⟨rfl, rfl, rfl⟩
  · intro h
    rw [if_neg h]

/-- after a connection was closed a new datagram from that remote creates a fresh one (the closed
    connection's table entry is gone) -/
theorem fresh_conn_after_close (backlog : Nat) (flt : Option (Nat × Nat)) (ops : List Op) (id : Nat) (c : Conn) :
    let l := runModel (L.new backlog flt) ops
    l.conn? id = some c → c.closed = false → (l.conns.find? (fun e => e.1 = c.remote)).map (·.2) = some id →
      ((l.connClose id).conns.find? (fun e => e.1 = c.remote)) = none := by
  exact inv_fresh (inv_run ops _ (inv_new backlog flt)) id c

-- non-vacuity: two remotes, interleaved datagrams, each connection reads its own
example : outsModel (L.new 0 none) [.arrive 1 [1], .arrive 2 [2], .arrive 1 [3], .accept, .accept, .read 0 9, .read 1 9, .read 0 9, .read 1 9]
  = [.unit, .unit, .unit, .a (.conn 0), .a (.conn 1), .r (.data [1]), .r (.data [2]), .r (.data [3]), .r .wouldBlock] := by decide

end TV.Props.C11
