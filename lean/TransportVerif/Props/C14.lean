import TransportVerif.Model.Delay
namespace TV.Props.C14
theorem placeholder : True := trivial
end TV.Props.C14
