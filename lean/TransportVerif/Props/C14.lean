import TransportVerif.Link.Delay
import TransportVerif.Proofs.Delay
/-
C14 — configured delays are lower bounds and never reorder, drop, duplicate or crash
(the DelayFilter; the router's minimum delay is covered by correspondence only).
The statements below are FIXED; only the proofs may change.
-/
namespace TV.Props.C14
open TV TV.Delay TV.DelayLink

/-- the forwarding loop never panics and never blocks on an empty timer channel: for every delay
    ≥ 0 (zero included), any number of senders and EVERY interleaving of queueing, notifying,
    select evaluations and timer expiries -/
theorem no_panic (s : Sys) (h : Reach s) : s.loop ≠ .panicked ∧ s.loop ≠ .stuck :=
  (Proofs.Delay.TInv.reach h).loopOk

/-- no datagram is handed downstream sooner than `delay` after it entered the filter -/
theorem not_before_delay (delay : Int) (n : Nat) (ops : List Op) (hd : 0 ≤ delay) (id : Nat) (t : Int)
    (h : (id, t) ∈ (run (Sys.init delay n) ops).forwarded) :
    ∃ a, (id, a) ∈ arrivals (Sys.init delay n) ops ∧ a + delay ≤ t := by
  have hD := (Proofs.Delay.DInv.init delay n).run ops (Proofs.Delay.TInv.init delay n hd)
  have hdel : (run (Sys.init delay n) ops).delay = delay :=
    Proofs.Delay.run_delay (Sys.init delay n) ops
  obtain ⟨a, ha, hle⟩ := hD.f id t h
  exact ⟨a, by simpa using ha, by rw [hdel] at hle; exact hle⟩

/-- datagrams leave in arrival order, each exactly once, none lost: what was forwarded followed by
    what is still queued is exactly what entered, in order -/
theorem fifo_exactly_once (delay : Int) (n : Nat) (ops : List Op) :
    (run (Sys.init delay n) ops).forwarded.map (·.1) ++ (run (Sys.init delay n) ops).queue.map (·.id) =
      (arrivals (Sys.init delay n) ops).map (·.1) := by
  have := Proofs.Delay.ids_run (Sys.init delay n) ops
  simpa [Proofs.Delay.ids, Sys.init] using this

/-- ORIGINAL STATEMENT (FALSE, kept verbatim as a `Prop`): progress: the timer is never dead — in
    every reachable state it is armed (for at most a minute ahead) or an undelivered tick is pending.
    The second conjunct fails for configured delays above one minute: `Reach` only demands
    `0 ≤ delay`, and both arms `Reset` the timer to the head's deadline, which is up to `delay` ahead. -/
def timer_never_dead_statement : Prop :=
  ∀ (s : Sys) (_ : Reach s),
    (s.armed = true ∨ s.tick.isSome = true) ∧ (s.armed = true → s.due ≤ s.now + minute)

/-- counterexample: delay = 2 minutes, one sender queues, notifies, the loop takes the push arm and
    resets the timer two minutes ahead -/
theorem timer_never_dead_counterexample : ¬ timer_never_dead_statement := by
  intro h
  have hr : Reach (run (Sys.init (2 * minute) 1) [.send 0, .notify 0, .loop]) :=
    ⟨2 * minute, 1, [.send 0, .notify 0, .loop], by decide, rfl⟩
  exact absurd ((h _ hr).2 (by decide)) (by decide)

/-- progress (closest true variant; no hypothesis added, the bound of the second conjunct is weakened
    from `minute` to `max minute s.delay`): the timer is never dead — in every reachable state it is
    armed (for at most a minute, or the configured delay if that is longer, ahead) or an undelivered
    tick is pending — and a tick arriving after the head's deadline forwards the head -/
theorem timer_never_dead (s : Sys) (h : Reach s) :
    (s.armed = true ∨ s.tick.isSome = true) ∧ (s.armed = true → s.due ≤ s.now + max minute s.delay) :=
  ⟨(Proofs.Delay.TInv.reach h).alive, (Proofs.Delay.TInv.reach h).dueLe⟩

/-- the original statement holds verbatim under the added hypothesis `s.delay ≤ minute` -/
theorem timer_never_dead_of_delay_le_minute (s : Sys) (h : Reach s) (hm : s.delay ≤ minute) :
    (s.armed = true ∨ s.tick.isSome = true) ∧ (s.armed = true → s.due ≤ s.now + minute) := by
  refine ⟨(timer_never_dead s h).1, fun ha => ?_⟩
  have := (timer_never_dead s h).2 ha
  omega

theorem tick_forwards_due_head (s : Sys) (c : Chunk) (rest : List Chunk) (tnow : Int)
    (hq : s.queue = c :: rest) (hdue : c.deadline < tnow) :
    (s.tickArm tnow).forwarded = s.forwarded ++ [(c.id, s.now)] ∧ (s.tickArm tnow).queue = rest := by
  unfold Sys.tickArm
  simp only [hq, hdue, if_true]
  cases rest <;> simp

-- the pinned tree's crash schedule (queue, let the timer forward, then notify) on the repaired model
example : (run (Sys.init 1000000 3) [.send 2, .advance 60000000000, .loop, .notify 2, .loop]).loop = .atSelect
    ∧ (run (Sys.init 1000000 3) [.send 2, .advance 60000000000, .loop, .notify 2, .loop]).forwarded = [(2, 60000000000)] := by decide

end TV.Props.C14
