import TransportVerif.Link.Nat
import TransportVerif.Proofs.Nat
import TransportVerif.Props.C02
/-
C03 — NAT admits inbound datagrams only per its filtering rule, to the mapping owner.
The statements below are FIXED; only the proofs may change.
-/
namespace TV.Props.C03
open TV TV.Nat TV.NatLink

/-- the inbound half of the run theorem: every answer to an inbound datagram is the one
    `NatSpec.allowedIn` prescribes (forwarded to the owner iff a live mapping owns the address and
    the sender matches a recorded permission of that mapping; dropped otherwise).
    `hports` (ports of all calls ≤ 65535, `C02.portsOk`) is necessary, see `C02.judged`. -/
theorem inbound_judged (mode : Bool) (mb fb : Dep) (lt : Int) (mapped loc : List Nat) (n : NAT) (ops : List Op)
    (hn : NAT.new mode mb fb lt mapped loc = some n) (hlt : 0 ≤ lt) (hm : mode = false → mapped ≠ [])
    (hports : ∀ op ∈ ops, C02.portsOk op) :
    ∀ o ∈ runNew n ops, ∀ a b r, o.op = .inb a b → o.out = .i r →
      NatSpec.allowedIn (cfgOf n) o.before a b r = true := by
  intro o ho a b r hop hout
  have h := C02.judged mode mb fb lt mapped loc n ops hn hlt hm hports o ho
  cases o with
  | mk before op out =>
    simp only at hop hout
    subst hop hout
    exact h

/-- an inbound datagram — forwarded or refused — creates nothing, refreshes nothing and grants
    nothing: the answers to every later call are the same as if it had never arrived.  For every
    state reachable from a new NAT. -/
theorem inbound_is_silent (mode : Bool) (mb fb : Dep) (lt : Int) (mapped loc : List Nat) (n : NAT)
    (pre post : List Op) (a b : Addr)
    (hn : NAT.new mode mb fb lt mapped loc = some n) (hlt : 0 ≤ lt) :
    outs (step (runState (n, 0) pre) (.inb a b)).1 post = outs (runState (n, 0) pre) post :=
  Proofs.Nat.inbound_is_silent mode mb fb lt mapped loc n pre post a b hn hlt

/-- a forwarded inbound datagram goes to the address that created the mapping (`loc` of the entry
    stored under the destination), in any state -/
theorem inbound_to_owner (n : NAT) (now : Int) (src dst a : Addr) (h1 : n.one2one = false)
    (h : (n.translateInbound now src dst).2 = .ok a) :
    ∃ m, Nat.lookup n.inbound (dst.ip, dst.port) = some m ∧ a = m.loc ∧ ¬ now > m.expires ∧
      m.filters.contains (keyOf n.filtBeh src) = true :=
  Proofs.Nat.inbound_to_owner n now src dst a h1 h

/-- 1:1 mode inbound: paired external IP → paired local IP with the port preserved; else dropped -/
theorem one_to_one_inbound (n : NAT) (now : Int) (src dst : Addr) (h1 : n.one2one = true) :
    (n.translateInbound now src dst) =
      (n, match paired n.mappedIPs n.localIPs dst.ip with
          | some ip => .ok { ip := ip, port := dst.port }
          | none => .noAssoc) :=
  Proofs.Nat.one_to_one_inbound n now src dst h1

-- non-vacuity: address-restricted filtering admits the contacted IP on another port, refuses another IP
example : (NAT.new false .indep .addr 30000 [0x1B010101] []).map (fun n => outs (n, 0)
    [.out ⟨0x0A000002, 5000⟩ ⟨0x05060708, 80⟩, .inb ⟨0x05060708, 81⟩ ⟨0x1B010101, 49152⟩, .inb ⟨0x05060709, 80⟩ ⟨0x1B010101, 49152⟩,
     .adv 30001, .inb ⟨0x05060708, 80⟩ ⟨0x1B010101, 49152⟩])
  = some [.o (.ok ⟨0x1B010101, 49152⟩), .i (.ok ⟨0x0A000002, 5000⟩), .i .noPermission, .unit, .i .noBinding] := by decide

end TV.Props.C03
