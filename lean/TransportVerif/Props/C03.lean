import TransportVerif.Model.Nat
import TransportVerif.Spec.Nat
namespace TV.Props.C03
theorem placeholder : True := trivial
end TV.Props.C03
