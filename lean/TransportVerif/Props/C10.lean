import TransportVerif.Model.ReadDeadline
import TransportVerif.Proofs.ReadDeadline
/-
C10 — read deadlines: no early or spurious timeout; expiry persists until reset.
One model (Model/ReadDeadline.lean: a reader that checks the deadline signal first and then waits
for data or the signal, on top of the Deadline model of C09) stands for all five connection
types; the correspondence check runs the same histories against each of them.
The statements below are FIXED; only the proofs may change.
-/
namespace TV.Props.C10
open TV TV.ReadDeadline
open TV.Proofs.ReadDeadline (Settled settled_new settled_step step_d settle_deadline settle_now set_deadline
  set_now release_d release_timeout release_of_closed release_unblocked)

def runConn (c : Conn) : List ReadDeadline.Op → Conn
  | [] => c
  | op :: ops => runConn (step c op).1 ops

/-- reachable by any history of SetReadDeadline / arrivals / reads / idle periods -/
def Reach (c : Conn) : Prop := ∃ ops, c = runConn Conn.new ops

/-- the settled invariant is kept along every history -/
theorem settled_run (c : Conn) (S : Settled c.d) (ops : List ReadDeadline.Op) : Settled (runConn c ops).d := by
  induction ops generalizing c with
  | nil => exact S
  | cons op ops ih => exact ih _ (settled_step S op)

theorem settled_reach {c : Conn} (h : Reach c) : Settled c.d := by
  obtain ⟨ops, rfl⟩ := h
  exact settled_run _ settled_new ops

theorem runConn_append (c : Conn) (ops ops' : List ReadDeadline.Op) :
    runConn c (ops ++ ops') = runConn (runConn c ops) ops' := by
  induction ops generalizing c with
  | nil => rfl
  | cons op ops ih => exact ih _

/-- reachability is closed under `step` -/
theorem reach_step {c : Conn} (h : Reach c) (op : ReadDeadline.Op) : Reach (step c op).1 := by
  obtain ⟨ops, rfl⟩ := h
  exact ⟨ops ++ [op], by rw [runConn_append]; rfl⟩

/-- in every reachable state the deadline signal is raised exactly when a non-zero deadline is in
    force and has passed (timer callbacks are settled after every step) -/
theorem signal_iff_passed (c : Conn) (h : Reach c) :
    c.d.doneClosed = true ↔ ∃ t, c.d.deadline = some t ∧ t ≤ c.d.now :=
  (settled_reach h).closedIff

/-- a read fails with a timeout only if a non-zero deadline is in force and has passed -/
theorem timeout_only_if_passed (c : Conn) (h : Reach c) (op : ReadDeadline.Op) (ht : (step c op).2 = .timeout) :
    ∃ t, (step c op).1.d.deadline = some t ∧ t ≤ (step c op).1.d.now := by
  have S' := settled_step (settled_reach h) op
  apply S'.closedIff.mp
  cases op with
  | setDeadline nt =>
    simp only [step] at ht ⊢
    rw [release_d]
    exact (release_timeout ht).2
  | advance dt =>
    simp only [step] at ht ⊢
    rw [release_d]
    exact (release_timeout ht).2
  | arrive =>
    simp only [step] at ht
    repeat' split at ht
    all_goals cases ht
  | read =>
    simp only [step] at ht ⊢
    split at ht
    · cases ht
    · split at ht
      · rename_i hb hc
        rw [if_neg hb, if_pos hc]; exact hc
      · repeat' split at ht
        all_goals cases ht
  | close =>
    simp only [step] at ht
    split at ht <;> cases ht

/-- a blocked read is released with a timeout once its deadline passes -/
theorem blocked_read_released_at_expiry (c : Conn) (h : Reach c) (t : Int) (dt : Nat)
    (hb : c.blocked = true) (hd : c.d.deadline = some t) (hp : t ≤ c.d.now + dt) :
    (step c (.advance dt)).2 = .timeout ∧ (step c (.advance dt)).1.blocked = false := by
  have S' := settled_step (settled_reach h) (.advance dt)
  have hdd := step_d c (.advance dt)
  simp only [] at hdd
  rw [hdd] at S'
  have hc : (settle (c.d.advance dt) 4).doneClosed = true := by
    apply S'.closedIff.mpr
    refine ⟨t, ?_, ?_⟩
    · rw [settle_deadline]; exact hd
    · rw [settle_now]; exact hp
  simp only [step]
  rw [release_of_closed (c := { c with d := settle (c.d.advance dt) 4 }) hb hc]
  exact ⟨rfl, rfl⟩

/-- after a deadline has passed every read fails with a timeout (also with data queued) until the
    deadline is set again -/
theorem timeout_persists (c : Conn) (h : Reach c) (t : Int) (hd : c.d.deadline = some t) (hp : t ≤ c.d.now)
    (hb : c.blocked = false) :
    (step c .read).2 = .timeout ∧ (step c .read).1 = c ∧
    ∀ dt, (step c (.advance dt)).1.d.doneClosed = true ∧ (step c .arrive).1.d.doneClosed = true := by
  have S := settled_reach h
  have hc : c.d.doneClosed = true := S.closedIff.mpr ⟨t, hd, hp⟩
  refine ⟨?_, ?_, ?_⟩
  · simp [step, hb, hc]
  · simp [step, hb, hc]
  · intro dt
    constructor
    · have S' := settled_step S (.advance dt)
      apply S'.closedIff.mpr
      rw [step_d]
      refine ⟨t, ?_, ?_⟩
      · simp only []; rw [settle_deadline]; exact hd
      · simp only []; rw [settle_now]; show t ≤ c.d.now + dt; omega
    · rw [step_d]; exact hc

/-- setting a later or the zero deadline makes reads wait for (or return) data again — also on a
    closed connection: buffered data is returned, then end of file, never the old timeout -/
theorem later_or_zero_deadline_reads_again (c : Conn) (h : Reach c) (nt : Option Int)
    (hn : ∀ t, nt = some t → c.d.now < t) (hb : c.blocked = false) :
    let c' := (step c (.setDeadline nt)).1
    (c'.queued > 0 → (step c' .read).2 = .data) ∧
    (c'.queued = 0 → (step c' .read).2 = (if c'.closed then .eof else .blocked)) ∧ c'.closed = c.closed := by
  intro c'
  have S' : Settled c'.d := settled_step (settled_reach h) (.setDeadline nt)
  have hc' : c' = { c with d := settle (c.d.set nt) 4 } := by
    show (step c (.setDeadline nt)).1 = _
    simp only [step]
    rw [release_unblocked (c := { c with d := settle (c.d.set nt) 4 }) hb]
  have hb' : c'.blocked = false := by rw [hc']; exact hb
  have hdl : c'.d.deadline = nt := by rw [hc']; show (settle (c.d.set nt) 4).deadline = nt; rw [settle_deadline, set_deadline]
  have hnow : c'.d.now = c.d.now := by rw [hc']; show (settle (c.d.set nt) 4).now = _; rw [settle_now, set_now]
  have hdc : c'.d.doneClosed = false := by
    cases hx : c'.d.doneClosed with
    | false => rfl
    | true =>
      obtain ⟨t, ht, hle⟩ := S'.closedIff.mp hx
      rw [hdl] at ht
      have := hn t ht
      omega
  refine ⟨?_, ?_, ?_⟩
  · intro hq
    simp only [step, hb', hdc, hq]
    simp
  · intro hq
    simp only [step, hb', hdc, hq]
    cases c'.closed <;> simp
  · rw [hc']

-- the pinned vnet socket's failing history on the model: the deadline expires unobserved, is extended,
-- and the next read blocks (no early timeout); then the extended deadline releases it
example : ((runConn Conn.new [.setDeadline (some 5), .advance 10, .setDeadline (some 2000), .read]).blocked,
           (step (runConn Conn.new [.setDeadline (some 5), .advance 10, .setDeadline (some 2000), .read]) (.advance 1990)).2)
    = (true, Res.timeout) := by decide

/-- Close never produces a timeout and does not touch the deadline: the deadline signal after it is
    what it was before, so `signal_iff_passed` keeps deciding every later read -/
theorem close_keeps_deadline (c : Conn) : (step c .close).1.d = c.d ∧ (step c .close).2 ≠ .timeout := by
  refine ⟨step_d c .close, ?_⟩
  simp only [step]
  split <;> simp

/-- on a closed connection nothing blocks: a read returns a timeout (deadline passed), data, or end of file -/
theorem closed_never_blocks (c : Conn) (h : Reach c) (hc : c.closed = true) :
    c.blocked = false ∧ (step c .read).2 ≠ .blocked := by
  have inv : ∀ (ops : List ReadDeadline.Op) (c0 : Conn), (c0.closed = true → c0.blocked = false) →
      (runConn c0 ops).closed = true → (runConn c0 ops).blocked = false := by
    intro ops
    induction ops with
    | nil => intro c0 I; exact I
    | cons op ops ih => intro c0 I; exact ih _ (TV.Proofs.ReadDeadline.closed_unblocked_step I op)
  obtain ⟨ops, rfl⟩ := h
  have hb := inv ops Conn.new (fun _ => rfl) hc
  refine ⟨hb, ?_⟩
  simp only [step, hb, hc]
  repeat' split
  all_goals simp at *

end TV.Props.C10
