import TransportVerif.Model.ReadDeadline
namespace TV.Props.C10
theorem placeholder : True := trivial
end TV.Props.C10
