import TransportVerif.Model.Ctx
namespace TV.C17
theorem placeholder : True := trivial
end TV.C17
