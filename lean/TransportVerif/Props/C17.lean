import TransportVerif.Link.Ctx
import TransportVerif.Proofs.Ctx
import TransportVerif.Proofs.CtxThm
/-
C17 — context cancellation of I/O loses no data and leaves the connection usable.
The statements below are FIXED; only the proofs may change.

The model (Model/Ctx.lean) is one context-aware operation — caller and watcher goroutine at the
granularity of their blocking points — over an abstract wrapped connection; `run (Op.new want avail c) ss`
ranges over EVERY schedule `ss` of caller grants, watcher grants (including Go's free choice when
both select cases are ready), a cancellation at any instant and data becoming available at any
instant.
-/
namespace TV.Props.C17
open TV TV.Ctx TV.CtxLink

/-- After the operation has returned the wrapped connection carries no leftover deadline, and the
    watcher goroutine is gone — whatever the interleaving of cancellation, data and the two goroutines. -/
theorem no_leftover_deadline (want avail : Nat) (c st : Bool) (ss : List Step) :
    let o := run (Op.new want avail c st) ss
    o.main = .finished → o.deadlineOld = false ∧ o.watcher = .exited := by
  exact Proofs.Ctx.inv_finished_clean _ (Proofs.Ctx.inv_reach want avail c st ss)

/-- What the operation reports is what moved: the byte count is exactly the number of bytes that
    left the wrapped connection (a cancelled operation that reports zero has transferred none, and
    one that transferred bytes reports them even if the context fired meanwhile); the context's
    error appears only if the context was cancelled and nothing was transferred; the wrapped
    connection's own timeout error (the watcher's forced deadline) reaches the caller only with a
    stream write that was cancelled after it had written a part (0 < n < want: the byte count is
    reported with the error the write failed with); and with a live context the operation behaves
    like the wrapped connection: it returns data (a stream write: all of it), no error. -/
theorem result_is_what_moved (want avail : Nat) (c st : Bool) (ss : List Step) (n : Nat) (e : Err) :
    let o := run (Op.new want avail c st) ss
    o.result = some (n, e) →
      n = o.transferred ∧ n ≤ want ∧
      (e = .timeout → (o.cancelled = true ∧ st = true ∧ 0 < n ∧ n < want)) ∧
      (e = .ctx → (o.cancelled = true ∧ n = 0)) ∧
      (o.cancelled = false → 0 < want → e = .nil ∧ 0 < n ∧ (st = true → n = want)) := by
  intro o hr
  have h := Proofs.Ctx.inv_result o (Proofs.Ctx.inv_reach want avail c st ss) n e hr
  rw [show o.want = want from Proofs.Ctx.reach_want want avail c st ss,
    show o.stream = st from Proofs.Ctx.reach_stream want avail c st ss] at h
  exact ⟨h.1, h.2.1, h.2.2.1, h.2.2.2.1, h.2.2.2.2.1⟩

/-- the result exists exactly when the caller has returned -/
theorem finished_iff_result (want avail : Nat) (c st : Bool) (ss : List Step) :
    let o := run (Op.new want avail c st) ss
    o.main = .finished ↔ o.result.isSome = true := by
  exact Proofs.Ctx.inv_finished_iff _ (Proofs.Ctx.inv_reach want avail c st ss)

/-- Bytes are neither lost nor invented: at every instant, what the wrapped connection still holds
    plus what the operation has transferred equals what it held at the start plus what arrived. -/
theorem bytes_conserved (want avail : Nat) (c st : Bool) (ss : List Step) :
    let o := run (Op.new want avail c st) ss
    o.avail + o.transferred = avail + dataSum ss := by
  exact Proofs.Ctx.reach_bytes want avail c st ss

/-- Promptness and absence of deadlock: at a state where neither goroutine can move without a
    further external event, either the operation has returned, or the caller is inside the wrapped
    call with a live context and nothing to transfer.  In particular, once the context is cancelled
    the operation returns as soon as both goroutines have been run — nobody stays blocked in
    `wg.Wait()`, in the select or in `<-done`. -/
theorem cancelled_returns (want avail : Nat) (c st : Bool) (ss : List Step) :
    let o := run (Op.new want avail c st) ss
    o.quiescent = true →
      o.main = .finished ∨ (o.main = .inCall ∧ o.cancelled = false ∧ o.avail = 0) := by
  exact Proofs.Ctx.inv_quiescent _ (Proofs.Ctx.inv_reach want avail c st ss)

/-- … and an operation (on a non-empty slice) that returns having transferred nothing returns the
    context's error: the only way to return without data is the cancellation. -/
theorem cancelled_error (want avail : Nat) (c st : Bool) (ss : List Step) (e : Err) (hw : 0 < want) :
    let o := run (Op.new want avail c st) ss
    o.result = some (0, e) → e = .ctx ∧ o.cancelled = true := by
  intro o hr
  have h := Proofs.Ctx.inv_result o (Proofs.Ctx.inv_reach want avail c st ss) 0 e hr
  rw [show o.want = want from Proofs.Ctx.reach_want want avail c st ss] at h
  exact h.2.2.2.2.2 hw rfl

/-- The next operation is not affected by the previous one: it starts exactly as an operation on a
    connection without deadline. -/
theorem next_starts_clean (want avail : Nat) (c st : Bool) (ss : List Step) (want' : Nat) (c' st' : Bool) :
    let o := run (Op.new want avail c st) ss
    o.main = .finished → Op.next o want' c' st' = Op.new want' o.avail c' st' := by
  intro o hf
  exact Proofs.Ctx.inv_next_clean o (Proofs.Ctx.inv_reach want avail c st ss) hf want' c' st'

/-- Conservation across any sequence of operations with any cancellations: if every operation of
    the session has returned, the bytes reported by all of them together equal what the connection
    held at the start plus everything that arrived, minus what it still holds. -/
theorem session_conserves (avail : Nat) (cs : List Call) (hne : cs ≠ [])
    (hfin : ∀ o ∈ session (start avail cs) cs, o.main = .finished) :
    reported (session (start avail cs) cs) + ((session (start avail cs) cs).getLast?.map (·.avail)).getD avail
      = avail + offered cs := by
  cases cs with
  | nil => exact absurd rfl hne
  | cons c cs => exact Proofs.Ctx.session_conserves_gen c.want avail c.cancelled c.stream (c :: cs) hne hfin

/-- … and no operation of such a session is timed out by a deadline left by an earlier one: an
    operation whose own context is live returns data and no error. -/
theorem session_live_ops_unaffected (avail : Nat) (cs : List Call)
    (hfin : ∀ o ∈ session (start avail cs) cs, o.main = .finished) :
    ∀ o ∈ session (start avail cs) cs, o.cancelled = false → 0 < o.want →
      ∃ n, 0 < n ∧ o.result = some (n, .nil) := by
  cases cs with
  | nil => intro o ho; simp [session] at ho
  | cons c cs =>
    intro o ho hc hw
    exact Proofs.Ctx.inv_live o (Proofs.Ctx.session_inv c.want avail c.cancelled c.stream (c :: cs) hfin o ho)
      (hfin o ho) hc hw

-- non-vacuity: cancellation while the caller is blocked: the watcher forces the deadline, the call
-- fails, the deadline is restored, the caller gets (0, context error)
example : (run (Op.new 4 0 false) [.main, .watcher, .watcher, .cancel, .main, .watcher, .main]).result = some (0, .ctx)
    ∧ (run (Op.new 4 0 false) [.main, .watcher, .watcher, .cancel, .main, .watcher, .main]).deadlineOld = false := by decide

-- non-vacuity: data arrives as the context fires and the call wins; the watcher then still forces the
-- deadline (Go picks ctx.Done() although `done` is closed too) and restores it: the bytes are reported, not the error
example : (run (Op.new 4 0 false) [.main, .watcher, .data 3, .cancel, .main, .watcherCtx, .main, .watcher]).result = some (3, .nil)
    ∧ (run (Op.new 4 0 false) [.main, .watcher, .data 3, .cancel, .main, .watcherCtx, .main, .watcher]).deadlineOld = false := by decide

-- non-vacuity: a stream write of 10 bytes, the peer takes 4, then the context fires: 4 bytes are reported
example : (run (Op.new 10 4 false true) [.main, .watcher, .watcher, .main, .cancel, .main, .watcher, .main]).result = some (4, .timeout)
    ∧ (run (Op.new 10 4 false true) [.main, .watcher, .watcher, .main, .cancel, .main, .watcher, .main]).deadlineOld = false := by decide

-- non-vacuity: a session of two operations, the first cancelled
example : ((session (start 0 [⟨4, false, [.main, .watcher, .watcher, .cancel, .main, .watcher, .main], false⟩, ⟨4, false, [.data 5, .main, .main, .watcher, .watcher, .main], false⟩])
    [⟨4, false, [.main, .watcher, .watcher, .cancel, .main, .watcher, .main], false⟩, ⟨4, false, [.data 5, .main, .main, .watcher, .watcher, .main], false⟩]).map (·.result))
    = [some (0, .ctx), some (4, .nil)] := by decide

end TV.Props.C17
