import TransportVerif.Model.BufferSync
import TransportVerif.Proofs.BufferSync
/-
C08 — packet buffer reads block only while empty and are always woken.
The statements below are FIXED; only the proofs may change.
-/
namespace TV.Props.C08
open TV TV.BufferSync

/-- states reachable from a buffer holding `pre` packets with any numbers of reader, writer and
    closer threads, under ANY schedule (any interleaving at the granularity of the lock and the wait) -/
def Reach (s : Sys) : Prop := ∃ pre r w c sched, s = run (Sys.init pre r w c) sched

/-- Main theorem: in every reachable state in which no thread can take a step any more (every
    thread has finished or is blocked in the wait), no reader is blocked while a packet is
    buffered, and none is blocked after Close. -/
theorem no_stranded_reader (s : Sys) (h : Reach s) (hq : s.quiescent = true) : s.stranded = false := by
  obtain ⟨pre, r, w, c, sched, rfl⟩ := h
  exact (Proofs.BufferSync.Inv_run (Proofs.BufferSync.Inv_init pre r w c) sched).not_stranded hq

/-- Close wakes all waiting readers, and no reader parks afterwards: in every reachable state with
    the buffer closed nobody is blocked in the wait. -/
theorem close_wakes_all (s : Sys) (h : Reach s) (hc : s.closed = true) : s.parked = [] := by
  obtain ⟨pre, r, w, c, sched, rfl⟩ := h
  exact (Proofs.BufferSync.Inv_run (Proofs.BufferSync.Inv_init pre r w c) sched).C hc

/-- a pending token means nobody is waiting for one (a send goes to a waiting receiver first) -/
theorem token_implies_nobody_parked (s : Sys) (h : Reach s) (ht : s.token = true) : s.parked = [] := by
  obtain ⟨pre, r, w, c, sched, rfl⟩ := h
  exact (Proofs.BufferSync.Inv_run (Proofs.BufferSync.Inv_init pre r w c) sched).K ht

/-- a Read that finds a packet returns it without waiting; after Close the remaining packets can
    still be read and then every Read reports end-of-file — for a reader at the lock in ANY state -/
theorem read_at_lock (s : Sys) (t : Nat) (h : s.ths[t]? = some { role := .reader, pc := .atLock }) :
    (s.count > 0 → (step s t).ths[t]? = some { role := .reader, pc := .done .got } ∧ (step s t).count = s.count - 1) ∧
    (s.count = 0 → s.closed = true → (step s t).ths[t]? = some { role := .reader, pc := .done .eof }) ∧
    (s.count = 0 → s.closed = false → (step s t).ths[t]? = some { role := .reader, pc := .atSelect }) := by
  exact Proofs.BufferSync.reader_at_lock s t h

/-- packets are conserved: buffered = initially there + written − read, in every reachable state -/
theorem count_conserved (pre r w c : Nat) (sched : List Nat) :
    (run (Sys.init pre r w c) sched).count +
      ((run (Sys.init pre r w c) sched).ths.filter (fun th => th.pc == .done .got)).length =
    pre + ((run (Sys.init pre r w c) sched).ths.filter (fun th => th.pc == .done .wrote)).length := by
  rw [← Proofs.BufferSync.got_eq, ← Proofs.BufferSync.wrote_eq]
  exact Proofs.BufferSync.conserved pre r w c sched

-- the pinned tree's lost wake-up (two readers in the window, two writes, one token) on the model
-- of the repaired code: the second reader finds the token passed on by the first
example : (run (Sys.init 0 2 2 0) [0, 1, 2, 3, 0, 1, 2, 3, 0, 0, 1, 1]).ths.map (·.pc)
    = [.done .got, .done .got, .done .wrote, .done .wrote] := by decide

end TV.Props.C08
