import TransportVerif.Model.BufferSync
namespace TV.Props.C08
theorem placeholder : True := trivial
end TV.Props.C08
