import TransportVerif.Model.Xor
import TransportVerif.Proofs.Xor
/-
C20 — XorBytes equals bytewise XOR over the common prefix for all lengths and overlaps.
The statements below are FIXED; only the proofs may change.
-/
namespace TV.Props.C20
open TV.Xor

/-- The word-wise implementation of xor_old.go meets the contract for all lengths and contents of
    the three slices and for the aliasing patterns none, dst == a, dst == b. -/
theorem xor_old_correct (m : Mem) (h : m.Wf) : xorBytesOld m = contract m := by
  exact TV.Proofs.Xor.xor_old_correct m h

/-- what the contract says, spelled out pointwise: the return value … -/
theorem contract_n (m m' : Mem) (n : Nat) (h : contract m = some (m', n)) :
    n = min m.a.length m.b.length := by
  exact (TV.Proofs.Xor.contract_some h).1

/-- … the XORed prefix … -/
theorem contract_prefix (m m' : Mem) (n : Nat) (h : contract m = some (m', n)) (i : Nat) (hi : i < n) :
    m'.dst[i]? = some (m.a.getD i 0 ^^^ m.b.getD i 0) := by
  obtain ⟨hn, _, hd, _, _⟩ := TV.Proofs.Xor.contract_some h
  rw [hd, TV.Proofs.Xor.contractDst_getElem? _ _ _ n hn, if_pos hi]

/-- … every other byte of dst unchanged, dst keeps its length … -/
theorem contract_frame_dst (m m' : Mem) (n : Nat) (h : contract m = some (m', n)) :
    m'.dst.length = m.dst.length ∧ ∀ i, n ≤ i → m'.dst[i]? = m.dst[i]? := by
  obtain ⟨hn, hl, hd, _, _⟩ := TV.Proofs.Xor.contract_some h
  refine ⟨?_, ?_⟩
  · rw [hd]
    simp only [List.length_append, List.length_zipWith, List.length_take, List.length_drop]
    omega
  · intro i hi
    rw [hd, TV.Proofs.Xor.contractDst_getElem? _ _ _ n hn, if_neg (by omega)]

/-- … and a, b unchanged unless they are dst itself. -/
theorem contract_frame_ab (m m' : Mem) (n : Nat) (h : contract m = some (m', n)) :
    (m.alias ≠ .dstA → m'.a = m.a) ∧ (m.alias ≠ .dstB → m'.b = m.b) ∧
    (m.alias = .dstA → m'.a = m'.dst) ∧ (m.alias = .dstB → m'.b = m'.dst) := by
  obtain ⟨_, _, _, ha, hb⟩ := TV.Proofs.Xor.contract_some h
  refine ⟨?_, ?_, ?_, ?_⟩
  · intro hA; rw [ha, if_neg hA]
  · intro hB; rw [hb, if_neg hB]
  · intro hA; rw [ha, if_pos hA]
  · intro hB; rw [hb, if_pos hB]

-- non-vacuity: unequal lengths, dst == a, a word and a tail
example : xorBytesOld { dst := [1,2,3,4,5,6,7,8,9,10,11], a := [1,2,3,4,5,6,7,8,9,10,11],
                        b := [255,255,255,255,255,255,255,255,255,255], alias := .dstA }
    = some ({ dst := [254,253,252,251,250,249,248,247,246,245,11], a := [254,253,252,251,250,249,248,247,246,245,11],
              b := [255,255,255,255,255,255,255,255,255,255], alias := .dstA }, 10) := by decide

end TV.Props.C20
