import TransportVerif.Model.Xor
namespace TV.Props.C20
theorem placeholder : True := trivial
end TV.Props.C20
