import TransportVerif.Model.Bridge
import TransportVerif.Model.DPipe
namespace TV.Props.C18
theorem placeholder : True := trivial
end TV.Props.C18
