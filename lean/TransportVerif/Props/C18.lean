import TransportVerif.Link.Pipe
import TransportVerif.Proofs.Pipe
/-
C18 — dpipe and Bridge preserve datagrams and apply exactly the scripted impairments.
The statements below are FIXED; only the proofs may change.
-/
namespace TV.Props.C18
open TV TV.PipeSpec TV.PipeLink

/-! ### Bridge: the code (two hand-duplicated directions, stack + inverse) is the script -/

/-- one step of the Bridge model is one step of the script on the abstracted lanes, with the same
    answer — for EVERY Bridge state (no invariant needed) and every operation, either direction -/
theorem bridge_step_refines (b : Bridge.Bridge) (op : Bridge.Op) :
    (absLane0 (Bridge.step b op).1, absLane1 (Bridge.step b op).1) = (specStep (absLane0 b, absLane1 b) op).1 ∧
    (Bridge.step b op).2 = (specStep (absLane0 b, absLane1 b) op).2 :=
  Proofs.Pipe.bridge_step_refines b op

/-- hence for every script (any length, both directions, every impairment call in any order) the
    Bridge answers exactly as the script semantics on lists -/
theorem bridge_refines_script (ops : List Bridge.Op) (b : Bridge.Bridge) :
    outsModel b ops = outsSpec (absLane0 b, absLane1 b) ops :=
  Proofs.Pipe.bridge_refines_script ops b

/-! ### what the script semantics guarantees (any lane, any script) -/

/-- Conservation: at every point, the written messages are exactly (as a multiset) the delivered
    ones, the discarded ones (by count, by filter, by Drop) and those still held (in flight or in an
    unfinished reorder block).  Nothing is lost otherwise, duplicated or invented. -/
theorem conservation (ops : List LaneOp) :
    (runG Lane.new Ghost.empty ops).2.written.Perm
      ((runG Lane.new Ghost.empty ops).2.delivered ++ (runG Lane.new Ghost.empty ops).2.discarded ++
       (runG Lane.new Ghost.empty ops).1.inflight ++ (runG Lane.new Ghost.empty ops).1.block) :=
  Proofs.Pipe.conservation ops

/-- no message is delivered twice: distinct writes give distinct deliveries -/
theorem no_dup (ops : List LaneOp) (h : (runG Lane.new Ghost.empty ops).2.written.Nodup) :
    (runG Lane.new Ghost.empty ops).2.delivered.Nodup :=
  Proofs.Pipe.no_dup ops h

/-- nothing is invented: whatever is delivered was written -/
theorem no_invention (ops : List LaneOp) (x : Msg)
    (h : x ∈ (runG Lane.new Ghost.empty ops).2.delivered) : x ∈ (runG Lane.new Ghost.empty ops).2.written :=
  Proofs.Pipe.no_invention ops x h

/-- with no impairment requested the lane is a FIFO: deliveries followed by what is in flight are
    the writes, in order -/
theorem fifo_when_unimpaired (ops : List LaneOp) (h : ∀ op ∈ ops, op.plain = true) :
    (runG Lane.new Ghost.empty ops).2.delivered ++ (runG Lane.new Ghost.empty ops).1.inflight =
    (runG Lane.new Ghost.empty ops).2.written :=
  Proofs.Pipe.fifo_when_unimpaired ops h

/-- a requested block of n ≥ 1 writes is released reversed, behind everything in flight -/
theorem reorder_block_reversed (l : Lane) (xs : List Msg) (hx : xs ≠ [])
    (hd : l.pendingDrop ≤ 0) (hb : l.block = []) :
    ((xs.foldl (fun (l : Lane) x => l.write x) { l with pendingReorder := xs.length }).inflight
      = l.inflight ++ xs.reverse) ∧
    (xs.foldl (fun (l : Lane) x => l.write x) { l with pendingReorder := xs.length }).block = [] :=
  Proofs.Pipe.reorder_block_reversed l xs hx hd hb

/-- a delivery hands over the oldest in-flight message, cut to the reader's slice -/
theorem deliver_is_head_cut (l : Lane) (x : Msg) (rest : List Msg) (n : Nat) (h : l.inflight = x :: rest) :
    (l.deliver n).2 = some (x.take n) ∧ (l.deliver n).1.inflight = rest :=
  Proofs.Pipe.deliver_is_head_cut l x rest n h

/-! ### dpipe -/

theorem dpipe_step_refines (p : DPipe.Pipe) (op : DPipe.Op) :
    absPipe (DPipe.step p op).1 = (specStepD (absPipe p) op).1 ∧ (DPipe.step p op).2 = (specStepD (absPipe p) op).2 :=
  Proofs.Pipe.dpipe_step_refines p op

/-- every history of writes, reads and closes on both ends answers as two bounded message FIFOs -/
theorem dpipe_is_message_fifo (ops : List DPipe.Op) (p : DPipe.Pipe) :
    outsModelD p ops = outsSpecD (absPipe p) ops :=
  Proofs.Pipe.dpipe_is_message_fifo ops p

/-- closing one end does not affect the other: the answer of a read or write at end `1-e` is the
    same whether or not end `e` has been closed -/
theorem dpipe_close_is_local (p : DPipe.Pipe) (e : Nat) (he : e = 0 ∨ e = 1) (x : Msg) (n : Nat) :
    ((p.close e).write (1 - e) x).2 = (p.write (1 - e) x).2 ∧
    ((p.close e).read (1 - e) n).2 = (p.read (1 - e) n).2 :=
  Proofs.Pipe.dpipe_close_is_local p e he x n

-- non-vacuity: ReorderNextNWrites used twice (the pinned tree delivered B A D C A B here)
example : outsModel Bridge.Bridge.new
    [.reorderNext 0 2, .write 0 [1], .write 0 [2], .reorderNext 0 2, .write 0 [3], .write 0 [4],
     .deliver 0 9, .deliver 0 9, .deliver 0 9, .deliver 0 9, .deliver 0 9]
  = [.unit, .unit, .unit, .unit, .unit, .unit, .delivered (some [2]), .delivered (some [1]),
     .delivered (some [4]), .delivered (some [3]), .delivered none] := by decide

end TV.Props.C18
