import TransportVerif.Model.HB
import TransportVerif.Proofs.HB
/-
C19 — lock discipline implies data-race freedom.  The statements below are FIXED; only the proofs may change.
-/
namespace TV.Props.C19
open TV TV.HB

/-- If an execution respects mutual exclusion and every access to a guarded location is made while
    holding the location's guard, then no guarded location is raced on: any two conflicting accesses
    by different threads are ordered by happens-before — for every execution, any number of
    threads, locks and locations. -/
theorem lockset_discipline_sound (guard : Loc → Option Lock) (tr : List Ev) (hwf : Wf tr)
    (hd : Disciplined guard tr) (x : Loc) (m : Lock) (hg : guard x = some m) : ¬ Race tr x := by
  rintro ⟨i, j, t, t', w, w', hij, hai, haj, hne, _, hnhb⟩
  apply hnhb
  have hi := hd i t x w m hai hg
  have hj := hd j t' x w' m haj hg
  unfold accessAt at hai haj
  have hjlen : j < tr.length := (List.getElem?_eq_some_iff.1 haj).1
  obtain ⟨r, a, hir, hra, haj', hr, ha⟩ :=
    Proofs.HB.handover_aux tr hwf m i t hi j t' (by omega) (by omega) hj hne
  have hir' : i ≠ r := by
    intro h
    subst h
    rw [hr] at hai
    cases w <;> simp at hai
  have h1 : HB tr i r :=
    Proofs.HB.hb_same_tid tr i r _ _ (by omega) hai hr (by cases w <;> rfl)
  have h2 : HB tr r a := .edge ⟨hra, _, _, hr, ha, Or.inr (Or.inl ⟨t, t', m, rfl, rfl⟩)⟩
  have h3 : HB tr a j :=
    Proofs.HB.hb_same_tid tr a j _ _ haj' ha haj (by cases w' <;> rfl)
  exact (h1.trans h2).trans h3

/-- the mechanism: if thread `t` holds `m` at position `i` and another thread `t'` holds it at a later
    position `j`, then `t` released it and `t'` acquired it in between, in that order -/
theorem handover (tr : List Ev) (hwf : Wf tr) (m : Lock) (i j : Nat) (t t' : Tid) (hij : i ≤ j) (hj : j ≤ tr.length)
    (hi : holder m (tr.take i) = some t) (hj' : holder m (tr.take j) = some t') (hne : t ≠ t') :
    ∃ r a, i ≤ r ∧ r < a ∧ a < j ∧ tr[r]? = some (.rel t m) ∧ tr[a]? = some (.acq t' m) := by
  exact Proofs.HB.handover_aux tr hwf m i t hi j t' hij hj hj' hne

/-- accesses by a goroutine started after the location was last written are ordered after that write
    (fields written only before the object is published to other goroutines) -/
theorem fork_orders (tr : List Ev) (i f j : Nat) (t c : Tid) (ei ej : Ev) (hif : i < f) (hfj : f < j)
    (h1 : tr[i]? = some ei) (ht : ei.tid = t) (h2 : tr[f]? = some (.fork t c)) (h3 : tr[j]? = some ej) (hc : ej.tid = c) :
    HB tr i j := by
  have e1 : HB tr i f := Proofs.HB.hb_same_tid tr i f _ _ hif h1 h2 (by simpa [Ev.tid] using ht)
  have e2 : HB tr f j := .edge ⟨hfj, _, _, h2, h3, Or.inr (Or.inr ⟨t, c, rfl, hc⟩)⟩
  exact e1.trans e2

-- non-vacuity: two threads incrementing a counter under a lock: well-formed, disciplined
example : Wf [.acq 1 0, .rd 1 7, .wr 1 7, .rel 1 0, .acq 2 0, .rd 2 7, .wr 2 7, .rel 2 0] := by
  simp [Wf, WfLocks, holder, holdStep]

example : Disciplined (fun x => if x = 7 then some 0 else none)
    [.acq 1 0, .rd 1 7, .wr 1 7, .rel 1 0, .acq 2 0, .rd 2 7, .wr 2 7, .rel 2 0] := by
  intro i t x w m ha hg
  have hi : i < 8 := by
    unfold accessAt at ha
    exact (List.getElem?_eq_some_iff.1 ha).1
  have : i = 0 ∨ i = 1 ∨ i = 2 ∨ i = 3 ∨ i = 4 ∨ i = 5 ∨ i = 6 ∨ i = 7 := by omega
  rcases this with rfl | rfl | rfl | rfl | rfl | rfl | rfl | rfl <;>
    cases w <;> simp [accessAt] at ha <;> (try (obtain ⟨rfl, rfl⟩ := ha)) <;> simp at hg <;> (try subst hg) <;>
    simp_all [holder, holdStep]

-- and without the lock the same accesses race
example : Race [.rd 1 7, .wr 1 7, .rd 2 7, .wr 2 7] 7 := by
  refine ⟨1, 2, 1, 2, true, false, by omega, rfl, rfl, by decide, Or.inl rfl, ?_⟩
  intro h
  have hns : ∀ (k : Nat) (e : Ev), ([.rd 1 7, .wr 1 7, .rd 2 7, .wr 2 7] : List Ev)[k]? = some e →
      (∃ t x, e = Ev.rd t x) ∨ (∃ t x, e = Ev.wr t x) := by
    intro k e hk
    have hlt : k < 4 := (List.getElem?_eq_some_iff.1 hk).1
    have : k = 0 ∨ k = 1 ∨ k = 2 ∨ k = 3 := by omega
    rcases this with rfl | rfl | rfl | rfl <;> simp at hk <;> subst hk <;> simp
  obtain ⟨ei, ej, h1, h2, h3⟩ := Proofs.HB.hb_same_thread_of_no_sync _ hns 1 2 h
  simp at h1 h2
  subst h1 h2
  simp [Ev.tid] at h3

end TV.Props.C19
