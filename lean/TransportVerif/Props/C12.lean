import TransportVerif.Link.ListenerLife
import TransportVerif.Proofs.ListenerLife
/-
C12 — the UDP listener's socket lives exactly as long as the listener or an accepted connection.
The statements below are FIXED; only the proofs may change.
-/
namespace TV.Props.C12
open TV TV.ListenerLife TV.LifeLink

/-- Main theorem (exact reference count).  For every scenario (connections already accepted,
    connections waiting in the backlog, any number of Accept callers, a listener Close, Closes of
    accepted connections, datagram arrivals) and EVERY interleaving at the yield points of Accept,
    listener Close and Conn.Close, the count that decides when the socket is closed equals: the
    listener's reference (until its Close drops it) + the connections waiting in the backlog + the
    connections handed to clients whose Close has not started.  In particular it never goes
    negative (no subtraction in the model underflows) and -/
theorem count_exact (accepted queued backlog : Nat) (roles : List Role) (ops : List Op)
    (hw : WfRoles accepted roles) :
    let s := run backlog (Sys.init accepted queued roles) ops
    s.wg = listenerRef s + s.acceptQ.length + openHeld accepted s := by
  exact Proofs.ListenerLife.count_of_inv (Proofs.ListenerLife.inv_reach ops hw)

/-- … the socket is closed exactly when that count is zero: never while the listener or a
    connection returned by Accept is still open, and as soon as the last of them is closed. -/
theorem socket_closed_iff (accepted queued backlog : Nat) (roles : List Role) (ops : List Op)
    (hw : WfRoles accepted roles) :
    let s := run backlog (Sys.init accepted queued roles) ops
    s.sockClosed = true ↔ (listenerRef s = 0 ∧ s.acceptQ.length = 0 ∧ openHeld accepted s = 0) := by
  exact Proofs.ListenerLife.sock_of_inv (Proofs.ListenerLife.inv_reach ops hw)

/-- closing the listener makes later Accept calls fail: with the listener's done channel closed
    and nothing queued, an Accept at its select returns an error -/
theorem accept_fails_after_close (s : Sys) (t : Nat) (h : s.ths[t]? = some { role := .acceptor, pc := .atSelect })
    (hd : s.doneClosed = true) (hq : s.acceptQ = []) :
    (step s t).ths[t]? = some { role := .acceptor, pc := .done .err } := by
  simp [step, h, hd, hq, Sys.setPc, List.getElem?_mapIdx]

/-- listener Close discards the connections nobody accepted, in any state in which it can take
    `connLock` (no arrival in flight; otherwise the step waits, see `lock_steps_wait`) -/
theorem unaccepted_discarded (s : Sys) (t : Nat) (h : s.ths[t]? = some { role := .lcloser, pc := .atLock })
    (hp : s.arrPending = false) :
    (step s t).acceptQ = [] ∧ ∀ c ∈ s.acceptQ, c ∉ (step s t).table := by
  simp only [step, h, hp, Bool.false_eq_true, if_false]
  have hc : ∀ x : Sys, x.cascade.acceptQ = x.acceptQ ∧ x.cascade.table = x.table := by
    intro x; rw [Proofs.ListenerLife.cascade_eq]; exact ⟨rfl, rfl⟩
  have hs : ∀ (x : Sys) (pc : Pc), (x.setPc t pc).acceptQ = x.acceptQ ∧ (x.setPc t pc).table = x.table :=
    fun _ _ => ⟨rfl, rfl⟩
  split <;> simp only [hs, hc] <;> refine ⟨trivial, ?_⟩ <;> intro c hm <;> simp [List.mem_filter, hm]

/-- once the listener Close has begun no new arrival is admitted: `getConn` refuses at its check … -/
theorem no_new_conn_after_close (s : Sys) (backlog : Nat) (h : s.accepting = false) :
    s.arriveBegin = s ∧ (s.arrPending = false → s.arrive backlog = s) := by
  have hb : s.arriveBegin = s := by simp [Sys.arriveBegin, h]
  refine ⟨hb, fun hp => ?_⟩
  simp [Sys.arrive, hb, Sys.arriveEnd, hp]

/-- … and an arrival that had passed the check when Close began (the read loop was inside `getConn`,
    holding `connLock`) is resolved before Close drains the backlog: in every reachable state in
    which the listener has dropped its reference, no arrival is in flight and nothing is queued —
    the connection such an arrival created was discarded like every other unaccepted one. -/
theorem inflight_arrival_discarded (s : Sys) (h : Reach s) (hl : listenerRef s = 0) :
    s.arrPending = false ∧ s.acceptQ = [] := by
  obtain ⟨accepted, queued, backlog, roles, ops, hw, rfl⟩ := h
  exact Proofs.ListenerLife.drained_of_inv (Proofs.ListenerLife.inv_reach ops hw) hl

/-- the lock discipline the model relies on: while an arrival is in flight, the steps that need
    `connLock` (the drain of listener Close, the unregistration of Conn.Close) do not happen -/
theorem lock_steps_wait (s : Sys) (t : Nat) (th : Th) (h : s.ths[t]? = some th) (hp : th.pc = .atLock)
    (ha : s.arrPending = true) : step s t = s := by
  cases th with | mk r p =>
  simp only at hp
  subst hp
  cases r <;> simp [step, h, ha]

/-- nobody stays blocked for ever in a Close: at a state where no thread can move, no thread is
    blocked waiting for the read loop (the socket has been closed by then) -/
theorem no_close_stuck (s : Sys) (h : Reach s) (hq : ∀ th ∈ s.ths, th.atYield = false) :
    ∀ th ∈ s.ths, th.pc ≠ .parkedWait := by
  obtain ⟨accepted, queued, backlog, roles, ops, hw, rfl⟩ := h
  exact Proofs.ListenerLife.stuck_of_inv (Proofs.ListenerLife.inv_reach ops hw) hq

-- the pinned tree's race on the repaired model: Accept takes the queued connection, Close runs
-- completely; the socket stays open until that connection is closed
example : (run 1 (Sys.init 0 1 [.acceptor, .lcloser]) [.grant 0, .grant 0, .grant 1, .grant 1]).sockClosed = false := by decide

-- an arrival in flight when Close begins: it is queued after `accepting` was cleared, and then discarded
-- by the drain; the socket is closed at the end
example : (run 4 (Sys.init 0 0 [.lcloser]) [.arriveBegin, .grant 0, .arriveEnd]).acceptQ = [0]
    ∧ (run 4 (Sys.init 0 0 [.lcloser]) [.arriveBegin, .grant 0, .arriveEnd, .grant 0]).acceptQ = []
    ∧ (run 4 (Sys.init 0 0 [.lcloser]) [.arriveBegin, .grant 0, .arriveEnd, .grant 0]).sockClosed = true := by decide

-- a connection accepted during the phase and closed by its client: with the listener still open the
-- socket stays open; once the listener is closed too it is closed
example : (run 4 (Sys.init 0 1 [.acceptor, .acloser 0]) [.grant 0, .grant 0, .grant 1, .grant 1]).sockClosed = false
    ∧ (run 4 (Sys.init 0 1 [.acceptor, .acloser 0, .lcloser]) [.grant 0, .grant 0, .grant 1, .grant 1, .grant 2, .grant 2, .grant 2]).sockClosed = true := by decide

end TV.Props.C12
