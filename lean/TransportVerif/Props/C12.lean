import TransportVerif.Model.ListenerLife
namespace TV.Props.C12
theorem placeholder : True := trivial
end TV.Props.C12
