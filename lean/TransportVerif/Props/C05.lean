import TransportVerif.Link.Replay
import TransportVerif.Proofs.Replay
import TransportVerif.Props.C04
/-
C05 — the detectors implement exactly the sliding-window rule; the accept callback's return
value; purity of Check.  The statements below are FIXED; only the proofs may change.
-/
namespace TV.Props.C05
open TV TV.Replay TV.ReplayLink TV.Props.C04

set_option linter.unusedVariables false in
/-- Main theorem (judgement form): every outcome equals the answer of the exact rule
`ReplaySpec.expectedOk / expectedLatest` evaluated on the recorded history, for every
configuration in C05's scope (`Cfg.inScope`; outside it `allowed05` admits everything) and every
history. -/
theorem judged05 (kind : Replay.Kind) (w m : Nat) (ops : List Replay.Op)
    (hm : m < two64) (hw : w < 2 ^ 63) (hops : OpsU64 ops) :
    ∀ o ∈ runNew kind w m ops,
      ReplaySpec.allowed05 (cfgOf kind w m) o.before (Op.num o.op) (Op.acc o.op) (specOut o.out) = true :=
  Proofs.Replay.run05 kind w m ops hw

/-- A check whose callback is not invoked leaves the detector unchanged … -/
theorem check_is_pure (d : Det) (s : Nat) : (Replay.step d (.check s)).1 = d :=
  Proofs.Replay.step_check_fst d s

/-- … hence it has no effect on any later answer. -/
theorem check_changes_no_later_answer (d : Det) (s : Nat) (ops : List Replay.Op) :
    outs (Replay.step d (.check s)).1 ops = outs d ops :=
  Proofs.Replay.outs_check d s ops

/-- a refused check+accept leaves the detector unchanged as well -/
theorem refused_is_pure (d : Det) (s : Nat) (h : (Replay.step d (.checkAccept s)).2 = .refused) :
    (Replay.step d (.checkAccept s)).1 = d :=
  Proofs.Replay.step_refused_fst d s h

-- non-vacuity: in-scope configurations exist and the rule has all three outcomes
example : (cfgOf .plain 64 1000).inScope = true ∧ (cfgOf .wrap 64 65535).inScope = true := by decide
example : outs (Det.new .plain 8 100) [.checkAccept 5, .checkAccept 0, .checkAccept 0, .check 20]
    = [.accepted true, .accepted false, .refused, .okNoAccept] := by decide

end TV.Props.C05
