import TransportVerif.Link.TBF
import TransportVerif.Proofs.TBF
/-
C15 — the token bucket filter never exceeds burst plus rate and keeps FIFO order.
All theorems are about the exact-arithmetic (Rat) instance of Model/TBF.lean; the IEEE-double
instance of the same definitions is what the correspondence check compares with the Go code.
The statements below are FIXED; only the proofs may change.
-/
namespace TV.Props.C15
open TV TV.TBF TV.TBFLink

/-- after every refill the bucket holds between 0 and maxBurst tokens -/
theorem refill_bounds (t : TBF Rat) (dt : Int) (h0 : 0 ≤ t.tokens) (hdt : 0 ≤ dt) (hr : 0 ≤ t.rate) (hb : 0 ≤ t.maxBurst) :
    0 ≤ (t.refill dt).tokens ∧ (t.refill dt).tokens ≤ t.maxBurst := by
  exact Proofs.TBF.refill_bounds t dt h0 hdt hr hb

/-- Main theorem (interval bound).  Take ANY state of the filter just after a refill (its
    `lastRefill` is the current time — true at every arrival — with `0 ≤ tokens ≤ Bmax`), and ANY
    continuation: first the drain that follows the refill (`.close` is exactly that drain), then
    any list of timed arrivals of any sizes, run-time rate and burst changes within [0,Rmax] /
    [0,Bmax], further drains.  The bytes forwarded over that whole interval are at most the tokens
    present at its start plus `Rmax` times its length: ≤ Bmax + Rmax·Δ/8 (Δ in ns, rates in bit/s).
    Every sub-interval of every run that starts at an arrival is of this form. -/
theorem interval_bound (r : R) (ops : List Op) (Rmax Bmax : Int)
    (hl : r.t.lastRefill = r.now) (h0 : 0 ≤ r.t.tokens) (hB : r.t.tokens ≤ Bmax)
    (hr : 0 ≤ r.t.rate ∧ r.t.rate ≤ Rmax) (hb : 0 ≤ r.t.maxBurst ∧ r.t.maxBurst ≤ Bmax)
    (hops : Bounded Rmax Bmax ops) :
    (bytes (forwards r (.close :: ops)) : Rat) ≤ r.t.tokens + (Rmax : Rat) * (elapsed ops : Rat) / 8000000000 ∧
    (bytes (forwards r (.close :: ops)) : Rat) ≤ (Bmax : Rat) + (Rmax : Rat) * (elapsed ops : Rat) / 8000000000 := by
  have hi : Proofs.TBF.Inv Rmax r := ⟨by omega, h0, hr.1, hr.2, hb.1⟩
  have hops' : Bounded Rmax Bmax (.close :: ops) := by
    rw [Proofs.TBF.bounded_cons]; exact ⟨trivial, hops⟩
  have h := Proofs.TBF.run_le Rmax Bmax (.close :: ops) r hi hops'
  rw [Proofs.TBF.pot_of_fresh Rmax r hl] at h
  have he : elapsed (.close :: ops) = elapsed ops := rfl
  rw [he] at h
  exact ⟨h, by grind⟩

/-- the whole run of a new filter: at most the initial 100 ms credit (capped by the burst) plus rate × time -/
theorem run_bound (rate burst queueMax : Int) (ops : List Op) (Rmax Bmax : Int)
    (hr : 0 ≤ rate ∧ rate ≤ Rmax) (hb : 0 ≤ burst ∧ burst ≤ Bmax) (hops : Bounded Rmax Bmax ops) :
    (bytes (forwards (fresh rate burst queueMax) ops) : Rat) ≤ (Bmax : Rat) + (Rmax : Rat) * (elapsed ops : Rat) / 8000000000 := by
  have hrb := Proofs.TBF.refill_bounds
    ({ tokens := 0, lastRefill := 0, rate := rate, maxBurst := burst, queue := [], queueBytes := 0,
       queueMax := queueMax } : TBF Rat) 100000000 (by simp) (by omega) hr.1 hb.1
  have ht : (fresh rate burst queueMax).t.tokens ≤ (burst : Rat) := hrb.2
  have h0 : 0 ≤ (fresh rate burst queueMax).t.tokens := hrb.1
  have hi : Proofs.TBF.Inv Rmax (fresh rate burst queueMax) :=
    ⟨Int.le_refl 0, h0, hr.1, hr.2, hb.1⟩
  have h := Proofs.TBF.run_le Rmax Bmax ops _ hi hops
  rw [Proofs.TBF.pot_of_fresh Rmax _ rfl] at h
  have hbB : (burst : Rat) ≤ (Bmax : Rat) := Rat.intCast_le_intCast.mpr hb.2
  grind

/-- what is forwarded is an in-order subsequence of the arrivals (plus whatever was already
    queued): no reordering, no duplicate, nothing invented, nothing modified -/
theorem forwarded_is_ordered_sublist (r : R) (ops : List Op) :
    (forwards r ops).Sublist (r.t.queue ++ arrivals ops) := by
  exact Proofs.TBF.forwards_sublist ops r

/-- conservation: queued-before plus arrivals = forwarded ++ still queued, except for arrivals
    refused because the byte queue was full — nothing else is ever discarded -/
theorem dropped_only_when_full (t : TBF Rat) (now : Int) (p : Pkt)
    (hq : ¬ (t.queueMax > 0 ∧ ((t.queueBytes + p.size : Nat) : Int) ≥ t.queueMax)) :
    (t.arrive now p).2 ++ (t.arrive now p).1.queue = t.queue ++ [p] := by
  simp only [TBF.arrive]
  rw [(Proofs.TBF.drain_spec _ _).queue]
  exact Proofs.TBF.push_queue_neg
    ({ t.refill (now - t.lastRefill) with lastRefill := now }) p hq

theorem full_queue_drops (t : TBF Rat) (now : Int) (p : Pkt)
    (hq : t.queueMax > 0 ∧ ((t.queueBytes + p.size : Nat) : Int) ≥ t.queueMax) :
    (t.arrive now p).2 ++ (t.arrive now p).1.queue = t.queue := by
  simp only [TBF.arrive]
  rw [(Proofs.TBF.drain_spec _ _).queue]
  exact Proofs.TBF.push_queue_pos
    ({ t.refill (now - t.lastRefill) with lastRefill := now }) p hq

-- non-vacuity: the hypotheses of `interval_bound` are met by every state right after an arrival's
-- refill; a concrete instance: a new filter (1 Mbit/s, burst 8000) is such a state
theorem fresh_meets_hypotheses :
    (fresh 1000000 8000 50000).t.lastRefill = (fresh 1000000 8000 50000).now ∧
    0 ≤ (fresh 1000000 8000 50000).t.tokens ∧ (fresh 1000000 8000 50000).t.tokens ≤ (8000 : Int) := by
  have hrb := Proofs.TBF.refill_bounds
    ({ tokens := 0, lastRefill := 0, rate := 1000000, maxBurst := 8000, queue := [], queueBytes := 0,
       queueMax := 50000 } : TBF Rat) 100000000 (by simp) (by omega) (by simp) (by simp)
  exact ⟨rfl, hrb.1, hrb.2⟩

end TV.Props.C15
