import TransportVerif.Model.TBF
namespace TV.Props.C15
theorem placeholder : True := trivial
end TV.Props.C15
