import TransportVerif.Model.Addressing
import TransportVerif.Spec.Addressing
namespace TV.Props.C13
theorem placeholder : True := trivial
end TV.Props.C13
