import TransportVerif.Link.Addressing
import TransportVerif.Proofs.Addressing
/-
C13 — vnet never hands out an IP or socket address that is already in use.
The statements below are FIXED; only the proofs may change.
-/
namespace TV.Props.C13
open TV TV.Addressing TV.AddressingLink TV.AddressingSpec
open TV.Proofs.Addressing

/-! ### router -/

/-- an automatically assigned address is never one that a NIC on the router already holds, and it
    lies inside the subnet — from ANY router state -/
theorem auto_never_taken (r : Router) (ip : Nat) (h : (r.addNIC []).2 = .ok [ip]) :
    ip ∉ r.nics ∧ r.contains ip = true :=
  auto_never_taken' r ip h

/-- every address registered for a NIC lies inside the subnet (otherwise an error is reported) -/
theorem assigned_in_subnet (r : Router) (st ips : List Nat) (h : (r.addNIC st).2 = .ok ips) :
    ∀ ip ∈ ips, r.contains ip = true :=
  assigned_in_subnet' r st ips h

/-- along any history of attachments (static lists and automatic ones in any order, any number of
    NICs) in which the user never supplies an address already held, no address is ever handed out twice -/
theorem no_address_twice (netIP bits : Nat) (hist : List (List Nat))
    (h : StaticsFresh (Router.new netIP bits) hist) : (assigned (Router.new netIP bits) hist).Nodup :=
  (assigned_nodup hist _ h).1

/-- exhaustion is reported only when every address of the automatic pool (host byte 1..254) is
    held or lies outside the subnet — addresses are never reused instead -/
theorem exhaustion_is_real (netIP bits : Nat) (hist : List (List Nat))
    (h : ((runRouter (Router.new netIP bits) hist).addNIC []).2 = .exhausted) :
    (absRouter (runRouter (Router.new netIP bits) hist)).exhaustedOk = true :=
  exhaustion_is_real' netIP bits hist h

/-! ### host socket table -/

/-- in every reachable host state no two open sockets conflict (same port and same IP, or a
    wildcard sharing its port with anything) -/
theorem open_sockets_never_conflict (r : HostRun) (hr : ReachHost r) :
    (absHost r.h).open_.Pairwise (fun a b => conflict a b = false) :=
  open_sockets_never_conflict' (reach_hwf hr)

/-- binding with an explicit port succeeds exactly when the IP belongs to the host (or is the
    wildcard) and no open socket covers the address; the socket is then open.

    THE ORIGINAL STATEMENT IS FALSE (kept verbatim here, refuted below), for two reasons:
    1. a host without any address refuses the wildcard bind (`hasIP 0 = !ips.isEmpty`), while the
       spec's `owns 0` is always true: `Host.new []`, `bind 0 80 0` gives `.cantAssign` although
       `bindOk 0 80 = true`;
    2. `pmSet` moves the entry of the port to the end of `portMap`, so the open list afterwards is
       a permutation of `open_ ++ [new]`, not equal to it: on `Host.new [1,2]` after
       `bind 1 80`, `bind 1 81` the bind `2 80` gives `[1:81, 1:80, 2:80]`, not `[1:80, 1:81, 2:80]`. -/
def bind_succeeds_iff_statement : Prop :=
  ∀ (r : HostRun) (_hr : ReachHost r) (ip port off : Nat) (_hp : port ≠ 0),
    ((∃ s, (r.h.bind ip port off).2 = .ok s) ↔ (absHost r.h).bindOk ip port = true) ∧
    (∀ s, (r.h.bind ip port off).2 = .ok s → s.ip = ip ∧ s.port = port ∧
       (absHost (r.h.bind ip port off).1).open_ = (absHost r.h).open_ ++ [{ ip := ip, port := port }])

/-- counterexample 1 (host without addresses, wildcard bind) -/
theorem bind_succeeds_iff_statement_false_noaddr : ¬ bind_succeeds_iff_statement := by
  intro hst
  have h := (hst { h := Host.new [], created := [] } ⟨[], [], rfl⟩ 0 80 0 (by decide)).1
  have hb : (absHost (Host.new [])).bindOk 0 80 = true := by decide
  obtain ⟨s, hs⟩ := h.mpr hb
  have hc : (Host.bind (Host.new []) 0 80 0).2 = .cantAssign := by decide
  rw [show (({ h := Host.new [], created := [] } : HostRun).h.bind 0 80 0).2 = .cantAssign from hc] at hs
  cases hs

/-- counterexample 2 (order of the open list), on a host that has addresses -/
theorem bind_succeeds_iff_statement_false_order : ¬ bind_succeeds_iff_statement := by
  intro hst
  have h := (hst (({ h := Host.new [1, 2], created := [] } : HostRun).run [.bind 1 80 0, .bind 1 81 0])
    ⟨[1, 2], _, rfl⟩ 2 80 0 (by decide)).2 { id := 2, ip := 2, port := 80 } (by decide)
  revert h
  decide

/-- The closest true variant. CHANGES with respect to `bind_succeeds_iff_statement`:
    * ADDED HYPOTHESIS `hne : ip = 0 → r.h.ips ≠ []` (a wildcard bind needs a host that has at
      least one address; see counterexample 1);
    * the final list equality `=` is weakened to `List.Perm` (see counterexample 2). -/
theorem bind_succeeds_iff (r : HostRun) (hr : ReachHost r) (ip port off : Nat) (hp : port ≠ 0)
    (hne : ip = 0 → r.h.ips ≠ []) /- ADDED hypothesis -/ :
    ((∃ s, (r.h.bind ip port off).2 = .ok s) ↔ (absHost r.h).bindOk ip port = true) ∧
    (∀ s, (r.h.bind ip port off).2 = .ok s → s.ip = ip ∧ s.port = port ∧
       ((absHost (r.h.bind ip port off).1).open_).Perm /- was `=` -/
         ((absHost r.h).open_ ++ [{ ip := ip, port := port }])) :=
  bind_succeeds_iff' (reach_hwf hr) ip port off hp hne

/-- port 0: for every random offset, the chosen port lies in 5000..5999 and is free for this IP;
    the search fails exactly when no port of the range is free -/
theorem ephemeral_in_range_and_free (r : HostRun) (hr : ReachHost r) (ip off : Nat)
    (hown : (absHost r.h).owns ip = true) (hh : ip = 0 ∨ ip ∈ r.h.ips) :
    (∀ s, (r.h.bind ip 0 off).2 = .ok s → s.ip = ip ∧ s.port ∈ (absHost r.h).freePorts ip) ∧
    ((r.h.bind ip 0 off).2 = .exhausted ↔ (absHost r.h).freePorts ip = []) := by
  have _ := hown   -- implied by `hh`; not needed
  exact ephemeral' (reach_hwf hr) ip off hh

/-- a bind to an address the host does not own is refused -/
theorem foreign_ip_refused (h : Host) (ip port off : Nat) (hne : ip ≠ 0) (hno : ip ∉ h.ips) :
    (h.bind ip port off).2 = .cantAssign := by
  have : h.hasIP ip = false := by simp [Host.hasIP, hne, hno]
  simp [Host.bind, this]

/-- closing an open socket frees exactly its address.

    THE ORIGINAL STATEMENT IS FALSE (kept verbatim here, refuted below): when other sockets stay on
    the port, `pmSet` moves the entry of the port to the end of `portMap`, so the open list
    afterwards is a permutation of the erased list, not equal to it. On `Host.new [1,2]` after
    `bind 1 80`, `bind 2 80`, `bind 1 81`, closing `1:80` gives `[1:81, 2:80]`, while
    `erase` gives `[2:80, 1:81]`. -/
def close_frees_statement : Prop :=
  ∀ (r : HostRun) (_hr : ReachHost r) (s : Sock) (_hs : s ∈ openSocks r.h) (_hc : s.id ∉ r.h.closed),
    (absHost (r.h.close s)).open_ = (absHost r.h).open_.erase { ip := s.ip, port := s.port }

theorem close_frees_statement_false : ¬ close_frees_statement := by
  intro hst
  have h := hst (({ h := Host.new [1, 2], created := [] } : HostRun).run
      [.bind 1 80 0, .bind 2 80 0, .bind 1 81 0])
    ⟨[1, 2], _, rfl⟩ { id := 0, ip := 1, port := 80 } (by decide) (by decide)
  revert h
  decide

/-- The closest true variant. CHANGE with respect to `close_frees_statement`: the list equality `=`
    is weakened to `List.Perm`; no hypothesis was added. -/
theorem close_frees (r : HostRun) (hr : ReachHost r) (s : Sock) (hs : s ∈ openSocks r.h)
    (hc : s.id ∉ r.h.closed) :
    ((absHost (r.h.close s)).open_).Perm /- was `=` -/
      ((absHost r.h).open_.erase { ip := s.ip, port := s.port }) :=
  close_frees' (reach_hwf hr) s hs hc

/-- an inbound datagram for `ip:port` (ip ≠ 0) is handed to the open socket that covers it, and
    to none when no socket covers it -/
theorem find_returns_the_covering_socket (r : HostRun) (hr : ReachHost r) (ip port : Nat) (hip : ip ≠ 0) :
    (absHost r.h).covering ip port = ((r.h.find ip port).map (fun s => ({ ip := s.ip, port := s.port } : SockS))).toList :=
  find_returns_the_covering_socket' (reach_hwf hr) ip port hip

-- non-vacuity: the pinned tree's failing history (static .1, then automatic) now yields .2
example : assigned (Router.new 0x0A000000 24) [[0x0A000001], []] = [0x0A000001, 0x0A000002] := by decide
example : StaticsFresh (Router.new 0x0A000000 24) [[0x0A000001], []] := by
  simp [StaticsFresh, Router.new]

end TV.Props.C13
