import TransportVerif.Link.Ring
import TransportVerif.Proofs.Ring
/-
C06 — the packet buffer returns every written packet exactly once, intact, in write order.
The statements below are FIXED; only the proofs may change.
-/
namespace TV.Props.C06
open TV TV.Ring TV.RingLink

/-- Main theorem: for every build variant and EVERY operation list (writes of any content and
length, reads into destinations of any length, limit changes, close), the ring model — head/tail
arithmetic, 2-byte headers, wrap at the ring end, growth with linearisation — produces exactly the
observations of the FIFO-of-packets spec: same results (including the bytes returned by every
read, the short-buffer case, end-of-file) and the same Count and Size after every operation. -/
theorem ring_refines_fifo (hard : Bool) (ops : List Ring.Op) :
    obsModel (Ring.new hard) ops = obsSpec hard RingSpec.Fifo.new ops :=
  Proofs.Ring.obs_refine ops (Ring.new hard) RingSpec.Fifo.new (Proofs.Ring.inv_new hard)

/-- Packets of 65536 bytes or more and writes after Close are refused and leave the buffer
    (contents, geometry, count) unchanged — for any ring state whatsoever. -/
theorem refused_tooBig_or_closed_is_noop (r : Ring.Ring) (p : List UInt8)
    (h : (r.write p).2 = .tooBig ∨ (r.write p).2 = .closedPipe) : (r.write p).1 = r := by
  unfold Ring.write at h ⊢
  split
  · rfl
  · split
    · rfl
    · rename_i h1 h2
      rw [if_neg h1, if_neg h2] at h
      split
      · rfl
      · rename_i h3
        rw [if_neg h3] at h
        split at h <;> simp at h

theorem tooBig_iff (r : Ring.Ring) (p : List UInt8) : (r.write p).2 = .tooBig ↔ 65536 ≤ p.length := by
  unfold Ring.write
  by_cases h1 : p.length ≥ Ring.maxPacket
  · rw [if_pos h1]
    exact ⟨fun _ => h1, fun _ => rfl⟩
  · rw [if_neg h1]
    constructor
    · intro h
      split at h
      · simp at h
      · split at h
        · simp at h
        · split at h <;> simp at h
    · intro h
      exact absurd h h1

-- non-vacuity: the statement has no hypotheses; a concrete instance (kept as a `theorem` so it
-- can be proved by unfolding — `growUntil` is defined by well-founded recursion, which `decide`
-- does not reduce)
theorem example_run :
    obsModel (Ring.new false) [.write [1, 2, 3], .read 2, .read 10, .close, .read 1]
    = obsSpec false RingSpec.Fifo.new [.write [1, 2, 3], .read 2, .read 10, .close, .read 1] :=
  ring_refines_fifo false _

end TV.Props.C06
