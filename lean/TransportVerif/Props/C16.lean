import TransportVerif.Model.Loss
/-
C16 — the loss filter drops by the configured probability and alters nothing else.
The probabilistic clause is split as the design says: the filter turns each draw into a decision
(`forward`), and of the 100 equally likely draws exactly `clamp chance 0 100` are dropped; that
`math/rand` draws uniformly is trusted.
-/
namespace TV.Props.C16
open TV.Loss

/-- chance ≤ 0 forwards every datagram, in order, unchanged -/
theorem chance_le_0_forwards_all {α : Type} (chance : Int) (h : chance ≤ 0) (xs : List (Nat × α)) :
    run chance xs = xs.map Prod.snd := by
  induction xs with
  | nil => rfl
  | cons x rest ih =>
    obtain ⟨d, a⟩ := x
    have : forward chance d = true := by unfold forward; simp; omega
    simp [run, this, ih]

/-- chance ≥ 100 forwards nothing (draws are below 100) -/
theorem chance_ge_100_forwards_none {α : Type} (chance : Int) (h : 100 ≤ chance) (xs : List (Nat × α))
    (hd : ∀ x ∈ xs, x.1 < 100) : run chance xs = [] := by
  induction xs with
  | nil => rfl
  | cons x rest ih =>
    obtain ⟨d, a⟩ := x
    have hd1 : d < 100 := hd (d, a) (by simp)
    have : forward chance d = false := by unfold forward; simp; omega
    simp only [run, this]
    exact ih (fun y hy => hd y (by simp [hy]))

/-- whatever is forwarded is an in-order subsequence of what arrived: nothing is duplicated,
    reordered, invented or modified (the elements are the arriving datagrams themselves) -/
theorem forwarded_is_ordered_sublist {α : Type} (chance : Int) (xs : List (Nat × α)) :
    (run chance xs).Sublist (xs.map Prod.snd) := by
  induction xs with
  | nil => exact List.Sublist.slnil
  | cons x rest ih =>
    obtain ⟨d, a⟩ := x
    simp only [run, List.map_cons]
    split
    · exact List.Sublist.cons_cons a ih
    · exact List.Sublist.cons a ih

theorem count_lt (n k : Nat) : ((List.range n).filter (fun d => decide (d < k))).length = min k n := by
  induction n with
  | zero => simp
  | succ n ih =>
    rw [List.range_succ, List.filter_append, List.length_append, ih]
    by_cases h : n < k <;> simp [h] <;> omega

/-- of the 100 equally likely draws exactly `chance` (clamped to 0..100) are dropped: the dropped
    fraction of a long stream is chance/100 for a uniform source -/
theorem dropped_draws (chance : Int) :
    ((List.range 100).filter (fun d => !forward chance d)).length = (min (max chance 0) 100).toNat := by
  have key : ∀ d : Nat, (!forward chance d) = decide (d < chance.toNat) := by
    intro d; unfold forward; simp
  simp only [key]
  rw [count_lt]
  omega

-- non-vacuity / concrete instance: chance 30, draws 29 and 30 sit on the two sides of the threshold
example : run 30 [(29, "a"), (30, "b"), (99, "c"), (0, "d")] = ["b", "c"] := by decide

end TV.Props.C16
