import TransportVerif.Model.Nat
import TransportVerif.Spec.Nat
namespace TV.Props.C02
theorem placeholder : True := trivial
end TV.Props.C02
