import TransportVerif.Link.Nat
import TransportVerif.Proofs.Nat
/-
C02 — NAT address mapping follows the configured RFC 4787 mapping behaviour.
C03's judgement is proved by the same run theorem and re-exported in Props/C03.lean.
The statements below are FIXED; only the proofs may change.
-/
namespace TV.Props.C02
open TV TV.Nat TV.NatLink

/-- the addresses of a call are UDP addresses: both ports fit in 16 bits.  `Addr.port` is an unbounded
    natural in the model; a port above 65535 cannot occur in a datagram. -/
def portsOk : Op → Prop
  | .out a b => a.port ≤ 65535 ∧ b.port ≤ 65535
  | .inb a b => a.port ≤ 65535 ∧ b.port ≤ 65535
  | .adv _ => True

/-- Main theorem: for every NAT the constructor accepts (all 3×3 behaviours, any lifetime ≥ 0, at
    least one mapped IP in NAPT mode, 1:1 mode with k pairs) and EVERY history of outbound and
    inbound datagrams and time steps — of any length, including more allocations than there are
    ports — every answer of the model is admitted by the judgements of Spec/Nat.lean evaluated
    on the recorded history: same endpoint and agreeing destination while alive ⇒ the same external
    address; otherwise a fresh one on the router's IP with a port in 49152..65535 that no live
    mapping holds (or a refusal once the range is used up); inbound forwarded exactly when a live
    mapping owns the address and its owner has sent to a matching remote, and then to the owner.

    `hports` (all ports of the calls ≤ 65535) is necessary: without it the statement is false.  The
    model keeps the mapping of a refused allocation (port 65536 and up, answer `.badPort`) in both
    maps, so an inbound call to the impossible address `⟨mapped IP, 65536⟩` is forwarded, while the
    recorder holds no entry for a refused allocation.  Counterexample (checked with `#eval`, 13 min):
    `NAT.new false .indep .indep 30000 [0x1B010101] []`, 16385 calls `.out ⟨0x0A000002, i⟩ ⟨0x05060708, 80⟩`
    for `i = 0 … 16384`, then `.inb ⟨0x05060708, 80⟩ ⟨0x1B010101, 65536⟩`: the answer is
    `.ok ⟨0x0A000002, 16384⟩` and `Obs.ok` of observation 16385 is `false`.
    Only the destination ports of the inbound calls are used by the proof (`Proofs.Nat.judged`). -/
theorem judged (mode : Bool) (mb fb : Dep) (lt : Int) (mapped loc : List Nat) (n : NAT) (ops : List Op)
    (hn : NAT.new mode mb fb lt mapped loc = some n) (hlt : 0 ≤ lt) (hm : mode = false → mapped ≠ [])
    (hports : ∀ op ∈ ops, portsOk op) :
    ∀ o ∈ runNew n ops, o.ok (cfgOf n) = true :=
  Proofs.Nat.judged mode mb fb lt mapped loc n ops hn hlt hm (fun a b h => (hports (.inb a b) h).2)

/-- every external address handed out in NAPT mode is the router's first mapped IP with a port in
    the dynamic range 49152..65535 — in every reachable state, for every history length -/
theorem ext_valid (mb fb : Dep) (lt : Int) (mapped loc : List Nat) (n : NAT) (ops : List Op)
    (hn : NAT.new false mb fb lt mapped loc = some n) (src dst a : Addr)
    (h : ((runState (n, 0) ops).1.translateOutbound (runState (n, 0) ops).2 src dst).2 = .ok a) :
    mapped.head? = some a.ip ∧ 49152 ≤ a.port ∧ a.port ≤ 65535 :=
  Proofs.Nat.ext_valid mb fb lt mapped loc n ops hn src dst a h

/-- the external ports of the mappings held at any time are pairwise different (both maps) -/
theorem ext_injective (mode : Bool) (mb fb : Dep) (lt : Int) (mapped loc : List Nat) (n : NAT) (ops : List Op)
    (hn : NAT.new mode mb fb lt mapped loc = some n) :
    let s := runState (n, 0) ops
    (s.1.inbound.map (fun e => e.2.mappedPort)).Nodup ∧ (s.1.outbound.map (fun e => e.2.mappedPort)).Nodup :=
  Proofs.Nat.ext_injective mode mb fb lt mapped loc n ops hn

/-- 1:1 mode: the paired IP is rewritten, the port preserved, unpaired sources dropped — any state -/
theorem one_to_one_outbound (n : NAT) (now : Int) (src dst : Addr) (h1 : n.one2one = true) :
    (n.translateOutbound now src dst) =
      (n, match paired n.localIPs n.mappedIPs src.ip with
          | some ip => .ok { ip := ip, port := src.port }
          | none => .drop) :=
  Proofs.Nat.one_to_one_outbound n now src dst h1

-- non-vacuity: a symmetric NAT gives one endpoint two different external addresses for two remotes
example : (NAT.new false .addrPort .addrPort 30000 [0x1B010101] []).map (fun n => outs (n, 0)
    [.out ⟨0x0A000002, 5000⟩ ⟨0x05060708, 80⟩, .out ⟨0x0A000002, 5000⟩ ⟨0x05060708, 81⟩, .out ⟨0x0A000002, 5000⟩ ⟨0x05060708, 80⟩])
  = some [.o (.ok ⟨0x1B010101, 49152⟩), .o (.ok ⟨0x1B010101, 49153⟩), .o (.ok ⟨0x1B010101, 49152⟩)] := by decide

end TV.Props.C02
