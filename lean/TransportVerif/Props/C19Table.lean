import TransportVerif.Generated.Lockset
/-
C19, the per-code-base obligation: the table of accesses to guarded fields, REGENERATED from /repo's
working tree on every run by harness/tools/lockset, satisfies the lock discipline that
`Props.C19.lockset_discipline_sound` turns into data-race freedom.  The statement is FIXED; the table
it is about is whatever the code says now.
-/
namespace TV.Props.C19Table
open TV.Gen.Lockset

/-- every access holds its guard (a guard held through sync/atomic is listed as held) -/
def disciplined (t : List Access) : Bool := t.all (fun a => a.held.contains a.guard)

theorem table_disciplined : disciplined table = true := by decide +kernel

/-- the table is not empty and has the size the generator announced -/
theorem table_complete : table.length = size ∧ 0 < size := by decide +kernel

end TV.Props.C19Table
