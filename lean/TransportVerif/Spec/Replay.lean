/-
Spec of the replay detectors, written from properties C04 and C05 (not from the code).

The spec is a *history recorder* plus judgements.  The recorder `Hist` remembers which numbers
were accepted, which is the newest, and (for the wrapping detector) how far the newest accepted
number has travelled since each acceptance.  It is advanced by the *observed* outcome of every
operation.  `mustRefuse` is C04's judgement; `expected` is C05's exact rule (`none` = the rule
leaves this point unconstrained).
-/
namespace TV.ReplaySpec

inductive Kind | plain | wrap
deriving Repr, DecidableEq

structure Cfg where
  kind : Kind
  window : Nat
  max : Nat
deriving Repr, DecidableEq

/-- size of the sequence space of the wrapping detector -/
def Cfg.M (c : Cfg) : Nat := c.max + 1

structure Hist where
  /-- has any number been accepted yet -/
  started : Bool
  /-- newest accepted number (plain: 0 before the first acceptance) -/
  latest : Nat
  /-- accepted numbers with the distance the newest number has moved ahead of them since -/
  acc : List (Nat × Nat)
deriving Repr, DecidableEq

def Hist.empty : Hist := { started := false, latest := 0, acc := [] }

inductive Out
  | refused
  | okNoAccept
  | accepted (latest : Bool)
  | panic
deriving Repr, DecidableEq

def ahead (c : Cfg) (h : Hist) (x : Nat) : Nat := (x + c.M - h.latest % c.M) % c.M
def behind (c : Cfg) (h : Hist) (x : Nat) : Nat := (h.latest + c.M - x % c.M) % c.M

/-- wrapping order: strictly ahead by less than half the space -/
def newerW (c : Cfg) (h : Hist) (x : Nat) : Bool := 0 < ahead c h x && 2 * ahead c h x < c.M

/-- record an observed acceptance of `x`; `flag` is what the accept callback returned -/
def Hist.record (c : Cfg) (h : Hist) (x : Nat) (flag : Bool) : Hist :=
  match c.kind with
  | .plain =>
    if h.latest < x then
      { started := true, latest := x, acc := (x, 0) :: h.acc.map (fun e => (e.1, e.2 + (x - h.latest))) }
    else { h with started := true, acc := (x, h.latest - x) :: h.acc }
  | .wrap =>
    if !h.started then { started := true, latest := x, acc := [(x, 0)] }
    else if flag then
      { h with latest := x, acc := (x, 0) :: h.acc.map (fun e => (e.1, e.2 + ahead c h x)) }
    else { h with acc := (x, behind c h x) :: h.acc }

/-- advance the history by an observed outcome -/
def Hist.step (c : Cfg) (h : Hist) (x : Nat) : Out → Hist
  | .accepted flag => h.record c x flag
  | _ => h

/-- C04: `x` must be refused — it is above the maximum, or it was accepted before and (wrapping
    detector) the newest accepted number is less than half the space ahead of that acceptance.
    The wrapping detector works in signed 64-bit arithmetic; its maxima are taken below 2^62 as
    in C05's quantifier (C04 lists 2^64-1 for the plain detector only). -/
def mustRefuse (c : Cfg) (h : Hist) (x : Nat) : Bool :=
  c.max < x ||
  match c.kind with
  | .plain => h.acc.any (fun e => e.1 == x)
  | .wrap => c.max < 2 ^ 62 && h.acc.any (fun e => e.1 == x && 2 * e.2 < c.M)

/-- the configurations C05 quantifies over -/
def Cfg.inScope (c : Cfg) : Bool :=
  match c.kind with
  | .plain => c.window ≤ c.max
  | .wrap => 2 * c.window ≤ c.max + 1 && c.max < 2 ^ 62

/-- C05 leaves the two numbers nearest the half-space boundary unconstrained -/
def nearBoundary (c : Cfg) (h : Hist) (x : Nat) : Bool :=
  let a := ahead c h x
  a == (c.M + 1) / 2 - 1 || a == (c.M + 1) / 2

/-- C05: the exact answer of `Check` (`none`: unconstrained) -/
def expectedOk (c : Cfg) (h : Hist) (x : Nat) : Option Bool :=
  if !c.inScope then none else
  match c.kind with
  | .plain =>
    some (x ≤ c.max && !(h.acc.any (fun e => e.1 == x)) && (h.latest < x || h.latest - x < c.window))
  | .wrap =>
    if c.max < x then some false
    else if !h.started then
      -- first use: the window is positioned just behind this number, i.e. the number is one
      -- ahead; in a space of at most 4 numbers "one ahead" is nearest the half-space boundary
      (if c.M ≤ 4 then none else some true)
    else if nearBoundary c h x then none
    else some (newerW c h x ||
               (behind c h x < c.window && !(h.acc.any (fun e => e.1 == x && e.2 < c.window))))

/-- C05: the value the accept callback must return (`none`: unconstrained) -/
def expectedLatest (c : Cfg) (h : Hist) (x : Nat) : Option Bool :=
  if !c.inScope then none else
  match c.kind with
  | .plain => some (h.latest < x || !h.started)
  | .wrap =>
    if !h.started then (if c.M ≤ 4 then none else some true)
    else if nearBoundary c h x then none
    else some (newerW c h x)

/-- C05 judgement of an observed outcome of `check x` / `checkAccept x` -/
def allowed05 (c : Cfg) (h : Hist) (x : Nat) (accept : Bool) (o : Out) : Bool :=
  match expectedOk c h x, o with
  | none, .panic => false
  | none, _ => true
  | some false, .refused => true
  | some false, _ => false
  | some true, .okNoAccept => !accept
  | some true, .accepted f => accept && (match expectedLatest c h x with | none => true | some e => e == f)
  | some true, _ => false

/-- C04 judgement -/
def allowed04 (c : Cfg) (h : Hist) (x : Nat) (o : Out) : Bool :=
  match o with
  | .panic => false
  | .refused => true
  | _ => !mustRefuse c h x

end TV.ReplaySpec
