/-
Spec of the UDP listener's demultiplexing (C11), from the property text: every remote address has
at most one open connection; a datagram goes to the open connection of its sender, or creates one
(when the listener accepts, the filter admits it and the backlog has room), or is discarded.
-/
namespace TV.ListenerSpec

abbrev Msg := List UInt8

structure Conn where
  id : Nat
  remote : Nat
  inbox : List Msg       -- delivered, not yet read
  open_ : Bool
deriving Repr, DecidableEq

structure S where
  backlog : Nat
  filter : Option (Nat × Nat)
  listening : Bool
  conns : List Conn              -- every connection created so far
  waiting : List Nat             -- created, not yet returned by Accept (oldest first)
deriving Repr, DecidableEq

def S.new (backlog : Nat) (filter : Option (Nat × Nat)) : S :=
  { backlog := if backlog = 0 then 128 else backlog, filter, listening := true, conns := [], waiting := [] }

def admits (flt : Option (Nat × Nat)) (p : Msg) : Bool :=
  match flt with | none => true | some (m, r) => !((p.headD 0).toNat % m == r)

/-- the open connection of a remote, if any -/
def S.openFor (s : S) (remote : Nat) : Option Conn := s.conns.find? (fun c => c.remote = remote ∧ c.open_)

def S.arrive (s : S) (remote : Nat) (p : Msg) : S :=
  match s.openFor remote with
  | some c => { s with conns := s.conns.map (fun x => if x.id = c.id then { x with inbox := x.inbox ++ [p] } else x) }
  | none =>
    if s.listening ∧ admits s.filter p ∧ s.waiting.length < s.backlog then
      let id := s.conns.length
      { s with conns := s.conns ++ [{ id := id, remote := remote, inbox := [p], open_ := true }], waiting := s.waiting ++ [id] }
    else s

inductive AcceptRes | conn (id : Nat) | closedListener | wouldBlock
deriving Repr, DecidableEq
inductive ReadRes | data (p : Msg) | eof | wouldBlock | noSuchConn
deriving Repr, DecidableEq

def S.accept (s : S) : S × AcceptRes :=
  match s.waiting with
  | id :: rest => ({ s with waiting := rest }, .conn id)
  | [] => (s, if s.listening then .wouldBlock else .closedListener)

def S.read (s : S) (id n : Nat) : S × ReadRes :=
  match s.conns.find? (fun c => c.id = id) with
  | none => (s, .noSuchConn)
  | some c =>
    match c.inbox with
    | p :: rest => ({ s with conns := s.conns.map (fun x => if x.id = id then { x with inbox := rest } else x) }, .data (p.take n))
    | [] => (s, if c.open_ then .wouldBlock else .eof)

def S.connClose (s : S) (id : Nat) : S :=
  { s with conns := s.conns.map (fun x => if x.id = id then { x with open_ := false } else x) }

/-- closing the listener: later Accepts fail, connections nobody accepted are discarded -/
def S.close (s : S) : S :=
  { s with listening := false, waiting := [],
           conns := s.conns.map (fun x => if s.waiting.contains x.id then { x with open_ := false } else x) }

end TV.ListenerSpec
