/-
Spec of `deadline.Deadline` (C09) from the property text, as judgements over what a client
observes after every step of a history of Set calls, clock advances, timer expiries dispatched by
the runtime and (possibly delayed) callback executions.
-/
namespace TV.DeadlineSpec

/-- the environment as the property describes it -/
structure Hist where
  lastSet : Option Int        -- argument of the most recent Set (`none`: zero time, or no Set yet)
  now : Int
  pendingExpiry : Option Int  -- an expiry the runtime still has to dispatch (set by a Set in the future)
  outstanding : Nat           -- dispatched expiries whose callback has not run yet
deriving Repr, DecidableEq

def Hist.empty : Hist := { lastSet := none, now := 0, pendingExpiry := none, outstanding := 0 }

structure Obs where
  closed : Bool
  gen : Nat
  errExceeded : Bool
  deadline : Option Int
deriving Repr, DecidableEq

/-- the most recent Set gave a non-zero time that has passed -/
def Hist.passed (h : Hist) : Bool := match h.lastSet with | some t => decide (t ≤ h.now) | none => false

/-- nothing is in flight: every due expiry has been dispatched and every dispatched callback has run -/
def Hist.settled (h : Hist) : Bool :=
  h.outstanding == 0 && (match h.pendingExpiry with | some t => decide (h.now < t) | none => true)

/-- C09 after any step: never signalled unless the latest Set time has passed (so never by a stale
    timer); Err agrees with Done; Deadline reports the last Set; when nothing is in flight the
    signal is exact -/
def allowed (h : Hist) (o : Obs) : Bool :=
  (!o.closed || h.passed) && (o.errExceeded == o.closed) && (o.deadline == h.lastSet) &&
  (!h.settled || (o.closed == h.passed))

/-- C09 for a Set after expiry: a fresh, different Done channel -/
def freshAfterSet (before after : Obs) : Bool := !before.closed || (after.gen != before.gen)

inductive Ev
  | set (t : Option Int)
  | fire
  | callback
  | advance (dt : Nat)
deriving Repr, DecidableEq

/-- how the environment evolves; `fire`/`callback` are only meaningful when something is pending /
    outstanding (otherwise they are no events at all) -/
def Hist.step (h : Hist) : Ev → Hist
  | .set t => { h with lastSet := t, pendingExpiry := match t with | some x => if x > h.now then some x else none | none => none }
  | .fire => match h.pendingExpiry with
    | some t => if t ≤ h.now then { h with pendingExpiry := none, outstanding := h.outstanding + 1 } else h
    | none => h
  | .callback => if h.outstanding = 0 then h else { h with outstanding := h.outstanding - 1 }
  | .advance dt => { h with now := h.now + dt }

end TV.DeadlineSpec
