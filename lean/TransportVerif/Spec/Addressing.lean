/-
Spec for C13, from the property text: a router is a set of assigned addresses; a host is a set of
open sockets.
-/
namespace TV.AddressingSpec

/-! ### router -/
structure RouterS where
  netIP : Nat
  maskBits : Nat
  taken : List Nat        -- addresses held by NICs on this router
deriving Repr, DecidableEq

def RouterS.inSubnet (r : RouterS) (ip : Nat) : Bool :=
  ip / 2 ^ (32 - r.maskBits) == r.netIP / 2 ^ (32 - r.maskBits) && ip < 2 ^ 32

/-- the addresses the router may hand out automatically: first three octets of the network, host
    byte 1..254 -/
def RouterS.pool (r : RouterS) : List Nat := (List.range 254).map (fun k => (r.netIP / 256) * 256 + k + 1)

inductive AutoJudgement | ok | bad (why : String)
deriving Repr, DecidableEq

/-- C13 for an automatic assignment that returned `ip`: not already held, inside the subnet -/
def RouterS.autoOk (r : RouterS) (ip : Nat) : Bool := !r.taken.contains ip && r.inSubnet ip

/-- an exhaustion report is admissible only if the pool has no free address left
    (a free pool address outside the subnet cannot be used either) -/
def RouterS.exhaustedOk (r : RouterS) : Bool := r.pool.all (fun ip => r.taken.contains ip || !r.inSubnet ip)

/-! ### host -/
structure SockS where
  ip : Nat        -- 0 = wildcard
  port : Nat
deriving Repr, DecidableEq

structure HostS where
  ips : List Nat
  open_ : List SockS
deriving Repr, DecidableEq

/-- two binds conflict: same port, and one is the wildcard or both name the same IP -/
def conflict (a b : SockS) : Bool := a.port == b.port && (a.ip == 0 || b.ip == 0 || a.ip == b.ip)

def HostS.owns (h : HostS) (ip : Nat) : Bool := ip == 0 || h.ips.contains ip

def HostS.free (h : HostS) (s : SockS) : Bool := !h.open_.any (fun o => conflict o s)

/-- binding `ip:port` with an explicit port succeeds exactly when … -/
def HostS.bindOk (h : HostS) (ip port : Nat) : Bool := h.owns ip && h.free { ip, port }

/-- port 0: the ports of 5000..5999 that are free for this IP -/
def HostS.freePorts (h : HostS) (ip : Nat) : List Nat :=
  ((List.range 1000).map (· + 5000)).filter (fun p => h.free { ip, port := p })

/-- the open socket that covers a destination `ip:port` (ip ≠ 0) -/
def HostS.covering (h : HostS) (ip port : Nat) : List SockS :=
  h.open_.filter (fun o => o.port == port && (o.ip == 0 || o.ip == ip))

end TV.AddressingSpec
