/-
Spec for C18, from the property text: message pipes as plain lists.

`Lane` is one direction of a Bridge: the messages in flight (deliverable order), the scripted
impairments still pending, and what happened to every written message.  A Bridge is two lanes; a
dpipe is two bounded FIFOs with a closed flag per end.
-/
namespace TV.PipeSpec

abbrev Msg := List UInt8

/-- a filter the test installs: messages whose length is congruent to `r` modulo `m` are rejected
    (the harness uses this family of callbacks); `none` = no filter -/
structure Filter where
  m : Nat
  r : Nat
deriving Repr, DecidableEq

def Filter.accepts (f : Option Filter) (x : Msg) : Bool :=
  match f with
  | none => true
  | some f => !(x.length % f.m == f.r)

structure Lane where
  inflight : List Msg          -- next to be delivered first
  pendingDrop : Int            -- DropNextNWrites
  pendingReorder : Int         -- ReorderNextNWrites: writes still to be collected into the block
  block : List Msg             -- the block being collected, newest first (i.e. already reversed)
  filter : Option Filter
deriving Repr, DecidableEq

def Lane.new : Lane := { inflight := [], pendingDrop := 0, pendingReorder := 0, block := [], filter := none }

/-- what a write does, by the first rule that applies: a pending drop count swallows it; a pending
    reorder block collects it and, when complete, is released reversed; the filter may reject it;
    otherwise it is queued behind everything in flight -/
def Lane.write (l : Lane) (x : Msg) : Lane :=
  if l.pendingDrop > 0 then { l with pendingDrop := l.pendingDrop - 1 }
  else if l.pendingReorder > 0 then
    let blk := x :: l.block
    if l.pendingReorder - 1 = 0 then
      { l with pendingReorder := 0, inflight := l.inflight ++ blk, block := [] }
    else { l with pendingReorder := l.pendingReorder - 1, block := blk }
  else if !Filter.accepts l.filter x then l
  else { l with inflight := l.inflight ++ [x] }

/-- delivery of the oldest in-flight message into a slice of `n` bytes -/
def Lane.deliver (l : Lane) (n : Nat) : Lane × Option Msg :=
  match l.inflight with
  | [] => (l, none)
  | x :: rest => ({ l with inflight := rest }, some (x.take n))

/-- `Drop(offset, n)`: remove up to `n` in-flight messages starting at `offset`; arguments that
    select nothing remove nothing -/
def Lane.drop (l : Lane) (offset n : Int) : Lane :=
  if offset < 0 ∨ n ≤ 0 ∨ offset ≥ l.inflight.length then l
  else { l with inflight := l.inflight.take offset.toNat ++ l.inflight.drop (offset.toNat + n.toNat) }

/-- `Reorder()`: reverse what is in flight; reports an error (and changes nothing) with fewer
    than two messages -/
def Lane.reorder (l : Lane) : Lane × Bool :=
  if l.inflight.length < 2 then (l, false) else ({ l with inflight := l.inflight.reverse }, true)

/-! dpipe -/

def pipeCap : Nat := 1000

structure DPipe where
  q01 : List Msg      -- written at end 0, read at end 1
  q10 : List Msg
  closed0 : Bool
  closed1 : Bool
deriving Repr, DecidableEq

def DPipe.new : DPipe := { q01 := [], q10 := [], closed0 := false, closed1 := false }

inductive WRes | ok (n : Nat) | closedPipe | wouldBlock
deriving Repr, DecidableEq
inductive RRes | ok (bytes : Msg) | eof | wouldBlock
deriving Repr, DecidableEq

def DPipe.write (p : DPipe) (e : Nat) (x : Msg) : DPipe × WRes :=
  if e = 0 then
    if p.closed0 then (p, .closedPipe)
    else if p.q01.length ≥ pipeCap then (p, .wouldBlock)
    else ({ p with q01 := p.q01 ++ [x] }, .ok x.length)
  else
    if p.closed1 then (p, .closedPipe)
    else if p.q10.length ≥ pipeCap then (p, .wouldBlock)
    else ({ p with q10 := p.q10 ++ [x] }, .ok x.length)

def DPipe.read (p : DPipe) (e : Nat) (n : Nat) : DPipe × RRes :=
  if e = 0 then
    if p.closed0 then (p, .eof)
    else match p.q10 with
      | [] => (p, .wouldBlock)
      | x :: rest => ({ p with q10 := rest }, .ok (x.take n))
  else
    if p.closed1 then (p, .eof)
    else match p.q01 with
      | [] => (p, .wouldBlock)
      | x :: rest => ({ p with q01 := rest }, .ok (x.take n))

def DPipe.close (p : DPipe) (e : Nat) : DPipe :=
  if e = 0 then { p with closed0 := true } else { p with closed1 := true }

end TV.PipeSpec
