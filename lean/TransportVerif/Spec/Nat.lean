import TransportVerif.Model.Nat
/-
Spec of the NAT (C02, C03), written from the property text as a history recorder plus
judgements.  It reuses only the *vocabulary* of the model file (`Addr`, `Dep`, `Key`, `keyOf`, the
result types); it has no maps, no counter and no expiry stamps of its own making: an `Entry` is
what the property calls a mapping — who created it, for which destinations (the part the mapping
behaviour depends on), which external address it was given, when it was last used outbound, and
which remotes its owner has sent to.
-/
namespace TV.NatSpec
open TV.Nat

structure Cfg where
  one2one : Bool
  mapBeh : Dep
  filtBeh : Dep
  lifetime : Int          -- effective lifetime (the default already substituted)
  mappedIPs : List Nat
  localIPs : List Nat
deriving Repr, DecidableEq

structure Entry where
  owner : Addr            -- internal address and port that created the mapping
  bound : Key             -- what of the destination the mapping depends on
  ext : Addr              -- external address handed out
  lastUse : Int           -- time of the last outbound datagram through it
  perms : List Key        -- remotes (as the filtering behaviour sees them) the owner has sent to
deriving Repr, DecidableEq

structure Hist where
  entries : List Entry
  allocs : Nat            -- external addresses handed out (or refused) so far
  now : Int
deriving Repr, DecidableEq

def Hist.empty : Hist := { entries := [], allocs := 0, now := 0 }

/-- the dynamic port range of the property -/
def portLo : Nat := 49152
def portHi : Nat := 65535

/-- a mapping lives until a full lifetime has passed without outbound traffic -/
def Entry.live (c : Cfg) (now : Int) (e : Entry) : Bool := decide (now ≤ e.lastUse + c.lifetime)

def Hist.liveFor (c : Cfg) (h : Hist) (owner : Addr) (bound : Key) : Option Entry :=
  h.entries.find? (fun e => e.owner = owner ∧ e.bound = bound ∧ e.live c h.now)

def Hist.liveAt (c : Cfg) (h : Hist) (ext : Addr) : Option Entry :=
  h.entries.find? (fun e => e.ext = ext ∧ e.live c h.now)

/-- C02: is this outcome of an outbound datagram `src → dst` admissible? -/
def allowedOut (c : Cfg) (h : Hist) (src dst : Addr) (r : OutRes) : Bool :=
  if c.one2one then
    match paired c.localIPs c.mappedIPs src.ip with
    | some ip => r == .ok { ip := ip, port := src.port }      -- paired IP, port preserved
    | none => r == .drop
  else
    match h.liveFor c src (keyOf c.mapBeh dst) with
    | some e => r == .ok e.ext                               -- same endpoint, agreeing destination, still alive: same address
    | none =>
      match r with
      | .ok ext =>
        -- a fresh address: an IP of the router, a valid dynamic port, held by no live mapping
        c.mappedIPs.head? == some ext.ip && decide (portLo ≤ ext.port) && decide (ext.port ≤ portHi) &&
          (h.liveAt c ext).isNone
      | .badPort => decide (h.allocs ≥ portHi + 1 - portLo)  -- refusal only once the range was used up
      | _ => false

/-- record an outbound datagram and its observed outcome -/
def Hist.recordOut (c : Cfg) (h : Hist) (src dst : Addr) (r : OutRes) : Hist :=
  if c.one2one then h else
  let bound := keyOf c.mapBeh dst
  let fk := keyOf c.filtBeh dst
  match h.liveFor c src bound with
  | some e =>
    { h with entries := h.entries.map (fun x =>
        if x.owner = src ∧ x.bound = bound ∧ x.live c h.now then
          { x with lastUse := h.now, perms := if x.perms.contains fk then x.perms else x.perms ++ [fk] }
        else x) }
  | none =>
    match r with
    | .ok ext =>
      { h with allocs := h.allocs + 1,
               entries := h.entries.filter (fun x => !(x.owner = src ∧ x.bound = bound)) ++
                 [{ owner := src, bound := bound, ext := ext, lastUse := h.now, perms := [fk] }] }
    | _ => { h with allocs := h.allocs + 1 }

/-- C03: is this outcome of an inbound datagram `remote → ext` admissible? -/
def allowedIn (c : Cfg) (h : Hist) (remote ext : Addr) (r : InRes) : Bool :=
  if c.one2one then
    match paired c.mappedIPs c.localIPs ext.ip with
    | some ip => r == .ok { ip := ip, port := ext.port }
    | none => (match r with | .ok _ => false | _ => true)
  else
    match h.liveAt c ext with
    | some e =>
      if e.perms.contains (keyOf c.filtBeh remote) then r == .ok e.owner     -- to the creator, exactly
      else (match r with | .ok _ => false | _ => true)                       -- dropped
    | none => (match r with | .ok _ => false | _ => true)

/-- an inbound datagram, forwarded or not, leaves the history unchanged; time passing advances `now` -/
def Hist.advance (h : Hist) (dt : Nat) : Hist := { h with now := h.now + dt }

end TV.NatSpec
