/-
Spec of the packet buffer (C06, C07), written from the property text: a FIFO of packets with two
limits.  Occupancy is counted as the property says: `Count` = number of unread packets,
`Size` = sum of their lengths plus two bytes each.
-/
namespace TV.RingSpec

/-- the "4 MiB cap" and the packet-size bound of the property -/
def maxSize : Nat := 4 * 1024 * 1024
def maxPacket : Nat := 65536

structure Fifo where
  queue : List (List UInt8)     -- oldest first
  limitCount : Int
  limitSize : Int
  closed : Bool
deriving Repr, DecidableEq

def Fifo.new : Fifo := { queue := [], limitCount := 0, limitSize := 0, closed := false }

def Fifo.count (f : Fifo) : Nat := f.queue.length
def Fifo.size (f : Fifo) : Nat := (f.queue.map (fun p => p.length + 2)).sum

inductive WriteRes | ok (n : Nat) | tooBig | closedPipe | full
deriving Repr, DecidableEq
inductive ReadRes | ok (bytes : List UInt8) | short (bytes : List UInt8) | eof | wouldBlock
deriving Repr, DecidableEq

/-- C07: accepting a packet of length `n` would exceed a limit.  With a size limit in force the
    occupancy may not exceed it; with none, occupancy is capped below 4 MiB (one byte of the
    4 MiB ring always stays free, so the largest occupancy is `maxSize - 1`).  `hard` = the
    build tag that makes the 4 MiB cap apply even when a size limit is set. -/
def Fifo.wouldExceed (f : Fifo) (hard : Bool) (n : Nat) : Bool :=
  (f.limitCount > 0 && decide ((f.count : Int) ≥ f.limitCount)) ||
  (f.limitSize > 0 && decide (((f.size + 2 + n : Nat) : Int) > f.limitSize)) ||
  ((f.limitSize ≤ 0 || hard) && decide (f.size + 2 + n + 1 > maxSize))

def Fifo.write (f : Fifo) (hard : Bool) (p : List UInt8) : Fifo × WriteRes :=
  if p.length ≥ maxPacket then (f, .tooBig)
  else if f.closed then (f, .closedPipe)
  else if f.wouldExceed hard p.length then (f, .full)
  else ({ f with queue := f.queue ++ [p] }, .ok p.length)

def Fifo.read (f : Fifo) (dstLen : Nat) : Fifo × ReadRes :=
  match f.queue with
  | p :: rest =>
    ({ f with queue := rest }, if dstLen < p.length then .short (p.take dstLen) else .ok p)
  | [] => (f, if f.closed then .eof else .wouldBlock)

end TV.RingSpec
