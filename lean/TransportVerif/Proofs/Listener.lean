import TransportVerif.Link.Listener
/-
Proof support for C11: the listener model refines the per-remote spec through the abstraction
function `abs` (store ↦ spec connections, acceptQ ↦ waiting) under the invariant `Inv`
(ids unique and below `nextId = store.length`; the table has one entry per remote, each entry
points to an open connection of that remote, every open connection is in the table).
-/
namespace TV.Proofs.Listener
open TV TV.Listener TV.ListenerLink

/-! ### list helpers -/

theorem nodup_map_inj {α β : Type} (f : α → β) :
    ∀ (l : List α), (l.map f).Nodup → ∀ a ∈ l, ∀ b ∈ l, f a = f b → a = b := by
  intro l
  induction l with
  | nil => intro _ a ha; cases ha
  | cons x t ih =>
    intro hnd a ha b hb hab
    simp only [List.map_cons, List.nodup_cons, List.mem_map, not_exists, not_and] at hnd
    rcases List.mem_cons.1 ha with rfl | ha'
    · rcases List.mem_cons.1 hb with rfl | hb'
      · rfl
      · exact absurd hab.symm (hnd.1 b hb')
    · rcases List.mem_cons.1 hb with rfl | hb'
      · exact absurd hab (hnd.1 a ha')
      · exact ih hnd.2 a ha' b hb' hab

theorem nodup_map_filter {α β : Type} (f : α → β) (p : α → Bool) (l : List α)
    (h : (l.map f).Nodup) : ((l.filter p).map f).Nodup :=
  List.Nodup.sublist (List.Sublist.map f List.filter_sublist) h

/-! ### abstraction and invariant -/

def cv (c : Conn) : ListenerSpec.Conn :=
  { id := c.id, remote := c.remote, inbox := c.buf, open_ := !c.closed }

def abs (l : L) : ListenerSpec.S :=
  { backlog := l.backlog, filter := l.filter, listening := l.accepting,
    conns := l.store.map cv, waiting := l.acceptQ }

structure Inv (l : L) : Prop where
  next : l.nextId = l.store.length
  ids : (l.store.map (·.id)).Nodup
  lt : ∀ c ∈ l.store, c.id < l.nextId
  keys : (l.conns.map (·.1)).Nodup
  tbl : ∀ e ∈ l.conns, ∃ c ∈ l.store, c.id = e.2 ∧ c.remote = e.1 ∧ c.closed = false
  opn : ∀ c ∈ l.store, c.closed = false → (c.remote, c.id) ∈ l.conns
  clq : l.accepting = false → l.acceptQ = []

theorem inv_new (b : Nat) (f : Option (Nat × Nat)) : Inv (L.new b f) := by
  constructor <;> simp [L.new]

theorem abs_new (b : Nat) (f : Option (Nat × Nat)) : abs (L.new b f) = ListenerSpec.S.new b f := by
  simp [abs, L.new, ListenerSpec.S.new]

theorem admits_eq (f : Option (Nat × Nat)) (p : Msg) : ListenerSpec.admits f p = Listener.admits f p := by
  unfold ListenerSpec.admits Listener.admits
  cases f <;> rfl

/-- ids are unique: two stored connections with the same id are the same -/
theorem Inv.id_inj {l : L} (h : Inv l) {a b : Conn} (ha : a ∈ l.store) (hb : b ∈ l.store)
    (hab : a.id = b.id) : a = b :=
  nodup_map_inj (·.id) l.store h.ids a ha b hb hab

theorem Inv.key_inj {l : L} (h : Inv l) {a b : Nat × Nat} (ha : a ∈ l.conns) (hb : b ∈ l.conns)
    (hab : a.1 = b.1) : a = b :=
  nodup_map_inj (·.1) l.conns h.keys a ha b hb hab

theorem conn?_some_iff {l : L} (h : Inv l) (id : Nat) (c : Conn) :
    l.conn? id = some c ↔ c ∈ l.store ∧ c.id = id := by
  unfold L.conn?
  constructor
  · intro hf
    have := List.find?_some hf
    exact ⟨List.mem_of_find?_eq_some hf, by simpa using this⟩
  · intro ⟨hm, hid⟩
    cases hf : l.store.find? (fun c => c.id = id) with
    | none =>
      have := List.find?_eq_none.1 hf c hm
      simp [hid] at this
    | some c' =>
      have h1 := List.find?_some hf
      have h2 := List.mem_of_find?_eq_some hf
      have : c'.id = c.id := by simp at h1; omega
      rw [h.id_inj h2 hm this]

/-- the table lookup is the spec's "open connection of that remote" -/
theorem lookup_eq {l : L} (h : Inv l) (rm : Nat) :
    (l.conns.find? (fun e => e.1 = rm)).map (·.2)
      = (l.store.find? (fun c => c.remote = rm ∧ c.closed = false)).map (·.id) := by
  cases hc : l.conns.find? (fun e => e.1 = rm) with
  | some e =>
    have he := List.mem_of_find?_eq_some hc
    have he1 : e.1 = rm := by simpa using List.find?_some hc
    obtain ⟨c, hcm, hid, hrm, hcl⟩ := h.tbl e he
    cases hs : l.store.find? (fun c => c.remote = rm ∧ c.closed = false) with
    | none =>
      have := List.find?_eq_none.1 hs c hcm
      simp [hrm, he1, hcl] at this
    | some c' =>
      have hm' := List.mem_of_find?_eq_some hs
      have hp' := List.find?_some hs
      simp at hp'
      have hin := h.opn c' hm' hp'.2
      have := h.key_inj hin he (by simp [hp'.1, he1])
      simp [← this]
  | none =>
    cases hs : l.store.find? (fun c => c.remote = rm ∧ c.closed = false) with
    | none => rfl
    | some c' =>
      have hm' := List.mem_of_find?_eq_some hs
      have hp' := List.find?_some hs
      simp at hp'
      have hin := h.opn c' hm' hp'.2
      have := List.find?_eq_none.1 hc _ hin
      simp [hp'.1] at this

theorem openFor_abs (l : L) (rm : Nat) :
    (abs l).openFor rm = (l.store.find? (fun c => c.remote = rm ∧ c.closed = false)).map cv := by
  unfold ListenerSpec.S.openFor abs
  simp only [List.find?_map]
  congr 2
  funext c
  cases hcl : c.closed <;> simp [cv, hcl]

/-! ### preservation of the invariant by store maps -/

theorem inv_map {l l' : L} (g : Conn → Conn) (h : Inv l)
    (hn : l'.nextId = l.nextId) (hs : l'.store = l.store.map g) (hc : l'.conns.Sublist l.conns)
    (hq : l'.accepting = false → l'.acceptQ = [])
    (gid : ∀ c, (g c).id = c.id) (grm : ∀ c, (g c).remote = c.remote)
    (hopn : ∀ c ∈ l.store, (g c).closed = false → (c.remote, c.id) ∈ l'.conns)
    (htbl : ∀ e ∈ l'.conns, ∀ c ∈ l.store, c.id = e.2 → c.closed = false → (g c).closed = false) :
    Inv l' := by
  constructor
  · rw [hn, hs, List.length_map]; exact h.next
  · rw [hs, List.map_map]
    have : ((fun c : Conn => c.id) ∘ g) = (fun c : Conn => c.id) := by funext c; simp [gid]
    rw [this]; exact h.ids
  · intro c hcm
    rw [hs] at hcm
    obtain ⟨c0, hc0, rfl⟩ := List.mem_map.1 hcm
    rw [hn, gid]; exact h.lt c0 hc0
  · exact List.Nodup.sublist (List.Sublist.map _ hc) h.keys
  · intro e he
    obtain ⟨c, hcm, hid, hrm, hcl⟩ := h.tbl e (hc.subset he)
    refine ⟨g c, ?_, ?_, ?_, ?_⟩
    · rw [hs]; exact List.mem_map.2 ⟨c, hcm, rfl⟩
    · rw [gid]; exact hid
    · rw [grm]; exact hrm
    · exact htbl e he c hcm hid hcl
  · intro c hcm hcl
    rw [hs] at hcm
    obtain ⟨c0, hc0, rfl⟩ := List.mem_map.1 hcm
    rw [grm, gid]; exact hopn c0 hc0 hcl
  · exact hq

/-! ### dispatch -/

theorem dispatch_some {l : L} {rm : Nat} {e : Nat × Nat} (p : Msg)
    (hf : l.conns.find? (fun e => e.1 = rm) = some e) :
    l.dispatch rm p = l.upd e.2 (fun c => if c.closed then c else { c with buf := c.buf ++ [p] }) := by
  unfold L.dispatch
  simp [hf]

theorem dispatch_none {l : L} {rm : Nat} (p : Msg)
    (hf : l.conns.find? (fun e => e.1 = rm) = none) :
    l.dispatch rm p =
      if l.accepting = true ∧ admits l.filter p = true ∧ l.acceptQ.length < l.backlog then
        { l with nextId := l.nextId + 1,
                 store := l.store ++ [{ id := l.nextId, remote := rm, buf := [p], closed := false }],
                 acceptQ := l.acceptQ ++ [l.nextId], conns := l.conns ++ [(rm, l.nextId)] }
      else l := by
  unfold L.dispatch
  simp only [hf, Option.map_none]
  by_cases h1 : l.accepting = true <;> by_cases h2 : admits l.filter p = true <;>
    by_cases h3 : l.acceptQ.length < l.backlog <;> simp [h1, h2, h3] <;> omega

theorem inv_dispatch {l : L} (h : Inv l) (rm : Nat) (p : Msg) : Inv (l.dispatch rm p) := by
  cases hf : l.conns.find? (fun e => e.1 = rm) with
  | some e =>
    rw [dispatch_some p hf]
    refine inv_map (fun c => if c.id = e.2 then (if c.closed then c else { c with buf := c.buf ++ [p] }) else c)
      h ?_ ?_ ?_ ?_ ?_ ?_ ?_ ?_
    · rfl
    · rfl
    · exact List.Sublist.refl _
    · exact h.clq
    · intro c; split <;> (try split) <;> rfl
    · intro c; split <;> (try split) <;> rfl
    · intro c hcm hcl
      have : c.closed = false := by
        revert hcl; split <;> (try split) <;> simp_all
      exact h.opn c hcm this
    · intro e' _ c _ _ hcl
      split <;> (try split) <;> simp_all
  | none =>
    rw [dispatch_none p hf]
    split
    · have hnone := List.find?_eq_none.1 hf
      constructor
      · simp [h.next]
      · simp only [List.map_append, List.map_cons, List.map_nil]
        refine List.nodup_append.2 ⟨h.ids, by simp, ?_⟩
        intro a ha b hb
        obtain ⟨c, hcm, rfl⟩ := List.mem_map.1 ha
        have := h.lt c hcm
        simp at hb; omega
      · intro c hcm
        rcases List.mem_append.1 hcm with hc | hc
        · have := h.lt c hc; simp; omega
        · simp at hc; subst hc; simp
      · simp only [List.map_append, List.map_cons, List.map_nil]
        refine List.nodup_append.2 ⟨h.keys, by simp, ?_⟩
        intro a ha b hb
        obtain ⟨e, hem, rfl⟩ := List.mem_map.1 ha
        have := hnone e hem
        simp at hb this; omega
      · intro e he
        rcases List.mem_append.1 he with he | he
        · obtain ⟨c, hcm, hh⟩ := h.tbl e he
          exact ⟨c, List.mem_append_left _ hcm, hh⟩
        · simp at he; subst he
          exact ⟨_, List.mem_append_right _ (List.mem_singleton.2 rfl), rfl, rfl, rfl⟩
      · intro c hcm hcl
        rcases List.mem_append.1 hcm with hc | hc
        · exact List.mem_append_left _ (h.opn c hc hcl)
        · simp at hc; subst hc; simp
      · rename_i hcond
        intro ha
        simp [hcond.1] at ha
    · exact h

theorem abs_dispatch {l : L} (h : Inv l) (rm : Nat) (p : Msg) :
    (abs l).arrive rm p = abs (l.dispatch rm p) := by
  have hlook := lookup_eq h rm
  have hopen := openFor_abs l rm
  unfold ListenerSpec.S.arrive
  cases hs : l.store.find? (fun c => c.remote = rm ∧ c.closed = false) with
  | some c =>
    rw [hs] at hlook hopen
    have hcm := List.mem_of_find?_eq_some hs
    have hcp := List.find?_some hs
    simp at hcp
    cases hf : l.conns.find? (fun e => e.1 = rm) with
    | none => rw [hf] at hlook; simp at hlook
    | some e =>
      rw [hf] at hlook
      have he2 : e.2 = c.id := by simpa using hlook
      rw [dispatch_some p hf, hopen]
      simp only [Option.map_some, abs, L.upd, List.map_map]
      congr 1
      apply List.map_congr_left
      intro x hx
      by_cases hxi : x.id = c.id
      · have : x = c := h.id_inj hx hcm hxi
        subst this
        simp [cv, he2, hcp.2]
      · simp [cv, he2, hxi]
  | none =>
    rw [hs] at hlook hopen
    have hf : l.conns.find? (fun e => e.1 = rm) = none := by simpa using hlook
    rw [dispatch_none p hf, hopen]
    simp only [Option.map_none]
    have e1 : (abs l).listening = l.accepting := rfl
    have e2 : ListenerSpec.admits (abs l).filter p = admits l.filter p := admits_eq _ _
    have e3 : (abs l).waiting = l.acceptQ := rfl
    have e4 : (abs l).backlog = l.backlog := rfl
    rw [e1, e2, e3, e4]
    split
    · simp [abs, cv, h.next]
    · rfl

/-! ### accept -/

theorem inv_accept {l : L} (h : Inv l) : Inv l.accept.1 := by
  unfold L.accept
  split
  · rename_i a t hq
    refine ⟨h.next, h.ids, h.lt, h.keys, h.tbl, h.opn, ?_⟩
    intro ha
    have := h.clq ha
    simp [hq] at this
  · exact h

theorem abs_accept (l : L) :
    (abs l).accept.1 = abs l.accept.1 ∧ convA (abs l).accept.2 = l.accept.2 := by
  unfold ListenerSpec.S.accept L.accept
  cases hq : l.acceptQ with
  | nil =>
    have : (abs l).waiting = [] := hq
    simp only [this]
    cases ha : l.accepting <;> simp [abs, ha, convA]
  | cons a t =>
    have : (abs l).waiting = a :: t := hq
    simp only [this]
    simp [abs, convA]

/-! ### read -/

theorem find?_abs (l : L) (id : Nat) :
    (abs l).conns.find? (fun c => c.id = id) = (l.conn? id).map cv := by
  unfold abs L.conn?
  simp only [List.find?_map]
  rfl

theorem inv_read {l : L} (h : Inv l) (id n : Nat) : Inv (l.read id n).1 := by
  unfold L.read
  split
  · exact h
  · split
    · rename_i rest _
      exact inv_map (fun c => if c.id = id then { c with buf := rest } else c) h
        (by rfl) (by rfl) (List.Sublist.refl _) h.clq
        (by intro c; split <;> rfl) (by intro c; split <;> rfl)
        (by intro c hcm hcl
            have : c.closed = false := by revert hcl; split <;> simp
            exact h.opn c hcm this)
        (by intro e _ c _ _ hcl; split <;> simp [hcl])
    · exact h

theorem abs_read (l : L) (id n : Nat) :
    ((abs l).read id n).1 = abs (l.read id n).1 ∧ convR ((abs l).read id n).2 = (l.read id n).2 := by
  unfold ListenerSpec.S.read L.read
  rw [find?_abs]
  cases hc : l.conn? id with
  | none => simp [convR]
  | some c =>
    simp only [Option.map_some]
    cases hb : c.buf with
    | nil =>
      have : (cv c).inbox = [] := hb
      simp only [this]
      cases hcl : c.closed <;> simp [cv, hcl, convR]
    | cons q rest =>
      have : (cv c).inbox = q :: rest := hb
      simp only [this]
      refine ⟨?_, by simp [convR]⟩
      simp only [abs, L.upd, List.map_map]
      congr 1
      apply List.map_congr_left
      intro x _
      by_cases hx : x.id = id <;> simp [cv, hx]

/-! ### connClose -/

theorem inv_connClose {l : L} (h : Inv l) (id : Nat) : Inv (l.connClose id) := by
  unfold L.connClose
  split
  · exact h
  · rename_i c hc
    have ⟨hcm, hcid⟩ := (conn?_some_iff h id c).1 hc
    split
    · exact h
    · refine inv_map (fun c => if c.id = id then { c with closed := true } else c) h
        (by rfl) (by rfl) List.filter_sublist h.clq
        (by intro c; split <;> rfl) (by intro c; split <;> rfl) ?_ ?_
      · intro c0 hc0 hcl
        have hne : ¬ c0.id = id := by intro hh; simp [hh] at hcl
        simp only [hne, if_false] at hcl
        have := h.opn c0 hc0 hcl
        simp only [L.upd]
        exact List.mem_filter.2 ⟨this, by simp [hne]⟩
      · intro e he c0 hc0 hid hcl
        simp only [L.upd] at he
        have ⟨hem, hep⟩ := List.mem_filter.1 he
        have hne : ¬ c0.id = id := by
          intro hh
          have hcc : c0 = c := h.id_inj hc0 hcm (by omega)
          obtain ⟨c1, hc1, h1id, h1rm, _⟩ := h.tbl e hem
          have : c1 = c := h.id_inj hc1 hcm (by omega)
          subst this
          simp [h1rm] at hep
          omega
        simp [hne, hcl]

theorem abs_connClose {l : L} (h : Inv l) (id : Nat) :
    (abs l).connClose id = abs (l.connClose id) := by
  unfold ListenerSpec.S.connClose L.connClose
  cases hc : l.conn? id with
  | none =>
    have hnone := List.find?_eq_none.1 hc
    simp only [abs, List.map_map]
    congr 1
    rw [← List.map_congr_left (f := cv)]
    intro x hx
    have := hnone x hx
    simp at this
    simp [cv, this]
  | some c =>
    have ⟨hcm, hcid⟩ := (conn?_some_iff h id c).1 hc
    simp only
    split
    · rename_i hcl
      simp only [abs, List.map_map]
      congr 1
      rw [← List.map_congr_left (f := cv)]
      intro x hx
      by_cases hxi : x.id = id
      · have : x = c := h.id_inj hx hcm (by omega)
        subst this
        simp [cv, hxi, hcl]
      · simp [cv, hxi]
    · simp only [abs, L.upd, List.map_map]
      congr 1
      apply List.map_congr_left
      intro x _
      by_cases hxi : x.id = id <;> simp [cv, hxi]

/-! ### close -/

theorem foldl_close (ids : List Nat) : ∀ (l1 : L),
    ids.foldl (fun l id => l.upd id (fun c => { c with closed := true })) l1
      = { l1 with store := l1.store.map (fun c => if ids.contains c.id then { c with closed := true } else c) } := by
  induction ids with
  | nil => intro l1; simp
  | cons a t ih =>
    intro l1
    rw [List.foldl_cons, ih]
    simp only [L.upd, List.map_map]
    congr 1
    apply List.map_congr_left
    intro x _
    by_cases hx : x.id = a
    · by_cases ht : t.contains a <;> simp_all
    · have : (a == x.id) = false := by simp; omega
      by_cases ht : t.contains x.id <;> simp_all

theorem close_eq (l : L) :
    l.close = if l.accepting = true then
      { l with accepting := false, acceptQ := [],
               conns := l.conns.filter (fun e => !l.acceptQ.contains e.2),
               store := l.store.map (fun c => if l.acceptQ.contains c.id then { c with closed := true } else c) }
      else l := by
  unfold L.close
  cases ha : l.accepting
  · simp
  · simp only [Bool.not_true, Bool.false_eq_true, if_false, if_true]
    rw [foldl_close]

theorem inv_close {l : L} (h : Inv l) : Inv l.close := by
  rw [close_eq]
  split
  · refine inv_map (fun c => if l.acceptQ.contains c.id then { c with closed := true } else c) h
      (by rfl) (by rfl) List.filter_sublist (fun _ => rfl)
      (by intro c; split <;> rfl) (by intro c; split <;> rfl) ?_ ?_
    · intro c hcm hcl
      have hne : ¬ c.id ∈ l.acceptQ := by
        intro hq
        simp [hq] at hcl
      simp [hne] at hcl
      exact List.mem_filter.2 ⟨h.opn c hcm hcl, by simp [hne]⟩
    · intro e he c _ hid hcl
      have ⟨_, hep⟩ := List.mem_filter.1 he
      have hne : ¬ c.id ∈ l.acceptQ := by
        rw [hid]; simpa using hep
      simp [hne, hcl]
  · exact h

theorem abs_close {l : L} (h : Inv l) : (abs l).close = abs l.close := by
  rw [close_eq]
  unfold ListenerSpec.S.close
  cases ha : l.accepting
  · simp only [Bool.false_eq_true, if_false]
    have hq := h.clq ha
    simp [abs, ha, hq]
  · simp only [if_true, abs, List.map_map]
    congr 1
    apply List.map_congr_left
    intro x _
    by_cases hx : x.id ∈ l.acceptQ <;> simp [cv, hx]

/-! ### one step, histories -/

theorem step_ref {l : L} (h : Inv l) (op : Op) :
    specStep (abs l) op = (abs (step l op).1, (step l op).2) ∧ Inv (step l op).1 := by
  cases op with
  | arrive rm p => exact ⟨by simp [specStep, step, abs_dispatch h], inv_dispatch h rm p⟩
  | accept =>
    have := abs_accept l
    exact ⟨by simp [specStep, step, this.1, this.2], inv_accept h⟩
  | read id n =>
    have := abs_read l id n
    exact ⟨by simp [specStep, step, this.1, this.2], inv_read h id n⟩
  | connClose id => exact ⟨by simp [specStep, step, abs_connClose h], inv_connClose h id⟩
  | close => exact ⟨by simp [specStep, step, abs_close h], inv_close h⟩

theorem outs_ref : ∀ (ops : List Op) (l : L), Inv l → outsModel l ops = outsSpec (abs l) ops := by
  intro ops
  induction ops with
  | nil => intro l _; rfl
  | cons op ops ih =>
    intro l h
    have ⟨h1, h2⟩ := step_ref h op
    simp only [outsModel, outsSpec, h1]
    rw [ih _ h2]

theorem inv_run : ∀ (ops : List Op) (l : L), Inv l → Inv (runModel l ops) := by
  intro ops
  induction ops with
  | nil => intro l h; exact h
  | cons op ops ih =>
    intro l h
    exact ih _ (step_ref h op).2

/-! ### consequences of the invariant -/

theorem inv_one_conn {l : L} (h : Inv l) :
    (l.conns.map (·.1)).Nodup ∧
    ∀ e ∈ l.conns, ∃ c, l.conn? e.2 = some c ∧ c.remote = e.1 ∧ c.closed = false := by
  refine ⟨h.keys, ?_⟩
  intro e he
  obtain ⟨c, hcm, hid, hrm, hcl⟩ := h.tbl e he
  exact ⟨c, (conn?_some_iff h e.2 c).2 ⟨hcm, hid⟩, hrm, hcl⟩

theorem inv_delivered {l : L} (h : Inv l) (rm : Nat) (p : Msg) :
    ∀ c ∈ l.store, c.remote ≠ rm → (l.dispatch rm p).conn? c.id = some c := by
  intro c hcm hne
  refine (conn?_some_iff (inv_dispatch h rm p) c.id c).2 ⟨?_, rfl⟩
  cases hf : l.conns.find? (fun e => e.1 = rm) with
  | some e =>
    rw [dispatch_some p hf]
    have he := List.mem_of_find?_eq_some hf
    have he1 : e.1 = rm := by simpa using List.find?_some hf
    obtain ⟨c1, hc1, h1id, h1rm, _⟩ := h.tbl e he
    have hid : ¬ c.id = e.2 := by
      intro hh
      have : c = c1 := h.id_inj hcm hc1 (by omega)
      subst this
      omega
    simp only [L.upd]
    exact List.mem_map.2 ⟨c, hcm, by simp [hid]⟩
  | none =>
    rw [dispatch_none p hf]
    split
    · exact List.mem_append_left _ hcm
    · exact hcm

theorem inv_fresh {l : L} (h : Inv l) (id : Nat) (c : Conn)
    (hc : l.conn? id = some c) (hcl : c.closed = false)
    (hl : (l.conns.find? (fun e => e.1 = c.remote)).map (·.2) = some id) :
    ((l.connClose id).conns.find? (fun e => e.1 = c.remote)) = none := by
  unfold L.connClose
  simp only [hc, hcl, Bool.false_eq_true, if_false, L.upd]
  apply List.find?_eq_none.2
  intro e he
  have ⟨hem, hep⟩ := List.mem_filter.1 he
  cases hf : l.conns.find? (fun e => e.1 = c.remote) with
  | none => simp [hf] at hl
  | some e0 =>
    have he0 := List.mem_of_find?_eq_some hf
    have he01 : e0.1 = c.remote := by simpa using List.find?_some hf
    have he02 : e0.2 = id := by simpa [hf] using hl
    intro hh
    have hh' : e.1 = c.remote := by simpa using hh
    have : e = e0 := h.key_inj hem he0 (by omega)
    subst this
    simp [he01, he02] at hep

end TV.Proofs.Listener
