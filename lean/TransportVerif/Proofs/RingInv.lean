import TransportVerif.Proofs.RingCopy
/-
The abstraction relation between the ring model and the FIFO spec, and the lemmas about the
geometry of the ring (`Geo`), `grow` and the growth loop.
-/
namespace TV.Proofs.Ring
open TV TV.Ring
open TV.RingSpec (Fifo)

/-- circular index: the code never uses `%`; all positions are `< 2 * L` -/
def widx (L x : Nat) : Nat := if x < L then x else x - L

/-- the geometry invariant: head and tail are positions of the ring -/
def Geo (r : Ring) : Prop :=
  (r.data.size = 0 → r.head = 0 ∧ r.tail = 0) ∧
  (0 < r.data.size → r.head < r.data.size ∧ r.tail < r.data.size)

/-- a packet as stored in the ring: 2-byte big-endian length, then the payload -/
def frame (p : List UInt8) : List UInt8 :=
  UInt8.ofNat (p.length >>> 8) :: UInt8.ofNat p.length :: p

def frames (q : List (List UInt8)) : List UInt8 := (q.map frame).flatten

@[simp] theorem frames_nil : frames [] = [] := rfl
@[simp] theorem frames_cons (p : List UInt8) (q : List (List UInt8)) :
    frames (p :: q) = UInt8.ofNat (p.length >>> 8) :: UInt8.ofNat p.length :: (p ++ frames q) := by
  simp [frames, frame]
theorem frames_append (q : List (List UInt8)) (p : List UInt8) :
    frames (q ++ [p]) = frames q ++ frame p := by
  simp [frames]

theorem frames_length (q : List (List UInt8)) :
    (frames q).length = (q.map (fun p => p.length + 2)).sum := by
  induction q with
  | nil => rfl
  | cons p q ih => simp [ih]; omega

/-- the abstraction relation: the bytes between head and tail (circularly) are the frames of the
    queued packets, oldest first -/
structure Inv (r : Ring) (f : Fifo) : Prop where
  geo : Geo r
  len : r.size = (frames f.queue).length
  bytes : ∀ k, k < r.size →
    r.data[widx r.data.size (r.head + k)]?.getD 0 = (frames f.queue)[k]?.getD 0
  count : r.count = f.queue.length
  lc : r.limitCount = f.limitCount
  ls : r.limitSize = f.limitSize
  cl : r.closed = f.closed
  small : ∀ p ∈ f.queue, p.length < 65536

theorem Inv.size_eq {r : Ring} {f : Fifo} (h : Inv r f) : r.size = f.size := by
  rw [h.len, frames_length]; rfl

theorem inv_new (hard : Bool) : Inv (Ring.new hard) Fifo.new := by
  constructor <;> simp [Ring.new, Fifo.new, Geo, Ring.size]

theorem size_lt (r : Ring) (hg : Geo r) (h : 0 < r.data.size) : r.size < r.data.size := by
  unfold Geo at hg
  unfold Ring.size
  split <;> omega

theorem size_zero (r : Ring) (hg : Geo r) (h : r.data.size = 0) : r.size = 0 := by
  unfold Geo at hg
  unfold Ring.size
  split <;> omega

theorem available_iff (r : Ring) (hg : Geo r) (n : Nat) :
    r.available n = true ↔ r.size + n + 3 ≤ r.data.size := by
  unfold Geo at hg
  unfold Ring.available Ring.size
  simp only [Bool.not_eq_true', decide_eq_false_iff_not]
  split <;> split <;> omega

/-- what `grow` does: linearise to `[0, size)` in a strictly larger ring -/
theorem grow_spec (r r' : Ring) (hg : Geo r) (h : r.grow = some r') :
    r'.head = 0 ∧ r'.tail = r.size ∧ r.data.size < r'.data.size ∧ r'.count = r.count ∧
    r'.limitCount = r.limitCount ∧ r'.limitSize = r.limitSize ∧ r'.closed = r.closed ∧
    r'.hard = r.hard ∧
    ∀ k, k < r.size → r'.data[k]?.getD 0 = r.data[widx r.data.size (r.head + k)]?.getD 0 := by
  unfold Geo at hg
  unfold Ring.grow at h
  split at h
  · exact absurd h (by simp)
  · rename_i ns hns
    have h1 := Ring.newSize_gt r ns hns
    split at h <;> simp only [Option.some.injEq] at h <;> subst h
    · rename_i hle
      refine ⟨rfl, by simp [Ring.size, hle], by simpa using h1, rfl, rfl, rfl, rfl, rfl, ?_⟩
      intro k hk
      simp only [Ring.size, hle, if_true] at hk
      simp only []
      rw [copyN_get]
      simp only [Array.size_replicate, widx]
      rw [if_pos (by omega), if_pos (by omega)]
      simp
    · rename_i hle
      have hsz : r.size = r.data.size - r.head + r.tail := by
        simp only [Ring.size, hle, if_false]; omega
      refine ⟨rfl, by simp only []; omega, by simpa using h1, rfl, rfl, rfl, rfl, rfl, ?_⟩
      intro k hk
      simp only []
      rw [copyN_get, copyN_get]
      simp only [copyN_size, Array.size_replicate, widx]
      by_cases hk1 : k < r.data.size - r.head
      · rw [if_neg (by omega), if_pos (by omega), if_pos (by omega)]
        simp
      · rw [if_pos (by omega), if_neg (by omega)]
        congr 2
        omega

theorem grow_size_eq (r r' : Ring) (hg : Geo r) (h : r.grow = some r') : r'.size = r.size := by
  have := grow_spec r r' hg h
  rw [Ring.size, this.1, this.2.1]
  simp

theorem grow_geo (r r' : Ring) (hg : Geo r) (h : r.grow = some r') : Geo r' := by
  have hs := grow_spec r r' hg h
  have h0 := size_zero r hg
  have h1 := size_lt r hg
  unfold Geo
  omega

theorem grow_inv (r r' : Ring) (f : Fifo) (hi : Inv r f) (h : r.grow = some r') : Inv r' f := by
  have hs := grow_spec r r' hi.geo h
  have hsz := grow_size_eq r r' hi.geo h
  have h0 := size_zero r hi.geo
  have h1 := size_lt r hi.geo
  refine ⟨grow_geo r r' hi.geo h, by rw [hsz]; exact hi.len, ?_, by rw [hs.2.2.2.1]; exact hi.count,
    by rw [hs.2.2.2.2.1]; exact hi.lc, by rw [hs.2.2.2.2.2.1]; exact hi.ls,
    by rw [hs.2.2.2.2.2.2.1]; exact hi.cl, hi.small⟩
  intro k hk
  rw [hsz] at hk
  rw [hs.1, ← hi.bytes k hk, ← hs.2.2.2.2.2.2.2.2 k hk]
  simp only [widx, Nat.zero_add]
  rw [if_pos (by omega)]

theorem grow_overLimit (r r' : Ring) (hg : Geo r) (h : r.grow = some r') (n : Nat) :
    r'.overLimit n = r.overLimit n := by
  have hs := grow_spec r r' hg h
  have hsz := grow_size_eq r r' hg h
  unfold Ring.overLimit
  rw [hsz, hs.2.2.2.1, hs.2.2.2.2.1, hs.2.2.2.2.2.1, hs.2.2.2.2.2.2.2.1]

/-- the growth loop preserves the abstraction relation, and a `true` result means there is room -/
theorem growUntil_inv (r : Ring) (n : Nat) (f : Fifo) (hi : Inv r f) :
    Inv (r.growUntil n).1 f ∧ (r.growUntil n).1.hard = r.hard ∧
    ((r.growUntil n).2 = true → (r.growUntil n).1.available n = true) := by
  fun_induction Ring.growUntil r n with
  | case1 r hav => exact ⟨hi, rfl, fun _ => hav⟩
  | case2 r hav hgr => exact ⟨hi, rfl, fun h => absurd h (by simp)⟩
  | case3 r hav r' hgr ih =>
    have := ih (grow_inv r r' f hi hgr)
    have hs := grow_spec r r' hi.geo hgr
    exact ⟨this.1, by rw [this.2.1, hs.2.2.2.2.2.2.2.1], this.2.2⟩

/-- when `grow` refuses, the ring already has the largest size the limits allow, and a packet that
    passes the limit test fits -/
theorem grow_none_available (r : Ring) (hg : Geo r) (n : Nat) (hl : r.overLimit n = false)
    (hgr : r.grow = none) : r.available n = true := by
  rw [available_iff r hg]
  have hns : r.newSize = none := by
    unfold Ring.grow at hgr
    split at hgr
    · assumption
    · split at hgr <;> exact absurd hgr (by simp)
  unfold Ring.overLimit at hl
  unfold Ring.newSize at hns
  simp only [minSize, maxSize, cutoffSize] at *
  simp only [Bool.or_eq_false_iff, Bool.and_eq_false_iff, decide_eq_false_iff_not,
    Bool.or_eq_false_iff] at hl
  grind

/-- C07: in a state with sound geometry the growth loop succeeds for every packet that passes the
    limit test -/
theorem growUntil_true (r : Ring) (n : Nat) (hg : Geo r) (hl : r.overLimit n = false) :
    (r.growUntil n).2 = true := by
  fun_induction Ring.growUntil r n with
  | case1 r hav => rfl
  | case2 r hav hgr => exact absurd (grow_none_available r hg n hl hgr) hav
  | case3 r hav r' hgr ih =>
    exact ih (grow_geo r r' hg hgr) (by rw [grow_overLimit r r' hg hgr]; exact hl)

end TV.Proofs.Ring
