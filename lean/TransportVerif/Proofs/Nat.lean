import TransportVerif.Link.Nat
import TransportVerif.Proofs.NatBase
import TransportVerif.Proofs.NatInv
import TransportVerif.Proofs.NatSilent
import TransportVerif.Proofs.NatRefine
/-
NAT proofs (C02, C03), split over
* `NatBase`   : abstract machine over one list of mappings, the invariant `WfL`, model = abstract machine
* `NatInv`    : 1:1 mode, `inbound_to_owner`, constructor facts, `ext_injective`, `ext_valid`
* `NatSilent` : `inbound_is_silent`
* `NatRefine` : refinement relation to the spec's history recorder, `judged`
-/
