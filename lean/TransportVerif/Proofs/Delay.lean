import TransportVerif.Link.Delay
/-
Helper lemmas for C14 (DelayFilter transition system).

Three independent invariants, each proved once per sub-operation (`pushArm`, `tickArm`, `select`),
once per `step`, then lifted to `run` by induction:

* `TInv`   : timer / liveness invariant (never dead, never stuck, tick values bounded by `now + 1`,
             queued deadlines bounded by `now + delay`);
* `ids`    : `forwarded ids ++ queued ids` only grows by arrivals (FIFO, exactly once);
* `DInv A` : every queued chunk has an arrival in `A` with `deadline = a + delay`, every forwarded
             one has an arrival with `a + delay ≤ t`.
-/
namespace TV.Proofs.Delay
open TV TV.Delay TV.DelayLink

/-! ### field projections of the small helpers -/

@[simp] theorem setS_delay (s : Sys) (k pc) : (s.setS k pc).delay = s.delay := rfl
@[simp] theorem setS_late (s : Sys) (k pc) : (s.setS k pc).late = s.late := rfl
@[simp] theorem setS_now (s : Sys) (k pc) : (s.setS k pc).now = s.now := rfl
@[simp] theorem setS_queue (s : Sys) (k pc) : (s.setS k pc).queue = s.queue := rfl
@[simp] theorem setS_sendQ (s : Sys) (k pc) : (s.setS k pc).sendQ = s.sendQ := rfl
@[simp] theorem setS_loop (s : Sys) (k pc) : (s.setS k pc).loop = s.loop := rfl
@[simp] theorem setS_armed (s : Sys) (k pc) : (s.setS k pc).armed = s.armed := rfl
@[simp] theorem setS_due (s : Sys) (k pc) : (s.setS k pc).due = s.due := rfl
@[simp] theorem setS_tick (s : Sys) (k pc) : (s.setS k pc).tick = s.tick := rfl
@[simp] theorem setS_forwarded (s : Sys) (k pc) : (s.setS k pc).forwarded = s.forwarded := rfl

@[simp] theorem reset_delay (s : Sys) (d) : (s.reset d).delay = s.delay := rfl
@[simp] theorem reset_late (s : Sys) (d) : (s.reset d).late = s.late := rfl
@[simp] theorem reset_now (s : Sys) (d) : (s.reset d).now = s.now := rfl
@[simp] theorem reset_queue (s : Sys) (d) : (s.reset d).queue = s.queue := rfl
@[simp] theorem reset_sendQ (s : Sys) (d) : (s.reset d).sendQ = s.sendQ := rfl
@[simp] theorem reset_loop (s : Sys) (d) : (s.reset d).loop = s.loop := rfl
@[simp] theorem reset_armed (s : Sys) (d) : (s.reset d).armed = true := rfl
@[simp] theorem reset_due (s : Sys) (d) : (s.reset d).due = s.now + (if d < 0 then 0 else d) := rfl
@[simp] theorem reset_tick (s : Sys) (d) : (s.reset d).tick = s.tick := rfl
@[simp] theorem reset_forwarded (s : Sys) (d) : (s.reset d).forwarded = s.forwarded := rfl

/-- one-step arrivals -/
def arr1 (s : Sys) : Op → List (Nat × Int)
  | .send k => if s.senders[k]? = some .start then [(k, s.now)] else []
  | _ => []

theorem arrivals_cons (s : Sys) (op : Op) (ops : List Op) :
    arrivals s (op :: ops) = arr1 s op ++ arrivals (step s op) ops := by
  cases op <;> simp [arrivals, arr1]

/-! ### the timer invariant -/

structure TInv (s : Sys) : Prop where
  late : s.late = 1
  delay : 0 ≤ s.delay
  alive : s.armed = true ∨ s.tick.isSome = true
  loopOk : s.loop ≠ .panicked ∧ s.loop ≠ .stuck
  tickLe : ∀ v, s.tick = some v → v ≤ s.now + 1
  dl : ∀ c ∈ s.queue, c.deadline ≤ s.now + s.delay
  dueLe : s.armed = true → s.due ≤ s.now + max minute s.delay

theorem TInv.init (delay : Int) (n : Nat) (hd : 0 ≤ delay) : TInv (Sys.init delay n) := by
  constructor <;> simp [Sys.init, minute] <;> omega


theorem TInv.pushArm {s : Sys} (k : Nat) (h : TInv s) : TInv (s.pushArm k) := by
  obtain ⟨h1, h2, h3, h4, h5, h6, h7⟩ := h
  unfold Sys.pushArm
  simp only []
  split
  · constructor <;> simp_all
  · rename_i next rest hq
    simp only [setS_queue] at hq
    have hn := h6 next (by simp [hq])
    cases ha : s.armed
    · cases ht : s.tick
      · simp [ha, ht] at h3
      · constructor <;> simp_all [minute] <;> omega
    · constructor <;> simp_all [minute] <;> omega

theorem TInv.tickArm {s : Sys} (t : Int) (h : TInv s) : TInv (s.tickArm t) := by
  obtain ⟨h1, h2, h3, h4, h5, h6, h7⟩ := h
  unfold Sys.tickArm
  simp only []
  split
  · constructor <;> simp_all [minute] <;> omega
  · rename_i n rest hq
    have hn := h6 n (by simp [hq])
    by_cases hlt : n.deadline < t
    · simp only [hlt, if_true]
      split
      · constructor <;> simp_all [minute] <;> omega
      · rename_i n2 rest2
        have hn2 := h6 n2 (by simp [hq])
        constructor <;> simp_all [minute] <;> omega
    · simp only [hlt, if_false, hq]
      constructor <;> simp_all [minute] <;> omega

theorem TInv.setLoop {s : Sys} (lp : LPc) (h : TInv s) (h1 : lp ≠ .panicked) (h2 : lp ≠ .stuck) :
    TInv { s with loop := lp } := by
  obtain ⟨a, b, c, d, e, f, g⟩ := h
  constructor <;> simp_all

theorem TInv.select {s : Sys} (h : TInv s) : TInv s.select := by
  unfold Sys.select
  split
  · exact (h.setLoop .atSelect (by decide) (by decide)).pushArm _
  · exact (h.setLoop .atSelect (by decide) (by decide)).tickArm _
  · exact h.setLoop .parked (by decide) (by decide)

theorem TInv.fire {s : Sys} (dt : Nat) (h : TInv s) :
    TInv { s with now := s.now + dt, armed := false, tick := (match s.tick with | some t => some t | none => some (s.now + dt + s.late)) } := by
  obtain ⟨a, b, c, d, e, f, g⟩ := h
  constructor <;> simp_all
  · cases ht : s.tick <;> simp
  · intro v hv
    cases ht : s.tick
    · simp [ht] at hv; omega
    · rename_i w
      have := e w ht
      simp [ht] at hv; omega
  · intro c hc
    have := f c hc; omega

theorem TInv.step {s : Sys} (op : Op) (h : TInv s) : TInv (step s op) := by
  cases op with
  | send k =>
    simp only [Delay.step]
    split
    · obtain ⟨a, b, c, d, e, f, g⟩ := h
      constructor <;> simp_all
      intro c hc
      rcases hc with hc | hc
      · exact f c hc
      · subst hc; simp
    · exact h
  | notify k =>
    simp only [Delay.step]
    split
    · have h' : TInv (({ s with sendQ := s.sendQ ++ [k] } : Sys).setS k .sending) := by
        obtain ⟨a, b, c, d, e, f, g⟩ := h
        constructor <;> simp_all
      split
      · exact h'.select
      · exact h'
    · exact h
  | loop =>
    simp only [Delay.step]
    split
    · exact h.select
    · exact h
  | advance dt =>
    simp only [Delay.step]
    split
    · rename_i hc
      have h' := h.fire dt
      split
      · exact h'.select
      · exact h'
    · rename_i hc
      obtain ⟨a, b, c, d, e, f, g⟩ := h
      constructor <;> simp_all
      · intro v hv; have := e v hv; omega
      · intro c hc; have := f c hc; omega
      · intro ha; have := g ha; simp [ha] at hc; omega

theorem TInv.run {s : Sys} (ops : List Op) (h : TInv s) : TInv (run s ops) := by
  induction ops generalizing s with
  | nil => exact h
  | cons op ops ih => exact ih (h.step op)

theorem TInv.reach {s : Sys} (h : Reach s) : TInv s := by
  obtain ⟨delay, n, ops, hd, rfl⟩ := h
  exact (TInv.init delay n hd).run ops

/-! ### FIFO / exactly once -/

def ids (s : Sys) : List Nat := s.forwarded.map (·.1) ++ s.queue.map (·.id)

set_option linter.unusedSimpArgs false in
theorem ids_pushArm (s : Sys) (k : Nat) : ids (s.pushArm k) = ids s := by
  unfold Sys.pushArm
  simp only []
  split
  · rfl
  · cases ha : s.armed <;> cases ht : s.tick <;> simp [ids, ha, ht]

theorem ids_tickArm (s : Sys) (t : Int) : ids (s.tickArm t) = ids s := by
  unfold Sys.tickArm
  simp only []
  split
  · rename_i hq; simp [ids, hq]
  · rename_i n rest hq
    by_cases hlt : n.deadline < t
    · simp only [hlt, if_true]
      split <;> simp [ids, hq]
    · simp only [hlt, if_false, hq]
      simp [ids, hq]

theorem ids_select (s : Sys) : ids s.select = ids s := by
  unfold Sys.select
  split
  · rw [ids_pushArm]; rfl
  · rw [ids_tickArm]; rfl
  · rfl

theorem ids_step (s : Sys) (op : Op) : ids (step s op) = ids s ++ (arr1 s op).map (·.1) := by
  cases op with
  | send k =>
    simp only [Delay.step, arr1]
    split <;> simp [ids]
  | notify k =>
    simp only [Delay.step, arr1]
    split
    · split
      · rw [ids_select]; simp [ids]
      · simp [ids]
    · simp
  | loop =>
    simp only [Delay.step, arr1]
    split
    · rw [ids_select]; simp
    · simp
  | advance dt =>
    simp only [Delay.step, arr1]
    split
    · split
      · rw [ids_select]; simp [ids]
      · simp [ids]
    · simp [ids]

theorem ids_run (s : Sys) (ops : List Op) : ids (run s ops) = ids s ++ (arrivals s ops).map (·.1) := by
  induction ops generalizing s with
  | nil => simp [run, arrivals]
  | cons op ops ih =>
    rw [arrivals_cons]
    simp only [run]
    rw [ih, ids_step]
    simp


/-! ### delays are lower bounds -/

structure DInv (A : List (Nat × Int)) (s : Sys) : Prop where
  q : ∀ c ∈ s.queue, ∃ a, (c.id, a) ∈ A ∧ c.deadline = a + s.delay
  f : ∀ id t, (id, t) ∈ s.forwarded → ∃ a, (id, a) ∈ A ∧ a + s.delay ≤ t

theorem DInv.mono {A : List (Nat × Int)} {s : Sys} (B : List (Nat × Int)) (h : DInv A s) : DInv (A ++ B) s := by
  obtain ⟨hq, hf⟩ := h
  constructor
  · intro c hc
    obtain ⟨a, ha, he⟩ := hq c hc
    exact ⟨a, by simp [ha], he⟩
  · intro id t hc
    obtain ⟨a, ha, he⟩ := hf id t hc
    exact ⟨a, by simp [ha], he⟩

theorem DInv.setLoop {A : List (Nat × Int)} {s : Sys} (lp : LPc) (h : DInv A s) : DInv A { s with loop := lp } :=
  ⟨h.q, h.f⟩

set_option linter.unusedSimpArgs false in
theorem DInv.pushArm {A : List (Nat × Int)} {s : Sys} (k : Nat) (h : DInv A s) : DInv A (s.pushArm k) := by
  obtain ⟨hq, hf⟩ := h
  unfold Sys.pushArm
  simp only []
  split
  · exact ⟨hq, hf⟩
  · cases ha : s.armed <;> cases ht : s.tick <;> simp [ha, ht] <;> exact ⟨hq, hf⟩

theorem DInv.tickArm {A : List (Nat × Int)} {s : Sys} (t : Int) (hT : TInv s) (ht : s.tick = some t)
    (h : DInv A s) : DInv A (s.tickArm t) := by
  obtain ⟨hq, hf⟩ := h
  have htl := hT.tickLe t ht
  unfold Sys.tickArm
  simp only []
  split
  · exact ⟨hq, hf⟩
  · rename_i n rest hq'
    by_cases hlt : n.deadline < t
    · simp only [hlt, if_true]
      have key : DInv A { s with tick := none, queue := rest, forwarded := s.forwarded ++ [(n.id, s.now)] } := by
        constructor
        · intro c hc
          exact hq c (by simp only at hc; simp [hq', hc])
        · intro id t' hc
          simp only [List.mem_append, List.mem_singleton, Prod.mk.injEq] at hc
          rcases hc with hc | ⟨rfl, rfl⟩
          · exact hf id t' hc
          · obtain ⟨a, ha, he⟩ := hq n (by simp [hq'])
            exact ⟨a, ha, by simp only; omega⟩
      split <;> exact ⟨key.q, key.f⟩
    · simp only [hlt, if_false]
      split <;> exact ⟨hq, hf⟩

theorem DInv.select {A : List (Nat × Int)} {s : Sys} (hT : TInv s) (h : DInv A s) : DInv A s.select := by
  unfold Sys.select
  split
  · exact (h.setLoop .atSelect).pushArm _
  · rename_i t hq ht
    exact (h.setLoop .atSelect).tickArm t (hT.setLoop .atSelect (by decide) (by decide)) ht
  · exact h.setLoop .parked


theorem DInv.step {A : List (Nat × Int)} {s : Sys} (op : Op) (hT : TInv s) (h : DInv A s) :
    DInv (A ++ arr1 s op) (step s op) := by
  cases op with
  | send k =>
    simp only [Delay.step, arr1]
    split
    · obtain ⟨hq, hf⟩ := h
      constructor
      · intro c hc
        simp only [setS_queue, List.mem_append, List.mem_singleton] at hc
        rcases hc with hc | rfl
        · obtain ⟨a, ha, he⟩ := hq c hc
          exact ⟨a, by simp [ha], he⟩
        · exact ⟨s.now, by simp, rfl⟩
      · intro id t hc
        obtain ⟨a, ha, he⟩ := hf id t hc
        exact ⟨a, by simp [ha], he⟩
    · simpa using h
  | notify k =>
    simp only [Delay.step, arr1, List.append_nil]
    split
    · have h' : DInv A (({ s with sendQ := s.sendQ ++ [k] } : Sys).setS k .sending) := ⟨h.q, h.f⟩
      have hT' : TInv (({ s with sendQ := s.sendQ ++ [k] } : Sys).setS k .sending) := by
        obtain ⟨a, b, c, d, e, f, g⟩ := hT
        constructor <;> simp_all
      split
      · exact h'.select hT'
      · exact h'
    · exact h
  | loop =>
    simp only [Delay.step, arr1, List.append_nil]
    split
    · exact h.select hT
    · exact h
  | advance dt =>
    simp only [Delay.step, arr1, List.append_nil]
    split
    · have hT' := hT.fire dt
      have h' : DInv A { s with now := s.now + dt, armed := false, tick := (match s.tick with | some t => some t | none => some (s.now + dt + s.late)) } := ⟨h.q, h.f⟩
      split
      · exact h'.select hT'
      · exact h'
    · exact ⟨h.q, h.f⟩

theorem DInv.run {A : List (Nat × Int)} {s : Sys} (ops : List Op) (hT : TInv s) (h : DInv A s) :
    DInv (A ++ arrivals s ops) (run s ops) := by
  induction ops generalizing s A with
  | nil => simpa [Delay.run, arrivals] using h
  | cons op ops ih =>
    rw [arrivals_cons, ← List.append_assoc]
    exact ih (hT.step op) (h.step op hT)

theorem DInv.init (delay : Int) (n : Nat) : DInv [] (Sys.init delay n) := by
  constructor <;> simp [Sys.init]


/-! ### the configured delay never changes -/

theorem pushArm_delay (s : Sys) (k : Nat) : (s.pushArm k).delay = s.delay := by
  unfold Sys.pushArm
  simp only []
  split
  · rfl
  · cases ha : s.armed <;> cases ht : s.tick <;> simp

theorem tickArm_delay (s : Sys) (t : Int) : (s.tickArm t).delay = s.delay := by
  unfold Sys.tickArm
  simp only []
  split
  · rfl
  · rename_i n rest hq
    by_cases hlt : n.deadline < t
    · simp only [hlt, if_true]
      split <;> rfl
    · simp only [hlt, if_false]
      split <;> rfl

theorem select_delay (s : Sys) : s.select.delay = s.delay := by
  unfold Sys.select
  split
  · rw [pushArm_delay]
  · rw [tickArm_delay]
  · rfl

theorem step_delay (s : Sys) (op : Op) : (step s op).delay = s.delay := by
  cases op <;> simp only [Delay.step] <;> repeat' split
  all_goals first | rfl | (rw [select_delay]; done) | (rw [select_delay]; rfl)

theorem run_delay (s : Sys) (ops : List Op) : (run s ops).delay = s.delay := by
  induction ops generalizing s with
  | nil => rfl
  | cons op ops ih => simp only [Delay.run]; rw [ih, step_delay]

end TV.Proofs.Delay
