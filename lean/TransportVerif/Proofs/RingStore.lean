import TransportVerif.Proofs.RingRead
/-
`store` (the part of `Write` after the ring has room) appends one frame.
-/
namespace TV.Proofs.Ring
open TV TV.Ring TV.RingLink
open TV.RingSpec (Fifo)

theorem frame_get (p : List UInt8) (j : Nat) :
    (frame p)[j]?.getD 0 = if j = 0 then UInt8.ofNat (p.length >>> 8) else if j = 1 then UInt8.ofNat p.length
      else p[j - 2]?.getD 0 := by
  unfold frame
  match j with
  | 0 => simp
  | 1 => simp
  | j + 2 => simp

theorem store_fields (g : Ring) (p : List UInt8) :
    (g.store p).head = g.head ∧ (g.store p).count = g.count + 1 ∧
    (g.store p).limitCount = g.limitCount ∧ (g.store p).limitSize = g.limitSize ∧
    (g.store p).closed = g.closed ∧ (g.store p).hard = g.hard ∧
    (g.store p).data.size = g.data.size := by
  cases g
  simp only [Ring.store]
  split <;> simp

theorem store_tail (g : Ring) (p : List UInt8) (hg : Geo g)
    (hav : g.size + p.length + 3 ≤ g.data.size) :
    (g.store p).tail = widx g.data.size (g.tail + (p.length + 2)) := by
  have hsz : g.size = if g.head ≤ g.tail then g.tail - g.head else g.tail + g.data.size - g.head := rfl
  unfold Geo at hg
  cases g
  simp only [Ring.store, bump, widx] at *
  split <;> simp only [List.length_drop] <;> grind

theorem store_eq (g : Ring) (p : List UInt8) :
    g.store p =
      { g with
        data :=
          if bump g.data.size (bump g.data.size g.tail) +
              min (g.data.size - bump g.data.size (bump g.data.size g.tail)) p.length ≥ g.data.size then
            copyAt (copyAt ((g.data.setIfInBounds g.tail (UInt8.ofNat (p.length >>> 8))).setIfInBounds
              (bump g.data.size g.tail) (UInt8.ofNat p.length)) (bump g.data.size (bump g.data.size g.tail)) p) 0
              (p.drop (min (g.data.size - bump g.data.size (bump g.data.size g.tail)) p.length))
          else
            copyAt ((g.data.setIfInBounds g.tail (UInt8.ofNat (p.length >>> 8))).setIfInBounds
              (bump g.data.size g.tail) (UInt8.ofNat p.length)) (bump g.data.size (bump g.data.size g.tail)) p
        tail :=
          if bump g.data.size (bump g.data.size g.tail) +
              min (g.data.size - bump g.data.size (bump g.data.size g.tail)) p.length ≥ g.data.size then
            (p.drop (min (g.data.size - bump g.data.size (bump g.data.size g.tail)) p.length)).length
          else bump g.data.size (bump g.data.size g.tail) +
              min (g.data.size - bump g.data.size (bump g.data.size g.tail)) p.length
        count := g.count + 1 } := by
  cases g
  simp only [Ring.store]
  split <;> rfl

theorem store_data (g : Ring) (p : List UInt8) (hg : Geo g)
    (hav : g.size + p.length + 3 ≤ g.data.size) (i : Nat) (hi : i < g.data.size) :
    (g.store p).data[i]?.getD 0 =
      if (if g.tail ≤ i then i - g.tail else i + g.data.size - g.tail) < p.length + 2 then
        (frame p)[if g.tail ≤ i then i - g.tail else i + g.data.size - g.tail]?.getD 0
      else g.data[i]?.getD 0 := by
  have hsz : g.size = if g.head ≤ g.tail then g.tail - g.head else g.tail + g.data.size - g.head := rfl
  unfold Geo at hg
  rw [store_eq]
  simp only []
  have hcases : (g.tail + 2 < g.data.size) ∨ (g.tail + 2 = g.data.size) ∨ (g.tail + 1 = g.data.size) := by
    omega
  rcases hcases with hc | hc | hc
  · have h1 : bump g.data.size g.tail = g.tail + 1 := by unfold bump; rw [if_neg (by omega)]
    have h2 : bump g.data.size (g.tail + 1) = g.tail + 2 := by unfold bump; rw [if_neg (by omega)]
    simp only [h1, h2, apply_ite (fun (a : Array UInt8) => a[i]?.getD 0), copyAt_get, setIfInBounds_get,
      frame_get, List.getElem?_drop, copyAt_size, Array.size_setIfInBounds, List.length_drop]
    grind
  · have h1 : bump g.data.size g.tail = g.tail + 1 := by unfold bump; rw [if_neg (by omega)]
    have h2 : bump g.data.size (g.tail + 1) = 0 := by unfold bump; rw [if_pos (by omega)]
    simp only [h1, h2, apply_ite (fun (a : Array UInt8) => a[i]?.getD 0), copyAt_get, setIfInBounds_get,
      frame_get, List.getElem?_drop, copyAt_size, Array.size_setIfInBounds, List.length_drop]
    grind
  · have h1 : bump g.data.size g.tail = 0 := by unfold bump; rw [if_pos (by omega)]
    have h2 : bump g.data.size 0 = 1 := by unfold bump; rw [if_neg (by omega)]
    simp only [h1, h2, apply_ite (fun (a : Array UInt8) => a[i]?.getD 0), copyAt_get, setIfInBounds_get,
      frame_get, List.getElem?_drop, copyAt_size, Array.size_setIfInBounds, List.length_drop]
    grind

theorem frame_length (p : List UInt8) : (frame p).length = p.length + 2 := by simp [frame]

/-- `store` simulates the spec's append, given that the packet fits -/
theorem store_sim (g : Ring) (f : Fifo) (p : List UInt8) (hi : Inv g f)
    (hav : g.available p.length = true) (hp : p.length < 65536) :
    Inv (g.store p) { f with queue := f.queue ++ [p] } := by
  have hg := hi.geo
  rw [available_iff g hg] at hav
  have hf := store_fields g p
  have ht := store_tail g p hg hav
  have hd := store_data g p hg hav
  have hsz : g.size = if g.head ≤ g.tail then g.tail - g.head else g.tail + g.data.size - g.head := rfl
  have hlen := hi.len
  unfold Geo at hg
  have hL : 0 < g.data.size := by omega
  have hsz' : (g.store p).size = g.size + (p.length + 2) := by
    unfold Ring.size
    rw [hf.1, ht, hf.2.2.2.2.2.2]
    simp only [widx]
    split at hsz <;> split <;> split <;> omega
  refine ⟨?_, ?_, ?_, ?_, by rw [hf.2.2.1]; exact hi.lc, by rw [hf.2.2.2.1]; exact hi.ls,
    by rw [hf.2.2.2.2.1]; exact hi.cl, ?_⟩
  · unfold Geo
    rw [hf.1, ht, hf.2.2.2.2.2.2]
    have := widx_lt g.data.size (g.tail + (p.length + 2)) hL (by omega)
    omega
  · rw [hsz', frames_append, List.length_append, frame_length, hlen]
  · intro k hk
    rw [hsz'] at hk
    rw [hf.1, hf.2.2.2.2.2.2]
    have hi' : widx g.data.size (g.head + k) < g.data.size := widx_lt _ _ hL (by omega)
    rw [hd _ hi', frames_append, List.getElem?_append]
    have hj : (if g.tail ≤ widx g.data.size (g.head + k) then widx g.data.size (g.head + k) - g.tail
        else widx g.data.size (g.head + k) + g.data.size - g.tail) =
        if k < g.size then k + g.data.size - g.size else k - g.size := by
      simp only [widx]
      split at hsz <;> split <;> split <;> split <;> omega
    rw [hj]
    by_cases hk1 : k < g.size
    · rw [if_pos hk1, if_neg (by omega), if_pos (by omega)]
      exact hi.bytes k hk1
    · rw [if_neg hk1, if_pos (by omega), if_neg (by omega), hlen]
  · rw [hf.2.1, hi.count]; simp
  · intro q hq
    simp only [List.mem_append, List.mem_singleton] at hq
    rcases hq with hq | hq
    · exact hi.small q hq
    · rw [hq]; exact hp

end TV.Proofs.Ring
