import TransportVerif.Proofs.ReplayMain
/- helper lemmas for Props/C04 and Props/C05.  This file is the umbrella; the content is in
   * Proofs/FixedBig        bit-level lemmas about `FixedBig` (`new_bit`, `setBit_bit`, `lsh_bit`)
   * Proofs/ReplayArith     64-bit reductions, the explicit form of `wrapDiff`, `ahead`/`behind`
   * Proofs/ReplayBase      easy facts, `CheckGood`, the generic run induction `run_good`
   * Proofs/ReplayPlain     refinement invariant `Rp` of the plain detector
   * Proofs/ReplayWrap      the spec at the wrapping configuration, evaluation of `wrapCheck`
   * Proofs/ReplayWrapInv   refinement invariant `Rw` of the wrapping detector
   * Proofs/ReplayWrapStep  one `Check` of the wrapping detector against the spec
   * Proofs/ReplayWrapSmall the out-of-line state of the space of 2 numbers (`Rs`, `R2`)
   * Proofs/ReplayMain      run-level results (`run04`, `run05`, `plain_never_twice_gen`) -/
