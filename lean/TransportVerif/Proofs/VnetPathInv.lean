import TransportVerif.Proofs.VnetPathBase
/-
`same_flow_same_path`, part 2: the invariant.  Relative to the initial network `n0` there is a call
history `H k` for the NAT of every router `k` that leads from the constructed NAT (clock 0) to the
current NAT state and the current time, and the `route` of every chunk in a queue or in a hand-over log
is a chain of `Step n0 H` that starts where the chunk's flow starts and ends where the chunk is.
-/
set_option autoImplicit false
namespace TV.Proofs.Vnet
open TV TV.Nat TV.NatLink TV.Vnet TV.VnetLink
open TV.Proofs.NatStable (tr)

/-! ### records of single chunks -/

/-- what is known of a chunk wherever it is -/
structure Pre (n0 : Net) (H : Hist) (c : Chunk) : Prop where
  hops : c.hops = c.route.map (·.1)
  chain : Chain (Step n0 H) c.route
  start : ∀ e, c.route.head? = some e → StartE n0 c.origin c.odst e

/-- the chunk sits in container `p` -/
structure Good (n0 : Net) (H : Hist) (p : Ctr) (c : Chunk) : Prop where
  pre : Pre n0 H c
  last : c.route.getLast? = some (p, c.dst)

/-- the chunk may enter `e` next -/
def CanGo (n0 : Net) (H : Hist) (c : Chunk) (e : Ent) : Prop :=
  (c.route = [] → StartE n0 c.origin c.odst e) ∧ (∀ x, c.route.getLast? = some x → Step n0 H x e)

theorem Pre.mono {n0 : Net} {H H' : Hist} (hH : HLe H H') {c : Chunk} (a : Pre n0 H c) : Pre n0 H' c :=
  ⟨a.hops, Chain.mono (fun _ _ h => h.mono hH) _ a.chain, a.start⟩

theorem Good.mono {n0 : Net} {H H' : Hist} (hH : HLe H H') {p : Ctr} {c : Chunk} (a : Good n0 H p c) : Good n0 H' p c :=
  ⟨a.pre.mono hH, a.last⟩

theorem Good.canGo {n0 : Net} {H : Hist} {r : Nat} {c : Chunk} {e : Ent} (a : Good n0 H (.queue r) c)
    (h : Step n0 H (.queue r, c.dst) e) : CanGo n0 H c e := by
  refine ⟨fun hnil => ?_, fun x hx => ?_⟩
  · have := a.last
    rw [hnil] at this
    cases this
  · rw [a.last] at hx
    cases hx
    exact h

theorem good_ext {n0 : Net} {H : Hist} {c c' : Chunk} (p : Ctr) (hp : Pre n0 H c) (hg : CanGo n0 H c (p, c'.dst))
    (h1 : c'.hops = c.hops ++ [p]) (h2 : c'.route = c.route ++ [(p, c'.dst)]) (h3 : c'.origin = c.origin)
    (h4 : c'.odst = c.odst) : Good n0 H p c' := by
  refine ⟨⟨?_, ?_, ?_⟩, ?_⟩
  · rw [h1, h2, hp.hops]; simp
  · rw [h2]; exact chain_snoc _ _ hp.chain hg.2
  · rw [h2, h3, h4]
    intro e he
    cases hr : c.route with
    | nil =>
      rw [hr] at he
      simp only [List.nil_append, List.head?_cons, Option.some.injEq] at he
      subst he
      exact hg.1 hr
    | cons x t =>
      rw [hr] at he
      simp only [List.cons_append, List.head?_cons, Option.some.injEq] at he
      subst he
      exact hp.start x (by rw [hr]; rfl)
  · rw [h2]; simp

/-! ### what stays the same -/

/-- the fields of a router other than its queue -/
def Keep (x y : RouterM) : Prop :=
  x.netIP = y.netIP ∧ x.maskBits = y.maskBits ∧ x.parent = y.parent ∧ x.nics = y.nics ∧ x.nat = y.nat

def RSame (n n' : Net) : Prop := ∀ (k : Nat) (rt' : RouterM), n'.routers[k]? = some rt' → ∃ rt, n.routers[k]? = some rt ∧ Keep rt rt'

def HSame (n n' : Net) : Prop := ∀ (h : Nat) (hm' : HostM), n'.hosts[h]? = some hm' → ∃ hm : HostM, n.hosts[h]? = some hm ∧ hm.router = hm'.router

theorem RSame.refl (n : Net) : RSame n n := fun _ rt' h => ⟨rt', h, rfl, rfl, rfl, rfl, rfl⟩
theorem HSame.refl (n : Net) : HSame n n := fun _ hm' h => ⟨hm', h, rfl⟩

theorem getElem?_modify_cases {α : Type} (l : List α) (k j : Nat) (f : α → α) (y : α) (h : (l.modify k f)[j]? = some y) :
    (k = j ∧ ∃ x, l[j]? = some x ∧ y = f x) ∨ (k ≠ j ∧ l[j]? = some y) := by
  rw [List.getElem?_modify] at h
  by_cases e : k = j
  · subst e
    simp only [if_true] at h
    cases hx : l[k]? with
    | none => rw [hx] at h; cases h
    | some x =>
      rw [hx] at h
      simp only [Option.map_eq_map, Option.map_some, Option.some.injEq] at h
      exact .inl ⟨rfl, x, rfl, h.symm⟩
  · simp only [e, if_false] at h
    cases hx : l[j]? with
    | none => rw [hx] at h; cases h
    | some x =>
      rw [hx] at h
      simp only [Option.map_eq_map, Option.map_some, Option.some.injEq] at h
      subst h
      exact .inr ⟨e, rfl⟩

theorem RSame.modRouter (n : Net) (k : Nat) (f : RouterM → RouterM) (hf : ∀ x, n.routers[k]? = some x → Keep x (f x)) :
    RSame n (n.modRouter k f) := by
  intro j rt' h
  rcases getElem?_modify_cases _ _ _ _ _ h with ⟨rfl, x, hx, rfl⟩ | ⟨_, h'⟩
  · exact ⟨x, hx, hf x hx⟩
  · exact ⟨rt', h', rfl, rfl, rfl, rfl, rfl⟩

theorem HSame.modHost (n : Net) (h : Nat) (f : HostM → HostM) (hf : ∀ x, (f x).router = x.router) :
    HSame n (n.modHost h f) := by
  intro j hm' hj
  rcases getElem?_modify_cases _ _ _ _ _ hj with ⟨rfl, x, hx, rfl⟩ | ⟨_, h'⟩
  · exact ⟨x, hx, (hf x).symm⟩
  · exact ⟨hm', h', rfl⟩

/-! ### the invariant -/

structure PInv (n0 n : Net) (H : Hist) : Prop where
  rstat : ∀ (k : Nat) (rt : RouterM), n.routers[k]? = some rt → ∃ rt0 : RouterM, n0.routers[k]? = some rt0 ∧
    rt0.netIP = rt.netIP ∧ rt0.maskBits = rt.maskBits ∧ rt0.parent = rt.parent ∧ rt0.nics = rt.nics
  hstat : ∀ (h : Nat) (hm : HostM), n.hosts[h]? = some hm → ∃ hm0 : HostM, n0.hosts[h]? = some hm0 ∧ hm0.router = hm.router
  nat : ∀ (k : Nat) (rt : RouterM) (nat : NAT), n.routers[k]? = some rt → rt.nat = some nat → ∃ (rt0 : RouterM) (nat0 : NAT), n0.routers[k]? = some rt0 ∧
    rt0.nat = some nat0 ∧ runState (nat0, 0) (H k) = (nat, n.now)
  good : ∀ p l c, conts n p = some l → c ∈ l → Good n0 H p c

namespace PInv
variable {n0 n : Net} {H : Hist}

theorem transfer {n' : Net} (a : PInv n0 n H) (hr : RSame n n') (hh : HSame n n') (hnow : n'.now = n.now)
    (hc : ∀ p l c, conts n' p = some l → c ∈ l → Good n0 H p c) : PInv n0 n' H := by
  refine ⟨?_, ?_, ?_, hc⟩
  · intro k rt' h
    obtain ⟨rt, h1, k1, k2, k3, k4, _⟩ := hr k rt' h
    obtain ⟨rt0, h2, e1, e2, e3, e4⟩ := a.rstat k rt h1
    exact ⟨rt0, h2, e1.trans k1, e2.trans k2, e3.trans k3, e4.trans k4⟩
  · intro h hm' hj
    obtain ⟨hm, h1, k1⟩ := hh h hm' hj
    obtain ⟨hm0, h2, e1⟩ := a.hstat h hm h1
    exact ⟨hm0, h2, e1.trans k1⟩
  · intro k rt' nat h hn
    obtain ⟨rt, h1, _, _, _, _, k5⟩ := hr k rt' h
    obtain ⟨rt0, nat0, h2, h3, h4⟩ := a.nat k rt nat h1 (k5.trans hn)
    exact ⟨rt0, nat0, h2, h3, by rw [hnow]; exact h4⟩

theorem drop (a : PInv n0 n H) (c : Chunk) (d : Drop) : PInv n0 (n.drop c d) H :=
  ⟨a.rstat, a.hstat, a.nat, a.good⟩

theorem written (a : PInv n0 n H) (w : List Written) : PInv n0 { n with written := w } H :=
  ⟨a.rstat, a.hstat, a.nat, a.good⟩

theorem started (a : PInv n0 n H) (b : Bool) : PInv n0 { n with started := b } H :=
  ⟨a.rstat, a.hstat, a.nat, a.good⟩

theorem enq (a : PInv n0 n H) {k : Nat} {rt : RouterM} {c : Chunk} (hk : n.routers[k]? = some rt)
    (hg : Good n0 H (.queue k) (qHop k c)) : PInv n0 (enq n k c) H := by
  refine a.transfer (RSame.modRouter _ _ _ (fun _ _ => ⟨rfl, rfl, rfl, rfl, rfl⟩)) (HSame.refl _) rfl ?_
  intro p l c' hl hc'
  rw [conts_enq n k c rt.queue (queueAt_of_eq hk) p] at hl
  split at hl
  · rename_i hp
    subst hp
    cases hl
    rcases List.mem_append.1 hc' with h | h
    · exact a.good (.queue k) rt.queue c' (queueAt_of_eq hk) h
    · simp only [List.mem_singleton] at h
      subst h
      exact hg
  · exact a.good p l c' hl hc'

theorem pushTo (a : PInv n0 n H) {k : Nat} {c : Chunk} (hg : Good n0 H (.queue k) (qHop k c)) :
    PInv n0 (n.pushTo k c) H := by
  rcases pushTo_cases n k c with ⟨d, e⟩ | ⟨rt, hr, e⟩
  · rw [e]; exact a.drop _ _
  · rw [e]; exact a.enq hr hg

theorem handOver (a : PInv n0 n H) {h s : Nat} {sk : SockM} {c : Chunk} (hs : sockAt n h s = some sk)
    (hg : Good n0 H (.inbox h s) (iHop h s c)) : PInv n0 (handOver n h s c) H := by
  refine a.transfer (RSame.refl _) (HSame.modHost _ _ _ (fun _ => rfl)) rfl ?_
  intro p l c' hl hc'
  rw [conts_handOver n h s c sk hs p] at hl
  split at hl
  · rename_i hp
    subst hp
    cases hl
    rcases List.mem_append.1 hc' with h' | h'
    · exact a.good (.inbox h s) sk.delivered c' (by simp [conts, hs]) h'
    · simp only [List.mem_singleton] at h'
      subst h'
      exact hg
  · exact a.good p l c' hl hc'

theorem deliver (a : PInv n0 n H) {h : Nat} {c : Chunk} (hg : ∀ s, Good n0 H (.inbox h s) (iHop h s c)) :
    PInv n0 (n.deliver h c) H := by
  rcases deliver_cases n h c with ⟨d, e⟩ | ⟨hm, s, sk, h1, _, h3, _, e⟩
  · rw [e]; exact a.drop _ _
  · rw [e]; exact a.handOver (sockAt_of_eq h1 h3) (hg s)

theorem pop (a : PInv n0 n H) {r : Nat} {rt : RouterM} {c : Chunk} {rest : List Chunk} (hr : n.routers[r]? = some rt)
    (hq : rt.queue = c :: rest) : PInv n0 (pop n r rt rest) H := by
  refine a.transfer (RSame.modRouter _ _ _ ?_) (HSame.refl _) rfl ?_
  · intro x hx
    rw [hr] at hx
    cases hx
    exact ⟨rfl, rfl, rfl, rfl, rfl⟩
  · intro p l c' hl hc'
    rw [conts_pop n r rt rt rest hr p] at hl
    split at hl
    · rename_i hp
      subst hp
      cases hl
      exact a.good (.queue r) rt.queue c' (queueAt_of_eq hr) (by rw [hq]; exact List.mem_cons_of_mem _ hc')
    · exact a.good p l c' hl hc'

theorem modHost (a : PInv n0 n H) (h : Nat) (f : HostM → HostM) (hf : ∀ x, (f x).router = x.router)
    (hc : ∀ p l, conts (n.modHost h f) p = some l → l = [] ∨ conts n p = some l) : PInv n0 (n.modHost h f) H := by
  refine a.transfer (RSame.refl _) (HSame.modHost _ _ _ hf) rfl ?_
  intro p l c hl hcl
  rcases hc p l hl with rfl | h'
  · cases hcl
  · exact a.good p l c h' hcl

/-- the history of router `k` extended by one call -/
def upd (H : Hist) (k : Nat) (op : Nat.Op) : Hist := fun j => if j = k then H j ++ [op] else H j

theorem hle_upd (H : Hist) (k : Nat) (op : Nat.Op) : HLe H (upd H k op) := by
  intro j
  unfold upd
  split
  · exact List.prefix_append _ _
  · exact List.prefix_refl _

/-- one call of the NAT of router `k` -/
theorem natUpd (a : PInv n0 n H) {k : Nat} {rt : RouterM} {nat nat' : NAT} {op : Nat.Op} {out : Out}
    (hk : n.routers[k]? = some rt) (hnat : rt.nat = some nat) (hs : Nat.step (nat, n.now) op = ((nat', n.now), out)) :
    PInv n0 (n.modRouter k (fun x => { x with nat := some nat' })) (upd H k op) ∧
    ∃ rt0 nat0, n0.routers[k]? = some rt0 ∧ rt0.nat = some nat0 ∧ (op, out) ∈ tr (nat0, 0) (upd H k op k) := by
  obtain ⟨rt0, nat0, g1, g2, g3⟩ := a.nat k rt nat hk hnat
  have hupd : upd H k op k = H k ++ [op] := by simp [upd]
  constructor
  · refine ⟨?_, a.hstat, ?_, ?_⟩
    · intro j rt' h
      rcases getElem?_modify_cases _ _ _ _ _ h with ⟨rfl, x, hx, rfl⟩ | ⟨_, h'⟩
      · exact a.rstat k x hx
      · exact a.rstat j rt' h'
    · intro j rt' nat'' h hn
      rcases getElem?_modify_cases _ _ _ _ _ h with ⟨rfl, x, hx, rfl⟩ | ⟨e, h⟩
      · simp only [Option.some.injEq] at hn
        subst hn
        refine ⟨rt0, nat0, g1, g2, ?_⟩
        rw [hupd, runState_append, g3]
        show (Nat.step (nat, n.now) op).1 = _
        rw [hs]
        rfl
      · obtain ⟨rt0', nat0', q1, q2, q3⟩ := a.nat j rt' nat'' h hn
        refine ⟨rt0', nat0', q1, q2, ?_⟩
        have : upd H k op j = H j := by
          have : ¬ j = k := fun x => e x.symm
          simp [upd, this]
        rw [this]
        exact q3
    · intro p l c hl hc
      rw [conts_QEq (QEq.modRouter n k (fun x => { x with nat := some nat' }) (fun _ => rfl))] at hl
      exact (a.good p l c hl hc).mono (hle_upd H k op)
  · refine ⟨rt0, nat0, g1, g2, ?_⟩
    rw [hupd, tr_append, g3]
    apply List.mem_append_right
    simp only [tr, List.mem_singleton]
    rw [hs]

theorem adv (a : PInv n0 n H) (dt : Nat) : PInv n0 { n with now := n.now + dt } (fun k => H k ++ [.adv dt]) := by
  refine ⟨a.rstat, a.hstat, ?_, ?_⟩
  · intro k rt nat h hn
    obtain ⟨rt0, nat0, g1, g2, g3⟩ := a.nat k rt nat h hn
    refine ⟨rt0, nat0, g1, g2, ?_⟩
    rw [runState_append, g3]
    rfl
  · intro p l c hl hc
    exact (a.good p l c hl hc).mono (fun k => List.prefix_append _ _)

end PInv

/-! ### the steps -/

theorem contains_congr {x y : RouterM} (h1 : x.netIP = y.netIP) (h2 : x.maskBits = y.maskBits) (ip : Nat) :
    x.contains ip = y.contains ip := by
  simp only [RouterM.contains, h1, h2]

theorem forward_inv {n0 m : Net} {H : Hist} {r : Nat} {rt : RouterM} {c : Chunk}
    (a : PInv n0 m H) (hr : m.routers[r]? = some rt) (hc : Good n0 H (.queue r) c) :
    ∃ H', PInv n0 (m.forward r rt c) H' := by
  obtain ⟨rt0, h0, e1, e2, e3, e4⟩ := a.rstat r rt hr
  have hcont := contains_congr e1 e2 c.dst.ip
  unfold Net.forward
  split
  · rename_i hct
    rw [← hcont] at hct
    split
    · exact ⟨H, a.drop _ _⟩
    · rename_i h hl
      have hn : nicOf rt0 c.dst.ip = some (.host h) := by unfold nicOf; rw [e4]; exact hl
      refine ⟨H, a.deliver (fun s => ?_)⟩
      exact good_ext (.inbox h s) hc.pre (hc.canGo (.host r c.dst rt0 h s h0 hct hn)) rfl rfl rfl rfl
    · rename_i k hl
      have hn : nicOf rt0 c.dst.ip = some (.router k) := by unfold nicOf; rw [e4]; exact hl
      split
      · exact ⟨H, a.drop _ _⟩
      · rename_i child hk
        split
        · exact ⟨H, a.drop _ _⟩
        · rename_i nat hnat
          generalize hres : nat.translateInbound m.now c.src c.dst = res
          obtain ⟨nat', res⟩ := res
          simp only
          have hs : Nat.step (nat, m.now) (.inb c.src c.dst) = ((nat', m.now), .i res) := by
            simp only [Nat.step, hres]
          obtain ⟨a', rtk, nat0, q1, q2, q3⟩ := a.natUpd hk hnat hs
          refine ⟨PInv.upd H k (.inb c.src c.dst), ?_⟩
          split
          · rename_i dst'
            refine a'.pushTo ?_
            have hc' := hc.mono (PInv.hle_upd H k (.inb c.src c.dst))
            exact good_ext (.queue k) hc'.pre
              (hc'.canGo (.child r c.dst rt0 k rtk nat0 c.src dst' h0 hct hn q1 q2 q3)) rfl rfl rfl rfl
          · exact a'.drop _ _
  · rename_i hct
    rw [← hcont] at hct
    have hct' : rt0.contains c.dst.ip = false := by simpa using hct
    split
    · rename_i p nat hp hnat
      generalize hres : nat.translateOutbound m.now c.src c.dst = res
      obtain ⟨nat', res⟩ := res
      simp only
      have hs : Nat.step (nat, m.now) (.out c.src c.dst) = ((nat', m.now), .o res) := by
        simp only [Nat.step, hres]
      obtain ⟨a', _, _, _, _, _⟩ := a.natUpd hr hnat hs
      refine ⟨PInv.upd H r (.out c.src c.dst), ?_⟩
      split
      · rename_i src'
        refine a'.pushTo ?_
        have hc' := hc.mono (PInv.hle_upd H r (.out c.src c.dst))
        exact good_ext (.queue p) hc'.pre (hc'.canGo (.up r c.dst rt0 p h0 hct' (e3.trans hp))) rfl rfl rfl rfl
      · exact a'.drop _ _
      · exact a'.drop _ _
    · exact ⟨H, a.drop _ _⟩

theorem routeOne_inv {n0 n : Net} {H : Hist} (a : PInv n0 n H) (r : Nat) : ∃ H', PInv n0 (n.routeOne r) H' := by
  rcases routeOne_cases n r with ⟨e, _⟩ | ⟨rt, c, rest, h1, h2, e⟩
  · rw [e]; exact ⟨H, a⟩
  · rw [e]
    have hg : Good n0 H (.queue r) c := a.good (.queue r) rt.queue c (queueAt_of_eq h1) (by rw [h2]; exact List.mem_cons_self)
    have hr' : (pop n r rt rest).routers[r]? = some { rt with queue := rest } := by
      simp [pop, Net.modRouter, h1]
    exact forward_inv (a.pop h1 h2) hr' hg

theorem write_inv {n0 n : Net} {H : Hist} (a : PInv n0 n H) (h s : Nat) (dst : Addr) (payload : List UInt8) :
    PInv n0 (n.write h s dst payload).1 H := by
  unfold Net.write
  cases h1 : n.hosts[h]? with
  | none => exact a
  | some hm =>
    simp only
    cases h2 : hm.socks[s]? with
    | none => exact a
    | some sk =>
      simp only
      cases h3 : sourceIP hm sk dst with
      | none => exact a
      | some ip =>
        simp only
        have hpre : ∀ c : Chunk, c.hops = [] → c.route = [] → Pre n0 H c := by
          intro c q1 q2
          refine ⟨by rw [q1, q2]; rfl, by rw [q2]; trivial, ?_⟩
          intro e he
          rw [q2] at he
          cases he
        split
        · rename_i hlb
          refine (a.written _).deliver (fun s' => ?_)
          refine good_ext (.inbox h s') (hpre _ rfl rfl) ⟨fun _ => .inl ⟨hlb, s', rfl⟩, fun x hx => ?_⟩ rfl rfl rfl rfl
          cases hx
        · rename_i hlb
          cases h4 : hm.router with
          | none => exact a
          | some r =>
            obtain ⟨hm0, g1, g2⟩ := a.hstat h hm h1
            refine (a.written _).pushTo ?_
            refine good_ext (.queue r) (hpre _ rfl rfl)
              ⟨fun _ => .inr ⟨by simpa using hlb, hm0, r, g1, g2.trans h4, rfl⟩, fun x hx => ?_⟩ rfl rfl rfl rfl
            cases hx

theorem read_inv {n0 n : Net} {H : Hist} (a : PInv n0 n H) (h s : Nat) : PInv n0 (n.read h s).1 H := by
  unfold Net.read
  cases h1 : n.hosts[h]? with
  | none => exact a
  | some hm =>
    simp only
    cases h2 : hm.socks[s]? with
    | none => exact a
    | some sk =>
      simp only
      have hr : PInv n0 (modSock n h s (fun sk' => { sk' with inbox := (readInbox sk.remote sk.inbox).1 })) H :=
        a.modHost h _ (fun _ => rfl) (fun p l hl => .inr (by rw [← conts_read n h s _]; exact hl))
      cases h3 : readInbox sk.remote sk.inbox with
      | mk rest got =>
        rw [h3] at hr
        cases got <;> exact hr

theorem bind_inv {n0 n : Net} {H : Hist} (a : PInv n0 n H) (h ip port : Nat) (remote : Option Addr) :
    PInv n0 (n.bind h ip port remote).1 H := by
  unfold Net.bind
  cases h1 : n.hosts[h]? with
  | none => exact a
  | some hm =>
    simp only
    split
    · exact a
    · split
      · exact a
      · exact a.modHost h _ (fun _ => rfl) (fun p l hl => conts_addSock n h ip port remote hm h1 p l hl)

theorem step_inv {n0 n : Net} {H : Hist} (a : PInv n0 n H) (op : Vnet.Op) : ∃ H', PInv n0 (step n op) H' := by
  cases op with
  | write h s dst p => exact ⟨H, write_inv a h s dst p⟩
  | route r => exact routeOne_inv a r
  | read h s => exact ⟨H, read_inv a h s⟩
  | bind h ip port rem => exact ⟨H, bind_inv a h ip port rem⟩
  | close h s =>
    exact ⟨H, a.modHost h _ (fun _ => rfl) (fun p l hl => .inr (by rw [← conts_close n h s]; exact hl))⟩
  | adv dt => exact ⟨_, a.adv dt⟩
  | start => exact ⟨H, a.started true⟩
  | stop => exact ⟨H, a.started false⟩

theorem run_inv {n0 : Net} (ops : List Vnet.Op) : ∀ (n : Net) (H : Hist), PInv n0 n H → ∃ H', PInv n0 (run n ops) H' := by
  induction ops with
  | nil => intro n H a; exact ⟨H, a⟩
  | cons op ops ih =>
    intro n H a
    obtain ⟨H1, a1⟩ := step_inv a op
    exact ih _ H1 a1

theorem fresh2_inv {n0 : Net} (hf : Fresh2 n0) : PInv n0 n0 (fun _ => []) := by
  refine ⟨fun k rt h => ⟨rt, h, rfl, rfl, rfl, rfl⟩, fun h hm hh => ⟨hm, hh, rfl⟩, ?_, ?_⟩
  · intro k rt nat h hn
    refine ⟨rt, nat, h, hn, ?_⟩
    rw [hf.2.1]
    rfl
  · intro p l c hl hc
    have : l = [] := by
      cases p with
      | queue r => exact fresh_queueAt hf.1 r l hl
      | inbox h s =>
        have e' : (sockAt n0 h s).map (·.delivered) = some l := hl
        rw [fresh_sockAt hf.1] at e'
        cases e'
    subst this
    cases hc

theorem reach2_inv {n : Net} (h : Reach2 n) : ∃ n0 H, NatsNew n0 ∧ PInv n0 n H := by
  obtain ⟨n0, ops, hf, rfl⟩ := h
  obtain ⟨H, a⟩ := run_inv ops n0 _ (fresh2_inv hf)
  exact ⟨n0, H, hf.2.2, a⟩

end TV.Proofs.Vnet
