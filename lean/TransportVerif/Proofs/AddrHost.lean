import TransportVerif.Link.Addressing
/-
Helper lemmas for C13, host part: the well-formedness invariant of the socket table and what
`find`, `insert`, `delete`, `allocatable`, `assignPort` mean under it.
-/
namespace TV.Proofs.Addressing
open TV.Addressing TV.AddressingLink TV.AddressingSpec

abbrev PM := List (Nat × List Sock)

def socks (pm : PM) : List Sock := pm.flatMap (·.2)

theorem openSocks_eq (h : Host) : openSocks h = socks h.portMap := rfl

/-- two sockets do not conflict -/
def NoConf (a b : Sock) : Prop := ¬ (a.port = b.port ∧ (a.ip = 0 ∨ b.ip = 0 ∨ a.ip = b.ip))

theorem NoConf.symm {a b : Sock} (h : NoConf a b) : NoConf b a := by
  unfold NoConf at *; omega

structure PWf (pm : PM) : Prop where
  keys : pm.Pairwise (fun a b => a.1 ≠ b.1)
  ent : ∀ e ∈ pm, e.2 ≠ [] ∧ ∀ s ∈ e.2, s.port = e.1
  noconf : (socks pm).Pairwise NoConf

theorem pw_mem {α} {R : α → α → Prop} (hs : ∀ a b, R a b → R b a) {l : List α} (h : l.Pairwise R)
    {a b : α} (ha : a ∈ l) (hb : b ∈ l) : a = b ∨ R a b := by
  induction l with
  | nil => cases ha
  | cons c t ih =>
    rw [List.pairwise_cons] at h
    rcases List.mem_cons.mp ha with ha1 | ha1 <;> rcases List.mem_cons.mp hb with hb1 | hb1
    · exact Or.inl (ha1.trans hb1.symm)
    · rw [ha1]; exact Or.inr (h.1 _ hb1)
    · rw [hb1]; exact Or.inr (hs _ _ (h.1 _ ha1))
    · exact ih h.2 ha1 hb1

theorem socks_append (a b : PM) : socks (a ++ b) = socks a ++ socks b := by simp [socks]
theorem socks_cons (e : Nat × List Sock) (b : PM) : socks (e :: b) = e.2 ++ socks b := by simp [socks]
theorem mem_socks {pm : PM} {s : Sock} : s ∈ socks pm ↔ ∃ e ∈ pm, s ∈ e.2 := by simp [socks]

theorem pm_view {pm : PM} (hw : PWf pm) (port : Nat) :
    ∃ S1 S2 : List Sock,
      socks pm = S1 ++ (pmGet pm port).getD [] ++ S2 ∧
      socks (pmDel pm port) = S1 ++ S2 ∧
      (∀ s ∈ S1 ++ S2, s.port ≠ port) ∧
      (∀ s ∈ (pmGet pm port).getD [], s.port = port) ∧
      (∀ conns, pmGet pm port = some conns → conns ≠ []) ∧
      PWf (pmDel pm port) ∧
      (∀ e ∈ pmDel pm port, e.1 ≠ port) := by
  have hdelkeys : ∀ e ∈ pmDel pm port, e.1 ≠ port := by
    intro e he; simpa using (List.mem_filter.mp he).2
  cases hf : pm.find? (fun e => e.1 = port) with
  | none =>
    have hg : pmGet pm port = none := by simp [pmGet, hf]
    have hall : ∀ e ∈ pm, e.1 ≠ port := by
      intro e he; simpa using List.find?_eq_none.mp hf e he
    have hdel : pmDel pm port = pm := by
      unfold pmDel
      rw [List.filter_eq_self]
      intro e he; simpa using hall e he
    refine ⟨socks pm, [], by simp [hg], by simp [hdel], ?_, by simp [hg], by simp [hg], by rw [hdel]; exact hw, hdelkeys⟩
    intro s hs
    simp only [List.append_nil] at hs
    obtain ⟨e, he, hse⟩ := mem_socks.mp hs
    rw [(hw.ent e he).2 s hse]
    exact hall e he
  | some e =>
    obtain ⟨hpe, as, bs, hpm, has⟩ := List.find?_eq_some_iff_append.mp hf
    have hpe' : e.1 = port := by simpa using hpe
    have hg : pmGet pm port = some e.2 := by simp [pmGet, hf]
    have has' : ∀ a ∈ as, a.1 ≠ port := by intro a ha; simpa using has a ha
    subst hpm
    have hk := hw.keys
    rw [List.pairwise_append, List.pairwise_cons] at hk
    have hbs : ∀ b ∈ bs, b.1 ≠ port := by
      intro b hb; rw [← hpe']; exact fun h => hk.2.1.1 b hb h.symm
    have hdel : pmDel (as ++ e :: bs) port = as ++ bs := by
      unfold pmDel
      rw [List.filter_append, List.filter_cons]
      simp only [hpe', ne_eq, not_true_eq_false, decide_false, Bool.false_eq_true, if_false]
      congr 1
      · rw [List.filter_eq_self]; intro a ha; simpa using has' a ha
      · rw [List.filter_eq_self]; intro a ha; simpa using hbs a ha
    have hent := hw.ent
    have hnc := hw.noconf
    rw [socks_append, socks_cons] at hnc
    refine ⟨socks as, socks bs, by simp [hg, socks_append, socks_cons], by simp [hdel, socks_append], ?_, ?_, ?_, ?_, hdelkeys⟩
    · intro s hs
      rw [← socks_append] at hs
      obtain ⟨a, ha, hsa⟩ := mem_socks.mp hs
      have ha' : a ∈ as ++ e :: bs := by
        rcases List.mem_append.mp ha with ha | ha
        · exact List.mem_append_left _ ha
        · exact List.mem_append_right _ (List.mem_cons_of_mem _ ha)
      rw [(hent a ha').2 s hsa]
      rcases List.mem_append.mp ha with ha | ha
      · exact has' a ha
      · exact hbs a ha
    · intro s hs
      simp only [hg, Option.getD_some] at hs
      rw [← hpe']
      exact (hent e (by simp)).2 s hs
    · intro conns hc
      rw [hg] at hc
      cases hc
      exact (hent e (by simp)).1
    · rw [hdel]
      refine ⟨?_, ?_, ?_⟩
      · rw [List.pairwise_append]
        refine ⟨hk.1, hk.2.1.2, ?_⟩
        intro a ha b hb
        exact hk.2.2 a ha b (List.mem_cons_of_mem _ hb)
      · intro a ha
        apply hent a
        rcases List.mem_append.mp ha with ha | ha
        · exact List.mem_append_left _ ha
        · exact List.mem_append_right _ (List.mem_cons_of_mem _ ha)
      · rw [socks_append]
        rw [List.pairwise_append, List.pairwise_append] at hnc
        rw [List.pairwise_append]
        refine ⟨hnc.1, hnc.2.1.2.1, ?_⟩
        intro a ha b hb
        exact hnc.2.2 a ha b (List.mem_append_right _ hb)

theorem socks_pmSet (pm : PM) (port : Nat) (v : List Sock) :
    socks (pmSet pm port v) = socks (pmDel pm port) ++ v := by
  simp [pmSet, pmDel, socks]

theorem pwf_set {pm : PM} (hw : PWf pm) (port : Nat) (v : List Sock) (hv : v ≠ [])
    (hp : ∀ s ∈ v, s.port = port) (hn : v.Pairwise NoConf) : PWf (pmSet pm port v) := by
  obtain ⟨S1, S2, _, h2, h3, _, _, h6, h7⟩ := pm_view hw port
  refine ⟨?_, ?_, ?_⟩
  · show (pmDel pm port ++ [(port, v)]).Pairwise _
    rw [List.pairwise_append]
    refine ⟨h6.keys, by simp, ?_⟩
    intro a ha b hb
    simp at hb; subst hb
    exact h7 a ha
  · intro e he
    have he' : e ∈ pmDel pm port ++ [(port, v)] := he
    rcases List.mem_append.mp he' with he' | he'
    · exact h6.ent e he'
    · simp at he'; subst he'; exact ⟨hv, hp⟩
  · rw [socks_pmSet, List.pairwise_append]
    refine ⟨h6.noconf, hn, ?_⟩
    intro a ha b hb
    rw [h2] at ha
    have := h3 a ha
    have := hp b hb
    unfold NoConf; omega

theorem forall_socks_port {pm : PM} (hw : PWf pm) (port : Nat) (Q : Sock → Prop) :
    (∀ s ∈ socks pm, ¬ (s.port = port ∧ Q s)) ↔ ∀ s ∈ (pmGet pm port).getD [], ¬ Q s := by
  obtain ⟨S1, S2, h1, _, h3, h4, _, _, _⟩ := pm_view hw port
  constructor
  · intro h s hs
    have := h s (by rw [h1]; simp [hs])
    exact fun hq => this ⟨h4 s hs, hq⟩
  · intro h s hs ⟨hp, hq⟩
    rw [h1] at hs
    simp only [List.mem_append] at hs
    rcases hs with (hs | hs) | hs
    · exact h3 s (by simp [hs]) hp
    · exact h s hs hq
    · exact h3 s (by simp [hs]) hp

/-- `s` is free on the abstract host iff no open socket conflicts with it -/
theorem free_iff (h : Host) (ip port : Nat) :
    (absHost h).free { ip := ip, port := port } = true ↔
      ∀ s ∈ socks h.portMap, ¬ (s.port = port ∧ (s.ip = 0 ∨ ip = 0 ∨ s.ip = ip)) := by
  simp [HostS.free, absHost, conflict, openSocks_eq, and_assoc]

theorem find_none_iff {h : Host} (hw : PWf h.portMap) (ip port : Nat) :
    h.find ip port = none ↔
      ∀ s ∈ socks h.portMap, ¬ (s.port = port ∧ (s.ip = 0 ∨ ip = 0 ∨ s.ip = ip)) := by
  rw [forall_socks_port hw port (fun s => s.ip = 0 ∨ ip = 0 ∨ s.ip = ip)]
  obtain ⟨S1, S2, _, _, _, _, h5, _, _⟩ := pm_view hw port
  unfold Host.find
  cases hg : pmGet h.portMap port with
  | none => simp
  | some conns =>
    have hne := h5 conns hg
    simp only [Option.getD_some]
    by_cases hip : ip = 0
    · simp only [hip, if_true]
      cases conns with
      | nil => exact absurd rfl hne
      | cons c t => simp; exact ⟨c, fun h => absurd rfl h⟩
    · simp [hip]

theorem find_none_iff_free {h : Host} (hw : PWf h.portMap) (ip port : Nat) :
    h.find ip port = none ↔ (absHost h).free { ip := ip, port := port } = true := by
  rw [find_none_iff hw, free_iff]

/-- host invariant: well-formed socket table, and every open socket sits on an address of the host -/
structure HWf (h : Host) : Prop where
  pm : PWf h.portMap
  has : ∀ s ∈ socks h.portMap, h.hasIP s.ip = true

theorem hwf_new (ips : List Nat) : HWf (Host.new ips) := by
  refine ⟨⟨?_, ?_, ?_⟩, ?_⟩ <;> simp [Host.new, socks]

theorem conns_of_get {pm : PM} (hw : PWf pm) {port : Nat} {conns : List Sock}
    (hg : pmGet pm port = some conns) :
    conns ≠ [] ∧ (∀ c ∈ conns, c.port = port) ∧ conns.Pairwise NoConf ∧ (∀ c ∈ conns, c ∈ socks pm) := by
  obtain ⟨S1, S2, h1, _, _, h4, h5, _, _⟩ := pm_view hw port
  rw [hg] at h1 h4
  simp only [Option.getD_some] at h1 h4
  refine ⟨h5 conns hg, h4, ?_, ?_⟩
  · have := hw.noconf
    rw [h1, List.pairwise_append, List.pairwise_append] at this
    exact this.1.2.1
  · intro c hc; rw [h1]; simp [hc]


theorem insert_spec {h : Host} (hw : PWf h.portMap) (s : Sock) (h' : Host) (hi : h.insert s = some h') :
    PWf h'.portMap ∧ h'.ips = h.ips ∧ h'.nextId = h.nextId ∧ h'.closed = h.closed ∧
      (socks h'.portMap).Perm (socks h.portMap ++ [s]) := by
  obtain ⟨S1, S2, h1, h2, _, _, _, _, _⟩ := pm_view hw s.port
  unfold Host.insert at hi
  cases hg : pmGet h.portMap s.port with
  | none =>
    rw [hg] at hi
    simp only [Option.some.injEq] at hi
    subst hi
    refine ⟨pwf_set hw _ _ (by simp) (by simp) (by simp), rfl, rfl, rfl, ?_⟩
    simp only [socks_pmSet]
    rw [hg] at h1
    simp only [Option.getD_none, List.append_nil] at h1
    rw [h1, h2]
  | some conns =>
    rw [hg] at hi
    simp only at hi
    obtain ⟨c1, c2, c3, _⟩ := conns_of_get hw hg
    split at hi
    · cases hi
    · rename_i hs0
      split at hi
      · cases hi
      · rename_i hany
        simp only [Option.some.injEq] at hi
        subst hi
        simp only [List.any_eq_true, decide_eq_true_eq, not_exists, not_and] at hany
        refine ⟨pwf_set hw _ _ (by simp) ?_ ?_, rfl, rfl, rfl, ?_⟩
        · intro x hx
          rcases List.mem_append.mp hx with hx | hx
          · exact c2 x hx
          · simp at hx; rw [hx]
        · rw [List.pairwise_append]
          refine ⟨c3, by simp, ?_⟩
          intro a ha b hb
          simp at hb; subst hb
          have := hany a ha
          unfold NoConf; omega
        · simp only [socks_pmSet]
          rw [hg] at h1
          simp only [Option.getD_some] at h1
          rw [h1, h2, List.perm_iff_count]
          intro a
          simp only [List.count_append]
          omega

theorem insert_isSome {h : Host} (hw : PWf h.portMap) (s : Sock)
    (hfree : ∀ o ∈ socks h.portMap, ¬ (o.port = s.port ∧ (o.ip = 0 ∨ s.ip = 0 ∨ o.ip = s.ip))) :
    ∃ h', h.insert s = some h' := by
  rw [forall_socks_port hw s.port (fun o => o.ip = 0 ∨ s.ip = 0 ∨ o.ip = s.ip)] at hfree
  unfold Host.insert
  cases hg : pmGet h.portMap s.port with
  | none => exact ⟨_, rfl⟩
  | some conns =>
    rw [hg] at hfree
    simp only [Option.getD_some] at hfree
    obtain ⟨c1, _, _, _⟩ := conns_of_get hw hg
    simp only
    cases conns with
    | nil => exact absurd rfl c1
    | cons c t =>
      have hc := hfree c (by simp)
      rw [if_neg (by omega)]
      rw [if_neg]
      · exact ⟨_, rfl⟩
      · simp only [List.any_eq_true, decide_eq_true_eq, not_exists, not_and]
        intro x hx
        have := hfree x hx
        omega

theorem delete_spec {h : Host} (hw : PWf h.portMap) (ip port : Nat) :
    PWf (h.delete ip port).portMap ∧ (h.delete ip port).ips = h.ips ∧
      (∀ s ∈ socks (h.delete ip port).portMap, s ∈ socks h.portMap) := by
  obtain ⟨S1, S2, h1, h2, _, _, _, h6, _⟩ := pm_view hw port
  have hsubdel : ∀ s ∈ socks (pmDel h.portMap port), s ∈ socks h.portMap := by
    intro s hs
    rw [h2] at hs
    rw [h1]
    simp only [List.mem_append] at hs ⊢
    rcases hs with hs | hs
    · exact Or.inl (Or.inl hs)
    · exact Or.inr hs
  unfold Host.delete
  cases hg : pmGet h.portMap port with
  | none => exact ⟨hw, rfl, fun _ h => h⟩
  | some conns =>
    obtain ⟨c1, c2, c3, c4⟩ := conns_of_get hw hg
    simp only
    split
    · exact ⟨h6, rfl, hsubdel⟩
    · split
      · exact ⟨hw, rfl, fun _ h => h⟩
      · split
        · exact ⟨h6, rfl, hsubdel⟩
        · rename_i hne
          refine ⟨pwf_set hw _ _ ?_ ?_ ?_, rfl, ?_⟩
          · intro he; exact hne (by rw [he]; rfl)
          · intro s hs; exact c2 s (List.mem_filter.mp hs).1
          · exact c3.sublist List.filter_sublist
          · intro s hs
            simp only [socks_pmSet] at hs
            rcases List.mem_append.mp hs with hs | hs
            · exact hsubdel s hs
            · exact c4 s (List.mem_filter.mp hs).1

/-- the abstraction of one socket -/
def absS (s : Sock) : SockS := { ip := s.ip, port := s.port }

theorem absHost_open (h : Host) : (absHost h).open_ = (socks h.portMap).map absS := rfl

theorem erase_conns (ip p : Nat) : ∀ (conns : List Sock), (∀ c ∈ conns, c.port = p) →
    conns.Pairwise NoConf →
    (conns.map absS).erase { ip := ip, port := p } = (conns.filter (fun c => c.ip ≠ ip)).map absS := by
  intro conns
  induction conns with
  | nil => intro _ _; rfl
  | cons c t ih =>
    intro hp hn
    rw [List.pairwise_cons] at hn
    have hcp : c.port = p := hp c (by simp)
    have htp : ∀ x ∈ t, x.port = p := fun x hx => hp x (List.mem_cons_of_mem _ hx)
    by_cases hc : c.ip = ip
    · have : absS c = { ip := ip, port := p } := by simp [absS, hc, hcp]
      rw [List.map_cons, this, List.erase_cons_head, List.filter_cons]
      simp only [hc, ne_eq, not_true_eq_false, decide_false, Bool.false_eq_true, if_false]
      congr 1
      symm
      rw [List.filter_eq_self]
      intro x hx
      have h1 := hn.1 x hx
      have h2 := htp x hx
      unfold NoConf at h1
      simp only [ne_eq, decide_not, Bool.not_eq_eq_eq_not, Bool.not_true, decide_eq_false_iff_not]
      omega
    · have hne : (absS c == ({ ip := ip, port := p } : SockS)) = false := by
        simp [absS, hc]
      rw [List.map_cons, List.erase_cons_tail (by simp [hne]), List.filter_cons]
      simp only [ne_eq, hc, not_false_eq_true, decide_true, if_true, List.map_cons]
      rw [ih htp hn.2]

theorem delete_frees {h : Host} (hw : PWf h.portMap) (s : Sock) (hs : s ∈ socks h.portMap) :
    ((socks (h.delete s.ip s.port).portMap).map absS).Perm
      (((socks h.portMap).map absS).erase (absS s)) := by
  obtain ⟨S1, S2, h1, h2, h3, h4, _, h6, _⟩ := pm_view hw s.port
  cases hg : pmGet h.portMap s.port with
  | none =>
    exfalso
    rw [hg] at h1
    simp only [Option.getD_none, List.append_nil] at h1
    rw [h1] at hs
    exact h3 s hs rfl
  | some conns =>
    obtain ⟨c1, c2, c3, c4⟩ := conns_of_get hw hg
    rw [hg] at h1
    simp only [Option.getD_some] at h1
    have hsc : s ∈ conns := by
      rw [h1] at hs
      simp only [List.mem_append] at hs
      rcases hs with (hs | hs) | hs
      · exact absurd rfl (h3 s (by simp [hs]))
      · exact hs
      · exact absurd rfl (h3 s (by simp [hs]))
    have hother : ∀ c ∈ conns, c = s ∨ (c.ip ≠ 0 ∧ s.ip ≠ 0 ∧ c.ip ≠ s.ip) := by
      intro c hc
      rcases pw_mem (fun a b => NoConf.symm) c3 hc hsc with h | h
      · exact Or.inl h
      · right
        have := c2 c hc
        have := c2 s hsc
        unfold NoConf at h; omega
    -- in every case the table afterwards holds `S1 ++ S2 ++ rest`
    have hnew : socks (h.delete s.ip s.port).portMap
        = S1 ++ S2 ++ conns.filter (fun c => c.ip ≠ s.ip) := by
      unfold Host.delete
      rw [hg]
      simp only
      split
      · rename_i hs0
        have : conns.filter (fun c => c.ip ≠ s.ip) = [] := by
          rw [List.filter_eq_nil_iff]
          intro c hc
          rcases hother c hc with h | h
          · simp [h]
          · omega
        simp only [this, List.append_nil, h2]
      · rename_i hs0
        rw [if_neg]
        · split
          · rename_i hemp
            have : conns.filter (fun c => c.ip ≠ s.ip) = [] := by
              simpa [List.isEmpty_iff] using hemp
            simp only [this, List.append_nil, h2]
          · simp only [socks_pmSet, h2]
        · simp only [List.any_eq_true, decide_eq_true_eq, not_exists, not_and]
          intro c hc
          rcases hother c hc with h | h
          · rw [h]; exact hs0
          · exact h.1
    rw [hnew, h1]
    have hperm : ((S1 ++ conns ++ S2).map absS).Perm (conns.map absS ++ (S1 ++ S2).map absS) := by
      rw [List.perm_iff_count]
      intro a
      simp only [List.map_append, List.count_append]
      omega
    refine List.Perm.trans ?_ (List.Perm.erase (absS s) hperm).symm
    rw [List.erase_append_left _ (List.mem_map_of_mem hsc)]
    have := erase_conns s.ip s.port conns c2 c3
    rw [show absS s = ({ ip := s.ip, port := s.port } : SockS) from rfl, this]
    rw [List.perm_iff_count]
    intro a
    simp only [List.map_append, List.count_append]
    omega

theorem close_hwf {h : Host} (hw : HWf h) (s : Sock) : HWf (h.close s) := by
  unfold Host.close
  split
  · exact hw
  · obtain ⟨d1, d2, d3⟩ := delete_spec hw.pm s.ip s.port
    refine ⟨d1, ?_⟩
    intro x hx
    have := hw.has x (d3 x hx)
    simpa [Host.hasIP, d2] using this

theorem close_frees' {h : Host} (hw : HWf h) (s : Sock) (hs : s ∈ openSocks h)
    (hc : s.id ∉ h.closed) :
    ((absHost (h.close s)).open_).Perm ((absHost h).open_.erase { ip := s.ip, port := s.port }) := by
  have : h.close s = { (h.delete s.ip s.port) with closed := s.id :: h.closed } := by
    unfold Host.close
    rw [if_neg (by simpa using hc)]
  rw [this]
  exact delete_frees hw.pm s hs

theorem allocatable_iff {h : Host} (hw : HWf h) (ip port : Nat) (hip : h.hasIP ip = true) :
    h.allocatable ip port = true ↔ (absHost h).free { ip := ip, port := port } = true := by
  unfold Host.allocatable
  by_cases h0 : ip = 0
  · subst h0
    have hne : h.ips ≠ [] := by
      intro he; simp [Host.hasIP, he] at hip
    simp only [if_true, Bool.and_eq_true, Bool.not_eq_eq_eq_not, Bool.not_true, List.isEmpty_eq_false_iff,
      List.all_eq_true, Option.isNone_iff_eq_none]
    rw [free_iff]
    constructor
    · rintro ⟨_, hall⟩ s hs ⟨hp, _⟩
      have hhas := hw.has s hs
      by_cases hs0 : s.ip = 0
      · cases hips : h.ips with
        | nil => exact hne hips
        | cons i t =>
          have := (find_none_iff hw.pm i port).mp (hall i (by simp [hips])) s hs
          exact this ⟨hp, Or.inl hs0⟩
      · have hmem : s.ip ∈ h.ips := by simpa [Host.hasIP, hs0] using hhas
        have := (find_none_iff hw.pm s.ip port).mp (hall s.ip hmem) s hs
        exact this ⟨hp, Or.inr (Or.inr rfl)⟩
    · intro hfree
      refine ⟨hne, ?_⟩
      intro i _
      rw [find_none_iff hw.pm]
      intro s hs ⟨hp, _⟩
      exact hfree s hs ⟨hp, Or.inr (Or.inl rfl)⟩
  · simp only [h0, if_false, hip, if_true]
    simp only [List.isEmpty_cons, Bool.not_false, Bool.true_and, List.all_cons, List.all_nil, Bool.and_true,
      Option.isNone_iff_eq_none]
    exact find_none_iff_free hw.pm ip port

theorem assignPort_eq (h : Host) (ip off : Nat) : h.assignPort ip off =
    ((List.range 1000).map (fun i => (off + i) % 1000 + 5000)).find? (fun p => h.allocatable ip p) := rfl

theorem assignPort_some {h : Host} {ip off p : Nat} (ha : h.assignPort ip off = some p) :
    h.allocatable ip p = true ∧ 5000 ≤ p ∧ p ≤ 5999 := by
  rw [assignPort_eq] at ha
  refine ⟨List.find?_some ha, ?_⟩
  have := List.mem_of_find?_eq_some ha
  simp only [List.mem_map, List.mem_range] at this
  obtain ⟨i, _, rfl⟩ := this
  omega

theorem assignPort_none_iff {h : Host} {ip off : Nat} :
    h.assignPort ip off = none ↔ ∀ p, 5000 ≤ p → p ≤ 5999 → h.allocatable ip p = false := by
  rw [assignPort_eq]
  simp only [List.find?_eq_none, List.mem_map, List.mem_range]
  constructor
  · intro hall p h1 h2
    have := hall p ⟨(p - 5000 + 1000 - off % 1000) % 1000, by omega, by omega⟩
    simpa using this
  · rintro hall p ⟨i, hi, rfl⟩
    have := hall ((off + i) % 1000 + 5000) (by omega) (by omega)
    simp [this]

/-- the port chosen by `_dialUDP` -/
def chosen (h : Host) (ip port off : Nat) : Option Nat :=
  if port = 0 then h.assignPort ip off
  else if (h.find ip port).isSome then none else some port

theorem chosen_some {h : Host} (hw : HWf h) {ip port off p : Nat} (hip : h.hasIP ip = true)
    (hc : chosen h ip port off = some p) :
    (absHost h).free { ip := ip, port := p } = true ∧ (port ≠ 0 → p = port) ∧
      (port = 0 → 5000 ≤ p ∧ p ≤ 5999) := by
  unfold chosen at hc
  split at hc
  · rename_i h0
    obtain ⟨a1, a2⟩ := assignPort_some hc
    exact ⟨(allocatable_iff hw ip p hip).mp a1, fun h => absurd h0 h, fun _ => a2⟩
  · rename_i h0
    split at hc
    · cases hc
    · rename_i hf
      simp only [Option.some.injEq] at hc
      subst hc
      refine ⟨?_, fun _ => rfl, fun h => absurd h h0⟩
      rw [← find_none_iff_free hw.pm]
      simpa using hf

theorem chosen_none_iff {h : Host} (hw : HWf h) {ip port off : Nat} (hip : h.hasIP ip = true) :
    chosen h ip port off = none ↔
      (port ≠ 0 ∧ (absHost h).free { ip := ip, port := port } = false) ∨
      (port = 0 ∧ ∀ p, 5000 ≤ p → p ≤ 5999 → (absHost h).free { ip := ip, port := p } = false) := by
  unfold chosen
  split
  · rename_i h0
    rw [assignPort_none_iff]
    simp only [h0, ne_eq, not_true_eq_false, false_and, true_and, false_or]
    constructor
    · intro hall p h1 h2
      have := hall p h1 h2
      rw [← Bool.not_eq_true, allocatable_iff hw ip p hip, Bool.not_eq_true] at this
      exact this
    · intro hall p h1 h2
      have := hall p h1 h2
      rw [← Bool.not_eq_true, allocatable_iff hw ip p hip, Bool.not_eq_true]
      exact this
  · rename_i h0
    simp only [h0, ne_eq, not_false_eq_true, true_and, false_and, or_false]
    rw [← Bool.not_eq_true, ← find_none_iff_free hw.pm]
    cases h.find ip port <;> simp

theorem bind_cases {h : Host} (hw : HWf h) (ip port off : Nat) :
    (h.hasIP ip = false ∧ h.bind ip port off = (h, .cantAssign)) ∨
    (h.hasIP ip = true ∧ chosen h ip port off = none ∧
      h.bind ip port off = (h, if port = 0 then .exhausted else .inUse)) ∨
    (h.hasIP ip = true ∧ ∃ p h', chosen h ip port off = some p ∧
      h.insert { id := h.nextId, ip := ip, port := p } = some h' ∧
      h.bind ip port off = ({ h' with nextId := h.nextId + 1 }, .ok { id := h.nextId, ip := ip, port := p })) := by
  have hb : h.bind ip port off =
      if !h.hasIP ip then (h, .cantAssign)
      else match chosen h ip port off with
        | none => (h, if port = 0 then .exhausted else .inUse)
        | some p =>
          match h.insert { id := h.nextId, ip := ip, port := p } with
          | none => (h, .inUse)
          | some h' => ({ h' with nextId := h.nextId + 1 }, .ok { id := h.nextId, ip := ip, port := p }) := rfl
  cases hip : h.hasIP ip with
  | false => left; simp [hb, hip]
  | true =>
    right
    cases hc : chosen h ip port off with
    | none => left; simp [hb, hip, hc]
    | some p =>
      right
      obtain ⟨f1, _, _⟩ := chosen_some hw hip hc
      obtain ⟨h', hi⟩ := insert_isSome hw.pm { id := h.nextId, ip := ip, port := p }
        ((free_iff h ip p).mp f1)
      refine ⟨rfl, p, h', rfl, hi, ?_⟩
      simp [hb, hip, hc, hi]

theorem hasIP_congr {h h' : Host} (he : h'.ips = h.ips) (x : Nat) : h'.hasIP x = h.hasIP x := by
  simp [Host.hasIP, he]

theorem bind_hwf {h : Host} (hw : HWf h) (ip port off : Nat) : HWf (h.bind ip port off).1 := by
  rcases bind_cases hw ip port off with ⟨_, hb⟩ | ⟨_, _, hb⟩ | ⟨hip, p, h', _, hi, hb⟩
  · rw [hb]; exact hw
  · rw [hb]; exact hw
  · rw [hb]
    obtain ⟨i1, i2, _, _, i5⟩ := insert_spec hw.pm _ h' hi
    refine ⟨i1, ?_⟩
    intro x hx
    have hx' : x ∈ socks h.portMap ++ [{ id := h.nextId, ip := ip, port := p }] := i5.mem_iff.mp hx
    have hcg : ∀ y, Host.hasIP { h' with nextId := h.nextId + 1 } y = h.hasIP y :=
      fun y => hasIP_congr (h := h) (h' := { h' with nextId := h.nextId + 1 }) i2 y
    rw [hcg]
    rcases List.mem_append.mp hx' with hx' | hx'
    · exact hw.has x hx'
    · simp at hx'; subst hx'; exact hip

theorem step_hwf {r : HostRun} (hw : HWf r.h) (op : HostOp) : HWf (r.step op).1.h := by
  cases op with
  | bind ip port off => exact bind_hwf hw ip port off
  | close k =>
    show HWf (match r.created[k]? with
      | some s => (({ r with h := r.h.close s } : HostRun), (none : Option BindRes))
      | none => (r, none)).1.h
    cases r.created[k]? with
    | none => exact hw
    | some s => exact close_hwf hw s

theorem run_hwf : ∀ (ops : List HostOp) (r : HostRun), HWf r.h → HWf (r.run ops).h := by
  intro ops
  induction ops with
  | nil => intro r h; exact h
  | cons op ops ih => intro r h; exact ih _ (step_hwf h op)

theorem reach_hwf {r : HostRun} (hr : ReachHost r) : HWf r.h := by
  obtain ⟨ips, ops, rfl⟩ := hr
  exact run_hwf ops _ (hwf_new ips)

/-! ### the C13 host statements under the invariant -/

theorem open_sockets_never_conflict' {h : Host} (hw : HWf h) :
    (absHost h).open_.Pairwise (fun a b => conflict a b = false) := by
  rw [absHost_open, List.pairwise_map]
  refine hw.pm.noconf.imp ?_
  intro a b hab
  unfold NoConf at hab
  simp only [conflict, absS, Bool.and_eq_false_imp, beq_iff_eq, Bool.or_eq_false_iff, beq_eq_false_iff_ne, ne_eq]
  intro hp
  omega

theorem filter_unique {α} (p : α → Bool) : ∀ (l : List α),
    l.Pairwise (fun a b => ¬ (p a = true ∧ p b = true)) → l.filter p = (l.find? p).toList := by
  intro l
  induction l with
  | nil => intro _; rfl
  | cons c t ih =>
    intro h
    rw [List.pairwise_cons] at h
    by_cases hc : p c = true
    · simp only [List.filter_cons, hc, if_true, List.find?_cons_of_pos, Option.toList_some]
      congr 1
      rw [List.filter_eq_nil_iff]
      intro x hx hpx
      exact h.1 x hx ⟨hc, hpx⟩
    · simp only [List.filter_cons, hc, Bool.false_eq_true, if_false, List.find?_cons_of_neg, not_false_eq_true]
      exact ih h.2

theorem filter_socks_port {pm : PM} (hw : PWf pm) (port : Nat) (q : Sock → Bool) :
    (socks pm).filter (fun s => s.port == port && q s) = ((pmGet pm port).getD []).filter q := by
  obtain ⟨S1, S2, h1, _, h3, h4, _, _, _⟩ := pm_view hw port
  rw [h1, List.filter_append, List.filter_append]
  have e1 : S1.filter (fun s => s.port == port && q s) = [] := by
    rw [List.filter_eq_nil_iff]
    intro s hs
    have := h3 s (List.mem_append_left _ hs)
    simp [this]
  have e2 : S2.filter (fun s => s.port == port && q s) = [] := by
    rw [List.filter_eq_nil_iff]
    intro s hs
    have := h3 s (List.mem_append_right _ hs)
    simp [this]
  rw [e1, e2, List.nil_append, List.append_nil]
  apply List.filter_congr
  intro s hs
  simp [h4 s hs]

theorem find_returns_the_covering_socket' {h : Host} (hw : HWf h) (ip port : Nat) (hip : ip ≠ 0) :
    (absHost h).covering ip port =
      ((h.find ip port).map (fun s => ({ ip := s.ip, port := s.port } : SockS))).toList := by
  unfold HostS.covering
  rw [absHost_open, List.filter_map]
  have hfun : ((fun o : SockS => o.port == port && (o.ip == 0 || o.ip == ip)) ∘ absS)
      = (fun s : Sock => s.port == port && decide (s.ip = 0 ∨ s.ip = ip)) := by
    funext s
    simp only [Function.comp, absS, Bool.decide_or]
    congr 2 <;> rw [Nat.beq_eq_true_eq]
  rw [hfun, filter_socks_port hw.pm port (fun s => decide (s.ip = 0 ∨ s.ip = ip))]
  have hfind : h.find ip port
      = ((pmGet h.portMap port).getD []).find? (fun c => decide (c.ip = 0 ∨ c.ip = ip)) := by
    unfold Host.find
    cases pmGet h.portMap port with
    | none => rfl
    | some conns => simp [hip]
  rw [hfind]
  have hpw : ((pmGet h.portMap port).getD []).Pairwise
      (fun a b => ¬ (decide (a.ip = 0 ∨ a.ip = ip) = true ∧ decide (b.ip = 0 ∨ b.ip = ip) = true)) := by
    cases hg : pmGet h.portMap port with
    | none => simp
    | some conns =>
      obtain ⟨_, c2, c3, _⟩ := conns_of_get hw.pm hg
      simp only [Option.getD_some]
      refine List.Pairwise.imp_of_mem ?_ c3
      intro a b ha hb hab
      have := c2 a ha
      have := c2 b hb
      unfold NoConf at hab
      simp only [decide_eq_true_eq]
      omega
  rw [filter_unique _ _ hpw]
  cases ((pmGet h.portMap port).getD []).find? (fun c => decide (c.ip = 0 ∨ c.ip = ip)) <;> rfl

theorem mem_freePorts (h : Host) (ip p : Nat) :
    p ∈ (absHost h).freePorts ip ↔
      5000 ≤ p ∧ p ≤ 5999 ∧ (absHost h).free { ip := ip, port := p } = true := by
  unfold HostS.freePorts
  simp only [List.mem_filter, List.mem_map, List.mem_range]
  constructor
  · rintro ⟨⟨i, hi, rfl⟩, hf⟩
    exact ⟨by omega, by omega, hf⟩
  · rintro ⟨h1, h2, hf⟩
    exact ⟨⟨p - 5000, by omega, by omega⟩, hf⟩

theorem freePorts_nil_iff (h : Host) (ip : Nat) :
    (absHost h).freePorts ip = [] ↔
      ∀ p, 5000 ≤ p → p ≤ 5999 → (absHost h).free { ip := ip, port := p } = false := by
  constructor
  · intro he p h1 h2
    rw [← Bool.not_eq_true]
    intro hf
    have : p ∈ (absHost h).freePorts ip := (mem_freePorts h ip p).mpr ⟨h1, h2, hf⟩
    rw [he] at this
    cases this
  · intro hall
    rw [List.eq_nil_iff_forall_not_mem]
    intro p hp
    obtain ⟨h1, h2, hf⟩ := (mem_freePorts h ip p).mp hp
    rw [hall p h1 h2] at hf
    cases hf

theorem ephemeral' {h : Host} (hw : HWf h) (ip off : Nat) (hh : ip = 0 ∨ ip ∈ h.ips) :
    (∀ s, (h.bind ip 0 off).2 = .ok s → s.ip = ip ∧ s.port ∈ (absHost h).freePorts ip) ∧
    ((h.bind ip 0 off).2 = .exhausted ↔ (absHost h).freePorts ip = []) := by
  rcases bind_cases hw ip 0 off with ⟨hip, hb⟩ | ⟨hip, hc, hb⟩ | ⟨hip, p, h', hc, hi, hb⟩
  · rw [hb]
    refine ⟨by simp, ?_⟩
    -- the host has no address at all, hence no open socket
    have hemp : h.ips = [] ∧ ip = 0 := by
      rcases hh with h0 | hm
      · subst h0
        simp [Host.hasIP] at hip
        exact ⟨hip, rfl⟩
      · exfalso
        by_cases h0 : ip = 0
        · subst h0
          simp [Host.hasIP] at hip
          rw [hip] at hm; cases hm
        · simp [Host.hasIP, h0] at hip
          exact hip hm
    have hsocks : socks h.portMap = [] := by
      rw [List.eq_nil_iff_forall_not_mem]
      intro s hs
      have := hw.has s hs
      by_cases hs0 : s.ip = 0 <;> simp [Host.hasIP, hs0, hemp.1] at this
    constructor
    · intro hx; cases hx
    · intro he
      exfalso
      have : 5000 ∈ (absHost h).freePorts ip := by
        rw [mem_freePorts, free_iff, hsocks]
        simp
      rw [he] at this
      cases this
  · rw [hb]
    refine ⟨by simp, ?_⟩
    simp only [if_true, true_iff]
    rw [freePorts_nil_iff]
    rcases (chosen_none_iff hw hip).mp hc with ⟨hx, _⟩ | ⟨_, hall⟩
    · exact absurd rfl hx
    · exact hall
  · rw [hb]
    obtain ⟨f1, _, f3⟩ := chosen_some hw hip hc
    have hmem : p ∈ (absHost h).freePorts ip := (mem_freePorts h ip p).mpr ⟨(f3 rfl).1, (f3 rfl).2, f1⟩
    constructor
    · intro s hs
      simp only [BindRes.ok.injEq] at hs
      subst hs
      exact ⟨rfl, hmem⟩
    · constructor
      · intro hx; cases hx
      · intro he; rw [he] at hmem; cases hmem

/-- variant of the fixed statement: needs `hne` (a host without any address refuses the wildcard
    although the spec's `owns 0` is true), and the open list is only a permutation -/
theorem bind_succeeds_iff' {h : Host} (hw : HWf h) (ip port off : Nat) (hp : port ≠ 0)
    (hne : ip = 0 → h.ips ≠ []) :
    ((∃ s, (h.bind ip port off).2 = .ok s) ↔ (absHost h).bindOk ip port = true) ∧
    (∀ s, (h.bind ip port off).2 = .ok s → s.ip = ip ∧ s.port = port ∧
       ((absHost (h.bind ip port off).1).open_).Perm ((absHost h).open_ ++ [{ ip := ip, port := port }])) := by
  have howns : (absHost h).owns ip = h.hasIP ip := by
    by_cases h0 : ip = 0
    · subst h0
      have := hne rfl
      simp [HostS.owns, Host.hasIP, absHost, this]
    · simp [HostS.owns, Host.hasIP, absHost, h0]
  rcases bind_cases hw ip port off with ⟨hip, hb⟩ | ⟨hip, hc, hb⟩ | ⟨hip, p, h', hc, hi, hb⟩
  · rw [hb]
    simp [HostS.bindOk, howns, hip]
  · rw [hb]
    rcases (chosen_none_iff hw hip).mp hc with ⟨_, hf⟩ | ⟨hx, _⟩
    · simp [HostS.bindOk, hf, hp]
    · exact absurd hx hp
  · rw [hb]
    obtain ⟨f1, f2, _⟩ := chosen_some hw hip hc
    have hpp := f2 hp
    subst hpp
    refine ⟨?_, ?_⟩
    · simp [HostS.bindOk, howns, hip, f1]
    · intro s hs
      simp only [BindRes.ok.injEq] at hs
      subst hs
      refine ⟨rfl, rfl, ?_⟩
      obtain ⟨_, _, _, _, i5⟩ := insert_spec hw.pm _ h' hi
      have := i5.map absS
      rw [List.map_append] at this
      exact this

end TV.Proofs.Addressing
