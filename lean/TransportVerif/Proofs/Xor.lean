import TransportVerif.Model.Xor
/-
Proofs for C20: the word-wise XOR of xor_old.go meets the XorBytes contract.
Pointwise invariant `Good m0 p m`: starting from `m0`, the first `p` bytes of dst have been written.
-/
namespace TV.Proofs.Xor
open TV.Xor

structure Good (m0 : Mem) (p : Nat) (m : Mem) : Prop where
  alias : m.alias = m0.alias
  len : m.dst.length = m0.dst.length
  dst : ∀ i, m.dst[i]? = if i < p then some (m0.a.getD i 0 ^^^ m0.b.getD i 0) else m0.dst[i]?
  a : m.a = if m0.alias = .dstA then m.dst else m0.a
  b : m.b = if m0.alias = .dstB then m.dst else m0.b

theorem Good.init (m0 : Mem) (h : m0.Wf) : Good m0 0 m0 := by
  refine ⟨rfl, rfl, by simp, ?_, ?_⟩
  · split
    · rename_i hA; exact (h.1 hA).symm
    · rfl
  · split
    · rename_i hB; exact (h.2 hB).symm
    · rfl

theorem Good.readA {m0 m : Mem} {p : Nat} (h : m0.Wf) (g : Good m0 p m) (i : Nat) (hi : p ≤ i) :
    m.a.getD i 0 = m0.a.getD i 0 := by
  rw [g.a]; split
  · rename_i hA
    rw [List.getD_eq_getElem?_getD, List.getD_eq_getElem?_getD, g.dst, if_neg (by omega), h.1 hA]
  · rfl

theorem Good.readB {m0 m : Mem} {p : Nat} (h : m0.Wf) (g : Good m0 p m) (i : Nat) (hi : p ≤ i) :
    m.b.getD i 0 = m0.b.getD i 0 := by
  rw [g.b]; split
  · rename_i hB
    rw [List.getD_eq_getElem?_getD, List.getD_eq_getElem?_getD, g.dst, if_neg (by omega), h.2 hB]
  · rfl

theorem Good.store {m0 m : Mem} {p : Nat} (g : Good m0 p m) (hp : p < m0.dst.length)
    (q : Nat) (v : UInt8) (hq : q = p) (hv : v = m0.a.getD p 0 ^^^ m0.b.getD p 0) :
    Good m0 (p + 1) (m.store q v) := by
  subst hq hv
  refine ⟨g.alias, by simp [Mem.store, g.len], ?_, ?_, ?_⟩
  · intro i
    simp only [Mem.store, List.getElem?_set, g.len, g.dst]
    by_cases hi : q = i
    · subst hi; simp [hp]
    · simp only [hi, if_false]
      by_cases h2 : i < q
      · simp [h2, show i < q + 1 by omega]
      · simp [h2, show ¬ i < q + 1 by omega]
  · simp only [Mem.store, g.alias]
    split
    · rfl
    · rename_i hA; simp [g.a, hA]
  · simp only [Mem.store, g.alias]
    split
    · rfl
    · rename_i hB; simp [g.b, hB]

theorem Good.byteLoop {m0 : Mem} (h : m0.Wf) (k : Nat) : ∀ (m : Mem) (lo : Nat), Good m0 lo m →
    lo + k ≤ m0.dst.length → Good m0 (lo + k) (byteLoop m lo k) := by
  induction k with
  | zero => intro m lo g _; simpa [TV.Xor.byteLoop] using g
  | succ k ih =>
    intro m lo g hk
    simp only [TV.Xor.byteLoop]
    have := ih _ (lo + 1) (g.store (by omega) lo (m.a.getD lo 0 ^^^ m.b.getD lo 0) rfl
      (by rw [g.readA h lo (Nat.le_refl _), g.readB h lo (Nat.le_refl _)])) (by omega)
    simpa [Nat.add_assoc, Nat.add_comm 1 k] using this

theorem range8 : List.range 8 = [0, 1, 2, 3, 4, 5, 6, 7] := by decide

theorem Good.wordStep {m0 : Mem} (h : m0.Wf) (m : Mem) (i : Nat) (g : Good m0 (8 * i) m)
    (hk : 8 * i + 8 ≤ m0.dst.length) : Good m0 (8 * i + 8) (wordStep m i) := by
  simp only [TV.Xor.wordStep, range8, List.map, List.foldl, List.getD_cons_zero, List.getD_cons_succ]
  have ra := fun j => g.readA h (8 * i + j) (by omega)
  have rb := fun j => g.readB h (8 * i + j) (by omega)
  simp only [ra, rb]
  have g1 := g.store (by omega) (8 * i + 0) _ rfl rfl
  have g2 := g1.store (by omega) (8 * i + 1) _ rfl rfl
  have g3 := g2.store (by omega) (8 * i + 2) _ rfl rfl
  have g4 := g3.store (by omega) (8 * i + 3) _ rfl rfl
  have g5 := g4.store (by omega) (8 * i + 4) _ rfl rfl
  have g6 := g5.store (by omega) (8 * i + 5) _ rfl rfl
  have g7 := g6.store (by omega) (8 * i + 6) _ rfl rfl
  have g8 := g7.store (by omega) (8 * i + 7) _ rfl rfl
  exact g8

theorem Good.wordLoop {m0 : Mem} (h : m0.Wf) (k : Nat) : ∀ (m : Mem) (i : Nat), Good m0 (8 * i) m →
    8 * (i + k) ≤ m0.dst.length → Good m0 (8 * (i + k)) (wordLoop m i k) := by
  induction k with
  | zero => intro m i g _; simpa [TV.Xor.wordLoop] using g
  | succ k ih =>
    intro m i g hk
    simp only [TV.Xor.wordLoop]
    have := ih _ (i + 1) (by simpa [Nat.mul_add] using g.wordStep h m i (by omega)) (by omega)
    simpa [Nat.add_assoc, Nat.add_comm 1 k] using this

theorem Good.fastXOR {m0 : Mem} (h : m0.Wf) (n : Nat) (hn : n ≤ m0.dst.length) :
    Good m0 n (fastXOR m0 n) := by
  unfold TV.Xor.fastXOR
  have g1 : Good m0 (8 * (n / 8)) (if n / 8 > 0 then TV.Xor.wordLoop m0 0 (n / 8) else m0) := by
    split
    · have := Good.wordLoop h (n / 8) m0 0 (by simpa using Good.init m0 h) (by omega)
      simpa using this
    · rename_i h0
      have : n / 8 = 0 := by omega
      rw [this]; exact Good.init m0 h
  have e : n - n % 8 = 8 * (n / 8) := by omega
  have := Good.byteLoop h (n % 8) _ _ g1 (by omega)
  have e2 : 8 * (n / 8) + n % 8 = n := by omega
  simp only [e]
  rw [e2] at this
  exact this


/-- the dst list of the contract, pointwise -/
theorem contractDst_getElem? (a b d : List UInt8) (n : Nat) (hn : n = min a.length b.length)
    (i : Nat) :
    (List.zipWith (· ^^^ ·) (a.take n) (b.take n) ++ d.drop n)[i]? =
      if i < n then some (a.getD i 0 ^^^ b.getD i 0) else d[i]? := by
  have hl : (List.zipWith (· ^^^ ·) (a.take n) (b.take n)).length = n := by
    simp [List.length_zipWith, List.length_take]; omega
  split
  · rename_i hi
    rw [List.getElem?_append_left (by omega)]
    have ha : i < a.length := by omega
    have hb : i < b.length := by omega
    simp [List.getElem?_zipWith, hi, List.getElem?_eq_getElem ha,
      List.getElem?_eq_getElem hb, List.getD_eq_getElem?_getD]
  · rename_i hi
    rw [List.getElem?_append_right (by omega), hl, List.getElem?_drop]
    congr 1; omega

theorem Good.eq_contract {m0 m : Mem} {n : Nat} (hn : n = min m0.a.length m0.b.length)
    (hd : ¬ m0.dst.length < n) (g : Good m0 n m) : contract m0 = some (m, n) := by
  have hdst : m.dst = List.zipWith (· ^^^ ·) (m0.a.take n) (m0.b.take n) ++ m0.dst.drop n := by
    apply List.ext_getElem?
    intro i
    rw [g.dst, contractDst_getElem? _ _ _ n hn]
  unfold contract
  simp only [← hn, hd, if_false]
  congr 2
  cases m with
  | mk d a b al =>
    have h1 := g.alias; have h3 := g.a; have h4 := g.b
    simp only at h1 h3 h4 hdst
    subst h1 hdst
    simp only [Mem.mk.injEq, true_and, and_true]
    exact ⟨h3.symm, h4.symm⟩

theorem xor_old_correct (m : Mem) (h : m.Wf) : xorBytesOld m = contract m := by
  unfold xorBytesOld
  simp only
  split
  · rename_i h0
    exact (Good.eq_contract (n := 0) h0.symm (by omega) (Good.init m h)).symm
  · split
    · rename_i hd
      simp [contract, hd]
    · rename_i hd
      exact (Good.eq_contract rfl hd (Good.fastXOR h _ (by omega))).symm

/-- inversion of `contract m = some (m', n)` -/
theorem contract_some {m m' : Mem} {n : Nat} (h : contract m = some (m', n)) :
    n = min m.a.length m.b.length ∧ n ≤ m.dst.length ∧
    m'.dst = List.zipWith (· ^^^ ·) (m.a.take n) (m.b.take n) ++ m.dst.drop n ∧
    m'.a = (if m.alias = .dstA then m'.dst else m.a) ∧
    m'.b = (if m.alias = .dstB then m'.dst else m.b) := by
  unfold contract at h
  simp only at h
  split at h
  · cases h
  · rename_i hd
    simp only [Option.some.injEq, Prod.mk.injEq] at h
    obtain ⟨h1, h2⟩ := h
    subst h2 h1
    exact ⟨rfl, by omega, rfl, rfl, rfl⟩

end TV.Proofs.Xor
