import TransportVerif.Proofs.Vnet
/-
Generic lifting of an invariant `I n fly` (`fly` = the chunks in flight: popped from a queue or just
written, not yet placed) from the elementary updates to `step`, `run` and `Reach`.
-/
set_option autoImplicit false
namespace TV.Proofs.Vnet
open TV TV.Nat TV.Vnet TV.VnetLink

/-- append a socket (what `bind` does) -/
def addSock (n : Net) (h : Nat) (ip port : Nat) (remote : Option Addr) : Net :=
  n.modHost h (fun hm => { hm with socks := hm.socks ++ [({ ip, port, remote, inbox := [], delivered := [], closed := false } : SockM)] })

/-- the chunk a write creates -/
def newChunk (n : Net) (h s : Nat) (dst src : Addr) (payload : List UInt8) : Chunk :=
  { id := n.written.length, origin := (h, s), odst := dst, src := src, dst := dst, payload := payload, hops := [] }

/-- the network after recording a write -/
def addWritten (n : Net) (h s : Nat) (dst : Addr) (payload : List UInt8) : Net :=
  { n with written := n.written ++ [({ origin := (h, s), dst := dst, payload := payload } : Written)] }

structure IsInv (I : Net → List Chunk → Prop) : Prop where
  fresh : ∀ n, n.Fresh → I n []
  qeq : ∀ n n' fly, QEq n n' → I n fly → I n' fly
  sim : ∀ n c c', Sim c c' → I n [c] → I n [c']
  drop : ∀ n c d, I n [c] → I (n.drop c d) []
  enq : ∀ n r rt c, n.routers[r]? = some rt → I n [c] → I (enq n r c) []
  handOver : ∀ n h s hm sk c, n.hosts[h]? = some hm → hm.socks[s]? = some sk → sk.covers c.dst = true →
    I n [c] → I (handOver n h s c) []
  pop : ∀ n r rt c rest, n.routers[r]? = some rt → rt.queue = c :: rest → I n [] → I (pop n r rt rest) [c]
  write : ∀ n h s hm sk dst src payload, n.hosts[h]? = some hm → hm.socks[s]? = some sk → I n [] →
    I (addWritten n h s dst payload) [newChunk n h s dst src payload]
  read : ∀ n h s sk rest, sockAt n h s = some sk → rest <:+ sk.inbox → I n [] →
    I (modSock n h s (fun sk => { sk with inbox := rest })) []
  bind : ∀ n h hm ip port remote, n.hosts[h]? = some hm → I n [] → I (addSock n h ip port remote) []
  close : ∀ n h s, I n [] → I (modSock n h s (fun sk => { sk with closed := true })) []
  now : ∀ n t, I n [] → I { n with now := t } []
  started : ∀ n b, I n [] → I { n with started := b } []

namespace IsInv
variable {I : Net → List Chunk → Prop} (hI : IsInv I)
include hI

theorem pushTo (n : Net) (r : Nat) (c : Chunk) (h : I n [c]) : I (n.pushTo r c) [] := by
  rcases pushTo_cases n r c with ⟨d, e⟩ | ⟨rt, hr, e⟩
  · rw [e]; exact hI.drop _ _ _ h
  · rw [e]; exact hI.enq _ _ _ _ hr h

theorem deliver (n : Net) (hh : Nat) (c : Chunk) (h : I n [c]) : I (n.deliver hh c) [] := by
  rcases deliver_cases n hh c with ⟨d, e⟩ | ⟨hm, s, sk, h1, _, h3, h4, e⟩
  · rw [e]; exact hI.drop _ _ _ h
  · rw [e]; exact hI.handOver _ _ _ _ _ _ h1 h3 h4 h

theorem forward (n : Net) (r : Nat) (rt : RouterM) (c : Chunk) (h : I n [c]) : I (n.forward r rt c) [] := by
  obtain ⟨n1, c', hq, hs, hres⟩ := forward_cases n r rt c
  have h1 : I n1 [c'] := hI.sim _ _ _ hs (hI.qeq _ _ _ hq h)
  rcases hres with ⟨d, e⟩ | ⟨k, e⟩ | ⟨hh, e⟩
  · rw [e]; exact hI.drop _ _ _ h1
  · rw [e]; exact hI.pushTo _ _ _ h1
  · rw [e]; exact hI.deliver _ _ _ h1

theorem routeOne (n : Net) (r : Nat) (h : I n []) : I (n.routeOne r) [] := by
  rcases routeOne_cases n r with ⟨e, _⟩ | ⟨rt, c, rest, h1, h2, e⟩
  · rw [e]; exact h
  · rw [e]; exact hI.forward _ _ _ _ (hI.pop _ _ _ _ _ h1 h2 h)

theorem writeStep (n : Net) (h s : Nat) (dst : Addr) (payload : List UInt8) (hn : I n []) :
    I (n.write h s dst payload).1 [] := by
  unfold Net.write
  cases h1 : n.hosts[h]? with
  | none => exact hn
  | some hm =>
    simp only
    cases h2 : hm.socks[s]? with
    | none => exact hn
    | some sk =>
      simp only
      cases h3 : sourceIP hm sk dst with
      | none => exact hn
      | some ip =>
        simp only
        have hw := hI.write n h s hm sk dst { ip := ip, port := sk.port } payload h1 h2 hn
        split
        · exact hI.deliver _ _ _ hw
        · cases h4 : hm.router with
          | none => exact hn
          | some r => exact hI.pushTo _ _ _ hw

theorem readStep (n : Net) (h s : Nat) (hn : I n []) : I (n.read h s).1 [] := by
  unfold Net.read
  cases h1 : n.hosts[h]? with
  | none => exact hn
  | some hm =>
    simp only
    cases h2 : hm.socks[s]? with
    | none => exact hn
    | some sk =>
      simp only
      have hr := hI.read n h s sk (readInbox sk.remote sk.inbox).1 (sockAt_of_eq h1 h2) (readInbox_suffix _ _) hn
      cases h3 : readInbox sk.remote sk.inbox with
      | mk rest got =>
        rw [h3] at hr
        cases got <;> exact hr

theorem bindStep (n : Net) (h ip port : Nat) (remote : Option Addr) (hn : I n []) : I (n.bind h ip port remote).1 [] := by
  unfold Net.bind
  cases h1 : n.hosts[h]? with
  | none => exact hn
  | some hm =>
    simp only
    split
    · exact hn
    · split
      · exact hn
      · exact hI.bind n h hm ip port remote h1 hn

theorem step (n : Net) (op : Vnet.Op) (hn : I n []) : I (step n op) [] := by
  cases op with
  | write h s dst p => exact hI.writeStep n h s dst p hn
  | route r => exact hI.routeOne n r hn
  | read h s => exact hI.readStep n h s hn
  | bind h ip port rem => exact hI.bindStep n h ip port rem hn
  | close h s => exact hI.close n h s hn
  | adv dt => exact hI.now n _ hn
  | start => exact hI.started n _ hn
  | stop => exact hI.started n _ hn

theorem run (ops : List Vnet.Op) : ∀ n, I n [] → I (run n ops) [] := by
  induction ops with
  | nil => intro n hn; exact hn
  | cons op ops ih => intro n hn; exact ih _ (hI.step n op hn)

theorem reach (n : Net) (h : Reach n) : I n [] := by
  obtain ⟨n0, ops, hf, rfl⟩ := h
  exact hI.run ops n0 (hI.fresh n0 hf)

end IsInv

theorem IsInv.and {I J : Net → List Chunk → Prop} (hI : IsInv I) (hJ : IsInv J) :
    IsInv (fun n fly => I n fly ∧ J n fly) where
  fresh n h := ⟨hI.fresh n h, hJ.fresh n h⟩
  qeq n n' fly h a := ⟨hI.qeq n n' fly h a.1, hJ.qeq n n' fly h a.2⟩
  sim n c c' h a := ⟨hI.sim n c c' h a.1, hJ.sim n c c' h a.2⟩
  drop n c d a := ⟨hI.drop n c d a.1, hJ.drop n c d a.2⟩
  enq n r rt c h a := ⟨hI.enq n r rt c h a.1, hJ.enq n r rt c h a.2⟩
  handOver n h s hm sk c h1 h2 h3 a := ⟨hI.handOver n h s hm sk c h1 h2 h3 a.1, hJ.handOver n h s hm sk c h1 h2 h3 a.2⟩
  pop n r rt c rest h1 h2 a := ⟨hI.pop n r rt c rest h1 h2 a.1, hJ.pop n r rt c rest h1 h2 a.2⟩
  write n h s hm sk dst src p h1 h2 a := ⟨hI.write n h s hm sk dst src p h1 h2 a.1, hJ.write n h s hm sk dst src p h1 h2 a.2⟩
  read n h s sk rest h1 h2 a := ⟨hI.read n h s sk rest h1 h2 a.1, hJ.read n h s sk rest h1 h2 a.2⟩
  bind n h hm ip port rem h1 a := ⟨hI.bind n h hm ip port rem h1 a.1, hJ.bind n h hm ip port rem h1 a.2⟩
  close n h s a := ⟨hI.close n h s a.1, hJ.close n h s a.2⟩
  now n t a := ⟨hI.now n t a.1, hJ.now n t a.2⟩
  started n b a := ⟨hI.started n b a.1, hJ.started n b a.2⟩

end TV.Proofs.Vnet
