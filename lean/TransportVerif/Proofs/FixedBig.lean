import TransportVerif.Model.FixedBig
/-
Bit-level lemmas about `FixedBig`: after this file the detectors are reasoned about only
through `bit`, `Wf` and the three equations `new_bit`, `setBit_bit`, `lsh_bit`.
-/
namespace TV.FixedBig

/-- bit `p` of a word list, little endian -/
def bitAt (bits : List Word) (p : Nat) : Bool := (bits.getD (p / 64) 0#64).getLsbD (p % 64)

/-! ### words -/

theorem shl_getLsbD (x : Word) (n j : Nat) (hj : j < 64) :
    (shl x n).getLsbD j = (decide (n ≤ j) && x.getLsbD (j - n)) := by
  unfold shl
  split
  · have : ¬ n ≤ j := by omega
    simp [this]
  · rw [BitVec.getLsbD_shiftLeft]
    by_cases h : n ≤ j
    · simp [h, Nat.not_lt.mpr h, hj]
    · simp [h, Nat.lt_of_not_le h]

theorem shr_getLsbD (x : Word) (c j : Nat) :
    (shr x c).getLsbD j = x.getLsbD (c + j) := by
  unfold shr
  split
  · rw [BitVec.getLsbD_of_ge x (c + j) (by omega)]; simp
  · simp [BitVec.getLsbD_ushiftRight]

theorem one_shl_getLsbD (p j : Nat) (hp : p < 64) (hj : j < 64) :
    (shl 1#64 p).getLsbD j = decide (j = p) := by
  rw [shl_getLsbD _ _ _ hj, BitVec.getLsbD_one]
  by_cases h : j = p
  · subst h; simp
  · by_cases h2 : p ≤ j
    · have : j - p ≠ 0 := by omega
      simp [h, this]
    · simp [h, h2]

theorem and_one_shl_ne_zero (w : Word) (p : Nat) (hp : p < 64) :
    ((w &&& shl 1#64 p) != 0#64) = w.getLsbD p := by
  by_cases h : w.getLsbD p = true
  · rw [h]
    simp only [bne_iff_ne, ne_eq]
    intro h0
    have : (w &&& shl 1#64 p).getLsbD p = true := by
      rw [BitVec.getLsbD_and, one_shl_getLsbD p p hp hp, h]; simp
    rw [h0] at this
    simp at this
  · have h' : w.getLsbD p = false := by simpa using h
    rw [h']
    have : w &&& shl 1#64 p = 0#64 := by
      apply BitVec.eq_of_getLsbD_eq
      intro j hj
      rw [BitVec.getLsbD_and, one_shl_getLsbD p j hp hj]
      by_cases hjp : j = p
      · subst hjp; simp [h']
      · simp [hjp]
    simp [this]

theorem mask_getLsbD (r j : Nat) (hr0 : 0 < r) (hr : r < 64) (_hj : j < 64) :
    (shl 1#64 r - 1#64).getLsbD j = decide (j < r) := by
  have hsh : (shl 1#64 r).toNat = 2 ^ r := by
    unfold shl
    rw [if_neg (by omega)]
    have h1 : 2 ^ r < 2 ^ 64 := Nat.pow_lt_pow_right (by omega) hr
    rw [BitVec.toNat_shiftLeft, Nat.shiftLeft_eq]
    have : (1#64).toNat = 1 := rfl
    rw [this, Nat.one_mul, Nat.mod_eq_of_lt h1]
  have h1 : 2 ^ r < 2 ^ 64 := Nat.pow_lt_pow_right (by omega) hr
  have h0 : 0 < 2 ^ r := Nat.pow_pos (by omega)
  rw [← BitVec.testBit_toNat, BitVec.toNat_sub, hsh]
  have : (2 ^ 64 - (1#64).toNat + 2 ^ r) % 2 ^ 64 = 2 ^ r - 1 := by
    simp only [BitVec.toNat_ofNat]
    have e : 2 ^ 64 - 1 % 2 ^ 64 + 2 ^ r = (2 ^ r - 1) + 2 ^ 64 := by omega
    rw [e, Nat.add_mod_right, Nat.mod_eq_of_lt (by omega)]
  rw [this, Nat.testBit_two_pow_sub_one]

/-! ### lists of words -/

theorem getD_set (l : List Word) (k i : Nat) (w : Word) :
    (l.set k w).getD i 0#64 = if i = k ∧ k < l.length then w else l.getD i 0#64 := by
  simp only [List.getD_eq_getElem?_getD, List.getElem?_set]
  by_cases h : k = i
  · subst h
    by_cases h2 : k < l.length
    · simp [h2]
    · simp [h2]
  · have : ¬ i = k := fun e => h e.symm
    simp [h, this]

theorem lshLoop_length (n k : Nat) (bits : List Word) :
    (lshLoop n k bits).length = bits.length := by
  induction k generalizing bits with
  | zero => rfl
  | succ k ih => simp [lshLoop, ih]

theorem lshWord_congr (bits bits' : List Word) (n i : Nat)
    (h : ∀ j, j ≤ i → bits'.getD j 0#64 = bits.getD j 0#64) :
    lshWord bits' n i = lshWord bits n i := by
  unfold lshWord
  simp only
  rw [h i (Nat.le_refl _), h (i - n / 64) (by omega), h (i - n / 64 - 1) (by omega)]

/-- the in-place descending loop computes every word from the *original* list -/
theorem lshLoop_getD (n k : Nat) (bits : List Word) (hk : k ≤ bits.length) (i : Nat) :
    (lshLoop n k bits).getD i 0#64 = if i < k then lshWord bits n i else bits.getD i 0#64 := by
  induction k generalizing bits with
  | zero => simp [lshLoop]
  | succ k ih =>
    simp only [lshLoop]
    rw [ih _ (by simp; omega)]
    by_cases hik : i < k
    · rw [if_pos hik, if_pos (by omega)]
      apply lshWord_congr
      intro j hj
      rw [getD_set, if_neg (by omega)]
    · rw [if_neg hik, getD_set]
      by_cases hik2 : i = k
      · subst hik2
        rw [if_pos ⟨rfl, by omega⟩, if_pos (by omega)]
      · rw [if_neg (by omega), if_neg (by omega)]

/-- per-word bit lemma of the left shift -/
theorem lshWord_getLsbD (bits : List Word) (n i j : Nat) (hj : j < 64) :
    (lshWord bits n i).getLsbD j = (decide (n ≤ 64 * i + j) && bitAt bits (64 * i + j - n)) := by
  unfold lshWord bitAt
  simp only [BitVec.getLsbD_or]
  rw [shl_getLsbD _ _ _ hj]
  by_cases hq : n / 64 ≤ i
  · rw [if_pos hq]
    by_cases h1 : 1 ≤ i - n / 64
    · rw [if_pos h1, BitVec.getLsbD_or, shl_getLsbD _ _ _ hj, shr_getLsbD]
      by_cases hr : n % 64 ≤ j
      · have e1 : (64 * i + j - n) / 64 = i - n / 64 := by omega
        have e2 : (64 * i + j - n) % 64 = j - n % 64 := by omega
        have e3 : n ≤ 64 * i + j := by omega
        rw [e1, e2, BitVec.getLsbD_of_ge _ (64 - n % 64 + j) (by omega)]
        by_cases hn : n ≤ j
        · have e4 : i - n / 64 = i := by omega
          have e5 : j - n % 64 = j - n := by omega
          simp [hn, hr, e3, e4, e5]
        · simp [hn, hr, e3]
      · have e1 : (64 * i + j - n) / 64 = i - n / 64 - 1 := by omega
        have e2 : (64 * i + j - n) % 64 = 64 - n % 64 + j := by omega
        have e3 : n ≤ 64 * i + j := by omega
        have hn : ¬ n ≤ j := by omega
        rw [e1, e2]
        simp [hn, hr, e3]
    · rw [if_neg h1, shl_getLsbD _ _ _ hj]
      by_cases hr : n % 64 ≤ j
      · have e1 : (64 * i + j - n) / 64 = i - n / 64 := by omega
        have e2 : (64 * i + j - n) % 64 = j - n % 64 := by omega
        have e3 : n ≤ 64 * i + j := by omega
        rw [e1, e2]
        by_cases hn : n ≤ j
        · have e4 : i - n / 64 = i := by omega
          have e5 : j - n % 64 = j - n := by omega
          simp [hn, hr, e3, e4, e5]
        · simp [hn, hr, e3]
      · have e3 : ¬ n ≤ 64 * i + j := by omega
        have hn : ¬ n ≤ j := by omega
        simp [hn, hr, e3]
  · rw [if_neg hq]
    have e3 : ¬ n ≤ 64 * i + j := by omega
    have hn : ¬ n ≤ j := by omega
    simp [hn, e3]

/-! ### the structure -/

/-- well-formedness: enough words, and the top mask keeps every bit below `n` -/
def Wf (s : FixedBig) : Prop :=
  0 < s.bits.length ∧ s.n ≤ 64 * s.bits.length ∧
  ∀ j, 64 * (s.bits.length - 1) + j < s.n → s.msbMask.getLsbD j = true

theorem bit_eq (s : FixedBig) (i : Nat) :
    s.bit i = (decide (i < s.n) && bitAt s.bits i) := by
  unfold bit bitAt
  split
  · have : ¬ i < s.n := by omega
    simp [this]
  · have : i < s.n := by omega
    rw [and_one_shl_ne_zero _ _ (by omega)]
    simp [this]

theorem new_n (n : Nat) : (new n).n = n := rfl

theorem new_wf (n : Nat) : Wf (new n) := by
  unfold Wf new
  simp only [List.length_replicate]
  refine ⟨by split <;> omega, by split <;> omega, ?_⟩
  intro j hj
  have hj64 : j < 64 := by split at hj <;> omega
  by_cases h : n % 64 ≠ 0
  · rw [if_pos h, mask_getLsbD _ _ (by omega) (by omega) hj64]
    simp only [decide_eq_true_eq]
    split at hj <;> omega
  · rw [if_neg h, BitVec.getLsbD_allOnes]
    simp [hj64]

theorem bitAt_replicate (k p : Nat) : bitAt (List.replicate k 0#64) p = false := by
  unfold bitAt
  simp only [List.getD_eq_getElem?_getD, List.getElem?_replicate]
  split <;> simp

theorem new_bit (n i : Nat) : (new n).bit i = false := by
  rw [bit_eq]
  have : (new n).bits = List.replicate (if (n + 63) / 64 = 0 then 1 else (n + 63) / 64) 0#64 := rfl
  rw [this, bitAt_replicate]; simp

theorem setBit_n (s : FixedBig) (i : Nat) : (s.setBit i).n = s.n := by
  unfold setBit; split <;> rfl

theorem setBit_wf (s : FixedBig) (i : Nat) (h : Wf s) : Wf (s.setBit i) := by
  unfold setBit; split
  · exact h
  · simpa [Wf] using h

theorem setBit_bit (s : FixedBig) (h : Wf s) (i j : Nat) :
    (s.setBit i).bit j = (decide (j < s.n) && (decide (j = i) || s.bit j)) := by
  rw [bit_eq, setBit_n, bit_eq]
  by_cases hj : j < s.n
  · simp only [hj, decide_true, Bool.true_and]
    unfold setBit
    split
    · have : ¬ j = i := by omega
      simp [this]
    · simp only
      unfold bitAt
      rw [getD_set]
      obtain ⟨_, h2, _⟩ := h
      by_cases hw : j / 64 = i / 64
      · rw [if_pos ⟨hw, by omega⟩, BitVec.getLsbD_or, one_shl_getLsbD _ _ (by omega) (by omega), hw]
        by_cases hji : j = i
        · subst hji; simp
        · have : ¬ j % 64 = i % 64 := by omega
          simp [hji, this]
      · rw [if_neg (by omega)]
        have : ¬ j = i := by intro e; subst e; exact hw rfl
        simp [this]
  · simp [hj]

theorem lsh_n (s : FixedBig) (k : Nat) : (s.lsh k).n = s.n := by
  unfold lsh; split <;> rfl

theorem lsh_wf (s : FixedBig) (k : Nat) (h : Wf s) : Wf (s.lsh k) := by
  unfold lsh; split
  · exact h
  · simpa [Wf, lshLoop_length] using h

theorem lsh_zero (s : FixedBig) : s.lsh 0 = s := by simp [lsh]

/-- a left shift by `k > 0` moves bit `i - k` to `i`, inside the width -/
theorem lsh_bit (s : FixedBig) (h : Wf s) (k i : Nat) (hk : 0 < k) :
    (s.lsh k).bit i = (decide (k ≤ i) && decide (i < s.n) && s.bit (i - k)) := by
  rw [bit_eq, lsh_n, bit_eq]
  by_cases hi : i < s.n
  · have hik : i - k < s.n := by omega
    simp only [hi, hik, decide_true, Bool.true_and, Bool.and_true]
    unfold lsh
    rw [if_neg (by omega)]
    simp only
    obtain ⟨h1, h2, h3⟩ := h
    have hlen := lshLoop_length k s.bits.length s.bits
    have hword : (lshLoop k s.bits.length s.bits).getD (i / 64) 0#64 = lshWord s.bits k (i / 64) := by
      rw [lshLoop_getD _ _ _ (Nat.le_refl _), if_pos (by omega)]
    have hbit : (lshWord s.bits k (i / 64)).getLsbD (i % 64)
        = (decide (k ≤ i) && bitAt s.bits (i - k)) := by
      rw [lshWord_getLsbD _ _ _ _ (by omega)]
      have : 64 * (i / 64) + i % 64 = i := by omega
      rw [this]
    unfold bitAt at hbit ⊢
    rw [getD_set, hlen]
    by_cases hl : i / 64 = s.bits.length - 1
    · rw [if_pos ⟨hl, by omega⟩, BitVec.getLsbD_and, ← hl, hword, hbit,
        h3 (i % 64) (by omega)]
      simp
    · rw [if_neg (by omega), hword, hbit]
  · simp [hi]

end TV.FixedBig
