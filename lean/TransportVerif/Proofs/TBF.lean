import TransportVerif.Link.TBF
/-
Proofs for C15 (token bucket filter, exact-arithmetic instance).
Core Lean only: `grind` for linear arithmetic over `Rat`, `omega` for `Int`/`Nat`.
-/
namespace TV.Proofs.TBF
open TV TV.TBF TV.TBFLink

/-! ### the `Num Rat` instance is ordinary rational arithmetic -/

@[simp] theorem ofInt_rat (i : Int) : (Num.ofInt i : Rat) = (i : Rat) := rfl
@[simp] theorem add_rat (a b : Rat) : Num.add a b = a + b := rfl
@[simp] theorem sub_rat (a b : Rat) : Num.sub a b = a - b := rfl
@[simp] theorem mul_rat (a b : Rat) : Num.mul a b = a * b := rfl
@[simp] theorem div_rat (a b : Rat) : Num.div a b = a / b := rfl
@[simp] theorem lt_rat (a b : Rat) : Num.lt a b = decide (a < b) := rfl

/-- `Duration.Seconds()` is exact over the rationals -/
theorem seconds_rat (dt : Int) : (seconds dt : Rat) = (dt : Rat) / 1000000000 := by
  have h := Int.mul_ediv_add_emod dt 1000000000
  have h2 : ((1000000000 * (dt / 1000000000) + dt % 1000000000 : Int) : Rat) = (dt : Rat) := by rw [h]
  simp at h2
  simp only [seconds, ofInt_rat, add_rat, div_rat]
  grind

theorem minN_rat (a b : Rat) : minN a b = if b < a then b else a := by
  simp [minN]

theorem minN_le_left (a b : Rat) : minN a b ≤ a := by
  rw [minN_rat]; split <;> grind

theorem minN_le_right (a b : Rat) : minN a b ≤ b := by
  rw [minN_rat]; split <;> grind

theorem le_minN (a b c : Rat) (h1 : c ≤ a) (h2 : c ≤ b) : c ≤ minN a b := by
  rw [minN_rat]; split <;> grind

/-! ### refill -/

/-- the credit added by a refill of `dt` nanoseconds -/
def credit (rate dt : Int) : Rat := (rate : Rat) * (dt : Rat) / 8000000000

theorem refill_tokens (t : TBF Rat) (dt : Int) :
    (t.refill dt).tokens = minN (t.maxBurst : Rat) (t.tokens + credit t.rate dt) := by
  simp only [TBF.refill, ofInt_rat, add_rat, div_rat, mul_rat, seconds_rat, credit]
  congr 2
  grind

@[simp] theorem refill_lastRefill (t : TBF Rat) (dt : Int) : (t.refill dt).lastRefill = t.lastRefill := rfl
@[simp] theorem refill_rate (t : TBF Rat) (dt : Int) : (t.refill dt).rate = t.rate := rfl
@[simp] theorem refill_maxBurst (t : TBF Rat) (dt : Int) : (t.refill dt).maxBurst = t.maxBurst := rfl
@[simp] theorem refill_queue (t : TBF Rat) (dt : Int) : (t.refill dt).queue = t.queue := rfl
@[simp] theorem refill_queueBytes (t : TBF Rat) (dt : Int) : (t.refill dt).queueBytes = t.queueBytes := rfl
@[simp] theorem refill_queueMax (t : TBF Rat) (dt : Int) : (t.refill dt).queueMax = t.queueMax := rfl

theorem credit_nonneg (rate dt : Int) (hr : 0 ≤ rate) (hdt : 0 ≤ dt) : 0 ≤ credit rate dt := by
  have h1 : (0 : Rat) ≤ (rate : Rat) := Rat.intCast_nonneg.mpr hr
  have h2 : (0 : Rat) ≤ (dt : Rat) := Rat.intCast_nonneg.mpr hdt
  have h3 := Rat.mul_nonneg h1 h2
  unfold credit
  grind

theorem credit_mono (rate Rmax dt : Int) (hr : rate ≤ Rmax) (hdt : 0 ≤ dt) :
    credit rate dt ≤ credit Rmax dt := by
  have h1 : (rate : Rat) ≤ (Rmax : Rat) := Rat.intCast_le_intCast.mpr hr
  have h2 : (0 : Rat) ≤ (dt : Rat) := Rat.intCast_nonneg.mpr hdt
  have h3 := Rat.mul_le_mul_of_nonneg_right h1 h2
  unfold credit
  grind

@[simp] theorem credit_zero (rate : Int) : credit rate 0 = 0 := by
  unfold credit
  have : ((0 : Int) : Rat) = 0 := by simp
  rw [this]
  grind

@[simp] theorem credit_zero' (rate : Int) : credit rate ((0 : Nat) : Int) = 0 := credit_zero rate

theorem credit_add (rate a b : Int) : credit rate (a + b) = credit rate a + credit rate b := by
  unfold credit
  have : ((a + b : Int) : Rat) = (a : Rat) + (b : Rat) := by simp
  rw [this]
  grind

theorem refill_bounds (t : TBF Rat) (dt : Int) (h0 : 0 ≤ t.tokens) (hdt : 0 ≤ dt) (hr : 0 ≤ t.rate)
    (hb : 0 ≤ t.maxBurst) :
    0 ≤ (t.refill dt).tokens ∧ (t.refill dt).tokens ≤ t.maxBurst := by
  rw [refill_tokens]
  refine ⟨le_minN _ _ _ (Rat.intCast_nonneg.mpr hb) ?_, minN_le_left _ _⟩
  have := credit_nonneg t.rate dt hr hdt
  grind

/-! ### bytes -/

@[simp] theorem bytes_nil : bytes [] = 0 := rfl
@[simp] theorem bytes_cons (p : Pkt) (l : List Pkt) : bytes (p :: l) = p.size + bytes l := by
  simp [bytes]
@[simp] theorem bytes_append (a b : List Pkt) : bytes (a ++ b) = bytes a + bytes b := by
  simp [bytes]

/-! ### drain -/

structure DrainSpec (t : TBF Rat) (r : TBF Rat × List Pkt) : Prop where
  spent : (bytes r.2 : Rat) + r.1.tokens = t.tokens
  nonneg : 0 ≤ t.tokens → 0 ≤ r.1.tokens
  queue : r.2 ++ r.1.queue = t.queue
  rate : r.1.rate = t.rate
  maxBurst : r.1.maxBurst = t.maxBurst
  lastRefill : r.1.lastRefill = t.lastRefill
  queueMax : r.1.queueMax = t.queueMax

theorem drain_spec (fuel : Nat) : ∀ t : TBF Rat, DrainSpec t (t.drain fuel) := by
  induction fuel with
  | zero => intro t; constructor <;> simp [TBF.drain] <;> grind
  | succ n ih =>
    intro t
    unfold TBF.drain
    split
    · constructor <;> simp [*] <;> grind
    · rename_i p rest hq
      split
      · constructor <;> simp [*] <;> grind
      · rename_i hlt
        simp only [ofInt_rat, lt_rat, decide_eq_true_eq] at hlt
        have := ih { t with queue := rest, queueBytes := t.queueBytes - p.size,
                            tokens := Num.sub t.tokens (Num.ofInt p.size) }
        obtain ⟨h1, h2, h3, h4, h5, h6, h7⟩ := this
        simp only [ofInt_rat, sub_rat] at h1 h2 h3 h4 h5 h6 h7 ⊢
        have hc : (((p.size : Nat) : Int) : Rat) = (p.size : Rat) := Rat.intCast_natCast _
        rw [hc] at h1 h2 hlt
        constructor
        · simp only [bytes_cons, Rat.natCast_add]; grind
        · intro h; apply h2; grind
        · simp [h3, hq]
        · exact h4
        · exact h5
        · exact h6
        · exact h7

/-! ### the potential argument -/

/-- invariant of a run: the clock is not before the last refill, tokens, rate, burst are in range -/
structure Inv (Rmax : Int) (r : R) : Prop where
  time : r.t.lastRefill ≤ r.now
  tokens : 0 ≤ r.t.tokens
  rate0 : 0 ≤ r.t.rate
  rateMax : r.t.rate ≤ Rmax
  burst0 : 0 ≤ r.t.maxBurst

/-- tokens in the bucket plus the credit not yet collected (at the maximal rate) -/
def pot (Rmax : Int) (r : R) : Rat := r.t.tokens + credit Rmax (r.now - r.t.lastRefill)

/-- time consumed by one operation -/
def opTime : Op → Nat
  | .arrive dt _ => dt
  | _ => 0

/-- the head condition of `Bounded` -/
def opOk (Rmax Bmax : Int) : Op → Prop
  | .setRate v => 0 ≤ v ∧ v ≤ Rmax
  | .setBurst v => 0 ≤ v ∧ v ≤ Bmax
  | _ => True

theorem bounded_cons (Rmax Bmax : Int) (op : Op) (ops : List Op) :
    Bounded Rmax Bmax (op :: ops) ↔ opOk Rmax Bmax op ∧ Bounded Rmax Bmax ops := by
  cases op <;> simp [Bounded, opOk, and_assoc]

theorem elapsed_cons (op : Op) (ops : List Op) : elapsed (op :: ops) = opTime op + elapsed ops := by
  cases op <;> simp [elapsed, opTime]

theorem step_inv (Rmax Bmax : Int) (r : R) (op : Op) (hi : Inv Rmax r) (hop : opOk Rmax Bmax op) :
    Inv Rmax (r.step op).1 ∧
    (bytes (r.step op).2 : Rat) + pot Rmax (r.step op).1 ≤ pot Rmax r + credit Rmax (opTime op) := by
  obtain ⟨ht, h0, hr0, hrM, hb0⟩ := hi
  have hRmax : 0 ≤ Rmax := Int.le_trans hr0 hrM
  cases op with
  | arrive dt p =>
    simp only [Run.step, TBF.arrive, opTime]
    generalize hpush : TBF.push _ p = t3
    have hd := drain_spec (t3.queue.length + 1) t3
    generalize TBF.drain t3 _ = d at hd
    obtain ⟨h1, h2, h3, h4, h5, h6, h7⟩ := hd
    -- the state before the drain
    have htok : t3.tokens = ((r.t.refill (r.now + dt - r.t.lastRefill)).tokens) := by
      rw [← hpush]; unfold TBF.push; split <;> rfl
    have hlr : t3.lastRefill = r.now + dt := by
      rw [← hpush]; unfold TBF.push; split <;> rfl
    have hrate : t3.rate = r.t.rate := by
      rw [← hpush]; unfold TBF.push; split <;> rfl
    have hmb : t3.maxBurst = r.t.maxBurst := by
      rw [← hpush]; unfold TBF.push; split <;> rfl
    have hdt : 0 ≤ r.now + dt - r.t.lastRefill := by omega
    have hrb := refill_bounds r.t _ h0 hdt hr0 hb0
    have hle : (r.t.refill (r.now + dt - r.t.lastRefill)).tokens
        ≤ r.t.tokens + credit Rmax (r.now + dt - r.t.lastRefill) := by
      rw [refill_tokens]
      have := minN_le_right (r.t.maxBurst : Rat) (r.t.tokens + credit r.t.rate (r.now + dt - r.t.lastRefill))
      have := credit_mono r.t.rate Rmax _ hrM hdt
      grind
    refine ⟨⟨?_, ?_, ?_, ?_, ?_⟩, ?_⟩
    · simp only [h6, hlr]; omega
    · simp only; apply h2; rw [htok]; exact hrb.1
    · simp only [h4, hrate]; exact hr0
    · simp only [h4, hrate]; exact hrM
    · simp only [h5, hmb]; exact hb0
    · simp only [pot, h6, hlr]
      have e1 : r.now + (dt : Int) - (r.now + dt) = 0 := by omega
      have e2 : r.now + (dt : Int) - r.t.lastRefill = (r.now - r.t.lastRefill) + (dt : Int) := by omega
      rw [e1]
      rw [e2, credit_add] at hle
      rw [credit_zero]
      rw [htok] at h1
      grind
  | setRate v =>
    simp only [Run.step, opTime, opOk] at hop ⊢
    refine ⟨⟨ht, h0, hop.1, hop.2, hb0⟩, ?_⟩
    have e3 : credit Rmax ((0 : Nat) : Int) = 0 := credit_zero Rmax
    simp only [pot, bytes_nil, e3]
    grind
  | setBurst v =>
    simp only [Run.step, opTime, opOk] at hop ⊢
    refine ⟨⟨ht, h0, hr0, hrM, hop.1⟩, ?_⟩
    have e3 : credit Rmax ((0 : Nat) : Int) = 0 := credit_zero Rmax
    simp only [pot, bytes_nil, e3]
    grind
  | close =>
    simp only [Run.step, TBF.close, opTime]
    have hd := drain_spec (r.t.queue.length + 1) r.t
    generalize TBF.drain r.t _ = d at hd
    obtain ⟨h1, h2, h3, h4, h5, h6, h7⟩ := hd
    refine ⟨⟨?_, ?_, ?_, ?_, ?_⟩, ?_⟩
    · simp only [h6]; exact ht
    · exact h2 h0
    · simp only [h4]; exact hr0
    · simp only [h4]; exact hrM
    · simp only [h5]; exact hb0
    · have e3 : credit Rmax ((0 : Nat) : Int) = 0 := credit_zero Rmax
      simp only [pot, h6, e3]
      grind

theorem pot_nonneg (Rmax : Int) (r : R) (hi : Inv Rmax r) : 0 ≤ pot Rmax r := by
  obtain ⟨ht, h0, hr0, hrM, hb0⟩ := hi
  have := credit_nonneg Rmax (r.now - r.t.lastRefill) (Int.le_trans hr0 hrM) (by omega)
  unfold pot
  grind

/-- the generalised bound: bytes forwarded plus the final potential is at most the initial
    potential plus the maximal rate times the elapsed time -/
theorem run_pot (Rmax Bmax : Int) (ops : List Op) : ∀ r : R, Inv Rmax r → Bounded Rmax Bmax ops →
    Inv Rmax (finalState r ops) ∧
    (bytes (forwards r ops) : Rat) + pot Rmax (finalState r ops) ≤ pot Rmax r + credit Rmax (elapsed ops) := by
  induction ops with
  | nil =>
    intro r hi _
    refine ⟨hi, ?_⟩
    have e3 : credit Rmax ((0 : Nat) : Int) = 0 := credit_zero Rmax
    simp only [forwards, finalState, elapsed, bytes_nil, e3]
    grind
  | cons op ops ih =>
    intro r hi hb
    rw [bounded_cons] at hb
    obtain ⟨hs1, hs2⟩ := step_inv Rmax Bmax r op hi hb.1
    obtain ⟨hf1, hf2⟩ := ih (r.step op).1 hs1 hb.2
    refine ⟨hf1, ?_⟩
    simp only [forwards, finalState, bytes_append, elapsed_cons, Rat.natCast_add]
    have : (((opTime op + elapsed ops : Nat) : Int)) = (opTime op : Int) + (elapsed ops : Int) := by omega
    rw [this, credit_add]
    grind

theorem run_le (Rmax Bmax : Int) (ops : List Op) (r : R) (hi : Inv Rmax r) (hb : Bounded Rmax Bmax ops) :
    (bytes (forwards r ops) : Rat) ≤ pot Rmax r + (Rmax : Rat) * (elapsed ops : Rat) / 8000000000 := by
  obtain ⟨h1, h2⟩ := run_pot Rmax Bmax ops r hi hb
  have := pot_nonneg Rmax _ h1
  have e : credit Rmax (elapsed ops) = (Rmax : Rat) * (elapsed ops : Rat) / 8000000000 := by
    simp [credit, Rat.intCast_natCast]
  rw [e] at h2
  grind

theorem pot_of_fresh (Rmax : Int) (r : R) (hl : r.t.lastRefill = r.now) : pot Rmax r = r.t.tokens := by
  have : r.now - r.now = 0 := by omega
  simp only [pot, hl, this, credit_zero]
  grind

/-! ### FIFO order -/

theorem push_queue (t : TBF Rat) (p : Pkt) :
    (t.push p).queue = t.queue ++ [p] ∨ (t.push p).queue = t.queue := by
  unfold TBF.push; split
  · right; rfl
  · left; rfl

theorem push_queue_neg (t : TBF Rat) (p : Pkt)
    (hq : ¬ (t.queueMax > 0 ∧ ((t.queueBytes + p.size : Nat) : Int) ≥ t.queueMax)) :
    (t.push p).queue = t.queue ++ [p] := by
  unfold TBF.push; rw [if_neg hq]

theorem push_queue_pos (t : TBF Rat) (p : Pkt)
    (hq : t.queueMax > 0 ∧ ((t.queueBytes + p.size : Nat) : Int) ≥ t.queueMax) :
    (t.push p).queue = t.queue := by
  unfold TBF.push; rw [if_pos hq]

theorem step_sublist (r : R) (op : Op) :
    ∃ fwd, (r.step op).2 ++ (r.step op).1.t.queue = fwd ∧
      fwd.Sublist (r.t.queue ++ (arrivals [op])) := by
  cases op with
  | arrive dt p =>
    simp only [Run.step, TBF.arrive, arrivals]
    generalize hpush : TBF.push _ p = t3
    have hd := drain_spec (t3.queue.length + 1) t3
    refine ⟨_, rfl, ?_⟩
    rw [hd.queue, ← hpush]
    rcases push_queue ({ r.t.refill (r.now + dt - r.t.lastRefill) with lastRefill := r.now + dt }) p with h | h
    · rw [h]; exact List.Sublist.refl _
    · rw [h]; exact List.sublist_append_left _ _
  | setRate v => exact ⟨_, rfl, by simp [Run.step, arrivals]⟩
  | setBurst v => exact ⟨_, rfl, by simp [Run.step, arrivals]⟩
  | close =>
    simp only [Run.step, TBF.close, arrivals]
    have hd := drain_spec (r.t.queue.length + 1) r.t
    exact ⟨_, rfl, by rw [hd.queue]; simp⟩

theorem arrivals_cons (op : Op) (ops : List Op) : arrivals (op :: ops) = arrivals [op] ++ arrivals ops := by
  cases op <;> simp [arrivals]

theorem forwards_sublist (ops : List Op) : ∀ r : R,
    (forwards r ops).Sublist (r.t.queue ++ arrivals ops) := by
  induction ops with
  | nil => intro r; simp [forwards]
  | cons op ops ih =>
    intro r
    obtain ⟨fwd, h1, h2⟩ := step_sublist r op
    have h3 := ih (r.step op).1
    simp only [forwards]
    rw [arrivals_cons, ← List.append_assoc]
    refine List.Sublist.trans ?_ (List.Sublist.append h2 (List.Sublist.refl (arrivals ops)))
    rw [← h1, List.append_assoc]
    exact List.Sublist.append (List.Sublist.refl _) h3

end TV.Proofs.TBF
