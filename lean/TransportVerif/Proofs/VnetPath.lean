import TransportVerif.Proofs.VnetFifo
import TransportVerif.Proofs.NatStable
import TransportVerif.Proofs.VnetPathBase
import TransportVerif.Proofs.VnetPathInv
/-
`same_flow_same_path` and `flow_fifo`: the invariant of VnetPathInv read at two chunks of one flow in one
hand-over log, and the determinism of routes (VnetPathBase).
-/
set_option autoImplicit false
namespace TV.Proofs.Vnet
open TV TV.Nat TV.Vnet TV.VnetLink

theorem reach_of_reach2 {n : Net} (h : Reach2 n) : Reach n := by
  obtain ⟨n0, ops, hf, e⟩ := h
  exact ⟨n0, ops, hf.1, e⟩

theorem same_flow_same_path (n : Net) (h : Reach2 n) (hh s : Nat) (sk : SockM) (hs : sockAt n hh s = some sk)
    (a b : Chunk) (ha : a ∈ sk.delivered) (hb : b ∈ sk.delivered) (ho : a.origin = b.origin) (hd : a.odst = b.odst) :
    a.hops = b.hops := by
  obtain ⟨n0, H, hN, inv⟩ := reach2_inv h
  have hc : conts n (.inbox hh s) = some sk.delivered := by simp [conts, hs]
  have ga := inv.good _ _ a hc ha
  have gb := inv.good _ _ b hc hb
  rw [ga.pre.hops, gb.pre.hops]
  have la := ga.last
  have lb := gb.last
  have ca := ga.pre.chain
  have cb := gb.pre.chain
  have sa := ga.pre.start
  have sb := gb.pre.start
  rw [ho, hd] at sa
  cases ea : a.route with
  | nil => rw [ea] at la; cases la
  | cons e P =>
    cases eb : b.route with
    | nil => rw [eb] at lb; cases lb
    | cons e' Q =>
      rw [ea] at la ca sa
      rw [eb] at lb cb sb
      exact path_det hN hh s P Q e e' ((sa e rfl).alike (sb e' rfl)) ca cb ⟨_, la⟩ ⟨_, lb⟩

theorem flow_fifo (n : Net) (h : Reach2 n) (hh s : Nat) (sk : SockM) (hs : sockAt n hh s = some sk)
    (a b : Chunk) (ha : a ∈ sk.delivered) (hb : b ∈ sk.delivered)
    (ho : a.origin = b.origin) (hd : a.odst = b.odst) (hlt : a.id < b.id) :
    Before sk.delivered a b :=
  flow_fifo_partial n (reach_of_reach2 h) hh s sk hs a b ha hb ho
    (same_flow_same_path n h hh s sk hs a b ha hb ho hd) hlt

end TV.Proofs.Vnet
