import TransportVerif.Proofs.NatInv
/-
NAT proofs, part 4: the refinement relation `R` between the abstract machine and the spec's history
recorder, and the run theorem (`judged`, with every inbound destination port ≤ 65535).
-/
namespace TV.Proofs.Nat
open TV TV.Nat TV.NatLink TV.NatSpec

/-- the spec entry of a model mapping -/
def toEntry (lt : Int) (m : Mapping) : Entry :=
  { owner := m.loc, bound := m.bound, ext := { ip := m.mappedIP, port := m.mappedPort },
    lastUse := m.expires - lt, perms := m.filters }

/-- a mapping the spec knows about: stored, unexpired, with a real port -/
def Good (s : AS) (m : Mapping) : Prop := m ∈ s.L ∧ s.now ≤ m.expires ∧ m.mappedPort ≤ 65535

def ekey (e : Entry) : Addr × Key := (e.owner, e.bound)

structure R (n : NAT) (s : AS) (h : Hist) : Prop where
  now : h.now = s.now
  allocs : s.c ≤ h.allocs
  fwd : ∀ m, Good s m → toEntry n.lifetime m ∈ h.entries
  bwd : ∀ e ∈ h.entries, e.live (cfgOf n) s.now = true → ∃ m, Good s m ∧ e = toEntry n.lifetime m
  keys : (h.entries.map ekey).Nodup

theorem live_toEntry (n : NAT) (now : Int) (m : Mapping) :
    (toEntry n.lifetime m).live (cfgOf n) now = true ↔ now ≤ m.expires := by
  unfold Entry.live
  rw [decide_eq_true_iff]
  show now ≤ m.expires - n.lifetime + n.lifetime ↔ _
  omega

theorem ekey_toEntry (lt : Int) (m : Mapping) : ekey (toEntry lt m) = outKey m := rfl

theorem liveFor_some {c : Cfg} {h : Hist} {src : Addr} {bound : Key} {e : Entry}
    (hf : h.liveFor c src bound = some e) :
    e ∈ h.entries ∧ e.owner = src ∧ e.bound = bound ∧ e.live c h.now = true := by
  unfold Hist.liveFor at hf
  have h1 := List.mem_of_find?_eq_some hf
  have h2 := List.find?_some hf
  simp only [decide_eq_true_eq] at h2
  exact ⟨h1, h2⟩

theorem liveFor_none {c : Cfg} {h : Hist} {src : Addr} {bound : Key}
    (hf : h.liveFor c src bound = none) :
    ∀ e ∈ h.entries, e.owner = src → e.bound = bound → e.live c h.now = true → False := by
  unfold Hist.liveFor at hf
  intro e he h1 h2 h3
  have := List.find?_eq_none.1 hf e he
  simp only [decide_eq_true_eq] at this
  exact this ⟨h1, h2, h3⟩

theorem liveAt_some {c : Cfg} {h : Hist} {ext : Addr} {e : Entry}
    (hf : h.liveAt c ext = some e) :
    e ∈ h.entries ∧ e.ext = ext ∧ e.live c h.now = true := by
  unfold Hist.liveAt at hf
  have h1 := List.mem_of_find?_eq_some hf
  have h2 := List.find?_some hf
  simp only [decide_eq_true_eq] at h2
  exact ⟨h1, h2⟩

theorem liveAt_none {c : Cfg} {h : Hist} {ext : Addr}
    (hf : h.liveAt c ext = none) :
    ∀ e ∈ h.entries, e.ext = ext → e.live c h.now = true → False := by
  unfold Hist.liveAt at hf
  intro e he h1 h2
  have := List.find?_eq_none.1 hf e he
  simp only [decide_eq_true_eq] at this
  exact this ⟨h1, h2⟩

theorem R.liveFor_some {n : NAT} {s : AS} {h : Hist} (hr : R n s h) {src : Addr} {bound : Key} {e : Entry}
    (hf : h.liveFor (cfgOf n) src bound = some e) :
    ∃ m, Good s m ∧ outKey m = (src, bound) ∧ e = toEntry n.lifetime m := by
  obtain ⟨he, h1, h2, h3⟩ := Nat.liveFor_some hf
  rw [hr.now] at h3
  obtain ⟨m, hg, rfl⟩ := hr.bwd e he h3
  exact ⟨m, hg, by simp only [toEntry] at h1 h2; simp [outKey, h1, h2], rfl⟩

theorem R.liveFor_of_good {n : NAT} {s : AS} {h : Hist} (hr : R n s h) {m : Mapping} (hg : Good s m) :
    h.liveFor (cfgOf n) m.loc m.bound = some (toEntry n.lifetime m) := by
  have hin := hr.fwd m hg
  cases hf : h.liveFor (cfgOf n) m.loc m.bound with
  | none =>
    exact absurd ((live_toEntry n h.now m).2 (by rw [hr.now]; exact hg.2.1))
      (fun hl => Nat.liveFor_none hf _ hin rfl rfl hl)
  | some e =>
    obtain ⟨he, h1, h2, _⟩ := Nat.liveFor_some hf
    have : e = toEntry n.lifetime m :=
      inj_of_nodup_map ekey _ hr.keys e he _ hin (by simp [ekey, h1, h2, toEntry])
    rw [this]

theorem R.liveAt_some {n : NAT} {s : AS} {h : Hist} (hr : R n s h) {ext : Addr} {e : Entry}
    (hf : h.liveAt (cfgOf n) ext = some e) :
    ∃ m, Good s m ∧ ext = { ip := m.mappedIP, port := m.mappedPort } ∧ e = toEntry n.lifetime m := by
  obtain ⟨he, h1, h3⟩ := Nat.liveAt_some hf
  rw [hr.now] at h3
  obtain ⟨m, hg, rfl⟩ := hr.bwd e he h3
  exact ⟨m, hg, h1.symm, rfl⟩

theorem R.liveAt_of_good {n : NAT} {s : AS} {h : Hist} (hr : R n s h) (hw : WfS n s) {m : Mapping}
    (hg : Good s m) :
    h.liveAt (cfgOf n) { ip := m.mappedIP, port := m.mappedPort } = some (toEntry n.lifetime m) := by
  have hin := hr.fwd m hg
  cases hf : h.liveAt (cfgOf n) { ip := m.mappedIP, port := m.mappedPort } with
  | none =>
    exact absurd ((live_toEntry n h.now m).2 (by rw [hr.now]; exact hg.2.1))
      (fun hl => Nat.liveAt_none hf _ hin rfl hl)
  | some e =>
    obtain ⟨m', hg', hx, rfl⟩ := hr.liveAt_some hf
    simp only [Addr.mk.injEq] at hx
    rw [hw.eq_of_port hg.1 hg'.1 hx.2]

/-! ### preservation of `R` -/

theorem R.congr {n : NAT} {s s' : AS} {h h' : Hist} (hr : R n s h) (hnow : s'.now = s.now)
    (hg : ∀ m, Good s' m ↔ Good s m) (hc : s'.c ≤ h'.allocs) (he : h'.entries = h.entries)
    (hn : h'.now = h.now) : R n s' h' where
  now := by rw [hn, hnow, hr.now]
  allocs := hc
  fwd := fun m hm => by rw [he]; exact hr.fwd m ((hg m).1 hm)
  bwd := fun e hin hl => by
    rw [he] at hin; rw [hnow] at hl
    obtain ⟨m, hm, rfl⟩ := hr.bwd e hin hl
    exact ⟨m, (hg m).2 hm, rfl⟩
  keys := by rw [he]; exact hr.keys

def updE (now : Int) (fk : Key) (x : Entry) : Entry :=
  { x with lastUse := now, perms := if x.perms.contains fk then x.perms else x.perms ++ [fk] }

theorem toEntry_touch (lt now : Int) (fk : Key) (m : Mapping) :
    toEntry lt (touch lt now fk m) = updE now fk (toEntry lt m) := by
  simp only [toEntry, touch, updE, Entry.mk.injEq, true_and]
  exact ⟨by omega, rfl⟩

/-- the outbound call found a live mapping with a real port: both sides refresh it -/
theorem R.out_found_good {n : NAT} {s : AS} {h : Hist} (hr : R n s h) (hw : WfS n s) (hl : 0 ≤ n.lifetime)
    {m0 : Mapping} (hg0 : Good s m0) (fk : Key) :
    R n { L := s.L.map (fun x => if x.id = m0.id then touch n.lifetime s.now fk m0 else x), c := s.c, now := s.now }
      { h with entries := h.entries.map (fun x =>
          if x.owner = m0.loc ∧ x.bound = m0.bound ∧ x.live (cfgOf n) h.now then updE h.now fk x else x) } := by
  have hm := hg0.1
  have hin0 := hr.fwd m0 hg0
  have hc0 : (toEntry n.lifetime m0).owner = m0.loc ∧ (toEntry n.lifetime m0).bound = m0.bound ∧
      (toEntry n.lifetime m0).live (cfgOf n) h.now = true :=
    ⟨rfl, rfl, (live_toEntry n h.now m0).2 (by rw [hr.now]; exact hg0.2.1)⟩
  have huniq : ∀ m, Good s m → (toEntry n.lifetime m).owner = m0.loc ∧ (toEntry n.lifetime m).bound = m0.bound ∧
      (toEntry n.lifetime m).live (cfgOf n) h.now = true → m = m0 := by
    intro m hg hc
    apply hw.eq_of_outKey hg.1 hm
    simp only [toEntry] at hc
    simp [outKey, hc.1, hc.2.1]
  have hgood' : Good (AS.mk (s.L.map (fun x => if x.id = m0.id then touch n.lifetime s.now fk m0 else x))
      s.c s.now) (touch n.lifetime s.now fk m0) := by
    refine ⟨List.mem_map.2 ⟨m0, hm, by simp⟩, ?_, hg0.2.2⟩
    show s.now ≤ s.now + n.lifetime
    omega
  refine ⟨hr.now, hr.allocs, ?_, ?_, ?_⟩
  · intro m' hg'
    obtain ⟨hmem, hal, hp⟩ := hg'
    obtain ⟨x, hx, rfl⟩ := List.mem_map.1 hmem
    by_cases hi : x.id = m0.id
    · have := hw.eq_of_id hx hm hi
      subst this
      simp only [if_true]
      rw [toEntry_touch, hr.now.symm]
      exact List.mem_map.2 ⟨_, hin0, by rw [if_pos hc0]⟩
    · simp only [hi, if_false] at hal hp ⊢
      have hgx : Good s x := ⟨hx, hal, hp⟩
      refine List.mem_map.2 ⟨_, hr.fwd x hgx, ?_⟩
      rw [if_neg]
      intro hc
      exact hi (by rw [huniq x hgx hc])
  · intro e' hin' hl'
    obtain ⟨e0, hin, rfl⟩ := List.mem_map.1 hin'
    by_cases hc : e0.owner = m0.loc ∧ e0.bound = m0.bound ∧ e0.live (cfgOf n) h.now = true
    · have hl0 := hc.2.2
      rw [hr.now] at hl0
      obtain ⟨m, hg, rfl⟩ := hr.bwd e0 hin hl0
      have := huniq m hg hc
      subst this
      refine ⟨_, hgood', ?_⟩
      rw [if_pos hc, toEntry_touch, hr.now]
    · rw [if_neg hc] at hl' ⊢
      obtain ⟨m, hg, rfl⟩ := hr.bwd e0 hin hl'
      have hi : m.id ≠ m0.id := by
        intro hi
        have := hw.eq_of_id hg.1 hm hi
        subst this
        exact hc hc0
      exact ⟨m, ⟨List.mem_map.2 ⟨m, hg.1, by simp [hi]⟩, hg.2⟩, rfl⟩
  · simp only [List.map_map]
    have : h.entries.map (ekey ∘ fun x =>
        if x.owner = m0.loc ∧ x.bound = m0.bound ∧ x.live (cfgOf n) h.now then updE h.now fk x else x) =
        h.entries.map ekey := by
      apply List.map_congr_left
      intro x _
      simp only [Function.comp]
      split <;> rfl
    rw [this]
    exact hr.keys

/-- replacing a mapping whose port is out of range changes nothing the spec knows about -/
theorem good_map_bad {n : NAT} {s : AS} (hw : WfS n s) {m0 m1 : Mapping} (hm : m0 ∈ s.L)
    (hp : m0.mappedPort > 65535) (hp1 : m1.mappedPort = m0.mappedPort) (c' : Nat) (m : Mapping) :
    Good (AS.mk (s.L.map (fun x => if x.id = m0.id then m1 else x)) c' s.now) m ↔ Good s m := by
  constructor
  · rintro ⟨hmem, hal, hpm⟩
    obtain ⟨x, hx, rfl⟩ := List.mem_map.1 hmem
    by_cases hi : x.id = m0.id
    · simp only [hi, if_true] at hpm
      omega
    · simp only [hi, if_false] at hal hpm ⊢
      exact ⟨hx, hal, hpm⟩
  · rintro ⟨hmem, hal, hpm⟩
    have hi : m.id ≠ m0.id := by
      intro hi
      have := hw.eq_of_id hmem hm hi
      subst this
      omega
    exact ⟨List.mem_map.2 ⟨m, hmem, by simp [hi]⟩, hal, hpm⟩

/-- dropping expired mappings changes nothing the spec knows about -/
theorem good_filter_dead {s : AS} (p : Mapping → Bool)
    (hd : ∀ x ∈ s.L, p x = false → ¬ s.now ≤ x.expires) (c' : Nat) (m : Mapping) :
    Good (AS.mk (s.L.filter p) c' s.now) m ↔ Good s m := by
  constructor
  · rintro ⟨hmem, hal, hpm⟩
    exact ⟨(List.mem_filter.1 hmem).1, hal, hpm⟩
  · rintro ⟨hmem, hal, hpm⟩
    refine ⟨List.mem_filter.2 ⟨hmem, ?_⟩, hal, hpm⟩
    cases hpx : p m with
    | true => rfl
    | false => exact absurd hal (hd m hmem hpx)

theorem good_append_bad {L : List Mapping} {c c' : Nat} {now : Int} {f : Mapping} (hp : f.mappedPort > 65535)
    (m : Mapping) : Good (AS.mk (L ++ [f]) c' now) m ↔ Good (AS.mk L c now) m := by
  constructor
  · rintro ⟨hmem, hal, hpm⟩
    rcases List.mem_append.1 hmem with h | h
    · exact ⟨h, hal, hpm⟩
    · simp only [List.mem_singleton] at h
      subst h
      omega
  · rintro ⟨hmem, hal, hpm⟩
    exact ⟨List.mem_append_left _ hmem, hal, hpm⟩

/-- a new mapping with a real port: the recorder drops the dead entry of the same key and appends -/
theorem R.out_fresh_good {n : NAT} {L0 : List Mapping} {c : Nat} {now : Int} {h : Hist}
    (hr : R n (AS.mk L0 c now) h) (hl : 0 ≤ n.lifetime) (src : Addr) (bound fk : Key) (ip0 : Nat)
    (hk : ∀ x ∈ L0, outKey x ≠ (src, bound)) (hp : basePort + c ≤ 65535) :
    R n (AS.mk (L0 ++ [fresh c n.lifetime now src bound fk ip0]) (c + 1) now)
      { h with allocs := h.allocs + 1,
               entries := h.entries.filter (fun x => !(x.owner = src ∧ x.bound = bound)) ++
                 [{ owner := src, bound := bound, ext := { ip := ip0, port := basePort + c }, lastUse := h.now,
                    perms := [fk] }] } := by
  have hnew : Entry.mk src bound (Addr.mk ip0 (basePort + c)) h.now [fk] =
      toEntry n.lifetime (fresh c n.lifetime now src bound fk ip0) := by
    simp only [toEntry, fresh, Entry.mk.injEq, true_and, and_true]
    have := hr.now
    simp only at this
    omega
  rw [hnew]
  have hgf : Good (AS.mk (L0 ++ [fresh c n.lifetime now src bound fk ip0]) (c + 1) now)
      (fresh c n.lifetime now src bound fk ip0) := by
    refine ⟨List.mem_append_right _ (List.mem_singleton.2 rfl), ?_, hp⟩
    show now ≤ now + n.lifetime
    omega
  refine ⟨hr.now, Nat.succ_le_succ hr.allocs, ?_, ?_, ?_⟩
  · rintro m ⟨hmem, hal, hpm⟩
    rcases List.mem_append.1 hmem with hm | hm
    · apply List.mem_append_left
      refine List.mem_filter.2 ⟨hr.fwd m ⟨hm, hal, hpm⟩, ?_⟩
      have := hk m hm
      simp only [outKey, ne_eq, Prod.mk.injEq] at this
      simp only [toEntry, Bool.not_eq_true']
      exact decide_eq_false this
    · simp only [List.mem_singleton] at hm
      subst hm
      exact List.mem_append_right _ (List.mem_singleton.2 rfl)
  · intro e hin hlv
    rcases List.mem_append.1 hin with he | he
    · obtain ⟨m, ⟨hm, hg⟩, rfl⟩ := hr.bwd e (List.mem_filter.1 he).1 hlv
      exact ⟨m, ⟨List.mem_append_left _ hm, hg⟩, rfl⟩
    · simp only [List.mem_singleton] at he
      exact ⟨_, hgf, he⟩
  · simp only [List.map_append, List.map_cons, List.map_nil]
    rw [List.nodup_append]
    refine ⟨(List.filter_sublist.map _).nodup hr.keys, by simp, ?_⟩
    intro a ha b hb
    obtain ⟨x, hx, rfl⟩ := List.mem_map.1 ha
    simp only [List.mem_singleton] at hb
    rw [hb]
    have := (List.mem_filter.1 hx).2
    simp only [Bool.not_eq_true', decide_eq_false_iff_not] at this
    intro heq
    simp only [ekey, toEntry, fresh, Prod.mk.injEq] at heq
    exact this heq

/-! ### one step -/

theorem cfg_one2one (n : NAT) : (cfgOf n).one2one = n.one2one := rfl
theorem cfg_mapBeh (n : NAT) : (cfgOf n).mapBeh = n.mapBeh := rfl
theorem cfg_filtBeh (n : NAT) : (cfgOf n).filtBeh = n.filtBeh := rfl
theorem cfg_mappedIPs (n : NAT) : (cfgOf n).mappedIPs = n.mappedIPs := rfl

theorem out_step (n : NAT) (h1 : n.one2one = false) (hl : 0 ≤ n.lifetime) (hne : n.mappedIPs ≠ [])
    (s : AS) (h : Hist) (hw : WfS n s) (hr : R n s h) (a b : Addr) :
    allowedOut (cfgOf n) h a b (aOut n s.L s.c s.now a b).2 = true ∧
    R n (AS.mk (aOut n s.L s.c s.now a b).1.1 (aOut n s.L s.c s.now a b).1.2 s.now)
        (h.recordOut (cfgOf n) a b (aOut n s.L s.c s.now a b).2) := by
  unfold aOut
  cases hf : s.L.find? (fun m => decide (outKey m = (a, keyOf n.mapBeh b)) && alive s.now m) with
  | some m0 =>
    obtain ⟨hm, hk, hal⟩ := find_and_some hf
    have hk' : outKey m0 = (a, keyOf n.mapBeh b) := of_decide_eq_true hk
    have hal' : s.now ≤ m0.expires := of_decide_eq_true hal
    have hloc : m0.loc = a := congrArg Prod.fst hk'
    have hbd : m0.bound = keyOf n.mapBeh b := congrArg Prod.snd hk'
    simp only
    by_cases hp : m0.mappedPort ≤ 65535
    · have hg0 : Good s m0 := ⟨hm, hal', hp⟩
      have hlf := hr.liveFor_of_good hg0
      rw [hloc, hbd] at hlf
      have hpr : portRes m0 = .ok { ip := m0.mappedIP, port := m0.mappedPort } := by
        unfold portRes; rw [if_neg (by omega)]
      constructor
      · unfold allowedOut
        simp only [cfg_one2one, h1, Bool.false_eq_true, if_false, cfg_mapBeh, hlf, hpr]
        simp [toEntry]
      · unfold Hist.recordOut
        simp only [cfg_one2one, h1, Bool.false_eq_true, if_false, cfg_mapBeh, hlf, cfg_filtBeh]
        have := hr.out_found_good hw hl hg0 (keyOf n.filtBeh b)
        rw [hloc, hbd] at this
        exact this
    · have hp' : m0.mappedPort > 65535 := by omega
      have hlf : h.liveFor (cfgOf n) a (keyOf n.mapBeh b) = none := by
        cases hlf : h.liveFor (cfgOf n) a (keyOf n.mapBeh b) with
        | none => rfl
        | some e =>
          obtain ⟨m, hg, hkm, _⟩ := hr.liveFor_some hlf
          have := hw.eq_of_outKey hg.1 hm (hkm.trans hk'.symm)
          subst this
          exact absurd hg.2.2 hp
      have hpr : portRes m0 = .badPort := by
        unfold portRes; rw [if_pos hp']
      have hid := hw.inv m0 hm
      have hal := hr.allocs
      constructor
      · unfold allowedOut
        simp only [cfg_one2one, h1, Bool.false_eq_true, if_false, cfg_mapBeh, hlf, hpr]
        simp only [basePort] at hid
        apply decide_eq_true
        simp only [portHi, portLo]
        omega
      · unfold Hist.recordOut
        simp only [cfg_one2one, h1, Bool.false_eq_true, if_false, cfg_mapBeh, hlf, hpr]
        exact hr.congr rfl (good_map_bad (m1 := touch n.lifetime s.now (keyOf n.filtBeh b) m0) hw hm hp' rfl s.c) (Nat.le_succ_of_le hr.allocs) rfl rfl
  | none =>
    have hnone : ∀ x ∈ s.L, outKey x = (a, keyOf n.mapBeh b) → ¬ s.now ≤ x.expires := by
      intro x hx hkx hax
      have := List.find?_eq_none.1 hf x hx
      simp [hkx, alive, hax] at this
    have hlf : h.liveFor (cfgOf n) a (keyOf n.mapBeh b) = none := by
      cases hlf : h.liveFor (cfgOf n) a (keyOf n.mapBeh b) with
      | none => rfl
      | some e =>
        obtain ⟨m, hg, hkm, _⟩ := hr.liveFor_some hlf
        exact absurd hg.2.1 (hnone m hg.1 hkm)
    cases hh : n.mappedIPs.head? with
    | none => exact absurd (List.head?_eq_none_iff.1 hh) hne
    | some ip0 =>
      simp only
      have hr0 : R n (AS.mk (s.L.filter (fun x => decide (outKey x ≠ (a, keyOf n.mapBeh b)))) s.c s.now) h := by
        refine hr.congr rfl (good_filter_dead _ ?_ s.c) hr.allocs rfl rfl
        intro x hx hpx
        apply hnone x hx
        simpa using hpx
      have hk0 : ∀ x ∈ s.L.filter (fun x => decide (outKey x ≠ (a, keyOf n.mapBeh b))),
          outKey x ≠ (a, keyOf n.mapBeh b) := by
        intro x hx
        simpa using (List.mem_filter.1 hx).2
      by_cases hp : basePort + s.c ≤ 65535
      · have hpr : portRes (fresh s.c n.lifetime s.now a (keyOf n.mapBeh b) (keyOf n.filtBeh b) ip0) =
            .ok { ip := ip0, port := basePort + s.c } := by
          unfold portRes; rw [if_neg (by simp only [fresh]; omega)]; rfl
        have hla : h.liveAt (cfgOf n) { ip := ip0, port := basePort + s.c } = none := by
          cases hla : h.liveAt (cfgOf n) { ip := ip0, port := basePort + s.c } with
          | none => rfl
          | some e =>
            obtain ⟨m, hg, hx, _⟩ := hr.liveAt_some hla
            have := hw.inv m hg.1
            simp only [Addr.mk.injEq] at hx
            omega
        constructor
        · unfold allowedOut
          simp only [cfg_one2one, h1, Bool.false_eq_true, if_false, cfg_mapBeh, hlf, hpr, cfg_mappedIPs, hh, hla]
          simp only [Bool.and_eq_true, decide_eq_true_eq, beq_self_eq_true, Option.isNone_none, true_and, and_true]
          simp only [portHi, portLo, basePort] at hp ⊢
          omega
        · unfold Hist.recordOut
          simp only [cfg_one2one, h1, Bool.false_eq_true, if_false, cfg_mapBeh, hlf, hpr, cfg_filtBeh]
          exact hr0.out_fresh_good hl a _ _ ip0 hk0 hp
      · have hpr : portRes (fresh s.c n.lifetime s.now a (keyOf n.mapBeh b) (keyOf n.filtBeh b) ip0) =
            .badPort := by
          unfold portRes; rw [if_pos (by simp only [fresh]; omega)]
        have hal := hr.allocs
        constructor
        · unfold allowedOut
          simp only [cfg_one2one, h1, Bool.false_eq_true, if_false, cfg_mapBeh, hlf, hpr]
          simp only [basePort] at hp
          apply decide_eq_true
          simp only [portHi, portLo]
          omega
        · unfold Hist.recordOut
          simp only [cfg_one2one, h1, Bool.false_eq_true, if_false, cfg_mapBeh, hlf, hpr]
          exact hr0.congr rfl (good_append_bad (by simp only [fresh]; omega)) (Nat.succ_le_succ hr.allocs) rfl rfl

theorem in_step (n : NAT) (h1 : n.one2one = false) (s : AS) (h : Hist) (hw : WfS n s) (hr : R n s h)
    (a b : Addr) (hpb : b.port ≤ 65535) :
    allowedIn (cfgOf n) h a b (aIn n s.L s.now a b).2 = true ∧
    R n (AS.mk (aIn n s.L s.now a b).1 s.c s.now) h := by
  unfold aIn
  cases hf : s.L.find? (fun m => decide (inKey m = (b.ip, b.port)) && alive s.now m) with
  | some m =>
    obtain ⟨hm, hk, hal⟩ := find_and_some hf
    have hk' : inKey m = (b.ip, b.port) := of_decide_eq_true hk
    have hal' : s.now ≤ m.expires := of_decide_eq_true hal
    have hb : b = { ip := m.mappedIP, port := m.mappedPort } := by
      cases b
      simp only [inKey, Prod.mk.injEq] at hk'
      simp [hk'.1, hk'.2]
    have hg : Good s m := ⟨hm, hal', by rw [hb] at hpb; exact hpb⟩
    have hla := hr.liveAt_of_good hw hg
    rw [← hb] at hla
    refine ⟨?_, hr⟩
    unfold allowedIn
    simp only [cfg_one2one, h1, Bool.false_eq_true, if_false, hla, cfg_filtBeh]
    show (if m.filters.contains (keyOf n.filtBeh a) = true then _ else _) = true
    by_cases hc : m.filters.contains (keyOf n.filtBeh a) = true
    · simp only [if_pos hc]; simp [toEntry]
    · simp only [if_neg hc]
  | none =>
    have hnone : ∀ x ∈ s.L, inKey x = (b.ip, b.port) → ¬ s.now ≤ x.expires := by
      intro x hx hkx hax
      have := List.find?_eq_none.1 hf x hx
      simp [hkx, alive, hax] at this
    have hla : h.liveAt (cfgOf n) b = none := by
      cases hla : h.liveAt (cfgOf n) b with
      | none => rfl
      | some e =>
        obtain ⟨m, hg, hx, _⟩ := hr.liveAt_some hla
        exact absurd hg.2.1 (hnone m hg.1 (by rw [hx]; rfl))
    constructor
    · unfold allowedIn
      simp only [cfg_one2one, h1, Bool.false_eq_true, if_false, hla]
    · refine hr.congr rfl (good_filter_dead _ ?_ s.c) hr.allocs rfl rfl
      intro x hx hpx
      apply hnone x hx
      simpa using hpx

theorem adv_step (n : NAT) (s : AS) (h : Hist) (hr : R n s h) (dt : Nat) :
    R n { s with now := s.now + dt } (h.advance dt) := by
  refine ⟨?_, hr.allocs, ?_, ?_, hr.keys⟩
  · show h.now + (dt : Int) = s.now + dt
    rw [hr.now]
  · rintro m ⟨hm, hal, hp⟩
    have hal' : s.now + (dt : Int) ≤ m.expires := hal
    exact hr.fwd m ⟨hm, by omega, hp⟩
  · intro e he hlv
    have hlv' : e.live (cfgOf n) (s.now + (dt : Int)) = true := hlv
    have hlv0 : e.live (cfgOf n) s.now = true := by
      unfold Entry.live at hlv' ⊢
      rw [decide_eq_true_iff] at hlv' ⊢
      omega
    obtain ⟨m, hg, rfl⟩ := hr.bwd e (by exact he) hlv0
    exact ⟨m, ⟨hg.1, (live_toEntry n _ m).1 hlv', hg.2.2⟩, rfl⟩

theorem step_ok (n : NAT) (h1 : n.one2one = false) (hl : 0 ≤ n.lifetime) (hne : n.mappedIPs ≠ [])
    (s : AS) (h : Hist) (hw : WfS n s) (hr : R n s h) (op : Op)
    (hp : ∀ a b, op = .inb a b → b.port ≤ 65535) :
    Obs.ok (cfgOf n) { before := h, op := op, out := (aStep n s op).2 } = true ∧
    R n (aStep n s op).1 (histStep (cfgOf n) h op (aStep n s op).2) := by
  cases op with
  | out a b => exact out_step n h1 hl hne s h hw hr a b
  | inb a b => exact in_step n h1 s h hw hr a b (hp a b rfl)
  | adv dt => exact ⟨rfl, adv_step n s h hr dt⟩

theorem run_ok (n : NAT) (h1 : n.one2one = false) (hl : 0 ≤ n.lifetime) (hne : n.mappedIPs ≠ [])
    (ops : List Op) :
    ∀ (s : AS) (h : Hist), WfS n s → R n s h → (∀ a b, Op.inb a b ∈ ops → b.port ≤ 65535) →
      ∀ o ∈ run (cfgOf n) (conc n s) h ops, o.ok (cfgOf n) = true := by
  induction ops with
  | nil => intro s h _ _ _ o ho; cases ho
  | cons op ops ih =>
    intro s h hw hr hp o ho
    obtain ⟨hok, hr'⟩ := step_ok n h1 hl hne s h hw hr op (fun a b e => hp a b (by rw [e]; exact List.mem_cons_self))
    simp only [run, step_conc n h1 s hw op, List.mem_cons] at ho
    rcases ho with rfl | ho
    · exact hok
    · exact ih _ _ (aStep_wf n s hw op) hr' (fun a b hm => hp a b (List.mem_cons_of_mem _ hm)) o ho

theorem R.init (n : NAT) : R n AS.init Hist.empty :=
  ⟨rfl, Nat.le_refl _, fun _ hg => absurd hg.1 (by simp [AS.init]),
    fun _ he => absurd he (by simp [Hist.empty]), by simp [Hist.empty]⟩

/-- 1:1 mode: the state never changes and every answer is the paired lookup the spec prescribes -/
theorem run_ok_one (n : NAT) (h1 : n.one2one = true) (ops : List Op) :
    ∀ (t : Int) (h : Hist), ∀ o ∈ run (cfgOf n) (n, t) h ops, o.ok (cfgOf n) = true := by
  induction ops with
  | nil => intro t h o ho; cases ho
  | cons op ops ih =>
    intro t h o ho
    cases op with
    | out a b =>
      simp only [run, step, one_to_one_outbound n t a b h1, List.mem_cons] at ho
      rcases ho with rfl | ho
      · simp only [Obs.ok, allowedOut, cfg_one2one, h1, if_true]
        show (match paired n.localIPs n.mappedIPs a.ip with | some ip => _ | none => _) = true
        cases paired n.localIPs n.mappedIPs a.ip <;> simp
      · exact ih _ _ o ho
    | inb a b =>
      simp only [run, step, one_to_one_inbound n t a b h1, List.mem_cons] at ho
      rcases ho with rfl | ho
      · simp only [Obs.ok, allowedIn, cfg_one2one, h1, if_true]
        show (match paired n.mappedIPs n.localIPs b.ip with | some ip => _ | none => _) = true
        cases paired n.mappedIPs n.localIPs b.ip <;> simp
      · exact ih _ _ o ho
    | adv dt =>
      simp only [run, step, List.mem_cons] at ho
      rcases ho with rfl | ho
      · rfl
      · exact ih _ _ o ho

/-- the run theorem; the port bound on inbound destinations is needed because `Addr.port` is an
    unbounded natural while a mapping whose port ran past 65535 is still stored by the model -/
theorem judged (mode : Bool) (mb fb : Dep) (lt : Int) (mapped loc : List Nat) (n : NAT) (ops : List Op)
    (hn : NAT.new mode mb fb lt mapped loc = some n) (hlt : 0 ≤ lt) (hm : mode = false → mapped ≠ [])
    (hp : ∀ a b, Op.inb a b ∈ ops → b.port ≤ 65535) :
    ∀ o ∈ runNew n ops, o.ok (cfgOf n) = true := by
  cases mode with
  | true => exact run_ok_one n (new_one hn).1 ops 0 _
  | false =>
    obtain ⟨h1, _, hmp, hlife⟩ := new_napt hn
    have hl : 0 ≤ n.lifetime := by
      rw [hlife]; split
      · simp [defaultLifetime]
      · exact hlt
    unfold runNew
    rw [new_napt_conc hn]
    exact run_ok n h1 hl (by rw [hmp]; exact hm rfl) ops _ _ (init_wf n) (R.init n) hp

end TV.Proofs.Nat
