import TransportVerif.Model.ReadDeadline
import TransportVerif.Proofs.Deadline
/-
Proofs for C10: the invariant `Settled` of the Deadline model that holds after every step of the
read-deadline model (every step that touches the Deadline ends with `settle`), its preservation,
and the facts about `settle`/`release` that the theorems of Props/C10 need.
-/
namespace TV.Proofs.ReadDeadline
open TV TV.ReadDeadline
open TV.Deadline hiding step Op run

/-- all timer callbacks have run: nothing outstanding, an armed timer is not yet due, and the
    signal is raised exactly when a non-zero deadline has passed -/
structure Settled (d : D) : Prop where
  outst : d.outstanding = 0
  noPanic : d.panicked = false
  armedSt : d.armed = true → d.state = .started ∧ d.deadline = some d.due ∧ d.now < d.due ∧ d.pending = 1
  unarmed : d.armed = false → d.pending = 0
  exceeded : d.state = .exceeded ↔ d.doneClosed = true
  closedIff : d.doneClosed = true ↔ ∃ t, d.deadline = some t ∧ t ≤ d.now
  started : d.state = .started → d.armed = true
  stopped : d.state = .stopped → d.deadline = none

theorem settled_new : Settled D.new := by
  constructor <;> simp [D.new]

theorem dec8_one : dec8 1 = 0 := by decide
theorem inc8_zero : inc8 0 = 1 := by decide

/-! ### `settle` -/

/-- a settled state is a fixpoint of `settle` -/
theorem settle_fix {d : D} (S : Settled d) (n : Nat) : settle d n = d := by
  cases n with
  | zero => rfl
  | succ n =>
    have hf : d.fire = d := by
      unfold D.fire
      by_cases ha : d.armed = true
      · have := (S.armedSt ha).2.2.1
        rw [if_neg]; intro hc; omega
      · rw [if_neg]; intro hc; exact ha hc.1
    simp [settle, hf, S.outst]

theorem closeDone_deadline (d : D) : d.closeDone.deadline = d.deadline := by
  unfold D.closeDone; split <;> rfl
theorem closeDone_now (d : D) : d.closeDone.now = d.now := by
  unfold D.closeDone; split <;> rfl

theorem fire_deadline (d : D) : d.fire.deadline = d.deadline := by
  unfold D.fire; split <;> rfl
theorem fire_now (d : D) : d.fire.now = d.now := by
  unfold D.fire; split <;> rfl

theorem callback_deadline (d : D) : d.callback.deadline = d.deadline := by
  unfold D.callback
  split
  · rfl
  · simp only []
    split
    · rfl
    · rw [closeDone_deadline]
theorem callback_now (d : D) : d.callback.now = d.now := by
  unfold D.callback
  split
  · rfl
  · simp only []
    split
    · rfl
    · rw [closeDone_now]

theorem settle_deadline (d : D) (n : Nat) : (settle d n).deadline = d.deadline := by
  induction n generalizing d with
  | zero => rfl
  | succ n ih =>
    have h2 : (if d.fire.outstanding > 0 then d.fire.callback else d.fire).deadline = d.deadline := by
      split
      · rw [callback_deadline, fire_deadline]
      · rw [fire_deadline]
    simp only [settle]
    generalize (if d.fire.outstanding > 0 then d.fire.callback else d.fire) = d2 at h2 ⊢
    split
    · rfl
    · rw [ih, h2]

theorem settle_now (d : D) (n : Nat) : (settle d n).now = d.now := by
  induction n generalizing d with
  | zero => rfl
  | succ n ih =>
    have h2 : (if d.fire.outstanding > 0 then d.fire.callback else d.fire).now = d.now := by
      split
      · rw [callback_now, fire_now]
      · rw [fire_now]
    simp only [settle]
    generalize (if d.fire.outstanding > 0 then d.fire.callback else d.fire) = d2 at h2 ⊢
    split
    · rfl
    · rw [ih, h2]

theorem set_deadline (d : D) (t : Option Int) : (d.set t).deadline = t := by
  obtain ⟨st, pend, gen, dc, dl, ar, du, out, nw, pan⟩ := d
  cases t with
  | none => cases st <;> cases ar <;> simp [D.set]
  | some t =>
    cases st <;> cases ar <;> simp [D.set, D.closeDone] <;> (repeat' split) <;> simp

theorem set_now (d : D) (t : Option Int) : (d.set t).now = d.now := by
  obtain ⟨st, pend, gen, dc, dl, ar, du, out, nw, pan⟩ := d
  cases t with
  | none => cases st <;> cases ar <;> simp [D.set]
  | some t =>
    cases st <;> cases ar <;> simp [D.set, D.closeDone] <;> (repeat' split) <;> simp

/-! ### preservation -/

/-- `Set` from a settled state gives a settled state (a new timer is armed strictly in the future) -/
theorem settled_set {d : D} (S : Settled d) (t : Option Int) : Settled (d.set t) := by
  obtain ⟨h1, h2, h3, h4, h5, h6, h7, h8⟩ := S
  obtain ⟨st, pend, gen, dc, dl, ar, du, out, nw, pan⟩ := d
  simp only at *
  subst h1 h2
  have e1 := dec8_one
  have e2 := inc8_zero
  cases t with
  | none =>
    cases ar <;> cases st <;> simp_all [D.set]
    all_goals (constructor <;> simp_all)
  | some t =>
    by_cases ht : t > nw
    · cases ar <;> cases st <;> simp_all [D.set]
      all_goals (constructor <;> (try simp_all) <;> (try omega))
    · have hle : t ≤ nw := by omega
      clear ht
      cases ar <;> cases st <;> simp_all [D.set, D.closeDone, if_neg (Int.not_lt.mpr hle)]
      all_goals (try (have hnd : ¬ du ≤ nw := by omega
                      simp only [hnd, if_false] at *))
      all_goals (constructor <;> (try simp_all) <;> (try omega))

theorem settled_settle_set {d : D} (S : Settled d) (t : Option Int) (n : Nat) :
    Settled (settle (d.set t) n) := by
  rw [settle_fix (settled_set S t)]; exact settled_set S t

/-- the timer does not come due during the idle period: the advanced state is already settled -/
theorem settled_advance_notdue {d : D} (S : Settled d) (dt : Nat)
    (hn : ¬ (d.armed = true ∧ d.due ≤ d.now + dt)) : Settled (d.advance dt) := by
  obtain ⟨h1, h2, h3, h4, h5, h6, h7, h8⟩ := S
  constructor <;> simp only [D.advance] <;> try assumption
  · intro ha
    obtain ⟨a, b, c, e⟩ := h3 ha
    refine ⟨a, b, ?_, e⟩
    have : ¬ d.due ≤ d.now + dt := fun hh => hn ⟨ha, hh⟩
    omega
  · constructor
    · intro hc; obtain ⟨t, ht, hle⟩ := h6.mp hc; exact ⟨t, ht, by omega⟩
    · intro ⟨t, ht, hle⟩
      cases hs : d.state with
      | stopped => rw [h8 hs] at ht; cases ht
      | started =>
        have ha := h7 hs
        obtain ⟨_, b, _, _⟩ := h3 ha
        rw [b] at ht; cases ht
        exact absurd ⟨ha, hle⟩ hn
      | exceeded => exact h5.mp hs

/-- the explicit result of settling after the armed timer has come due -/
def expired (d : D) (dt : Nat) : D :=
  { d with now := d.now + dt, armed := false, pending := 0, state := .exceeded, doneClosed := true }

theorem settled_expired {d : D} (S : Settled d) (dt : Nat) (ha : d.armed = true)
    (hd : d.due ≤ d.now + dt) : Settled (expired d dt) := by
  obtain ⟨h1, h2, h3, h4, h5, h6, h7, h8⟩ := S
  obtain ⟨a, b, c, e⟩ := h3 ha
  constructor <;> simp only [expired] <;> (try assumption) <;> simp
  exact ⟨d.due, b, hd⟩

theorem settle_advance_due {d : D} (S : Settled d) (dt : Nat) (ha : d.armed = true)
    (hd : d.due ≤ d.now + dt) (n : Nat) : settle (d.advance dt) (n + 2) = expired d dt := by
  have S' := settled_expired S dt ha hd
  obtain ⟨h1, h2, h3, h4, h5, h6, h7, h8⟩ := S
  obtain ⟨a, b, c, e⟩ := h3 ha
  have hdc : d.doneClosed = false := by
    cases hc : d.doneClosed with
    | false => rfl
    | true => have := h5.mpr hc; rw [a] at this; cases this
  have one : (let d1 := (d.advance dt).fire
              if d1.outstanding > 0 then d1.callback else d1) = expired d dt := by
    obtain ⟨st, pend, gen, dc, dl, ar, du, out, nw, pan⟩ := d
    simp only at *
    subst h1 h2 ha a e hdc
    simp [D.advance, D.fire, D.callback, D.closeDone, expired, hd, dec8_one]
  have hne : expired d dt ≠ d.advance dt := by
    intro hh
    have : (expired d dt).armed = (d.advance dt).armed := by rw [hh]
    simp [expired, D.advance, ha] at this
  rw [settle]
  simp only [] at one ⊢
  rw [one, if_neg hne]
  exact settle_fix S' _

theorem settled_settle_advance {d : D} (S : Settled d) (dt : Nat) (n : Nat) :
    Settled (settle (d.advance dt) (n + 2)) := by
  by_cases hc : d.armed = true ∧ d.due ≤ d.now + dt
  · rw [settle_advance_due S dt hc.1 hc.2]; exact settled_expired S dt hc.1 hc.2
  · rw [settle_fix (settled_advance_notdue S dt hc)]; exact settled_advance_notdue S dt hc

/-! ### `release` and `step` -/

theorem release_d (c : Conn) : c.release.1.d = c.d := by
  unfold Conn.release; split <;> rfl

theorem release_timeout {c : Conn} (h : c.release.2 = .timeout) :
    c.blocked = true ∧ c.d.doneClosed = true := by
  unfold Conn.release at h
  split at h
  · assumption
  · simp only [] at h; split at h <;> cases h

theorem release_of_closed {c : Conn} (hb : c.blocked = true) (hc : c.d.doneClosed = true) :
    c.release = ({ c with blocked := false }, .timeout) := by
  unfold Conn.release; rw [if_pos ⟨hb, hc⟩]

theorem release_unblocked {c : Conn} (hb : c.blocked = false) : c.release = (c, .none) := by
  unfold Conn.release; simp [hb]

theorem step_d (c : Conn) (op : ReadDeadline.Op) :
    (step c op).1.d = match op with
      | .setDeadline t => settle (c.d.set t) 4
      | .advance dt => settle (c.d.advance dt) 4
      | _ => c.d := by
  cases op with
  | setDeadline t => simp only [ReadDeadline.step]; rw [release_d]
  | advance dt => simp only [ReadDeadline.step]; rw [release_d]
  | arrive => simp only [ReadDeadline.step]; (repeat' split) <;> rfl
  | read => simp only [ReadDeadline.step]; (repeat' split) <;> rfl
  | close => simp only [ReadDeadline.step]; (repeat' split) <;> rfl

theorem settled_step {c : Conn} (S : Settled c.d) (op : ReadDeadline.Op) : Settled (step c op).1.d := by
  rw [step_d]
  cases op with
  | setDeadline t => exact settled_settle_set S t 4
  | advance dt => exact settled_settle_advance S dt 2
  | arrive => exact S
  | read => exact S
  | close => exact S

/-! ### `close` -/

/-- on every step a connection that is closed afterwards has no blocked read, provided that held before -/
theorem closed_unblocked_step {c : Conn} (I : c.closed = true → c.blocked = false) (op : ReadDeadline.Op) :
    (step c op).1.closed = true → (step c op).1.blocked = false := by
  obtain ⟨d, q, b, cl⟩ := c
  cases op <;> cases b <;> cases cl <;> simp only [] at I <;>
    simp only [ReadDeadline.step, Conn.release] <;> (repeat' split) <;> simp at *

end TV.Proofs.ReadDeadline
