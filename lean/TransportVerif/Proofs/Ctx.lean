import TransportVerif.Link.Ctx
namespace TV.Proofs.Ctx
open TV TV.Ctx TV.CtxLink

/-- reachability invariant of one operation -/
def Inv (o : Op) : Prop :=
  (o.watcher = .none ↔ o.main = .start) ∧
  (o.doneClosed = false ↔ (o.main = .start ∨ o.main = .inCall)) ∧
  (o.deadlineOld = true ↔ (o.watcher = .atRecv ∨ o.watcher = .parkedRecv)) ∧
  (o.deadlineOld = true → o.cancelled = true) ∧
  (o.watcher = .parkedSelect → o.cancelled = false ∧ o.doneClosed = false) ∧
  (o.watcher = .parkedRecv → o.doneClosed = false) ∧
  (o.watcher = .exited → o.doneClosed = true) ∧
  (o.main = .parkedWait → o.watcher ≠ .exited) ∧
  (o.main = .finished ↔ o.result.isSome = true) ∧
  (o.main = .finished → o.watcher = .exited) ∧
  (o.n = o.transferred ∧ o.n ≤ o.want) ∧
  (o.main = .start → o.n = 0) ∧
  (o.main = .inCall → o.n = 0 ∨ (o.stream = true ∧ o.n < o.want)) ∧
  (o.doneClosed = true →
      (o.callErr = .timeout →
        o.cancelled = true ∧ (o.n = 0 ∨ (o.stream = true ∧ 0 < o.n ∧ o.n < o.want))) ∧
      (o.callErr = .nil ∨ o.callErr = .timeout) ∧
      (o.callErr = .nil → (0 < o.want → 0 < o.n) ∧ (o.stream = true → o.n = o.want))) ∧
  (∀ n' e, o.result = some (n', e) → n' = o.n ∧
      ((e = .ctx ∧ o.cancelled = true ∧ o.n = 0) ∨ (e = o.callErr ∧ (e = .timeout → 0 < o.n))))

theorem inv_new (want avail : Nat) (c st : Bool) : Inv (Op.new want avail c st) := by
  simp [Inv, Op.new]

theorem inv_step_data (o : Op) (k : Nat) (h : Inv o) : Inv (step o (.data k)) := by
  simpa [Inv, step] using h

theorem inv_step_cancel (o : Op) (h : Inv o) : Inv (step o .cancel) := by
  rcases o with ⟨m, w, c, d, dl, av, wt, n, ce, r, tr, st⟩
  simp only [Inv, step, Op.ctxBranch] at h ⊢
  grind

theorem inv_stepWatcher (o : Op) (h : Inv o) : Inv o.stepWatcher := by
  rcases o with ⟨m, w, c, d, dl, av, wt, n, ce, r, tr, st⟩
  cases w <;> cases d <;> cases c <;> cases m <;>
    simp [Inv, Op.stepWatcher, Op.ctxBranch, Op.watcherExit, Op.finish] at h ⊢ <;> grind

theorem inv_ctxBranch (o : Op) (h : Inv o) (hw : o.watcher = .atSelect) (hc : o.cancelled = true) :
    Inv o.ctxBranch := by
  rcases o with ⟨m, w, c, d, dl, av, wt, n, ce, r, tr, st⟩
  simp only [Inv, Op.ctxBranch] at h hw hc ⊢
  grind

theorem inv_step_watcher (o : Op) (h : Inv o) : Inv (step o .watcher) := inv_stepWatcher o h

theorem inv_step_watcherCtx (o : Op) (h : Inv o) : Inv (step o .watcherCtx) := by
  simp only [step]
  split
  · next hh => exact inv_ctxBranch o h hh.1 hh.2
  · exact inv_stepWatcher o h

theorem inv_step_main (o : Op) (h : Inv o) : Inv (step o .main) := by
  rcases o with ⟨m, w, c, d, dl, av, wt, n, ce, r, tr, st⟩
  cases m <;> cases w <;> cases dl <;>
    simp [Inv, step, Op.closeDone, Op.watcherExit, Op.finish] at h ⊢ <;> grind

theorem inv_step (o : Op) (s : Step) (h : Inv o) : Inv (step o s) := by
  cases s
  · exact inv_step_main o h
  · exact inv_step_watcher o h
  · exact inv_step_watcherCtx o h
  · exact inv_step_cancel o h
  · exact inv_step_data o _ h

theorem inv_run (o : Op) (ss : List Step) (h : Inv o) : Inv (run o ss) := by
  induction ss generalizing o with
  | nil => exact h
  | cons s ss ih => exact ih _ (inv_step o s h)

/-! ### fields that the control flow does not touch -/

@[simp] theorem finish_want (o : Op) : o.finish.want = o.want := rfl
@[simp] theorem finish_avail (o : Op) : o.finish.avail = o.avail := rfl
@[simp] theorem finish_transferred (o : Op) : o.finish.transferred = o.transferred := rfl

@[simp] theorem watcherExit_want (o : Op) (b : Bool) : (o.watcherExit b).want = o.want := by
  simp only [Op.watcherExit]; split <;> rfl
@[simp] theorem watcherExit_avail (o : Op) (b : Bool) : (o.watcherExit b).avail = o.avail := by
  simp only [Op.watcherExit]; split <;> rfl
@[simp] theorem watcherExit_transferred (o : Op) (b : Bool) :
    (o.watcherExit b).transferred = o.transferred := by
  simp only [Op.watcherExit]; split <;> rfl

@[simp] theorem closeDone_want (o : Op) : o.closeDone.want = o.want := by
  simp only [Op.closeDone]; split <;> simp
@[simp] theorem closeDone_avail (o : Op) : o.closeDone.avail = o.avail := by
  simp only [Op.closeDone]; split <;> simp
@[simp] theorem closeDone_transferred (o : Op) : o.closeDone.transferred = o.transferred := by
  simp only [Op.closeDone]; split <;> simp

@[simp] theorem ctxBranch_want (o : Op) : o.ctxBranch.want = o.want := rfl
@[simp] theorem ctxBranch_avail (o : Op) : o.ctxBranch.avail = o.avail := rfl
@[simp] theorem ctxBranch_transferred (o : Op) : o.ctxBranch.transferred = o.transferred := rfl

@[simp] theorem stepWatcher_want (o : Op) : o.stepWatcher.want = o.want := by
  simp only [Op.stepWatcher]; split <;> (try split) <;> (try split) <;> simp
@[simp] theorem stepWatcher_avail (o : Op) : o.stepWatcher.avail = o.avail := by
  simp only [Op.stepWatcher]; split <;> (try split) <;> (try split) <;> simp
@[simp] theorem stepWatcher_transferred (o : Op) : o.stepWatcher.transferred = o.transferred := by
  simp only [Op.stepWatcher]; split <;> (try split) <;> (try split) <;> simp

theorem step_want (o : Op) (s : Step) : (step o s).want = o.want := by
  cases s <;> simp only [step]
  · split <;> (try split) <;> (try split) <;> (try split) <;> simp
  · simp
  · split <;> simp
  · split <;> simp
  
theorem run_want (o : Op) (ss : List Step) : (run o ss).want = o.want := by
  induction ss generalizing o with
  | nil => rfl
  | cons s ss ih => simp [run, ih, step_want]

theorem watcherExit_stream (o : Op) (b : Bool) : (o.watcherExit b).stream = o.stream := by
  simp only [Op.watcherExit]; split <;> rfl
theorem closeDone_stream (o : Op) : o.closeDone.stream = o.stream := by
  simp only [Op.closeDone]; split <;> simp [watcherExit_stream]
theorem stepWatcher_stream (o : Op) : o.stepWatcher.stream = o.stream := by
  simp only [Op.stepWatcher]; split <;> (try split) <;> (try split) <;>
    simp [watcherExit_stream, Op.ctxBranch]

theorem step_stream (o : Op) (s : Step) : (step o s).stream = o.stream := by
  cases s <;> simp only [step]
  · split <;> (try split) <;> (try split) <;> (try split) <;>
      simp [closeDone_stream, Op.finish]
  · exact stepWatcher_stream o
  · split <;> simp [stepWatcher_stream, Op.ctxBranch]
  · split <;> simp [Op.ctxBranch]

theorem run_stream (o : Op) (ss : List Step) : (run o ss).stream = o.stream := by
  induction ss generalizing o with
  | nil => rfl
  | cons s ss ih => simp [run, ih, step_stream]

def stepData : Step → Nat
  | .data k => k
  | _ => 0

theorem step_bytes (o : Op) (s : Step) :
    (step o s).avail + (step o s).transferred = o.avail + o.transferred + stepData s := by
  cases s <;> simp only [step, stepData]
  · split <;> (try split) <;> (try split) <;> (try split) <;> simp <;> omega
  · simp
  · split <;> simp
  · split <;> simp
  · omega

theorem dataSum_cons (s : Step) (ss : List Step) : dataSum (s :: ss) = stepData s + dataSum ss := by
  cases s <;> simp [dataSum, stepData]

theorem run_bytes (o : Op) (ss : List Step) :
    (run o ss).avail + (run o ss).transferred = o.avail + o.transferred + dataSum ss := by
  induction ss generalizing o with
  | nil => simp [run, dataSum]
  | cons s ss ih =>
    rw [run, ih, step_bytes, dataSum_cons]; omega

end TV.Proofs.Ctx
