import TransportVerif.Proofs.NatInv
/-
NAT proofs, part 3: `inbound_is_silent`.  Two abstract states with the same counter, the same clock and
the same list of unexpired mappings (`canon`) answer every call identically and stay so related; an
inbound call changes the state at most by dropping an expired mapping.
-/
namespace TV.Proofs.Nat
open TV TV.Nat TV.NatLink

def canon (now : Int) (L : List Mapping) : List Mapping := L.filter (alive now)

theorem find_canon (q : Mapping → Bool) (now : Int) (L : List Mapping) :
    L.find? (fun m => q m && alive now m) = (canon now L).find? q := by
  rw [canon, List.find?_filter]
  congr 1
  funext m
  cases q m <;> cases alive now m <;> simp

theorem canon_append (now : Int) (A B : List Mapping) : canon now (A ++ B) = canon now A ++ canon now B :=
  List.filter_append ..

theorem filter_map_comm {α : Type} (p : α → Bool) (g : α → α) (L : List α) (h : ∀ x ∈ L, p (g x) = p x) :
    (L.map g).filter p = (L.filter p).map g := by
  rw [List.filter_map]
  congr 1
  apply List.filter_congr
  intro x hx
  exact h x hx

theorem canon_filter (now : Int) (p : Mapping → Bool) (L : List Mapping) :
    canon now (L.filter p) = (canon now L).filter p := by
  simp only [canon, List.filter_filter]
  apply List.filter_congr
  intro x _
  rw [Bool.and_comm]

theorem canon_later (now : Int) (dt : Nat) (L : List Mapping) :
    canon (now + dt) L = canon (now + dt) (canon now L) := by
  simp only [canon, List.filter_filter]
  apply List.filter_congr
  intro x _
  simp only [alive]
  by_cases h : now + (dt : Int) ≤ x.expires
  · have : now ≤ x.expires := by omega
    simp [h, this]
  · simp [h]

structure Sim (n : NAT) (s1 s2 : AS) : Prop where
  w1 : WfS n s1
  w2 : WfS n s2
  c : s1.c = s2.c
  now : s1.now = s2.now
  canon : canon s1.now s1.L = canon s1.now s2.L

theorem canon_map_repl {ips c L} (hw : WfL ips c L) (now : Int) {m0 m1 : Mapping} (hm : m0 ∈ L)
    (ha : alive now m1 = alive now m0) :
    canon now (L.map (fun x => if x.id = m0.id then m1 else x)) =
      (canon now L).map (fun x => if x.id = m0.id then m1 else x) := by
  apply filter_map_comm
  intro x hx
  by_cases hi : x.id = m0.id
  · have := hw.eq_of_id hx hm hi
    subst this
    simp [ha]
  · simp [hi]

theorem aOut_sim (n : NAT) (hl : 0 ≤ n.lifetime) (L1 L2 : List Mapping) (c : Nat)
    (h1 : WfL n.mappedIPs c L1) (h2 : WfL n.mappedIPs c L2) (now : Int) (hc : canon now L1 = canon now L2)
    (src dst : Addr) :
    (aOut n L1 c now src dst).2 = (aOut n L2 c now src dst).2 ∧
    (aOut n L1 c now src dst).1.2 = (aOut n L2 c now src dst).1.2 ∧
    canon now (aOut n L1 c now src dst).1.1 = canon now (aOut n L2 c now src dst).1.1 := by
  unfold aOut
  rw [find_canon (fun m => decide (outKey m = (src, keyOf n.mapBeh dst))) now L1,
    find_canon (fun m => decide (outKey m = (src, keyOf n.mapBeh dst))) now L2, ← hc]
  cases hf : (canon now L1).find? (fun m => decide (outKey m = (src, keyOf n.mapBeh dst))) with
  | some m0 =>
    have hmc : m0 ∈ canon now L1 := List.mem_of_find?_eq_some hf
    have hm1 : m0 ∈ L1 := (List.mem_filter.1 hmc).1
    have hm2 : m0 ∈ L2 := by rw [hc] at hmc; exact (List.mem_filter.1 hmc).1
    have hal : alive now m0 = true := (List.mem_filter.1 hmc).2
    have ha : alive now (touch n.lifetime now (keyOf n.filtBeh dst) m0) = alive now m0 := by
      rw [hal]; simp [alive, touch]; omega
    refine ⟨rfl, rfl, ?_⟩
    simp only
    rw [canon_map_repl h1 now hm1 ha, canon_map_repl h2 now hm2 ha, hc]
  | none =>
    cases hh : n.mappedIPs.head? with
    | none =>
      refine ⟨rfl, rfl, ?_⟩
      simp only
      rw [canon_filter, canon_filter, hc]
    | some ip0 =>
      refine ⟨rfl, rfl, ?_⟩
      simp only
      rw [canon_append, canon_append, canon_filter, canon_filter, hc]

theorem aIn_sim (n : NAT) (L1 L2 : List Mapping) (now : Int) (hc : canon now L1 = canon now L2)
    (src dst : Addr) :
    (aIn n L1 now src dst).2 = (aIn n L2 now src dst).2 ∧
    canon now (aIn n L1 now src dst).1 = canon now (aIn n L2 now src dst).1 := by
  unfold aIn
  rw [find_canon (fun m => decide (inKey m = (dst.ip, dst.port))) now L1,
    find_canon (fun m => decide (inKey m = (dst.ip, dst.port))) now L2, ← hc]
  cases hf : (canon now L1).find? (fun m => decide (inKey m = (dst.ip, dst.port))) with
  | some m0 => exact ⟨rfl, hc⟩
  | none =>
    refine ⟨rfl, ?_⟩
    simp only
    rw [canon_filter, canon_filter, hc]

theorem aStep_sim (n : NAT) (hl : 0 ≤ n.lifetime) (s1 s2 : AS) (h : Sim n s1 s2) (op : Op) :
    (aStep n s1 op).2 = (aStep n s2 op).2 ∧ Sim n (aStep n s1 op).1 (aStep n s2 op).1 := by
  obtain ⟨w1, w2, hc, hnow, hcan⟩ := h
  have w2' : WfL n.mappedIPs s1.c s2.L := by rw [hc]; exact w2
  cases op with
  | out a b =>
    obtain ⟨e1, e2, e3⟩ := aOut_sim n hl s1.L s2.L s1.c w1 w2' s1.now hcan a b
    refine ⟨?_, aStep_wf n s1 w1 _, aStep_wf n s2 w2 _, ?_, ?_, ?_⟩
    · simp only [aStep]; rw [← hc, ← hnow, e1]
    · simp only [aStep]; rw [← hc, ← hnow, e2]
    · exact hnow
    · simp only [aStep]; rw [← hc, ← hnow]; exact e3
  | inb a b =>
    obtain ⟨e1, e2⟩ := aIn_sim n s1.L s2.L s1.now hcan a b
    refine ⟨?_, aStep_wf n s1 w1 _, aStep_wf n s2 w2 _, ?_, ?_, ?_⟩
    · simp only [aStep]; rw [← hnow, e1]
    · exact hc
    · exact hnow
    · simp only [aStep]; rw [← hnow]; exact e2
  | adv dt =>
    refine ⟨rfl, w1, w2, hc, ?_, ?_⟩
    · simp only [aStep]; rw [hnow]
    · simp only [aStep]
      rw [canon_later s1.now dt s1.L, canon_later s1.now dt s2.L, hcan]

theorem aOuts_sim (n : NAT) (hl : 0 ≤ n.lifetime) (ops : List Op) :
    ∀ s1 s2 : AS, Sim n s1 s2 → aOuts n s1 ops = aOuts n s2 ops := by
  induction ops with
  | nil => intro _ _ _; rfl
  | cons op ops ih =>
    intro s1 s2 h
    obtain ⟨e, h'⟩ := aStep_sim n hl s1 s2 h op
    simp only [aOuts, e, ih _ _ h']

/-- an inbound call leaves the unexpired mappings alone -/
theorem aIn_canon (n : NAT) (L : List Mapping) (now : Int) (src dst : Addr) :
    canon now (aIn n L now src dst).1 = canon now L := by
  unfold aIn
  cases hf : L.find? (fun m => decide (inKey m = (dst.ip, dst.port)) && alive now m) with
  | some m0 => rfl
  | none =>
    simp only
    rw [canon, List.filter_filter]
    apply List.filter_congr
    intro x hx
    have := List.find?_eq_none.1 hf x hx
    simp only [Bool.and_eq_true, decide_eq_true_eq, not_and, Bool.not_eq_true] at this
    by_cases hk : inKey x = (dst.ip, dst.port)
    · simp [hk, this hk]
    · simp [hk]

theorem inbound_is_silent (mode : Bool) (mb fb : Dep) (lt : Int) (mapped loc : List Nat) (n : NAT)
    (pre post : List Op) (a b : Addr)
    (hn : NAT.new mode mb fb lt mapped loc = some n) (hlt : 0 ≤ lt) :
    outs (step (runState (n, 0) pre) (.inb a b)).1 post = outs (runState (n, 0) pre) post := by
  cases mode with
  | true =>
    obtain ⟨h1, _, _⟩ := new_one hn
    have hs : (runState (n, 0) pre).1 = n := runState_one n h1 pre 0
    have : ∀ s : NAT × Int, s.1.one2one = true → (step s (.inb a b)).1 = s := by
      intro s h
      simp only [step]
      rw [one_to_one_inbound s.1 s.2 a b h]
    rw [this _ (by rw [hs]; exact h1)]
  | false =>
    obtain ⟨h1, _, _, hlife⟩ := new_napt hn
    have hl : 0 ≤ n.lifetime := by
      rw [hlife]; split
      · simp [defaultLifetime]
      · exact hlt
    have hw := aRun_wf n pre _ (init_wf n)
    rw [new_napt_conc hn, runState_conc n h1 pre _ (init_wf n), step_conc n h1 _ hw]
    simp only
    rw [outs_conc n h1 post _ (aStep_wf n _ hw _), outs_conc n h1 post _ hw]
    apply aOuts_sim n hl
    exact ⟨aStep_wf n _ hw _, hw, rfl, rfl, aIn_canon n _ _ a b⟩

end TV.Proofs.Nat
