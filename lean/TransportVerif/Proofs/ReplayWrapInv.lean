import TransportVerif.Proofs.ReplayWrap
/- the refinement invariant of the wrapping detector and its preservation -/
namespace TV.Proofs.Replay
open TV TV.Replay TV.ReplayLink TV.FixedBig TV.ReplaySpec TV.Proofs.ReplayArith

/-- all the arithmetic of one started `Check`, with `a` = ahead and `b` = behind distance -/
theorem diff_cases (L m x : Nat) (hL : L ≤ m) (hx : x ≤ m) (D : Int) (a b : Nat)
    (hD : D = if x ≤ L then (if m / 2 < L - x then ((L - x : Nat) : Int) - ((m + 1 : Nat) : Int) else ((L - x : Nat) : Int))
      else (if x - L ≤ m / 2 then -((x - L : Nat) : Int) else ((m + 1 - (x - L) : Nat) : Int)))
    (ha : a = if L ≤ x then x - L else x + (m + 1) - L)
    (hb : b = if x ≤ L then L - x else L + (m + 1) - x) :
    (D = -(a : Int) ∧ 0 < a ∧ a < m + 1 ∧ m + 1 ≤ 2 * b ∧
        (a ≠ (m + 2) / 2 - 1 → a ≠ (m + 2) / 2 → 2 * a < m + 1)) ∨
    (D = (b : Int) ∧ b < m + 1 ∧
        (a ≠ (m + 2) / 2 - 1 → a ≠ (m + 2) / 2 → a = 0 ∨ m + 1 ≤ 2 * a)) := by
  subst hD
  by_cases h1 : x ≤ L
  · rw [if_pos h1]
    by_cases h2 : m / 2 < L - x
    · rw [if_pos h2]; left; split at ha <;> split at hb <;> omega
    · rw [if_neg h2]; right; split at ha <;> split at hb <;> omega
  · rw [if_neg h1]
    by_cases h2 : x - L ≤ m / 2
    · rw [if_pos h2]; left; split at ha <;> split at hb <;> omega
    · rw [if_neg h2]; right; split at ha <;> split at hb <;> omega

structure Rw (w m : Nat) (d : Det) (h : Hist) : Prop where
  kind : d.kind = .wrap
  max : d.maxSeq = m
  win : d.windowSize = w
  wf : Wf d.mask
  n : d.mask.n = w
  init : d.init = h.started
  latest : h.started = true → d.latestSeq = h.latest ∧ h.latest ≤ m
  fresh : h.started = false → h.acc = [] ∧ ∀ i, d.mask.bit i = false
  cong : ∀ e ∈ h.acc, e.1 ≤ m ∧ (e.1 + e.2) % (m + 1) = h.latest
  bits : ∀ i, i < w → (d.mask.bit i = true ↔ ∃ e ∈ h.acc, e.2 = i)

theorem Rw_new (w m : Nat) : Rw w m (Det.new .wrap w m) Hist.empty where
  kind := rfl
  max := rfl
  win := rfl
  wf := new_wf w
  n := rfl
  init := rfl
  latest := by intro h; simp [Hist.empty] at h
  fresh := by intro _; exact ⟨rfl, fun i => new_bit w i⟩
  cong := by intro e he; simp [Hist.empty] at he
  bits := by
    intro i _
    simp [Det.new, new_bit, Hist.empty]

theorem Rw_first (w m : Nat) (d : Det) (h : Hist) (x : Nat) (hR : Rw w m d h)
    (hs : h.started = false) (hx : x ≤ m) :
    Rw w m { d with init := true, latestSeq := x, mask := (d.mask.lsh 1).setBit 0 }
      { started := true, latest := x, acc := [(x, 0)] } := by
  have hwf : Wf (d.mask.lsh 1) := lsh_wf _ _ hR.wf
  refine ⟨hR.kind, hR.max, hR.win, setBit_wf _ _ hwf, ?_, rfl, fun _ => ⟨rfl, hx⟩, ?_, ?_, ?_⟩
  · show ((d.mask.lsh 1).setBit 0).n = w
    rw [setBit_n, lsh_n, hR.n]
  · intro hh; cases hh
  · intro e he
    simp only [List.mem_singleton] at he
    subst he
    exact ⟨hx, Nat.mod_eq_of_lt (by show x + 0 < m + 1; omega)⟩
  · intro i hi
    show ((d.mask.lsh 1).setBit 0).bit i = true ↔ _
    rw [setBit_bit _ hwf, lsh_n, lsh_bit _ hR.wf _ _ (by omega), hR.n, (hR.fresh hs).2]
    simp only [Bool.and_false, Bool.or_false, Bool.and_eq_true, decide_eq_true_eq,
      List.mem_singleton]
    constructor
    · rintro ⟨_, h0⟩; exact ⟨(x, 0), rfl, h0.symm⟩
    · rintro ⟨e, rfl, h0⟩; exact ⟨hi, h0.symm⟩

theorem Rw_ahead (w m : Nat) (d : Det) (h : Hist) (x a : Nat) (hR : Rw w m d h)
    (hs : h.started = true) (hx : x ≤ m)
    (ha : a = if h.latest ≤ x then x - h.latest else x + (m + 1) - h.latest) (ha0 : 0 < a) :
    Rw w m { d with init := true, latestSeq := x, mask := (d.mask.lsh a).setBit 0 }
      { h with latest := x, acc := (x, 0) :: h.acc.map (fun e => (e.1, e.2 + a)) } := by
  have hwf : Wf (d.mask.lsh a) := lsh_wf _ _ hR.wf
  obtain ⟨_, hL⟩ := hR.latest hs
  refine ⟨hR.kind, hR.max, hR.win, setBit_wf _ _ hwf, ?_, hs.symm, fun _ => ⟨rfl, hx⟩, ?_, ?_, ?_⟩
  · show ((d.mask.lsh a).setBit 0).n = w
    rw [setBit_n, lsh_n, hR.n]
  · intro hh
    have : h.started = false := hh
    rw [hs] at this; cases this
  · intro e he
    simp only [List.mem_cons, List.mem_map] at he
    rcases he with rfl | ⟨e0, he0, rfl⟩
    · exact ⟨hx, Nat.mod_eq_of_lt (by show x + 0 < m + 1; omega)⟩
    · obtain ⟨c1, c2⟩ := hR.cong e0 he0
      refine ⟨c1, ?_⟩
      show (e0.1 + (e0.2 + a)) % (m + 1) = x
      apply cong_shift _ _ _ _ _ _ c2
      rw [ha]; exact ahead_cong m h.latest x hx hL
  · intro i hi
    show ((d.mask.lsh a).setBit 0).bit i = true ↔ _
    rw [setBit_bit _ hwf, lsh_n, lsh_bit _ hR.wf _ _ ha0, hR.n]
    simp only [Bool.and_eq_true, Bool.or_eq_true, decide_eq_true_eq, List.mem_cons,
      List.mem_map]
    constructor
    · rintro ⟨_, h0 | ⟨⟨hai, _⟩, hb⟩⟩
      · exact ⟨(x, 0), Or.inl rfl, h0.symm⟩
      · obtain ⟨e0, he0, hs0⟩ := (hR.bits (i - a) (by omega)).1 hb
        refine ⟨(e0.1, e0.2 + a), Or.inr ⟨e0, he0, rfl⟩, ?_⟩
        show e0.2 + a = i
        omega
    · rintro ⟨e, rfl | ⟨e0, he0, rfl⟩, hs0⟩
      · exact ⟨hi, Or.inl hs0.symm⟩
      · have hs' : e0.2 + a = i := hs0
        refine ⟨hi, Or.inr ⟨⟨by omega, hi⟩, ?_⟩⟩
        exact (hR.bits (i - a) (by omega)).2 ⟨e0, he0, by omega⟩

theorem Rw_behind (w m : Nat) (d : Det) (h : Hist) (x b : Nat) (hR : Rw w m d h)
    (hs : h.started = true) (hx : x ≤ m)
    (hb : b = if x ≤ h.latest then h.latest - x else h.latest + (m + 1) - x) :
    Rw w m { d with init := true, latestSeq := h.latest, mask := d.mask.setBit b }
      { h with acc := (x, b) :: h.acc } := by
  obtain ⟨_, hL⟩ := hR.latest hs
  refine ⟨hR.kind, hR.max, hR.win, setBit_wf _ _ hR.wf, ?_, hs.symm, fun _ => ⟨rfl, hL⟩, ?_, ?_, ?_⟩
  · show (d.mask.setBit b).n = w
    rw [setBit_n, hR.n]
  · intro hh
    have : h.started = false := hh
    rw [hs] at this; cases this
  · intro e he
    simp only [List.mem_cons] at he
    rcases he with rfl | he
    · refine ⟨hx, ?_⟩
      show (x + b) % (m + 1) = h.latest
      rw [hb]; exact behind_cong m h.latest x hx hL
    · exact hR.cong e he
  · intro i hi
    show (d.mask.setBit b).bit i = true ↔ _
    rw [setBit_bit _ hR.wf, hR.n]
    simp only [Bool.and_eq_true, Bool.or_eq_true, decide_eq_true_eq, List.mem_cons]
    constructor
    · rintro ⟨_, h0 | hbit⟩
      · exact ⟨(x, b), Or.inl rfl, h0.symm⟩
      · obtain ⟨e0, he0, hs0⟩ := (hR.bits i hi).1 hbit
        exact ⟨e0, Or.inr he0, hs0⟩
    · rintro ⟨e, rfl | he0, hs0⟩
      · exact ⟨hi, Or.inl hs0.symm⟩
      · exact ⟨hi, Or.inr ((hR.bits i hi).2 ⟨e, he0, hs0⟩)⟩

end TV.Proofs.Replay
