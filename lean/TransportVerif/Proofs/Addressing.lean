import TransportVerif.Link.Addressing
import TransportVerif.Proofs.AddrRouter
import TransportVerif.Proofs.AddrHost
/-
Proofs for C13. The router lemmas (`assign_spec`, `register_spec`, `addNIC_spec`, `RInv`) live in
`Proofs/AddrRouter.lean`; the host invariant `HWf` and its consequences in `Proofs/AddrHost.lean`.
-/
namespace TV.Proofs.Addressing
end TV.Proofs.Addressing
