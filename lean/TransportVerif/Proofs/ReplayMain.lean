import TransportVerif.Proofs.ReplayPlain
import TransportVerif.Proofs.ReplayWrapSmall
/- the run-level results used by Props/C04 and Props/C05 -/
namespace TV.Proofs.Replay
open TV TV.Replay TV.ReplayLink TV.FixedBig TV.ReplaySpec TV.Proofs.ReplayArith

/-- plain detector: both judgements hold along every run from a fresh detector -/
theorem plain_run (w m : Nat) (ops : List Replay.Op) :
    ∀ o ∈ runNew .plain w m ops,
      allowed04 (cfgOf .plain w m) o.before (Op.num o.op) (specOut o.out) = true ∧
      allowed05 (cfgOf .plain w m) o.before (Op.num o.op) (Op.acc o.op) (specOut o.out) = true :=
  run_good (cfgOf .plain w m) (Rp w m) (fun d h x hR => plain_checkGood w m d h x hR)
    ops _ _ (Rp_new w m)

/-- wrapping detector under `WrapOk`: both judgements hold along every run from a fresh detector -/
theorem wrap_run (w m : Nat) (ops : List Replay.Op) (hm : m < 2 ^ 62) (hw : w < 2 ^ 63)
    (H : WrapOk w m) :
    ∀ o ∈ runNew .wrap w m ops,
      allowed04 (cfgOf .wrap w m) o.before (Op.num o.op) (specOut o.out) = true ∧
      allowed05 (cfgOf .wrap w m) o.before (Op.num o.op) (Op.acc o.op) (specOut o.out) = true :=
  run_good (cfgOf .wrap w m) (Rw w m) (fun d h x hR => wrap_checkGood w m hm hw H d h x hR)
    ops _ _ (Rw_new w m)

theorem inScope_wrapOk (w m : Nat) (h : (cfgOf .wrap w m).inScope = true) :
    WrapOk w m ∧ m < 2 ^ 62 := by
  rw [inScope_wrap] at h
  simp only [Bool.and_eq_true, decide_eq_true_eq] at h
  refine ⟨?_, h.2⟩
  unfold WrapOk
  omega

theorem run_out (c : Cfg) : ∀ (ops : List Replay.Op) (d : Det) (h : Hist), ∀ o ∈ run c d h ops,
    ∃ d', o.out = (Replay.step d' o.op).2 := by
  intro ops
  induction ops with
  | nil => intro d h o ho; simp [run] at ho
  | cons op ops ih =>
    intro d h o ho
    simp only [run, List.mem_cons] at ho
    rcases ho with rfl | ho
    · exact ⟨d, rfl⟩
    · exact ih _ _ o ho

theorem allowed05_none (c : Cfg) (h : Hist) (x : Nat) (acc : Bool) (o : ReplaySpec.Out)
    (hn : expectedOk c h x = none) (ho : o ≠ .panic) : allowed05 c h x acc o = true := by
  unfold allowed05
  rw [hn]
  cases o <;> simp_all

theorem specOut_ne_panic (o : Replay.Out) (h : o ≠ .panic) : specOut o ≠ .panic := by
  cases o <;> simp_all [specOut]

/-- C05's judgement along every run, both detectors, no side condition -/
theorem run05 (kind : Replay.Kind) (w m : Nat) (ops : List Replay.Op) (hw : w < 2 ^ 63) :
    ∀ o ∈ runNew kind w m ops,
      allowed05 (cfgOf kind w m) o.before (Op.num o.op) (Op.acc o.op) (specOut o.out) = true := by
  cases kind with
  | plain => intro o ho; exact (plain_run w m ops o ho).2
  | wrap =>
    cases hsc : (cfgOf .wrap w m).inScope
    · intro o ho
      obtain ⟨d', hd'⟩ := run_out _ ops _ _ o ho
      apply allowed05_none _ _ _ _ _ (expectedOk_outOfScope _ _ _ hsc)
      apply specOut_ne_panic
      rw [hd']; exact step_ne_panic _ _
    · obtain ⟨H, hm⟩ := inScope_wrapOk w m hsc
      intro o ho; exact (wrap_run w m ops hm hw H o ho).2

/-- wrapping detector, every configuration: C04's judgement holds along every run from a fresh
detector -/
theorem wrap_run04 (w m : Nat) (ops : List Replay.Op) (hm : m < 2 ^ 62) (hw : w < 2 ^ 63) :
    ∀ o ∈ runNew .wrap w m ops,
      allowed04 (cfgOf .wrap w m) o.before (Op.num o.op) (specOut o.out) = true :=
  fun o ho =>
    (run_good (cfgOf .wrap w m) (R2 w m) (fun d h x hR => wrap_checkGood2 w m hm hw d h x hR)
      ops _ _ (Or.inl (Rw_new w m)) o ho).1

/-- C04's judgement along every run: the plain detector always, the wrapping detector with maximum
below 2^62 -/
theorem run04 (kind : Replay.Kind) (w m : Nat) (ops : List Replay.Op) (hw : w < 2 ^ 63)
    (hwrap : kind = .wrap → m < 2 ^ 62) :
    ∀ o ∈ runNew kind w m ops,
      allowed04 (cfgOf kind w m) o.before (Op.num o.op) (specOut o.out) = true := by
  cases kind with
  | plain => intro o ho; exact (plain_run w m ops o ho).1
  | wrap => exact wrap_run04 w m ops (hwrap rfl) hw

/-! ### the direct form for the plain detector -/

theorem checkGood_refused (c : Cfg) (R : Det → Hist → Prop) (d : Det) (h : Hist) (x : Nat)
    (hg : CheckGood c R d h x) (hm : mustRefuse c h x = true) : check d x = .refused := by
  rcases hg with ⟨hc, _⟩ | ⟨_, _, _, _, hm', _⟩
  · exact hc
  · rw [hm] at hm'; cases hm'

theorem step_refused_of_check (d : Det) (op : Replay.Op) (hc : check d (Op.num op) = .refused) :
    (Replay.step d op).2 = .refused := by
  cases op <;> simp only [Op.num] at hc <;> simp only [Replay.step, hc]

theorem plain_acc_mono (w m : Nat) (h : Hist) (x s : Nat) (o : ReplaySpec.Out)
    (hs : ∃ e ∈ h.acc, e.1 = s) : ∃ e ∈ (h.step (cfgOf .plain w m) x o).acc, e.1 = s := by
  obtain ⟨e, he, hes⟩ := hs
  cases o with
  | accepted f =>
    show ∃ e ∈ (if h.latest < x then _ else _ : Hist).acc, e.1 = s
    split
    · exact ⟨(e.1, e.2 + (x - h.latest)),
        List.mem_cons_of_mem _ (List.mem_map.2 ⟨e, he, rfl⟩), hes⟩
    · exact ⟨e, List.mem_cons_of_mem _ he, hes⟩
  | _ => exact ⟨e, he, hes⟩

theorem plain_acc_new (w m : Nat) (h : Hist) (s : Nat) (f : Bool) :
    ∃ e ∈ (h.step (cfgOf .plain w m) s (.accepted f)).acc, e.1 = s := by
  show ∃ e ∈ (if h.latest < s then _ else _ : Hist).acc, e.1 = s
  split
  · exact ⟨(s, 0), List.mem_cons_self, rfl⟩
  · exact ⟨(s, h.latest - s), List.mem_cons_self, rfl⟩

/-- a number in the recorder's accepted list is refused at every later position -/
theorem plain_refused_later (w m s : Nat) : ∀ (ops : List Replay.Op) (d : Det) (h : Hist) (j : Nat),
    Rp w m d h → (∃ e ∈ h.acc, e.1 = s) → (ops[j]?).map Op.num = some s →
    (outs d ops)[j]? = some .refused := by
  intro ops
  induction ops with
  | nil => intro d h j _ _ hj; simp at hj
  | cons op ops ih =>
    intro d h j hR hs hj
    have hg := plain_checkGood w m d h (Op.num op) hR
    cases j with
    | zero =>
      simp only [List.getElem?_cons_zero, Option.map_some, Option.some.injEq] at hj
      simp only [outs, List.getElem?_cons_zero, Option.some.injEq]
      apply step_refused_of_check
      apply checkGood_refused _ _ _ _ _ hg
      rw [mustRefuse_plain, hj, (any_fst _ _).2 hs]; simp
    | succ j =>
      simp only [List.getElem?_cons_succ] at hj
      simp only [outs, List.getElem?_cons_succ]
      have hstep := step_good _ _ d h op hR hg
      exact ih _ _ j hstep.2.2 (plain_acc_mono w m h _ s _ hs) hj

theorem plain_never_twice_gen (w m s : Nat) (b : Bool) : ∀ (ops : List Replay.Op) (d : Det) (h : Hist)
    (i j : Nat), Rp w m d h → i < j → ops[i]? = some (.checkAccept s) →
    (outs d ops)[i]? = some (.accepted b) → (ops[j]?).map Op.num = some s →
    (outs d ops)[j]? = some .refused := by
  intro ops
  induction ops with
  | nil => intro d h i j _ _ hi; simp at hi
  | cons op ops ih =>
    intro d h i j hR hij hi hacc hj
    have hg := plain_checkGood w m d h (Op.num op) hR
    have hstep := step_good _ _ d h op hR hg
    cases j with
    | zero => omega
    | succ j =>
      simp only [List.getElem?_cons_succ] at hj
      simp only [outs, List.getElem?_cons_succ]
      cases i with
      | zero =>
        simp only [List.getElem?_cons_zero, Option.some.injEq] at hi
        subst hi
        simp only [outs, List.getElem?_cons_zero, Option.some.injEq] at hacc
        refine plain_refused_later w m s ops _ _ j hstep.2.2 ?_ hj
        rw [hacc]
        exact plain_acc_new w m h s b
      | succ i =>
        simp only [List.getElem?_cons_succ] at hi
        simp only [outs, List.getElem?_cons_succ] at hacc
        exact ih _ _ i j hstep.2.2 (by omega) hi hacc hj

end TV.Proofs.Replay
