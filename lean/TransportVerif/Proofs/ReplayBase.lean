import TransportVerif.Link.Replay
import TransportVerif.Proofs.FixedBig
import TransportVerif.Proofs.ReplayArith
/- helper lemmas for Props/C04 and Props/C05 (bit-level lemmas about FixedBig are in
   Proofs/FixedBig, the arithmetic of `wrapDiff` in Proofs/ReplayArith; here: the easy facts,
   the generic run induction, and the refinement invariant of the plain detector) -/
namespace TV.Proofs.Replay
open TV TV.Replay TV.ReplayLink TV.FixedBig TV.ReplaySpec

/-! ### easy facts -/

theorem step_ne_panic (d : Det) (op : Replay.Op) : (Replay.step d op).2 ≠ .panic := by
  cases op <;> simp only [Replay.step] <;> split <;> simp

theorem step_check_fst (d : Det) (s : Nat) : (Replay.step d (.check s)).1 = d := by
  simp only [Replay.step]; split <;> rfl

theorem step_refused_fst (d : Det) (s : Nat) (h : (Replay.step d (.checkAccept s)).2 = .refused) :
    (Replay.step d (.checkAccept s)).1 = d := by
  simp only [Replay.step] at h ⊢
  split
  · rfl
  · rename_i heq; rw [heq] at h; simp at h

theorem check_above_max (d : Det) (s : Nat) (h : d.maxSeq < s) : check d s = .refused := by
  unfold check plainCheck wrapCheck
  cases d.kind <;> simp [h]

theorem check_ok_fields (d d' : Det) (s : Nat) (l : Bool) (h : check d s = .ok d' l) :
    d'.maxSeq = d.maxSeq ∧ d'.kind = d.kind ∧ d'.windowSize = d.windowSize := by
  unfold check plainCheck wrapCheck at h
  split at h
  · repeat' split at h
    all_goals first | (cases h; done) | (injection h with h1 h2; subst h1; simp)
  · simp only at h
    repeat' split at h
    all_goals first | (cases h; done) | (injection h with h1 h2; subst h1; simp)

theorem step_maxSeq (d : Det) (op : Replay.Op) : (Replay.step d op).1.maxSeq = d.maxSeq := by
  cases op <;> simp only [Replay.step] <;> split <;> try rfl
  rename_i heq
  exact (check_ok_fields _ _ _ _ heq).1

theorem step_above_max (d : Det) (op : Replay.Op) (h : d.maxSeq < Op.num op) :
    Replay.step d op = (d, .refused) := by
  cases op <;> simp only [Replay.step, Op.num] at h ⊢ <;> rw [check_above_max _ _ h]

theorem outs_above_max (m : Nat) (ops : List Replay.Op) : ∀ (d : Det) (j : Nat) (op : Replay.Op),
    d.maxSeq = m → ops[j]? = some op → m < Op.num op → (outs d ops)[j]? = some .refused := by
  induction ops with
  | nil => intro d j op _ h; simp at h
  | cons o ops ih =>
    intro d j op hd hj hab
    cases j with
    | zero =>
      simp only [List.getElem?_cons_zero, Option.some.injEq] at hj
      subst hj
      simp only [outs, List.getElem?_cons_zero]
      rw [step_above_max d o (by omega)]
    | succ j =>
      simp only [List.getElem?_cons_succ] at hj
      simp only [outs, List.getElem?_cons_succ]
      exact ih _ j op (by rw [step_maxSeq]; exact hd) hj hab

theorem outs_check (d : Det) (s : Nat) (ops : List Replay.Op) :
    outs (Replay.step d (.check s)).1 ops = outs d ops := by
  rw [step_check_fst]

/-! ### the generic run induction -/

/-- what a refinement invariant `R` has to deliver for one `Check` -/
def CheckGood (c : Cfg) (R : Det → Hist → Prop) (d : Det) (h : Hist) (x : Nat) : Prop :=
  (check d x = .refused ∧ expectedOk c h x ≠ some true) ∨
  (∃ d' l, check d x = .ok d' l ∧ R d' (h.record c x l) ∧ mustRefuse c h x = false ∧
     expectedOk c h x ≠ some false ∧ expectedLatest c h x ≠ some (!l))

theorem step_good (c : Cfg) (R : Det → Hist → Prop) (d : Det) (h : Hist) (op : Replay.Op)
    (hR : R d h) (hg : CheckGood c R d h (Op.num op)) :
    allowed04 c h (Op.num op) (specOut (Replay.step d op).2) = true ∧
    allowed05 c h (Op.num op) (Op.acc op) (specOut (Replay.step d op).2) = true ∧
    R (Replay.step d op).1 (h.step c (Op.num op) (specOut (Replay.step d op).2)) := by
  rcases hg with ⟨hc, he⟩ | ⟨d', l, hc, hR', hm, he, hl⟩
  · cases op <;> simp only [Op.num] at hc he ⊢ <;>
      simp only [Replay.step, hc, specOut, Hist.step, allowed04, allowed05, Op.acc]
    all_goals
      refine ⟨trivial, ?_, hR⟩
      rcases hx : expectedOk c h _ with _ | b
      · rfl
      · cases b
        · rfl
        · exact absurd hx he
  · cases op <;> simp only [Op.num] at hc he hl hm hR' ⊢ <;>
      simp only [Replay.step, hc, specOut, Hist.step, allowed04, allowed05, Op.acc, hm]
    · refine ⟨by simp, ?_, hR⟩
      rcases hx : expectedOk c h _ with _ | b
      · rfl
      · cases b
        · exact absurd hx he
        · rfl
    · refine ⟨by simp, ?_, hR'⟩
      rcases hx : expectedOk c h _ with _ | b
      · rfl
      · cases b
        · exact absurd hx he
        · simp only [Bool.true_and]
          rcases hy : expectedLatest c h _ with _ | e
          · rfl
          · simp only [beq_iff_eq]
            rw [hy] at hl
            cases e <;> cases l <;> simp_all

theorem run_good (c : Cfg) (R : Det → Hist → Prop)
    (hstep : ∀ d h x, R d h → CheckGood c R d h x) :
    ∀ (ops : List Replay.Op) (d : Det) (h : Hist), R d h → ∀ o ∈ run c d h ops,
      allowed04 c o.before (Op.num o.op) (specOut o.out) = true ∧
      allowed05 c o.before (Op.num o.op) (Op.acc o.op) (specOut o.out) = true := by
  intro ops
  induction ops with
  | nil => intro d h _ o ho; simp [run] at ho
  | cons op ops ih =>
    intro d h hR o ho
    have hs := step_good c R d h op hR (hstep d h _ hR)
    simp only [run, List.mem_cons] at ho
    rcases ho with rfl | ho
    · exact ⟨hs.1, hs.2.1⟩
    · exact ih _ _ hs.2.2 o ho

end TV.Proofs.Replay
