import TransportVerif.Proofs.ListenerLifeBase
/-
C12 proofs, part 2: the invariant and the generic way to re-establish it after a step.
-/
namespace TV.Proofs.ListenerLife
open TV TV.ListenerLife TV.LifeLink

/-- per-thread part of the invariant.  A connection handed out during the phase is still in the table
    unless an `acloser` has started to close it; an `acloser` past its first step has a connection to
    close (the Accept it follows has returned one, and that never changes: `Stable`). -/
def ThOk (a : Nat) (s : Sys) (th : Th) : Prop :=
  (th.pc = .parkedWait → s.sockClosed = false) ∧
  (th.pc = .atWait ∨ th.pc = .parkedWait → s.table = [] ∧ s.accepting = false ∧ s.arrPending = false) ∧
  (th.role = .lcloser → (th.pc = .start ∨ th.pc = .atLock ∨ th.pc = .atWait ∨ th.pc = .parkedWait ∨ th.pc = .done .ok)) ∧
  (th.role = .lcloser → th.pc ≠ .start → s.accepting = false) ∧
  (∀ c, th.pc = .done (.conn c) → a ≤ c ∧ c < s.nextConn ∧ (c ∈ s.table ∨ tgtd s.ths c = true) ∧ c ∉ s.acceptQ) ∧
  (∀ i, th.role = .acloser i → th.pc ≠ .start → ∃ c, accL s.ths i = some c)

/-- `count`: the closers of connections accepted during the phase are counted thread-locally
    (`astarted`); `count_taken` (they close pairwise different handed-out connections) turns this into
    the statement about `openHeld`. -/
structure Inv (a : Nat) (s : Sys) : Prop where
  wf : WfRoles a (s.ths.map (·.role))
  count : s.wg + astarted s.ths = (if relL s.ths then 0 else 1) + s.acceptQ.length + openCnt a s.ths + (taken s.ths).length
  sock : s.sockClosed = true ↔ s.wg = 0
  rwg : s.sockClosed = true → s.readWG = 0
  qok : ∀ c ∈ s.acceptQ, a ≤ c ∧ c < s.nextConn ∧ c ∈ s.table
  qnd : s.acceptQ.Nodup
  nge : a ≤ s.nextConn
  acc : s.accepting = false → lstarted s.ths = true
  tbl : ∀ c, c < a → c ∉ s.table → started s.ths c = true
  /-- once the listener's reference is dropped no arrival is in flight and nothing is queued -/
  rel : relL s.ths = true → s.arrPending = false ∧ s.acceptQ = []
  thr : ∀ th ∈ s.ths, ThOk a s th
  /-- the connections handed out by the Accepts of the phase are pairwise different -/
  tnd : (taken s.ths).Nodup

/-- what the threads that do not move need from the change of the shared fields -/
def Frame (a : Nat) (bw : Bool) (s s' : Sys) : Prop :=
  (bw = false → s'.sockClosed = true → s.sockClosed = true) ∧
  (s.table = [] → s.accepting = false → s.arrPending = false → s'.table = []) ∧
  (s.accepting = false → s'.accepting = false) ∧
  (∀ c, a ≤ c → c < s.nextConn → c ∉ s.acceptQ →
    c < s'.nextConn ∧ (c ∈ s.table → c ∈ s'.table ∨ tgtd s'.ths c = true) ∧ c ∉ s'.acceptQ) ∧
  (s.accepting = false → s.arrPending = false → s'.arrPending = false)

theorem thOk_frame {a : Nat} {s s' : Sys} {bs bw : Bool} {x : Th} (h : ThOk a s x) (hf : Frame a bw s s')
    (hst : Stable s.ths s'.ths) : ThOk a s' (wk bs bw x) := by
  unfold ThOk at h ⊢
  obtain ⟨h1, h2, h3, h4, h5, h6⟩ := h
  obtain ⟨f1, f2, f3, f4, f5⟩ := hf
  cases x with | mk r p =>
  simp only [wk_pc, wk_role] at *
  refine ⟨?_, ?_, ?_, ?_, ?_, ?_⟩
  · intro hp
    rw [wkPc_parkedWait] at hp
    cases hsc : s'.sockClosed with
    | false => rfl
    | true => have := f1 hp.2 hsc; have := h1 hp.1; simp_all
  · intro hp
    rw [wkPc_atWait, wkPc_parkedWait] at hp
    have : p = .atWait ∨ p = .parkedWait := by
      rcases hp with hp | hp
      · exact Or.inl hp
      · exact Or.inr hp.1
    have := h2 this
    exact ⟨f2 this.1 this.2.1 this.2.2, f3 this.2.1, f5 this.2.1 this.2.2⟩
  · intro hr
    have := h3 hr
    rcases this with rfl | rfl | rfl | rfl | rfl <;> cases bs <;> cases bw <;> simp [wkPc]
  · intro hr hp
    rw [Ne, wkPc_start] at hp
    exact f3 (h4 hr hp)
  · intro c hp
    rw [wkPc_conn] at hp
    obtain ⟨g1, g2, g3, g4⟩ := h5 c hp
    obtain ⟨k1, k2, k3⟩ := f4 c g1 g2 g4
    refine ⟨g1, k1, ?_, k3⟩
    rcases g3 with g3 | g3
    · exact k2 g3
    · exact Or.inr (hst.2 c g3)
  · intro i hr hp
    rw [Ne, wkPc_start] at hp
    obtain ⟨c, hc⟩ := h6 i hr hp
    exact ⟨c, hst.1 i c hc⟩

theorem wf_unique_c {a : Nat} {l1 l2 : List Th} {th : Th} {c : Nat}
    (hw : WfRoles a ((l1 ++ th :: l2).map (·.role))) (hr : th.role = .ccloser c) :
    c < a ∧ started l1 c = false ∧ started l2 c = false := by
  obtain ⟨w1, _, w3, _⟩ := hw
  refine ⟨w1 c (by simp [← hr]), ?_, ?_⟩
  all_goals
    apply started_false_of_norole
    intro x hx hxr
    have := w3 c
    simp only [List.map_append, List.map_cons, List.filter_append, List.filter_cons, hr, decide_true, if_true,
      List.length_append, List.length_cons] at this
  · have hm : Role.ccloser c ∈ (l1.map (·.role)).filter (· = .ccloser c) :=
      List.mem_filter.2 ⟨List.mem_map.2 ⟨x, hx, hxr⟩, by simp⟩
    have := List.length_pos_of_mem hm
    omega
  · have hm : Role.ccloser c ∈ (l2.map (·.role)).filter (· = .ccloser c) :=
      List.mem_filter.2 ⟨List.mem_map.2 ⟨x, hx, hxr⟩, by simp⟩
    have := List.length_pos_of_mem hm
    omega

theorem wf_unique_l {a : Nat} {l1 l2 : List Th} {th : Th}
    (hw : WfRoles a ((l1 ++ th :: l2).map (·.role))) (hr : th.role = .lcloser) :
    (∀ x ∈ l1, x.role ≠ .lcloser) ∧ (∀ x ∈ l2, x.role ≠ .lcloser) := by
  obtain ⟨_, w2, _⟩ := hw
  simp only [List.map_append, List.map_cons, List.filter_append, List.filter_cons, hr, decide_true, if_true,
      List.length_append, List.length_cons] at w2
  constructor
  · intro x hx hxr
    have hm : Role.lcloser ∈ (l1.map (·.role)).filter (· = .lcloser) :=
      List.mem_filter.2 ⟨List.mem_map.2 ⟨x, hx, hxr⟩, by simp⟩
    have := List.length_pos_of_mem hm
    omega
  · intro x hx hxr
    have hm : Role.lcloser ∈ (l2.map (·.role)).filter (· = .lcloser) :=
      List.mem_filter.2 ⟨List.mem_map.2 ⟨x, hx, hxr⟩, by simp⟩
    have := List.length_pos_of_mem hm
    omega

theorem wf_unique_a {a : Nat} {l1 l2 : List Th} {th : Th} {i : Nat}
    (hw : WfRoles a ((l1 ++ th :: l2).map (·.role))) (hr : th.role = .acloser i) :
    (∀ x ∈ l1, x.role ≠ .acloser i) ∧ (∀ x ∈ l2, x.role ≠ .acloser i) := by
  have w5 := hw.2.2.2.2 i
  simp only [List.map_append, List.map_cons, List.filter_append, List.filter_cons, hr, decide_true, if_true,
      List.length_append, List.length_cons] at w5
  constructor
  · intro x hx hxr
    have hm : Role.acloser i ∈ (l1.map (·.role)).filter (· = .acloser i) :=
      List.mem_filter.2 ⟨List.mem_map.2 ⟨x, hx, hxr⟩, by simp⟩
    have := List.length_pos_of_mem hm
    omega
  · intro x hx hxr
    have hm : Role.acloser i ∈ (l2.map (·.role)).filter (· = .acloser i) :=
      List.mem_filter.2 ⟨List.mem_map.2 ⟨x, hx, hxr⟩, by simp⟩
    have := List.length_pos_of_mem hm
    omega

/-- closers exist only for the connections accepted before the phase -/
theorem started_lt {a : Nat} {l : List Th} {c : Nat} (hw : WfRoles a (l.map (·.role))) (h : started l c = true) : c < a := by
  obtain ⟨th, hm, hr, _⟩ := (started_true_iff l c).1 h
  apply hw.1
  rw [← hr]
  exact List.mem_map_of_mem hm

/-- the generic step: thread `th` (between `l1` and `l2`) becomes `th'`, the others are possibly woken -/
theorem inv_mk {a : Nat} {s s' : Sys} {l1 l2 : List Th} {th th' : Th} {bs bw : Bool}
    (h : Inv a s) (hs : s.ths = l1 ++ th :: l2)
    (hths : s'.ths = l1.map (wk bs bw) ++ th' :: l2.map (wk bs bw))
    (hrole : th'.role = th.role) (hacc : ∀ c, accOf th = some c → accOf th' = some c)
    (hns : th.pc ≠ .start → th'.pc ≠ .start) (hfr : Frame a bw s s') (hth' : ThOk a s' th')
    (count : s'.wg + astarted s'.ths = (if relL s'.ths then 0 else 1) + s'.acceptQ.length + openCnt a s'.ths + (taken s'.ths).length)
    (sock : s'.sockClosed = true ↔ s'.wg = 0)
    (rwg : s'.sockClosed = true → s'.readWG = 0)
    (qok : ∀ c ∈ s'.acceptQ, a ≤ c ∧ c < s'.nextConn ∧ c ∈ s'.table)
    (qnd : s'.acceptQ.Nodup)
    (nge : a ≤ s'.nextConn)
    (acc : s'.accepting = false → lstarted s'.ths = true)
    (tbl : ∀ c, c < a → c ∉ s'.table → started s'.ths c = true)
    (rel : relL s'.ths = true → s'.arrPending = false ∧ s'.acceptQ = [])
    (tnd : (taken s'.ths).Nodup) : Inv a s' := by
  have hst : Stable s.ths s'.ths := by
    rw [hs, hths]; exact stable_mk hrole hacc hns
  refine ⟨?_, count, sock, rwg, qok, qnd, nge, acc, tbl, rel, ?_, tnd⟩
  · have := h.wf
    rw [hs] at this
    rw [hths, List.map_append, List.map_cons, roles_map_wk, roles_map_wk, hrole]
    simpa using this
  · have := h.thr
    rw [hs] at this
    rw [hths]
    intro x hx
    simp only [List.mem_append, List.mem_cons, List.mem_map] at hx
    rcases hx with ⟨y, hy, rfl⟩ | rfl | ⟨y, hy, rfl⟩
    · exact thOk_frame (this y (by simp [hy])) hfr hst
    · exact hth'
    · exact thOk_frame (this y (by simp [hy])) hfr hst

/-- the same with nobody woken -/
theorem inv_mk0 {a : Nat} {s s' : Sys} {l1 l2 : List Th} {th th' : Th}
    (h : Inv a s) (hs : s.ths = l1 ++ th :: l2)
    (hths : s'.ths = l1 ++ th' :: l2)
    (hrole : th'.role = th.role) (hacc : ∀ c, accOf th = some c → accOf th' = some c)
    (hns : th.pc ≠ .start → th'.pc ≠ .start) (hfr : Frame a false s s') (hth' : ThOk a s' th')
    (count : s'.wg + astarted s'.ths = (if relL s'.ths then 0 else 1) + s'.acceptQ.length + openCnt a s'.ths + (taken s'.ths).length)
    (sock : s'.sockClosed = true ↔ s'.wg = 0)
    (rwg : s'.sockClosed = true → s'.readWG = 0)
    (qok : ∀ c ∈ s'.acceptQ, a ≤ c ∧ c < s'.nextConn ∧ c ∈ s'.table)
    (qnd : s'.acceptQ.Nodup)
    (nge : a ≤ s'.nextConn)
    (acc : s'.accepting = false → lstarted s'.ths = true)
    (tbl : ∀ c, c < a → c ∉ s'.table → started s'.ths c = true)
    (rel : relL s'.ths = true → s'.arrPending = false ∧ s'.acceptQ = [])
    (tnd : (taken s'.ths).Nodup) : Inv a s' :=
  inv_mk (bs := false) (bw := false) h hs (by rw [map_wk_ff, map_wk_ff]; exact hths) hrole hacc hns hfr hth' count sock rwg qok qnd nge acc tbl rel tnd

theorem frame_refl (a : Nat) (bw : Bool) (s : Sys) : Frame a bw s s :=
  ⟨fun _ h => h, fun h _ _ => h, id, fun _ _ h2 h4 => ⟨h2, Or.inl, h4⟩, fun _ h => h⟩

/-- only the thread list changes -/
theorem frame_ths (a : Nat) (bw : Bool) (s : Sys) (ths' : List Th) : Frame a bw s { s with ths := ths' } :=
  ⟨fun _ h => h, fun h _ _ => h, id, fun _ _ h2 h4 => ⟨h2, Or.inl, h4⟩, fun _ h => h⟩

/-- a change of the shared fields only -/
theorem thr_frame {a : Nat} {s s' : Sys} (h : ∀ th ∈ s.ths, ThOk a s th) (hf : Frame a false s s') (hths : s'.ths = s.ths) :
    ∀ th ∈ s'.ths, ThOk a s' th := by
  intro th hm
  rw [hths] at hm
  have := thOk_frame (bs := false) (bw := false) (h th hm) hf (by rw [hths]; exact stable_refl _)
  rwa [wk_ff] at this

theorem Inv.n2 {a : Nat} {s : Sys} (h : Inv a s) :
    ∀ th ∈ s.ths, ∀ i, th.role = .acloser i → th.pc ≠ .start → ∃ c, accL s.ths i = some c :=
  fun th hm => (h.thr th hm).2.2.2.2.2

theorem Inv.wf5 {a : Nat} {s : Sys} (h : Inv a s) : ∀ i, ((s.ths.map (·.role)).filter (· = .acloser i)).length ≤ 1 :=
  h.wf.2.2.2.2

/-- every started `acloser` closes its own handed-out connection -/
theorem astarted_le {a : Nat} {s : Sys} (h : Inv a s) : astarted s.ths ≤ (taken s.ths).length := by
  have := count_taken h.wf5 h.tnd h.n2
  omega

/-- an `acloser` that can start: one more handed-out connection than started `acloser`s -/
theorem astarted_lt {a : Nat} {s : Sys} {l1 l2 : List Th} {i c0 : Nat} (h : Inv a s)
    (hs : s.ths = l1 ++ ⟨.acloser i, .start⟩ :: l2) (hacc : accL s.ths i = some c0) :
    astarted s.ths + 1 ≤ (taken s.ths).length := by
  have hw := h.wf5; have htnd := h.tnd; have hn2 := h.n2
  rw [hs] at hw htnd hn2 hacc ⊢
  have hL : ∀ j, accL (l1 ++ ⟨.acloser i, .atLock⟩ :: l2) j = accL (l1 ++ ⟨.acloser i, .start⟩ :: l2) j :=
    fun j => accL_congr (by simp [accOf]) j
  have := count_taken (ths := l1 ++ ⟨.acloser i, .atLock⟩ :: l2) (by simpa using hw)
    (by simpa [taken_append, taken_cons, takenOf] using htnd)
    (by
      intro th hm j hr hp
      rw [hL]
      simp only [List.mem_append, List.mem_cons] at hm
      rcases hm with hm | rfl | hm
      · exact hn2 th (by simp [hm]) j hr hp
      · simp only [Role.acloser.injEq] at hr
        subst hr
        exact ⟨c0, hacc⟩
      · exact hn2 th (by simp [hm]) j hr hp)
  simp [astarted_append, astarted_cons, taken_append, taken_cons, takenOf, isAcl] at this ⊢
  omega

/-- while an arrival is in flight the listener still holds its reference, so the socket is open -/
theorem relL_of_pend {a : Nat} {s : Sys} (h : Inv a s) (hp : s.arrPending = true) : relL s.ths = false := by
  cases hr : relL s.ths with
  | false => rfl
  | true =>
    have := (h.rel hr).1
    rw [hp] at this; cases this

theorem wg_pos_of_pend {a : Nat} {s : Sys} (h : Inv a s) (hp : s.arrPending = true) : 1 ≤ s.wg := by
  have := h.count
  rw [relL_of_pend h hp] at this
  simp at this
  have := astarted_le h
  omega

theorem sock_of_pend {a : Nat} {s : Sys} (h : Inv a s) (hp : s.arrPending = true) : s.sockClosed = false := by
  cases hsc : s.sockClosed with
  | false => rfl
  | true =>
    have := h.sock.1 hsc
    have := wg_pos_of_pend h hp
    omega

/-- the listener closer past its first step means `accepting` is cleared -/
theorem acc_of_relL {a : Nat} {s : Sys} (h : Inv a s) (hr : relL s.ths = true) : s.accepting = false := by
  simp only [relL, List.any_eq_true, decide_eq_true_eq] at hr
  obtain ⟨th, hm, hrole, hpc⟩ := hr
  apply (h.thr th hm).2.2.2.1 hrole
  rcases hpc with e | e | e <;> simp [e]

end TV.Proofs.ListenerLife
