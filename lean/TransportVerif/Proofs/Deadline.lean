import TransportVerif.Link.Deadline
/-
Proofs for C09: an invariant relating the Deadline model to the spec's environment recorder,
its preservation by every step (as long as fewer than 255 callbacks are outstanding), and the
fact that it implies C09's judgement of the step.
-/
namespace TV.Proofs.Deadline
open TV TV.Deadline TV.DeadlineLink

/-- model state `d` and environment recorder `h` agree, and the counter is exact -/
structure Inv (d : D) (h : DeadlineSpec.Hist) : Prop where
  now : h.now = d.now
  lastSet : h.lastSet = d.deadline
  outst : h.outstanding = d.outstanding
  noPanic : d.panicked = false
  expiry : h.pendingExpiry = if d.armed then some d.due else none
  bound : d.outstanding < 255
  count : d.pending = d.outstanding + (if d.armed then 1 else 0)
  armedSt : d.armed = true → d.state = .started ∧ d.deadline = some d.due
  exceeded : d.state = .exceeded ↔ d.doneClosed = true
  closedPassed : d.doneClosed = true → ∃ t, d.deadline = some t ∧ t ≤ d.now
  stopped : d.state = .stopped → d.deadline = none
  fired : d.state = .started → d.armed = false → 0 < d.outstanding ∧ ∃ t, d.deadline = some t ∧ t ≤ d.now

theorem inv_new : Inv D.new DeadlineSpec.Hist.empty := by
  constructor <;> simp [D.new, DeadlineSpec.Hist.empty]

/-! ### preservation -/

theorem inv_advance {d h} (I : Inv d h) (dt : Nat) :
    Inv (d.advance dt) (h.step (.advance dt)) := by
  obtain ⟨h1, h2, h3, h4, h5, h6, h7, h8, h9, h10, h11, h12⟩ := I
  constructor <;> simp only [D.advance, DeadlineSpec.Hist.step] <;> try assumption
  · omega
  · intro hc; obtain ⟨t, ht, hle⟩ := h10 hc; exact ⟨t, ht, by omega⟩
  · intro hs ha; obtain ⟨ho, t, ht, hle⟩ := h12 hs ha; exact ⟨ho, t, ht, by omega⟩

theorem inv_fire {d h} (I : Inv d h) (hb : (d.fire).outstanding < 255) :
    Inv d.fire (h.step .fire) := by
  obtain ⟨h1, h2, h3, h4, h5, h6, h7, h8, h9, h10, h11, h12⟩ := I
  unfold D.fire at hb ⊢
  by_cases hc : d.armed = true ∧ d.due ≤ d.now
  · rw [if_pos hc] at hb ⊢
    obtain ⟨ha, hd⟩ := hc
    obtain ⟨hx, hy⟩ := h8 ha
    have hd' : d.due ≤ h.now := by omega
    simp only [ha, if_true] at h5 h7
    constructor <;> simp only [DeadlineSpec.Hist.step, h5, hd', if_true] <;> try assumption
    all_goals simp_all
  · rw [if_neg hc]
    have : h.step .fire = h := by
      simp only [DeadlineSpec.Hist.step, h5]
      by_cases ha : d.armed = true
      · have : ¬ d.due ≤ h.now := by rw [h1]; intro hh; exact hc ⟨ha, hh⟩
        simp [ha, this]
      · simp [ha]
    rw [this]
    constructor <;> assumption

theorem dec8_eq {x : Nat} (h0 : 0 < x) (h1 : x < 256) : dec8 x = x - 1 := by unfold dec8; omega
theorem inc8_eq {x : Nat} (h1 : x < 255) : inc8 x = x + 1 := by unfold inc8; omega

theorem inv_callback {d h} (I : Inv d h) :
    Inv d.callback (h.step .callback) := by
  obtain ⟨h1, h2, h3, h4, h5, h6, h7, h8, h9, h10, h11, h12⟩ := I
  unfold D.callback
  by_cases ho : d.outstanding = 0
  · rw [if_pos ho]
    have : h.step .callback = h := by simp [DeadlineSpec.Hist.step, h3, ho]
    rw [this]; constructor <;> assumption
  · rw [if_neg ho]
    have hp : dec8 d.pending = d.pending - 1 := by apply dec8_eq <;> (split at h7 <;> omega)
    have hh : h.step .callback = { h with outstanding := h.outstanding - 1 } := by
      simp [DeadlineSpec.Hist.step, h3, ho]
    rw [hh, hp]
    obtain ⟨st, pend, gen, dc, dl, ar, du, out, nw, pan⟩ := d
    obtain ⟨ls, hn, pe, hout⟩ := h
    simp only at *
    subst h1 h2 h3 h4
    cases ar <;> cases st <;> simp_all [D.closeDone]
    all_goals (try split)
    all_goals (constructor <;> simp_all <;> omega)

theorem dec8_succ {x : Nat} (h1 : x < 255) : dec8 (x + 1) = x := by unfold dec8; omega

theorem inv_set {d h} (I : Inv d h) (t : Option Int) :
    Inv (d.set t) (h.step (.set t)) := by
  obtain ⟨h1, h2, h3, h4, h5, h6, h7, h8, h9, h10, h11, h12⟩ := I
  obtain ⟨st, pend, gen, dc, dl, ar, du, out, nw, pan⟩ := d
  obtain ⟨ls, hn, pe, hout⟩ := h
  simp only at *
  subst h1 h2 h3 h4
  have e1 := dec8_succ h6
  have e2 := inc8_eq h6
  cases t with
  | none =>
    cases ar <;> cases st <;> simp_all [D.set, DeadlineSpec.Hist.step]
    all_goals (constructor <;> simp_all)
  | some t =>
    by_cases ht : t > hn
    · cases ar <;> cases st <;> simp_all [D.set, DeadlineSpec.Hist.step]
      all_goals (constructor <;> (try simp_all) <;> (try omega))
    · have hle : t ≤ hn := by omega
      clear ht
      cases ar <;> cases st <;> simp_all [D.set, DeadlineSpec.Hist.step, D.closeDone, if_neg (Int.not_lt.mpr hle)]
      all_goals (constructor <;> (try simp_all) <;> (try omega))

/-! ### the invariant implies the judgement -/

theorem inv_allowed {d h} (I : Inv d h) : DeadlineSpec.allowed h (specObs d.obs) = true := by
  obtain ⟨h1, h2, h3, h4, h5, h6, h7, h8, h9, h10, h11, h12⟩ := I
  obtain ⟨st, pend, gen, dc, dl, ar, du, out, nw, pan⟩ := d
  obtain ⟨ls, hn, pe, hout⟩ := h
  simp only at *
  subst h1 h2 h3 h4
  cases ar <;> cases st <;> cases dc <;>
    simp_all [DeadlineSpec.allowed, specObs, D.obs, DeadlineSpec.Hist.passed, DeadlineSpec.Hist.settled]
  · obtain ⟨ho, t, rfl, ht⟩ := h12; omega
  · obtain ⟨t, rfl, ht⟩ := h10; simp [ht]
  · omega

theorem set_fresh (d : D) (t : Option Int) (hx : d.state = .exceeded ↔ d.doneClosed = true) :
    DeadlineSpec.freshAfterSet (specObs d.obs) (specObs (d.set t).obs) = true := by
  obtain ⟨st, pend, gen, dc, dl, ar, du, out, nw, pan⟩ := d
  simp only at hx
  cases t with
  | none => cases st <;> cases dc <;> simp_all [DeadlineSpec.freshAfterSet, specObs, D.obs, D.set]
  | some t =>
    cases st <;> cases dc <;> simp_all [DeadlineSpec.freshAfterSet, specObs, D.obs, D.set, D.closeDone]
    split <;> simp

/-! ### one step -/

theorem inv_step {d h} (I : Inv d h) (op : Op) (hb : (step d op).outstanding < 255) :
    Inv (step d op) (h.step (ev op)) := by
  cases op with
  | set t => exact inv_set I t
  | fire => exact inv_fire I hb
  | callback => exact inv_callback I
  | advance dt => exact inv_advance I dt

theorem step_ok {d h} (I : Inv d h) (op : Op) (hb : (step d op).outstanding < 255) :
    Step.ok { op := op, before := d.obs, after := (step d op).obs, hist := h.step (ev op),
              panicked := (step d op).panicked, outstanding := (step d op).outstanding } = true := by
  have I' := inv_step I op hb
  have ha := inv_allowed I'
  have hp := I'.noPanic
  unfold Step.ok
  simp only [hp, ha, Bool.not_false, Bool.true_and, Bool.or_eq_true, Bool.not_eq_true']
  cases op with
  | set t => right; exact set_fresh d t I.exceeded
  | fire => left; rfl
  | callback => left; rfl
  | advance dt => left; rfl

theorem trace_ok (ops : List Op) : ∀ (d : D) (h : DeadlineSpec.Hist), Inv d h →
    (∀ s ∈ trace d h ops, s.outstanding < 255) → ∀ s ∈ trace d h ops, s.ok = true := by
  induction ops with
  | nil => intro d h _ _ s hs; simp [trace] at hs
  | cons op ops ih =>
    intro d h I hK s hs
    simp only [trace, List.mem_cons] at hs hK
    have hb : (step d op).outstanding < 255 := hK _ (Or.inl rfl)
    rcases hs with rfl | hs
    · exact step_ok I op hb
    · exact ih _ _ (inv_step I op hb) (fun s' hs' => hK s' (Or.inr hs')) s hs

/-! ### `Deadline()` -/

theorem run_append (d : D) (xs ys : List Op) : run d (xs ++ ys) = run (run d xs) ys := by
  induction xs generalizing d with
  | nil => rfl
  | cons x xs ih => simp [run, ih]

theorem set_deadline (d : D) (t : Option Int) : (d.set t).obs.deadline = t := by
  obtain ⟨st, pend, gen, dc, dl, ar, du, out, nw, pan⟩ := d
  cases t with
  | none => cases st <;> cases ar <;> simp [D.set, D.obs]
  | some t =>
    by_cases ht : t > nw
    · cases st <;> cases ar <;> simp [D.set, D.obs, ht]
    · cases st <;> cases ar <;> cases dc <;> simp [D.set, D.obs, ht, D.closeDone]

/-! ### the excluded point: 256 outstanding callbacks -/

/-- `k` rounds of "Set to the next instant, let it pass, the runtime dispatches the expiry",
    starting at time `i`; no callback runs, so every round leaves one more callback outstanding -/
def rounds : Nat → Nat → List Op
  | _, 0 => []
  | i, k + 1 => .set (some ((i : Int) + 1)) :: .advance 1 :: .fire :: rounds (i + 1) k

/-- 256 rounds (the uint8 `pending` wraps to 0 while 256 callbacks are outstanding), a Set far in
    the future (`pending` = 1), then one stale callback runs: `pending` drops to 0 and Done is closed
    although the deadline (1000) has not passed (now = 256).  770 operations. -/
def wrapOps : List Op := rounds 0 256 ++ [.set (some 1000), .callback]

set_option maxRecDepth 20000 in
theorem wrap_bad : ∃ s ∈ trace D.new DeadlineSpec.Hist.empty wrapOps, s.ok = false := by
  decide

end TV.Proofs.Deadline

