import TransportVerif.Model.HB
namespace TV.Proofs.HB
open TV TV.HB

/-- the holder after one more event -/
theorem holder_snoc (m : Lock) (pre : List Ev) (e : Ev) :
    holder m (pre ++ [e]) = holdStep m (holder m pre) e := by
  simp [holder, List.foldl_append]

theorem holder_take_succ (m : Lock) (tr : List Ev) (k : Nat) (e : Ev) (h : tr[k]? = some e) :
    holder m (tr.take (k + 1)) = holdStep m (holder m (tr.take k)) e := by
  rw [List.take_add_one, h]
  exact holder_snoc m _ e

/-- usable form of well-formedness, relative to a prefix -/
theorem wfLocks_at (tr : List Ev) : ∀ (pre : List Ev), WfLocks pre tr → ∀ (k : Nat) (e : Ev), tr[k]? = some e →
    (∀ t m, e = .acq t m → holder m (pre ++ tr.take k) = none) ∧
    (∀ t m, e = .rel t m → holder m (pre ++ tr.take k) = some t) := by
  induction tr with
  | nil => intro pre _ k e h; simp at h
  | cons e0 rest ih =>
    intro pre hwf k e hk
    have hrest : WfLocks (pre ++ [e0]) rest := by
      cases e0 <;> simp only [WfLocks] at hwf <;> first | exact hwf.2 | exact hwf
    cases k with
    | zero =>
      simp at hk
      subst hk
      constructor
      · intro t m he
        subst he
        simp only [WfLocks] at hwf
        simpa using hwf.1
      · intro t m he
        subst he
        simp only [WfLocks] at hwf
        simpa using hwf.1
    | succ k =>
      have hk' : rest[k]? = some e := by simpa using hk
      have := ih (pre ++ [e0]) hrest k e hk'
      simpa [List.append_assoc] using this

theorem wf_acq (tr : List Ev) (hwf : Wf tr) (k : Nat) (t : Tid) (m : Lock) (h : tr[k]? = some (.acq t m)) :
    holder m (tr.take k) = none := by
  have := (wfLocks_at tr [] hwf k _ h).1 t m rfl
  simpa using this

theorem wf_rel (tr : List Ev) (hwf : Wf tr) (k : Nat) (t : Tid) (m : Lock) (h : tr[k]? = some (.rel t m)) :
    holder m (tr.take k) = some t := by
  have := (wfLocks_at tr [] hwf k _ h).2 t m rfl
  simpa using this

/-- if `t` holds `m` after `i` events and no longer after `j ≥ i` events, `t` released it in between -/
theorem released (tr : List Ev) (hwf : Wf tr) (m : Lock) (i : Nat) (t : Tid)
    (hi : holder m (tr.take i) = some t) :
    ∀ j, i ≤ j → j ≤ tr.length → holder m (tr.take j) ≠ some t →
      ∃ r, i ≤ r ∧ r < j ∧ tr[r]? = some (.rel t m) := by
  intro j
  induction j with
  | zero =>
    intro hij _ hj
    have : i = 0 := by omega
    subst this
    exact absurd hi hj
  | succ j ih =>
    intro hij hlen hj
    by_cases heq : i = j + 1
    · subst heq; exact absurd hi hj
    · have hij' : i ≤ j := by omega
      have hlt : j < tr.length := by omega
      by_cases hprev : holder m (tr.take j) = some t
      · -- the event at `j` changed the holder
        have hget : tr[j]? = some tr[j] := List.getElem?_eq_getElem hlt
        rw [holder_take_succ m tr j _ hget, hprev] at hj
        cases he : tr[j] with
        | acq t'' m' =>
          rw [he] at hj hget
          by_cases hm : m' = m
          · subst hm
            have := wf_acq tr hwf j t'' m' hget
            rw [hprev] at this
            cases this
          · simp [holdStep, hm] at hj
        | rel t'' m' =>
          rw [he] at hj hget
          by_cases hm : m' = m
          · subst hm
            have := wf_rel tr hwf j t'' m' hget
            rw [hprev] at this
            cases this
            exact ⟨j, hij', by omega, hget⟩
          · simp [holdStep, hm] at hj
        | rd _ _ => rw [he] at hj; simp [holdStep] at hj
        | wr _ _ => rw [he] at hj; simp [holdStep] at hj
        | fork _ _ => rw [he] at hj; simp [holdStep] at hj
      · obtain ⟨r, h1, h2, h3⟩ := ih hij' (by omega) hprev
        exact ⟨r, h1, by omega, h3⟩

theorem handover_aux (tr : List Ev) (hwf : Wf tr) (m : Lock) (i : Nat) (t : Tid)
    (hi : holder m (tr.take i) = some t) :
    ∀ j t', i ≤ j → j ≤ tr.length → holder m (tr.take j) = some t' → t ≠ t' →
      ∃ r a, i ≤ r ∧ r < a ∧ a < j ∧ tr[r]? = some (.rel t m) ∧ tr[a]? = some (.acq t' m) := by
  intro j
  induction j with
  | zero =>
    intro t' hij _ hj hne
    have : i = 0 := by omega
    subst this
    rw [hi] at hj
    cases hj
    exact absurd rfl hne
  | succ j ih =>
    intro t' hij hlen hj hne
    by_cases heq : i = j + 1
    · subst heq
      rw [hi] at hj
      cases hj
      exact absurd rfl hne
    · have hij' : i ≤ j := by omega
      have hlt : j < tr.length := by omega
      have hget : tr[j]? = some tr[j] := List.getElem?_eq_getElem hlt
      rw [holder_take_succ m tr j _ hget] at hj
      have keep : holder m (tr.take j) = some t' →
          ∃ r a, i ≤ r ∧ r < a ∧ a < j + 1 ∧ tr[r]? = some (.rel t m) ∧ tr[a]? = some (.acq t' m) := by
        intro h
        obtain ⟨r, a, h1, h2, h3, h4, h5⟩ := ih t' hij' (by omega) h hne
        exact ⟨r, a, h1, h2, by omega, h4, h5⟩
      cases he : tr[j] with
      | acq t'' m' =>
        rw [he] at hj hget
        by_cases hm : m' = m
        · subst hm
          simp [holdStep] at hj
          subst hj
          have hnone := wf_acq tr hwf j t'' m' hget
          have hne' : holder m' (tr.take j) ≠ some t := by rw [hnone]; simp
          obtain ⟨r, h1, h2, h3⟩ := released tr hwf m' i t hi j hij' (by omega) hne'
          exact ⟨r, j, h1, h2, by omega, h3, hget⟩
        · simp [holdStep, hm] at hj
          exact keep hj
      | rel t'' m' =>
        rw [he] at hj
        by_cases hm : m' = m
        · simp [holdStep, hm] at hj
        · simp [holdStep, hm] at hj
          exact keep hj
      | rd _ _ => rw [he] at hj; exact keep (by simpa [holdStep] using hj)
      | wr _ _ => rw [he] at hj; exact keep (by simpa [holdStep] using hj)
      | fork _ _ => rw [he] at hj; exact keep (by simpa [holdStep] using hj)

/-- program-order edge -/
theorem hb_same_tid (tr : List Ev) (i j : Nat) (ei ej : Ev) (hij : i < j)
    (h1 : tr[i]? = some ei) (h2 : tr[j]? = some ej) (ht : ei.tid = ej.tid) : HB tr i j :=
  .edge ⟨hij, ei, ej, h1, h2, Or.inl ht⟩

/-- on a trace whose events are only reads and writes, happens-before stays inside one thread -/
theorem hb_same_thread_of_no_sync (tr : List Ev)
    (hns : ∀ (k : Nat) (e : Ev), tr[k]? = some e → (∃ t x, e = Ev.rd t x) ∨ (∃ t x, e = Ev.wr t x)) :
    ∀ i j, HB tr i j → ∃ ei ej, tr[i]? = some ei ∧ tr[j]? = some ej ∧ ei.tid = ej.tid := by
  intro i j h
  induction h with
  | edge he =>
    obtain ⟨_, ei, ej, h1, h2, h3⟩ := he
    refine ⟨ei, ej, h1, h2, ?_⟩
    rcases h3 with h3 | ⟨t, t', m, rfl, _⟩ | ⟨t, c, rfl, _⟩
    · exact h3
    · rcases hns _ _ h1 with ⟨_, _, h⟩ | ⟨_, _, h⟩ <;> cases h
    · rcases hns _ _ h1 with ⟨_, _, h⟩ | ⟨_, _, h⟩ <;> cases h
  | trans _ _ ih1 ih2 =>
    obtain ⟨ei, ej, h1, h2, h3⟩ := ih1
    obtain ⟨ej', ek, h4, h5, h6⟩ := ih2
    rw [h2] at h4
    cases h4
    exact ⟨ei, ek, h1, h5, h3.trans h6⟩

end TV.Proofs.HB
