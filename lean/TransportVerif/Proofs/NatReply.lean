import TransportVerif.Proofs.Nat
/-
NAT proofs, C01 reply clause: after an outbound datagram was let through as `ext`, the reply from its
destination to `ext` is forwarded to the sender, now and for the mapping's lifetime.

* `aOut_witness` : on the abstract machine, an `.ok ext` answer leaves a mapping in the list that is keyed
  by `ext`, owned by `src`, expires at `now + lifetime`, and lists the destination's filter key.
* `aIn_of_witness` : such a mapping is the one `aIn` finds (mapped ports are pairwise distinct, `WfL`).
* `reach_napt` : a reachable NAPT state is `conc n s` of a well-formed abstract state, lifetime ≥ 0.
-/
namespace TV.Proofs.NatReply
open TV TV.Nat TV.NatLink TV.Proofs.Nat

theorem portRes_ok {m : Mapping} {ext : Addr} (h : portRes m = .ok ext) :
    ext.ip = m.mappedIP ∧ ext.port = m.mappedPort := by
  unfold portRes at h
  split at h
  · cases h
  · simp only [OutRes.ok.injEq] at h
    subst h
    exact ⟨rfl, rfl⟩

/-- the mapping used or created by an outbound call that answered `.ok ext` -/
theorem aOut_witness (n : NAT) (L : List Mapping) (c : Nat) (now : Int) (src dst ext : Addr)
    (h : (aOut n L c now src dst).2 = .ok ext) :
    ∃ m, m ∈ (aOut n L c now src dst).1.1 ∧ inKey m = (ext.ip, ext.port) ∧ m.loc = src ∧
      m.expires = now + n.lifetime ∧ m.filters.contains (keyOf n.filtBeh dst) = true := by
  unfold aOut at h ⊢
  cases hf : L.find? (fun m => decide (outKey m = (src, keyOf n.mapBeh dst)) && alive now m) with
  | some m0 =>
    rw [hf] at h
    obtain ⟨hm, hk, _⟩ := find_and_some hf
    simp only [decide_eq_true_eq, outKey, Prod.mk.injEq] at hk
    obtain ⟨hip, hport⟩ := portRes_ok h
    refine ⟨touch n.lifetime now (keyOf n.filtBeh dst) m0, ?_, ?_, hk.1, rfl, ?_⟩
    · exact List.mem_map.2 ⟨m0, hm, by simp⟩
    · simp only [inKey, touch, hip, hport]
    · simp only [touch]
      by_cases hc : m0.filters.contains (keyOf n.filtBeh dst) = true
      · rw [if_pos hc]; exact hc
      · rw [if_neg hc]; simp
  | none =>
    rw [hf] at h
    cases hh : n.mappedIPs.head? with
    | none => rw [hh] at h; cases h
    | some ip0 =>
      rw [hh] at h
      obtain ⟨hip, hport⟩ := portRes_ok h
      refine ⟨fresh c n.lifetime now src (keyOf n.mapBeh dst) (keyOf n.filtBeh dst) ip0, ?_, ?_, rfl, rfl, ?_⟩
      · exact List.mem_append_right _ (List.mem_singleton.2 rfl)
      · simp only [inKey, hip, hport]
      · simp [fresh]

/-- a live mapping keyed by `ext` that lists `src`'s filter key is the one the inbound call finds -/
theorem aIn_of_witness (n : NAT) {ips : List Nat} {c : Nat} {L : List Mapping} (hw : WfL ips c L) (t : Int)
    (src ext : Addr) {m : Mapping} (hm : m ∈ L) (hk : inKey m = (ext.ip, ext.port)) (ha : t ≤ m.expires)
    (hc : m.filters.contains (keyOf n.filtBeh src) = true) :
    (aIn n L t src ext).2 = .ok m.loc := by
  unfold aIn
  cases hf : L.find? (fun x => decide (inKey x = (ext.ip, ext.port)) && alive t x) with
  | none =>
    have := List.find?_eq_none.1 hf m hm
    simp [hk, alive, ha] at this
  | some x =>
    obtain ⟨hx, hkx, _⟩ := find_and_some hf
    simp only [decide_eq_true_eq] at hkx
    have : x = m := hw.eq_of_inKey hx hm (hkx.trans hk.symm)
    subst this
    simp only [hc, if_true]

theorem aOut_aIn (n : NAT) (L : List Mapping) (c : Nat) (hw : WfL n.mappedIPs c L) (now : Int)
    (src dst ext : Addr) (h : (aOut n L c now src dst).2 = .ok ext) (t : Int) (ht : t ≤ now + n.lifetime) :
    (aIn n (aOut n L c now src dst).1.1 t dst ext).2 = .ok src := by
  obtain ⟨m, hm, hk, hloc, hexp, hc⟩ := aOut_witness n L c now src dst ext h
  have := aIn_of_witness n (aOut_wf n L c hw now src dst) t dst ext hm hk (by rw [hexp]; exact ht) hc
  rw [this, hloc]

/-- the model-level statement on a well-formed embedded state -/
theorem reply_mk (n : NAT) (h1 : n.one2one = false) (L : List Mapping) (c : Nat) (hw : WfL n.mappedIPs c L)
    (now : Int) (src dst ext : Addr) (ho : ((mk n L c).translateOutbound now src dst).2 = .ok ext)
    (t : Int) (ht : t ≤ now + n.lifetime) :
    (((mk n L c).translateOutbound now src dst).1.translateInbound t dst ext).2 = .ok src := by
  rw [translateOutbound_mk n h1 L c hw] at ho ⊢
  simp only at ho ⊢
  rw [translateInbound_mk n h1 _ _ (aOut_wf n L c hw now src dst)]
  exact aOut_aIn n L c hw now src dst ext ho t ht

/-- a NAPT state reachable from a constructed NAT with lifetime argument ≥ 0 -/
theorem reach_napt {one2one : Bool} {mb fb : Dep} {lt : Int} {mapped loc : List Nat} {n : NAT} (ops : List Op)
    (hlt : 0 ≤ lt) (hn : NAT.new one2one mb fb lt mapped loc = some n)
    (h1 : (runState (n, 0) ops).1.one2one = false) :
    n.one2one = false ∧ 0 ≤ n.lifetime ∧
      ∃ s : AS, WfS n s ∧ runState (n, 0) ops = conc n s := by
  cases one2one with
  | true =>
    obtain ⟨h, _, _⟩ := new_one hn
    rw [runState_one n h ops 0, h] at h1
    cases h1
  | false =>
    obtain ⟨h, _, _, hl⟩ := new_napt hn
    refine ⟨h, ?_, aRun n AS.init ops, aRun_wf n ops _ (init_wf n), ?_⟩
    · rw [hl]
      split
      · simp [defaultLifetime]
      · exact hlt
    · rw [new_napt_conc hn, runState_conc n h ops _ (init_wf n)]

theorem reply_at (s : NAT × Int)
    (h : ∃ one2one mb fb lt mapped loc n ops, 0 ≤ lt ∧ NAT.new one2one mb fb lt mapped loc = some n ∧
      s = runState (n, 0) ops)
    (h1 : s.1.one2one = false) (src dst ext : Addr)
    (ho : (s.1.translateOutbound s.2 src dst).2 = .ok ext) (t : Int)
    (ht : t ≤ s.2 + (s.1.translateOutbound s.2 src dst).1.lifetime) :
    ((s.1.translateOutbound s.2 src dst).1.translateInbound t dst ext).2 = .ok src := by
  obtain ⟨o, mb, fb, lt, mapped, loc, n, ops, hlt, hn, rfl⟩ := h
  obtain ⟨hn1, hl, a, hw, hs⟩ := reach_napt ops hlt hn h1
  rw [hs] at ho ht ⊢
  simp only [conc] at ho ht ⊢
  rw [translateOutbound_mk n hn1 _ _ hw] at ht
  simp only [mk_lifetime] at ht
  exact reply_mk n hn1 a.L a.c hw a.now src dst ext ho t ht

theorem lifetime_nonneg (s : NAT × Int)
    (h : ∃ one2one mb fb lt mapped loc n ops, 0 ≤ lt ∧ NAT.new one2one mb fb lt mapped loc = some n ∧
      s = runState (n, 0) ops)
    (h1 : s.1.one2one = false) (src dst : Addr) :
    0 ≤ (s.1.translateOutbound s.2 src dst).1.lifetime := by
  obtain ⟨o, mb, fb, lt, mapped, loc, n, ops, hlt, hn, rfl⟩ := h
  obtain ⟨hn1, hl, a, hw, hs⟩ := reach_napt ops hlt hn h1
  rw [hs]
  simp only [conc]
  rw [translateOutbound_mk n hn1 _ _ hw]
  exact hl

theorem reply_one2one (n : NAT) (now : Int) (h1 : n.one2one = true) (src dst ext : Addr)
    (ho : (n.translateOutbound now src dst).2 = .ok ext)
    (hinj : paired n.mappedIPs n.localIPs ext.ip = some src.ip) :
    ((n.translateOutbound now src dst).1.translateInbound now dst ext).2 = .ok src := by
  rw [one_to_one_outbound n now src dst h1] at ho ⊢
  simp only at ho ⊢
  rw [one_to_one_inbound n now dst ext h1, hinj]
  cases hp : paired n.localIPs n.mappedIPs src.ip with
  | none => rw [hp] at ho; cases ho
  | some ip =>
    rw [hp] at ho
    simp only [OutRes.ok.injEq] at ho
    subst ho
    rfl

end TV.Proofs.NatReply
