import TransportVerif.Proofs.ReplayBase
/- the refinement invariant of the wrapping detector and its preservation -/
namespace TV.Proofs.Replay
open TV TV.Replay TV.ReplayLink TV.FixedBig TV.ReplaySpec TV.Proofs.ReplayArith

/-! ### modular arithmetic of distances, in case form -/

theorem behind_unique (m L x e2 : Nat) (hx : x ≤ m) (hL : L ≤ m) (he : e2 < m + 1)
    (h : (x + e2) % (m + 1) = L) : e2 = if x ≤ L then L - x else L + (m + 1) - x := by
  rw [mod_case _ _ (by omega)] at h
  split at h <;> split <;> omega

theorem behind_cong (m L x : Nat) (hx : x ≤ m) (hL : L ≤ m) :
    (x + (if x ≤ L then L - x else L + (m + 1) - x)) % (m + 1) = L := by
  rw [mod_case _ _ (by split <;> omega)]
  split <;> split <;> omega

theorem num_unique (m L x e1 b : Nat) (he : e1 ≤ m) (hx : x ≤ m) (hb : b < m + 1)
    (h1 : (e1 + b) % (m + 1) = L) (h2 : (x + b) % (m + 1) = L) : e1 = x := by
  rw [mod_case _ _ (by omega)] at h1 h2
  split at h1 <;> split at h2 <;> omega

theorem ahead_cong (m L x : Nat) (hx : x ≤ m) (hL : L ≤ m) :
    (L + (if L ≤ x then x - L else x + (m + 1) - L)) % (m + 1) = x := by
  rw [mod_case _ _ (by split <;> omega)]
  split <;> split <;> omega

/-! ### the spec at the wrapping configuration -/

theorem ahead_wrap (w m : Nat) (h : Hist) (x : Nat) (hL : h.latest ≤ m) (hx : x ≤ m) :
    ahead (cfgOf .wrap w m) h x = if h.latest ≤ x then x - h.latest else x + (m + 1) - h.latest :=
  ahead_eq _ _ _ hL hx

theorem behind_wrap (w m : Nat) (h : Hist) (x : Nat) (hL : h.latest ≤ m) (hx : x ≤ m) :
    behind (cfgOf .wrap w m) h x = if x ≤ h.latest then h.latest - x else h.latest + (m + 1) - x :=
  behind_eq _ _ _ hL hx

theorem inScope_wrap (w m : Nat) :
    (cfgOf .wrap w m).inScope = (decide (2 * w ≤ m + 1) && decide (m < 2 ^ 62)) := rfl

/-- the value of C05's rule for the wrapping detector after the first acceptance -/
def valW (w m : Nat) (h : Hist) (x : Nat) : Bool :=
  newerW (cfgOf .wrap w m) h x ||
    (decide (behind (cfgOf .wrap w m) h x < w) && !(h.acc.any (fun e => e.1 == x && decide (e.2 < w))))

theorem expectedOk_wrap (w m : Nat) (h : Hist) (x : Nat) :
    expectedOk (cfgOf .wrap w m) h x =
      if !(cfgOf .wrap w m).inScope then none else
      if m < x then some false
      else if !h.started then (if m + 1 ≤ 4 then none else some true)
      else if nearBoundary (cfgOf .wrap w m) h x then none
      else some (valW w m h x) := rfl

theorem expectedLatest_wrap (w m : Nat) (h : Hist) (x : Nat) :
    expectedLatest (cfgOf .wrap w m) h x =
      if !(cfgOf .wrap w m).inScope then none else
      if !h.started then (if m + 1 ≤ 4 then none else some true)
      else if nearBoundary (cfgOf .wrap w m) h x then none
      else some (newerW (cfgOf .wrap w m) h x) := rfl

theorem mustRefuse_wrap (w m : Nat) (h : Hist) (x : Nat) :
    mustRefuse (cfgOf .wrap w m) h x =
      (decide (m < x) || (decide (m < 2 ^ 62) &&
        h.acc.any (fun e => e.1 == x && decide (2 * e.2 < m + 1)))) := rfl

theorem nearBoundary_false (w m : Nat) (h : Hist) (x : Nat)
    (hn : nearBoundary (cfgOf .wrap w m) h x = false) :
    ahead (cfgOf .wrap w m) h x ≠ (m + 2) / 2 - 1 ∧ ahead (cfgOf .wrap w m) h x ≠ (m + 2) / 2 := by
  have : (ahead (cfgOf .wrap w m) h x == (m + 1 + 1) / 2 - 1
      || ahead (cfgOf .wrap w m) h x == (m + 1 + 1) / 2) = false := hn
  simp only [Bool.or_eq_false_iff, beq_eq_false_iff_ne] at this
  exact this

theorem newerW_wrap (w m : Nat) (h : Hist) (x : Nat) :
    newerW (cfgOf .wrap w m) h x =
      (decide (0 < ahead (cfgOf .wrap w m) h x) && decide (2 * ahead (cfgOf .wrap w m) h x < m + 1)) := rfl

theorem expectedOk_started (w m : Nat) (h : Hist) (x : Nat) (v : Bool)
    (hs : h.started = true) (hx : ¬ m < x)
    (hv : 2 * w ≤ m + 1 → m < 2 ^ 62 →
      ahead (cfgOf .wrap w m) h x ≠ (m + 2) / 2 - 1 → ahead (cfgOf .wrap w m) h x ≠ (m + 2) / 2 →
      valW w m h x = v) :
    expectedOk (cfgOf .wrap w m) h x ≠ some (!v) := by
  rw [expectedOk_wrap, if_neg hx, hs]
  by_cases hsc : (cfgOf .wrap w m).inScope = true
  · rw [hsc]
    simp only [Bool.not_true, Bool.false_eq_true, if_false]
    cases hn : nearBoundary (cfgOf .wrap w m) h x
    · simp only [Bool.false_eq_true, if_false]
      rw [inScope_wrap] at hsc
      simp only [Bool.and_eq_true, decide_eq_true_eq] at hsc
      obtain ⟨n1, n2⟩ := nearBoundary_false w m h x hn
      rw [hv hsc.1 hsc.2 n1 n2]
      cases v <;> simp
    · simp
  · simp [hsc]

theorem expectedLatest_started (w m : Nat) (h : Hist) (x : Nat) (v : Bool)
    (hs : h.started = true)
    (hv : 2 * w ≤ m + 1 → m < 2 ^ 62 →
      ahead (cfgOf .wrap w m) h x ≠ (m + 2) / 2 - 1 → ahead (cfgOf .wrap w m) h x ≠ (m + 2) / 2 →
      newerW (cfgOf .wrap w m) h x = v) :
    expectedLatest (cfgOf .wrap w m) h x ≠ some (!v) := by
  rw [expectedLatest_wrap, hs]
  by_cases hsc : (cfgOf .wrap w m).inScope = true
  · rw [hsc]
    simp only [Bool.not_true, Bool.false_eq_true, if_false]
    cases hn : nearBoundary (cfgOf .wrap w m) h x
    · simp only [Bool.false_eq_true, if_false]
      rw [inScope_wrap] at hsc
      simp only [Bool.and_eq_true, decide_eq_true_eq] at hsc
      obtain ⟨n1, n2⟩ := nearBoundary_false w m h x hn
      rw [hv hsc.1 hsc.2 n1 n2]
      cases v <;> simp
    · simp
  · simp [hsc]

theorem record_wrap_first (w m : Nat) (h : Hist) (x : Nat) (l : Bool) (hs : h.started = false) :
    h.record (cfgOf .wrap w m) x l = { started := true, latest := x, acc := [(x, 0)] } := by
  show (if !h.started then _ else _) = _
  rw [hs]; rfl

theorem record_wrap_true (w m : Nat) (h : Hist) (x : Nat) (hs : h.started = true) :
    h.record (cfgOf .wrap w m) x true =
      { h with latest := x,
               acc := (x, 0) :: h.acc.map (fun e => (e.1, e.2 + ahead (cfgOf .wrap w m) h x)) } := by
  show (if !h.started then _ else _) = _
  rw [hs]; rfl

theorem record_wrap_false (w m : Nat) (h : Hist) (x : Nat) (hs : h.started = true) :
    h.record (cfgOf .wrap w m) x false =
      { h with acc := (x, behind (cfgOf .wrap w m) h x) :: h.acc } := by
  show (if !h.started then _ else _) = _
  rw [hs]; rfl

/-! ### evaluating `wrapCheck` -/

theorem wrapCheck_window (d : Det) (x : Nat) (hx : ¬ d.maxSeq < x) (hw : d.windowSize < 2 ^ 63)
    (hd : (d.windowSize : Int) ≤ wrapDiff (wrapLatest d x) d.maxSeq x) :
    wrapCheck d x = .refused := by
  unfold wrapCheck
  rw [if_neg hx]
  simp only
  rw [i64_small _ (by omega) (by omega), if_pos hd]

theorem wrapCheck_bit (d : Det) (x : Nat) (hx : ¬ d.maxSeq < x) (hw : d.windowSize < 2 ^ 63)
    (hd : wrapDiff (wrapLatest d x) d.maxSeq x < (d.windowSize : Int))
    (hd0 : 0 ≤ wrapDiff (wrapLatest d x) d.maxSeq x)
    (hb : d.mask.bit (wrapDiff (wrapLatest d x) d.maxSeq x).toNat = true) :
    wrapCheck d x = .refused := by
  unfold wrapCheck
  rw [if_neg hx]
  simp only
  rw [i64_small _ (by omega) (by omega), if_neg (by omega), if_pos ⟨hd0, hb⟩]

theorem wrapCheck_neg (d : Det) (x : Nat) (hx : ¬ d.maxSeq < x) (hw : d.windowSize < 2 ^ 63)
    (hd : wrapDiff (wrapLatest d x) d.maxSeq x < 0) :
    wrapCheck d x = .ok
      { d with
        init := true, latestSeq := x,
        mask := (d.mask.lsh (toU64 (i64 (-(wrapDiff (wrapLatest d x) d.maxSeq x))))).setBit
          (wrapPos x d.maxSeq x) } true := by
  unfold wrapCheck
  rw [if_neg hx]
  simp only
  rw [i64_small _ (by omega) (by omega), if_neg (by omega), if_neg (by omega), if_pos hd]

theorem wrapCheck_pos (d : Det) (x : Nat) (hx : ¬ d.maxSeq < x) (hw : d.windowSize < 2 ^ 63)
    (hd : wrapDiff (wrapLatest d x) d.maxSeq x < (d.windowSize : Int))
    (hd0 : 0 ≤ wrapDiff (wrapLatest d x) d.maxSeq x)
    (hb : d.mask.bit (wrapDiff (wrapLatest d x) d.maxSeq x).toNat = false) :
    wrapCheck d x = .ok
      { d with
        init := true, latestSeq := wrapLatest d x,
        mask := d.mask.setBit (wrapPos (wrapLatest d x) d.maxSeq x) } false := by
  unfold wrapCheck
  rw [if_neg hx]
  simp only
  rw [i64_small _ (by omega) (by omega), if_neg (by omega), if_neg (by simp [hb]), if_neg (by omega)]

end TV.Proofs.Replay
