import TransportVerif.Proofs.VnetViews
/-
The invariants behind `inbox_is_suffix`, `only_bound_socket`, `payload_intact`, `accounting`.
-/
set_option autoImplicit false
namespace TV.Proofs.Vnet
open TV TV.Nat TV.Vnet TV.VnetLink

/-! ### fresh networks -/

theorem fresh_queued {n : Net} (h : n.Fresh) : queued n = [] := by
  simp only [queued, List.flatMap_eq_nil_iff]
  exact h.2.2.1

theorem fresh_deliveredAll {n : Net} (h : n.Fresh) : deliveredAll n = [] := by
  simp only [deliveredAll, List.flatMap_eq_nil_iff]
  intro hm hmem
  simp [h.2.2.2 hm hmem]

theorem fresh_sockAt {n : Net} (h : n.Fresh) (hh s : Nat) : sockAt n hh s = none := by
  cases e : sockAt n hh s with
  | none => rfl
  | some sk =>
    obtain ⟨hm, h1, h2⟩ := sockAt_some e
    have := h.2.2.2 hm (List.mem_iff_getElem?.2 ⟨hh, h1⟩)
    simp [this] at h2

theorem fresh_queueAt {n : Net} (h : n.Fresh) (r : Nat) (l : List Chunk) (e : queueAt n r = some l) : l = [] := by
  obtain ⟨rt, h1, rfl⟩ := queueAt_some e
  exact h.2.2.1 rt (List.mem_iff_getElem?.2 ⟨r, h1⟩)

/-! ### invariants of single sockets -/

theorem modSock_preserves {P : Nat → Nat → SockM → Prop} (n : Net) (h s : Nat) (f : SockM → SockM)
    (hf : ∀ sk, sockAt n h s = some sk → P h s sk → P h s (f sk))
    (a : ∀ h s sk, sockAt n h s = some sk → P h s sk) :
    ∀ h' s' sk', sockAt (modSock n h s f) h' s' = some sk' → P h' s' sk' := by
  intro h' s' sk' e
  rw [sockAt_modSock] at e
  split at e
  · rename_i hc
    obtain ⟨rfl, rfl⟩ := hc
    cases e0 : sockAt n h' s' with
    | none => simp [e0] at e
    | some sk =>
      simp only [e0, Option.map_some, Option.some.injEq] at e
      subst e
      exact hf sk e0 (a _ _ _ e0)
  · exact a _ _ _ e

theorem sockInv (P : Nat → Nat → SockM → Prop)
    (hnew : ∀ h s ip port remote, P h s { ip, port, remote, inbox := [], delivered := [], closed := false })
    (hho : ∀ h s sk c, P h s sk → sk.covers c.dst = true →
      P h s { sk with inbox := sk.inbox ++ [iHop h s c], delivered := sk.delivered ++ [iHop h s c] })
    (hread : ∀ h s sk rest, P h s sk → rest <:+ sk.inbox → P h s { sk with inbox := rest })
    (hclose : ∀ h s sk, P h s sk → P h s { sk with closed := true }) :
    IsInv (fun n _ => ∀ h s sk, sockAt n h s = some sk → P h s sk) where
  fresh n hf h s sk e := by rw [fresh_sockAt hf] at e; cases e
  qeq n n' fly hq a h s sk e := a h s sk (by rw [← sockAt_QEq hq]; exact e)
  sim n c c' _ a := a
  drop n c d a := a
  enq n r rt c _ a := a
  handOver n h s hm sk c h1 h2 h3 a := by
    apply modSock_preserves n h s _ _ a
    intro sk' e p
    rw [sockAt_of_eq h1 h2] at e
    cases e
    exact hho h s sk c p h3
  pop n r rt c rest _ _ a := a
  write n h s hm sk dst src payload _ _ a := a
  read n h s sk rest h1 h2 a := by
    apply modSock_preserves n h s _ _ a
    intro sk' e p
    rw [h1] at e
    cases e
    exact hread h s sk rest p h2
  bind n h hm ip port remote h1 a := by
    intro h' s' sk' e
    rw [sockAt_addSock n h ip port remote hm h1] at e
    split at e
    · cases e; exact hnew _ _ _ _ _
    · exact a _ _ _ e
  close n h s a := by
    apply modSock_preserves n h s _ _ a
    intro sk' _ p
    exact hclose h s sk' p
  now n t a := a
  started n b a := a

theorem suffixInv : IsInv (fun n _ => ∀ h s sk, sockAt n h s = some sk → sk.inbox <:+ sk.delivered) := by
  apply sockInv (fun _ _ sk => sk.inbox <:+ sk.delivered)
  · intro h s ip port remote; exact List.suffix_refl _
  · intro h s sk c ⟨t, ht⟩ _
    exact ⟨t, by simp [← ht]⟩
  · intro h s sk rest p hr; exact hr.trans p
  · intro h s sk p; exact p

theorem inbox_is_suffix (n : Net) (h : Reach n) (hh s : Nat) (sk : SockM) (hs : sockAt n hh s = some sk) :
    sk.inbox <:+ sk.delivered :=
  suffixInv.reach n h hh s sk hs

theorem boundInv : IsInv (fun n _ => ∀ h s sk, sockAt n h s = some sk → ∀ c ∈ sk.delivered,
    c.dst.port = sk.port ∧ (sk.ip = 0 ∨ sk.ip = c.dst.ip) ∧ c.hops.getLast? = some (.inbox h s)) := by
  apply sockInv (fun h s sk => ∀ c ∈ sk.delivered,
    c.dst.port = sk.port ∧ (sk.ip = 0 ∨ sk.ip = c.dst.ip) ∧ c.hops.getLast? = some (.inbox h s))
  · intro h s ip port remote c hc; simp at hc
  · intro h s sk c p hcov x hx
    simp only [List.mem_append, List.mem_singleton] at hx
    rcases hx with hx | rfl
    · exact p x hx
    · simp only [SockM.covers, Bool.and_eq_true, Bool.not_eq_eq_eq_not, Bool.not_true, beq_iff_eq,
        Bool.or_eq_true] at hcov
      exact ⟨hcov.1.2.symm, hcov.2, by simp [iHop]⟩
  · intro h s sk rest p _; exact p
  · intro h s sk p; exact p

theorem only_bound_socket (n : Net) (h : Reach n) (hh s : Nat) (sk : SockM) (hs : sockAt n hh s = some sk)
    (c : Chunk) (hc : c ∈ sk.delivered) :
    c.dst.port = sk.port ∧ (sk.ip = 0 ∨ sk.ip = c.dst.ip) ∧ c.hops.getLast? = some (.inbox hh s) :=
  boundInv.reach n h hh s sk hs c hc

theorem deliveredAll_read (n : Net) (h s : Nat) (rest : List Chunk) :
    deliveredAll (modSock n h s (fun sk => { sk with inbox := rest })) = deliveredAll n :=
  deliveredAll_modSock_eq _ _ _ _ (fun _ => rfl)

theorem deliveredAll_close (n : Net) (h s : Nat) :
    deliveredAll (modSock n h s (fun sk => { sk with closed := true })) = deliveredAll n :=
  deliveredAll_modSock_eq _ _ _ _ (fun _ => rfl)

/-! ### payload -/

def PayOK (w : List Written) (c : Chunk) : Prop :=
  w[c.id]? = some { origin := c.origin, dst := c.odst, payload := c.payload }

theorem PayOK.append {w : List Written} {c : Chunk} (x : Written) (h : PayOK w c) : PayOK (w ++ [x]) c := by
  unfold PayOK at *
  have : c.id < w.length := by
    obtain ⟨hlt, _⟩ := List.getElem?_eq_some_iff.1 h
    exact hlt
  rw [List.getElem?_append_left this]
  exact h

structure PayInv (n : Net) (fly : List Chunk) : Prop where
  q : ∀ c ∈ queued n, PayOK n.written c
  d : ∀ c ∈ deliveredAll n, PayOK n.written c
  x : ∀ c ∈ dropped n, PayOK n.written c
  f : ∀ c ∈ fly, PayOK n.written c

theorem dropped_drop (n : Net) (c : Chunk) (d : Drop) : dropped (n.drop c d) = dropped n ++ [c] := by
  simp [dropped, Net.drop]

theorem payInv : IsInv PayInv where
  fresh n hf := ⟨by simp [fresh_queued hf], by simp [fresh_deliveredAll hf], by simp [dropped, hf.2.1], by simp⟩
  qeq n n' fly hq a := by
    refine ⟨?_, ?_, ?_, ?_⟩
    · rw [queued_QEq hq, hq.written]; exact a.q
    · rw [deliveredAll_QEq hq, hq.written]; exact a.d
    · simp only [dropped, hq.drops, hq.written]; exact a.x
    · rw [hq.written]; exact a.f
  sim n c c' hs a := by
    refine ⟨a.q, a.d, a.x, ?_⟩
    intro y hy
    simp only [List.mem_singleton] at hy
    subst hy
    have := a.f c (by simp)
    unfold PayOK at *
    rw [hs.id, hs.origin, hs.odst, hs.payload]
    exact this
  drop n c d a := by
    refine ⟨a.q, a.d, ?_, by simp⟩
    intro y hy
    rw [dropped_drop] at hy
    simp only [List.mem_append, List.mem_singleton] at hy
    rcases hy with hy | rfl
    · exact a.x y hy
    · exact a.f y (by simp)
  enq n r rt c hr a := by
    refine ⟨?_, a.d, a.x, by simp⟩
    intro y hy
    rw [(queued_enq n r rt c hr).mem_iff] at hy
    simp only [List.mem_append, List.mem_singleton] at hy
    rcases hy with hy | rfl
    · exact a.q y hy
    · exact a.f c (by simp)
  handOver n h s hm sk c h1 h2 _ a := by
    refine ⟨a.q, ?_, a.x, by simp⟩
    intro y hy
    rw [(deliveredAll_handOver n h s sk c (sockAt_of_eq h1 h2)).mem_iff] at hy
    simp only [List.mem_append, List.mem_singleton] at hy
    rcases hy with hy | rfl
    · exact a.d y hy
    · exact a.f c (by simp)
  pop n r rt c rest h1 h2 a := by
    have hp := queued_pop n r rt rt c rest h1 h2
    refine ⟨?_, a.d, a.x, ?_⟩
    · intro y hy
      exact a.q y (hp.mem_iff.2 (List.mem_cons_of_mem _ hy))
    · intro y hy
      simp only [List.mem_singleton] at hy
      subst hy
      exact a.q y (hp.mem_iff.2 (by simp))
  write n h s hm sk dst src payload _ _ a := by
    refine ⟨fun y hy => (a.q y hy).append _, fun y hy => (a.d y hy).append _, fun y hy => (a.x y hy).append _, ?_⟩
    intro y hy
    simp only [List.mem_singleton] at hy
    subst hy
    simp [PayOK, addWritten, newChunk]
  read n h s sk rest _ _ a := by
    refine ⟨a.q, ?_, a.x, a.f⟩
    rw [deliveredAll_read]
    exact a.d
  bind n h hm ip port remote _ a := by
    refine ⟨a.q, ?_, a.x, a.f⟩
    rw [deliveredAll_addSock]
    exact a.d
  close n h s a := by
    refine ⟨a.q, ?_, a.x, a.f⟩
    rw [deliveredAll_close]
    exact a.d
  now n t a := ⟨a.q, a.d, a.x, a.f⟩
  started n b a := ⟨a.q, a.d, a.x, a.f⟩

theorem payload_intact (n : Net) (h : Reach n) (c : Chunk) (hc : c ∈ allChunks n) :
    n.written[c.id]? = some { origin := c.origin, dst := c.odst, payload := c.payload } := by
  have a := payInv.reach n h
  simp only [allChunks, List.mem_append] at hc
  rcases hc with (hc | hc) | hc
  · exact a.q c hc
  · exact a.d c hc
  · exact a.x c hc

/-! ### accounting -/

def cnt (i : Nat) (l : List Chunk) : Nat := (l.map Chunk.id).count i

@[simp] theorem cnt_nil (i : Nat) : cnt i [] = 0 := rfl
@[simp] theorem cnt_append (i : Nat) (l1 l2 : List Chunk) : cnt i (l1 ++ l2) = cnt i l1 + cnt i l2 := by
  simp [cnt, List.count_append]
theorem cnt_perm {i : Nat} {l1 l2 : List Chunk} (h : l1.Perm l2) : cnt i l1 = cnt i l2 :=
  (h.map Chunk.id).count_eq i
theorem cnt_cons (i : Nat) (c : Chunk) (l : List Chunk) : cnt i (c :: l) = cnt i l + cnt i [c] := by
  simp [cnt, List.count_cons]
theorem cnt_sim {c c' : Chunk} (i : Nat) (h : c'.id = c.id) : cnt i [c'] = cnt i [c] := by
  simp [cnt, h]

def AccInv (n : Net) (fly : List Chunk) : Prop :=
  ∀ i, cnt i (queued n) + cnt i (deliveredAll n) + cnt i (dropped n) + cnt i fly = if i < n.written.length then 1 else 0

theorem accInv : IsInv AccInv where
  fresh n hf i := by simp [fresh_queued hf, fresh_deliveredAll hf, dropped, hf.2.1, hf.1]
  qeq n n' fly hq a i := by
    have : dropped n' = dropped n := by simp only [dropped, hq.drops]
    rw [queued_QEq hq, deliveredAll_QEq hq, this, hq.written]; exact a i
  sim n c c' hs a i := by rw [cnt_sim i hs.id]; exact a i
  drop n c d a i := by
    have := a i
    rw [dropped_drop, cnt_append]
    show _ = if i < n.written.length then 1 else 0
    show cnt i (queued n) + cnt i (deliveredAll n) + _ + _ = _
    simp only [cnt_nil]; omega
  enq n r rt c hr a i := by
    have := a i
    rw [cnt_perm (queued_enq n r rt c hr), cnt_append, cnt_sim i (show (qHop r c).id = c.id from rfl)]
    show _ + cnt i (deliveredAll n) + cnt i (dropped n) + _ = if i < n.written.length then 1 else 0
    simp only [cnt_nil]; omega
  handOver n h s hm sk c h1 h2 _ a i := by
    have := a i
    rw [cnt_perm (deliveredAll_handOver n h s sk c (sockAt_of_eq h1 h2)), cnt_append,
      cnt_sim i (show (iHop h s c).id = c.id from rfl)]
    show cnt i (queued n) + _ + cnt i (dropped n) + _ = if i < n.written.length then 1 else 0
    simp only [cnt_nil]; omega
  pop n r rt c rest h1 h2 a i := by
    have := a i
    rw [cnt_perm (queued_pop n r rt rt c rest h1 h2), cnt_cons] at this
    show _ + cnt i (deliveredAll n) + cnt i (dropped n) + _ = if i < n.written.length then 1 else 0
    simp only [cnt_nil] at this; omega
  write n h s hm sk dst src payload _ _ a i := by
    have := a i
    show cnt i (queued n) + cnt i (deliveredAll n) + cnt i (dropped n) + _ = if i < (n.written ++ [_]).length then 1 else 0
    simp only [cnt_nil, List.length_append, List.length_singleton] at this ⊢
    have e : cnt i [newChunk n h s dst src payload] = if i = n.written.length then 1 else 0 := by
      by_cases hh : i = n.written.length
      · simp [cnt, newChunk, hh]
      · have hh' : ¬ n.written.length = i := fun e => hh e.symm
        simp [cnt, newChunk, hh, hh']
    rw [e]
    split at this <;> split <;> split <;> omega
  read n h s sk rest _ _ a i := by
    have := a i
    rw [deliveredAll_read]
    exact this
  bind n h hm ip port remote _ a i := by
    have := a i
    rw [deliveredAll_addSock]
    exact this
  close n h s a i := by
    have := a i
    rw [deliveredAll_close]
    exact this
  now n t a := a
  started n b a := a

theorem accounting (n : Net) (h : Reach n) :
    ((allChunks n).map (·.id)).Perm (List.range n.written.length) := by
  rw [List.perm_iff_count]
  intro i
  have := accInv.reach n h i
  rw [List.count_range]
  simp only [cnt, allChunks, List.map_append, List.count_append, List.map_nil, List.count_nil] at this ⊢
  omega

theorem delivered_at_most_once (n : Net) (h : Reach n) : ((deliveredAll n).map (·.id)).Nodup := by
  show ((deliveredAll n).map Chunk.id).Nodup
  rw [List.nodup_iff_count]
  intro i
  have := accInv.reach n h i
  simp only [cnt] at this
  split at this <;> omega

theorem nothing_missing_at_rest (n : Net) (h : Reach n) (hq : ∀ r ∈ n.routers, r.queue = []) (i : Nat)
    (hi : i < n.written.length) :
    (∃ c ∈ deliveredAll n, c.id = i) ∨ (∃ c ∈ dropped n, c.id = i) := by
  have := accInv.reach n h i
  have hq0 : queued n = [] := by
    simp only [queued, List.flatMap_eq_nil_iff]; exact hq
  simp only [hq0, cnt, hi, if_true, List.map_nil, List.count_nil] at this
  have key : ∀ l : List Chunk, 0 < (l.map Chunk.id).count i → ∃ c ∈ l, c.id = i := by
    intro l hl
    have := List.count_pos_iff.1 hl
    simpa using this
  by_cases h0 : 0 < ((deliveredAll n).map Chunk.id).count i
  · exact .inl (key _ h0)
  · exact .inr (key _ (by omega))

end TV.Proofs.Vnet
