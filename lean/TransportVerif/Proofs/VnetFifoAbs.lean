import TransportVerif.Model.Vnet
/-
The ordering invariant behind `flow_fifo_partial`, over an abstract assignment of lists of chunks to
containers (`C : Ctr → Option (List Chunk)`) and a bound `W` on the ids (number of writes so far).
Nothing here depends on the network model or on the NAT.
-/
set_option autoImplicit false
namespace TV.Proofs.Vnet
open TV TV.Nat TV.Vnet

abbrev Conts := Ctr → Option (List Chunk)

/-- the chunk sits in some container -/
def Present (C : Conts) (c : Chunk) : Prop := ∃ ctr l, C ctr = some l ∧ c ∈ l

/-- strict prefix -/
def SP (l1 l2 : List Ctr) : Prop := ∃ t, t ≠ [] ∧ l2 = l1 ++ t

theorem SP_concat {l1 l2 : List Ctr} {e : Ctr} (h : SP l1 (l2 ++ [e])) : l1 <+: l2 := by
  obtain ⟨t, ht, e1⟩ := h
  rcases List.eq_nil_or_concat t with rfl | ⟨t', e', rfl⟩
  · exact absurd rfl ht
  · rw [List.concat_eq_append, ← List.append_assoc] at e1
    exact ⟨t', (List.append_inj' e1 rfl).1.symm⟩

theorem SP_of_concat_SP {l1 l2 : List Ctr} {e : Ctr} (h : SP (l1 ++ [e]) l2) : SP l1 l2 := by
  obtain ⟨t, _, e1⟩ := h
  exact ⟨[e] ++ t, by simp, by rw [e1, List.append_assoc]⟩

theorem SP_of_concat_eq {l1 l2 : List Ctr} {e : Ctr} (h : l1 ++ [e] = l2) : SP l1 l2 :=
  ⟨[e], by simp, h.symm⟩

theorem prefix_cases {l1 l2 : List Ctr} (h : l1 <+: l2) : l1 = l2 ∨ SP l1 l2 := by
  obtain ⟨t, ht⟩ := h
  cases t with
  | nil => exact .inl (by simpa using ht)
  | cons a t => exact .inr ⟨a :: t, by simp, ht.symm⟩

structure FInv (C : Conts) (W : Nat) : Prop where
  last : ∀ (ctr : Ctr) (l : List Chunk) (c : Chunk), C ctr = some l → c ∈ l → c.hops.getLast? = some ctr
  bound : ∀ (ctr : Ctr) (l : List Chunk) (c : Chunk), C ctr = some l → c ∈ l → c.id < W
  nsp : ∀ a b : Chunk, Present C a → Present C b → a.origin = b.origin → a.id < b.id → ¬ SP a.hops b.hops
  ord : ∀ (ctr : Ctr) (l : List Chunk) (i j : Nat) (a b : Chunk), C ctr = some l → l[i]? = some a → l[j]? = some b → a.origin = b.origin →
    a.id < b.id → a.hops = b.hops → i < j

/-- what is known about a chunk in flight (popped or just written, not yet placed) -/
structure Fly (C : Conts) (W : Nat) (x : Chunk) : Prop where
  bound : x.id < W
  later : ∀ b : Chunk, Present C b → x.origin = b.origin → x.id < b.id → ¬ SP x.hops b.hops
  earlier : ∀ a : Chunk, Present C a → a.origin = x.origin → a.id < x.id → ¬ a.hops <+: x.hops

theorem FInv.empty (C : Conts) (W : Nat) (h : ∀ ctr l, C ctr = some l → l = []) : FInv C W where
  last ctr l c h1 h2 := by rw [h ctr l h1] at h2; simp at h2
  bound ctr l c h1 h2 := by rw [h ctr l h1] at h2; simp at h2
  nsp a b := by
    rintro ⟨ctr, l, h1, h2⟩
    rw [h ctr l h1] at h2; simp at h2
  ord ctr l i j a b h1 h2 := by rw [h ctr l h1] at h2; simp at h2

theorem Present.mono {C C' : Conts} (hC : ∀ ctr l, C' ctr = some l → l = [] ∨ C ctr = some l) {c : Chunk}
    (h : Present C' c) : Present C c := by
  obtain ⟨ctr, l, h1, h2⟩ := h
  rcases hC ctr l h1 with rfl | h3
  · simp at h2
  · exact ⟨ctr, l, h3, h2⟩

theorem FInv.mono {C C' : Conts} {W W' : Nat} (a : FInv C W)
    (hC : ∀ ctr l, C' ctr = some l → l = [] ∨ C ctr = some l) (hW : W ≤ W') : FInv C' W' where
  last ctr l c h1 h2 := by
    rcases hC ctr l h1 with rfl | h3
    · simp at h2
    · exact a.last ctr l c h3 h2
  bound ctr l c h1 h2 := by
    rcases hC ctr l h1 with rfl | h3
    · simp at h2
    · exact Nat.lt_of_lt_of_le (a.bound ctr l c h3 h2) hW
  nsp x y hx hy := a.nsp x y (hx.mono hC) (hy.mono hC)
  ord ctr l i j x y h1 h2 h3 := by
    rcases hC ctr l h1 with rfl | h4
    · simp at h2
    · exact a.ord ctr l i j x y h4 h2 h3

theorem Fly.mono {C C' : Conts} {W W' : Nat} {x : Chunk} (a : Fly C W x)
    (hC : ∀ ctr l, C' ctr = some l → l = [] ∨ C ctr = some l) (hW : W ≤ W') : Fly C' W' x where
  bound := Nat.lt_of_lt_of_le a.bound hW
  later b hb := a.later b (hb.mono hC)
  earlier b hb := a.earlier b (hb.mono hC)

theorem Fly.sim {C : Conts} {W : Nat} {x x' : Chunk} (a : Fly C W x) (h1 : x'.id = x.id) (h2 : x'.origin = x.origin)
    (h3 : x'.hops = x.hops) : Fly C W x' where
  bound := by rw [h1]; exact a.bound
  later := by rw [h1, h2, h3]; exact a.later
  earlier := by rw [h1, h2, h3]; exact a.earlier

/-- a chunk just written -/
theorem Fly.new {C : Conts} {W : Nat} (a : FInv C W) (x : Chunk) (h1 : x.id = W) (h2 : x.hops = []) :
    Fly C (W + 1) x where
  bound := by omega
  later b hb _ hlt := by
    obtain ⟨ctr, l, h3, h4⟩ := hb
    have := a.bound ctr l b h3 h4
    omega
  earlier b hb _ _ hp := by
    obtain ⟨ctr, l, h3, h4⟩ := hb
    have := a.last ctr l b h3 h4
    rw [h2, List.prefix_nil] at hp
    rw [hp] at this
    simp at this

/-- the chunk in flight is appended to a container -/
theorem FInv.append {C C' : Conts} {W : Nat} (a : FInv C W) {x x' : Chunk} (f : Fly C W x) (ctr : Ctr) (l : List Chunk)
    (hl : C ctr = some l) (h1 : x'.id = x.id) (h2 : x'.origin = x.origin) (h3 : x'.hops = x.hops ++ [ctr])
    (hC : ∀ k, C' k = if k = ctr then some (l ++ [x']) else C k) : FInv C' W := by
  have pres : ∀ c, Present C' c → Present C c ∨ c = x' := by
    rintro c ⟨k, lk, h4, h5⟩
    rw [hC] at h4
    split at h4
    · cases h4
      simp only [List.mem_append, List.mem_singleton] at h5
      rcases h5 with h5 | h5
      · exact .inl ⟨ctr, l, hl, h5⟩
      · exact .inr h5
    · exact .inl ⟨k, lk, h4, h5⟩
  refine ⟨?_, ?_, ?_, ?_⟩
  · intro k lk c h4 h5
    rw [hC] at h4
    split at h4
    · rename_i hk
      cases h4
      simp only [List.mem_append, List.mem_singleton] at h5
      rcases h5 with h5 | rfl
      · rw [hk]; exact a.last ctr l c hl h5
      · rw [h3, hk]; simp
    · exact a.last k lk c h4 h5
  · intro k lk c h4 h5
    rw [hC] at h4
    split at h4
    · cases h4
      simp only [List.mem_append, List.mem_singleton] at h5
      rcases h5 with h5 | rfl
      · exact a.bound ctr l c hl h5
      · rw [h1]; exact f.bound
    · exact a.bound k lk c h4 h5
  · intro p q hp hq ho hlt hsp
    rcases pres p hp with hp | rfl <;> rcases pres q hq with hq | rfl
    · exact a.nsp p q hp hq ho hlt hsp
    · rw [h3] at hsp
      exact f.earlier p hp (by rw [ho, h2]) (by omega) (SP_concat hsp)
    · rw [h3] at hsp
      exact f.later q hq (by rw [← h2, ho]) (by omega) (SP_of_concat_SP hsp)
    · omega
  · intro k lk i j p q h4 hi hj ho hlt hh
    rw [hC] at h4
    split at h4
    · cases h4
      rw [List.getElem?_append] at hi hj
      split at hi <;> split at hj
      · exact a.ord ctr l i j p q hl hi hj ho hlt hh
      · rename_i hi' _; omega
      · -- p = x', q old
        rename_i hi' hj'
        have : p = x' := by
          cases hidx : i - l.length with
          | zero => rw [hidx] at hi; simpa using hi.symm
          | succ m => rw [hidx] at hi; simp at hi
        subst this
        exfalso
        exact f.later q ⟨ctr, l, hl, List.mem_of_getElem? hj⟩ (by rw [← h2, ho]) (by omega)
          (SP_of_concat_eq (by rw [← h3, hh]))
      · have hp : p = x' := by
          cases hidx : i - l.length with
          | zero => rw [hidx] at hi; simpa using hi.symm
          | succ m => rw [hidx] at hi; simp at hi
        have hq : q = x' := by
          cases hidx : j - l.length with
          | zero => rw [hidx] at hj; simpa using hj.symm
          | succ m => rw [hidx] at hj; simp at hj
        subst hp hq
        omega
    · exact a.ord k lk i j p q h4 hi hj ho hlt hh

/-- the head of a container is taken out and is in flight -/
theorem FInv.pop {C C' : Conts} {W : Nat} (a : FInv C W) (ctr : Ctr) (x : Chunk) (rest : List Chunk)
    (hl : C ctr = some (x :: rest)) (hC : ∀ k, C' k = if k = ctr then some rest else C k) :
    FInv C' W ∧ Fly C' W x := by
  have pres : ∀ c, Present C' c → Present C c := by
    rintro c ⟨k, lk, h4, h5⟩
    rw [hC] at h4
    split at h4
    · cases h4; exact ⟨ctr, x :: rest, hl, List.mem_cons_of_mem _ h5⟩
    · exact ⟨k, lk, h4, h5⟩
  have hx : Present C x := ⟨ctr, x :: rest, hl, by simp⟩
  refine ⟨⟨?_, ?_, ?_, ?_⟩, ⟨?_, ?_, ?_⟩⟩
  · intro k lk c h4 h5
    rw [hC] at h4
    split at h4
    · rename_i hk
      cases h4
      rw [hk]; exact a.last ctr _ c hl (List.mem_cons_of_mem _ h5)
    · exact a.last k lk c h4 h5
  · intro k lk c h4 h5
    rw [hC] at h4
    split at h4
    · cases h4; exact a.bound ctr _ c hl (List.mem_cons_of_mem _ h5)
    · exact a.bound k lk c h4 h5
  · intro p q hp hq; exact a.nsp p q (pres p hp) (pres q hq)
  · intro k lk i j p q h4 hi hj ho hlt hh
    rw [hC] at h4
    split at h4
    · cases h4
      have := a.ord ctr (x :: rest) (i + 1) (j + 1) p q hl (by simpa using hi) (by simpa using hj) ho hlt hh
      omega
    · exact a.ord k lk i j p q h4 hi hj ho hlt hh
  · exact a.bound ctr _ x hl (by simp)
  · intro b hb; exact a.nsp x b hx (pres b hb)
  · intro p hp ho hlt hpre
    rcases prefix_cases hpre with heq | hsp
    · obtain ⟨k, lk, h4, h5⟩ := hp
      have hk : k = ctr := by
        have h6 : p.hops.getLast? = some k := by
          rw [hC] at h4
          split at h4
          · rename_i hk
            cases h4
            rw [hk]; exact a.last ctr _ p hl (List.mem_cons_of_mem _ h5)
          · exact a.last k lk p h4 h5
        have h7 := a.last ctr _ x hl (by simp)
        rw [heq, h7] at h6
        cases h6; rfl
      subst hk
      rw [hC] at h4
      simp only [if_true, Option.some.injEq] at h4
      subst h4
      obtain ⟨i, hi⟩ := List.getElem?_of_mem h5
      have := a.ord k (x :: rest) (i + 1) 0 p x hl (by simpa using hi) (by simp) ho hlt heq
      omega
    · exact a.nsp p x (pres p hp) hx ho hlt hsp

end TV.Proofs.Vnet
