import TransportVerif.Link.Vnet
/-
Basic facts about the vnet model: the elementary state changes (`drop`, enqueue, socket append,
queue-preserving router updates), case analyses of `pushTo`, `deliver`, `forward`, `routeOne`, and the
step-level statements of C01.
-/
set_option autoImplicit false
namespace TV.Proofs.Vnet
open TV TV.Nat TV.Vnet TV.VnetLink

/-! ### elementary updates -/

/-- update one socket -/
def modSock (n : Net) (h s : Nat) (f : SockM → SockM) : Net :=
  n.modHost h (fun hm => { hm with socks := hm.socks.modify s f })

/-- the chunk as it sits in a queue -/
def qHop (r : Nat) (c : Chunk) : Chunk := { c with hops := c.hops ++ [.queue r], route := c.route ++ [(.queue r, c.dst)] }
/-- the chunk as it sits in an inbox -/
def iHop (h s : Nat) (c : Chunk) : Chunk := { c with hops := c.hops ++ [.inbox h s], route := c.route ++ [(.inbox h s, c.dst)] }

/-- append to the queue of router `r` -/
def enq (n : Net) (r : Nat) (c : Chunk) : Net :=
  n.modRouter r (fun rt => { rt with queue := rt.queue ++ [qHop r c] })

/-- hand over to socket `(h, s)` -/
def handOver (n : Net) (h s : Nat) (c : Chunk) : Net :=
  modSock n h s (fun sk => { sk with inbox := sk.inbox ++ [iHop h s c], delivered := sk.delivered ++ [iHop h s c] })

/-- same network up to router fields other than the queues (NAT state) -/
structure QEq (n n' : Net) : Prop where
  hosts : n'.hosts = n.hosts
  written : n'.written = n.written
  drops : n'.drops = n.drops
  len : n'.routers.length = n.routers.length
  queue : ∀ r : Nat, (n'.routers[r]?).map RouterM.queue = (n.routers[r]?).map RouterM.queue

theorem QEq.refl (n : Net) : QEq n n := ⟨rfl, rfl, rfl, rfl, fun _ => rfl⟩

theorem QEq.modRouter (n : Net) (k : Nat) (f : RouterM → RouterM) (hf : ∀ x, (f x).queue = x.queue) :
    QEq n (n.modRouter k f) := by
  refine ⟨rfl, rfl, rfl, by simp [Net.modRouter], fun r => ?_⟩
  simp only [Net.modRouter, List.getElem?_modify]
  cases n.routers[r]? with
  | none => rfl
  | some x => by_cases h : k = r <;> simp [h, hf]

/-- chunks that differ at most in the (translated) addresses -/
structure Sim (c c' : Chunk) : Prop where
  id : c'.id = c.id
  origin : c'.origin = c.origin
  odst : c'.odst = c.odst
  payload : c'.payload = c.payload
  hops : c'.hops = c.hops
  route : c'.route = c.route

theorem Sim.refl (c : Chunk) : Sim c c := ⟨rfl, rfl, rfl, rfl, rfl, rfl⟩

/-! ### `sockAt` under the updates -/

theorem sockAt_modSock (n : Net) (h s : Nat) (f : SockM → SockM) (h' s' : Nat) :
    sockAt (modSock n h s f) h' s' = if h' = h ∧ s' = s then (sockAt n h' s').map f else sockAt n h' s' := by
  simp only [sockAt, modSock, Net.modHost, List.getElem?_modify]
  cases n.hosts[h']? with
  | none => simp
  | some hm =>
    by_cases hh : h = h'
    · subst hh
      simp only [Option.map_eq_map, Option.map_some, if_true, Option.bind_some, List.getElem?_modify, true_and]
      cases hm.socks[s']? with
      | none => simp
      | some sk => by_cases hs : s = s' <;> simp [hs, eq_comm]
    · have : ¬ (h' = h ∧ s' = s) := fun e => hh e.1.symm
      simp [hh, this]

theorem sockAt_of_eq {n : Net} {h s : Nat} {hm : HostM} {sk : SockM} (h1 : n.hosts[h]? = some hm)
    (h2 : hm.socks[s]? = some sk) : sockAt n h s = some sk := by
  simp [sockAt, h1, h2]

theorem sockAt_some {n : Net} {h s : Nat} {sk : SockM} (hs : sockAt n h s = some sk) :
    ∃ hm, n.hosts[h]? = some hm ∧ hm.socks[s]? = some sk := by
  unfold sockAt at hs
  cases hh : n.hosts[h]? with
  | none => simp [hh] at hs
  | some hm => exact ⟨hm, rfl, by simpa [hh] using hs⟩

/-! ### `findSock` -/

theorem findSock_spec {hm : HostM} {a : Addr} {s : Nat} (h : hm.findSock a = some s) :
    ∃ sk, hm.socks[s]? = some sk ∧ sk.covers a = true := by
  unfold HostM.findSock at h
  cases hf : hm.socks.zipIdx.find? (fun e => e.1.covers a) with
  | none => simp [hf] at h
  | some e =>
    simp [hf] at h
    subst h
    exact ⟨e.1, List.mem_zipIdx_iff_getElem?.1 (List.mem_of_find?_eq_some hf), List.find?_some (p := fun (e : SockM × Nat) => e.1.covers a) hf⟩

/-! ### case analyses -/

theorem pushTo_cases (n : Net) (r : Nat) (c : Chunk) :
    (∃ d, n.pushTo r c = n.drop c d) ∨ (∃ rt, n.routers[r]? = some rt ∧ n.pushTo r c = enq n r c) := by
  unfold Net.pushTo
  cases hr : n.routers[r]? with
  | none => exact .inl ⟨_, rfl⟩
  | some rt =>
    simp only
    split
    · exact .inl ⟨_, rfl⟩
    · split
      · exact .inl ⟨_, rfl⟩
      · exact .inr ⟨rt, rfl, rfl⟩

theorem deliver_cases (n : Net) (h : Nat) (c : Chunk) :
    (∃ d, n.deliver h c = n.drop c d) ∨
    (∃ hm s sk, n.hosts[h]? = some hm ∧ hm.findSock c.dst = some s ∧ hm.socks[s]? = some sk ∧
      sk.covers c.dst = true ∧ n.deliver h c = handOver n h s c) := by
  unfold Net.deliver
  cases hh : n.hosts[h]? with
  | none => exact .inl ⟨_, rfl⟩
  | some hm =>
    simp only
    cases hf : hm.findSock c.dst with
    | none => exact .inl ⟨_, rfl⟩
    | some s =>
      simp only
      obtain ⟨sk, hsk, hcov⟩ := findSock_spec hf
      simp only [hsk]
      split
      · exact .inl ⟨_, rfl⟩
      · exact .inr ⟨hm, s, sk, rfl, hf, hsk, hcov, rfl⟩

/-- what `forward` does, up to NAT state and address rewriting -/
def FwdOut (n : Net) (c : Chunk) (res : Net) : Prop :=
    ∃ n1 c', QEq n n1 ∧ Sim c c' ∧
      ((∃ d, res = n1.drop c' d) ∨ (∃ k, res = n1.pushTo k c') ∨ (∃ h, res = n1.deliver h c'))

theorem forward_cases (n : Net) (r : Nat) (rt : RouterM) (c : Chunk) : FwdOut n c (n.forward r rt c) := by
  unfold Net.forward
  split
  · split
    · exact ⟨n, c, .refl n, .refl c, .inl ⟨_, rfl⟩⟩
    · exact ⟨n, c, .refl n, .refl c, .inr (.inr ⟨_, rfl⟩)⟩
    · rename_i k _
      split
      · exact ⟨n, c, .refl n, .refl c, .inl ⟨_, rfl⟩⟩
      · rename_i child _
        split
        · exact ⟨n, c, .refl n, .refl c, .inl ⟨_, rfl⟩⟩
        · rename_i nat _
          generalize nat.translateInbound n.now c.src c.dst = res
          obtain ⟨nat', res⟩ := res
          simp only
          have hq : QEq n (n.modRouter k (fun x => { x with nat := some nat' })) := QEq.modRouter _ _ _ (fun _ => rfl)
          split
          · refine ⟨_, _, hq, ?_, .inr (.inl ⟨_, rfl⟩)⟩; exact ⟨rfl, rfl, rfl, rfl, rfl, rfl⟩
          · exact ⟨_, c, hq, .refl c, .inl ⟨_, rfl⟩⟩
  · split
    · rename_i p nat _ _
      generalize nat.translateOutbound n.now c.src c.dst = res
      obtain ⟨nat', res⟩ := res
      simp only
      have hq : QEq n (n.modRouter r (fun x => { x with nat := some nat' })) := QEq.modRouter _ _ _ (fun _ => rfl)
      split
      · refine ⟨_, _, hq, ?_, .inr (.inl ⟨_, rfl⟩)⟩; exact ⟨rfl, rfl, rfl, rfl, rfl, rfl⟩
      · exact ⟨_, c, hq, .refl c, .inl ⟨_, rfl⟩⟩
      · exact ⟨_, c, hq, .refl c, .inl ⟨_, rfl⟩⟩
    · exact ⟨n, c, .refl n, .refl c, .inl ⟨_, rfl⟩⟩

/-- remove the head of the queue of router `r` (the first half of `routeOne`) -/
def pop (n : Net) (r : Nat) (rt : RouterM) (rest : List Chunk) : Net :=
  n.modRouter r (fun _ => { rt with queue := rest })

theorem routeOne_cases (n : Net) (r : Nat) :
    (n.routeOne r = n ∧ ∀ rt, n.routers[r]? = some rt → rt.queue = []) ∨
    ∃ rt c rest, n.routers[r]? = some rt ∧ rt.queue = c :: rest ∧
      n.routeOne r = (pop n r rt rest).forward r { rt with queue := rest } c := by
  unfold Net.routeOne
  cases hr : n.routers[r]? with
  | none => exact .inl ⟨rfl, fun _ h => by cases h⟩
  | some rt =>
    simp only
    cases hq : rt.queue with
    | nil => exact .inl ⟨rfl, fun _ h => by cases h; exact hq⟩
    | cons c rest => exact .inr ⟨rt, c, rest, rfl, hq, rfl⟩

/-! ### `readInbox` -/

theorem readInbox_suffix (rem : Option Addr) (l : List Chunk) : (readInbox rem l).1 <:+ l := by
  induction l with
  | nil => simp [readInbox]
  | cons c rest ih =>
    unfold readInbox
    cases rem with
    | none => exact List.suffix_cons _ _
    | some ra =>
      simp only
      split
      · exact List.suffix_cons _ _
      · exact ih.trans (List.suffix_cons _ _)

theorem readInbox_spec (rem : Option Addr) (l rest : List Chunk) (c : Chunk) (h : readInbox rem l = (rest, some c)) :
    ∃ skipped, l = skipped ++ c :: rest ∧ (∀ ra, rem = some ra → c.src = ra ∧ ∀ x ∈ skipped, x.src ≠ ra) ∧
      (rem = none → skipped = []) := by
  induction l with
  | nil => simp [readInbox] at h
  | cons x xs ih =>
    unfold readInbox at h
    cases rem with
    | none =>
      simp only [Prod.mk.injEq, Option.some.injEq] at h
      obtain ⟨rfl, rfl⟩ := h
      exact ⟨[], rfl, by simp, fun _ => rfl⟩
    | some ra =>
      simp only at h
      split at h
      · rename_i hx
        simp only [Prod.mk.injEq, Option.some.injEq] at h
        obtain ⟨rfl, rfl⟩ := h
        refine ⟨[], rfl, ?_, by simp⟩
        intro ra' hra
        cases hra
        exact ⟨hx, by simp⟩
      · rename_i hx
        obtain ⟨sk, h1, h2, _⟩ := ih h
        refine ⟨x :: sk, by simp [h1], ?_, by simp⟩
        intro ra' hra
        cases hra
        obtain ⟨h3, h4⟩ := h2 ra rfl
        refine ⟨h3, ?_⟩
        intro y hy
        rcases List.mem_cons.1 hy with rfl | hy
        · exact hx
        · exact h4 y hy

/-! ### step-level statements -/

theorem deliver_target (n : Net) (hh : Nat) (c : Chunk) :
    (∃ d, n.deliver hh c = n.drop c d) ∨
    (∃ hm s sk, n.hosts[hh]? = some hm ∧ hm.findSock c.dst = some s ∧ hm.socks[s]? = some sk ∧ sk.covers c.dst = true ∧
      (n.deliver hh c).drops = n.drops ∧ (n.deliver hh c).routers = n.routers ∧
      ∀ h' s', (h', s') ≠ (hh, s) → sockAt (n.deliver hh c) h' s' = sockAt n h' s') := by
  rcases deliver_cases n hh c with h | ⟨hm, s, sk, h1, h2, h3, h4, h5⟩
  · exact .inl h
  · refine .inr ⟨hm, s, sk, h1, h2, h3, h4, by rw [h5]; rfl, by rw [h5]; rfl, ?_⟩
    intro h' s' hne
    rw [h5, handOver, sockAt_modSock]
    have : ¬ (h' = hh ∧ s' = s) := fun e => hne (by rw [e.1, e.2])
    simp [this]

theorem read_takes_next (n : Net) (hh s : Nat) (sk : SockM) (hs : sockAt n hh s = some sk) (n' : Net) (c : Chunk)
    (hr : n.read hh s = (n', .pkt c)) :
    ∃ skipped sk', sockAt n' hh s = some sk' ∧ sk.inbox = skipped ++ c :: sk'.inbox ∧ sk'.delivered = sk.delivered ∧
      (∀ ra, sk.remote = some ra → c.src = ra ∧ ∀ x ∈ skipped, x.src ≠ ra) ∧ (sk.remote = none → skipped = []) := by
  obtain ⟨hm, h1, h2⟩ := sockAt_some hs
  unfold Net.read at hr
  simp only [h1, h2] at hr
  cases hri : readInbox sk.remote sk.inbox with
  | mk rest got =>
    simp only [hri] at hr
    cases got with
    | none =>
      simp only [Prod.mk.injEq] at hr
      obtain ⟨_, hr⟩ := hr
      split at hr <;> cases hr
    | some c' =>
      simp only [Prod.mk.injEq, ReadRes.pkt.injEq] at hr
      obtain ⟨hn, rfl⟩ := hr
      obtain ⟨skipped, e1, e2, e3⟩ := readInbox_spec _ _ _ _ hri
      refine ⟨skipped, { sk with inbox := rest }, ?_, e1, rfl, e2, e3⟩
      rw [← hn]
      have := sockAt_modSock n hh s (fun sk => { sk with inbox := rest }) hh s
      simp only [modSock, and_self, if_true, hs, Option.map_some] at this
      exact this

theorem push_keeps (n : Net) (r : Nat) (rt : RouterM) (c : Chunk) (hr : n.routers[r]? = some rt)
    (hs : n.started = true) (hcap : rt.cap = 0 ∨ rt.queue.length < rt.cap) :
    (n.pushTo r c).drops = n.drops ∧
    ∃ rt', (n.pushTo r c).routers[r]? = some rt' ∧ rt'.queue = rt.queue ++ [{ c with hops := c.hops ++ [.queue r], route := c.route ++ [(.queue r, c.dst)] }] := by
  have hc : ¬ (rt.cap > 0 ∧ rt.queue.length ≥ rt.cap) := by omega
  unfold Net.pushTo
  simp only [hr, hs, hc, Bool.not_true, Bool.false_eq_true, if_false]
  refine ⟨rfl, ?_⟩
  simp [Net.modRouter, hr]

theorem deliver_keeps (n : Net) (hh : Nat) (hm : HostM) (s : Nat) (sk : SockM) (c : Chunk) (h1 : n.hosts[hh]? = some hm)
    (h2 : hm.findSock c.dst = some s) (h3 : hm.socks[s]? = some sk) (h4 : sk.inbox.length < inboxCap) :
    (n.deliver hh c).drops = n.drops ∧
    ∃ sk', sockAt (n.deliver hh c) hh s = some sk' ∧ sk'.delivered = sk.delivered ++ [{ c with hops := c.hops ++ [.inbox hh s], route := c.route ++ [(.inbox hh s, c.dst)] }] := by
  have hc : ¬ (sk.inbox.length ≥ inboxCap) := by omega
  have e : n.deliver hh c = handOver n hh s c := by
    unfold Net.deliver
    simp only [h1, h2, h3, hc, if_false]
    rfl
  rw [e]
  refine ⟨rfl, ?_⟩
  rw [handOver, sockAt_modSock]
  simp [sockAt_of_eq h1 h3, iHop]

/-! ### the queue of a router under the updates -/

def queueAt (n : Net) (r : Nat) : Option (List Chunk) := (n.routers[r]?).map RouterM.queue

theorem queueAt_some {n : Net} {r : Nat} {l : List Chunk} (h : queueAt n r = some l) :
    ∃ rt, n.routers[r]? = some rt ∧ rt.queue = l := by
  unfold queueAt at h
  cases hr : n.routers[r]? with
  | none => simp [hr] at h
  | some rt => exact ⟨rt, rfl, by simpa [hr] using h⟩

theorem queueAt_of_eq {n : Net} {r : Nat} {rt : RouterM} (h : n.routers[r]? = some rt) : queueAt n r = some rt.queue := by
  simp [queueAt, h]

theorem queueAt_enq (n : Net) (k : Nat) (c : Chunk) (r : Nat) :
    queueAt (enq n k c) r = if r = k then (queueAt n r).map (· ++ [qHop k c]) else queueAt n r := by
  simp only [queueAt, enq, Net.modRouter, List.getElem?_modify]
  cases n.routers[r]? with
  | none => simp
  | some rt => by_cases h : k = r <;> simp [h, eq_comm]

theorem queueAt_pop (n : Net) (k : Nat) (rt : RouterM) (rest : List Chunk) (r : Nat) (rt0 : RouterM)
    (hk : n.routers[k]? = some rt0) :
    queueAt (pop n k rt rest) r = if r = k then some rest else queueAt n r := by
  simp only [queueAt, pop, Net.modRouter, List.getElem?_modify]
  by_cases h : k = r
  · subst h; simp [hk]
  · have h' : ¬ r = k := fun e => h e.symm
    cases n.routers[r]? <;> simp [h, h']

theorem queueAt_QEq {n n' : Net} (h : QEq n n') (r : Nat) : queueAt n' r = queueAt n r := h.queue r

theorem route_pops_head (n : Net) (r : Nat) (rt : RouterM) (c : Chunk) (rest : List Chunk)
    (hr : n.routers[r]? = some rt) (hq : rt.queue = c :: rest) :
    ∃ rt', (n.routeOne r).routers[r]? = some rt' ∧ (rt'.queue = rest ∨ ∃ c', rt'.queue = rest ++ [c']) := by
  have key : queueAt (n.routeOne r) r = some rest ∨ ∃ c', queueAt (n.routeOne r) r = some (rest ++ [c']) := by
    rcases routeOne_cases n r with h | ⟨rt1, c1, rest1, h1, h2, h3⟩
    · have := h.2 rt hr
      rw [hq] at this; cases this
    · rw [hr] at h1; cases h1
      rw [hq] at h2; cases h2
      rw [h3]
      obtain ⟨n1, c', hqe, _, hres⟩ := forward_cases (pop n r rt rest) r { rt with queue := rest } c
      have h0 : queueAt n1 r = some rest := by rw [queueAt_QEq hqe, queueAt_pop _ _ _ _ _ _ hr]; simp
      rcases hres with ⟨d, e⟩ | ⟨k, e⟩ | ⟨h, e⟩
      · rw [e]; exact .inl h0
      · rw [e]
        rcases pushTo_cases n1 k c' with ⟨d, e'⟩ | ⟨_, _, e'⟩
        · rw [e']; exact .inl h0
        · rw [e', queueAt_enq]
          by_cases hk : r = k
          · subst hk; simp only [if_true, h0, Option.map_some]; exact .inr ⟨_, rfl⟩
          · simp only [hk, if_false]; exact .inl h0
      · rw [e]
        rcases deliver_cases n1 h c' with ⟨d, e'⟩ | ⟨_, _, _, _, _, _, _, e'⟩
        · rw [e']; exact .inl h0
        · rw [e']; exact .inl h0
  rcases key with h | ⟨c', h⟩
  · obtain ⟨rt', h1, h2⟩ := queueAt_some h
    exact ⟨rt', h1, .inl h2⟩
  · obtain ⟨rt', h1, h2⟩ := queueAt_some h
    exact ⟨rt', h1, .inr ⟨c', h2⟩⟩

end TV.Proofs.Vnet
