import TransportVerif.Link.Addressing
/-
Helper lemmas for C13, router part: `assign`, `register`, `addNIC` and the invariants along
`runRouter`.
-/
namespace TV.Proofs.Addressing
open TV.Addressing TV.AddressingLink TV.AddressingSpec

/-- first three octets of the network -/
def base (r : Router) : Nat := (r.netIP / 256) * 256

theorem contains_congr {r r' : Router} (h1 : r'.netIP = r.netIP) (h2 : r'.maskBits = r.maskBits)
    (x : Nat) : r'.contains x = r.contains x := by
  simp [Router.contains, h1, h2]

theorem assign_spec (fuel : Nat) : ∀ (r r' : Router) (res : Option Nat), r.assign fuel = (r', res) →
    r'.nics = r.nics ∧ r'.netIP = r.netIP ∧ r'.maskBits = r.maskBits ∧ r.lastID ≤ r'.lastID ∧
    (r.lastID ≤ 254 → r'.lastID ≤ 254) ∧
    (∀ ip, res = some ip → ip ∉ r.nics ∧ ip = base r + r'.lastID ∧ r.lastID < r'.lastID ∧
        ∀ k, r.lastID < k → k < r'.lastID → base r + k ∈ r.nics) ∧
    (res = none → 254 - r.lastID < fuel → r.lastID ≤ 254 →
        r'.lastID = 254 ∧ ∀ k, r.lastID < k → k ≤ 254 → base r + k ∈ r.nics) := by
  induction fuel with
  | zero =>
    intro r r' res h
    simp [Router.assign] at h
    obtain ⟨rfl, rfl⟩ := h
    simp
  | succ fuel ih =>
    intro r r' res h
    unfold Router.assign at h
    split at h
    · rename_i h254
      simp at h
      obtain ⟨rfl, rfl⟩ := h
      refine ⟨rfl, rfl, rfl, Nat.le_refl _, fun h => h, ?_, ?_⟩
      · intro ip hip; cases hip
      · intro _ _ _
        refine ⟨h254, ?_⟩
        intro k h1 h2; omega
    · rename_i h254
      simp only at h
      split at h
      · rename_i hc
        have := ih _ _ _ h
        simp only at this
        obtain ⟨e1, e2, e3, e4, e5, e6, e7⟩ := this
        have hc' : (r.netIP / 256) * 256 + (r.lastID + 1) ∈ r.nics := by simpa using hc
        refine ⟨e1, e2, e3, by omega, fun h => e5 (by omega), ?_, ?_⟩
        · intro ip hip
          obtain ⟨a, b, c, d⟩ := e6 ip hip
          refine ⟨a, b, by omega, ?_⟩
          intro k h1 h2
          by_cases hk : k = r.lastID + 1
          · subst hk; exact hc'
          · exact d k (by omega) h2
        · intro hn hf hl
          obtain ⟨a, b⟩ := e7 hn (by omega) (by omega)
          refine ⟨a, ?_⟩
          intro k h1 h2
          by_cases hk : k = r.lastID + 1
          · subst hk; exact hc'
          · exact b k (by omega) h2
      · rename_i hc
        simp at h
        obtain ⟨rfl, rfl⟩ := h
        have hc' : (r.netIP / 256) * 256 + (r.lastID + 1) ∉ r.nics := by simpa using hc
        refine ⟨rfl, rfl, rfl, by simp, by simp; omega, ?_, ?_⟩
        · intro ip hip
          cases hip
          refine ⟨hc', rfl, by simp, ?_⟩
          intro k h1 h2; simp at h2; omega
        · intro hn; cases hn

theorem register_spec : ∀ (l : List Nat) (r r' : Router) (b : Bool), r.register l = (r', b) →
    r'.netIP = r.netIP ∧ r'.maskBits = r.maskBits ∧ r'.lastID = r.lastID ∧
    (∀ x ∈ r.nics, x ∈ r'.nics) ∧
    (b = true → ∀ x ∈ l, r.contains x = true ∧ x ∈ r'.nics) ∧
    (b = false → ∃ x ∈ l, r.contains x = false) := by
  intro l
  induction l with
  | nil =>
    intro r r' b h
    simp [Router.register] at h
    obtain ⟨rfl, rfl⟩ := h
    simp
  | cons ip rest ih =>
    intro r r' b h
    unfold Router.register at h
    split at h
    · rename_i hc
      simp at h
      obtain ⟨rfl, rfl⟩ := h
      refine ⟨rfl, rfl, rfl, fun _ h => h, by simp, ?_⟩
      intro _
      exact ⟨ip, by simp, by simpa using hc⟩
    · rename_i hc
      have hc' : r.contains ip = true := by simpa using hc
      obtain ⟨e1, e2, e3, e4, e5, e6⟩ := ih _ _ _ h
      simp only at e1 e2 e3 e4
      have hcong : ∀ x, Router.contains { r with nics := if r.nics.contains ip then r.nics else r.nics ++ [ip] } x
          = r.contains x := fun x => contains_congr rfl rfl x
      have hip : ip ∈ r'.nics := by
        apply e4
        split
        · rename_i hm; simpa using hm
        · simp
      have hsub : ∀ x ∈ r.nics, x ∈ r'.nics := by
        intro x hx
        apply e4
        split
        · exact hx
        · simp [hx]
      refine ⟨e1, e2, e3, hsub, ?_, ?_⟩
      · intro hb x hx
        rcases List.mem_cons.mp hx with rfl | hx
        · exact ⟨hc', hip⟩
        · have := e5 hb x hx
          rw [hcong] at this
          exact this
      · intro hb
        obtain ⟨x, hx, hxc⟩ := e6 hb
        rw [hcong] at hxc
        exact ⟨x, List.mem_cons_of_mem _ hx, hxc⟩


/-- invariant along histories: every candidate the automatic assignment has passed is held or
    lies outside the subnet -/
def RInv (r : Router) : Prop :=
  r.lastID ≤ 254 ∧ ∀ k, 1 ≤ k → k ≤ r.lastID → (base r + k ∈ r.nics ∨ r.contains (base r + k) = false)

theorem base_congr {r r' : Router} (h1 : r'.netIP = r.netIP) : base r' = base r := by
  simp [base, h1]

theorem addNIC_spec (r : Router) (st : List Nat) :
    ((r.addNIC st).1.netIP = r.netIP ∧ (r.addNIC st).1.maskBits = r.maskBits ∧
      (∀ x ∈ r.nics, x ∈ (r.addNIC st).1.nics)) ∧
    (∀ ips, (r.addNIC st).2 = .ok ips →
      (∀ x ∈ ips, r.contains x = true ∧ x ∈ (r.addNIC st).1.nics) ∧
      ((st = [] ∧ ∃ ip, ips = [ip] ∧ ip ∉ r.nics) ∨ (st ≠ [] ∧ ips = st))) ∧
    (RInv r → RInv (r.addNIC st).1) ∧
    ((r.addNIC st).2 = .exhausted → RInv r →
      ∀ k, 1 ≤ k → k ≤ 254 → (base r + k ∈ r.nics ∨ r.contains (base r + k) = false)) := by
  unfold Router.addNIC
  split
  · rename_i hst
    have hst' : st = [] := by simpa using hst
    split
    · -- exhausted
      rename_i r1 hres
      obtain ⟨e1, e2, e3, e4, e5, _, e7⟩ := assign_spec 256 r r1 none hres
      refine ⟨⟨e2, e3, by simp [e1]⟩, by simp, ?_, ?_⟩
      · intro ⟨i1, i2⟩
        have := e7 rfl (by omega) i1
        refine ⟨by simp; omega, ?_⟩
        intro k h1 h2
        simp only at h2 ⊢
        rw [base_congr e2, e1, contains_congr e2 e3]
        by_cases hk : k ≤ r.lastID
        · exact i2 k h1 hk
        · exact Or.inl (this.2 k (by omega) (by omega))
      · intro _ ⟨i1, i2⟩ k h1 h2
        have := e7 rfl (by omega) i1
        by_cases hk : k ≤ r.lastID
        · exact i2 k h1 hk
        · exact Or.inl (this.2 k (by omega) h2)
    · rename_i r1 ip hres
      obtain ⟨e1, e2, e3, e4, e5, e6, _⟩ := assign_spec 256 r r1 (some ip) hres
      obtain ⟨a1, a2, a3, a4⟩ := e6 ip rfl
      have hinv1 : RInv r → r1.lastID ≤ 254 ∧
          ∀ k, 1 ≤ k → k < r1.lastID → (base r + k ∈ r.nics ∨ r.contains (base r + k) = false) := by
        intro ⟨i1, i2⟩
        refine ⟨e5 i1, ?_⟩
        intro k h1 h2
        by_cases hk : k ≤ r.lastID
        · exact i2 k h1 hk
        · exact Or.inl (a4 k (by omega) h2)
      split
      · rename_i r2 hreg
        obtain ⟨f1, f2, f3, f4, f5, _⟩ := register_spec [ip] r1 r2 true hreg
        have f5' := f5 rfl ip (by simp)
        refine ⟨⟨by simp [f1, e2], by simp [f2, e3], ?_⟩, ?_, ?_, by simp⟩
        · intro x hx; exact f4 x (by simpa [e1] using hx)
        · intro ips hips
          simp at hips
          subst hips
          refine ⟨?_, Or.inl ⟨hst', ip, rfl, a1⟩⟩
          intro x hx
          simp at hx
          subst hx
          exact ⟨by rw [← contains_congr e2 e3]; exact f5'.1, f5'.2⟩
        · intro hi
          obtain ⟨j1, j2⟩ := hinv1 hi
          refine ⟨by simp [f3]; exact j1, ?_⟩
          intro k h1 h2
          simp only [f3] at h2 ⊢
          rw [base_congr (f1.trans e2), contains_congr (f1.trans e2) (f2.trans e3)]
          by_cases hk : k = r1.lastID
          · left; rw [hk, ← a2]; exact f5'.2
          · rcases j2 k h1 (by omega) with h | h
            · exact Or.inl (f4 _ (by simpa [e1] using h))
            · exact Or.inr h
      · rename_i r2 hreg
        obtain ⟨f1, f2, f3, f4, _, f6⟩ := register_spec [ip] r1 r2 false hreg
        obtain ⟨x, hx, hxc⟩ := f6 rfl
        simp at hx
        subst hx
        refine ⟨⟨by simp [f1, e2], by simp [f2, e3], ?_⟩, by simp, ?_, by simp⟩
        · intro y hy; exact f4 y (by simpa [e1] using hy)
        · intro hi
          obtain ⟨j1, j2⟩ := hinv1 hi
          refine ⟨by simp [f3]; exact j1, ?_⟩
          intro k h1 h2
          simp only [f3] at h2 ⊢
          rw [base_congr (f1.trans e2), contains_congr (f1.trans e2) (f2.trans e3)]
          by_cases hk : k = r1.lastID
          · right; rw [hk, ← a2, ← contains_congr e2 e3]; exact hxc
          · rcases j2 k h1 (by omega) with h | h
            · exact Or.inl (f4 _ (by simpa [e1] using h))
            · exact Or.inr h
  · rename_i hst
    have hst' : st ≠ [] := by simpa using hst
    split
    · rename_i r2 hreg
      obtain ⟨f1, f2, f3, f4, f5, _⟩ := register_spec st r r2 true hreg
      refine ⟨⟨f1, f2, f4⟩, ?_, ?_, by simp⟩
      · intro ips hips
        simp at hips
        subst hips
        exact ⟨f5 rfl, Or.inr ⟨hst', rfl⟩⟩
      · intro ⟨i1, i2⟩
        refine ⟨by simp [f3]; exact i1, ?_⟩
        intro k h1 h2
        simp only [f3] at h2 ⊢
        rw [base_congr f1, contains_congr f1 f2]
        rcases i2 k h1 h2 with h | h
        · exact Or.inl (f4 _ h)
        · exact Or.inr h
    · rename_i r2 hreg
      obtain ⟨f1, f2, f3, f4, _, _⟩ := register_spec st r r2 false hreg
      refine ⟨⟨f1, f2, f4⟩, by simp, ?_, by simp⟩
      intro ⟨i1, i2⟩
      refine ⟨by simp [f3]; exact i1, ?_⟩
      intro k h1 h2
      simp only [f3] at h2 ⊢
      rw [base_congr f1, contains_congr f1 f2]
      rcases i2 k h1 h2 with h | h
      · exact Or.inl (f4 _ h)
      · exact Or.inr h

theorem auto_never_taken' (r : Router) (ip : Nat) (h : (r.addNIC []).2 = .ok [ip]) :
    ip ∉ r.nics ∧ r.contains ip = true := by
  obtain ⟨_, hB, _, _⟩ := addNIC_spec r []
  obtain ⟨b1, b2⟩ := hB [ip] h
  refine ⟨?_, (b1 ip (by simp)).1⟩
  rcases b2 with ⟨_, ip', e, hn⟩ | ⟨hne, _⟩
  · simp at e; subst e; exact hn
  · exact absurd rfl hne

theorem assigned_in_subnet' (r : Router) (st ips : List Nat) (h : (r.addNIC st).2 = .ok ips) :
    ∀ ip ∈ ips, r.contains ip = true := by
  obtain ⟨_, hB, _, _⟩ := addNIC_spec r st
  intro ip hip
  exact ((hB ips h).1 ip hip).1

theorem assigned_nodup : ∀ (hist : List (List Nat)) (r : Router), StaticsFresh r hist →
    (assigned r hist).Nodup ∧ ∀ x ∈ assigned r hist, x ∉ r.nics := by
  intro hist
  induction hist with
  | nil => intro r _; simp [assigned]
  | cons st rest ih =>
    intro r hf
    obtain ⟨hnd, hfresh, hrest⟩ := hf
    obtain ⟨ih1, ih2⟩ := ih _ hrest
    obtain ⟨⟨_, _, hsub⟩, hB, _, _⟩ := addNIC_spec r st
    unfold assigned
    cases hres : (r.addNIC st).2 with
    | ok ips =>
      simp only
      obtain ⟨b1, b2⟩ := hB ips hres
      have hipsnd : ips.Nodup ∧ ∀ x ∈ ips, x ∉ r.nics := by
        rcases b2 with ⟨_, ip', e, hn⟩ | ⟨_, e⟩
        · subst e; simp [hn]
        · subst e; exact ⟨hnd, hfresh⟩
      refine ⟨?_, ?_⟩
      · rw [List.nodup_append]
        refine ⟨hipsnd.1, ih1, ?_⟩
        intro a ha b hb hab
        subst hab
        exact ih2 a hb (b1 a ha).2
      · intro x hx
        rcases List.mem_append.mp hx with hx | hx
        · exact hipsnd.2 x hx
        · intro hxr; exact ih2 x hx (hsub x hxr)
    | exhausted =>
      simp only [List.nil_append]
      exact ⟨ih1, fun x hx hxr => ih2 x hx (hsub x hxr)⟩
    | beyondSubnet =>
      simp only [List.nil_append]
      exact ⟨ih1, fun x hx hxr => ih2 x hx (hsub x hxr)⟩

theorem rinv_run : ∀ (hist : List (List Nat)) (r : Router), RInv r → RInv (runRouter r hist) := by
  intro hist
  induction hist with
  | nil => intro r h; exact h
  | cons st rest ih =>
    intro r h
    unfold runRouter
    exact ih _ ((addNIC_spec r st).2.2.1 h)

theorem rinv_new (netIP bits : Nat) : RInv (Router.new netIP bits) := by
  refine ⟨by simp [Router.new], ?_⟩
  intro k h1 h2
  simp [Router.new] at h2
  omega

theorem exhaustion_is_real' (netIP bits : Nat) (hist : List (List Nat))
    (h : ((runRouter (Router.new netIP bits) hist).addNIC []).2 = .exhausted) :
    (absRouter (runRouter (Router.new netIP bits) hist)).exhaustedOk = true := by
  have hinv := rinv_run hist _ (rinv_new netIP bits)
  have hD := (addNIC_spec (runRouter (Router.new netIP bits) hist) []).2.2.2 h hinv
  generalize runRouter (Router.new netIP bits) hist = r at hD
  simp only [RouterS.exhaustedOk, RouterS.pool, List.all_eq_true, List.mem_map, List.mem_range]
  rintro ip ⟨k, hk, rfl⟩
  have := hD (k + 1) (by omega) (by omega)
  simp only [base, ← Nat.add_assoc] at this
  rcases this with h | h
  · simp [absRouter, h]
  · have : (absRouter r).inSubnet (r.netIP / 256 * 256 + k + 1) = false := h
    simp [absRouter] at this ⊢
    right
    simpa [absRouter] using this

end TV.Proofs.Addressing
