import TransportVerif.Link.Ring
/-
Pointwise characterisations of the copy primitives of the ring model (`copyAt`, `copyN`, `slice`)
and the header arithmetic.  All statements are in the simp normal form `a[i]?.getD 0`.
-/
namespace TV.Proofs.Ring
open TV TV.Ring

theorem setIfInBounds_get (a : Array UInt8) (j : Nat) (v : UInt8) (i : Nat) :
    (a.setIfInBounds j v)[i]?.getD 0 = if i = j ∧ j < a.size then v else a[i]?.getD 0 := by
  rw [Array.getElem?_setIfInBounds]
  grind

theorem copyAt_get (dst : Array UInt8) (off : Nat) (src : List UInt8) (i : Nat) :
    (copyAt dst off src)[i]?.getD 0 =
      if off ≤ i ∧ i < off + src.length ∧ i < dst.size then src[i - off]?.getD 0
      else dst[i]?.getD 0 := by
  induction src generalizing dst off with
  | nil => simp [copyAt]; omega
  | cons x xs ih =>
    unfold copyAt
    split
    · rw [ih, setIfInBounds_get]
      grind
    · grind

theorem copyN_get (dst : Array UInt8) (off : Nat) (src : Array UInt8) (lo k : Nat) (i : Nat) :
    (copyN dst off src lo k)[i]?.getD 0 =
      if off ≤ i ∧ i < off + k ∧ i < dst.size then src[lo + (i - off)]?.getD 0
      else dst[i]?.getD 0 := by
  induction k generalizing dst off lo with
  | zero => simp [copyN]; omega
  | succ k ih =>
    unfold copyN
    rw [ih, setIfInBounds_get, Array.getD_eq_getD_getElem?]
    grind

@[simp] theorem slice_length (a : Array UInt8) (lo hi : Nat) : (slice a lo hi).length = hi - lo := by
  simp [slice]

theorem slice_get (a : Array UInt8) (lo hi k : Nat) (h : k < hi - lo) :
    (slice a lo hi)[k]?.getD 0 = a[lo + k]?.getD 0 := by
  simp [slice, List.getElem?_range h]

/-- two byte lists of the same length that agree pointwise are equal -/
theorem list_ext_getD (l1 l2 : List UInt8) (hl : l1.length = l2.length)
    (h : ∀ k, k < l1.length → l1[k]?.getD 0 = l2[k]?.getD 0) : l1 = l2 := by
  apply List.ext_getElem hl
  intro i h1 h2
  have := h i h1
  simpa [List.getElem?_eq_getElem h1, List.getElem?_eq_getElem h2] using this

/-- the 2-byte big-endian header decodes to the length -/
theorem header_decode (n : Nat) (h : n < 65536) :
    (UInt8.ofNat (n >>> 8)).toNat * 256 + (UInt8.ofNat n).toNat = n := by
  simp only [UInt8.toNat_ofNat', Nat.shiftRight_eq_div_pow]
  omega

end TV.Proofs.Ring
