import TransportVerif.Proofs.NatBase
/-
NAT proofs, part 2: the state-independent facts (1:1 mode, `inbound_to_owner`), the constructor, and
the invariant consequences `ext_injective`, `ext_valid`.
-/
namespace TV.Proofs.Nat
open TV TV.Nat TV.NatLink

theorem one_to_one_outbound (n : NAT) (now : Int) (src dst : Addr) (h1 : n.one2one = true) :
    (n.translateOutbound now src dst) =
      (n, match paired n.localIPs n.mappedIPs src.ip with
          | some ip => .ok { ip := ip, port := src.port }
          | none => .drop) := by
  unfold NAT.translateOutbound
  simp only [h1, if_true]
  cases paired n.localIPs n.mappedIPs src.ip <;> rfl

theorem one_to_one_inbound (n : NAT) (now : Int) (src dst : Addr) (h1 : n.one2one = true) :
    (n.translateInbound now src dst) =
      (n, match paired n.mappedIPs n.localIPs dst.ip with
          | some ip => .ok { ip := ip, port := dst.port }
          | none => .noAssoc) := by
  unfold NAT.translateInbound
  simp only [h1, if_true]
  cases paired n.mappedIPs n.localIPs dst.ip <;> rfl

theorem inbound_to_owner (n : NAT) (now : Int) (src dst a : Addr) (h1 : n.one2one = false)
    (h : (n.translateInbound now src dst).2 = .ok a) :
    ∃ m, lookup n.inbound (dst.ip, dst.port) = some m ∧ a = m.loc ∧ ¬ now > m.expires ∧
      m.filters.contains (keyOf n.filtBeh src) = true := by
  unfold NAT.translateInbound NAT.findInbound at h
  simp only [h1, Bool.false_eq_true, if_false] at h
  cases hl : lookup n.inbound (dst.ip, dst.port) with
  | none => simp [hl] at h
  | some m =>
    simp only [hl] at h
    by_cases he : now > m.expires
    · simp [he] at h
    · simp only [he, if_false] at h
      by_cases hc : m.filters.contains (keyOf n.filtBeh src) = true
      · simp only [hc, if_true, InRes.ok.injEq] at h
        exact ⟨m, rfl, h.symm, he, hc⟩
      · rw [if_neg hc] at h; cases h

/-! ### the constructor -/

theorem new_napt {mb fb : Dep} {lt : Int} {mapped loc : List Nat} {n : NAT}
    (hn : NAT.new false mb fb lt mapped loc = some n) :
    n.one2one = false ∧ n = mk n [] 0 ∧ n.mappedIPs = mapped ∧
      n.lifetime = (if lt = 0 then defaultLifetime else lt) := by
  simp only [NAT.new, Bool.false_eq_true, if_false, Option.some.injEq] at hn
  subst hn
  exact ⟨rfl, rfl, rfl, rfl⟩

theorem new_one {mb fb : Dep} {lt : Int} {mapped loc : List Nat} {n : NAT}
    (hn : NAT.new true mb fb lt mapped loc = some n) :
    n.one2one = true ∧ n.outbound = [] ∧ n.inbound = [] := by
  simp only [NAT.new, if_true] at hn
  split at hn
  · cases hn
  · split at hn
    · cases hn
    · simp only [Option.some.injEq] at hn
      subst hn
      exact ⟨rfl, rfl, rfl⟩

def AS.init : AS := { L := [], c := 0, now := 0 }

theorem new_napt_conc {mb fb : Dep} {lt : Int} {mapped loc : List Nat} {n : NAT}
    (hn : NAT.new false mb fb lt mapped loc = some n) : (n, (0 : Int)) = conc n AS.init := by
  have := (new_napt hn).2.1
  simp only [conc, AS.init]
  rw [← this]

theorem init_wf (n : NAT) : WfS n AS.init := WfL.nil _ _

theorem runState_one (n : NAT) (h1 : n.one2one = true) (ops : List Op) :
    ∀ t : Int, (runState (n, t) ops).1 = n := by
  induction ops with
  | nil => intro t; rfl
  | cons op ops ih =>
    intro t
    cases op with
    | out a b =>
      simp only [runState, step]
      rw [one_to_one_outbound n t a b h1]
      exact ih t
    | inb a b =>
      simp only [runState, step]
      rw [one_to_one_inbound n t a b h1]
      exact ih t
    | adv dt =>
      simp only [runState, step]
      exact ih _

/-! ### `ext_injective`, `ext_valid` -/

theorem WfL.ports {ips c L} (hw : WfL ips c L) : (L.map (·.mappedPort)).Nodup :=
  nodup_map_of_inj (·.mappedPort) (·.id) L hw.ids (fun _ ha _ hb e => by rw [hw.eq_of_port ha hb e])

theorem ext_injective (mode : Bool) (mb fb : Dep) (lt : Int) (mapped loc : List Nat) (n : NAT) (ops : List Op)
    (hn : NAT.new mode mb fb lt mapped loc = some n) :
    let s := runState (n, 0) ops
    (s.1.inbound.map (fun e => e.2.mappedPort)).Nodup ∧ (s.1.outbound.map (fun e => e.2.mappedPort)).Nodup := by
  intro s
  cases mode with
  | true =>
    obtain ⟨h1, ho, hi⟩ := new_one hn
    have : s.1 = n := runState_one n h1 ops 0
    rw [this, ho, hi]
    simp
  | false =>
    have h1 := (new_napt hn).1
    have hs : s = conc n (aRun n AS.init ops) := by
      show runState (n, 0) ops = _
      rw [new_napt_conc hn, runState_conc n h1 ops _ (init_wf n)]
    have hw := aRun_wf n ops _ (init_wf n)
    rw [hs]
    simp only [conc, mk_inbound, mk_outbound, embI, embO, List.map_map]
    exact ⟨hw.ports, hw.ports⟩

theorem aOut_ok (n : NAT) (L : List Mapping) (c : Nat) (hw : WfL n.mappedIPs c L) (now : Int) (src dst a : Addr)
    (h : (aOut n L c now src dst).2 = .ok a) :
    n.mappedIPs.head? = some a.ip ∧ 49152 ≤ a.port ∧ a.port ≤ 65535 := by
  have key : ∀ m : Mapping, m.mappedPort = basePort + m.id → n.mappedIPs.head? = some m.mappedIP →
      portRes m = .ok a → n.mappedIPs.head? = some a.ip ∧ 49152 ≤ a.port ∧ a.port ≤ 65535 := by
    intro m hp hip hr
    unfold portRes at hr
    split at hr
    · cases hr
    · simp only [OutRes.ok.injEq] at hr
      subst hr
      simp only [basePort] at hp
      exact ⟨hip, by simp only; omega, by simp only; omega⟩
  unfold aOut at h
  cases hf : L.find? (fun m => decide (outKey m = (src, keyOf n.mapBeh dst)) && alive now m) with
  | some m0 =>
    obtain ⟨hm, _, _⟩ := find_and_some hf
    rw [hf] at h
    exact key m0 (hw.inv m0 hm).2.1 (hw.inv m0 hm).2.2 h
  | none =>
    rw [hf] at h
    cases hh : n.mappedIPs.head? with
    | none => rw [hh] at h; cases h
    | some ip0 =>
      rw [hh] at h
      rw [← hh]
      exact key _ rfl hh h

theorem ext_valid (mb fb : Dep) (lt : Int) (mapped loc : List Nat) (n : NAT) (ops : List Op)
    (hn : NAT.new false mb fb lt mapped loc = some n) (src dst a : Addr)
    (h : ((runState (n, 0) ops).1.translateOutbound (runState (n, 0) ops).2 src dst).2 = .ok a) :
    mapped.head? = some a.ip ∧ 49152 ≤ a.port ∧ a.port ≤ 65535 := by
  obtain ⟨h1, _, hmp, _⟩ := new_napt hn
  have hw := aRun_wf n ops _ (init_wf n)
  rw [new_napt_conc hn, runState_conc n h1 ops _ (init_wf n)] at h
  simp only [conc] at h
  rw [translateOutbound_mk n h1 _ _ hw] at h
  rw [← hmp]
  exact aOut_ok n _ _ hw _ src dst a h

end TV.Proofs.Nat
