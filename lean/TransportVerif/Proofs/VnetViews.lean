import TransportVerif.Proofs.VnetInv
/-
How the observable parts of a network (`queued`, `deliveredAll`, `dropped`, `sockAt`, `queueAt`) change
under the elementary updates.
-/
set_option autoImplicit false
namespace TV.Proofs.Vnet
open TV TV.Nat TV.Vnet TV.VnetLink

/-! ### lists -/

theorem flatMap_modify_perm {α β : Type} [DecidableEq β] (g : α → List β) (f : α → α) (e1 e2 : List β) :
    ∀ (l : List α) (k : Nat) (x : α), l[k]? = some x → (g (f x) ++ e1).Perm (g x ++ e2) →
      ((l.modify k f).flatMap g ++ e1).Perm (l.flatMap g ++ e2) := by
  intro l
  induction l with
  | nil => intro k x h; simp at h
  | cons a t ih =>
    intro k x h hp
    cases k with
    | zero =>
      simp only [List.getElem?_cons_zero, Option.some.injEq] at h
      subst h
      rw [List.perm_iff_count] at hp ⊢
      intro b
      have := hp b
      simp only [List.modify_zero_cons, List.flatMap_cons, List.count_append] at this ⊢
      omega
    | succ k =>
      simp only [List.getElem?_cons_succ] at h
      have := ih k x h hp
      rw [List.perm_iff_count] at this ⊢
      intro b
      have := this b
      simp only [List.modify_succ_cons, List.flatMap_cons, List.count_append] at this ⊢
      omega

theorem flatMap_modify_eq {α β : Type} (g : α → List β) (f : α → α) (hf : ∀ x, g (f x) = g x) :
    ∀ (l : List α) (k : Nat), (l.modify k f).flatMap g = l.flatMap g := by
  intro l
  induction l with
  | nil => intro k; simp
  | cons a t ih =>
    intro k
    cases k with
    | zero => simp [hf]
    | succ k => simp [ih k]

/-! ### `queued` -/

theorem queued_enq (n : Net) (r : Nat) (rt : RouterM) (c : Chunk) (hr : n.routers[r]? = some rt) :
    (queued (enq n r c)).Perm (queued n ++ [qHop r c]) := by
  have := flatMap_modify_perm RouterM.queue (fun rt => { rt with queue := rt.queue ++ [qHop r c] }) [] [qHop r c]
    n.routers r rt hr (by simp)
  simpa [queued, enq, Net.modRouter] using this

theorem queued_pop (n : Net) (r : Nat) (rt rt' : RouterM) (c : Chunk) (rest : List Chunk)
    (hr : n.routers[r]? = some rt) (hq : rt.queue = c :: rest) :
    (queued n).Perm (c :: queued (pop n r rt' rest)) := by
  have := flatMap_modify_perm RouterM.queue (fun _ => { rt' with queue := rest }) [c] []
    n.routers r rt hr (by simp [hq])
  have h2 : (queued (pop n r rt' rest) ++ [c]).Perm (queued n) := by
    simpa [queued, pop, Net.modRouter] using this
  exact h2.symm.trans (List.perm_append_singleton _ _)

theorem queued_QEq {n n' : Net} (h : QEq n n') : queued n' = queued n := by
  have : n'.routers.map RouterM.queue = n.routers.map RouterM.queue := by
    apply List.ext_getElem?
    intro i
    simp only [List.getElem?_map]
    exact h.queue i
  simp only [queued, List.flatMap_def]
  exact congrArg List.flatten this

theorem mem_queued {n : Net} {c : Chunk} : c ∈ queued n ↔ ∃ r l, queueAt n r = some l ∧ c ∈ l := by
  simp only [queued, List.mem_flatMap]
  constructor
  · rintro ⟨rt, h1, h2⟩
    obtain ⟨i, hi⟩ := List.mem_iff_getElem?.1 h1
    exact ⟨i, rt.queue, queueAt_of_eq hi, h2⟩
  · rintro ⟨r, l, h1, h2⟩
    obtain ⟨rt, h3, rfl⟩ := queueAt_some h1
    exact ⟨rt, List.mem_iff_getElem?.2 ⟨r, h3⟩, h2⟩

/-! ### `deliveredAll` -/

theorem deliveredAll_modSock_perm (n : Net) (h s : Nat) (f : SockM → SockM) (sk : SockM) (e1 e2 : List Chunk)
    (hs : sockAt n h s = some sk) (hp : ((f sk).delivered ++ e1).Perm (sk.delivered ++ e2)) :
    (deliveredAll (modSock n h s f) ++ e1).Perm (deliveredAll n ++ e2) := by
  obtain ⟨hm, h1, h2⟩ := sockAt_some hs
  have := flatMap_modify_perm (fun hm : HostM => hm.socks.flatMap (·.delivered))
    (fun hm => { hm with socks := hm.socks.modify s f }) e1 e2 n.hosts h hm h1
    (flatMap_modify_perm (·.delivered) f e1 e2 hm.socks s sk h2 hp)
  simpa [deliveredAll, modSock, Net.modHost] using this

theorem deliveredAll_handOver (n : Net) (h s : Nat) (sk : SockM) (c : Chunk) (hs : sockAt n h s = some sk) :
    (deliveredAll (handOver n h s c)).Perm (deliveredAll n ++ [iHop h s c]) := by
  have := deliveredAll_modSock_perm n h s
    (fun sk => { sk with inbox := sk.inbox ++ [iHop h s c], delivered := sk.delivered ++ [iHop h s c] }) sk [] [iHop h s c] hs
    (by simp)
  simpa [handOver] using this

theorem deliveredAll_modSock_eq (n : Net) (h s : Nat) (f : SockM → SockM) (hf : ∀ sk, (f sk).delivered = sk.delivered) :
    deliveredAll (modSock n h s f) = deliveredAll n := by
  simp only [deliveredAll, modSock, Net.modHost]
  apply flatMap_modify_eq
  intro hm
  exact flatMap_modify_eq (·.delivered) f hf hm.socks s

theorem deliveredAll_addSock (n : Net) (h ip port : Nat) (remote : Option Addr) :
    deliveredAll (addSock n h ip port remote) = deliveredAll n := by
  simp only [deliveredAll, addSock, Net.modHost]
  apply flatMap_modify_eq
  intro hm
  simp

theorem mem_deliveredAll {n : Net} {c : Chunk} :
    c ∈ deliveredAll n ↔ ∃ h s sk, sockAt n h s = some sk ∧ c ∈ sk.delivered := by
  simp only [deliveredAll, List.mem_flatMap]
  constructor
  · rintro ⟨hm, h1, sk, h2, h3⟩
    obtain ⟨i, hi⟩ := List.mem_iff_getElem?.1 h1
    obtain ⟨j, hj⟩ := List.mem_iff_getElem?.1 h2
    exact ⟨i, j, sk, sockAt_of_eq hi hj, h3⟩
  · rintro ⟨h, s, sk, h1, h2⟩
    obtain ⟨hm, h3, h4⟩ := sockAt_some h1
    exact ⟨hm, List.mem_iff_getElem?.2 ⟨h, h3⟩, sk, List.mem_iff_getElem?.2 ⟨s, h4⟩, h2⟩

/-! ### `sockAt` -/

theorem sockAt_QEq {n n' : Net} (h : QEq n n') (hh s : Nat) : sockAt n' hh s = sockAt n hh s := by
  simp only [sockAt, h.hosts]

theorem deliveredAll_QEq {n n' : Net} (h : QEq n n') : deliveredAll n' = deliveredAll n := by
  simp only [deliveredAll, h.hosts]

theorem sockAt_addSock (n : Net) (h ip port : Nat) (remote : Option Addr) (hm : HostM) (hh : n.hosts[h]? = some hm)
    (h' s' : Nat) :
    sockAt (addSock n h ip port remote) h' s' =
      if h' = h ∧ s' = hm.socks.length then some { ip, port, remote, inbox := [], delivered := [], closed := false }
      else sockAt n h' s' := by
  simp only [sockAt, addSock, Net.modHost, List.getElem?_modify]
  by_cases e : h = h'
  · subst e
    simp only [hh, Option.map_eq_map, Option.map_some, if_true, Option.bind_some, true_and]
    by_cases e2 : s' = hm.socks.length
    · subst e2; simp
    · simp only [e2, if_false]
      by_cases e3 : s' < hm.socks.length
      · rw [List.getElem?_append_left e3]
      · rw [List.getElem?_eq_none (by simp; omega), List.getElem?_eq_none (by omega)]
  · have : ¬ (h' = h ∧ s' = hm.socks.length) := fun x => e x.1.symm
    simp only [this, if_false]
    cases n.hosts[h']? <;> simp [e]

end TV.Proofs.Vnet
