import TransportVerif.Link.ListenerLife
/-
C12 proofs, part 1: the quantities the invariant talks about (as functions of the thread list), how
they behave under the three ways a step changes the thread list (replace the pc of one thread, wake
the parked acceptors, wake the `readWG` waiters), and normal forms for `setPc` and `cascade`.
-/
namespace TV.Proofs.ListenerLife
open TV TV.ListenerLife TV.LifeLink

/-- some closer of connection `c` has passed its first step -/
def started (ths : List Th) (c : Nat) : Bool := ths.any (fun th => th.role = .ccloser c ∧ th.pc ≠ .start)

def takenOf (th : Th) : Option Nat := match th.pc with | .done (.conn c) => some c | _ => none

/-- connections returned by the Accept calls of the phase -/
def taken (ths : List Th) : List Nat := ths.filterMap takenOf

/-- the listener closer has dropped the listener's reference -/
def relL (ths : List Th) : Bool :=
  ths.any (fun th => th.role = .lcloser ∧ (th.pc = .atWait ∨ th.pc = .parkedWait ∨ th.pc = .done .ok))

/-- the listener closer has passed its first step -/
def lstarted (ths : List Th) : Bool := ths.any (fun th => th.role = .lcloser ∧ th.pc ≠ .start)

/-- accepted connections (ids below `a`) whose closer has not started -/
def openCnt (a : Nat) (ths : List Th) : Nat := (List.range a).countP (fun c => !started ths c)

theorem listenerRef_eq (s : Sys) : listenerRef s = if relL s.ths then 0 else 1 := rfl

theorem openHeld_eq (a : Nat) (s : Sys) :
    openHeld a s = ((List.range a ++ taken s.ths).filter (fun c => !started s.ths c)).length := rfl

/-! ### waking parked threads -/

def wkPc (bs bw : Bool) : Pc → Pc
  | .parkedSelect => if bs then .done .err else .parkedSelect
  | .parkedWait => if bw then .done .ok else .parkedWait
  | p => p

def wk (bs bw : Bool) (th : Th) : Th := ⟨th.role, wkPc bs bw th.pc⟩

@[simp] theorem wk_role (bs bw : Bool) (th : Th) : (wk bs bw th).role = th.role := rfl
@[simp] theorem wk_pc (bs bw : Bool) (th : Th) : (wk bs bw th).pc = wkPc bs bw th.pc := rfl

theorem wk_ff (th : Th) : wk false false th = th := by
  cases th with | mk r p => cases p <;> rfl

theorem map_wk_ff (l : List Th) : l.map (wk false false) = l := by
  induction l with
  | nil => rfl
  | cons x l ih => simp [wk_ff, ih]

theorem wakeSel_eq : (fun (th : Th) => if th.pc = Pc.parkedSelect then { th with pc := Pc.done .err } else th) = wk true false := by
  funext th
  cases th with | mk r p => cases p <;> simp [wk, wkPc]

theorem wakeWait_eq : (fun (th : Th) => if th.pc = Pc.parkedWait then { th with pc := Pc.done .ok } else th) = wk false true := by
  funext th
  cases th with | mk r p => cases p <;> simp [wk, wkPc]

theorem wk_comp (th : Th) : wk false true (wk true false th) = wk true true th := by
  cases th with | mk r p => cases p <;> simp [wk, wkPc]

theorem wkPc_cases (bs bw : Bool) (p : Pc) :
    (wkPc bs bw p = p) ∨ (bs = true ∧ p = .parkedSelect ∧ wkPc bs bw p = .done .err) ∨
      (bw = true ∧ p = .parkedWait ∧ wkPc bs bw p = .done .ok) := by
  cases p <;> cases bs <;> cases bw <;> simp [wkPc]

theorem wkPc_parkedWait (bs bw : Bool) (p : Pc) : wkPc bs bw p = .parkedWait ↔ (p = .parkedWait ∧ bw = false) := by
  cases p <;> cases bs <;> cases bw <;> simp [wkPc]

theorem wkPc_parkedSelect (bs bw : Bool) (p : Pc) : wkPc bs bw p = .parkedSelect ↔ (p = .parkedSelect ∧ bs = false) := by
  cases p <;> cases bs <;> cases bw <;> simp [wkPc]

theorem wkPc_start (bs bw : Bool) (p : Pc) : wkPc bs bw p = .start ↔ p = .start := by
  cases p <;> cases bs <;> cases bw <;> simp [wkPc]

theorem wkPc_atWait (bs bw : Bool) (p : Pc) : wkPc bs bw p = .atWait ↔ p = .atWait := by
  cases p <;> cases bs <;> cases bw <;> simp [wkPc]

theorem wkPc_conn (bs bw : Bool) (p : Pc) (c : Nat) : wkPc bs bw p = .done (.conn c) ↔ p = .done (.conn c) := by
  cases p <;> cases bs <;> cases bw <;> simp [wkPc]

@[simp] theorem started_map_wk (bs bw : Bool) (l : List Th) (c : Nat) : started (l.map (wk bs bw)) c = started l c := by
  induction l with
  | nil => rfl
  | cons x l ih =>
    simp only [started, List.map_cons, List.any_cons] at ih ⊢
    rw [ih]; congr 1
    simp [wkPc_start]

@[simp] theorem taken_map_wk (bs bw : Bool) (l : List Th) : taken (l.map (wk bs bw)) = taken l := by
  induction l with
  | nil => rfl
  | cons x l ih =>
    have : takenOf (wk bs bw x) = takenOf x := by
      cases x with | mk r p => cases p <;> cases bs <;> cases bw <;> simp [takenOf, wk, wkPc]
    simp only [taken, List.map_cons, List.filterMap_cons, this] at ih ⊢
    rw [ih]

@[simp] theorem relL_map_wk (bs bw : Bool) (l : List Th) : relL (l.map (wk bs bw)) = relL l := by
  induction l with
  | nil => rfl
  | cons x l ih =>
    simp only [relL, List.map_cons, List.any_cons] at ih ⊢
    rw [ih]; congr 1
    cases x with | mk r p => cases p <;> cases bs <;> cases bw <;> simp [wk, wkPc]

@[simp] theorem lstarted_map_wk (bs bw : Bool) (l : List Th) : lstarted (l.map (wk bs bw)) = lstarted l := by
  induction l with
  | nil => rfl
  | cons x l ih =>
    simp only [lstarted, List.map_cons, List.any_cons] at ih ⊢
    rw [ih]; congr 1
    simp [wkPc_start]

@[simp] theorem roles_map_wk (bs bw : Bool) (l : List Th) : (l.map (wk bs bw)).map (·.role) = l.map (·.role) := by
  simp [List.map_map, Function.comp_def]

/-! ### the quantities on `l1 ++ th :: l2` -/

@[simp] theorem started_nil (c : Nat) : started [] c = false := rfl
@[simp] theorem taken_nil : taken [] = [] := rfl
@[simp] theorem relL_nil : relL [] = false := rfl
@[simp] theorem lstarted_nil : lstarted [] = false := rfl

theorem started_append (l1 l2 : List Th) (c : Nat) : started (l1 ++ l2) c = (started l1 c || started l2 c) := by
  simp [started]
theorem started_cons (th : Th) (l : List Th) (c : Nat) :
    started (th :: l) c = (decide (th.role = .ccloser c ∧ th.pc ≠ .start) || started l c) := by
  simp [started]
theorem taken_append (l1 l2 : List Th) : taken (l1 ++ l2) = taken l1 ++ taken l2 := by
  simp [taken]
theorem taken_cons (th : Th) (l : List Th) : taken (th :: l) = (takenOf th).toList ++ taken l := by
  simp only [taken, List.filterMap_cons]
  cases takenOf th <;> simp
theorem relL_append (l1 l2 : List Th) : relL (l1 ++ l2) = (relL l1 || relL l2) := by
  simp [relL]
theorem relL_cons (th : Th) (l : List Th) :
    relL (th :: l) = (decide (th.role = .lcloser ∧ (th.pc = .atWait ∨ th.pc = .parkedWait ∨ th.pc = .done .ok)) || relL l) := by
  simp [relL]
theorem lstarted_append (l1 l2 : List Th) : lstarted (l1 ++ l2) = (lstarted l1 || lstarted l2) := by
  simp [lstarted]
theorem lstarted_cons (th : Th) (l : List Th) :
    lstarted (th :: l) = (decide (th.role = .lcloser ∧ th.pc ≠ .start) || lstarted l) := by
  simp [lstarted]

theorem started_true_iff (l : List Th) (c : Nat) :
    started l c = true ↔ ∃ th ∈ l, th.role = .ccloser c ∧ th.pc ≠ .start := by
  simp [started]

theorem started_false_of_norole (l : List Th) (c : Nat) (h : ∀ th ∈ l, th.role ≠ .ccloser c) : started l c = false := by
  cases hs : started l c with
  | false => rfl
  | true =>
    obtain ⟨th, hm, hr, _⟩ := (started_true_iff l c).1 hs
    exact absurd hr (h th hm)

theorem relL_false_of_norole (l : List Th) (h : ∀ th ∈ l, th.role ≠ .lcloser) : relL l = false := by
  cases hs : relL l with
  | false => rfl
  | true =>
    simp only [relL, List.any_eq_true, decide_eq_true_eq] at hs
    obtain ⟨th, hm, hr, _⟩ := hs
    exact absurd hr (h th hm)

theorem mem_taken (l : List Th) (c : Nat) : c ∈ taken l ↔ ∃ th ∈ l, th.pc = .done (.conn c) := by
  simp only [taken, List.mem_filterMap]
  constructor
  · rintro ⟨th, hm, ht⟩
    refine ⟨th, hm, ?_⟩
    cases th with | mk r p =>
    cases p with
    | done r => cases r <;> simp_all [takenOf]
    | _ => simp [takenOf] at ht
  · rintro ⟨th, hm, ht⟩
    exact ⟨th, hm, by simp [takenOf, ht]⟩

/-! ### counting over `range a` -/

theorem countP_range_congr (p q : Nat → Bool) (n : Nat) (h : ∀ c, c < n → p c = q c) :
    (List.range n).countP p = (List.range n).countP q := by
  apply List.countP_congr
  intro c hc
  rw [List.mem_range] at hc
  rw [h c hc]

theorem countP_range_flip (p q : Nat → Bool) (c0 : Nat) (hp : p c0 = true) (hq : q c0 = false)
    (h : ∀ c, c ≠ c0 → p c = q c) (n : Nat) :
    (List.range n).countP p = (List.range n).countP q + (if c0 < n then 1 else 0) := by
  induction n with
  | zero => simp
  | succ n ih =>
    rw [List.range_succ, List.countP_append, List.countP_append, ih]
    by_cases hn : n = c0
    · subst hn
      simp [hp, hq]
    · have := h n hn
      simp only [List.countP_singleton, this]
      by_cases h1 : c0 < n
      · have h2 : c0 < n + 1 := by omega
        rw [if_pos h1, if_pos h2]; omega
      · have h2 : ¬ c0 < n + 1 := by omega
        rw [if_neg h1, if_neg h2]; omega

theorem openCnt_congr (a : Nat) (l l' : List Th) (h : ∀ c, started l' c = started l c) : openCnt a l' = openCnt a l := by
  unfold openCnt
  apply countP_range_congr
  intro c _
  rw [h c]

theorem openCnt_flip (a : Nat) (l l' : List Th) (c0 : Nat) (h0 : c0 < a) (hb : started l c0 = false)
    (ha : started l' c0 = true) (h : ∀ c, c ≠ c0 → started l' c = started l c) :
    openCnt a l = openCnt a l' + 1 := by
  unfold openCnt
  rw [countP_range_flip (fun c => !started l c) (fun c => !started l' c) c0 (by simp [hb]) (by simp [ha])
    (by intro c hc; simp [h c hc]) a]
  simp [h0]

/-! ### one thread's pc replaced; cascade -/

theorem split_at (l : List Th) (t : Nat) (th : Th) (h : l[t]? = some th) :
    ∃ l1 l2, l = l1 ++ th :: l2 ∧ l1.length = t := by
  induction l generalizing t with
  | nil => simp at h
  | cons x l ih =>
    cases t with
    | zero =>
      simp at h
      exact ⟨[], l, by simp [h], rfl⟩
    | succ t =>
      simp at h
      obtain ⟨l1, l2, hl, hlen⟩ := ih t h
      exact ⟨x :: l1, l2, by simp [hl], by simp [hlen]⟩

theorem mapIdx_at (l1 l2 : List Th) (th : Th) (g : Th → Th) (n : Nat) (hn : n = l1.length) :
    (l1 ++ th :: l2).mapIdx (fun i x => if i = n then g x else x) = l1 ++ g th :: l2 := by
  subst hn
  induction l1 with
  | nil =>
    simp only [List.nil_append, List.mapIdx_cons, List.length_nil]
    congr 1
    have : (fun (i : Nat) (x : Th) => if i + 1 = 0 then g x else x) = fun _ x => x := by
      funext i x; simp
    rw [this]
    apply List.ext_getElem?; intro i; simp [List.getElem?_mapIdx]
  | cons y l1 ih =>
    simp only [List.cons_append, List.mapIdx_cons, List.length_cons]
    have : (fun (i : Nat) (x : Th) => if i + 1 = l1.length + 1 then g x else x) = fun i x => if i = l1.length then g x else x := by
      funext i x; simp
    rw [this, ih]
    simp

theorem setPc_eq (s : Sys) (l1 l2 : List Th) (th : Th) (hs : s.ths = l1 ++ th :: l2) (n : Nat) (hn : n = l1.length) (pc : Pc) :
    s.setPc n pc = { s with ths := l1 ++ ⟨th.role, pc⟩ :: l2 } := by
  unfold Sys.setPc
  rw [hs, mapIdx_at l1 l2 th (fun th => { th with pc := pc }) n hn]

theorem cascade_eq (s : Sys) :
    s.cascade = { s with sockClosed := s.sockClosed || (decide (s.wg = 0) && !s.sockClosed),
                         readWG := if (decide (s.wg = 0) && !s.sockClosed) = true then 0 else s.readWG,
                         ths := s.ths.map (wk (decide (s.wg = 0) && !s.sockClosed) (decide (s.wg = 0) && !s.sockClosed)) } := by
  unfold Sys.cascade
  by_cases h : s.wg = 0 ∧ (!s.sockClosed) = true
  · have hb : (decide (s.wg = 0) && !s.sockClosed) = true := by simp [h.1, h.2]
    rw [if_pos h, hb]
    simp only [wakeSel_eq, wakeWait_eq, List.map_map, Bool.or_true, if_true]
    congr 1
    apply List.map_congr_left
    intro th _
    simp [wk_comp]
  · have hb : (decide (s.wg = 0) && !s.sockClosed) = false := by
      cases h1 : decide (s.wg = 0) <;> cases h2 : s.sockClosed <;> simp_all
    rw [if_neg h, hb]
    simp [map_wk_ff]

end TV.Proofs.ListenerLife
