import TransportVerif.Link.ListenerLife
/-
C12 proofs, part 1: the quantities the invariant talks about (as functions of the thread list), how
they behave under the three ways a step changes the thread list (replace the pc of one thread, wake
the parked acceptors, wake the `readWG` waiters), and normal forms for `setPc` and `cascade`.
-/
namespace TV.Proofs.ListenerLife
open TV TV.ListenerLife TV.LifeLink

/-- some closer of connection `c` has passed its first step -/
def started (ths : List Th) (c : Nat) : Bool := ths.any (fun th => th.role = .ccloser c ∧ th.pc ≠ .start)

def takenOf (th : Th) : Option Nat := match th.pc with | .done (.conn c) => some c | _ => none

/-- connections returned by the Accept calls of the phase -/
def taken (ths : List Th) : List Nat := ths.filterMap takenOf

/-- the listener closer has dropped the listener's reference -/
def relL (ths : List Th) : Bool :=
  ths.any (fun th => th.role = .lcloser ∧ (th.pc = .atWait ∨ th.pc = .parkedWait ∨ th.pc = .done .ok))

/-- the listener closer has passed its first step -/
def lstarted (ths : List Th) : Bool := ths.any (fun th => th.role = .lcloser ∧ th.pc ≠ .start)

/-- accepted connections (ids below `a`) whose closer has not started -/
def openCnt (a : Nat) (ths : List Th) : Nat := (List.range a).countP (fun c => !started ths c)

theorem listenerRef_eq (s : Sys) : listenerRef s = if relL s.ths then 0 else 1 := rfl

/-! ### closers of connections accepted during the phase -/

def accOf (th : Th) : Option Nat :=
  match th.role, th.pc with
  | .acceptor, .done (.conn c) => some c
  | _, _ => none

/-- the connection the Accept of thread `i` has returned (`Sys.accepted?` on the thread list) -/
def accL (ths : List Th) (i : Nat) : Option Nat := (ths[i]?).bind accOf

theorem accepted?_eq (s : Sys) (i : Nat) : s.accepted? i = accL s.ths i := by
  unfold Sys.accepted? accL
  cases s.ths[i]? <;> rfl

/-- the connection a started `acloser` is closing -/
def tgt (ths : List Th) (th : Th) : Option Nat :=
  match th.role with
  | .acloser i => if th.pc = .start then none else accL ths i
  | _ => none

/-- some `acloser` has started to close `c` -/
def tgtd (ths : List Th) (c : Nat) : Bool := ths.any (fun th => tgt ths th == some c)

def isAcl : Role → Bool
  | .acloser _ => true
  | _ => false

/-- number of `acloser`s past their first step -/
def astarted (ths : List Th) : Nat := ths.countP (fun th => isAcl th.role && th.pc != .start)

theorem any_or {α : Type} (l : List α) (p q : α → Bool) : l.any (fun x => p x || q x) = (l.any p || l.any q) := by
  induction l with
  | nil => rfl
  | cons x l ih =>
    simp only [List.any_cons, ih]
    cases p x <;> cases q x <;> simp

theorem closes_eq (s : Sys) (th : Th) (c : Nat) :
    closes s th c = (decide (th.role = .ccloser c ∧ th.pc ≠ .start) || (tgt s.ths th == some c)) := by
  cases th with | mk r p =>
  cases r with
  | acloser i =>
    by_cases hp : p = .start <;> simp [closes, tgt, accepted?_eq, hp]
  | ccloser c' =>
    by_cases hc : c' = c <;> by_cases hp : p = .start <;> simp [closes, tgt, hc, hp]
  | _ => simp [closes, tgt]

theorem any_closes_eq (s : Sys) (c : Nat) : s.ths.any (fun th => closes s th c) = (started s.ths c || tgtd s.ths c) := by
  unfold started tgtd
  rw [← any_or]
  congr 1
  funext th
  exact closes_eq s th c

theorem openHeld_eq (a : Nat) (s : Sys) :
    openHeld a s = ((List.range a ++ taken s.ths).filter (fun c => !(started s.ths c || tgtd s.ths c))).length := by
  unfold openHeld
  simp only [any_closes_eq]
  rfl

/-! ### waking parked threads -/

def wkPc (bs bw : Bool) : Pc → Pc
  | .parkedSelect => if bs then .done .err else .parkedSelect
  | .parkedWait => if bw then .done .ok else .parkedWait
  | p => p

def wk (bs bw : Bool) (th : Th) : Th := ⟨th.role, wkPc bs bw th.pc⟩

@[simp] theorem wk_role (bs bw : Bool) (th : Th) : (wk bs bw th).role = th.role := rfl
@[simp] theorem wk_pc (bs bw : Bool) (th : Th) : (wk bs bw th).pc = wkPc bs bw th.pc := rfl

theorem wk_ff (th : Th) : wk false false th = th := by
  cases th with | mk r p => cases p <;> rfl

theorem map_wk_ff (l : List Th) : l.map (wk false false) = l := by
  induction l with
  | nil => rfl
  | cons x l ih => simp [wk_ff, ih]

theorem wakeSel_eq : (fun (th : Th) => if th.pc = Pc.parkedSelect then { th with pc := Pc.done .err } else th) = wk true false := by
  funext th
  cases th with | mk r p => cases p <;> simp [wk, wkPc]

theorem wakeWait_eq : (fun (th : Th) => if th.pc = Pc.parkedWait then { th with pc := Pc.done .ok } else th) = wk false true := by
  funext th
  cases th with | mk r p => cases p <;> simp [wk, wkPc]

theorem wk_comp (th : Th) : wk false true (wk true false th) = wk true true th := by
  cases th with | mk r p => cases p <;> simp [wk, wkPc]

theorem wkPc_cases (bs bw : Bool) (p : Pc) :
    (wkPc bs bw p = p) ∨ (bs = true ∧ p = .parkedSelect ∧ wkPc bs bw p = .done .err) ∨
      (bw = true ∧ p = .parkedWait ∧ wkPc bs bw p = .done .ok) := by
  cases p <;> cases bs <;> cases bw <;> simp [wkPc]

theorem wkPc_parkedWait (bs bw : Bool) (p : Pc) : wkPc bs bw p = .parkedWait ↔ (p = .parkedWait ∧ bw = false) := by
  cases p <;> cases bs <;> cases bw <;> simp [wkPc]

theorem wkPc_parkedSelect (bs bw : Bool) (p : Pc) : wkPc bs bw p = .parkedSelect ↔ (p = .parkedSelect ∧ bs = false) := by
  cases p <;> cases bs <;> cases bw <;> simp [wkPc]

theorem wkPc_start (bs bw : Bool) (p : Pc) : wkPc bs bw p = .start ↔ p = .start := by
  cases p <;> cases bs <;> cases bw <;> simp [wkPc]

theorem wkPc_atWait (bs bw : Bool) (p : Pc) : wkPc bs bw p = .atWait ↔ p = .atWait := by
  cases p <;> cases bs <;> cases bw <;> simp [wkPc]

theorem wkPc_conn (bs bw : Bool) (p : Pc) (c : Nat) : wkPc bs bw p = .done (.conn c) ↔ p = .done (.conn c) := by
  cases p <;> cases bs <;> cases bw <;> simp [wkPc]

@[simp] theorem started_map_wk (bs bw : Bool) (l : List Th) (c : Nat) : started (l.map (wk bs bw)) c = started l c := by
  induction l with
  | nil => rfl
  | cons x l ih =>
    simp only [started, List.map_cons, List.any_cons] at ih ⊢
    rw [ih]; congr 1
    simp [wkPc_start]

@[simp] theorem taken_map_wk (bs bw : Bool) (l : List Th) : taken (l.map (wk bs bw)) = taken l := by
  induction l with
  | nil => rfl
  | cons x l ih =>
    have : takenOf (wk bs bw x) = takenOf x := by
      cases x with | mk r p => cases p <;> cases bs <;> cases bw <;> simp [takenOf, wk, wkPc]
    simp only [taken, List.map_cons, List.filterMap_cons, this] at ih ⊢
    rw [ih]

@[simp] theorem relL_map_wk (bs bw : Bool) (l : List Th) : relL (l.map (wk bs bw)) = relL l := by
  induction l with
  | nil => rfl
  | cons x l ih =>
    simp only [relL, List.map_cons, List.any_cons] at ih ⊢
    rw [ih]; congr 1
    cases x with | mk r p => cases p <;> cases bs <;> cases bw <;> simp [wk, wkPc]

@[simp] theorem lstarted_map_wk (bs bw : Bool) (l : List Th) : lstarted (l.map (wk bs bw)) = lstarted l := by
  induction l with
  | nil => rfl
  | cons x l ih =>
    simp only [lstarted, List.map_cons, List.any_cons] at ih ⊢
    rw [ih]; congr 1
    simp [wkPc_start]

@[simp] theorem roles_map_wk (bs bw : Bool) (l : List Th) : (l.map (wk bs bw)).map (·.role) = l.map (·.role) := by
  simp [List.map_map, Function.comp_def]

/-! ### the quantities on `l1 ++ th :: l2` -/

@[simp] theorem started_nil (c : Nat) : started [] c = false := rfl
@[simp] theorem taken_nil : taken [] = [] := rfl
@[simp] theorem relL_nil : relL [] = false := rfl
@[simp] theorem lstarted_nil : lstarted [] = false := rfl

theorem started_append (l1 l2 : List Th) (c : Nat) : started (l1 ++ l2) c = (started l1 c || started l2 c) := by
  simp [started]
theorem started_cons (th : Th) (l : List Th) (c : Nat) :
    started (th :: l) c = (decide (th.role = .ccloser c ∧ th.pc ≠ .start) || started l c) := by
  simp [started]
theorem taken_append (l1 l2 : List Th) : taken (l1 ++ l2) = taken l1 ++ taken l2 := by
  simp [taken]
theorem taken_cons (th : Th) (l : List Th) : taken (th :: l) = (takenOf th).toList ++ taken l := by
  simp only [taken, List.filterMap_cons]
  cases takenOf th <;> simp
theorem relL_append (l1 l2 : List Th) : relL (l1 ++ l2) = (relL l1 || relL l2) := by
  simp [relL]
theorem relL_cons (th : Th) (l : List Th) :
    relL (th :: l) = (decide (th.role = .lcloser ∧ (th.pc = .atWait ∨ th.pc = .parkedWait ∨ th.pc = .done .ok)) || relL l) := by
  simp [relL]
theorem lstarted_append (l1 l2 : List Th) : lstarted (l1 ++ l2) = (lstarted l1 || lstarted l2) := by
  simp [lstarted]
theorem lstarted_cons (th : Th) (l : List Th) :
    lstarted (th :: l) = (decide (th.role = .lcloser ∧ th.pc ≠ .start) || lstarted l) := by
  simp [lstarted]

theorem started_true_iff (l : List Th) (c : Nat) :
    started l c = true ↔ ∃ th ∈ l, th.role = .ccloser c ∧ th.pc ≠ .start := by
  simp [started]

theorem started_false_of_norole (l : List Th) (c : Nat) (h : ∀ th ∈ l, th.role ≠ .ccloser c) : started l c = false := by
  cases hs : started l c with
  | false => rfl
  | true =>
    obtain ⟨th, hm, hr, _⟩ := (started_true_iff l c).1 hs
    exact absurd hr (h th hm)

theorem relL_false_of_norole (l : List Th) (h : ∀ th ∈ l, th.role ≠ .lcloser) : relL l = false := by
  cases hs : relL l with
  | false => rfl
  | true =>
    simp only [relL, List.any_eq_true, decide_eq_true_eq] at hs
    obtain ⟨th, hm, hr, _⟩ := hs
    exact absurd hr (h th hm)

theorem mem_taken (l : List Th) (c : Nat) : c ∈ taken l ↔ ∃ th ∈ l, th.pc = .done (.conn c) := by
  simp only [taken, List.mem_filterMap]
  constructor
  · rintro ⟨th, hm, ht⟩
    refine ⟨th, hm, ?_⟩
    cases th with | mk r p =>
    cases p with
    | done r => cases r <;> simp_all [takenOf]
    | _ => simp [takenOf] at ht
  · rintro ⟨th, hm, ht⟩
    exact ⟨th, hm, by simp [takenOf, ht]⟩

theorem takenOf_some (th : Th) (c : Nat) : takenOf th = some c ↔ th.pc = .done (.conn c) := by
  cases th with | mk r p =>
  cases p with
  | done r => cases r <;> simp [takenOf]
  | _ => simp [takenOf]

/-! ### counting over `range a` -/

theorem countP_range_congr (p q : Nat → Bool) (n : Nat) (h : ∀ c, c < n → p c = q c) :
    (List.range n).countP p = (List.range n).countP q := by
  apply List.countP_congr
  intro c hc
  rw [List.mem_range] at hc
  rw [h c hc]

theorem countP_range_flip (p q : Nat → Bool) (c0 : Nat) (hp : p c0 = true) (hq : q c0 = false)
    (h : ∀ c, c ≠ c0 → p c = q c) (n : Nat) :
    (List.range n).countP p = (List.range n).countP q + (if c0 < n then 1 else 0) := by
  induction n with
  | zero => simp
  | succ n ih =>
    rw [List.range_succ, List.countP_append, List.countP_append, ih]
    by_cases hn : n = c0
    · subst hn
      simp [hp, hq]
    · have := h n hn
      simp only [List.countP_singleton, this]
      by_cases h1 : c0 < n
      · have h2 : c0 < n + 1 := by omega
        rw [if_pos h1, if_pos h2]; omega
      · have h2 : ¬ c0 < n + 1 := by omega
        rw [if_neg h1, if_neg h2]; omega

theorem openCnt_congr (a : Nat) (l l' : List Th) (h : ∀ c, started l' c = started l c) : openCnt a l' = openCnt a l := by
  unfold openCnt
  apply countP_range_congr
  intro c _
  rw [h c]

theorem openCnt_flip (a : Nat) (l l' : List Th) (c0 : Nat) (h0 : c0 < a) (hb : started l c0 = false)
    (ha : started l' c0 = true) (h : ∀ c, c ≠ c0 → started l' c = started l c) :
    openCnt a l = openCnt a l' + 1 := by
  unfold openCnt
  rw [countP_range_flip (fun c => !started l c) (fun c => !started l' c) c0 (by simp [hb]) (by simp [ha])
    (by intro c hc; simp [h c hc]) a]
  simp [h0]

/-! ### one thread's pc replaced; cascade -/

theorem split_at (l : List Th) (t : Nat) (th : Th) (h : l[t]? = some th) :
    ∃ l1 l2, l = l1 ++ th :: l2 ∧ l1.length = t := by
  induction l generalizing t with
  | nil => simp at h
  | cons x l ih =>
    cases t with
    | zero =>
      simp at h
      exact ⟨[], l, by simp [h], rfl⟩
    | succ t =>
      simp at h
      obtain ⟨l1, l2, hl, hlen⟩ := ih t h
      exact ⟨x :: l1, l2, by simp [hl], by simp [hlen]⟩

theorem mapIdx_at (l1 l2 : List Th) (th : Th) (g : Th → Th) (n : Nat) (hn : n = l1.length) :
    (l1 ++ th :: l2).mapIdx (fun i x => if i = n then g x else x) = l1 ++ g th :: l2 := by
  subst hn
  induction l1 with
  | nil =>
    simp only [List.nil_append, List.mapIdx_cons, List.length_nil]
    congr 1
    have : (fun (i : Nat) (x : Th) => if i + 1 = 0 then g x else x) = fun _ x => x := by
      funext i x; simp
    rw [this]
    apply List.ext_getElem?; intro i; simp [List.getElem?_mapIdx]
  | cons y l1 ih =>
    simp only [List.cons_append, List.mapIdx_cons, List.length_cons]
    have : (fun (i : Nat) (x : Th) => if i + 1 = l1.length + 1 then g x else x) = fun i x => if i = l1.length then g x else x := by
      funext i x; simp
    rw [this, ih]
    simp

theorem setPc_eq (s : Sys) (l1 l2 : List Th) (th : Th) (hs : s.ths = l1 ++ th :: l2) (n : Nat) (hn : n = l1.length) (pc : Pc) :
    s.setPc n pc = { s with ths := l1 ++ ⟨th.role, pc⟩ :: l2 } := by
  unfold Sys.setPc
  rw [hs, mapIdx_at l1 l2 th (fun th => { th with pc := pc }) n hn]

theorem cascade_eq (s : Sys) :
    s.cascade = { s with sockClosed := s.sockClosed || (decide (s.wg = 0) && !s.sockClosed),
                         readWG := if (decide (s.wg = 0) && !s.sockClosed) = true then 0 else s.readWG,
                         ths := s.ths.map (wk (decide (s.wg = 0) && !s.sockClosed) (decide (s.wg = 0) && !s.sockClosed)) } := by
  unfold Sys.cascade
  by_cases h : s.wg = 0 ∧ (!s.sockClosed) = true
  · have hb : (decide (s.wg = 0) && !s.sockClosed) = true := by simp [h.1, h.2]
    rw [if_pos h, hb]
    simp only [wakeSel_eq, wakeWait_eq, List.map_map, Bool.or_true, if_true]
    congr 1
    apply List.map_congr_left
    intro th _
    simp [wk_comp]
  · have hb : (decide (s.wg = 0) && !s.sockClosed) = false := by
      cases h1 : decide (s.wg = 0) <;> cases h2 : s.sockClosed <;> simp_all
    rw [if_neg h, hb]
    simp [map_wk_ff]

/-! ### `accL`, `tgtd`, `astarted` under the changes of the thread list -/

theorem accOf_some (x : Th) (c : Nat) : accOf x = some c ↔ x.role = .acceptor ∧ x.pc = .done (.conn c) := by
  cases x with | mk r p =>
  cases r <;> cases p <;> simp [accOf]
  next r => cases r <;> simp

theorem accOf_wk (bs bw : Bool) (th : Th) : accOf (wk bs bw th) = accOf th := by
  cases th with | mk r p => cases r <;> cases p <;> cases bs <;> cases bw <;> simp [accOf, wk, wkPc]

theorem accL_some_iff (ths : List Th) (i c : Nat) : accL ths i = some c ↔ ∃ x, ths[i]? = some x ∧ accOf x = some c := by
  unfold accL
  cases ths[i]? <;> simp

theorem accL_map_wk (bs bw : Bool) (l : List Th) (i : Nat) : accL (l.map (wk bs bw)) i = accL l i := by
  unfold accL
  rw [List.getElem?_map]
  cases l[i]? <;> simp [accOf_wk]

theorem accL_mid_lt (l1 l2 : List Th) (th : Th) (i : Nat) (h : i < l1.length) : accL (l1 ++ th :: l2) i = accL l1 i := by
  unfold accL
  rw [List.getElem?_append_left h]

theorem accL_mid_eq (l1 l2 : List Th) (th : Th) : accL (l1 ++ th :: l2) l1.length = accOf th := by
  unfold accL
  simp

theorem accL_mid_gt (l1 l2 : List Th) (th : Th) (k : Nat) : accL (l1 ++ th :: l2) (l1.length + 1 + k) = accL l2 k := by
  unfold accL
  rw [List.getElem?_append_right (by omega)]
  have : l1.length + 1 + k - l1.length = k + 1 := by omega
  rw [this, List.getElem?_cons_succ]

theorem accL_stable {l1 l2 : List Th} {th th' : Th} {bs bw : Bool}
    (hacc : ∀ c, accOf th = some c → accOf th' = some c) (i c : Nat)
    (h : accL (l1 ++ th :: l2) i = some c) : accL (l1.map (wk bs bw) ++ th' :: l2.map (wk bs bw)) i = some c := by
  rcases Nat.lt_trichotomy i l1.length with hi | hi | hi
  · rw [accL_mid_lt _ _ _ _ hi] at h
    rw [accL_mid_lt _ _ _ _ (by simpa using hi), accL_map_wk]; exact h
  · subst hi
    rw [accL_mid_eq] at h
    have := accL_mid_eq (l1.map (wk bs bw)) (l2.map (wk bs bw)) th'
    rw [List.length_map] at this
    rw [this]; exact hacc c h
  · obtain ⟨k, rfl⟩ : ∃ k, i = l1.length + 1 + k := ⟨i - l1.length - 1, by omega⟩
    rw [accL_mid_gt] at h
    have := accL_mid_gt (l1.map (wk bs bw)) (l2.map (wk bs bw)) th' k
    rw [List.length_map] at this
    rw [this, accL_map_wk]; exact h

theorem accL_stable0 {l1 l2 : List Th} {th th' : Th}
    (hacc : ∀ c, accOf th = some c → accOf th' = some c) (i c : Nat)
    (h : accL (l1 ++ th :: l2) i = some c) : accL (l1 ++ th' :: l2) i = some c := by
  simpa [map_wk_ff] using accL_stable (bs := false) (bw := false) hacc i c h

theorem accL_congr {l1 l2 : List Th} {th th' : Th} (hacc : accOf th' = accOf th) (i : Nat) :
    accL (l1 ++ th' :: l2) i = accL (l1 ++ th :: l2) i := by
  rcases Nat.lt_trichotomy i l1.length with hi | hi | hi
  · rw [accL_mid_lt _ _ _ _ hi, accL_mid_lt _ _ _ _ hi]
  · subst hi
    rw [accL_mid_eq, accL_mid_eq, hacc]
  · obtain ⟨k, rfl⟩ : ∃ k, i = l1.length + 1 + k := ⟨i - l1.length - 1, by omega⟩
    rw [accL_mid_gt, accL_mid_gt]

theorem tgt_some_iff (ths : List Th) (x : Th) (c : Nat) :
    tgt ths x = some c ↔ ∃ i, x.role = .acloser i ∧ x.pc ≠ .start ∧ accL ths i = some c := by
  cases x with | mk r p =>
  cases r with
  | acloser i => by_cases hp : p = .start <;> simp [tgt, hp]
  | _ => simp [tgt]

theorem tgtd_true_iff (ths : List Th) (c : Nat) :
    tgtd ths c = true ↔ ∃ x ∈ ths, ∃ i, x.role = .acloser i ∧ x.pc ≠ .start ∧ accL ths i = some c := by
  simp only [tgtd, List.any_eq_true, beq_iff_eq, tgt_some_iff]

/-- what has been accepted stays accepted, what is being closed stays being closed -/
def Stable (ths ths' : List Th) : Prop :=
  (∀ i c, accL ths i = some c → accL ths' i = some c) ∧ (∀ c, tgtd ths c = true → tgtd ths' c = true)

theorem stable_refl (ths : List Th) : Stable ths ths := ⟨fun _ _ h => h, fun _ h => h⟩

theorem stable_mk {l1 l2 : List Th} {th th' : Th} {bs bw : Bool} (hrole : th'.role = th.role)
    (hacc : ∀ c, accOf th = some c → accOf th' = some c) (hns : th.pc ≠ .start → th'.pc ≠ .start) :
    Stable (l1 ++ th :: l2) (l1.map (wk bs bw) ++ th' :: l2.map (wk bs bw)) := by
  refine ⟨accL_stable hacc, ?_⟩
  intro c hc
  rw [tgtd_true_iff] at hc ⊢
  obtain ⟨x, hx, i, hr, hp, ha⟩ := hc
  have ha' := accL_stable (bs := bs) (bw := bw) hacc i c ha
  simp only [List.mem_append, List.mem_cons] at hx
  rcases hx with hx | rfl | hx
  · refine ⟨wk bs bw x, ?_, i, by simpa using hr, by simpa [wkPc_start] using hp, ha'⟩
    simp only [List.mem_append, List.mem_map]
    exact Or.inl ⟨x, hx, rfl⟩
  · exact ⟨th', by simp, i, by rw [hrole]; exact hr, hns hp, ha'⟩
  · refine ⟨wk bs bw x, ?_, i, by simpa using hr, by simpa [wkPc_start] using hp, ha'⟩
    simp only [List.mem_append, List.mem_cons, List.mem_map]
    exact Or.inr (Or.inr ⟨x, hx, rfl⟩)

@[simp] theorem astarted_nil : astarted [] = 0 := rfl
theorem astarted_append (l1 l2 : List Th) : astarted (l1 ++ l2) = astarted l1 + astarted l2 := by
  simp [astarted]
theorem astarted_cons (th : Th) (l : List Th) :
    astarted (th :: l) = (if (isAcl th.role && th.pc != .start) = true then 1 else 0) + astarted l := by
  simp only [astarted, List.countP_cons]
  omega
@[simp] theorem astarted_map_wk (bs bw : Bool) (l : List Th) : astarted (l.map (wk bs bw)) = astarted l := by
  induction l with
  | nil => rfl
  | cons x l ih =>
    rw [List.map_cons, astarted_cons, astarted_cons, ih]
    congr 2
    cases x with | mk r p => cases p <;> cases bs <;> cases bw <;> simp [wk, wkPc]

/-! ### counting the connections being closed -/

theorem length_filterMap_eq_countP {α β : Type} (f : α → Option β) (p : α → Bool) (l : List α)
    (h : ∀ x ∈ l, (f x).isSome = p x) : (l.filterMap f).length = l.countP p := by
  induction l with
  | nil => rfl
  | cons x l ih =>
    have hx := h x (by simp)
    have ih := ih (fun y hy => h y (by simp [hy]))
    rw [List.filterMap_cons, List.countP_cons]
    cases hf : f x with
    | none => simp [hf] at hx; simp [← hx, ih]
    | some b => simp [hf] at hx; simp [← hx, ih]

theorem contains_filterMap {α : Type} (f : α → Option Nat) (l : List α) (c : Nat) :
    (l.filterMap f).contains c = l.any (fun x => f x == some c) := by
  induction l with
  | nil => rfl
  | cons x l ih =>
    rw [List.filterMap_cons, List.any_cons, ← ih]
    cases hf : f x with
    | none => simp
    | some b =>
      by_cases hb : b = c
      · simp [hb]
      · have hb' : ¬ c = b := fun e => hb e.symm
        simp [hb, hb']

theorem nodup_filter_not_contains (T : List Nat) : ∀ (M : List Nat), T.Nodup → M.Nodup → (∀ x ∈ M, x ∈ T) →
    (T.filter (fun c => !M.contains c)).length + M.length = T.length := by
  intro M
  induction M with
  | nil => intro _ _ _; simp
  | cons m M ih =>
    intro hT hM hsub
    rw [List.nodup_cons] at hM
    have ih := ih hT hM.2 (fun x hx => hsub x (by simp [hx]))
    have hF : (T.filter (fun c => !M.contains c)).Nodup := List.Nodup.sublist List.filter_sublist hT
    have hm : m ∈ T.filter (fun c => !M.contains c) := by
      rw [List.mem_filter]
      exact ⟨hsub m (by simp), by simpa using hM.1⟩
    have e : T.filter (fun c => !(m :: M).contains c) = (T.filter (fun c => !M.contains c)).filter (fun x => x != m) := by
      rw [List.filter_filter]
      congr 1
      funext c
      by_cases hc : c = m <;> simp [hc]
    rw [e, ← List.Nodup.erase_eq_filter hF, List.length_erase_of_mem hm, List.length_cons]
    have := List.length_pos_of_mem hm
    omega

theorem filterMap_nodup_inj {α : Type} (f : α → Option Nat) : ∀ (l : List α), (l.filterMap f).Nodup →
    ∀ (i j : Nat) (x y : α) (c : Nat), l[i]? = some x → l[j]? = some y → f x = some c → f y = some c → i = j := by
  intro l
  induction l with
  | nil => intro _ i j x y c h; simp at h
  | cons z l ih =>
    intro hnd i j x y c hi hj hx hy
    have hmem : ∀ (k : Nat) (w : α), l[k]? = some w → f w = some c → c ∈ l.filterMap f := by
      intro k w hk hw
      rw [List.mem_filterMap]
      exact ⟨w, List.mem_of_getElem? hk, hw⟩
    have hnd' : (l.filterMap f).Nodup := by
      rw [List.filterMap_cons] at hnd
      cases hz : f z with
      | none => simpa [hz] using hnd
      | some b => rw [hz] at hnd; exact (List.nodup_cons.1 hnd).2
    cases i with
    | zero =>
      cases j with
      | zero => rfl
      | succ j =>
        simp at hi hj
        subst hi
        rw [List.filterMap_cons, hx, List.nodup_cons] at hnd
        exact absurd (hmem j y hj hy) hnd.1
    | succ i =>
      cases j with
      | zero =>
        simp at hi hj
        subst hj
        rw [List.filterMap_cons, hy, List.nodup_cons] at hnd
        exact absurd (hmem i x hi hx) hnd.1
      | succ j =>
        simp at hi hj
        rw [ih hnd' i j x y c hi hj hx hy]

theorem accL_mem_taken {ths : List Th} {i c : Nat} (h : accL ths i = some c) : c ∈ taken ths := by
  obtain ⟨x, hx, hc⟩ := (accL_some_iff _ _ _).1 h
  exact (mem_taken _ _).2 ⟨x, List.mem_of_getElem? hx, ((accOf_some _ _).1 hc).2⟩

/-- the connections returned to different acceptors are different -/
theorem accL_inj {ths : List Th} (tnd : (taken ths).Nodup) {i j c : Nat} (hi : accL ths i = some c) (hj : accL ths j = some c) :
    i = j := by
  obtain ⟨x, hx, hxc⟩ := (accL_some_iff _ _ _).1 hi
  obtain ⟨y, hy, hyc⟩ := (accL_some_iff _ _ _).1 hj
  refine filterMap_nodup_inj takenOf ths tnd i j x y c hx hy ?_ ?_
  · simp [takenOf, ((accOf_some _ _).1 hxc).2]
  · simp [takenOf, ((accOf_some _ _).1 hyc).2]

theorem pairwise_acl (l : List Th) (h : ∀ i, ((l.map (·.role)).filter (· = .acloser i)).length ≤ 1) :
    l.Pairwise (fun x y => ∀ i, x.role = .acloser i → y.role ≠ .acloser i) := by
  induction l with
  | nil => exact List.Pairwise.nil
  | cons x l ih =>
    rw [List.pairwise_cons]
    constructor
    · intro y hy i hx hyr
      have := h i
      simp only [List.map_cons, List.filter_cons, hx, decide_true, if_true, List.length_cons] at this
      have hm : Role.acloser i ∈ (l.map (·.role)).filter (· = .acloser i) :=
        List.mem_filter.2 ⟨List.mem_map.2 ⟨y, hy, hyr⟩, by simp⟩
      have := List.length_pos_of_mem hm
      omega
    · apply ih
      intro i
      have := h i
      simp only [List.map_cons, List.filter_cons] at this
      split at this
      · simp only [List.length_cons] at this; omega
      · exact this

/-- the started `acloser`s close pairwise different connections, all of them handed out -/
theorem count_taken {ths : List Th} (hw : ∀ i, ((ths.map (·.role)).filter (· = .acloser i)).length ≤ 1)
    (tnd : (taken ths).Nodup)
    (n2 : ∀ th ∈ ths, ∀ i, th.role = .acloser i → th.pc ≠ .start → ∃ c, accL ths i = some c) :
    ((taken ths).filter (fun c => !tgtd ths c)).length + astarted ths = (taken ths).length := by
  have hlen : (ths.filterMap (tgt ths)).length = astarted ths := by
    apply length_filterMap_eq_countP
    intro x hx
    cases x with | mk r p =>
    cases r with
    | acloser i =>
      by_cases hp : p = .start
      · simp [tgt, hp, isAcl]
      · obtain ⟨c, hc⟩ := n2 ⟨.acloser i, p⟩ hx i rfl hp
        simp [tgt, hp, isAcl, hc]
    | _ => simp [tgt, isAcl]
  have hcont : ∀ c, (ths.filterMap (tgt ths)).contains c = tgtd ths c := fun c => contains_filterMap _ _ _
  have hnd : (ths.filterMap (tgt ths)).Nodup := by
    refine List.Pairwise.filterMap (tgt ths) ?_ (pairwise_acl ths hw)
    intro x y hxy b hb b' hb' e
    subst e
    obtain ⟨i, hxi, _, hai⟩ := (tgt_some_iff _ _ _).1 hb
    obtain ⟨j, hyj, _, haj⟩ := (tgt_some_iff _ _ _).1 hb'
    have := accL_inj tnd hai haj
    subst this
    exact hxy i hxi hyj
  have hsub : ∀ c ∈ ths.filterMap (tgt ths), c ∈ taken ths := by
    intro c hc
    rw [List.mem_filterMap] at hc
    obtain ⟨x, _, hx⟩ := hc
    obtain ⟨i, _, _, hai⟩ := (tgt_some_iff _ _ _).1 hx
    exact accL_mem_taken hai
  have := nodup_filter_not_contains (taken ths) _ tnd hnd hsub
  simp only [hcont] at this
  omega

end TV.Proofs.ListenerLife
