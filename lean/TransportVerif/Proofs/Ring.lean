import TransportVerif.Link.Ring
import TransportVerif.Proofs.RingCopy
import TransportVerif.Proofs.RingInv
import TransportVerif.Proofs.RingRead
import TransportVerif.Proofs.RingStore
/-
The ring model refines the FIFO spec: per-operation simulation, the generalised main theorem and
the facts about reachable states used by C06 and C07.
-/
namespace TV.Proofs.Ring
open TV TV.Ring TV.RingLink
open TV.RingSpec (Fifo)

theorem overLimit_eq (r : Ring) (f : Fifo) (hi : Inv r f) (n : Nat) :
    r.overLimit n = f.wouldExceed r.hard n := by
  unfold Ring.overLimit Fifo.wouldExceed Fifo.count
  rw [hi.size_eq, hi.count, hi.lc, hi.ls]
  simp only [Ring.maxSize, RingSpec.maxSize]
  congr 2
  simp only [ge_iff_le, gt_iff_lt, decide_eq_decide]
  omega

theorem write_sim (r : Ring) (f : Fifo) (hi : Inv r f) (p : List UInt8) :
    Inv (r.write p).1 (f.write r.hard p).1 ∧ (r.write p).2 = convW (f.write r.hard p).2 ∧
    (r.write p).1.hard = r.hard := by
  unfold Ring.write Fifo.write
  by_cases h1 : p.length ≥ Ring.maxPacket
  · have h1' : p.length ≥ RingSpec.maxPacket := h1
    rw [if_pos h1, if_pos h1']; exact ⟨hi, rfl, rfl⟩
  · have h1' : ¬ p.length ≥ RingSpec.maxPacket := h1
    rw [if_neg h1, if_neg h1']
    by_cases h2 : r.closed = true
    · have h2' : f.closed = true := by rw [← hi.cl]; exact h2
      rw [if_pos h2, if_pos h2']; exact ⟨hi, rfl, rfl⟩
    · have h2' : ¬ f.closed = true := by rw [← hi.cl]; exact h2
      rw [if_neg h2, if_neg h2']
      by_cases h3 : r.overLimit p.length = true
      · have h3' : f.wouldExceed r.hard p.length = true := by rw [← overLimit_eq r f hi]; exact h3
        rw [if_pos h3, if_pos h3']; exact ⟨hi, rfl, rfl⟩
      · have h3' : ¬ f.wouldExceed r.hard p.length = true := by rw [← overLimit_eq r f hi]; exact h3
        rw [if_neg h3, if_neg h3']
        have hgi := growUntil_inv r p.length f hi
        have hgt := growUntil_true r p.length hi.geo (by simpa using h3)
        rcases hgu : r.growUntil p.length with ⟨g, b⟩
        rw [hgu] at hgi hgt
        simp only at hgi hgt
        subst hgt
        simp only []
        refine ⟨store_sim g f p hgi.1 (hgi.2.2 rfl) (by simp only [Ring.maxPacket] at h1; omega), rfl, ?_⟩
        rw [(store_fields g p).2.2.2.2.2.1, hgi.2.1]

theorem step_sim (r : Ring) (f : Fifo) (hi : Inv r f) (op : Op) :
    Inv (step r op).1 (specStep r.hard f op).1 ∧ (step r op).2 = (specStep r.hard f op).2 ∧
    (step r op).1.hard = r.hard := by
  cases op with
  | write p =>
    have := write_sim r f hi p
    simp only [step, specStep]
    exact ⟨this.1, by rw [this.2.1], this.2.2⟩
  | read n =>
    have := read_sim r f hi n
    simp only [step, specStep]
    exact ⟨this.1, by rw [this.2.1], this.2.2⟩
  | close =>
    simp only [step, specStep, Ring.close]
    exact ⟨⟨hi.geo, hi.len, hi.bytes, hi.count, hi.lc, hi.ls, rfl, hi.small⟩, trivial, trivial⟩
  | limitCount l =>
    simp only [step, specStep, Ring.setLimitCount]
    exact ⟨⟨hi.geo, hi.len, hi.bytes, hi.count, rfl, hi.ls, hi.cl, hi.small⟩, trivial, trivial⟩
  | limitSize l =>
    simp only [step, specStep, Ring.setLimitSize]
    exact ⟨⟨hi.geo, hi.len, hi.bytes, hi.count, hi.lc, rfl, hi.cl, hi.small⟩, trivial, trivial⟩

/-- the main theorem, generalised to any pair of related states -/
theorem obs_refine (ops : List Op) (r : Ring) (f : Fifo) (hi : Inv r f) :
    obsModel r ops = obsSpec r.hard f ops := by
  induction ops generalizing r f with
  | nil => rfl
  | cons op ops ih =>
    have hs := step_sim r f hi op
    simp only [obsModel, obsSpec]
    rw [ih _ _ hs.1, hs.2.2, hs.2.1, hs.1.count, hs.1.size_eq]
    rfl

theorem run_inv (ops : List Op) (r : Ring) (f : Fifo) (hi : Inv r f) :
    ∃ f', Inv (runModel r ops) f' := by
  induction ops generalizing r f with
  | nil => exact ⟨f, hi⟩
  | cons op ops ih => exact ih _ _ (step_sim r f hi op).1

theorem reachable_inv (r : Ring) (h : Reachable r) : ∃ f, Inv r f := by
  obtain ⟨hard, ops, rfl⟩ := h
  exact run_inv ops _ _ (inv_new hard)

end TV.Proofs.Ring
