import TransportVerif.Proofs.ListenerLifeInv
/-
C12 proofs, part 3: the invariant is preserved by every kind of step.
-/
namespace TV.Proofs.ListenerLife
open TV TV.ListenerLife TV.LifeLink

/-- a step that changes only one thread's pc, without touching any counted quantity -/
theorem inv_quiet {a : Nat} {s : Sys} {l1 l2 : List Th} {r : Role} {p p' : Pc}
    (h : Inv a s) (hs : s.ths = l1 ++ ⟨r, p⟩ :: l2)
    (hc : ∀ c, r = .ccloser c → (p = .start ↔ p' = .start))
    (hp' : p' ≠ .start) (hp : ∀ i, r = .acloser i → p ≠ .start)
    (ht : takenOf ⟨r, p'⟩ = takenOf ⟨r, p⟩)
    (hl1 : r = .lcloser → ((p' = .atWait ∨ p' = .parkedWait ∨ p' = .done .ok) ↔ (p = .atWait ∨ p = .parkedWait ∨ p = .done .ok)))
    (hl2 : r = .lcloser → p ≠ .start → p' ≠ .start)
    (hok : ThOk a s ⟨r, p'⟩) : Inv a { s with ths := l1 ++ ⟨r, p'⟩ :: l2 } := by
  have hst : ∀ c, started (l1 ++ ⟨r, p'⟩ :: l2) c = started (l1 ++ ⟨r, p⟩ :: l2) c := by
    intro c
    simp only [started_append, started_cons]
    congr 2
    by_cases hr : r = .ccloser c
    · simp [hr, hc c hr]
    · simp [hr]
  have htk : taken (l1 ++ ⟨r, p'⟩ :: l2) = taken (l1 ++ ⟨r, p⟩ :: l2) := by
    simp only [taken_append, taken_cons, ht]
  have hrl : relL (l1 ++ ⟨r, p'⟩ :: l2) = relL (l1 ++ ⟨r, p⟩ :: l2) := by
    simp only [relL_append, relL_cons]
    congr 2
    by_cases hr : r = .lcloser
    · simp [hr, hl1 hr]
    · simp [hr]
  have hls : lstarted (l1 ++ ⟨r, p⟩ :: l2) = true → lstarted (l1 ++ ⟨r, p'⟩ :: l2) = true := by
    simp only [lstarted_append, lstarted_cons, Bool.or_eq_true, decide_eq_true_eq]
    rintro (h1 | ⟨h1, h2⟩ | h1)
    · exact Or.inl h1
    · exact Or.inr (Or.inl ⟨h1, hl2 h1 h2⟩)
    · exact Or.inr (Or.inr h1)
  have hacc : ∀ c, accOf ⟨r, p⟩ = some c → accOf ⟨r, p'⟩ = some c := by
    intro c hc'
    obtain ⟨h1, h2⟩ := (accOf_some _ _).1 hc'
    have : takenOf ⟨r, p⟩ = some c := (takenOf_some _ _).2 h2
    rw [← ht] at this
    exact (accOf_some _ _).2 ⟨h1, (takenOf_some _ _).1 this⟩
  have hat : astarted (l1 ++ ⟨r, p'⟩ :: l2) = astarted (l1 ++ ⟨r, p⟩ :: l2) := by
    simp only [astarted_append, astarted_cons]
    congr 3
    cases r with
    | acloser i => have := hp i rfl; simp [isAcl, hp', this]
    | _ => simp [isAcl]
  have hok' : ThOk a { s with ths := l1 ++ ⟨r, p'⟩ :: l2 } ⟨r, p'⟩ := by
    have := thOk_frame (bs := false) (bw := false) hok (frame_ths a false s (l1 ++ ⟨r, p'⟩ :: l2))
      (by
        show Stable s.ths (l1 ++ ⟨r, p'⟩ :: l2)
        rw [hs]
        have := stable_mk (l1 := l1) (l2 := l2) (th := ⟨r, p⟩) (th' := ⟨r, p'⟩) (bs := false) (bw := false) rfl hacc (fun _ => hp')
        rwa [map_wk_ff, map_wk_ff] at this)
    rwa [wk_ff] at this
  refine inv_mk0 (s' := { s with ths := l1 ++ ⟨r, p'⟩ :: l2 }) (th' := ⟨r, p'⟩) h hs rfl rfl hacc (fun _ => hp')
    (frame_ths _ _ _ _) hok' ?_ ?_ ?_ ?_ ?_ ?_ ?_ ?_ ?_ ?_
  · show s.wg + astarted (l1 ++ ⟨r, p'⟩ :: l2) = _ + s.acceptQ.length + _ + _
    rw [hat, hrl, openCnt_congr _ _ _ hst, htk, ← hs]
    exact h.count
  · exact h.sock
  · exact h.rwg
  · exact h.qok
  · exact h.qnd
  · exact h.nge
  · intro ha
    apply hls
    rw [← hs]
    exact h.acc ha
  · intro c hca hct
    show started (l1 ++ ⟨r, p'⟩ :: l2) c = true
    rw [hst, ← hs]
    exact h.tbl c hca hct
  · show relL (l1 ++ ⟨r, p'⟩ :: l2) = true → s.arrPending = false ∧ s.acceptQ = []
    rw [hrl, ← hs]
    exact h.rel
  · show (taken (l1 ++ ⟨r, p'⟩ :: l2)).Nodup
    rw [htk, ← hs]
    exact h.tnd

/-- Accept takes the oldest queued connection -/
theorem inv_take {a : Nat} {s : Sys} {l1 l2 : List Th} {c : Nat} {rest : List Nat}
    (h : Inv a s) (hs : s.ths = l1 ++ ⟨.acceptor, .atSelect⟩ :: l2) (hq : s.acceptQ = c :: rest) :
    Inv a { s with acceptQ := rest, ths := l1 ++ ⟨.acceptor, .done (.conn c)⟩ :: l2 } := by
  have hqok := h.qok; have hqnd := h.qnd; have hcount := h.count; have hacc := h.acc; have htbl := h.tbl
  have htnd := h.tnd; have hthr := h.thr
  rw [hq] at hqok hqnd hcount
  rw [hs] at hcount hacc htbl htnd hthr
  simp only [List.nodup_cons] at hqnd
  refine inv_mk0 (s' := { s with acceptQ := rest, ths := l1 ++ ⟨.acceptor, .done (.conn c)⟩ :: l2 })
    (th' := ⟨.acceptor, .done (.conn c)⟩) h hs rfl rfl (by simp [accOf]) (by simp) ?_ ?_ ?_ h.sock h.rwg ?_ hqnd.2 h.nge ?_ ?_ ?_ ?_
  · refine ⟨fun _ h => h, fun h _ _ => h, id, ?_, fun _ h => h⟩
    intro c' h1 h2 h4
    rw [hq] at h4
    exact ⟨h2, Or.inl, fun hm => h4 (List.mem_cons_of_mem _ hm)⟩
  · have := hqok c (by simp)
    refine ⟨by simp, by simp, by simp, by simp, ?_, by simp⟩
    intro c' hc'
    simp only [Pc.done.injEq, Res.conn.injEq] at hc'
    subst hc'
    exact ⟨this.1, this.2.1, Or.inl this.2.2, hqnd.1⟩
  · show s.wg + astarted _ = _ + rest.length + _ + _
    have hA : astarted (l1 ++ ⟨.acceptor, .done (.conn c)⟩ :: l2) = astarted (l1 ++ ⟨.acceptor, .atSelect⟩ :: l2) := by
      simp [astarted_append, astarted_cons, isAcl]
    rw [hA, hcount]
    have : ∀ c', started (l1 ++ ⟨.acceptor, .done (.conn c)⟩ :: l2) c' = started (l1 ++ ⟨.acceptor, .atSelect⟩ :: l2) c' := by
      intro c'; simp [started_append, started_cons]
    rw [openCnt_congr _ _ _ this]
    simp [relL_append, relL_cons, taken_append, taken_cons, takenOf]
    omega
  · intro c' hc'
    exact hqok c' (List.mem_cons_of_mem _ hc')
  · intro ha
    have := hacc ha
    simpa [lstarted_append, lstarted_cons] using this
  · intro c' h1 h2
    have := htbl c' h1 h2
    simpa [started_append, started_cons] using this
  · intro hr
    have hr' : relL s.ths = true := by
      rw [hs]; simpa [relL_append, relL_cons] using hr
    have := (h.rel hr').2
    rw [hq] at this; cases this
  · show (taken (l1 ++ ⟨.acceptor, .done (.conn c)⟩ :: l2)).Nodup
    have hnot : c ∉ taken l1 ++ taken l2 := by
      intro hm
      have hm' : c ∈ taken (l1 ++ ⟨.acceptor, .atSelect⟩ :: l2) := by
        simpa [taken_append, taken_cons, takenOf] using hm
      obtain ⟨x, hx, hxp⟩ := (mem_taken _ _).1 hm'
      have := ((hthr x hx).2.2.2.2.1 c hxp).2.2.2
      exact this (by rw [hq]; simp)
    have htnd' : (taken l1 ++ taken l2).Nodup := by
      simpa [taken_append, taken_cons, takenOf] using htnd
    have : taken (l1 ++ ⟨.acceptor, .done (.conn c)⟩ :: l2) = taken l1 ++ c :: taken l2 := by
      simp [taken_append, taken_cons, takenOf]
    rw [this]
    exact (List.perm_middle.nodup_iff).2 (List.nodup_cons.2 ⟨hnot, htnd'⟩)

/-- listener Close, first segment: stop accepting, close `doneCh` -/
theorem inv_lstart {a : Nat} {s : Sys} {l1 l2 : List Th}
    (h : Inv a s) (hs : s.ths = l1 ++ ⟨.lcloser, .start⟩ :: l2) :
    Inv a { s with accepting := false, doneClosed := true,
                   ths := l1.map (wk true false) ++ ⟨.lcloser, .atLock⟩ :: l2.map (wk true false) } := by
  have hcount := h.count; have htbl := h.tbl; have htnd := h.tnd
  rw [hs] at hcount htbl htnd
  refine inv_mk (s' := { s with accepting := false, doneClosed := true, ths := l1.map (wk true false) ++ ⟨.lcloser, .atLock⟩ :: l2.map (wk true false) })
    (th' := ⟨.lcloser, .atLock⟩) h hs rfl rfl (by simp [accOf]) (by simp) ?_ ?_ ?_ h.sock h.rwg h.qok h.qnd h.nge ?_ ?_ ?_ ?_
  · exact ⟨fun _ h => h, fun h _ _ => h, fun _ => rfl, fun _ _ h2 h4 => ⟨h2, Or.inl, h4⟩, fun _ h => h⟩
  · refine ⟨by simp, by simp, by simp, by simp, by simp, by simp⟩
  · show s.wg + astarted _ = _ + s.acceptQ.length + _ + _
    have hA : astarted (l1.map (wk true false) ++ ⟨.lcloser, .atLock⟩ :: l2.map (wk true false))
        = astarted (l1 ++ ⟨.lcloser, .start⟩ :: l2) := by
      simp [astarted_append, astarted_cons, isAcl]
    rw [hA, hcount]
    have : ∀ c', started (l1.map (wk true false) ++ ⟨.lcloser, .atLock⟩ :: l2.map (wk true false)) c'
        = started (l1 ++ ⟨.lcloser, .start⟩ :: l2) c' := by
      intro c'; simp [started_append, started_cons]
    rw [openCnt_congr _ _ _ this]
    simp [relL_append, relL_cons, taken_append, taken_cons, takenOf]
  · intro _
    simp [lstarted_append, lstarted_cons]
  · intro c' h1 h2
    have := htbl c' h1 h2
    simpa [started_append, started_cons] using this
  · intro hr
    apply h.rel
    rw [hs]
    simpa [relL_append, relL_cons] using hr
  · simpa [taken_append, taken_cons, takenOf] using htnd

theorem sock_casc {sc : Bool} {wg wg' : Nat} (hsock : sc = true ↔ wg = 0) (hle : wg' ≤ wg) (b : Bool)
    (hb : b = (decide (wg' = 0) && !sc)) : (sc || b) = true ↔ wg' = 0 := by
  subst hb
  cases sc with
  | true =>
    have : wg = 0 := hsock.1 rfl
    simp; omega
  | false => simp

theorem rwg_casc {sc : Bool} {rw : Nat} (h : sc = true → rw = 0) (b : Bool) :
    (sc || b) = true → (if b = true then 0 else rw) = 0 := by
  cases b <;> simp_all

/-- listener Close, second segment: discard the backlog, drop the listener's reference -/
theorem inv_llock {a : Nat} {s : Sys} {l1 l2 : List Th}
    (h : Inv a s) (hs : s.ths = l1 ++ ⟨.lcloser, .atLock⟩ :: l2) (hpend : s.arrPending = false) (b : Bool)
    (hb : b = (decide (s.wg - s.acceptQ.length - 1 = 0) && !s.sockClosed))
    (tb' : List Nat) (htb : tb' = s.table.filter (fun c => !s.acceptQ.contains c))
    (p' : Pc) (hp' : (p' = .atWait ∧ tb' = []) ∨ p' = .done .ok) :
    Inv a { s with acceptQ := [], table := tb', wg := s.wg - s.acceptQ.length - 1, sockClosed := s.sockClosed || b,
                   readWG := if b = true then 0 else s.readWG,
                   ths := l1.map (wk b b) ++ ⟨.lcloser, p'⟩ :: l2.map (wk b b) } := by
  have hcount := h.count; have htbl := h.tbl; have hwf := h.wf; have hthr := h.thr; have htnd := h.tnd
  rw [hs] at hcount htbl hwf hthr htnd
  obtain ⟨u1, u2⟩ := wf_unique_l hwf rfl
  have r1 := relL_false_of_norole l1 u1
  have r2 := relL_false_of_norole l2 u2
  have hacc : s.accepting = false := (hthr ⟨.lcloser, .atLock⟩ (by simp)).2.2.2.1 rfl (by simp)
  simp only [relL_append, relL_cons, r1, r2] at hcount
  simp at hcount
  have hst : ∀ c', started (l1.map (wk b b) ++ ⟨.lcloser, p'⟩ :: l2.map (wk b b)) c'
        = started (l1 ++ ⟨.lcloser, .atLock⟩ :: l2) c' := by
    intro c'; simp [started_append, started_cons]
  refine inv_mk (s' := { s with acceptQ := [], table := tb', wg := s.wg - s.acceptQ.length - 1, sockClosed := s.sockClosed || b, readWG := if b = true then 0 else s.readWG, ths := l1.map (wk b b) ++ ⟨.lcloser, p'⟩ :: l2.map (wk b b) })
    (th' := ⟨.lcloser, p'⟩) h hs rfl rfl (by simp [accOf]) (by rcases hp' with ⟨rfl, _⟩ | rfl <;> simp)
    ?_ ?_ ?_ ?_ ?_ ?_ ?_ h.nge ?_ ?_ ?_ ?_
  · refine ⟨?_, ?_, id, ?_, fun _ h => h⟩
    · intro hbf hsc
      simpa [hbf] using hsc
    · intro ht _ _
      show tb' = []
      rw [htb, ht]; rfl
    · intro c' h1 h2 h4
      refine ⟨h2, fun h3 => Or.inl ?_, by simp⟩
      show c' ∈ tb'
      rw [htb, List.mem_filter]
      exact ⟨h3, by simpa using h4⟩
  · rcases hp' with ⟨rfl, ht⟩ | rfl
    · exact ⟨by simp, fun _ => ⟨ht, hacc, hpend⟩, by simp, fun _ _ => hacc, by simp, by simp⟩
    · exact ⟨by simp, by simp, by simp, fun _ _ => hacc, by simp, by simp⟩
  · show s.wg - s.acceptQ.length - 1 + astarted _ = _ + 0 + _ + _
    rw [openCnt_congr _ _ _ hst]
    have : relL (l1.map (wk b b) ++ ⟨.lcloser, p'⟩ :: l2.map (wk b b)) = true := by
      rcases hp' with ⟨rfl, _⟩ | rfl <;> simp [relL_append, relL_cons]
    rw [this]
    have hle := astarted_le h
    rw [hs] at hle
    simp [taken_append, taken_cons, takenOf, astarted_append, astarted_cons, isAcl] at hcount hle ⊢
    rcases hp' with ⟨rfl, _⟩ | rfl <;> simp <;> omega
  · exact sock_casc h.sock (by show s.wg - s.acceptQ.length - 1 ≤ s.wg; omega) b hb
  · exact rwg_casc h.rwg b
  · intro c' hc'; simp at hc'
  · exact List.nodup_nil
  · intro _
    rcases hp' with ⟨rfl, _⟩ | rfl <;> simp [lstarted_append, lstarted_cons]
  · intro c' h1 h2
    show started _ c' = true
    rw [hst]
    apply htbl c' h1
    intro hm
    apply h2
    show c' ∈ tb'
    rw [htb, List.mem_filter]
    refine ⟨hm, ?_⟩
    simp only [Bool.not_eq_true', List.contains_eq_mem, decide_eq_false_iff_not]
    intro hq
    have := (h.qok c' hq).1
    omega
  · exact fun _ => ⟨hpend, rfl⟩
  · rcases hp' with ⟨rfl, _⟩ | rfl <;> simpa [taken_append, taken_cons, takenOf] using htnd

/-- Conn.Close, first segment: give the reference back -/
theorem inv_cstart {a : Nat} {s : Sys} {l1 l2 : List Th} {c : Nat}
    (h : Inv a s) (hs : s.ths = l1 ++ ⟨.ccloser c, .start⟩ :: l2) (b : Bool)
    (hb : b = (decide (s.wg - 1 = 0) && !s.sockClosed)) :
    Inv a { s with wg := s.wg - 1, sockClosed := s.sockClosed || b, readWG := if b = true then 0 else s.readWG,
                   ths := l1.map (wk b b) ++ ⟨.ccloser c, .atLock⟩ :: l2.map (wk b b) } := by
  have hcount := h.count; have htbl := h.tbl; have hwf := h.wf; have hacc := h.acc; have htnd := h.tnd
  rw [hs] at hcount htbl hwf hacc htnd
  obtain ⟨hca, u1, u2⟩ := wf_unique_c hwf rfl
  have hflip := openCnt_flip a (l1 ++ ⟨.ccloser c, .start⟩ :: l2) (l1.map (wk b b) ++ ⟨.ccloser c, .atLock⟩ :: l2.map (wk b b)) c hca
    (by simp [started_append, started_cons, u1, u2]) (by simp [started_append, started_cons])
    (by
      intro c' hc'
      have : ¬ (c = c') := fun e => hc' e.symm
      simp [started_append, started_cons, this])
  refine inv_mk (s' := { s with wg := s.wg - 1, sockClosed := s.sockClosed || b, readWG := if b = true then 0 else s.readWG, ths := l1.map (wk b b) ++ ⟨.ccloser c, .atLock⟩ :: l2.map (wk b b) })
    (th' := ⟨.ccloser c, .atLock⟩) h hs rfl rfl (by simp [accOf]) (by simp) ?_ ?_ ?_ ?_ ?_ h.qok h.qnd h.nge ?_ ?_ ?_ ?_
  · refine ⟨?_, fun h _ _ => h, id, fun _ _ h2 h4 => ⟨h2, Or.inl, h4⟩, fun _ h => h⟩
    intro hbf hsc
    simpa [hbf] using hsc
  · exact ⟨by simp, by simp, by simp, by simp, by simp, by simp⟩
  · show s.wg - 1 + astarted _ = _ + s.acceptQ.length + _ + _
    rw [hflip] at hcount
    have hle := astarted_le h
    rw [hs] at hle
    simp [relL_append, relL_cons, taken_append, taken_cons, takenOf, astarted_append, astarted_cons, isAcl] at hcount hle ⊢
    omega
  · exact sock_casc h.sock (by show s.wg - 1 ≤ s.wg; omega) b hb
  · exact rwg_casc h.rwg b
  · intro ha
    have := hacc ha
    simpa [lstarted_append, lstarted_cons] using this
  · intro c' h1 h2
    have := htbl c' h1 h2
    simp [started_append, started_cons] at this ⊢
    rcases this with h | h
    · exact Or.inl h
    · exact Or.inr (Or.inr h)
  · intro hr
    apply h.rel
    rw [hs]
    simpa [relL_append, relL_cons] using hr
  · simpa [taken_append, taken_cons, takenOf] using htnd

/-- Conn.Close, second segment: unregister from the listener's table -/
theorem inv_clock {a : Nat} {s : Sys} {l1 l2 : List Th} {c : Nat}
    (h : Inv a s) (hs : s.ths = l1 ++ ⟨.ccloser c, .atLock⟩ :: l2) (hpend : s.arrPending = false)
    (tb' : List Nat) (htb : tb' = s.table.filter (· ≠ c))
    (p' : Pc) (hp' : (p' = .atWait ∧ tb' = [] ∧ s.accepting = false) ∨ p' = .done .ok) :
    Inv a { s with table := tb', ths := l1 ++ ⟨.ccloser c, p'⟩ :: l2 } := by
  have hcount := h.count; have htbl := h.tbl; have hwf := h.wf; have hacc := h.acc; have htnd := h.tnd
  rw [hs] at hcount htbl hwf hacc htnd
  obtain ⟨hca, u1, u2⟩ := wf_unique_c hwf rfl
  have hp0 : p' ≠ .start := by rcases hp' with ⟨rfl, _⟩ | rfl <;> simp
  have hst : ∀ c', started (l1 ++ ⟨.ccloser c, p'⟩ :: l2) c' = started (l1 ++ ⟨.ccloser c, .atLock⟩ :: l2) c' := by
    intro c'; simp [started_append, started_cons, hp0]
  have hmem : ∀ c', c' ≠ c → c' ∈ s.table → c' ∈ tb' := by
    intro c' h1 h2
    rw [htb, List.mem_filter]
    exact ⟨h2, by simpa using h1⟩
  refine inv_mk0 (s' := { s with table := tb', ths := l1 ++ ⟨.ccloser c, p'⟩ :: l2 })
    (th' := ⟨.ccloser c, p'⟩) h hs rfl rfl (by simp [accOf]) (fun _ => hp0) ?_ ?_ ?_ h.sock h.rwg ?_ h.qnd h.nge ?_ ?_ ?_ ?_
  · refine ⟨fun _ h => h, ?_, id, ?_, fun _ h => h⟩
    · intro ht _ _
      show tb' = []
      rw [htb, ht]; rfl
    · intro c' h1 h2 h4
      exact ⟨h2, fun h3 => Or.inl (hmem c' (by omega) h3), h4⟩
  · rcases hp' with ⟨rfl, ht, ha⟩ | rfl
    · exact ⟨by simp, fun _ => ⟨ht, ha, hpend⟩, by simp, by simp, by simp, by simp⟩
    · exact ⟨by simp, by simp, by simp, by simp, by simp, by simp⟩
  · show s.wg + astarted _ = _ + s.acceptQ.length + _ + _
    have hA : astarted (l1 ++ ⟨.ccloser c, p'⟩ :: l2) = astarted (l1 ++ ⟨.ccloser c, .atLock⟩ :: l2) := by
      simp [astarted_append, astarted_cons, isAcl]
    rw [hA, hcount, openCnt_congr _ _ _ hst]
    rcases hp' with ⟨rfl, _⟩ | rfl <;> simp [relL_append, relL_cons, taken_append, taken_cons, takenOf]
  · intro c' hc'
    have := h.qok c' hc'
    exact ⟨this.1, this.2.1, hmem c' (by omega) this.2.2⟩
  · intro ha
    have := hacc ha
    simpa [lstarted_append, lstarted_cons] using this
  · intro c' h1 h2
    show started _ c' = true
    by_cases hcc : c' = c
    · subst hcc
      simp [started_append, started_cons, hp0]
    · rw [hst]
      exact htbl c' h1 (fun hm => h2 (hmem c' hcc hm))
  · intro hr
    apply h.rel
    rw [hs]
    rcases hp' with ⟨rfl, _⟩ | rfl <;> simpa [relL_append, relL_cons] using hr
  · rcases hp' with ⟨rfl, _⟩ | rfl <;> simpa [taken_append, taken_cons, takenOf] using htnd

/-- Conn.Close of a connection accepted during the phase, first segment: give the reference back -/
theorem inv_astart {a : Nat} {s : Sys} {l1 l2 : List Th} {i c0 : Nat}
    (h : Inv a s) (hs : s.ths = l1 ++ ⟨.acloser i, .start⟩ :: l2) (hai : accL s.ths i = some c0) (b : Bool)
    (hb : b = (decide (s.wg - 1 = 0) && !s.sockClosed)) :
    Inv a { s with wg := s.wg - 1, sockClosed := s.sockClosed || b, readWG := if b = true then 0 else s.readWG,
                   ths := l1.map (wk b b) ++ ⟨.acloser i, .atLock⟩ :: l2.map (wk b b) } := by
  have hlt := astarted_lt h hs hai
  have hcount := h.count; have htbl := h.tbl; have hacc := h.acc; have htnd := h.tnd
  rw [hs] at hcount htbl hacc htnd hlt hai
  have hst : ∀ c', started (l1.map (wk b b) ++ ⟨.acloser i, .atLock⟩ :: l2.map (wk b b)) c'
        = started (l1 ++ ⟨.acloser i, .start⟩ :: l2) c' := by
    intro c'; simp [started_append, started_cons]
  refine inv_mk (s' := { s with wg := s.wg - 1, sockClosed := s.sockClosed || b, readWG := if b = true then 0 else s.readWG, ths := l1.map (wk b b) ++ ⟨.acloser i, .atLock⟩ :: l2.map (wk b b) })
    (th' := ⟨.acloser i, .atLock⟩) h hs rfl rfl (by simp [accOf]) (by simp) ?_ ?_ ?_ ?_ ?_ h.qok h.qnd h.nge ?_ ?_ ?_ ?_
  · refine ⟨?_, fun h _ _ => h, id, fun _ _ h2 h4 => ⟨h2, Or.inl, h4⟩, fun _ h => h⟩
    intro hbf hsc
    simpa [hbf] using hsc
  · refine ⟨by simp, by simp, by simp, by simp, by simp, ?_⟩
    intro j hr _
    simp only [Role.acloser.injEq] at hr
    subst hr
    exact ⟨c0, accL_stable (by simp [accOf]) _ _ hai⟩
  · show s.wg - 1 + astarted _ = _ + s.acceptQ.length + _ + _
    rw [openCnt_congr _ _ _ hst]
    simp [relL_append, relL_cons, taken_append, taken_cons, takenOf, astarted_append, astarted_cons, isAcl] at hcount hlt ⊢
    omega
  · exact sock_casc h.sock (by show s.wg - 1 ≤ s.wg; omega) b hb
  · exact rwg_casc h.rwg b
  · intro ha
    have := hacc ha
    simpa [lstarted_append, lstarted_cons] using this
  · intro c' h1 h2
    show started _ c' = true
    rw [hst]
    exact htbl c' h1 h2
  · intro hr
    apply h.rel
    rw [hs]
    simpa [relL_append, relL_cons] using hr
  · simpa [taken_append, taken_cons, takenOf] using htnd

/-- Conn.Close of a connection accepted during the phase, second segment: unregister from the table -/
theorem inv_alock {a : Nat} {s : Sys} {l1 l2 : List Th} {i c0 : Nat}
    (h : Inv a s) (hs : s.ths = l1 ++ ⟨.acloser i, .atLock⟩ :: l2) (hai : accL s.ths i = some c0)
    (hpend : s.arrPending = false)
    (tb' : List Nat) (htb : tb' = s.table.filter (· ≠ c0))
    (p' : Pc) (hp' : (p' = .atWait ∧ tb' = [] ∧ s.accepting = false) ∨ p' = .done .ok) :
    Inv a { s with table := tb', ths := l1 ++ ⟨.acloser i, p'⟩ :: l2 } := by
  -- the connection being closed was handed out during the phase
  obtain ⟨hc0a, hc0q⟩ : a ≤ c0 ∧ c0 ∉ s.acceptQ := by
    obtain ⟨x, hx, hxp⟩ := (mem_taken _ _).1 (accL_mem_taken hai)
    have := (h.thr x hx).2.2.2.2.1 c0 hxp
    exact ⟨this.1, this.2.2.2⟩
  have hcount := h.count; have htbl := h.tbl; have hacc := h.acc; have htnd := h.tnd
  rw [hs] at hcount htbl hacc htnd hai
  have hp0 : p' ≠ .start := by rcases hp' with ⟨rfl, _⟩ | rfl <;> simp
  have hai' : accL (l1 ++ ⟨.acloser i, p'⟩ :: l2) i = some c0 := by
    rw [accL_congr (th := ⟨.acloser i, .atLock⟩) (by simp [accOf])]; exact hai
  have hst : ∀ c', started (l1 ++ ⟨.acloser i, p'⟩ :: l2) c' = started (l1 ++ ⟨.acloser i, .atLock⟩ :: l2) c' := by
    intro c'; simp [started_append, started_cons]
  have hmem : ∀ c', c' ≠ c0 → c' ∈ s.table → c' ∈ tb' := by
    intro c' h1 h2
    rw [htb, List.mem_filter]
    exact ⟨h2, by simpa using h1⟩
  refine inv_mk0 (s' := { s with table := tb', ths := l1 ++ ⟨.acloser i, p'⟩ :: l2 })
    (th' := ⟨.acloser i, p'⟩) h hs rfl rfl (by simp [accOf]) (fun _ => hp0) ?_ ?_ ?_ h.sock h.rwg ?_ h.qnd h.nge ?_ ?_ ?_ ?_
  · refine ⟨fun _ h => h, ?_, id, ?_, fun _ h => h⟩
    · intro ht _ _
      show tb' = []
      rw [htb, ht]; rfl
    · intro c' h1 h2 h4
      refine ⟨h2, fun h3 => ?_, h4⟩
      by_cases hcc : c' = c0
      · subst hcc
        right
        show tgtd (l1 ++ ⟨.acloser i, p'⟩ :: l2) c' = true
        rw [tgtd_true_iff]
        exact ⟨⟨.acloser i, p'⟩, by simp, i, rfl, hp0, hai'⟩
      · exact Or.inl (hmem c' hcc h3)
  · have h6 : ∀ j, Role.acloser i = .acloser j → p' ≠ .start →
        ∃ c, accL (l1 ++ ⟨.acloser i, p'⟩ :: l2) j = some c := by
      intro j hr _
      simp only [Role.acloser.injEq] at hr
      subst hr
      exact ⟨c0, hai'⟩
    rcases hp' with ⟨rfl, ht, ha⟩ | rfl
    · exact ⟨by simp, fun _ => ⟨ht, ha, hpend⟩, by simp, by simp, by simp, h6⟩
    · exact ⟨by simp, by simp, by simp, by simp, by simp, h6⟩
  · show s.wg + astarted _ = _ + s.acceptQ.length + _ + _
    have hA : astarted (l1 ++ ⟨.acloser i, p'⟩ :: l2) = astarted (l1 ++ ⟨.acloser i, .atLock⟩ :: l2) := by
      simp [astarted_append, astarted_cons, isAcl, hp0]
    rw [hA, hcount, openCnt_congr _ _ _ hst]
    rcases hp' with ⟨rfl, _⟩ | rfl <;> simp [relL_append, relL_cons, taken_append, taken_cons, takenOf]
  · intro c' hc'
    have := h.qok c' hc'
    refine ⟨this.1, this.2.1, hmem c' ?_ this.2.2⟩
    intro e
    subst e
    exact hc0q hc'
  · intro ha
    have := hacc ha
    simpa [lstarted_append, lstarted_cons] using this
  · intro c' h1 h2
    show started _ c' = true
    rw [hst]
    exact htbl c' h1 (fun hm => h2 (hmem c' (by omega) hm))
  · intro hr
    apply h.rel
    rw [hs]
    rcases hp' with ⟨rfl, _⟩ | rfl <;> simpa [relL_append, relL_cons] using hr
  · rcases hp' with ⟨rfl, _⟩ | rfl <;> simpa [taken_append, taken_cons, takenOf] using htnd

theorem frame_arrive (a : Nat) (s : Sys) (q' : List Nat) (hq : q' = s.acceptQ ∨ q' = s.acceptQ ++ [s.nextConn])
    (hp : s.arrPending = true) (ths' : List Th) :
    Frame a false s { s with arrPending := false, nextConn := s.nextConn + 1, wg := s.wg + 1,
                             table := s.table ++ [s.nextConn], acceptQ := q', ths := ths' } := by
  refine ⟨fun _ h => h, ?_, id, ?_, ?_⟩
  · intro _ _ hf
    rw [hp] at hf; cases hf
  · intro c h1 h2 h4
    refine ⟨by show c < s.nextConn + 1; omega, fun h3 => Or.inl (by show c ∈ s.table ++ [s.nextConn]; simp [h3]), ?_⟩
    show c ∉ q'
    rcases hq with rfl | rfl
    · exact h4
    · simp [h4]; omega
  · intro _ hf
    exact absurd hf (by simp [hp])

/-- the admission check of `getConn` succeeds: the arrival is in flight -/
theorem inv_begin {a : Nat} {s : Sys} (h : Inv a s) (hacc : s.accepting = true) :
    Inv a { s with arrPending := true } := by
  refine ⟨h.wf, h.count, h.sock, h.rwg, h.qok, h.qnd, h.nge, h.acc, h.tbl, ?_, ?_, h.tnd⟩
  · intro hr
    have : relL s.ths = true := hr
    have := acc_of_relL h this
    rw [hacc] at this; cases this
  · refine thr_frame h.thr ⟨fun _ h => h, fun h _ _ => h, id, fun _ _ h2 h4 => ⟨h2, Or.inl, h4⟩, ?_⟩ rfl
    intro hf
    rw [hacc] at hf; cases hf

/-- the arrival in flight finds the backlog full: nothing is created -/
theorem inv_unpend {a : Nat} {s : Sys} (h : Inv a s) : Inv a { s with arrPending := false } := by
  refine ⟨h.wf, h.count, h.sock, h.rwg, h.qok, h.qnd, h.nge, h.acc, h.tbl, ?_, ?_, h.tnd⟩
  · intro hr
    exact ⟨rfl, (h.rel hr).2⟩
  · exact thr_frame h.thr ⟨fun _ h => h, fun h _ _ => h, id, fun _ _ h2 h4 => ⟨h2, Or.inl, h4⟩, fun _ _ => rfl⟩ rfl

/-- a new remote's first datagram, handed directly to an Accept blocked in its select -/
theorem inv_give {a : Nat} {s : Sys} {l1 l2 : List Th} {r : Role}
    (h : Inv a s) (hs : s.ths = l1 ++ ⟨r, .parkedSelect⟩ :: l2) (hp : s.arrPending = true) :
    Inv a { s with arrPending := false, nextConn := s.nextConn + 1, wg := s.wg + 1, table := s.table ++ [s.nextConn],
                   ths := l1 ++ ⟨r, .done (.conn s.nextConn)⟩ :: l2 } := by
  have hsc := sock_of_pend h hp
  have hrel := relL_of_pend h hp
  have hcount := h.count; have htbl := h.tbl; have hthr := h.thr; have hacc := h.acc; have htnd := h.tnd
  rw [hs] at hcount htbl hthr hacc hrel htnd
  have hr : r ≠ .lcloser := by
    intro hr
    have := (hthr ⟨r, .parkedSelect⟩ (by simp)).2.2.1 hr
    simp at this
  have hst : ∀ c', started (l1 ++ ⟨r, .done (.conn s.nextConn)⟩ :: l2) c' = started (l1 ++ ⟨r, .parkedSelect⟩ :: l2) c' := by
    intro c'; simp [started_append, started_cons]
  refine inv_mk0 (s' := { s with arrPending := false, nextConn := s.nextConn + 1, wg := s.wg + 1, table := s.table ++ [s.nextConn], ths := l1 ++ ⟨r, .done (.conn s.nextConn)⟩ :: l2 })
    (th' := ⟨r, .done (.conn s.nextConn)⟩) h hs rfl rfl (by simp [accOf_some]) (by simp) ?_ ?_ ?_ ?_ ?_ ?_ h.qnd ?_ ?_ ?_ ?_ ?_
  · exact frame_arrive a s s.acceptQ (Or.inl rfl) hp _
  · refine ⟨by simp, by simp, fun h => absurd h hr, fun h => absurd h hr, ?_, ?_⟩
    · intro c hc
      simp only [Pc.done.injEq, Res.conn.injEq] at hc
      subst hc
      refine ⟨h.nge, by show s.nextConn < s.nextConn + 1; omega,
        Or.inl (by show s.nextConn ∈ s.table ++ [s.nextConn]; simp), ?_⟩
      intro hm
      have := (h.qok _ hm).2.1
      omega
    · intro j hrj _
      obtain ⟨c, hc⟩ := (hthr ⟨r, .parkedSelect⟩ (by simp)).2.2.2.2.2 j hrj (by simp)
      rw [hs] at hc
      exact ⟨c, accL_stable0 (by simp [accOf_some]) j c hc⟩
  · show s.wg + 1 + astarted _ = _ + s.acceptQ.length + _ + _
    have hA : astarted (l1 ++ ⟨r, .done (.conn s.nextConn)⟩ :: l2) = astarted (l1 ++ ⟨r, .parkedSelect⟩ :: l2) := by
      simp [astarted_append, astarted_cons]
    rw [hA, openCnt_congr _ _ _ hst]
    simp [relL_append, relL_cons, taken_append, taken_cons, takenOf, hr] at hcount ⊢
    omega
  · show s.sockClosed = true ↔ s.wg + 1 = 0
    simp [hsc]
  · intro hh
    have : s.sockClosed = true := hh
    rw [hsc] at this; cases this
  · intro c hc
    have := h.qok c hc
    exact ⟨this.1, by show c < s.nextConn + 1; omega, by show c ∈ s.table ++ [s.nextConn]; simp [this.2.2]⟩
  · show a ≤ s.nextConn + 1
    have := h.nge; omega
  · intro ha
    have := hacc ha
    simpa [lstarted_append, lstarted_cons, hr] using this
  · intro c' h1 h2
    show started _ c' = true
    rw [hst]
    apply htbl c' h1
    intro hm
    apply h2
    show c' ∈ s.table ++ [s.nextConn]
    simp [hm]
  · intro hr'
    have hr' : relL (l1 ++ ⟨r, .done (.conn s.nextConn)⟩ :: l2) = true := hr'
    simp [relL_append, relL_cons, hr] at hr' hrel
    rcases hr' with e | e <;> simp [e] at hrel
  · show (taken (l1 ++ ⟨r, .done (.conn s.nextConn)⟩ :: l2)).Nodup
    have hnot : s.nextConn ∉ taken l1 ++ taken l2 := by
      intro hm
      have hm' : s.nextConn ∈ taken (l1 ++ ⟨r, .parkedSelect⟩ :: l2) := by
        simpa [taken_append, taken_cons, takenOf] using hm
      obtain ⟨x, hx, hxp⟩ := (mem_taken _ _).1 hm'
      have := ((hthr x hx).2.2.2.2.1 _ hxp).2.1
      omega
    have htnd' : (taken l1 ++ taken l2).Nodup := by
      simpa [taken_append, taken_cons, takenOf] using htnd
    have : taken (l1 ++ ⟨r, .done (.conn s.nextConn)⟩ :: l2) = taken l1 ++ s.nextConn :: taken l2 := by
      simp [taken_append, taken_cons, takenOf]
    rw [this]
    exact (List.perm_middle.nodup_iff).2 (List.nodup_cons.2 ⟨hnot, htnd'⟩)

/-- a new remote's first datagram, queued for Accept -/
theorem inv_queue {a : Nat} {s : Sys}
    (h : Inv a s) (hp : s.arrPending = true) :
    Inv a { s with arrPending := false, nextConn := s.nextConn + 1, wg := s.wg + 1, table := s.table ++ [s.nextConn],
                   acceptQ := s.acceptQ ++ [s.nextConn] } := by
  have hsc := sock_of_pend h hp
  have hrel := relL_of_pend h hp
  refine ⟨h.wf, ?_, ?_, ?_, ?_, ?_, ?_, h.acc, ?_, ?_, ?_, h.tnd⟩
  · show s.wg + 1 + astarted s.ths = _ + (s.acceptQ ++ [s.nextConn]).length + _ + _
    have := h.count
    simp
    omega
  · show s.sockClosed = true ↔ s.wg + 1 = 0
    simp [hsc]
  · intro hh
    have : s.sockClosed = true := hh
    rw [hsc] at this; cases this
  · intro c hc
    have hc : c ∈ s.acceptQ ++ [s.nextConn] := hc
    show a ≤ c ∧ c < s.nextConn + 1 ∧ c ∈ s.table ++ [s.nextConn]
    simp only [List.mem_append, List.mem_singleton] at hc ⊢
    rcases hc with hc | rfl
    · have := h.qok c hc
      exact ⟨this.1, by omega, Or.inl this.2.2⟩
    · exact ⟨h.nge, by omega, Or.inr rfl⟩
  · show (s.acceptQ ++ [s.nextConn]).Nodup
    rw [List.nodup_append]
    refine ⟨h.qnd, by simp, ?_⟩
    intro x hx y hy
    simp at hy
    subst hy
    have := (h.qok x hx).2.1
    omega
  · show a ≤ s.nextConn + 1
    have := h.nge; omega
  · intro c' h1 h2
    apply h.tbl c' h1
    intro hm
    apply h2
    show c' ∈ s.table ++ [s.nextConn]
    simp [hm]
  · intro hr
    have : relL s.ths = true := hr
    rw [hrel] at this; cases this
  · exact thr_frame h.thr (frame_arrive a s _ (Or.inr rfl) hp _) rfl

end TV.Proofs.ListenerLife
