import TransportVerif.Proofs.ReplayBase
/- the refinement invariant of the plain detector and its preservation -/
namespace TV.Proofs.Replay
open TV TV.Replay TV.ReplayLink TV.FixedBig TV.ReplaySpec

structure Rp (w m : Nat) (d : Det) (h : Hist) : Prop where
  kind : d.kind = .plain
  max : d.maxSeq = m
  win : d.windowSize = w
  wf : Wf d.mask
  n : d.mask.n = w
  latest : d.latestSeq = h.latest
  le : ∀ e ∈ h.acc, e.1 ≤ h.latest
  bits : ∀ i, i < w → (d.mask.bit i = true ↔ ∃ e ∈ h.acc, e.1 + i = h.latest)
  fresh : h.started = false → h.acc = [] ∧ h.latest = 0
  started : h.started = true → ∃ e ∈ h.acc, e.1 = h.latest

theorem Rp_new (w m : Nat) : Rp w m (Det.new .plain w m) Hist.empty where
  kind := rfl
  max := rfl
  win := rfl
  wf := new_wf w
  n := rfl
  latest := rfl
  le := by intro e he; simp [Hist.empty] at he
  bits := by
    intro i _
    simp [Det.new, new_bit, Hist.empty]
  fresh := by intro _; exact ⟨rfl, rfl⟩
  started := by intro h; simp [Hist.empty] at h

/-- the value of C05's rule for the plain detector -/
def valP (w m : Nat) (h : Hist) (x : Nat) : Bool :=
  decide (x ≤ m) && !(h.acc.any (fun e => e.1 == x)) && (decide (h.latest < x) || decide (h.latest - x < w))

theorem expectedOk_plain (w m : Nat) (h : Hist) (x : Nat) :
    expectedOk (cfgOf .plain w m) h x =
      if !(cfgOf .plain w m).inScope then none else some (valP w m h x) := rfl

theorem expectedLatest_plain (w m : Nat) (h : Hist) (x : Nat) :
    expectedLatest (cfgOf .plain w m) h x =
      if !(cfgOf .plain w m).inScope then none else some (decide (h.latest < x) || !h.started) := rfl

theorem mustRefuse_plain (w m : Nat) (h : Hist) (x : Nat) :
    mustRefuse (cfgOf .plain w m) h x = (decide (m < x) || h.acc.any (fun e => e.1 == x)) := rfl

theorem any_fst (acc : List (Nat × Nat)) (x : Nat) :
    acc.any (fun e => e.1 == x) = true ↔ ∃ e ∈ acc, e.1 = x := by
  simp only [List.any_eq_true, beq_iff_eq]

theorem plain_refused_good (w m : Nat) (d : Det) (h : Hist) (x : Nat)
    (hc : check d x = .refused) (hv : valP w m h x = false) :
    CheckGood (cfgOf .plain w m) (Rp w m) d h x := by
  left
  refine ⟨hc, ?_⟩
  rw [expectedOk_plain]
  split
  · simp
  · simp [hv]

theorem plain_checkGood (w m : Nat) (d : Det) (h : Hist) (x : Nat) (hR : Rp w m d h) :
    CheckGood (cfgOf .plain w m) (Rp w m) d h x := by
  have hk := hR.kind
  have hcheck : check d x = plainCheck d x := by unfold check; rw [hk]
  by_cases h1 : m < x
  · apply plain_refused_good
    · rw [hcheck]; unfold plainCheck; rw [if_pos (by rw [hR.max]; exact h1)]
    · have : ¬ x ≤ m := by omega
      simp [valP, this]
  by_cases h2 : x ≤ h.latest ∧ w ≤ h.latest - x
  · apply plain_refused_good
    · rw [hcheck]; unfold plainCheck
      rw [if_neg (by rw [hR.max]; exact h1), if_pos (by rw [hR.win, hR.latest]; exact h2)]
    · have a : ¬ h.latest < x := by omega
      have b : ¬ h.latest - x < w := by omega
      simp [valP, a, b]
  by_cases h3 : x ≤ h.latest ∧ d.mask.bit (h.latest - x) = true
  · apply plain_refused_good
    · rw [hcheck]; unfold plainCheck
      rw [if_neg (by rw [hR.max]; exact h1), if_neg (by rw [hR.win, hR.latest]; exact h2),
        if_pos (by rw [hR.latest]; exact h3)]
    · obtain ⟨e, he, hex⟩ := (hR.bits (h.latest - x) (by omega)).1 h3.2
      have : h.acc.any (fun e => e.1 == x) = true := (any_fst _ _).2 ⟨e, he, by omega⟩
      simp [valP, this]
  -- accepted
  have hpre : plainCheck d x =
      (if d.latestSeq < x then
        .ok { d with mask := (d.mask.lsh (x - d.latestSeq)).setBit 0, latestSeq := x } true
      else
        .ok { d with mask := d.mask.setBit (d.latestSeq - x) } (x == 0 && d.latestSeq == 0)) := by
    unfold plainCheck
    rw [if_neg (by rw [hR.max]; exact h1), if_neg (by rw [hR.win, hR.latest]; exact h2),
      if_neg (by rw [hR.latest]; exact h3)]
  right
  by_cases h4 : h.latest < x
  · -- the window moves
    have hnot : ¬ ∃ e ∈ h.acc, e.1 = x := by
      rintro ⟨e, he, hex⟩
      have := hR.le e he
      omega
    have hany : h.acc.any (fun e => e.1 == x) = false := by
      rw [Bool.eq_false_iff]; intro hh; exact hnot ((any_fst _ _).1 hh)
    refine ⟨_, true, by rw [hcheck, hpre, if_pos (by rw [hR.latest]; exact h4)], ?_, ?_, ?_, ?_⟩
    · have hrec : h.record (cfgOf .plain w m) x true =
          { started := true, latest := x,
            acc := (x, 0) :: h.acc.map (fun e => (e.1, e.2 + (x - h.latest))) } := by
        show (if h.latest < x then _ else _) = _
        rw [if_pos h4]
      rw [hrec, hR.latest]
      have hwf : Wf (d.mask.lsh (x - h.latest)) := lsh_wf _ _ hR.wf
      refine ⟨hR.kind, hR.max, hR.win, setBit_wf _ _ hwf, ?_, rfl, ?_, ?_, ?_, ?_⟩
      · show ((d.mask.lsh (x - h.latest)).setBit 0).n = w
        rw [setBit_n, lsh_n, hR.n]
      · intro e he
        simp only [List.mem_cons, List.mem_map] at he
        rcases he with rfl | ⟨e0, he0, rfl⟩
        · exact Nat.le_refl _
        · have := hR.le e0 he0
          show e0.1 ≤ x
          omega
      · intro i hi
        show ((d.mask.lsh (x - h.latest)).setBit 0).bit i = true ↔ _
        rw [setBit_bit _ hwf, lsh_n, lsh_bit _ hR.wf _ _ (by omega), hR.n]
        simp only [Bool.and_eq_true, Bool.or_eq_true, decide_eq_true_eq, List.mem_cons,
          List.mem_map]
        constructor
        · rintro ⟨_, h0 | ⟨⟨hki, _⟩, hb⟩⟩
          · exact ⟨(x, 0), Or.inl rfl, by simp [h0]⟩
          · obtain ⟨e0, he0, hs⟩ := (hR.bits (i - (x - h.latest)) (by omega)).1 hb
            refine ⟨(e0.1, e0.2 + (x - h.latest)), Or.inr ⟨e0, he0, rfl⟩, ?_⟩
            show e0.1 + i = x
            omega
        · rintro ⟨e, rfl | ⟨e0, he0, rfl⟩, hs⟩
          · simp only at hs
            exact ⟨hi, Or.inl (by omega)⟩
          · have hle := hR.le e0 he0
            have hs' : e0.1 + i = x := hs
            refine ⟨hi, Or.inr ⟨⟨by omega, hi⟩, ?_⟩⟩
            exact (hR.bits (i - (x - h.latest)) (by omega)).2 ⟨e0, he0, by omega⟩
      · intro hh; cases hh
      · intro _; exact ⟨(x, 0), by simp, rfl⟩
    · rw [mustRefuse_plain, hany]; simp; omega
    · rw [expectedOk_plain]
      split
      · simp
      · have : x ≤ m := by omega
        simp [valP, hany, h4, this]
    · rw [expectedLatest_plain]
      split
      · simp
      · simp [h4]
  · -- inside the window
    have hxl : x ≤ h.latest := by omega
    have hlt : h.latest - x < w := by omega
    have hbit : d.mask.bit (h.latest - x) = false := by
      rw [Bool.eq_false_iff]; intro hh; exact h3 ⟨hxl, hh⟩
    have hnot : ¬ ∃ e ∈ h.acc, e.1 = x := by
      rintro ⟨e, he, hex⟩
      have := (hR.bits (h.latest - x) hlt).2 ⟨e, he, by omega⟩
      rw [hbit] at this; cases this
    have hany : h.acc.any (fun e => e.1 == x) = false := by
      rw [Bool.eq_false_iff]; intro hh; exact hnot ((any_fst _ _).1 hh)
    have hflag : (x == 0 && h.latest == 0) = !h.started := by
      cases hs : h.started
      · obtain ⟨_, hl0⟩ := hR.fresh hs
        have : x = 0 := by omega
        simp [this, hl0]
      · obtain ⟨e, he, hel⟩ := hR.started hs
        have : ¬ (x = 0 ∧ h.latest = 0) := by
          rintro ⟨hx0, hl0⟩
          exact hnot ⟨e, he, by omega⟩
        simp only [Bool.not_true, Bool.and_eq_false_imp, beq_iff_eq, beq_eq_false_iff_ne]
        intro hx0 hl0; exact this ⟨hx0, hl0⟩
    refine ⟨_, (x == 0 && h.latest == 0),
      by rw [hcheck, hpre, if_neg (by rw [hR.latest]; exact h4), hR.latest], ?_, ?_, ?_, ?_⟩
    · have hrec : h.record (cfgOf .plain w m) x (x == 0 && h.latest == 0) =
          { h with started := true, acc := (x, h.latest - x) :: h.acc } := by
        show (if h.latest < x then _ else _) = _
        rw [if_neg h4]
      rw [hrec]
      refine ⟨hR.kind, hR.max, hR.win, setBit_wf _ _ hR.wf, ?_, rfl, ?_, ?_, ?_, ?_⟩
      · show (d.mask.setBit (h.latest - x)).n = w
        rw [setBit_n, hR.n]
      · intro e he
        simp only [List.mem_cons] at he
        rcases he with rfl | he
        · exact hxl
        · exact hR.le e he
      · intro i hi
        show (d.mask.setBit (h.latest - x)).bit i = true ↔ _
        rw [setBit_bit _ hR.wf, hR.n]
        simp only [Bool.and_eq_true, Bool.or_eq_true, decide_eq_true_eq, List.mem_cons]
        constructor
        · rintro ⟨_, h0 | hb⟩
          · exact ⟨(x, h.latest - x), Or.inl rfl, by simp only; omega⟩
          · obtain ⟨e0, he0, hs⟩ := (hR.bits i hi).1 hb
            exact ⟨e0, Or.inr he0, hs⟩
        · rintro ⟨e, rfl | he0, hs⟩
          · simp only at hs
            exact ⟨hi, Or.inl (by omega)⟩
          · exact ⟨hi, Or.inr ((hR.bits i hi).2 ⟨e, he0, hs⟩)⟩
      · intro hh; cases hh
      · intro _
        show ∃ e ∈ (x, h.latest - x) :: h.acc, e.1 = h.latest
        cases hs : h.started
        · obtain ⟨_, hl0⟩ := hR.fresh hs
          exact ⟨(x, h.latest - x), by simp, by simp only; omega⟩
        · obtain ⟨e, he, hel⟩ := hR.started hs
          exact ⟨e, by simp [he], hel⟩
    · rw [mustRefuse_plain, hany]; simp; omega
    · rw [expectedOk_plain]
      split
      · simp
      · have : x ≤ m := by omega
        simp [valP, hany, hlt, this]
    · rw [expectedLatest_plain]
      split
      · simp
      · rw [hflag]; simp [h4]

end TV.Proofs.Replay
