import TransportVerif.Proofs.ListenerLifeStep
/-
C12 proofs, part 4: every reachable state satisfies the invariant; the consequences used in Props/C12.
-/
namespace TV.Proofs.ListenerLife
open TV TV.ListenerLife TV.LifeLink

theorem setPc_eq' (s : Sys) (l1 l2 : List Th) (th : Th) (pc : Pc) (hs : s.ths = l1 ++ th :: l2) :
    s.setPc l1.length pc = { s with ths := l1 ++ ⟨th.role, pc⟩ :: l2 } :=
  setPc_eq s l1 l2 th hs _ rfl pc

theorem casc_setPc (s : Sys) (l1 l2 : List Th) (th : Th) (pc : Pc) (hs : s.ths = l1 ++ th :: l2) :
    s.cascade.setPc l1.length pc =
      { s with sockClosed := s.sockClosed || (decide (s.wg = 0) && !s.sockClosed),
               readWG := if (decide (s.wg = 0) && !s.sockClosed) = true then 0 else s.readWG,
               ths := l1.map (wk (decide (s.wg = 0) && !s.sockClosed) (decide (s.wg = 0) && !s.sockClosed)) ++
                 ⟨th.role, pc⟩ :: l2.map (wk (decide (s.wg = 0) && !s.sockClosed) (decide (s.wg = 0) && !s.sockClosed)) } := by
  rw [cascade_eq]
  rw [setPc_eq _ (l1.map (wk (decide (s.wg = 0) && !s.sockClosed) (decide (s.wg = 0) && !s.sockClosed)))
    (l2.map (wk (decide (s.wg = 0) && !s.sockClosed) (decide (s.wg = 0) && !s.sockClosed)))
    (wk (decide (s.wg = 0) && !s.sockClosed) (decide (s.wg = 0) && !s.sockClosed) th) (by simp [hs]) l1.length (by simp)]
  rfl

theorem setPc_casc (s : Sys) (l1 l2 : List Th) (th : Th) (pc : Pc) (hs : s.ths = l1 ++ th :: l2)
    (hpc : ∀ b, wkPc b b pc = pc) :
    (s.setPc l1.length pc).cascade =
      { s with sockClosed := s.sockClosed || (decide (s.wg = 0) && !s.sockClosed),
               readWG := if (decide (s.wg = 0) && !s.sockClosed) = true then 0 else s.readWG,
               ths := l1.map (wk (decide (s.wg = 0) && !s.sockClosed) (decide (s.wg = 0) && !s.sockClosed)) ++
                 ⟨th.role, pc⟩ :: l2.map (wk (decide (s.wg = 0) && !s.sockClosed) (decide (s.wg = 0) && !s.sockClosed)) } := by
  rw [setPc_eq' s l1 l2 th pc hs, cascade_eq]
  simp [wk, hpc]

/-- the segment before `readWG.Wait()`: return at once if the read loop is gone, else block -/
theorem inv_wait {a : Nat} {s : Sys} {l1 l2 : List Th} {r : Role}
    (h : Inv a s) (hs : s.ths = l1 ++ ⟨r, .atWait⟩ :: l2) :
    Inv a (if s.readWG = 0 then { s with ths := l1 ++ ⟨r, .done .ok⟩ :: l2 } else { s with ths := l1 ++ ⟨r, .parkedWait⟩ :: l2 }) := by
  have hthr := h.thr ⟨r, .atWait⟩ (by rw [hs]; simp)
  split
  · exact inv_quiet h hs (by simp) (by simp) (by simp) rfl (by simp) (by simp)
      ⟨by simp, by simp, by simp, fun hr _ => hthr.2.2.2.1 hr (by simp), by simp,
        fun i hr _ => hthr.2.2.2.2.2 i hr (by simp)⟩
  · next hrw =>
    refine inv_quiet h hs (by simp) (by simp) (by simp) rfl (by simp) (by simp) ⟨?_, fun _ => hthr.2.1 (Or.inl rfl), by simp,
      fun hr _ => hthr.2.2.2.1 hr (by simp), by simp, fun i hr _ => hthr.2.2.2.2.2 i hr (by simp)⟩
    intro _
    cases hsc : s.sockClosed with
    | false => rfl
    | true => exact absurd (h.rwg hsc) hrw

theorem inv_step {a : Nat} {s : Sys} (h : Inv a s) (t : Nat) : Inv a (step s t) := by
  unfold step
  cases hth : s.ths[t]? with
  | none => exact h
  | some th =>
    obtain ⟨l1, l2, hs, rfl⟩ := split_at _ _ _ hth
    cases th with | mk r p =>
    have hwait : ∀ r, s.ths = l1 ++ ⟨r, .atWait⟩ :: l2 →
        Inv a (if s.readWG = 0 then s.setPc l1.length (.done .ok) else s.setPc l1.length .parkedWait) := by
      intro r hs
      rw [setPc_eq' s l1 l2 _ _ hs, setPc_eq' s l1 l2 _ _ hs]
      exact inv_wait h hs
    cases r with
    | acceptor =>
      cases p with
      | start =>
        simp only [setPc_eq' s l1 l2 _ _ hs]
        exact inv_quiet h hs (by simp) (by simp) (by simp) rfl (by simp) (by simp) ⟨by simp, by simp, by simp, by simp, by simp, by simp⟩
      | atSelect =>
        simp only
        cases hq : s.acceptQ with
        | nil =>
          simp only
          split
          · simp only [setPc_eq' s l1 l2 _ _ hs]
            exact inv_quiet h hs (by simp) (by simp) (by simp) rfl (by simp) (by simp) ⟨by simp, by simp, by simp, by simp, by simp, by simp⟩
          · simp only [setPc_eq' s l1 l2 _ _ hs]
            exact inv_quiet h hs (by simp) (by simp) (by simp) rfl (by simp) (by simp) ⟨by simp, by simp, by simp, by simp, by simp, by simp⟩
        | cons c rest =>
          simp only
          rw [setPc_eq' { s with acceptQ := rest } l1 l2 _ _ hs]
          have := inv_take h hs hq
          exact this
      | atWait => exact hwait _ hs
      | _ => exact h
    | lcloser =>
      cases p with
      | start =>
        simp only [wakeSel_eq]
        rw [setPc_eq { s with accepting := false, doneClosed := true, ths := s.ths.map (wk true false) }
          (l1.map (wk true false)) (l2.map (wk true false)) ⟨.lcloser, .start⟩ (by simp [hs, wk, wkPc]) l1.length (by simp)]
        have := inv_lstart h hs
        exact this
      | atLock =>
        simp only
        by_cases hpend' : s.arrPending = true
        · rw [if_pos hpend']; exact h
        rw [if_neg hpend']
        have hpend : s.arrPending = false := by simpa using hpend'
        rw [casc_setPc _ l1 l2 ⟨.lcloser, .atLock⟩ .atWait, casc_setPc _ l1 l2 ⟨.lcloser, .atLock⟩ (.done .ok)] <;> try exact hs
        split
        · next hl =>
          have := inv_llock h hs hpend _ rfl _ rfl .atWait (Or.inl ⟨rfl, List.isEmpty_iff.1 hl⟩)
          exact this
        · have := inv_llock h hs hpend _ rfl _ rfl (.done .ok) (Or.inr rfl)
          exact this
      | atWait => exact hwait _ hs
      | _ => exact h
    | ccloser c =>
      cases p with
      | start =>
        simp only
        rw [setPc_casc _ l1 l2 ⟨.ccloser c, .start⟩ .atLock (hpc := by intro b; cases b <;> rfl)] <;> try exact hs
        have := inv_cstart h hs _ rfl
        exact this
      | atLock =>
        simp only
        by_cases hpend' : s.arrPending = true
        · rw [if_pos hpend']; exact h
        rw [if_neg hpend']
        have hpend : s.arrPending = false := by simpa using hpend'
        rw [setPc_eq' _ l1 l2 ⟨.ccloser c, .atLock⟩ .atWait, setPc_eq' _ l1 l2 ⟨.ccloser c, .atLock⟩ (.done .ok)] <;> try exact hs
        split
        · next hl =>
          have := inv_clock h hs hpend _ rfl .atWait (Or.inl ⟨rfl, List.isEmpty_iff.1 hl.1, by simpa using hl.2⟩)
          exact this
        · have := inv_clock h hs hpend _ rfl (.done .ok) (Or.inr rfl)
          exact this
      | atWait => exact hwait _ hs
      | _ => exact h
    | acloser i =>
      cases p with
      | start =>
        simp only
        cases hai : s.accepted? i with
        | none => exact h
        | some c0 =>
          simp only
          rw [setPc_casc _ l1 l2 ⟨.acloser i, .start⟩ .atLock (hpc := by intro b; cases b <;> rfl)] <;> try exact hs
          have := inv_astart h hs (by rw [← accepted?_eq]; exact hai) _ rfl
          exact this
      | atLock =>
        simp only
        by_cases hpend' : s.arrPending = true
        · rw [if_pos hpend']; exact h
        rw [if_neg hpend']
        have hpend : s.arrPending = false := by simpa using hpend'
        cases hai : s.accepted? i with
        | none => exact h
        | some c0 =>
          simp only
          have hai' : accL s.ths i = some c0 := by rw [← accepted?_eq]; exact hai
          rw [setPc_eq' _ l1 l2 ⟨.acloser i, .atLock⟩ .atWait, setPc_eq' _ l1 l2 ⟨.acloser i, .atLock⟩ (.done .ok)] <;> try exact hs
          split
          · next hl =>
            have := inv_alock h hs hai' hpend _ rfl .atWait (Or.inl ⟨rfl, List.isEmpty_iff.1 hl.1, by simpa using hl.2⟩)
            exact this
          · have := inv_alock h hs hai' hpend _ rfl (.done .ok) (Or.inr rfl)
            exact this
      | atWait => exact hwait _ hs
      | _ => exact h

theorem find_parked (ths : List Th) (t : Nat)
    (h : (ths.zipIdx.find? (fun (e : Th × Nat) => e.1.pc = Pc.parkedSelect)).map (·.2) = some t) :
    ∃ r, ths[t]? = some ⟨r, .parkedSelect⟩ := by
  rw [Option.map_eq_some_iff] at h
  obtain ⟨⟨th, i⟩, hf, rfl⟩ := h
  have h1 := List.find?_some hf
  have h2 := List.mem_of_find?_eq_some hf
  rw [List.mk_mem_zipIdx_iff_getElem?] at h2
  simp only [decide_eq_true_eq] at h1
  cases th with | mk r p =>
  simp only at h1
  subst h1
  exact ⟨r, h2⟩

theorem inv_arriveBegin {a : Nat} {s : Sys} (h : Inv a s) : Inv a s.arriveBegin := by
  unfold Sys.arriveBegin
  split
  · exact h
  · next hc =>
    have hacc : s.accepting = true := by
      cases hh : s.accepting with
      | true => rfl
      | false => exact absurd (Or.inl (by simp [hh])) hc
    exact inv_begin h hacc

theorem inv_arriveEnd {a : Nat} {s : Sys} (h : Inv a s) (backlog : Nat) : Inv a (s.arriveEnd backlog) := by
  unfold Sys.arriveEnd
  split
  · exact h
  · next hc =>
    have hp : s.arrPending = true := by simpa using hc
    simp only
    split
    · exact inv_unpend h
    · split
      · next t ht =>
        obtain ⟨r, hth⟩ := find_parked _ _ ht
        obtain ⟨l1, l2, hs, rfl⟩ := split_at _ _ _ hth
        have hs' : s.ths = l1 ++ ⟨r, .parkedSelect⟩ :: l2 := hs
        rw [setPc_eq' _ l1 l2 ⟨r, .parkedSelect⟩ _] <;> try exact hs
        have := inv_give h hs' hp
        exact this
      · have := inv_queue h hp
        exact this

/-- `arriveEnd` with the receiving blocked acceptor named by the caller -/
theorem inv_arriveEndTo {a : Nat} {s : Sys} (h : Inv a s) (backlog pref : Nat) :
    Inv a (s.arriveEndTo backlog pref) := by
  unfold Sys.arriveEndTo
  split
  · exact h
  · next hc =>
    have hp : s.arrPending = true := by simpa using hc
    cases hth : s.ths[pref]? with
    | none => exact inv_arriveEnd h backlog
    | some th =>
      simp only
      split
      · next hc2 =>
        obtain ⟨l1, l2, hs, rfl⟩ := split_at _ _ _ hth
        cases th with | mk r p =>
        have hpc : p = .parkedSelect := hc2.1
        subst hpc
        rw [setPc_eq' _ l1 l2 ⟨r, .parkedSelect⟩ _] <;> try exact hs
        have := inv_give h hs hp
        exact this
      · exact inv_arriveEnd h backlog

theorem inv_arrive {a : Nat} {s : Sys} (h : Inv a s) (backlog : Nat) : Inv a (s.arrive backlog) :=
  inv_arriveEnd (inv_arriveBegin h) backlog

theorem inv_stepOp {a : Nat} {s : Sys} (h : Inv a s) (backlog : Nat) (op : Op) : Inv a (stepOp backlog s op) := by
  cases op with
  | grant t => exact inv_step h t
  | arrive => exact inv_arrive h backlog
  | arriveBegin => exact inv_arriveBegin h
  | arriveEnd => exact inv_arriveEnd h backlog
  | arriveEndTo t => exact inv_arriveEndTo h backlog t
  | arriveTo t => exact inv_arriveEndTo (inv_arriveBegin h) backlog t
  | grantErr t =>
    unfold stepOp
    simp only
    cases hth : s.ths[t]? with
    | none => exact h
    | some th =>
      simp only
      split
      · next hc =>
        obtain ⟨l1, l2, hs, rfl⟩ := split_at _ _ _ hth
        cases th with | mk r p =>
        obtain ⟨hr, hp, _⟩ := hc
        simp only at hr hp
        subst hr hp
        rw [setPc_eq' s l1 l2 _ _ hs]
        exact inv_quiet h hs (by simp) (by simp) (by simp) rfl (by simp) (by simp) ⟨by simp, by simp, by simp, by simp, by simp, by simp⟩
      · exact inv_step h t

theorem inv_run {a : Nat} (backlog : Nat) (ops : List Op) {s : Sys} (h : Inv a s) : Inv a (run backlog s ops) := by
  induction ops generalizing s with
  | nil => exact h
  | cons op ops ih => exact ih (inv_stepOp h backlog op)

/-! ### the initial state -/

theorem started_init (roles : List Role) (c : Nat) :
    started (roles.map (fun r => ({ role := r, pc := .start } : Th))) c = false := by
  induction roles with
  | nil => rfl
  | cons r rs ih => simp [started_cons, ih]

theorem relL_init (roles : List Role) : relL (roles.map (fun r => ({ role := r, pc := .start } : Th))) = false := by
  induction roles with
  | nil => rfl
  | cons r rs ih => simp [relL_cons, ih]

theorem taken_init (roles : List Role) : taken (roles.map (fun r => ({ role := r, pc := .start } : Th))) = [] := by
  induction roles with
  | nil => rfl
  | cons r rs ih => simp [taken_cons, ih, takenOf]

theorem astarted_init (roles : List Role) : astarted (roles.map (fun r => ({ role := r, pc := .start } : Th))) = 0 := by
  induction roles with
  | nil => rfl
  | cons r rs ih => simp [astarted_cons, ih]

theorem inv_init (a q : Nat) (roles : List Role) (hw : WfRoles a roles) : Inv a (Sys.init a q roles) := by
  refine ⟨?_, ?_, ?_, ?_, ?_, ?_, ?_, ?_, ?_, ?_, ?_, ?_⟩
  · simpa [Sys.init, List.map_map, Function.comp_def] using hw
  · show 1 + a + q + astarted _ = _ + ((List.range q).map (· + a)).length + openCnt a _ + (taken _).length
    simp only [Sys.init, relL_init, taken_init, openCnt, started_init, astarted_init]
    simp
    omega
  · simp [Sys.init]
  · simp [Sys.init]
  · intro c hc
    simp only [Sys.init, List.mem_map, List.mem_range] at hc ⊢
    obtain ⟨x, hx, rfl⟩ := hc
    omega
  · show ((List.range q).map (· + a)).Nodup
    rw [List.nodup_iff_pairwise_ne, List.pairwise_map]
    have := List.nodup_range (n := q)
    rw [List.nodup_iff_pairwise_ne] at this
    exact this.imp (by intro x y hxy; omega)
  · simp [Sys.init]
  · simp [Sys.init]
  · intro c h1 h2
    simp [Sys.init] at h2
    omega
  · intro hr
    simp [Sys.init, relL_init] at hr
  · intro th hth
    simp only [Sys.init, List.mem_map] at hth
    obtain ⟨r, _, rfl⟩ := hth
    exact ⟨by simp, by simp, by simp, by simp, by simp, by simp⟩
  · show (taken _).Nodup
    simp [Sys.init, taken_init]

theorem inv_reach {a q backlog : Nat} {roles : List Role} (ops : List Op) (hw : WfRoles a roles) :
    Inv a (run backlog (Sys.init a q roles) ops) :=
  inv_run backlog ops (inv_init a q roles hw)

/-! ### consequences -/

/-- everything handed out during the phase has an id from `a` on -/
theorem taken_ge {a : Nat} {s : Sys} (h : Inv a s) {c : Nat} (hc : c ∈ taken s.ths) : a ≤ c := by
  obtain ⟨th, hm, hp⟩ := (mem_taken _ _).1 hc
  exact ((h.thr th hm).2.2.2.2.1 c hp).1

theorem openHeld_of_inv {a : Nat} {s : Sys} (h : Inv a s) :
    openHeld a s + astarted s.ths = openCnt a s.ths + (taken s.ths).length := by
  rw [openHeld_eq, List.filter_append, List.length_append, openCnt, List.countP_eq_length_filter]
  have e1 : (List.range a).filter (fun c => !(started s.ths c || tgtd s.ths c)) = (List.range a).filter (fun c => !started s.ths c) := by
    apply List.filter_congr
    intro c hc
    rw [List.mem_range] at hc
    cases ht : tgtd s.ths c with
    | false => simp
    | true =>
      obtain ⟨x, _, i, _, _, hai⟩ := (tgtd_true_iff _ _).1 ht
      have := taken_ge h (accL_mem_taken hai)
      omega
  have e2 : (taken s.ths).filter (fun c => !(started s.ths c || tgtd s.ths c)) = (taken s.ths).filter (fun c => !tgtd s.ths c) := by
    apply List.filter_congr
    intro c hc
    have hge := taken_ge h hc
    cases hst : started s.ths c with
    | false => simp
    | true =>
      have := started_lt h.wf hst
      omega
  rw [e1, e2]
  have := count_taken h.wf5 h.tnd h.n2
  omega

theorem count_of_inv {a : Nat} {s : Sys} (h : Inv a s) : s.wg = listenerRef s + s.acceptQ.length + openHeld a s := by
  have := openHeld_of_inv h
  have := h.count
  rw [listenerRef_eq]
  omega

theorem sock_of_inv {a : Nat} {s : Sys} (h : Inv a s) :
    s.sockClosed = true ↔ (listenerRef s = 0 ∧ s.acceptQ.length = 0 ∧ openHeld a s = 0) := by
  rw [h.sock, count_of_inv h]
  omega

/-- once the listener has dropped its reference no arrival is in flight and nothing is queued -/
theorem drained_of_inv {a : Nat} {s : Sys} (h : Inv a s) (hl : listenerRef s = 0) :
    s.arrPending = false ∧ s.acceptQ = [] := by
  apply h.rel
  rw [listenerRef_eq] at hl
  cases hr : relL s.ths with
  | true => rfl
  | false => simp [hr] at hl

theorem stuck_of_inv {a : Nat} {s : Sys} (h : Inv a s) (hq : ∀ th ∈ s.ths, th.atYield = false) :
    ∀ th ∈ s.ths, th.pc ≠ .parkedWait := by
  intro th hm hp
  obtain ⟨t1, t2, _, _, _⟩ := h.thr th hm
  have hsc := t1 hp
  obtain ⟨htb, hacc, _⟩ := t2 (Or.inr hp)
  -- the listener closer has dropped its reference
  have hl := h.acc hacc
  simp only [lstarted, List.any_eq_true, decide_eq_true_eq] at hl
  obtain ⟨tl, hlm, hlr, hlp⟩ := hl
  have hly := hq tl hlm
  have hrel : relL s.ths = true := by
    simp only [relL, List.any_eq_true, decide_eq_true_eq]
    refine ⟨tl, hlm, hlr, ?_⟩
    rcases (h.thr tl hlm).2.2.1 hlr with e | e | e | e | e
    · exact absurd e hlp
    · simp [Th.atYield, e] at hly
    · simp [Th.atYield, e] at hly
    · exact Or.inr (Or.inl e)
    · exact Or.inr (Or.inr e)
  -- nothing queued, nothing handed out, every accepted connection's closer has started
  have hq0 : s.acceptQ = [] := by
    cases hq' : s.acceptQ with
    | nil => rfl
    | cons c rest =>
      have := (h.qok c (by simp [hq'])).2.2
      rw [htb] at this; cases this
  have htk : (taken s.ths).length = astarted s.ths := by
    have hcnt := count_taken h.wf5 h.tnd h.n2
    have : (taken s.ths).filter (fun c => !tgtd s.ths c) = [] := by
      rw [List.filter_eq_nil_iff]
      intro c hc
      obtain ⟨x, hx, hxp⟩ := (mem_taken s.ths c).1 hc
      have := ((h.thr x hx).2.2.2.2.1 c hxp).2.2.1
      rw [htb] at this
      rcases this with hh | hh
      · cases hh
      · simp [hh]
    rw [this] at hcnt
    simpa using hcnt.symm
  have hoc : openCnt a s.ths = 0 := by
    unfold openCnt
    rw [List.countP_eq_zero]
    intro c hc
    rw [List.mem_range] at hc
    have := h.tbl c hc (by rw [htb]; simp)
    simp [this]
  have hwg : s.wg = 0 := by
    have := h.count
    rw [hrel, hq0, htk, hoc] at this
    simp at this
    omega
  have := h.sock.2 hwg
  rw [hsc] at this; cases this

end TV.Proofs.ListenerLife
