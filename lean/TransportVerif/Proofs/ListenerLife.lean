import TransportVerif.Proofs.ListenerLifeStep
/-
C12 proofs, part 4: every reachable state satisfies the invariant; the consequences used in Props/C12.
-/
namespace TV.Proofs.ListenerLife
open TV TV.ListenerLife TV.LifeLink

theorem setPc_eq' (s : Sys) (l1 l2 : List Th) (th : Th) (pc : Pc) (hs : s.ths = l1 ++ th :: l2) :
    s.setPc l1.length pc = { s with ths := l1 ++ ⟨th.role, pc⟩ :: l2 } :=
  setPc_eq s l1 l2 th hs _ rfl pc

theorem casc_setPc (s : Sys) (l1 l2 : List Th) (th : Th) (pc : Pc) (hs : s.ths = l1 ++ th :: l2) :
    s.cascade.setPc l1.length pc =
      { s with sockClosed := s.sockClosed || (decide (s.wg = 0) && !s.sockClosed),
               readWG := if (decide (s.wg = 0) && !s.sockClosed) = true then 0 else s.readWG,
               ths := l1.map (wk (decide (s.wg = 0) && !s.sockClosed) (decide (s.wg = 0) && !s.sockClosed)) ++
                 ⟨th.role, pc⟩ :: l2.map (wk (decide (s.wg = 0) && !s.sockClosed) (decide (s.wg = 0) && !s.sockClosed)) } := by
  rw [cascade_eq]
  rw [setPc_eq _ (l1.map (wk (decide (s.wg = 0) && !s.sockClosed) (decide (s.wg = 0) && !s.sockClosed)))
    (l2.map (wk (decide (s.wg = 0) && !s.sockClosed) (decide (s.wg = 0) && !s.sockClosed)))
    (wk (decide (s.wg = 0) && !s.sockClosed) (decide (s.wg = 0) && !s.sockClosed) th) (by simp [hs]) l1.length (by simp)]
  rfl

theorem setPc_casc (s : Sys) (l1 l2 : List Th) (th : Th) (pc : Pc) (hs : s.ths = l1 ++ th :: l2)
    (hpc : ∀ b, wkPc b b pc = pc) :
    (s.setPc l1.length pc).cascade =
      { s with sockClosed := s.sockClosed || (decide (s.wg = 0) && !s.sockClosed),
               readWG := if (decide (s.wg = 0) && !s.sockClosed) = true then 0 else s.readWG,
               ths := l1.map (wk (decide (s.wg = 0) && !s.sockClosed) (decide (s.wg = 0) && !s.sockClosed)) ++
                 ⟨th.role, pc⟩ :: l2.map (wk (decide (s.wg = 0) && !s.sockClosed) (decide (s.wg = 0) && !s.sockClosed)) } := by
  rw [setPc_eq' s l1 l2 th pc hs, cascade_eq]
  simp [wk, hpc]

/-- the segment before `readWG.Wait()`: return at once if the read loop is gone, else block -/
theorem inv_wait {a : Nat} {s : Sys} {l1 l2 : List Th} {r : Role}
    (h : Inv a s) (hs : s.ths = l1 ++ ⟨r, .atWait⟩ :: l2) :
    Inv a (if s.readWG = 0 then { s with ths := l1 ++ ⟨r, .done .ok⟩ :: l2 } else { s with ths := l1 ++ ⟨r, .parkedWait⟩ :: l2 }) := by
  have hthr := h.thr ⟨r, .atWait⟩ (by rw [hs]; simp)
  split
  · exact inv_quiet h hs (by simp) rfl (by simp) (by simp)
      ⟨by simp, by simp, by simp, fun hr _ => hthr.2.2.2.1 hr (by simp), by simp⟩
  · next hrw =>
    refine inv_quiet h hs (by simp) rfl (by simp) (by simp) ⟨?_, fun _ => hthr.2.1 (Or.inl rfl), by simp,
      fun hr _ => hthr.2.2.2.1 hr (by simp), by simp⟩
    intro _
    cases hsc : s.sockClosed with
    | false => rfl
    | true => exact absurd (h.rwg hsc) hrw

theorem inv_step {a : Nat} {s : Sys} (h : Inv a s) (t : Nat) : Inv a (step s t) := by
  unfold step
  cases hth : s.ths[t]? with
  | none => exact h
  | some th =>
    obtain ⟨l1, l2, hs, rfl⟩ := split_at _ _ _ hth
    cases th with | mk r p =>
    have hwait : ∀ r, s.ths = l1 ++ ⟨r, .atWait⟩ :: l2 →
        Inv a (if s.readWG = 0 then s.setPc l1.length (.done .ok) else s.setPc l1.length .parkedWait) := by
      intro r hs
      rw [setPc_eq' s l1 l2 _ _ hs, setPc_eq' s l1 l2 _ _ hs]
      exact inv_wait h hs
    cases r with
    | acceptor =>
      cases p with
      | start =>
        simp only [setPc_eq' s l1 l2 _ _ hs]
        exact inv_quiet h hs (by simp) rfl (by simp) (by simp) ⟨by simp, by simp, by simp, by simp, by simp⟩
      | atSelect =>
        simp only
        cases hq : s.acceptQ with
        | nil =>
          simp only
          split
          · simp only [setPc_eq' s l1 l2 _ _ hs]
            exact inv_quiet h hs (by simp) rfl (by simp) (by simp) ⟨by simp, by simp, by simp, by simp, by simp⟩
          · simp only [setPc_eq' s l1 l2 _ _ hs]
            exact inv_quiet h hs (by simp) rfl (by simp) (by simp) ⟨by simp, by simp, by simp, by simp, by simp⟩
        | cons c rest =>
          simp only
          rw [setPc_eq' { s with acceptQ := rest } l1 l2 _ _ hs]
          have := inv_take h hs hq
          exact this
      | atWait => exact hwait _ hs
      | _ => exact h
    | lcloser =>
      cases p with
      | start =>
        simp only [wakeSel_eq]
        rw [setPc_eq { s with accepting := false, doneClosed := true, ths := s.ths.map (wk true false) }
          (l1.map (wk true false)) (l2.map (wk true false)) ⟨.lcloser, .start⟩ (by simp [hs, wk, wkPc]) l1.length (by simp)]
        have := inv_lstart h hs
        exact this
      | atLock =>
        simp only
        by_cases hpend' : s.arrPending = true
        · rw [if_pos hpend']; exact h
        rw [if_neg hpend']
        have hpend : s.arrPending = false := by simpa using hpend'
        rw [casc_setPc _ l1 l2 ⟨.lcloser, .atLock⟩ .atWait, casc_setPc _ l1 l2 ⟨.lcloser, .atLock⟩ (.done .ok)] <;> try exact hs
        split
        · next hl =>
          have := inv_llock h hs hpend _ rfl _ rfl .atWait (Or.inl ⟨rfl, List.isEmpty_iff.1 hl⟩)
          exact this
        · have := inv_llock h hs hpend _ rfl _ rfl (.done .ok) (Or.inr rfl)
          exact this
      | atWait => exact hwait _ hs
      | _ => exact h
    | ccloser c =>
      cases p with
      | start =>
        simp only
        rw [setPc_casc _ l1 l2 ⟨.ccloser c, .start⟩ .atLock (hpc := by intro b; cases b <;> rfl)] <;> try exact hs
        have := inv_cstart h hs _ rfl
        exact this
      | atLock =>
        simp only
        by_cases hpend' : s.arrPending = true
        · rw [if_pos hpend']; exact h
        rw [if_neg hpend']
        have hpend : s.arrPending = false := by simpa using hpend'
        rw [setPc_eq' _ l1 l2 ⟨.ccloser c, .atLock⟩ .atWait, setPc_eq' _ l1 l2 ⟨.ccloser c, .atLock⟩ (.done .ok)] <;> try exact hs
        split
        · next hl =>
          have := inv_clock h hs hpend _ rfl .atWait (Or.inl ⟨rfl, List.isEmpty_iff.1 hl.1, by simpa using hl.2⟩)
          exact this
        · have := inv_clock h hs hpend _ rfl (.done .ok) (Or.inr rfl)
          exact this
      | atWait => exact hwait _ hs
      | _ => exact h

theorem find_parked (ths : List Th) (t : Nat)
    (h : (ths.zipIdx.find? (fun (e : Th × Nat) => e.1.pc = Pc.parkedSelect)).map (·.2) = some t) :
    ∃ r, ths[t]? = some ⟨r, .parkedSelect⟩ := by
  rw [Option.map_eq_some_iff] at h
  obtain ⟨⟨th, i⟩, hf, rfl⟩ := h
  have h1 := List.find?_some hf
  have h2 := List.mem_of_find?_eq_some hf
  rw [List.mk_mem_zipIdx_iff_getElem?] at h2
  simp only [decide_eq_true_eq] at h1
  cases th with | mk r p =>
  simp only at h1
  subst h1
  exact ⟨r, h2⟩

theorem inv_arriveBegin {a : Nat} {s : Sys} (h : Inv a s) : Inv a s.arriveBegin := by
  unfold Sys.arriveBegin
  split
  · exact h
  · next hc =>
    have hacc : s.accepting = true := by
      cases hh : s.accepting with
      | true => rfl
      | false => exact absurd (Or.inl (by simp [hh])) hc
    exact inv_begin h hacc

theorem inv_arriveEnd {a : Nat} {s : Sys} (h : Inv a s) (backlog : Nat) : Inv a (s.arriveEnd backlog) := by
  unfold Sys.arriveEnd
  split
  · exact h
  · next hc =>
    have hp : s.arrPending = true := by simpa using hc
    simp only
    split
    · exact inv_unpend h
    · split
      · next t ht =>
        obtain ⟨r, hth⟩ := find_parked _ _ ht
        obtain ⟨l1, l2, hs, rfl⟩ := split_at _ _ _ hth
        have hs' : s.ths = l1 ++ ⟨r, .parkedSelect⟩ :: l2 := hs
        rw [setPc_eq' _ l1 l2 ⟨r, .parkedSelect⟩ _] <;> try exact hs
        have := inv_give h hs' hp
        exact this
      · have := inv_queue h hp
        exact this

theorem inv_arrive {a : Nat} {s : Sys} (h : Inv a s) (backlog : Nat) : Inv a (s.arrive backlog) :=
  inv_arriveEnd (inv_arriveBegin h) backlog

theorem inv_stepOp {a : Nat} {s : Sys} (h : Inv a s) (backlog : Nat) (op : Op) : Inv a (stepOp backlog s op) := by
  cases op with
  | grant t => exact inv_step h t
  | arrive => exact inv_arrive h backlog
  | arriveBegin => exact inv_arriveBegin h
  | arriveEnd => exact inv_arriveEnd h backlog
  | grantErr t =>
    unfold stepOp
    simp only
    cases hth : s.ths[t]? with
    | none => exact h
    | some th =>
      simp only
      split
      · next hc =>
        obtain ⟨l1, l2, hs, rfl⟩ := split_at _ _ _ hth
        cases th with | mk r p =>
        obtain ⟨hr, hp, _⟩ := hc
        simp only at hr hp
        subst hr hp
        rw [setPc_eq' s l1 l2 _ _ hs]
        exact inv_quiet h hs (by simp) rfl (by simp) (by simp) ⟨by simp, by simp, by simp, by simp, by simp⟩
      · exact inv_step h t

theorem inv_run {a : Nat} (backlog : Nat) (ops : List Op) {s : Sys} (h : Inv a s) : Inv a (run backlog s ops) := by
  induction ops generalizing s with
  | nil => exact h
  | cons op ops ih => exact ih (inv_stepOp h backlog op)

/-! ### the initial state -/

theorem started_init (roles : List Role) (c : Nat) :
    started (roles.map (fun r => ({ role := r, pc := .start } : Th))) c = false := by
  induction roles with
  | nil => rfl
  | cons r rs ih => simp [started_cons, ih]

theorem relL_init (roles : List Role) : relL (roles.map (fun r => ({ role := r, pc := .start } : Th))) = false := by
  induction roles with
  | nil => rfl
  | cons r rs ih => simp [relL_cons, ih]

theorem taken_init (roles : List Role) : taken (roles.map (fun r => ({ role := r, pc := .start } : Th))) = [] := by
  induction roles with
  | nil => rfl
  | cons r rs ih => simp [taken_cons, ih, takenOf]

theorem inv_init (a q : Nat) (roles : List Role) (hw : WfRoles a roles) : Inv a (Sys.init a q roles) := by
  refine ⟨?_, ?_, ?_, ?_, ?_, ?_, ?_, ?_, ?_, ?_, ?_⟩
  · simpa [Sys.init, List.map_map, Function.comp_def] using hw
  · show 1 + a + q = _ + ((List.range q).map (· + a)).length + openCnt a _ + (taken _).length
    simp only [Sys.init, relL_init, taken_init, openCnt, started_init]
    simp
    omega
  · simp [Sys.init]
  · simp [Sys.init]
  · intro c hc
    simp only [Sys.init, List.mem_map, List.mem_range] at hc ⊢
    obtain ⟨x, hx, rfl⟩ := hc
    omega
  · show ((List.range q).map (· + a)).Nodup
    rw [List.nodup_iff_pairwise_ne, List.pairwise_map]
    have := List.nodup_range (n := q)
    rw [List.nodup_iff_pairwise_ne] at this
    exact this.imp (by intro x y hxy; omega)
  · simp [Sys.init]
  · simp [Sys.init]
  · intro c h1 h2
    simp [Sys.init] at h2
    omega
  · intro hr
    simp [Sys.init, relL_init] at hr
  · intro th hth
    simp only [Sys.init, List.mem_map] at hth
    obtain ⟨r, _, rfl⟩ := hth
    exact ⟨by simp, by simp, by simp, by simp, by simp⟩

theorem inv_reach {a q backlog : Nat} {roles : List Role} (ops : List Op) (hw : WfRoles a roles) :
    Inv a (run backlog (Sys.init a q roles) ops) :=
  inv_run backlog ops (inv_init a q roles hw)

/-! ### consequences -/

theorem openHeld_of_inv {a : Nat} {s : Sys} (h : Inv a s) : openHeld a s = openCnt a s.ths + (taken s.ths).length := by
  rw [openHeld_eq, List.filter_append, List.length_append, openCnt, List.countP_eq_length_filter]
  congr 2
  rw [List.filter_eq_self]
  intro c hc
  obtain ⟨th, hm, hp⟩ := (mem_taken _ _).1 hc
  have hge := ((h.thr th hm).2.2.2.2 c hp).1
  cases hst : started s.ths c with
  | false => rfl
  | true =>
    have := started_lt h.wf hst
    omega

theorem count_of_inv {a : Nat} {s : Sys} (h : Inv a s) : s.wg = listenerRef s + s.acceptQ.length + openHeld a s := by
  rw [openHeld_of_inv h, listenerRef_eq, h.count]
  omega

theorem sock_of_inv {a : Nat} {s : Sys} (h : Inv a s) :
    s.sockClosed = true ↔ (listenerRef s = 0 ∧ s.acceptQ.length = 0 ∧ openHeld a s = 0) := by
  rw [h.sock, count_of_inv h]
  omega

/-- once the listener has dropped its reference no arrival is in flight and nothing is queued -/
theorem drained_of_inv {a : Nat} {s : Sys} (h : Inv a s) (hl : listenerRef s = 0) :
    s.arrPending = false ∧ s.acceptQ = [] := by
  apply h.rel
  rw [listenerRef_eq] at hl
  cases hr : relL s.ths with
  | true => rfl
  | false => simp [hr] at hl

theorem stuck_of_inv {a : Nat} {s : Sys} (h : Inv a s) (hq : ∀ th ∈ s.ths, th.atYield = false) :
    ∀ th ∈ s.ths, th.pc ≠ .parkedWait := by
  intro th hm hp
  obtain ⟨t1, t2, _, _, _⟩ := h.thr th hm
  have hsc := t1 hp
  obtain ⟨htb, hacc, _⟩ := t2 (Or.inr hp)
  -- the listener closer has dropped its reference
  have hl := h.acc hacc
  simp only [lstarted, List.any_eq_true, decide_eq_true_eq] at hl
  obtain ⟨tl, hlm, hlr, hlp⟩ := hl
  have hly := hq tl hlm
  have hrel : relL s.ths = true := by
    simp only [relL, List.any_eq_true, decide_eq_true_eq]
    refine ⟨tl, hlm, hlr, ?_⟩
    rcases (h.thr tl hlm).2.2.1 hlr with e | e | e | e | e
    · exact absurd e hlp
    · simp [Th.atYield, e] at hly
    · simp [Th.atYield, e] at hly
    · exact Or.inr (Or.inl e)
    · exact Or.inr (Or.inr e)
  -- nothing queued, nothing handed out, every accepted connection's closer has started
  have hq0 : s.acceptQ = [] := by
    cases hq' : s.acceptQ with
    | nil => rfl
    | cons c rest =>
      have := (h.qok c (by simp [hq'])).2.2
      rw [htb] at this; cases this
  have htk : taken s.ths = [] := by
    cases hk : taken s.ths with
    | nil => rfl
    | cons c rest =>
      obtain ⟨x, hx, hxp⟩ := (mem_taken s.ths c).1 (by simp [hk])
      have := ((h.thr x hx).2.2.2.2 c hxp).2.2.1
      rw [htb] at this; cases this
  have hoc : openCnt a s.ths = 0 := by
    unfold openCnt
    rw [List.countP_eq_zero]
    intro c hc
    rw [List.mem_range] at hc
    have := h.tbl c hc (by rw [htb]; simp)
    simp [this]
  have hwg : s.wg = 0 := by
    rw [h.count, hrel, hq0, htk, hoc]; rfl
  have := h.sock.2 hwg
  rw [hsc] at this; cases this

end TV.Proofs.ListenerLife
