import TransportVerif.Link.Nat
/-
NAT proofs, part 1: an abstract machine over a single list of mappings.

In NAPT mode the two association lists of the model always hold the same mappings in the same order,
`outbound = L.map (fun m => ((m.loc, m.bound), m))` and `inbound = L.map (fun m => ((ip, port), m))`.
`aStep` is the model's `step` on `L` directly; `step_conc` shows that the model follows it as long as
the list invariant `WfL` holds, and `aStep_wf` that the invariant is preserved.
-/
namespace TV.Proofs.Nat
open TV TV.Nat TV.NatLink

/-! ### generic list facts -/

theorem inj_of_nodup_map {α β : Type} (f : α → β) :
    ∀ (l : List α), (l.map f).Nodup → ∀ a ∈ l, ∀ b ∈ l, f a = f b → a = b := by
  intro l
  induction l with
  | nil => intro _ a ha; cases ha
  | cons x xs ih =>
    intro h a ha b hb hab
    simp only [List.map_cons, List.nodup_cons, List.mem_map, not_exists, not_and] at h
    simp only [List.mem_cons] at ha hb
    rcases ha with rfl | ha <;> rcases hb with rfl | hb
    · rfl
    · exact absurd hab.symm (h.1 b hb)
    · exact absurd hab (h.1 a ha)
    · exact ih h.2 a ha b hb hab

/-! ### keys and embeddings -/

def outKey (m : Mapping) : Addr × Key := (m.loc, m.bound)
def inKey (m : Mapping) : Nat × Nat := (m.mappedIP, m.mappedPort)
def embO (L : List Mapping) : List ((Addr × Key) × Mapping) := L.map (fun m => (outKey m, m))
def embI (L : List Mapping) : List ((Nat × Nat) × Mapping) := L.map (fun m => (inKey m, m))

/-- the NAT `n` with its three mutable fields replaced -/
def mk (n : NAT) (L : List Mapping) (c : Nat) : NAT :=
  { n with outbound := embO L, inbound := embI L, counter := c }

theorem lookup_map {κ : Type} [DecidableEq κ] (key : Mapping → κ) (L : List Mapping) (k : κ) :
    lookup (L.map (fun m => (key m, m))) k = L.find? (fun m => decide (key m = k)) := by
  simp [lookup, List.find?_map, Option.map_map, Function.comp_def]

theorem erase_map {κ : Type} [DecidableEq κ] (key : Mapping → κ) (L : List Mapping) (k : κ) :
    erase (L.map (fun m => (key m, m))) k =
      (L.filter (fun m => decide (key m ≠ k))).map (fun m => (key m, m)) := by
  simp [erase, List.filter_map, Function.comp_def]

theorem updId_map {κ : Type} (key : Mapping → κ) (L : List Mapping) (id : Nat) (f : Mapping → Mapping)
    (hf : ∀ m, key (f m) = key m) :
    updId (L.map (fun m => (key m, m))) id f =
      (L.map (fun m => if m.id = id then f m else m)).map (fun m => (key m, m)) := by
  simp only [updId, List.map_map]
  apply List.map_congr_left
  intro m _
  by_cases h : m.id = id <;> simp [h, hf]

/-! ### the list invariant -/

structure WfL (ips : List Nat) (c : Nat) (L : List Mapping) : Prop where
  ids : (L.map (·.id)).Nodup
  keys : (L.map outKey).Nodup
  inv : ∀ m ∈ L, m.id < c ∧ m.mappedPort = basePort + m.id ∧ ips.head? = some m.mappedIP

theorem WfL.nil (ips : List Nat) (c : Nat) : WfL ips c [] :=
  ⟨by simp, by simp, by simp⟩

theorem WfL.eq_of_id {ips c L} (hw : WfL ips c L) {a b : Mapping} (ha : a ∈ L) (hb : b ∈ L)
    (h : a.id = b.id) : a = b :=
  inj_of_nodup_map (·.id) L hw.ids a ha b hb h

theorem WfL.eq_of_outKey {ips c L} (hw : WfL ips c L) {a b : Mapping} (ha : a ∈ L) (hb : b ∈ L)
    (h : outKey a = outKey b) : a = b :=
  inj_of_nodup_map outKey L hw.keys a ha b hb h

theorem WfL.eq_of_port {ips c L} (hw : WfL ips c L) {a b : Mapping} (ha : a ∈ L) (hb : b ∈ L)
    (h : a.mappedPort = b.mappedPort) : a = b := by
  apply hw.eq_of_id ha hb
  have := (hw.inv a ha).2.1
  have := (hw.inv b hb).2.1
  omega

theorem WfL.eq_of_inKey {ips c L} (hw : WfL ips c L) {a b : Mapping} (ha : a ∈ L) (hb : b ∈ L)
    (h : inKey a = inKey b) : a = b := by
  apply hw.eq_of_port ha hb
  simp only [inKey, Prod.mk.injEq] at h
  exact h.2

/-- the two erasures of `removeMapping` remove the same element -/
theorem WfL.filter_outKey {ips c L} (hw : WfL ips c L) {m : Mapping} (hm : m ∈ L) :
    L.filter (fun x => decide (outKey x ≠ outKey m)) = L.filter (fun x => decide (inKey x ≠ inKey m)) := by
  apply List.filter_congr
  intro x hx
  by_cases h : x = m
  · subst h; simp
  · have h1 : outKey x ≠ outKey m := fun e => h (hw.eq_of_outKey hx hm e)
    have h2 : inKey x ≠ inKey m := fun e => h (hw.eq_of_inKey hx hm e)
    simp [h1, h2]

def alive (now : Int) (m : Mapping) : Bool := decide (now ≤ m.expires)

/-- with distinct keys, "first entry with key `k`, then test it" is "first entry with key `k` passing the test" -/
theorem find_key_test {κ : Type} [DecidableEq κ] (key : Mapping → κ) (p : Mapping → Bool) (k : κ) :
    ∀ (L : List Mapping), (L.map key).Nodup →
      L.find? (fun m => decide (key m = k) && p m) = (L.find? (fun m => decide (key m = k))).filter p := by
  intro L
  induction L with
  | nil => intro _; rfl
  | cons x xs ih =>
    intro h
    simp only [List.map_cons, List.nodup_cons, List.mem_map, not_exists, not_and] at h
    simp only [List.find?_cons]
    by_cases hk : key x = k
    · by_cases hp : p x = true
      · simp [hk, hp, Option.filter]
      · have : xs.find? (fun m => decide (key m = k) && p m) = none := by
          rw [List.find?_eq_none]
          intro y hy
          have := h.1 y hy
          simp only [Bool.and_eq_true, decide_eq_true_eq, not_and]
          intro e; exact absurd (e.trans hk.symm) this
        simp [hk, hp, Option.filter, this]
    · simp [hk, ih h.2]

/-! ### the abstract machine -/

def touch (lt now : Int) (fk : Key) (m : Mapping) : Mapping :=
  { m with expires := now + lt, filters := if m.filters.contains fk then m.filters else m.filters ++ [fk] }

def fresh (c : Nat) (lt now : Int) (src : Addr) (bound fk : Key) (ip0 : Nat) : Mapping :=
  { id := c, loc := src, mappedIP := ip0, mappedPort := basePort + c, bound := bound, filters := [fk],
    expires := now + lt }

def portRes (m : Mapping) : OutRes :=
  if m.mappedPort > 65535 then .badPort else .ok { ip := m.mappedIP, port := m.mappedPort }

/-- `translateOutbound` (NAPT) on the list of mappings and the counter; `n` supplies the configuration only -/
def aOut (n : NAT) (L : List Mapping) (c : Nat) (now : Int) (src dst : Addr) : (List Mapping × Nat) × OutRes :=
  match L.find? (fun m => decide (outKey m = (src, keyOf n.mapBeh dst)) && alive now m) with
  | some m0 =>
    ((L.map (fun x => if x.id = m0.id then touch n.lifetime now (keyOf n.filtBeh dst) m0 else x), c),
      portRes m0)
  | none =>
    match n.mappedIPs.head? with
    | none => ((L.filter (fun x => decide (outKey x ≠ (src, keyOf n.mapBeh dst))), c), .noMappedIP)
    | some ip0 =>
      ((L.filter (fun x => decide (outKey x ≠ (src, keyOf n.mapBeh dst))) ++
          [fresh c n.lifetime now src (keyOf n.mapBeh dst) (keyOf n.filtBeh dst) ip0], c + 1),
        portRes (fresh c n.lifetime now src (keyOf n.mapBeh dst) (keyOf n.filtBeh dst) ip0))

/-- `translateInbound` (NAPT) on the list of mappings -/
def aIn (n : NAT) (L : List Mapping) (now : Int) (src dst : Addr) : List Mapping × InRes :=
  match L.find? (fun m => decide (inKey m = (dst.ip, dst.port)) && alive now m) with
  | some m => (L, if m.filters.contains (keyOf n.filtBeh src) then .ok m.loc else .noPermission)
  | none => (L.filter (fun x => decide (inKey x ≠ (dst.ip, dst.port))), .noBinding)

structure AS where
  L : List Mapping
  c : Nat
  now : Int

def aStep (n : NAT) (s : AS) : Op → AS × Out
  | .out a b => let r := aOut n s.L s.c s.now a b; ({ L := r.1.1, c := r.1.2, now := s.now }, .o r.2)
  | .inb a b => let r := aIn n s.L s.now a b; ({ L := r.1, c := s.c, now := s.now }, .i r.2)
  | .adv dt => ({ s with now := s.now + dt }, .unit)

def conc (n : NAT) (s : AS) : NAT × Int := (mk n s.L s.c, s.now)

/-! ### the model follows the abstract machine -/

theorem filter_key_none {κ : Type} [DecidableEq κ] (key : Mapping → κ) (L : List Mapping) (k : κ)
    (h : L.find? (fun m => decide (key m = k)) = none) :
    L.filter (fun x => decide (key x ≠ k)) = L := by
  rw [List.filter_eq_self]
  intro a ha
  have := List.find?_eq_none.1 h a ha
  simpa using this

theorem removeMapping_mk (n : NAT) (L : List Mapping) (c : Nat) (hw : WfL n.mappedIPs c L) (m : Mapping)
    (hm : m ∈ L) :
    (mk n L c).removeMapping m = mk n (L.filter (fun x => decide (outKey x ≠ outKey m))) c := by
  show ({ mk n L c with outbound := erase (embO L) (m.loc, m.bound),
                         inbound := erase (embI L) (m.mappedIP, m.mappedPort) } : NAT) = _
  have h1 := erase_map outKey L (m.loc, m.bound)
  have h2 := erase_map inKey L (m.mappedIP, m.mappedPort)
  have h3 : L.filter (fun x => decide (inKey x ≠ (m.mappedIP, m.mappedPort))) =
      L.filter (fun x => decide (outKey x ≠ (m.loc, m.bound))) := (hw.filter_outKey hm).symm
  rw [h3] at h2
  rw [embO, embI, h1, h2]
  rfl

theorem mutate_mk (n : NAT) (L : List Mapping) (c : Nat) (id : Nat) (f : Mapping → Mapping)
    (hfo : ∀ m, outKey (f m) = outKey m) (hfi : ∀ m, inKey (f m) = inKey m) :
    (mk n L c).mutate id f = mk n (L.map (fun m => if m.id = id then f m else m)) c := by
  show ({ mk n L c with outbound := updId (embO L) id f, inbound := updId (embI L) id f } : NAT) = _
  rw [embO, embI, updId_map outKey L id f hfo, updId_map inKey L id f hfi]
  rfl

theorem findOutbound_mk (n : NAT) (L : List Mapping) (c : Nat) (hw : WfL n.mappedIPs c L) (now : Int)
    (k : Addr × Key) :
    (mk n L c).findOutbound now k =
      match L.find? (fun m => decide (outKey m = k) && alive now m) with
      | some m0 => (mk n (L.map (fun x => if x.id = m0.id then { x with expires := now + n.lifetime } else x)) c,
                    some { m0 with expires := now + n.lifetime })
      | none => (mk n (L.filter (fun x => decide (outKey x ≠ k))) c, none) := by
  rw [find_key_test outKey (alive now) k L hw.keys]
  unfold NAT.findOutbound
  show (match lookup (embO L) k with | none => _ | some m => _) = _
  rw [embO, lookup_map]
  cases h : L.find? (fun m => decide (outKey m = k)) with
  | none =>
    simp only [Option.filter]
    rw [filter_key_none outKey L k h]
  | some m =>
    have hm : m ∈ L := List.mem_of_find?_eq_some h
    have hk : outKey m = k := by simpa using List.find?_some h
    by_cases he : now > m.expires
    · have ha : alive now m = false := by simp [alive]; omega
      simp only [he, if_true, Option.filter, ha]
      rw [removeMapping_mk n L c hw m hm, hk]
      rfl
    · have ha : alive now m = true := by simp [alive]; omega
      simp only [he, if_false, Option.filter, ha, if_true]
      rw [mutate_mk n L c m.id (fun x => { x with expires := now + (mk n L c).lifetime })
        (fun _ => rfl) (fun _ => rfl)]
      rfl

theorem find_and_some {L : List Mapping} {p q : Mapping → Bool} {m : Mapping}
    (h : L.find? (fun x => p x && q x) = some m) : m ∈ L ∧ p m = true ∧ q m = true := by
  have h1 := List.mem_of_find?_eq_some h
  have h2 := List.find?_some h
  simp only [Bool.and_eq_true] at h2
  exact ⟨h1, h2.1, h2.2⟩

@[simp] theorem mk_one2one (n : NAT) (L c) : (mk n L c).one2one = n.one2one := rfl
@[simp] theorem mk_mapBeh (n : NAT) (L c) : (mk n L c).mapBeh = n.mapBeh := rfl
@[simp] theorem mk_filtBeh (n : NAT) (L c) : (mk n L c).filtBeh = n.filtBeh := rfl
@[simp] theorem mk_lifetime (n : NAT) (L c) : (mk n L c).lifetime = n.lifetime := rfl
@[simp] theorem mk_mappedIPs (n : NAT) (L c) : (mk n L c).mappedIPs = n.mappedIPs := rfl
@[simp] theorem mk_localIPs (n : NAT) (L c) : (mk n L c).localIPs = n.localIPs := rfl
@[simp] theorem mk_outbound (n : NAT) (L c) : (mk n L c).outbound = embO L := rfl
@[simp] theorem mk_inbound (n : NAT) (L c) : (mk n L c).inbound = embI L := rfl
@[simp] theorem mk_counter (n : NAT) (L c) : (mk n L c).counter = c := rfl
@[simp] theorem mk_mk (n : NAT) (L c L' c') : mk (mk n L c) L' c' = mk n L' c' := rfl

theorem WfL.filter {ips c L} (hw : WfL ips c L) (p : Mapping → Bool) : WfL ips c (L.filter p) where
  ids := (List.filter_sublist.map _).nodup hw.ids
  keys := (List.filter_sublist.map _).nodup hw.keys
  inv := fun m hm => hw.inv m (List.mem_filter.1 hm).1

theorem erase_embO_filter (L : List Mapping) (k : Addr × Key) :
    erase (embO (L.filter (fun x => decide (outKey x ≠ k)))) k = embO (L.filter (fun x => decide (outKey x ≠ k))) := by
  rw [embO, erase_map, List.filter_filter]
  simp

theorem erase_embI_fresh {ips c L} (hw : WfL ips c L) (ip0 : Nat) :
    erase (embI L) (ip0, basePort + c) = embI L := by
  rw [embI, erase_map]
  congr 1
  rw [List.filter_eq_self]
  intro a ha
  have := hw.inv a ha
  simp only [inKey, ne_eq, Prod.mk.injEq, not_and, decide_eq_true_eq]
  omega

theorem translateOutbound_mk (n : NAT) (h1 : n.one2one = false) (L : List Mapping) (c : Nat)
    (hw : WfL n.mappedIPs c L) (now : Int) (src dst : Addr) :
    (mk n L c).translateOutbound now src dst =
      (mk n (aOut n L c now src dst).1.1 (aOut n L c now src dst).1.2, (aOut n L c now src dst).2) := by
  unfold NAT.translateOutbound
  have h1' : (mk n L c).one2one = false := h1
  simp only [h1', Bool.false_eq_true, if_false]
  rw [findOutbound_mk n L c hw]
  unfold aOut
  have hmb : (mk n L c).mapBeh = n.mapBeh := rfl
  have hfb : (mk n L c).filtBeh = n.filtBeh := rfl
  rw [hmb, hfb]
  cases hf : L.find? (fun m => decide (outKey m = (src, keyOf n.mapBeh dst)) && alive now m) with
  | none =>
    simp only [mk_mappedIPs, mk_counter, mk_lifetime, mk_outbound, mk_inbound, mk_one2one, mk_mapBeh,
      mk_filtBeh, mk_localIPs]
    cases hh : n.mappedIPs.head? with
    | none => rfl
    | some ip0 =>
      simp only
      rw [erase_embO_filter, erase_embI_fresh (hw.filter _) ip0]
      by_cases hp : basePort + c > 65535 <;>
        simp [hp, mk, embO, embI, fresh, portRes, outKey, inKey]
  | some m0 =>
    obtain ⟨hm, hk, ha⟩ := find_and_some hf
    simp only
    have hst : (if m0.filters.contains (keyOf n.filtBeh dst) = true then
          mk n (L.map (fun x => if x.id = m0.id then { x with expires := now + n.lifetime } else x)) c
        else
          (mk n (L.map (fun x => if x.id = m0.id then { x with expires := now + n.lifetime } else x)) c).mutate
            m0.id (fun x => { x with filters := x.filters ++ [keyOf n.filtBeh dst] })) =
        mk n (L.map (fun x => if x.id = m0.id then touch n.lifetime now (keyOf n.filtBeh dst) m0 else x)) c := by
      by_cases hc : m0.filters.contains (keyOf n.filtBeh dst) = true
      · rw [if_pos hc]
        have hc' : keyOf n.filtBeh dst ∈ m0.filters := by simpa using hc
        congr 1
        apply List.map_congr_left
        intro x hx
        by_cases hi : x.id = m0.id
        · have := hw.eq_of_id hx hm hi
          subst this
          simp [touch, hc']
        · simp [hi]
      · rw [if_neg hc, mutate_mk _ _ _ m0.id (fun x => { x with filters := x.filters ++ [keyOf n.filtBeh dst] })
          (fun _ => rfl) (fun _ => rfl), List.map_map]
        have hc' : keyOf n.filtBeh dst ∉ m0.filters := by simpa using hc
        congr 1
        apply List.map_congr_left
        intro x hx
        by_cases hi : x.id = m0.id
        · have := hw.eq_of_id hx hm hi
          subst this
          simp [touch, hc']
        · simp [hi]
    by_cases hp : m0.mappedPort > 65535
    · rw [if_pos hp, hst]; simp [portRes, hp]
    · rw [if_neg hp, hst]; simp [portRes, hp]

theorem nodup_map_of_inj {α β γ : Type} (f : α → β) (g : α → γ) :
    ∀ (l : List α), (l.map g).Nodup → (∀ a ∈ l, ∀ b ∈ l, f a = f b → g a = g b) → (l.map f).Nodup := by
  intro l
  induction l with
  | nil => intro _ _; simp
  | cons x xs ih =>
    intro h hinj
    simp only [List.map_cons, List.nodup_cons, List.mem_map, not_exists, not_and] at h ⊢
    refine ⟨fun y hy e => h.1 y hy ?_, ih h.2 (fun a ha b hb => hinj a (List.mem_cons_of_mem _ ha) b (List.mem_cons_of_mem _ hb))⟩
    exact hinj y (List.mem_cons_of_mem _ hy) x List.mem_cons_self e

theorem WfL.inKeys {ips c L} (hw : WfL ips c L) : (L.map inKey).Nodup :=
  nodup_map_of_inj inKey (·.id) L hw.ids (fun _ ha _ hb e => by rw [hw.eq_of_inKey ha hb e])

theorem findInbound_mk (n : NAT) (L : List Mapping) (c : Nat) (hw : WfL n.mappedIPs c L) (now : Int)
    (k : Nat × Nat) :
    (mk n L c).findInbound now k =
      match L.find? (fun m => decide (inKey m = k) && alive now m) with
      | some m => (mk n L c, some m)
      | none => (mk n (L.filter (fun x => decide (inKey x ≠ k))) c, none) := by
  rw [find_key_test inKey (alive now) k L hw.inKeys]
  unfold NAT.findInbound
  rw [mk_inbound, embI, lookup_map]
  cases h : L.find? (fun m => decide (inKey m = k)) with
  | none =>
    simp only [Option.filter]
    rw [filter_key_none inKey L k h]
  | some m =>
    have hm : m ∈ L := List.mem_of_find?_eq_some h
    have hk : inKey m = k := by simpa using List.find?_some h
    by_cases he : now > m.expires
    · have ha : alive now m = false := by simp [alive]; omega
      simp only [he, if_true, Option.filter, ha]
      rw [removeMapping_mk n L c hw m hm, hw.filter_outKey hm, hk]
      rfl
    · have ha : alive now m = true := by simp [alive]; omega
      simp only [he, if_false, Option.filter, ha, if_true]

theorem translateInbound_mk (n : NAT) (h1 : n.one2one = false) (L : List Mapping) (c : Nat)
    (hw : WfL n.mappedIPs c L) (now : Int) (src dst : Addr) :
    (mk n L c).translateInbound now src dst =
      (mk n (aIn n L now src dst).1 c, (aIn n L now src dst).2) := by
  unfold NAT.translateInbound
  have h1' : (mk n L c).one2one = false := h1
  simp only [h1', Bool.false_eq_true, if_false]
  rw [findInbound_mk n L c hw]
  unfold aIn
  cases hf : L.find? (fun m => decide (inKey m = (dst.ip, dst.port)) && alive now m) with
  | none => rfl
  | some m =>
    show (if m.filters.contains (keyOf n.filtBeh src) = true then (mk n L c, InRes.ok m.loc)
      else (mk n L c, InRes.noPermission)) = _
    by_cases hc : m.filters.contains (keyOf n.filtBeh src) = true
    · rw [if_pos hc]; simp only [if_pos hc]
    · rw [if_neg hc]; simp only [if_neg hc]

/-! ### invariant preservation -/

theorem WfL.mono {ips c c' L} (hw : WfL ips c L) (h : c ≤ c') : WfL ips c' L :=
  ⟨hw.ids, hw.keys, fun m hm => ⟨Nat.lt_of_lt_of_le (hw.inv m hm).1 h, (hw.inv m hm).2⟩⟩

theorem WfL.map_repl {ips c L} (hw : WfL ips c L) {m0 m1 : Mapping} (hm : m0 ∈ L) (hid : m1.id = m0.id)
    (hk : outKey m1 = outKey m0) (hp : m1.mappedPort = m0.mappedPort) (hip : m1.mappedIP = m0.mappedIP) :
    WfL ips c (L.map (fun x => if x.id = m0.id then m1 else x)) := by
  have hpt : ∀ x ∈ L, (if x.id = m0.id then m1 else x) = x ∨ (x = m0 ∧ (if x.id = m0.id then m1 else x) = m1) := by
    intro x hx
    by_cases hi : x.id = m0.id
    · exact Or.inr ⟨hw.eq_of_id hx hm hi, by simp [hi]⟩
    · exact Or.inl (by simp [hi])
  refine ⟨?_, ?_, ?_⟩
  · rw [List.map_map]
    have : L.map ((·.id) ∘ fun x => if x.id = m0.id then m1 else x) = L.map (·.id) := by
      apply List.map_congr_left
      intro x hx
      show (if x.id = m0.id then m1 else x).id = x.id
      rcases hpt x hx with h | ⟨hxe, h⟩
      · rw [h]
      · rw [h, hid, hxe]
    rw [this]; exact hw.ids
  · rw [List.map_map]
    have : L.map (outKey ∘ fun x => if x.id = m0.id then m1 else x) = L.map outKey := by
      apply List.map_congr_left
      intro x hx
      show outKey (if x.id = m0.id then m1 else x) = outKey x
      rcases hpt x hx with h | ⟨hxe, h⟩
      · rw [h]
      · rw [h, hk, hxe]
    rw [this]; exact hw.keys
  · intro m hmm
    obtain ⟨x, hx, rfl⟩ := List.mem_map.1 hmm
    rcases hpt x hx with h | ⟨rfl, h⟩
    · rw [h]; exact hw.inv x hx
    · rw [h, hid, hp, hip]; exact hw.inv x hx

theorem WfL.append_fresh {ips c L} (hw : WfL ips c L) (lt now : Int) (src : Addr) (bound fk : Key) (ip0 : Nat)
    (hip : ips.head? = some ip0) (hk : ∀ x ∈ L, outKey x ≠ (src, bound)) :
    WfL ips (c + 1) (L ++ [fresh c lt now src bound fk ip0]) := by
  refine ⟨?_, ?_, ?_⟩
  · rw [List.map_append, List.nodup_append]
    refine ⟨hw.ids, by simp, ?_⟩
    intro a ha b hb
    obtain ⟨x, hx, rfl⟩ := List.mem_map.1 ha
    simp only [List.map_cons, List.map_nil, List.mem_singleton] at hb
    have := (hw.inv x hx).1
    rw [hb]
    show x.id ≠ c
    omega
  · rw [List.map_append, List.nodup_append]
    refine ⟨hw.keys, by simp, ?_⟩
    intro a ha b hb
    obtain ⟨x, hx, rfl⟩ := List.mem_map.1 ha
    simp only [List.map_cons, List.map_nil, List.mem_singleton] at hb
    rw [hb]
    exact hk x hx
  · intro m hm
    rcases List.mem_append.1 hm with hm | hm
    · have := hw.inv m hm
      exact ⟨by omega, this.2⟩
    · simp only [List.mem_singleton] at hm
      subst hm
      exact ⟨by simp [fresh], rfl, hip⟩

def WfS (n : NAT) (s : AS) : Prop := WfL n.mappedIPs s.c s.L

theorem aOut_wf (n : NAT) (L : List Mapping) (c : Nat) (hw : WfL n.mappedIPs c L) (now : Int) (src dst : Addr) :
    WfL n.mappedIPs (aOut n L c now src dst).1.2 (aOut n L c now src dst).1.1 := by
  unfold aOut
  cases hf : L.find? (fun m => decide (outKey m = (src, keyOf n.mapBeh dst)) && alive now m) with
  | some m0 =>
    obtain ⟨hm, _, _⟩ := find_and_some hf
    exact hw.map_repl hm rfl rfl rfl rfl
  | none =>
    cases hh : n.mappedIPs.head? with
    | none => exact hw.filter _
    | some ip0 =>
      apply (hw.filter _).append_fresh _ _ _ _ _ _ hh
      intro x hx
      simpa using (List.mem_filter.1 hx).2

theorem aIn_wf (n : NAT) (L : List Mapping) (c : Nat) (hw : WfL n.mappedIPs c L) (now : Int) (src dst : Addr) :
    WfL n.mappedIPs c (aIn n L now src dst).1 := by
  unfold aIn
  cases hf : L.find? (fun m => decide (inKey m = (dst.ip, dst.port)) && alive now m) with
  | some m0 => exact hw
  | none => exact hw.filter _

theorem aStep_wf (n : NAT) (s : AS) (hw : WfS n s) (op : Op) : WfS n (aStep n s op).1 := by
  cases op with
  | out a b => exact aOut_wf n s.L s.c hw s.now a b
  | inb a b => exact aIn_wf n s.L s.c hw s.now a b
  | adv dt => exact hw

theorem step_conc (n : NAT) (h1 : n.one2one = false) (s : AS) (hw : WfS n s) (op : Op) :
    step (conc n s) op = (conc n (aStep n s op).1, (aStep n s op).2) := by
  cases op with
  | out a b =>
    simp only [step, conc, aStep]
    rw [translateOutbound_mk n h1 s.L s.c hw]
  | inb a b =>
    simp only [step, conc, aStep]
    rw [translateInbound_mk n h1 s.L s.c hw]
  | adv dt => rfl

def aRun (n : NAT) (s : AS) : List Op → AS
  | [] => s
  | op :: ops => aRun n (aStep n s op).1 ops

def aOuts (n : NAT) (s : AS) : List Op → List Out
  | [] => []
  | op :: ops => (aStep n s op).2 :: aOuts n (aStep n s op).1 ops

theorem aRun_wf (n : NAT) (ops : List Op) : ∀ (s : AS), WfS n s → WfS n (aRun n s ops) := by
  induction ops with
  | nil => intro s h; exact h
  | cons op ops ih => intro s h; exact ih _ (aStep_wf n s h op)

theorem runState_conc (n : NAT) (h1 : n.one2one = false) (ops : List Op) :
    ∀ (s : AS), WfS n s → runState (conc n s) ops = conc n (aRun n s ops) := by
  induction ops with
  | nil => intro s _; rfl
  | cons op ops ih =>
    intro s h
    simp only [runState, aRun, step_conc n h1 s h op]
    exact ih _ (aStep_wf n s h op)

theorem outs_conc (n : NAT) (h1 : n.one2one = false) (ops : List Op) :
    ∀ (s : AS), WfS n s → outs (conc n s) ops = aOuts n s ops := by
  induction ops with
  | nil => intro s _; rfl
  | cons op ops ih =>
    intro s h
    simp only [outs, aOuts, step_conc n h1 s h op]
    rw [ih _ (aStep_wf n s h op)]

end TV.Proofs.Nat
