import TransportVerif.Link.Pipe
/-
Proofs for C18: Bridge model vs lane script, ghost-lane conservation, dpipe refinement.
-/
namespace TV.Proofs.Pipe
open TV TV.PipeSpec TV.PipeLink

/-! ### helper lemmas on lists -/

theorem inverse_snoc (s : List Msg) (x : Msg) :
    (match Bridge.inverse (s ++ [x]) with | some r => r | none => s ++ [x]) = x :: s.reverse := by
  unfold Bridge.inverse
  cases s with
  | nil => simp
  | cons a t =>
    have h : ¬ ((a :: t ++ [x]).length < 2) := by simp
    rw [if_neg h]; simp

theorem dropSlice_eq (s : List Msg) (o n : Int) (h : ¬ (o < 0 ∨ n ≤ 0 ∨ o ≥ s.length)) :
    Bridge.dropSlice s o n = s.take o.toNat ++ s.drop (o.toNat + n.toNat) := by
  unfold Bridge.dropSlice
  rw [if_neg h]
  simp only
  split
  · rename_i hgt
    congr 1
    rw [List.drop_eq_nil_of_le (by omega), List.drop_eq_nil_of_le (by omega)]
  · rfl

/-! ### Bridge step -/

theorem push0 (b : Bridge.Bridge) (x : Msg) :
    absLane0 (b.push 0 x) = (absLane0 b).write x ∧ absLane1 (b.push 0 x) = absLane1 b := by
  unfold Bridge.Bridge.push Lane.write
  simp only [if_true, absLane0, absLane1]
  by_cases h1 : b.dropNWrites0 > 0
  · simp [h1]
  · by_cases h2 : b.reorderNWrites0 > 0
    · by_cases h3 : b.reorderNWrites0 - 1 = 0
      · simp [h1, h2, h3]
        exact inverse_snoc _ _
      · simp [h1, h2, h3]
    · by_cases h4 : (!Filter.accepts b.filter0 x) = true
      · simp [h1, h2, h4]
      · simp [h1, h2, h4]

theorem push1 (b : Bridge.Bridge) (d : Nat) (hd : ¬ d = 0) (x : Msg) :
    absLane1 (b.push d x) = (absLane1 b).write x ∧ absLane0 (b.push d x) = absLane0 b := by
  unfold Bridge.Bridge.push Lane.write
  simp only [if_neg hd, absLane0, absLane1]
  by_cases h1 : b.dropNWrites1 > 0
  · simp [h1]
  · by_cases h2 : b.reorderNWrites1 > 0
    · by_cases h3 : b.reorderNWrites1 - 1 = 0
      · simp [h1, h2, h3]
        exact inverse_snoc _ _
      · simp [h1, h2, h3]
    · by_cases h4 : (!Filter.accepts b.filter1 x) = true
      · simp [h1, h2, h4]
      · simp [h1, h2, h4]

theorem bridge_step_refines (b : Bridge.Bridge) (op : Bridge.Op) :
    (absLane0 (Bridge.step b op).1, absLane1 (Bridge.step b op).1) = (specStep (absLane0 b, absLane1 b) op).1 ∧
    (Bridge.step b op).2 = (specStep (absLane0 b, absLane1 b) op).2 := by
  cases op with
  | write d x =>
    by_cases hd : d = 0
    · subst hd
      simp only [Bridge.step, specStep, if_true, (push0 b x).1, (push0 b x).2, and_self]
    · simp only [Bridge.step, specStep, if_neg hd, (push1 b d hd x).1, (push1 b d hd x).2, and_self]
  | deliver d n =>
    by_cases hd : d = 0
    · simp only [Bridge.step, specStep, Bridge.Bridge.deliver, Lane.deliver, hd, if_true, absLane0, absLane1]
      cases h : b.queue0to1 <;> simp [h]
    · simp only [Bridge.step, specStep, Bridge.Bridge.deliver, Lane.deliver, hd, if_false, absLane0, absLane1]
      cases h : b.queue1to0 <;> simp [h]
  | reorder d =>
    by_cases hd : d = 0
    · simp only [Bridge.step, specStep, Bridge.Bridge.reorder, Lane.reorder, Bridge.inverse, hd, if_true,
        absLane0, absLane1]
      by_cases h : b.queue0to1.length < 2 <;> simp [h]
    · simp only [Bridge.step, specStep, Bridge.Bridge.reorder, Lane.reorder, Bridge.inverse, hd, if_false,
        absLane0, absLane1]
      by_cases h : b.queue1to0.length < 2 <;> simp [h]
  | drop d o n =>
    by_cases hd : d = 0
    · simp only [Bridge.step, specStep, Bridge.Bridge.drop, Lane.drop, hd, if_true, absLane0, absLane1]
      by_cases h : (o < 0 ∨ n ≤ 0 ∨ o ≥ b.queue0to1.length)
      · simp [h, Bridge.dropSlice]
      · simp [h, dropSlice_eq]
    · simp only [Bridge.step, specStep, Bridge.Bridge.drop, Lane.drop, hd, if_false, absLane0, absLane1]
      by_cases h : (o < 0 ∨ n ≤ 0 ∨ o ≥ b.queue1to0.length)
      · simp [h, Bridge.dropSlice]
      · simp [h, dropSlice_eq]
  | dropNext d n =>
    by_cases hd : d = 0 <;>
      simp [Bridge.step, specStep, Bridge.Bridge.dropNext, hd, absLane0, absLane1]
  | reorderNext d n =>
    by_cases hd : d = 0 <;>
      simp [Bridge.step, specStep, Bridge.Bridge.reorderNext, hd, absLane0, absLane1]
  | filter d f =>
    by_cases hd : d = 0 <;>
      simp [Bridge.step, specStep, Bridge.Bridge.setFilter, hd, absLane0, absLane1]

theorem bridge_refines_script (ops : List Bridge.Op) (b : Bridge.Bridge) :
    outsModel b ops = outsSpec (absLane0 b, absLane1 b) ops := by
  induction ops generalizing b with
  | nil => rfl
  | cons op ops ih =>
    have hs := bridge_step_refines b op
    simp only [outsModel, outsSpec]
    rw [← hs.1, ← hs.2, ih]

/-! ### ghost lane: conservation -/

/-- the invariant: written is a permutation of delivered ++ discarded ++ inflight ++ block -/
def Inv (l : Lane) (g : Ghost) : Prop :=
  g.written.Perm (g.delivered ++ g.discarded ++ l.inflight ++ l.block)

theorem perm_snoc_mid {α} {w a b c : List α} (x : α) (h : w.Perm (a ++ b ++ c)) :
    (w ++ [x]).Perm (a ++ (b ++ [x]) ++ c) := by
  have h1 : (w ++ [x]).Perm (a ++ b ++ c ++ [x]) := h.append_right [x]
  refine h1.trans ?_
  have : a ++ b ++ c ++ [x] = (a ++ b) ++ (c ++ [x]) := by simp
  rw [this]
  have : a ++ (b ++ [x]) ++ c = (a ++ b) ++ ([x] ++ c) := by simp
  rw [this]
  exact List.Perm.append_left _ List.perm_append_comm

theorem drop_split {α} (s : List α) (o n : Nat) :
    s.Perm ((s.drop o).take n ++ (s.take o ++ s.drop (o + n))) := by
  have h1 : s = s.take o ++ ((s.drop o).take n ++ (s.drop o).drop n) := by
    rw [List.take_append_drop, List.take_append_drop]
  have h2 : (s.drop o).drop n = s.drop (o + n) := by
    rw [List.drop_drop]
  rw [h2] at h1
  conv => lhs; rw [h1]
  rw [← List.append_assoc, ← List.append_assoc]
  exact List.Perm.append_right _ List.perm_append_comm

theorem stepG_inv (l : Lane) (g : Ghost) (op : LaneOp) (h : Inv l g) :
    Inv (stepG l g op).1 (stepG l g op).2 := by
  unfold Inv at *
  cases op with
  | write x =>
    simp only [stepG, Lane.write]
    by_cases h1 : l.pendingDrop > 0
    · simp only [h1, true_or, if_true]
      have := perm_snoc_mid (a := g.delivered) (b := g.discarded) (c := l.inflight ++ l.block) x
        (by simpa using h)
      simpa using this
    · by_cases h2 : l.pendingReorder > 0
      · by_cases h3 : l.pendingReorder - 1 = 0
        · simp only [h1, h2, h3, if_true, if_false, not_true, false_and, or_self, List.append_nil]
          have := perm_snoc_mid (a := g.delivered ++ g.discarded ++ l.inflight) (b := [])
            (c := l.block) x (by simpa using h)
          simpa using this
        · simp only [h1, h2, h3, if_true, if_false, not_true, false_and, or_self]
          have := perm_snoc_mid (a := g.delivered ++ g.discarded ++ l.inflight) (b := [])
            (c := l.block) x (by simpa using h)
          simpa using this
      · by_cases h4 : (!Filter.accepts l.filter x) = true
        · simp only [h1, h2, h4, if_true, if_false, not_false_eq_true, and_self, or_true]
          have := perm_snoc_mid (a := g.delivered) (b := g.discarded) (c := l.inflight ++ l.block) x
            (by simpa using h)
          simpa using this
        · simp only [h1, h2, h4, if_false]
          have := perm_snoc_mid (a := g.delivered ++ g.discarded) (b := l.inflight) (c := l.block) x
            (by simpa using h)
          simpa using this
  | deliver n =>
    simp only [stepG, Lane.deliver]
    cases hq : l.inflight with
    | nil => simpa [hq] using h
    | cons y rest =>
      simp only
      rw [hq] at h
      refine h.trans ?_
      have e1 : g.delivered ++ g.discarded ++ (y :: rest) ++ l.block
          = g.delivered ++ ((g.discarded ++ [y]) ++ (rest ++ l.block)) := by simp
      have e2 : g.delivered ++ [y] ++ g.discarded ++ rest ++ l.block
          = g.delivered ++ (([y] ++ g.discarded) ++ (rest ++ l.block)) := by simp
      rw [e1, e2]
      exact List.Perm.append_left _ (List.Perm.append_right _ List.perm_append_comm)
  | drop o n =>
    simp only [stepG, Lane.drop]
    by_cases hc : (o < 0 ∨ n ≤ 0 ∨ o ≥ l.inflight.length)
    · simpa [hc] using h
    · simp only [hc, if_false]
      refine h.trans ?_
      have e1 : g.delivered ++ g.discarded ++ l.inflight ++ l.block
          = (g.delivered ++ g.discarded) ++ l.inflight ++ l.block := by simp
      have e2 : g.delivered ++ (g.discarded ++ List.take n.toNat (List.drop o.toNat l.inflight)) ++
            (List.take o.toNat l.inflight ++ List.drop (o.toNat + n.toNat) l.inflight) ++ l.block
          = (g.delivered ++ g.discarded) ++ (List.take n.toNat (List.drop o.toNat l.inflight) ++
            (List.take o.toNat l.inflight ++ List.drop (o.toNat + n.toNat) l.inflight)) ++ l.block := by
        simp
      rw [e2]
      exact List.Perm.append_right _ (List.Perm.append_left _ (drop_split _ _ _))
  | reorder =>
    simp only [stepG, Lane.reorder]
    by_cases hc : l.inflight.length < 2
    · simpa [hc] using h
    · simp only [hc, if_false]
      refine h.trans ?_
      exact List.Perm.append_right _ (List.Perm.append_left _ (List.reverse_perm _).symm)
  | dropNext n => simpa [stepG] using h
  | reorderNext n => simpa [stepG] using h
  | filter f => simpa [stepG] using h

theorem runG_inv (ops : List LaneOp) (l : Lane) (g : Ghost) (h : Inv l g) :
    Inv (runG l g ops).1 (runG l g ops).2 := by
  induction ops generalizing l g with
  | nil => exact h
  | cons op ops ih =>
    simp only [runG]
    exact ih _ _ (stepG_inv l g op h)

theorem inv_init : Inv Lane.new Ghost.empty := by
  simp [Inv, Lane.new, Ghost.empty]

theorem conservation (ops : List LaneOp) :
    (runG Lane.new Ghost.empty ops).2.written.Perm
      ((runG Lane.new Ghost.empty ops).2.delivered ++ (runG Lane.new Ghost.empty ops).2.discarded ++
       (runG Lane.new Ghost.empty ops).1.inflight ++ (runG Lane.new Ghost.empty ops).1.block) :=
  runG_inv ops _ _ inv_init

theorem no_dup (ops : List LaneOp) (h : (runG Lane.new Ghost.empty ops).2.written.Nodup) :
    (runG Lane.new Ghost.empty ops).2.delivered.Nodup := by
  have hp := conservation ops
  have := hp.nodup_iff.mp h
  simp only [List.append_assoc] at this
  exact (List.nodup_append.mp this).1

theorem no_invention (ops : List LaneOp) (x : Msg)
    (h : x ∈ (runG Lane.new Ghost.empty ops).2.delivered) : x ∈ (runG Lane.new Ghost.empty ops).2.written := by
  have hp := conservation ops
  rw [hp.mem_iff]
  simp [h]

/-! ### FIFO when unimpaired -/

def Clean (l : Lane) : Prop :=
  l.pendingDrop ≤ 0 ∧ l.pendingReorder ≤ 0 ∧ l.filter = none ∧ l.block = []

theorem stepG_fifo (l : Lane) (g : Ghost) (op : LaneOp) (hp : op.plain = true) (hc : Clean l)
    (h : g.delivered ++ l.inflight = g.written) :
    Clean (stepG l g op).1 ∧
    (stepG l g op).2.delivered ++ (stepG l g op).1.inflight = (stepG l g op).2.written := by
  obtain ⟨c1, c2, c3, c4⟩ := hc
  have n1 : ¬ l.pendingDrop > 0 := by omega
  have n2 : ¬ l.pendingReorder > 0 := by omega
  cases op with
  | write x =>
    simp only [stepG, Lane.write, n1, n2, c3, Filter.accepts, if_false, Bool.not_true, false_or,
      and_false, Bool.false_eq_true]
    refine ⟨⟨c1, c2, rfl, c4⟩, ?_⟩
    rw [← List.append_assoc, h]
  | deliver n =>
    simp only [stepG, Lane.deliver]
    cases hq : l.inflight with
    | nil => simp only; exact ⟨⟨c1, c2, c3, c4⟩, by rw [← h, hq]⟩
    | cons y rest =>
      simp only
      refine ⟨⟨c1, c2, c3, c4⟩, ?_⟩
      rw [← h, hq]; simp
  | drop o n => simp [LaneOp.plain] at hp
  | reorder => simp [LaneOp.plain] at hp
  | dropNext n => simp [LaneOp.plain] at hp
  | reorderNext n => simp [LaneOp.plain] at hp
  | filter f => simp [LaneOp.plain] at hp

theorem runG_fifo (ops : List LaneOp) (l : Lane) (g : Ghost) (hp : ∀ op ∈ ops, op.plain = true)
    (hc : Clean l) (h : g.delivered ++ l.inflight = g.written) :
    (runG l g ops).2.delivered ++ (runG l g ops).1.inflight = (runG l g ops).2.written := by
  induction ops generalizing l g with
  | nil => exact h
  | cons op ops ih =>
    simp only [runG]
    have hs := stepG_fifo l g op (hp op (by simp)) hc h
    exact ih _ _ (fun o ho => hp o (by simp [ho])) hs.1 hs.2

theorem fifo_when_unimpaired (ops : List LaneOp) (h : ∀ op ∈ ops, op.plain = true) :
    (runG Lane.new Ghost.empty ops).2.delivered ++ (runG Lane.new Ghost.empty ops).1.inflight =
    (runG Lane.new Ghost.empty ops).2.written :=
  runG_fifo ops _ _ h (by simp [Clean, Lane.new]) (by simp [Lane.new, Ghost.empty])

/-! ### reorder block -/

theorem reorder_fold (xs : List Msg) (hx : xs ≠ []) (l : Lane) (hd : l.pendingDrop ≤ 0)
    (hr : l.pendingReorder = xs.length) :
    (xs.foldl (fun (l : Lane) x => l.write x) l).inflight = l.inflight ++ xs.reverse ++ l.block ∧
    (xs.foldl (fun (l : Lane) x => l.write x) l).block = [] := by
  induction xs generalizing l with
  | nil => exact absurd rfl hx
  | cons x rest ih =>
    have n1 : ¬ l.pendingDrop > 0 := by omega
    have p2 : l.pendingReorder > 0 := by simp [hr]
    simp only [List.foldl_cons]
    cases rest with
    | nil =>
      have h3 : l.pendingReorder - 1 = 0 := by simp [hr]
      simp [Lane.write, n1, p2, h3]
    | cons y ys =>
      have h3 : ¬ l.pendingReorder - 1 = 0 := by simp [hr]; omega
      have hw : l.write x = { l with pendingReorder := l.pendingReorder - 1, block := x :: l.block } := by
        simp [Lane.write, n1, p2, h3]
      rw [hw]
      have := ih (by simp) { l with pendingReorder := l.pendingReorder - 1, block := x :: l.block } hd
        (by simp [hr])
      rw [this.1, this.2]
      simp

theorem reorder_block_reversed (l : Lane) (xs : List Msg) (hx : xs ≠ [])
    (hd : l.pendingDrop ≤ 0) (hb : l.block = []) :
    ((xs.foldl (fun (l : Lane) x => l.write x) { l with pendingReorder := xs.length }).inflight
      = l.inflight ++ xs.reverse) ∧
    (xs.foldl (fun (l : Lane) x => l.write x) { l with pendingReorder := xs.length }).block = [] := by
  have := reorder_fold xs hx { l with pendingReorder := xs.length } hd rfl
  refine ⟨?_, this.2⟩
  rw [this.1]; simp [hb]

theorem deliver_is_head_cut (l : Lane) (x : Msg) (rest : List Msg) (n : Nat) (h : l.inflight = x :: rest) :
    (l.deliver n).2 = some (x.take n) ∧ (l.deliver n).1.inflight = rest := by
  simp [Lane.deliver, h]

/-! ### dpipe -/

theorem take_clamp (d : Msg) (n : Nat) : (if d.length ≤ n then d else d.take n) = d.take n := by
  split
  · rw [List.take_of_length_le]; assumption
  · rfl

theorem dpipe_step_refines (p : DPipe.Pipe) (op : DPipe.Op) :
    absPipe (DPipe.step p op).1 = (specStepD (absPipe p) op).1 ∧ (DPipe.step p op).2 = (specStepD (absPipe p) op).2 := by
  rcases p with ⟨ch0, ch1, c0, c1⟩
  cases op with
  | write e x =>
    simp only [DPipe.step, specStepD, DPipe.Pipe.write, PipeSpec.DPipe.write, absPipe, DPipe.chanCap, pipeCap]
    by_cases he : e = 0
    · simp only [he, if_true]
      cases c0 <;> simp
      by_cases hl : 1000 ≤ ch1.length <;> simp [hl]
    · simp only [he, if_false]
      cases c1 <;> simp
      by_cases hl : 1000 ≤ ch0.length <;> simp [hl]
  | read e n =>
    simp only [DPipe.step, specStepD, DPipe.Pipe.read, PipeSpec.DPipe.read, absPipe, take_clamp]
    by_cases he : e = 0
    · simp only [he, if_true]
      cases c0 <;> simp
      cases ch0 <;> simp
    · simp only [he, if_false]
      cases c1 <;> simp
      cases ch1 <;> simp
  | close e =>
    simp only [DPipe.step, specStepD, DPipe.Pipe.close, PipeSpec.DPipe.close, absPipe]
    by_cases he : e = 0 <;> simp [he]

theorem dpipe_is_message_fifo (ops : List DPipe.Op) (p : DPipe.Pipe) :
    outsModelD p ops = outsSpecD (absPipe p) ops := by
  induction ops generalizing p with
  | nil => rfl
  | cons op ops ih =>
    have hs := dpipe_step_refines p op
    simp only [outsModelD, outsSpecD]
    rw [← hs.1, ← hs.2, ih]

theorem dpipe_close_is_local (p : DPipe.Pipe) (e : Nat) (he : e = 0 ∨ e = 1) (x : Msg) (n : Nat) :
    ((p.close e).write (1 - e) x).2 = (p.write (1 - e) x).2 ∧
    ((p.close e).read (1 - e) n).2 = (p.read (1 - e) n).2 := by
  rcases p with ⟨ch0, ch1, c0, c1⟩
  rcases he with he | he
  · subst he
    simp only [DPipe.Pipe.close, DPipe.Pipe.write, DPipe.Pipe.read, if_true, Nat.sub_zero,
      Nat.succ_ne_zero, if_false]
    constructor
    · cases c1 <;> simp
      by_cases hl : DPipe.chanCap ≤ ch0.length <;> simp [hl]
    · cases c1 <;> simp
      cases ch1 <;> simp
  · subst he
    simp only [DPipe.Pipe.close, DPipe.Pipe.write, DPipe.Pipe.read, if_true, Nat.sub_self,
      Nat.succ_ne_zero, if_false]
    constructor
    · cases c0 <;> simp
      by_cases hl : DPipe.chanCap ≤ ch1.length <;> simp [hl]
    · cases c0 <;> simp
      cases ch0 <;> simp

end TV.Proofs.Pipe
