import TransportVerif.Model.BufferSync
/-
Proof library for C08 (packet buffer wake-up protocol).

* field / `getElem?` lemmas for `Sys.setPc`, `Sys.post`, `Sys.wakeAll`
* `step_ind`: a case-analysis principle for `step` (one premise per branch of the model)
* the invariant `Inv` (`S` structure of `parked`, `K` token ⇒ nobody parked, `C` closed ⇒ nobody
  parked, `J` packet buffered and open ⇒ a token is pending or a reader is on its way to the lock)
  and its preservation by every `step`
* packet conservation
-/
namespace TV.Proofs.BufferSync
open TV TV.BufferSync

/-! ### `setPc` -/

@[simp] theorem setPc_count (s : Sys) (t : Nat) (pc : Pc) : (s.setPc t pc).count = s.count := rfl
@[simp] theorem setPc_token (s : Sys) (t : Nat) (pc : Pc) : (s.setPc t pc).token = s.token := rfl
@[simp] theorem setPc_parked (s : Sys) (t : Nat) (pc : Pc) : (s.setPc t pc).parked = s.parked := rfl
@[simp] theorem setPc_closed (s : Sys) (t : Nat) (pc : Pc) : (s.setPc t pc).closed = s.closed := rfl

theorem setPc_getElem? (s : Sys) (t : Nat) (pc : Pc) (i : Nat) :
    (s.setPc t pc).ths[i]? = (s.ths[i]?).map (fun th => if i = t then { th with pc := pc } else th) := by
  simp [Sys.setPc, List.getElem?_mapIdx]

theorem setPc_getElem?_ne (s : Sys) (t : Nat) (pc : Pc) (i : Nat) (h : i ≠ t) :
    (s.setPc t pc).ths[i]? = s.ths[i]? := by
  rw [setPc_getElem?]; cases s.ths[i]? <;> simp [h]

theorem setPc_getElem?_self (s : Sys) (t : Nat) (pc : Pc) (th : Th) (h : s.ths[t]? = some th) :
    (s.setPc t pc).ths[t]? = some { th with pc := pc } := by
  rw [setPc_getElem?, h]; simp

theorem setPc_ths_eq_set (s : Sys) (t : Nat) (pc : Pc) (th : Th) (h : s.ths[t]? = some th) :
    (s.setPc t pc).ths = s.ths.set t { th with pc := pc } := by
  apply List.ext_getElem?
  intro i
  rw [setPc_getElem?, List.getElem?_set]
  by_cases hi : t = i
  · subst hi
    rcases List.getElem?_eq_some_iff.mp h with ⟨hlt, heq⟩
    simp [hlt, heq]
  · have hi' : i ≠ t := fun e => hi e.symm
    cases s.ths[i]? <;> simp [hi, hi']

theorem setPc_of_none (s : Sys) (t : Nat) (pc : Pc) (h : s.ths[t]? = none) : s.setPc t pc = s := by
  have : (s.setPc t pc).ths = s.ths := by
    apply List.ext_getElem?
    intro i
    rw [setPc_getElem?]
    by_cases hi : i = t
    · subst hi; simp [h]
    · cases s.ths[i]? <;> simp [hi]
  cases s
  simp only [Sys.setPc] at this ⊢
  simp [this]

/-! ### `post` -/

@[simp] theorem post_count (s : Sys) : s.post.count = s.count := by
  unfold Sys.post; split <;> rfl
@[simp] theorem post_closed (s : Sys) : s.post.closed = s.closed := by
  unfold Sys.post; split <;> rfl
@[simp] theorem post_parked (s : Sys) : s.post.parked = s.parked.tail := by
  unfold Sys.post; split <;> simp_all
theorem post_token (s : Sys) : s.post.token = (s.token || s.parked.isEmpty) := by
  unfold Sys.post; split <;> simp_all

theorem post_nil (s : Sys) (h : s.parked = []) : s.post = { s with token := true } := by
  unfold Sys.post; simp [h]
theorem post_cons (s : Sys) (r : Nat) (rest : List Nat) (h : s.parked = r :: rest) :
    s.post = ({ s with parked := rest }).setPc r .atLock := by
  unfold Sys.post; simp [h]

/-! ### `wakeAll` -/

theorem foldl_setPc_fields (l : List Nat) (s : Sys) :
    let s' := l.foldl (fun s r => s.setPc r .atLock) s
    s'.count = s.count ∧ s'.token = s.token ∧ s'.parked = s.parked ∧ s'.closed = s.closed := by
  induction l generalizing s with
  | nil => simp
  | cons r l ih =>
    have := ih (s.setPc r .atLock)
    simpa using this

@[simp] theorem wakeAll_count (s : Sys) : s.wakeAll.count = s.count :=
  (foldl_setPc_fields s.parked { s with parked := [] }).1
@[simp] theorem wakeAll_token (s : Sys) : s.wakeAll.token = s.token :=
  (foldl_setPc_fields s.parked { s with parked := [] }).2.1
@[simp] theorem wakeAll_parked (s : Sys) : s.wakeAll.parked = [] :=
  (foldl_setPc_fields s.parked { s with parked := [] }).2.2.1
@[simp] theorem wakeAll_closed (s : Sys) : s.wakeAll.closed = s.closed :=
  (foldl_setPc_fields s.parked { s with parked := [] }).2.2.2

/-! ### case analysis of `step` -/

theorem step_ind (P : Sys → Prop) (s : Sys) (t : Nat)
    (h_id : P s)
    (h_start : ∀ role, s.ths[t]? = some ⟨role, .start⟩ → P (s.setPc t .atLock))
    (h_take_post : s.ths[t]? = some ⟨.reader, .atLock⟩ → s.count > 0 → s.count - 1 > 0 → s.closed = false →
      P ((({ s with count := s.count - 1 } : Sys).post).setPc t (.done .got)))
    (h_take : s.ths[t]? = some ⟨.reader, .atLock⟩ → s.count > 0 → (s.count - 1 = 0 ∨ s.closed = true) →
      P (({ s with count := s.count - 1 } : Sys).setPc t (.done .got)))
    (h_eof : s.ths[t]? = some ⟨.reader, .atLock⟩ → s.count = 0 → s.closed = true → P (s.setPc t (.done .eof)))
    (h_toSelect : s.ths[t]? = some ⟨.reader, .atLock⟩ → s.count = 0 → s.closed = false → P (s.setPc t .atSelect))
    (h_sel_closed : s.ths[t]? = some ⟨.reader, .atSelect⟩ → s.closed = true → P (s.setPc t .atLock))
    (h_sel_token : s.ths[t]? = some ⟨.reader, .atSelect⟩ → s.closed = false → s.token = true →
      P (({ s with token := false } : Sys).setPc t .atLock))
    (h_park : s.ths[t]? = some ⟨.reader, .atSelect⟩ → s.closed = false → s.token = false →
      P (({ s with parked := s.parked ++ [t] } : Sys).setPc t .parked))
    (h_refused : s.ths[t]? = some ⟨.writer, .atLock⟩ → s.closed = true → P (s.setPc t (.done .refused)))
    (h_write : s.ths[t]? = some ⟨.writer, .atLock⟩ → s.closed = false →
      P ((({ s with count := s.count + 1 } : Sys).post).setPc t (.done .wrote)))
    (h_reclose : s.ths[t]? = some ⟨.closer, .atLock⟩ → s.closed = true → P (s.setPc t (.done .closedOk)))
    (h_close : s.ths[t]? = some ⟨.closer, .atLock⟩ → s.closed = false →
      P ((({ s with closed := true } : Sys).wakeAll).setPc t (.done .closedOk))) :
    P (step s t) := by
  unfold step
  cases hth : s.ths[t]? with
  | none => exact h_id
  | some th =>
    rcases th with ⟨role, pc⟩
    cases role <;> cases pc <;> simp only
    all_goals first
      | exact h_id
      | exact h_start _ hth
      | skip
    · -- reader at the lock
      by_cases hc : s.count > 0
      · simp only [hc, if_true]
        by_cases hm : s.count - 1 > 0 ∧ (!s.closed) = true
        · simp only [hm, and_self, if_true]
          exact h_take_post hth hc hm.1 (by simpa using hm.2)
        · simp only [hm, if_false]
          refine h_take hth hc ?_
          by_cases h1 : s.count - 1 = 0
          · exact Or.inl h1
          · right
            cases hcl : s.closed
            · exact absurd ⟨by omega, by simp [hcl]⟩ hm
            · rfl
      · rw [if_neg hc]
        have h0 : s.count = 0 := by omega
        by_cases hcl : s.closed = true
        · rw [if_pos hcl]; exact h_eof hth h0 hcl
        · rw [if_neg hcl]; exact h_toSelect hth h0 (by simpa using hcl)
    · -- reader at the select
      by_cases hcl : s.closed = true
      · rw [if_pos hcl]; exact h_sel_closed hth hcl
      · rw [if_neg hcl]
        by_cases htk : s.token = true
        · rw [if_pos htk]; exact h_sel_token hth (by simpa using hcl) htk
        · rw [if_neg htk]; exact h_park hth (by simpa using hcl) (by simpa using htk)
    · -- writer at the lock
      by_cases hcl : s.closed = true
      · rw [if_pos hcl]; exact h_refused hth hcl
      · rw [if_neg hcl]; exact h_write hth (by simpa using hcl)
    · -- closer at the lock
      by_cases hcl : s.closed = true
      · rw [if_pos hcl]; exact h_reclose hth hcl
      · rw [if_neg hcl]; exact h_close hth (by simpa using hcl)

/-! ### `K`: a pending token means nobody is parked; `C`: closed means nobody is parked -/

theorem step_K (s : Sys) (t : Nat) (h : s.token = true → s.parked = []) :
    (step s t).token = true → (step s t).parked = [] := by
  apply step_ind (fun s' => s'.token = true → s'.parked = []) s t h
  all_goals intros
  all_goals simp_all [post_token]
  all_goals (cases hp : s.parked <;> simp_all)

theorem step_C (s : Sys) (t : Nat) (h : s.closed = true → s.parked = []) :
    (step s t).closed = true → (step s t).parked = [] := by
  apply step_ind (fun s' => s'.closed = true → s'.parked = []) s t h
  all_goals intros
  all_goals simp_all

/-! ### `S`: structure of the wait queue -/

/-- every queued id is a reader whose pc is `parked`, and no id is queued twice -/
structure S (s : Sys) : Prop where
  park : ∀ r ∈ s.parked, ∃ th, s.ths[r]? = some th ∧ th.role = .reader ∧ th.pc = .parked
  nodup : s.parked.Nodup

theorem S.not_mem {s : Sys} (h : S s) {t : Nat} {th : Th} (hth : s.ths[t]? = some th)
    (hpc : th.pc ≠ .parked) : t ∉ s.parked := by
  intro hm
  rcases h.park t hm with ⟨th', h1, _, h3⟩
  rw [hth] at h1; cases h1; exact hpc h3

theorem S_congr {s s' : Sys} (h : S s) (hp : s'.parked = s.parked) (ht : s'.ths = s.ths) : S s' := by
  constructor
  · intro r hr; rw [ht]; exact h.park r (hp ▸ hr)
  · rw [hp]; exact h.nodup

theorem S_of_nil {s : Sys} (h : s.parked = []) : S s := by
  constructor
  · intro r hr; rw [h] at hr; cases hr
  · rw [h]; exact List.nodup_nil

theorem S_setPc {s : Sys} (h : S s) {t : Nat} (ht : t ∉ s.parked) (pc : Pc) : S (s.setPc t pc) := by
  constructor
  · intro r hr
    have hr' : r ∈ s.parked := hr
    have hne : r ≠ t := fun e => ht (e ▸ hr')
    rw [setPc_getElem?_ne _ _ _ _ hne]
    exact h.park r hr'
  · exact h.nodup

theorem S_post {s : Sys} (h : S s) : S s.post := by
  cases hp : s.parked with
  | nil => rw [post_nil s hp]; exact S_congr h rfl rfl
  | cons r rest =>
    rw [post_cons s r rest hp]
    have hnd : (r :: rest).Nodup := hp ▸ h.nodup
    rw [List.nodup_cons] at hnd
    constructor
    · intro x hx
      have hx' : x ∈ rest := hx
      have hne : x ≠ r := fun e => hnd.1 (e ▸ hx')
      rw [setPc_getElem?_ne _ _ _ _ hne]
      exact h.park x (by rw [hp]; exact List.mem_cons_of_mem _ hx')
    · exact hnd.2

theorem S_park {s : Sys} (h : S s) {t : Nat} (hth : s.ths[t]? = some ⟨.reader, .atSelect⟩) :
    S (({ s with parked := s.parked ++ [t] } : Sys).setPc t .parked) := by
  have hnm : t ∉ s.parked := h.not_mem hth (by simp)
  constructor
  · intro r hr
    have hr' : r ∈ s.parked ++ [t] := hr
    rw [List.mem_append, List.mem_singleton] at hr'
    rcases hr' with hr' | rfl
    · have hne : r ≠ t := fun e => hnm (e ▸ hr')
      rw [setPc_getElem?_ne _ _ _ _ hne]; exact h.park r hr'
    · exact ⟨_, setPc_getElem?_self _ _ _ _ hth, rfl, rfl⟩
  · show (s.parked ++ [t]).Nodup
    rw [List.nodup_append]
    refine ⟨h.nodup, by simp, ?_⟩
    intro a ha b hb
    rw [List.mem_singleton] at hb
    subst hb
    exact fun e => hnm (e ▸ ha)

theorem step_S (s : Sys) (t : Nat) (h : S s) : S (step s t) := by
  apply step_ind S s t h
  · intro role hth; exact S_setPc h (h.not_mem hth (by simp)) _
  · intro hth _ _ _
    have hnm : t ∉ s.parked := h.not_mem hth (by simp)
    have hS' : S ({ s with count := s.count - 1 } : Sys) := S_congr h rfl rfl
    refine S_setPc (S_post hS') ?_ _
    rw [post_parked]; exact fun hm => hnm (List.mem_of_mem_tail hm)
  · intro hth _ _
    have hS' : S ({ s with count := s.count - 1 } : Sys) := S_congr h rfl rfl
    exact S_setPc hS' (h.not_mem hth (by simp)) _
  · intro hth _ _; exact S_setPc h (h.not_mem hth (by simp)) _
  · intro hth _ _; exact S_setPc h (h.not_mem hth (by simp)) _
  · intro hth _; exact S_setPc h (h.not_mem hth (by simp)) _
  · intro hth _ _
    have hS' : S ({ s with token := false } : Sys) := S_congr h rfl rfl
    exact S_setPc hS' (h.not_mem hth (by simp)) _
  · intro hth _ _; exact S_park h hth
  · intro hth _; exact S_setPc h (h.not_mem hth (by simp)) _
  · intro hth _
    have hnm : t ∉ s.parked := h.not_mem hth (by simp)
    have hS' : S ({ s with count := s.count + 1 } : Sys) := S_congr h rfl rfl
    refine S_setPc (S_post hS') ?_ _
    rw [post_parked]; exact fun hm => hnm (List.mem_of_mem_tail hm)
  · intro hth _; exact S_setPc h (h.not_mem hth (by simp)) _
  · intro _ _; exact S_of_nil (by simp)

/-! ### `J`: a buffered packet in an open buffer is announced -/

/-- thread `w` is a reader at the yield before the lock -/
def isRAL (s : Sys) (w : Nat) : Prop := ∃ th, s.ths[w]? = some th ∧ th.role = .reader ∧ th.pc = .atLock

/-- whenever a packet is buffered and the buffer is open, a token is pending or some reader is on
    its way to the lock (it will take a packet and, if packets remain, post again) -/
def J (s : Sys) : Prop := s.count > 0 → s.closed = false → s.token = true ∨ ∃ w, isRAL s w

theorem isRAL_setPc_ne {s : Sys} {w t : Nat} (h : isRAL s w) (hne : w ≠ t) (pc : Pc) :
    isRAL (s.setPc t pc) w := by
  rcases h with ⟨th, h1, h2, h3⟩
  exact ⟨th, by rw [setPc_getElem?_ne _ _ _ _ hne]; exact h1, h2, h3⟩

theorem isRAL_setPc_atLock {s : Sys} {w : Nat} (h : isRAL s w) (t : Nat) : isRAL (s.setPc t .atLock) w := by
  by_cases hne : w = t
  · subst hne
    rcases h with ⟨th, h1, h2, _⟩
    exact ⟨_, setPc_getElem?_self _ _ _ _ h1, h2, rfl⟩
  · exact isRAL_setPc_ne h hne _

theorem post_wakes {s : Sys} (hS : S s) : s.post.token = true ∨ ∃ r, r ∈ s.parked ∧ isRAL s.post r := by
  cases hp : s.parked with
  | nil => left; simp [post_token, hp]
  | cons r rest =>
    right
    refine ⟨r, List.mem_cons_self, ?_⟩
    rw [post_cons s r rest hp]
    rcases hS.park r (by rw [hp]; exact List.mem_cons_self) with ⟨th, h1, h2, _⟩
    exact ⟨_, setPc_getElem?_self _ _ _ _ h1, h2, rfl⟩

theorem step_J (s : Sys) (t : Nat) (hS : S s) (hJ : J s) : J (step s t) := by
  apply step_ind J s t hJ
  · intro role hth hc hcl
    rcases hJ hc hcl with h | ⟨w, hw⟩
    · exact Or.inl h
    · exact Or.inr ⟨w, isRAL_setPc_atLock hw t⟩
  · intro hth _ _ _ _ _
    have hnm : t ∉ s.parked := hS.not_mem hth (by simp)
    have hS' : S ({ s with count := s.count - 1 } : Sys) := S_congr hS rfl rfl
    rcases post_wakes hS' with h | ⟨r, hr, hw⟩
    · exact Or.inl h
    · exact Or.inr ⟨r, isRAL_setPc_ne hw (fun e => hnm (by subst e; exact hr)) _⟩
  · intro _ _ h hc hcl
    have hc' : s.count - 1 > 0 := hc
    have hcl' : s.closed = false := hcl
    rcases h with h | h
    · omega
    · rw [h] at hcl'; cases hcl'
  · intro _ h0 _ hc _
    have hc' : s.count > 0 := hc
    omega
  · intro _ h0 _ hc _
    have hc' : s.count > 0 := hc
    omega
  · intro _ h _ hcl
    have hcl' : s.closed = false := hcl
    rw [h] at hcl'; cases hcl'
  · intro hth _ _ _ _
    exact Or.inr ⟨t, _, setPc_getElem?_self _ _ _ _ hth, rfl, rfl⟩
  · intro hth _ htk hc hcl
    rcases hJ hc hcl with h | ⟨w, hw⟩
    · rw [htk] at h; cases h
    · refine Or.inr ⟨w, isRAL_setPc_ne (s := { s with parked := s.parked ++ [t] }) hw ?_ _⟩
      rintro rfl
      rcases hw with ⟨th, h1, _, h3⟩
      rw [hth] at h1; cases h1; cases h3
  · intro _ h _ hcl
    have hcl' : s.closed = false := hcl
    rw [h] at hcl'; cases hcl'
  · intro hth _ _ _
    have hnm : t ∉ s.parked := hS.not_mem hth (by simp)
    have hS' : S ({ s with count := s.count + 1 } : Sys) := S_congr hS rfl rfl
    rcases post_wakes hS' with h | ⟨r, hr, hw⟩
    · exact Or.inl h
    · exact Or.inr ⟨r, isRAL_setPc_ne hw (fun e => hnm (by subst e; exact hr)) _⟩
  · intro _ h _ hcl
    have hcl' : s.closed = false := hcl
    rw [h] at hcl'; cases hcl'
  · intro _ _ _ hcl
    simp at hcl

/-! ### the invariant -/

structure Inv (s : Sys) : Prop where
  S : S s
  K : s.token = true → s.parked = []
  C : s.closed = true → s.parked = []
  J : J s

theorem Inv_init (pre r w c : Nat) : Inv (Sys.init pre r w c) := by
  refine ⟨S_of_nil rfl, fun _ => rfl, fun _ => rfl, ?_⟩
  intro hc _
  left
  have : pre > 0 := hc
  simp [Sys.init, this]

theorem Inv_step {s : Sys} (h : Inv s) (t : Nat) : Inv (step s t) :=
  ⟨step_S s t h.S, step_K s t h.K, step_C s t h.C, step_J s t h.S h.J⟩

theorem Inv_run {s : Sys} (h : Inv s) (sched : List Nat) : Inv (run s sched) := by
  induction sched generalizing s with
  | nil => exact h
  | cons t ts ih => exact ih (Inv_step h t)

/-- at a quiescent state satisfying the invariant nobody is stranded -/
theorem Inv.not_stranded {s : Sys} (h : Inv s) (hq : s.quiescent = true) : s.stranded = false := by
  cases hp : s.parked with
  | nil => simp [Sys.stranded, hp]
  | cons r rest =>
    have hne : s.parked ≠ [] := by rw [hp]; simp
    have hcl : s.closed = false := by
      cases hcl : s.closed
      · rfl
      · exact absurd (h.C hcl) hne
    have htk : s.token = false := by
      cases htk : s.token
      · rfl
      · exact absurd (h.K htk) hne
    have hc : s.count = 0 := by
      cases hc : s.count with
      | zero => rfl
      | succ n =>
        exfalso
        rcases h.J (by omega) hcl with h1 | ⟨w, th, h1, _, h3⟩
        · rw [htk] at h1; cases h1
        · have hm : th ∈ s.ths := List.mem_of_getElem? h1
          have := (List.all_eq_true.mp hq) th hm
          simp [Th.atYield, h3] at this
    simp [Sys.stranded, hc, hcl]

/-! ### packet conservation -/

/-- number of threads whose pc satisfies `p` -/
def cnt (p : Pc → Bool) (s : Sys) : Nat := s.ths.countP (fun th => p th.pc)

theorem cnt_setPc (p : Pc → Bool) {s : Sys} {t : Nat} {th : Th} (pc : Pc) (h : s.ths[t]? = some th) :
    cnt p (s.setPc t pc) + (if p th.pc then 1 else 0) = cnt p s + (if p pc then 1 else 0) := by
  unfold cnt
  rw [setPc_ths_eq_set s t pc th h]
  rcases List.getElem?_eq_some_iff.mp h with ⟨hlt, heq⟩
  rw [List.countP_set hlt, heq]
  have hpos : p th.pc = true → 0 < s.ths.countP (fun th => p th.pc) := fun hp =>
    List.countP_pos_iff.mpr ⟨th, List.mem_of_getElem? h, hp⟩
  by_cases h1 : p th.pc = true
  · have := hpos h1
    simp only [h1, if_true]
    omega
  · simp only [h1]
    simp

theorem cnt_setPc_same (p : Pc → Bool) {s : Sys} {t : Nat} (pc : Pc)
    (hold : ∀ th, s.ths[t]? = some th → p th.pc = p pc) : cnt p (s.setPc t pc) = cnt p s := by
  cases h : s.ths[t]? with
  | none => rw [setPc_of_none s t pc h]
  | some th =>
    have := cnt_setPc p pc h
    rw [hold th h] at this
    omega

theorem cnt_post (p : Pc → Bool) {s : Sys} (hS : S s) (h1 : p .parked = false) (h2 : p .atLock = false) :
    cnt p s.post = cnt p s := by
  cases hp : s.parked with
  | nil => rw [post_nil s hp]; rfl
  | cons r rest =>
    rw [post_cons s r rest hp]
    have : cnt p (({ s with parked := rest } : Sys).setPc r .atLock) = cnt p ({ s with parked := rest } : Sys) := by
      apply cnt_setPc_same
      intro th hth
      rcases hS.park r (by rw [hp]; exact List.mem_cons_self) with ⟨th', h1', _, h3⟩
      have hth' : s.ths[r]? = some th := hth
      rw [hth'] at h1'; cases h1'
      rw [h3, h1, h2]
    rw [this]; rfl

theorem cnt_foldl (p : Pc → Bool) (h2 : p .atLock = false) (l : List Nat) (s : Sys)
    (h : ∀ r ∈ l, ∀ th, s.ths[r]? = some th → p th.pc = false) :
    cnt p (l.foldl (fun s r => s.setPc r .atLock) s) = cnt p s := by
  induction l generalizing s with
  | nil => rfl
  | cons r l ih =>
    rw [List.foldl_cons, ih (s.setPc r .atLock)]
    · apply cnt_setPc_same
      intro th hth
      rw [h r List.mem_cons_self th hth, h2]
    · intro r' hr' th' hth'
      rw [setPc_getElem?] at hth'
      cases hs : s.ths[r']? with
      | none => rw [hs] at hth'; cases hth'
      | some th0 =>
        rw [hs] at hth'
        simp only [Option.map_some, Option.some.injEq] at hth'
        subst hth'
        split
        · exact h2
        · exact h r' (List.mem_cons_of_mem _ hr') th0 hs

theorem cnt_wakeAll (p : Pc → Bool) {s : Sys} (hS : S s) (h1 : p .parked = false) (h2 : p .atLock = false) :
    cnt p s.wakeAll = cnt p s := by
  unfold Sys.wakeAll
  rw [cnt_foldl p h2]
  · rfl
  · intro r hr th hth
    rcases hS.park r hr with ⟨th', h1', _, h3⟩
    have hth' : s.ths[r]? = some th := hth
    rw [hth'] at h1'; cases h1'
    rw [h3, h1]

theorem post_getElem?_of_not_mem {s : Sys} {t : Nat} (h : t ∉ s.parked) : s.post.ths[t]? = s.ths[t]? := by
  cases hp : s.parked with
  | nil => rw [post_nil s hp]
  | cons r rest =>
    rw [post_cons s r rest hp, setPc_getElem?_ne]
    rintro rfl
    exact h (by rw [hp]; exact List.mem_cons_self)

theorem foldl_getElem?_of_not_mem (l : List Nat) (s : Sys) {t : Nat} (h : t ∉ l) :
    (l.foldl (fun s r => s.setPc r .atLock) s).ths[t]? = s.ths[t]? := by
  induction l generalizing s with
  | nil => rfl
  | cons r l ih =>
    rw [List.foldl_cons, ih _ (fun hm => h (List.mem_cons_of_mem _ hm)), setPc_getElem?_ne]
    rintro rfl
    exact h List.mem_cons_self

theorem wakeAll_getElem?_of_not_mem {s : Sys} {t : Nat} (h : t ∉ s.parked) : s.wakeAll.ths[t]? = s.ths[t]? := by
  unfold Sys.wakeAll
  rw [foldl_getElem?_of_not_mem _ _ h]

/-- readers that returned a packet / writers whose packet was accepted -/
def got (s : Sys) : Nat := cnt (fun pc => pc == .done .got) s
def wrote (s : Sys) : Nat := cnt (fun pc => pc == .done .wrote) s

/-- one step conserves packets (stated without subtraction) -/
theorem step_conserve (s : Sys) (t : Nat) (hS : S s) :
    (step s t).count + got (step s t) + wrote s = s.count + got s + wrote (step s t) := by
  apply step_ind (fun s' => s'.count + got s' + wrote s = s.count + got s + wrote s') s t rfl
  · intro role hth
    have h1 := cnt_setPc (fun pc => pc == .done .got) .atLock hth
    have h2 := cnt_setPc (fun pc => pc == .done .wrote) .atLock hth
    simp at h1 h2
    simp only [got, wrote, setPc_count]; omega
  · intro hth hc _ _
    have hnm : t ∉ s.parked := hS.not_mem hth (by simp)
    have hS' : S ({ s with count := s.count - 1 } : Sys) := S_congr hS rfl rfl
    have hth' : ({ s with count := s.count - 1 } : Sys).post.ths[t]? = some ⟨.reader, .atLock⟩ := by
      rw [post_getElem?_of_not_mem (s := { s with count := s.count - 1 }) hnm]; exact hth
    have h1 := cnt_setPc (fun pc => pc == .done .got) (.done .got) hth'
    have h2 := cnt_setPc (fun pc => pc == .done .wrote) (.done .got) hth'
    rw [cnt_post _ hS' (by simp) (by simp)] at h1 h2
    simp at h1 h2
    simp only [got, wrote, setPc_count, post_count]
    have e1 : cnt (fun pc => pc == .done .got) ({ s with count := s.count - 1 } : Sys) = cnt (fun pc => pc == .done .got) s := rfl
    have e2 : cnt (fun pc => pc == .done .wrote) ({ s with count := s.count - 1 } : Sys) = cnt (fun pc => pc == .done .wrote) s := rfl
    rw [e1] at h1; rw [e2] at h2
    omega
  · intro hth hc _
    have hth' : ({ s with count := s.count - 1 } : Sys).ths[t]? = some ⟨.reader, .atLock⟩ := hth
    have h1 := cnt_setPc (fun pc => pc == .done .got) (.done .got) hth'
    have h2 := cnt_setPc (fun pc => pc == .done .wrote) (.done .got) hth'
    simp at h1 h2
    have e1 : cnt (fun pc => pc == .done .got) ({ s with count := s.count - 1 } : Sys) = cnt (fun pc => pc == .done .got) s := rfl
    have e2 : cnt (fun pc => pc == .done .wrote) ({ s with count := s.count - 1 } : Sys) = cnt (fun pc => pc == .done .wrote) s := rfl
    rw [e1] at h1; rw [e2] at h2
    simp only [got, wrote, setPc_count]
    omega
  · intro hth _ _
    have h1 := cnt_setPc (fun pc => pc == .done .got) (.done .eof) hth
    have h2 := cnt_setPc (fun pc => pc == .done .wrote) (.done .eof) hth
    simp at h1 h2
    simp only [got, wrote, setPc_count]; omega
  · intro hth _ _
    have h1 := cnt_setPc (fun pc => pc == .done .got) .atSelect hth
    have h2 := cnt_setPc (fun pc => pc == .done .wrote) .atSelect hth
    simp at h1 h2
    simp only [got, wrote, setPc_count]; omega
  · intro hth _
    have h1 := cnt_setPc (fun pc => pc == .done .got) .atLock hth
    have h2 := cnt_setPc (fun pc => pc == .done .wrote) .atLock hth
    simp at h1 h2
    simp only [got, wrote, setPc_count]; omega
  · intro hth _ _
    have hth' : ({ s with token := false } : Sys).ths[t]? = some ⟨.reader, .atSelect⟩ := hth
    have h1 := cnt_setPc (fun pc => pc == .done .got) .atLock hth'
    have h2 := cnt_setPc (fun pc => pc == .done .wrote) .atLock hth'
    simp at h1 h2
    have e1 : cnt (fun pc => pc == .done .got) ({ s with token := false } : Sys) = cnt (fun pc => pc == .done .got) s := rfl
    have e2 : cnt (fun pc => pc == .done .wrote) ({ s with token := false } : Sys) = cnt (fun pc => pc == .done .wrote) s := rfl
    rw [e1] at h1; rw [e2] at h2
    simp only [got, wrote, setPc_count]; omega
  · intro hth _ _
    have hth' : ({ s with parked := s.parked ++ [t] } : Sys).ths[t]? = some ⟨.reader, .atSelect⟩ := hth
    have h1 := cnt_setPc (fun pc => pc == .done .got) .parked hth'
    have h2 := cnt_setPc (fun pc => pc == .done .wrote) .parked hth'
    simp at h1 h2
    have e1 : cnt (fun pc => pc == .done .got) ({ s with parked := s.parked ++ [t] } : Sys) = cnt (fun pc => pc == .done .got) s := rfl
    have e2 : cnt (fun pc => pc == .done .wrote) ({ s with parked := s.parked ++ [t] } : Sys) = cnt (fun pc => pc == .done .wrote) s := rfl
    rw [e1] at h1; rw [e2] at h2
    simp only [got, wrote, setPc_count]; omega
  · intro hth _
    have h1 := cnt_setPc (fun pc => pc == .done .got) (.done .refused) hth
    have h2 := cnt_setPc (fun pc => pc == .done .wrote) (.done .refused) hth
    simp at h1 h2
    simp only [got, wrote, setPc_count]; omega
  · intro hth _
    have hnm : t ∉ s.parked := hS.not_mem hth (by simp)
    have hS' : S ({ s with count := s.count + 1 } : Sys) := S_congr hS rfl rfl
    have hth' : ({ s with count := s.count + 1 } : Sys).post.ths[t]? = some ⟨.writer, .atLock⟩ := by
      rw [post_getElem?_of_not_mem (s := { s with count := s.count + 1 }) hnm]; exact hth
    have h1 := cnt_setPc (fun pc => pc == .done .got) (.done .wrote) hth'
    have h2 := cnt_setPc (fun pc => pc == .done .wrote) (.done .wrote) hth'
    rw [cnt_post _ hS' (by simp) (by simp)] at h1 h2
    simp at h1 h2
    simp only [got, wrote, setPc_count, post_count]
    have e1 : cnt (fun pc => pc == .done .got) ({ s with count := s.count + 1 } : Sys) = cnt (fun pc => pc == .done .got) s := rfl
    have e2 : cnt (fun pc => pc == .done .wrote) ({ s with count := s.count + 1 } : Sys) = cnt (fun pc => pc == .done .wrote) s := rfl
    rw [e1] at h1; rw [e2] at h2
    omega
  · intro hth _
    have h1 := cnt_setPc (fun pc => pc == .done .got) (.done .closedOk) hth
    have h2 := cnt_setPc (fun pc => pc == .done .wrote) (.done .closedOk) hth
    simp at h1 h2
    simp only [got, wrote, setPc_count]; omega
  · intro hth _
    have hnm : t ∉ s.parked := hS.not_mem hth (by simp)
    have hS' : S ({ s with closed := true } : Sys) := S_congr hS rfl rfl
    have hth' : ({ s with closed := true } : Sys).wakeAll.ths[t]? = some ⟨.closer, .atLock⟩ := by
      rw [wakeAll_getElem?_of_not_mem (s := { s with closed := true }) hnm]; exact hth
    have h1 := cnt_setPc (fun pc => pc == .done .got) (.done .closedOk) hth'
    have h2 := cnt_setPc (fun pc => pc == .done .wrote) (.done .closedOk) hth'
    rw [cnt_wakeAll _ hS' (by simp) (by simp)] at h1 h2
    simp at h1 h2
    simp only [got, wrote, setPc_count, wakeAll_count]
    have e1 : cnt (fun pc => pc == .done .got) ({ s with closed := true } : Sys) = cnt (fun pc => pc == .done .got) s := rfl
    have e2 : cnt (fun pc => pc == .done .wrote) ({ s with closed := true } : Sys) = cnt (fun pc => pc == .done .wrote) s := rfl
    rw [e1] at h1; rw [e2] at h2
    omega

theorem run_conserve (pre : Nat) {s : Sys} (hS : S s) (h : s.count + got s = pre + wrote s) (sched : List Nat) :
    (run s sched).count + got (run s sched) = pre + wrote (run s sched) := by
  induction sched generalizing s with
  | nil => exact h
  | cons t ts ih =>
    refine ih (step_S s t hS) ?_
    have := step_conserve s t hS
    omega

theorem init_got (pre r w c : Nat) : got (Sys.init pre r w c) = 0 := by
  simp [got, cnt, Sys.init, List.countP_replicate]

theorem init_wrote (pre r w c : Nat) : wrote (Sys.init pre r w c) = 0 := by
  simp [wrote, cnt, Sys.init, List.countP_replicate]

theorem conserved (pre r w c : Nat) (sched : List Nat) :
    (run (Sys.init pre r w c) sched).count + got (run (Sys.init pre r w c) sched) =
      pre + wrote (run (Sys.init pre r w c) sched) := by
  apply run_conserve pre (Inv_init pre r w c).S
  rw [init_got, init_wrote]; rfl

theorem got_eq (s : Sys) : got s = (s.ths.filter (fun th => th.pc == .done .got)).length := by
  simp [got, cnt, List.countP_eq_length_filter]

theorem wrote_eq (s : Sys) : wrote s = (s.ths.filter (fun th => th.pc == .done .wrote)).length := by
  simp [wrote, cnt, List.countP_eq_length_filter]

/-! ### a reader at the lock, in any state -/

theorem post_getElem?_some (s : Sys) (t : Nat) (th : Th) (h : s.ths[t]? = some th) :
    ∃ pc', s.post.ths[t]? = some { th with pc := pc' } := by
  cases hp : s.parked with
  | nil => rw [post_nil s hp]; exact ⟨th.pc, h⟩
  | cons r rest =>
    rw [post_cons s r rest hp]
    by_cases htr : t = r
    · subst htr
      exact ⟨.atLock, setPc_getElem?_self _ _ _ _ h⟩
    · rw [setPc_getElem?_ne _ _ _ _ htr]; exact ⟨th.pc, h⟩

theorem reader_at_lock (s : Sys) (t : Nat) (h : s.ths[t]? = some { role := .reader, pc := .atLock }) :
    (s.count > 0 → (step s t).ths[t]? = some { role := .reader, pc := .done .got } ∧ (step s t).count = s.count - 1) ∧
    (s.count = 0 → s.closed = true → (step s t).ths[t]? = some { role := .reader, pc := .done .eof }) ∧
    (s.count = 0 → s.closed = false → (step s t).ths[t]? = some { role := .reader, pc := .atSelect }) := by
  refine ⟨fun hc => ?_, fun h0 hcl => ?_, fun h0 hcl => ?_⟩
  · by_cases hm : s.count - 1 > 0 ∧ (!s.closed) = true
    · simp only [step, h, hc, if_true, hm, and_self, setPc_count, post_count, and_true]
      rcases post_getElem?_some ({ s with count := s.count - 1 } : Sys) t _ h with ⟨pc', hp⟩
      rw [setPc_getElem?_self _ _ _ _ hp]
    · simp only [step, h, hc, if_true, hm, if_false, setPc_count, and_true]
      have h' : ({ s with count := s.count - 1 } : Sys).ths[t]? = some { role := .reader, pc := .atLock } := h
      rw [setPc_getElem?_self _ _ _ _ h']
  · have hc : ¬ s.count > 0 := by omega
    simp only [step, h, hc, if_false, hcl, if_true]
    rw [setPc_getElem?_self _ _ _ _ h]
  · have hc : ¬ s.count > 0 := by omega
    simp only [step, h, hc, if_false, hcl, Bool.false_eq_true]
    rw [setPc_getElem?_self _ _ _ _ h]

end TV.Proofs.BufferSync
