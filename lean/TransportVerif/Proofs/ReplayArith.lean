import TransportVerif.Link.Replay
/-
Arithmetic of the wrapping detector: the 64-bit reductions are identities on the ranges that
occur, `wrapDiff` is an explicit piecewise-linear function, `ahead`/`behind` in case form.
-/
namespace TV.Proofs.ReplayArith
open TV TV.Replay

theorem i64_small (x : Int) (h1 : -9223372036854775808 ≤ x) (h2 : x < 9223372036854775808) :
    i64 x = x := by
  unfold i64 two64
  simp only
  split <;> omega

theorem toU64_nat (a : Nat) (h : a < two64) : toU64 (a : Int) = a := by
  unfold toU64
  unfold two64 at *
  omega

theorem u64_small (a : Nat) (h : a < two64) : u64 a = a := by
  unfold u64; exact Nat.mod_eq_of_lt h

/-- explicit form of the folded signed distance -/
theorem wrapDiff_eq (L m s : Nat) (hm : m < 2 ^ 62) (hL : L ≤ m) (hs : s ≤ m) :
    wrapDiff L m s =
      if s ≤ L then (if m / 2 < L - s then ((L - s : Nat) : Int) - ((m + 1 : Nat) : Int) else ((L - s : Nat) : Int))
      else (if s - L ≤ m / 2 then -((s - L : Nat) : Int) else ((m + 1 - (s - L) : Nat) : Int)) := by
  unfold wrapDiff
  have e1 : i64 (L : Int) = L := i64_small _ (by omega) (by omega)
  have e2 : i64 (s : Int) = s := i64_small _ (by omega) (by omega)
  have e3 : i64 (m : Int) = m := i64_small _ (by omega) (by omega)
  have e4 : i64 (-(m : Int)) = -(m : Int) := i64_small _ (by omega) (by omega)
  have e5 : u64 (m + 1) = m + 1 := u64_small _ (by unfold two64; omega)
  have e6 : i64 ((L : Int) - (s : Int)) = (L : Int) - s := i64_small _ (by omega) (by omega)
  have e7 : i64 ((m + 1 : Nat) : Int) = ((m + 1 : Nat) : Int) := i64_small _ (by omega) (by omega)
  have e8 : Int.tdiv (m : Int) 2 = ((m / 2 : Nat) : Int) := by
    rw [Int.natCast_tdiv_eq_ediv]; omega
  have e9 : Int.tdiv (-(m : Int)) 2 = -((m / 2 : Nat) : Int) := by
    rw [Int.neg_tdiv, e8]
  simp only [e1, e2, e3, e4, e5, e6, e7, e8, e9]
  have e10 : i64 ((L : Int) - s - ((m + 1 : Nat) : Int)) = (L : Int) - s - ((m + 1 : Nat) : Int) :=
    i64_small _ (by omega) (by omega)
  have e11 : i64 ((L : Int) - s + ((m + 1 : Nat) : Int)) = (L : Int) - s + ((m + 1 : Nat) : Int) :=
    i64_small _ (by omega) (by omega)
  rw [e10, e11]
  by_cases h : s ≤ L
  · rw [if_pos h]
    by_cases h2 : m / 2 < L - s
    · rw [if_pos h2, if_pos (by omega)]; omega
    · rw [if_neg h2, if_neg (by omega), if_neg (by omega)]; omega
  · rw [if_neg h, if_neg (by omega)]
    by_cases h2 : s - L ≤ m / 2
    · rw [if_pos h2, if_neg (by omega)]; omega
    · rw [if_neg h2, if_pos (by omega)]; omega

theorem mod_case (y M : Nat) (hy : y < 2 * M) : y % M = if y < M then y else y - M := by
  split
  · exact Nat.mod_eq_of_lt ‹_›
  · rw [Nat.mod_eq_sub_mod (by omega), Nat.mod_eq_of_lt (by omega)]

theorem ahead_eq (L m x : Nat) (hL : L ≤ m) (hx : x ≤ m) :
    (x + (m + 1) - L % (m + 1)) % (m + 1) = if L ≤ x then x - L else x + (m + 1) - L := by
  rw [Nat.mod_eq_of_lt (show L < m + 1 by omega), mod_case _ _ (by omega)]
  split <;> split <;> omega

theorem behind_eq (L m x : Nat) (hL : L ≤ m) (hx : x ≤ m) :
    (L + (m + 1) - x % (m + 1)) % (m + 1) = if x ≤ L then L - x else L + (m + 1) - x := by
  rw [Nat.mod_eq_of_lt (show x < m + 1 by omega), mod_case _ _ (by omega)]
  split <;> split <;> omega

theorem cong_shift (e1 e2 L a x M : Nat) (h1 : (e1 + e2) % M = L) (h2 : (L + a) % M = x) :
    (e1 + (e2 + a)) % M = x := by
  rw [← Nat.add_assoc, Nat.add_mod, h1, ← h2, Nat.add_mod L a M]
  by_cases hM : M = 0
  · subst hM; simp
  · have : L % M = L := by
      rw [← h1]; exact Nat.mod_mod _ _
    rw [this]

theorem wrapPos_self (x m : Nat) : wrapPos x m x = 0 := by
  unfold wrapPos u64
  simp only [Nat.lt_irrefl, if_false]
  have : x + two64 - x = two64 := by omega
  rw [this]; exact Nat.mod_self _

theorem wrapPos_eq (L m x : Nat) (hm : m < 2 ^ 62) (hL : L ≤ m) (hx : x ≤ m) :
    wrapPos L m x = if x ≤ L then L - x else L + (m + 1) - x := by
  unfold wrapPos u64 two64
  simp only
  split <;> split <;> omega

end TV.Proofs.ReplayArith
