import TransportVerif.Proofs.ReplayWrapInv
/- one `Check` of the wrapping detector against the spec, under the refinement invariant -/
namespace TV.Proofs.Replay
open TV TV.Replay TV.ReplayLink TV.FixedBig TV.ReplaySpec TV.Proofs.ReplayArith

/-- A side condition under which the wrapping detector refines the recorder from the very
first operation: the space has more than 2 numbers, or the window is not larger than the maximum
(every configuration in C05's scope satisfies it). -/
def WrapOk (w m : Nat) : Prop := w ≤ m ∨ 2 ≤ m

/- small standalone arithmetic steps (kept out of the big proof below: `omega` on `Int` goals in
   its large context produces proof terms too deep for the kernel) -/
theorem int_neg_of (D : Int) (a : Nat) (h : D = -(a : Int)) (ha : 0 < a) : D < 0 := by omega

theorem shift_amount (D : Int) (a m : Nat) (h : D = -(a : Int)) (haM : a < m + 1)
    (hm : m < 2 ^ 62) : toU64 (i64 (-D)) = a := by
  rw [h, Int.neg_neg, i64_small _ (by omega) (by omega), toU64_nat _ (by unfold two64; omega)]

theorem int_lt_of (D : Int) (b w : Nat) (h : D = (b : Int)) (hbw : b < w) :
    D < (w : Int) ∧ 0 ≤ D ∧ D.toNat = b := by omega

theorem int_ge_of (D : Int) (b w : Nat) (h : D = (b : Int)) (hbw : ¬ b < w) : (w : Int) ≤ D := by
  omega

/-- One `Check` under the invariant `Rw`, towards any coarser invariant `R`.  The only case left
to the caller (`hfirst`) is the first use in a space of at most 2 numbers with a window larger
than the maximum, where the detector may position its window differently from the recorder. -/
theorem wrap_checkGood_gen (w m : Nat) (hm : m < 2 ^ 62) (hw : w < 2 ^ 63)
    (R : Det → Hist → Prop) (hinj : ∀ d h, Rw w m d h → R d h)
    (d : Det) (h : Hist) (x : Nat) (hR : Rw w m d h)
    (hfirst : h.started = false → x ≤ m →
      wrapDiff (wrapLatest d x) d.maxSeq x = (m : Int) → m < 2 → ¬ w ≤ m →
      CheckGood (cfgOf .wrap w m) R d h x) :
    CheckGood (cfgOf .wrap w m) R d h x := by
  have hcheck : check d x = wrapCheck d x := by unfold check; rw [hR.kind]
  by_cases h1 : m < x
  · left
    refine ⟨?_, ?_⟩
    · rw [hcheck]; unfold wrapCheck; rw [if_pos (by rw [hR.max]; exact h1)]
    · rw [expectedOk_wrap, if_pos h1]; split <;> simp
  have hx : x ≤ m := by omega
  have hxm : ¬ d.maxSeq < x := by rw [hR.max]; exact h1
  have hww : d.windowSize < 2 ^ 63 := by rw [hR.win]; exact hw
  cases hs : h.started
  · -- first use
    have hacc : h.acc = [] := (hR.fresh hs).1
    have hL0 : wrapLatest d x = if x ≠ 0 then x - 1 else m := by
      unfold wrapLatest; rw [hR.init, hs, hR.max]; rfl
    have hL0m : wrapLatest d x ≤ m := by rw [hL0]; split <;> omega
    have hL0c : (wrapLatest d x = m ∧ x = 0) ∨ (wrapLatest d x + 1 = x) := by
      rw [hL0]; split <;> omega
    have hD := wrapDiff_eq (wrapLatest d x) m x hm hL0m hx
    rw [← hR.max] at hD
    have hcases : wrapDiff (wrapLatest d x) d.maxSeq x = -1 ∨
        (wrapDiff (wrapLatest d x) d.maxSeq x = (m : Int) ∧ m < 2) := by
      rw [hD, hR.max]
      split <;> split <;> omega
    rcases hcases with hm1 | ⟨hDm, hm4⟩
    · right
      refine ⟨_, true, by rw [hcheck]; exact wrapCheck_neg d x hxm hww (by omega), ?_, ?_, ?_, ?_⟩
      · have e1 : toU64 (i64 (-(wrapDiff (wrapLatest d x) d.maxSeq x))) = 1 := by
          rw [hm1]; decide
        rw [e1, wrapPos_self, record_wrap_first _ _ _ _ _ hs]
        exact hinj _ _ (Rw_first w m d h x hR hs hx)
      · rw [mustRefuse_wrap, hacc]; simp; omega
      · rw [expectedOk_wrap, if_neg h1, hs]
        split
        · simp
        · simp only [Bool.not_false, if_true]; split <;> simp
      · rw [expectedLatest_wrap, hs]
        split
        · simp
        · simp only [Bool.not_false, if_true]; split <;> simp
    · by_cases hwm : w ≤ m
      case neg => exact hfirst hs hx hDm hm4 hwm
      left
      refine ⟨?_, ?_⟩
      · rw [hcheck]
        apply wrapCheck_window d x hxm hww
        rw [hDm, hR.win]; omega
      · rw [expectedOk_wrap, if_neg h1, hs]
        split
        · simp
        · simp only [Bool.not_false, if_true]; rw [if_pos (by omega)]; simp
  · -- after the first acceptance
    obtain ⟨hlat, hL⟩ := hR.latest hs
    have hwl : wrapLatest d x = h.latest := by
      unfold wrapLatest; rw [hR.init, hs]; simpa using hlat
    have hD := wrapDiff_eq h.latest m x hm hL hx
    rw [← hR.max, ← hwl] at hD
    obtain ⟨a, haeq⟩ : ∃ a, a = ahead (cfgOf .wrap w m) h x := ⟨_, rfl⟩
    obtain ⟨b, hbeq⟩ : ∃ b, b = behind (cfgOf .wrap w m) h x := ⟨_, rfl⟩
    -- (`ha`, `hb` are kept out of the context: `omega` would case-split on their `if`s)
    have ha : a = if h.latest ≤ x then x - h.latest else x + (m + 1) - h.latest :=
      haeq.trans (ahead_wrap w m h x hL hx)
    have hb : b = if x ≤ h.latest then h.latest - x else h.latest + (m + 1) - x :=
      hbeq.trans (behind_wrap w m h x hL hx)
    -- an accepted number's distance is the behind distance when it is below the space size
    have huniq : ∀ e ∈ h.acc, e.1 = x → e.2 < m + 1 → e.2 = b := by
      intro e he hex hlt
      obtain ⟨_, c2⟩ := hR.cong e he
      rw [hex] at c2
      rw [hb]; exact behind_unique m h.latest x e.2 hx hL hlt c2
    rw [hwl, hR.max] at hD
    have hdc := diff_cases h.latest m x hL hx _ a b hD ha hb
    have hRa := fun ha0 => hinj _ _ (Rw_ahead w m d h x a hR hs hx ha ha0)
    have hRb := hinj _ _ (Rw_behind w m d h x b hR hs hx hb)
    have hpos : wrapPos h.latest m x = b := by rw [wrapPos_eq _ _ _ hm hL hx, hb]
    have hbc : (x + b) % (m + 1) = h.latest := by
      rw [hb]; exact behind_cong m h.latest x hx hL
    clear hD ha hb
    rcases hdc with ⟨hDa, ha0, haM, hb2, hnew⟩ | ⟨hDb, hbM, hnew⟩
    · -- ahead: the window moves
      rw [← hwl, ← hR.max] at hDa
      right
      refine ⟨_, true, by
        rw [hcheck]; exact wrapCheck_neg d x hxm hww (int_neg_of _ _ hDa ha0), ?_, ?_, ?_, ?_⟩
      · have e1 : toU64 (i64 (-(wrapDiff (wrapLatest d x) d.maxSeq x))) = a :=
          shift_amount _ a m hDa haM hm
        rw [e1, wrapPos_self, record_wrap_true _ _ _ _ hs, ← haeq]
        exact hRa ha0
      · have hany : h.acc.any (fun e => e.1 == x && decide (2 * e.2 < m + 1)) = false := by
          rw [Bool.eq_false_iff]; intro hh
          rw [List.any_eq_true] at hh
          obtain ⟨e, he, hp⟩ := hh
          simp only [Bool.and_eq_true, beq_iff_eq, decide_eq_true_eq] at hp
          have := huniq e he hp.1 (by omega)
          omega
        rw [mustRefuse_wrap, hany]; simp; omega
      · refine expectedOk_started w m h x true hs h1 (fun _ _ n1 n2 => ?_)
        rw [← haeq] at n1 n2
        have := hnew n1 n2
        rw [valW, newerW_wrap, ← haeq]
        simp [ha0, this]
      · refine expectedLatest_started w m h x true hs (fun _ _ n1 n2 => ?_)
        rw [← haeq] at n1 n2
        have := hnew n1 n2
        rw [newerW_wrap, ← haeq]
        simp [ha0, this]
    · -- not ahead: inside or behind the window
      rw [← hwl, ← hR.max] at hDb
      have hnewF : 2 * w ≤ m + 1 → m < 2 ^ 62 →
          ahead (cfgOf .wrap w m) h x ≠ (m + 2) / 2 - 1 → ahead (cfgOf .wrap w m) h x ≠ (m + 2) / 2 →
          newerW (cfgOf .wrap w m) h x = false := by
        intro _ _ n1 n2
        rw [← haeq] at n1 n2
        have := hnew n1 n2
        rw [newerW_wrap, ← haeq]
        rcases this with h0 | h2
        · simp [h0]
        · have : ¬ 2 * a < m + 1 := by omega
          simp [this]
      by_cases hbw : b < w
      · cases hbit : d.mask.bit b
        · -- accepted inside the window
          have hnoent : ¬ ∃ e ∈ h.acc, e.2 = b := by
            intro hh
            have := (hR.bits b hbw).2 hh
            rw [hbit] at this; cases this
          right
          obtain ⟨i1, i2, i3⟩ := int_lt_of _ b w hDb hbw
          refine ⟨_, false, by
            rw [hcheck]
            exact wrapCheck_pos d x hxm hww (by rw [hR.win]; exact i1) i2
              (by rw [i3]; exact hbit), ?_, ?_, ?_, ?_⟩
          · have e1 : wrapPos (wrapLatest d x) d.maxSeq x = b := by
              rw [hwl, hR.max, hpos]
            rw [e1, hwl, record_wrap_false _ _ _ _ hs, ← hbeq]
            exact hRb
          · have hany : h.acc.any (fun e => e.1 == x && decide (2 * e.2 < m + 1)) = false := by
              rw [Bool.eq_false_iff]; intro hh
              rw [List.any_eq_true] at hh
              obtain ⟨e, he, hp⟩ := hh
              simp only [Bool.and_eq_true, beq_iff_eq, decide_eq_true_eq] at hp
              exact hnoent ⟨e, he, huniq e he hp.1 (by omega)⟩
            rw [mustRefuse_wrap, hany]; simp; omega
          · refine expectedOk_started w m h x true hs h1 (fun hsc _ _ _ => ?_)
            have hany : h.acc.any (fun e => e.1 == x && decide (e.2 < w)) = false := by
              rw [Bool.eq_false_iff]; intro hh
              rw [List.any_eq_true] at hh
              obtain ⟨e, he, hp⟩ := hh
              simp only [Bool.and_eq_true, beq_iff_eq, decide_eq_true_eq] at hp
              exact hnoent ⟨e, he, huniq e he hp.1 (by omega)⟩
            rw [valW, ← hbeq, hany]
            simp [hbw]
          · exact expectedLatest_started w m h x false hs hnewF
        · -- replay inside the window
          obtain ⟨e, he, he2⟩ := (hR.bits b hbw).1 hbit
          left
          obtain ⟨i1, i2, i3⟩ := int_lt_of _ b w hDb hbw
          refine ⟨by
            rw [hcheck]
            exact wrapCheck_bit d x hxm hww (by rw [hR.win]; exact i1) i2
              (by rw [i3]; exact hbit), ?_⟩
          refine expectedOk_started w m h x false hs h1 (fun hsc hm' n1 n2 => ?_)
          have hex : e.1 = x := by
            obtain ⟨c1, c2⟩ := hR.cong e he
            rw [he2] at c2
            exact num_unique m h.latest x e.1 b c1 hx hbM c2 hbc
          have hany : h.acc.any (fun e => e.1 == x && decide (e.2 < w)) = true := by
            rw [List.any_eq_true]
            exact ⟨e, he, by simp [hex, he2, hbw]⟩
          rw [valW, hnewF hsc hm' n1 n2, hany]
          simp
      · -- behind the window
        left
        refine ⟨by
          rw [hcheck]
          exact wrapCheck_window d x hxm hww (by rw [hR.win]; exact int_ge_of _ b w hDb hbw), ?_⟩
        refine expectedOk_started w m h x false hs h1 (fun hsc hm' n1 n2 => ?_)
        rw [valW, hnewF hsc hm' n1 n2, ← hbeq]
        simp [hbw]

theorem wrap_checkGood (w m : Nat) (hm : m < 2 ^ 62) (hw : w < 2 ^ 63) (H : WrapOk w m)
    (d : Det) (h : Hist) (x : Nat) (hR : Rw w m d h) :
    CheckGood (cfgOf .wrap w m) (Rw w m) d h x :=
  wrap_checkGood_gen w m hm hw (Rw w m) (fun _ _ hr => hr) d h x hR
    (fun _ _ _ hm4 hwm => by unfold WrapOk at H; omega)

end TV.Proofs.Replay
