import TransportVerif.Proofs.Ctx
/- consequences of the reachability invariant: the single-operation facts and the session lemmas -/
namespace TV.Proofs.Ctx
open TV TV.Ctx TV.CtxLink

theorem inv_reach (want avail : Nat) (c st : Bool) (ss : List Step) :
    Inv (run (Op.new want avail c st) ss) :=
  inv_run _ _ (inv_new want avail c st)

theorem reach_bytes (want avail : Nat) (c st : Bool) (ss : List Step) :
    (run (Op.new want avail c st) ss).avail + (run (Op.new want avail c st) ss).transferred
      = avail + dataSum ss := by
  have h := run_bytes (Op.new want avail c st) ss
  have h1 : (Op.new want avail c st).avail = avail := rfl
  have h2 : (Op.new want avail c st).transferred = 0 := rfl
  omega

theorem reach_want (want avail : Nat) (c st : Bool) (ss : List Step) :
    (run (Op.new want avail c st) ss).want = want := run_want _ _

theorem reach_stream (want avail : Nat) (c st : Bool) (ss : List Step) :
    (run (Op.new want avail c st) ss).stream = st := run_stream _ _

/-! ### facts about a state satisfying the invariant -/

theorem inv_finished_clean (o : Op) (h : Inv o) (hf : o.main = .finished) :
    o.deadlineOld = false ∧ o.watcher = .exited := by
  rcases o with ⟨m, w, c, d, dl, av, wt, n, ce, r, tr, st⟩
  simp only [Inv] at h hf ⊢
  grind

theorem inv_finished_iff (o : Op) (h : Inv o) : o.main = .finished ↔ o.result.isSome = true :=
  h.2.2.2.2.2.2.2.2.1

theorem inv_result (o : Op) (h : Inv o) (n : Nat) (e : Err) (hr : o.result = some (n, e)) :
    n = o.transferred ∧ n ≤ o.want ∧
      (e = .timeout → (o.cancelled = true ∧ o.stream = true ∧ 0 < n ∧ n < o.want)) ∧
      (e = .ctx → (o.cancelled = true ∧ n = 0)) ∧
      (o.cancelled = false → 0 < o.want → e = .nil ∧ 0 < n ∧ (o.stream = true → n = o.want)) ∧
      (0 < o.want → n = 0 → e = .ctx ∧ o.cancelled = true) := by
  rcases o with ⟨m, w, c, d, dl, av, wt, n0, ce, r, tr, st⟩
  simp only [Inv] at h hr ⊢
  subst hr
  obtain ⟨-, h2, -, -, -, -, -, -, h9, -, ⟨h11, h11'⟩, -, -, h14, h15⟩ := h
  have hm : m = .finished := h9.2 rfl
  have hd : d = true := by
    cases d
    · rcases h2.1 rfl with h | h <;> simp [hm] at h
    · rfl
  obtain ⟨ht, -, hn⟩ := h14 hd
  obtain ⟨rfl, hres⟩ := h15 n e rfl
  subst h11
  cases e <;> cases ce <;> cases c <;> cases st <;> simp at ht hn hres ⊢ <;> grind

theorem inv_quiescent (o : Op) (h : Inv o) (hq : o.quiescent = true) :
    o.main = .finished ∨ (o.main = .inCall ∧ o.cancelled = false ∧ o.avail = 0) := by
  rcases o with ⟨m, w, c, d, dl, av, wt, n, ce, r, tr, st⟩
  simp [Op.quiescent] at hq
  simp only [Inv] at h ⊢
  grind

theorem inv_next_clean (o : Op) (h : Inv o) (hf : o.main = .finished) (want' : Nat) (c' st' : Bool) :
    Op.next o want' c' st' = Op.new want' o.avail c' st' := by
  simp [Op.next, Op.new, (inv_finished_clean o h hf).1]

/-- what a returned operation contributes to `reported` is what it transferred -/
theorem inv_reported (o : Op) (h : Inv o) (hf : o.main = .finished) :
    reported [o] = o.transferred := by
  have hs := (inv_finished_iff o h).1 hf
  cases hr : o.result with
  | none => simp [hr] at hs
  | some p =>
    obtain ⟨n, e⟩ := p
    simp only [reported, List.map_cons, List.map_nil, List.sum_cons, List.sum_nil, hr]
    exact (inv_result o h n e hr).1

theorem reported_cons (o : Op) (l : List Op) : reported (o :: l) = reported [o] + reported l := by
  simp [reported]

theorem offered_cons (c : Call) (l : List Call) : offered (c :: l) = dataSum c.sched + offered l := by
  simp [offered]

theorem inv_live (o : Op) (h : Inv o) (hf : o.main = .finished) (hc : o.cancelled = false)
    (hw : 0 < o.want) : ∃ n, 0 < n ∧ o.result = some (n, .nil) := by
  have hs := (inv_finished_iff o h).1 hf
  cases hr : o.result with
  | none => simp [hr] at hs
  | some p =>
    obtain ⟨n, e⟩ := p
    have := (inv_result o h n e hr).2.2.2.2.1 hc hw
    exact ⟨n, this.2.1, by rw [this.1]⟩

/-! ### sessions -/

theorem session_cons_cons (first : Op) (c c' : Call) (cs : List Call) :
    session first (c :: c' :: cs) =
      run first c.sched :: session (Op.next (run first c.sched) c'.want c'.cancelled c'.stream) (c' :: cs) := rfl

theorem session_single (first : Op) (c : Call) : session first [c] = [run first c.sched] := rfl

/-- every operation of a session whose operations have all returned is a reachable state of the
    single-operation model (because each one starts clean) -/
theorem session_inv (want avail : Nat) (c st : Bool) (cs : List Call)
    (hfin : ∀ o ∈ session (Op.new want avail c st) cs, o.main = .finished) :
    ∀ o ∈ session (Op.new want avail c st) cs, Inv o := by
  induction cs generalizing want avail c st with
  | nil => intro o ho; simp [session] at ho
  | cons c1 cs ih =>
    cases cs with
    | nil =>
      intro o ho
      rw [session_single] at ho
      simp at ho
      subst ho
      exact inv_reach _ _ _ _ _
    | cons c2 cs =>
      rw [session_cons_cons] at hfin ⊢
      have hI := inv_reach want avail c st c1.sched
      have hf : (run (Op.new want avail c st) c1.sched).main = .finished :=
        hfin _ (List.mem_cons_self ..)
      rw [inv_next_clean _ hI hf] at hfin ⊢
      intro o ho
      rcases List.mem_cons.1 ho with rfl | ho
      · exact hI
      · exact ih _ _ _ _ (fun o ho => hfin o (List.mem_cons_of_mem _ ho)) o ho

theorem session_conserves_gen (want avail : Nat) (c st : Bool) (cs : List Call) (hne : cs ≠ [])
    (hfin : ∀ o ∈ session (Op.new want avail c st) cs, o.main = .finished) :
    reported (session (Op.new want avail c st) cs) +
        ((session (Op.new want avail c st) cs).getLast?.map (·.avail)).getD avail
      = avail + offered cs := by
  induction cs generalizing want avail c st with
  | nil => exact absurd rfl hne
  | cons c1 cs ih =>
    have hI := inv_reach want avail c st c1.sched
    have hb := reach_bytes want avail c st c1.sched
    cases cs with
    | nil =>
      rw [session_single] at hfin ⊢
      have hf := hfin _ (List.mem_cons_self ..)
      have hr := inv_reported _ hI hf
      simp only [offered, List.map_cons, List.map_nil, List.sum_cons, List.sum_nil,
        List.getLast?_singleton, Option.map_some, Option.getD_some]
      rw [hr]
      omega
    | cons c2 cs =>
      rw [session_cons_cons] at hfin ⊢
      have hf : (run (Op.new want avail c st) c1.sched).main = .finished :=
        hfin _ (List.mem_cons_self ..)
      have hr := inv_reported _ hI hf
      rw [inv_next_clean _ hI hf] at hfin ⊢
      have ih' := ih c2.want (run (Op.new want avail c st) c1.sched).avail c2.cancelled c2.stream
        (by simp) (fun o ho => hfin o (List.mem_cons_of_mem _ ho))
      have hlast : ∀ (x : Op) (l : List Op), l ≠ [] → (x :: l).getLast? = l.getLast? := by
        intro x l hl
        cases l with
        | nil => exact absurd rfl hl
        | cons y l => exact List.getLast?_cons_cons
      have hne' : session (Op.new c2.want (run (Op.new want avail c st) c1.sched).avail c2.cancelled c2.stream)
          (c2 :: cs) ≠ [] := by
        cases cs <;> simp [session]
      rw [hlast _ _ hne']
      generalize session (Op.new c2.want (run (Op.new want avail c st) c1.sched).avail c2.cancelled c2.stream)
          (c2 :: cs) = l at ih' hne' ⊢
      have hlast' : ∃ y, l.getLast? = some y := by
        cases h : l.getLast? with
        | none => exact absurd (List.getLast?_eq_none_iff.1 h) hne'
        | some y => exact ⟨y, rfl⟩
      obtain ⟨y, hy⟩ := hlast'
      rw [hy] at ih' ⊢
      simp only [Option.map_some, Option.getD_some] at ih' ⊢
      rw [reported_cons, offered_cons, hr]
      rw [offered_cons] at ih' ⊢
      omega

end TV.Proofs.Ctx
