import TransportVerif.Proofs.Nat
import TransportVerif.Proofs.NatReply
/-
NAT proofs, C01 stability clause: an external address never changes owner.

In NAPT mode the external port of a mapping is `basePort + id`, `id` the value of the counter at
allocation, and the counter only grows.  Along a history we carry an owner function `f : id → loc`
with `m.loc = f m.id` for every mapping in the list; an allocation extends `f` at the fresh id `c`
and leaves it unchanged below `c`.  Every forwarded inbound datagram and every translated outbound
datagram is then tied to `f` at the id encoded in the external port (`Ev`), and `f` only ever
changes above the counter, so one final `f` explains the whole trace (`aTr_owner`).
-/
namespace TV.Proofs.NatStable
open TV TV.Nat TV.NatLink TV.Proofs.Nat TV.Proofs.NatReply

/-- the answers of the model along a history (same equations as `Props.C01NatStable.trace`) -/
def tr : NAT × Int → List Op → List (Op × Out)
  | _, [] => []
  | s, op :: ops => (op, (step s op).2) :: tr (step s op).1 ops

/-- the answers of the abstract machine along a history -/
def aTr (n : NAT) : AS → List Op → List (Op × Out)
  | _, [] => []
  | s, op :: ops => (op, (aStep n s op).2) :: aTr n (aStep n s op).1 ops

theorem tr_conc (n : NAT) (h1 : n.one2one = false) (ops : List Op) :
    ∀ (s : AS), WfS n s → tr (conc n s) ops = aTr n s ops := by
  induction ops with
  | nil => intro s _; rfl
  | cons op ops ih =>
    intro s h
    simp only [tr, aTr, step_conc n h1 s h op]
    rw [ih _ (aStep_wf n s h op)]

/-- any function satisfying the equations of `trace` is `tr` -/
theorem tr_unique (T : NAT × Int → List Op → List (Op × Out))
    (hnil : ∀ s, T s [] = [])
    (hcons : ∀ s op ops, T s (op :: ops) = (op, (step s op).2) :: T (step s op).1 ops)
    (ops : List Op) : ∀ s, T s ops = tr s ops := by
  induction ops with
  | nil => intro s; rw [hnil]; rfl
  | cons op ops ih => intro s; rw [hcons, ih]; rfl

/-- the event `e` is explained by the owner function `f` at an id below `c` -/
def Ev (f : Nat → Addr) (c : Nat) (e : Op × Out) : Prop :=
  (∀ r ext l, e = (Op.inb r ext, Out.i (.ok l)) → ∃ i, i < c ∧ ext.port = basePort + i ∧ l = f i) ∧
  (∀ src dst ext, e = (Op.out src dst, Out.o (.ok ext)) → ∃ i, i < c ∧ ext.port = basePort + i ∧ src = f i)

theorem Ev.mono {f g : Nat → Addr} {c c' : Nat} {e : Op × Out} (h : Ev f c e) (hc : c ≤ c')
    (hg : ∀ i, i < c → g i = f i) : Ev g c' e := by
  refine ⟨fun r ext l he => ?_, fun src dst ext he => ?_⟩
  · obtain ⟨i, hi, hp, hl⟩ := h.1 r ext l he
    exact ⟨i, Nat.lt_of_lt_of_le hi hc, hp, by rw [hg i hi]; exact hl⟩
  · obtain ⟨i, hi, hp, hl⟩ := h.2 src dst ext he
    exact ⟨i, Nat.lt_of_lt_of_le hi hc, hp, by rw [hg i hi]; exact hl⟩

/-- a forwarded inbound datagram goes to the `loc` of a mapping in the list keyed by the destination -/
theorem aIn_witness (n : NAT) (L : List Mapping) (now : Int) (src dst l : Addr)
    (h : (aIn n L now src dst).2 = .ok l) :
    ∃ m, m ∈ L ∧ inKey m = (dst.ip, dst.port) ∧ l = m.loc := by
  unfold aIn at h
  cases hf : L.find? (fun m => decide (inKey m = (dst.ip, dst.port)) && alive now m) with
  | none => rw [hf] at h; cases h
  | some m =>
    rw [hf] at h
    obtain ⟨hm, hk, _⟩ := find_and_some hf
    simp only [decide_eq_true_eq] at hk
    by_cases hc : m.filters.contains (keyOf n.filtBeh src) = true
    · simp only [hc, if_true, InRes.ok.injEq] at h
      exact ⟨m, hm, hk, h.symm⟩
    · simp only [hc] at h; cases h

theorem aIn_sub (n : NAT) (L : List Mapping) (now : Int) (src dst : Addr) :
    ∀ m ∈ (aIn n L now src dst).1, m ∈ L := by
  unfold aIn
  cases hf : L.find? (fun m => decide (inKey m = (dst.ip, dst.port)) && alive now m) with
  | none => intro m hm; exact (List.mem_filter.1 hm).1
  | some m0 => intro m hm; exact hm

theorem aOut_counter (n : NAT) (L : List Mapping) (c : Nat) (now : Int) (src dst : Addr) :
    c ≤ (aOut n L c now src dst).1.2 := by
  unfold aOut
  cases hf : L.find? (fun m => decide (outKey m = (src, keyOf n.mapBeh dst)) && alive now m) with
  | some m0 => exact Nat.le_refl _
  | none =>
    cases hh : n.mappedIPs.head? with
    | none => exact Nat.le_refl _
    | some ip0 => exact Nat.le_succ _

/-- an outbound call extends the owner function at most at the fresh id `c` -/
theorem aOut_owner (n : NAT) (L : List Mapping) (c : Nat) (hw : WfL n.mappedIPs c L) (now : Int)
    (src dst : Addr) (f : Nat → Addr) (hf : ∀ m ∈ L, m.loc = f m.id) :
    ∃ g : Nat → Addr, (∀ i, i < c → g i = f i) ∧ ∀ m ∈ (aOut n L c now src dst).1.1, m.loc = g m.id := by
  unfold aOut
  cases hfd : L.find? (fun m => decide (outKey m = (src, keyOf n.mapBeh dst)) && alive now m) with
  | some m0 =>
    obtain ⟨hm, _, _⟩ := find_and_some hfd
    refine ⟨f, fun _ _ => rfl, ?_⟩
    intro m hmm
    obtain ⟨x, hx, rfl⟩ := List.mem_map.1 hmm
    by_cases hi : x.id = m0.id
    · rw [if_pos hi]; exact hf m0 hm
    · rw [if_neg hi]; exact hf x hx
  | none =>
    cases hh : n.mappedIPs.head? with
    | none =>
      exact ⟨f, fun _ _ => rfl, fun m hm => hf m (List.mem_filter.1 hm).1⟩
    | some ip0 =>
      refine ⟨fun i => if i = c then src else f i, ?_, ?_⟩
      · intro i hi
        have : i ≠ c := Nat.ne_of_lt hi
        simp [this]
      · intro m hm
        rcases List.mem_append.1 hm with hm | hm
        · have hmL := (List.mem_filter.1 hm).1
          have : m.id ≠ c := Nat.ne_of_lt (hw.inv m hmL).1
          simp only [this, if_false]
          exact hf m hmL
        · simp only [List.mem_singleton] at hm
          subst hm
          simp [fresh]

/-- one step: the owner function is extended above the old counter only, and explains the answer -/
theorem aStep_owner (n : NAT) (s : AS) (hw : WfS n s) (op : Op) (f : Nat → Addr)
    (hf : ∀ m ∈ s.L, m.loc = f m.id) :
    s.c ≤ (aStep n s op).1.c ∧
    ∃ g : Nat → Addr, (∀ i, i < s.c → g i = f i) ∧ (∀ m ∈ (aStep n s op).1.L, m.loc = g m.id) ∧
      Ev g (aStep n s op).1.c (op, (aStep n s op).2) := by
  cases op with
  | out a b =>
    refine ⟨aOut_counter n s.L s.c s.now a b, ?_⟩
    obtain ⟨g, hg1, hg2⟩ := aOut_owner n s.L s.c hw s.now a b f hf
    refine ⟨g, hg1, hg2, ?_, ?_⟩
    · intro r ext l he; cases he
    · intro src dst ext he
      simp only [aStep, Prod.mk.injEq, Op.out.injEq, Out.o.injEq] at he
      obtain ⟨⟨rfl, rfl⟩, he⟩ := he
      obtain ⟨m, hm, hk, hl, _, _⟩ := aOut_witness n s.L s.c s.now a b ext he
      have hw' := aOut_wf n s.L s.c hw s.now a b
      have hi := hw'.inv m hm
      simp only [inKey, Prod.mk.injEq] at hk
      refine ⟨m.id, hi.1, ?_, ?_⟩
      · rw [← hk.2]; exact hi.2.1
      · rw [← hl]; exact hg2 m hm
  | inb a b =>
    refine ⟨Nat.le_refl _, f, fun _ _ => rfl, fun m hm => hf m (aIn_sub n s.L s.now a b m hm), ?_, ?_⟩
    · intro r ext l he
      simp only [aStep, Prod.mk.injEq, Op.inb.injEq, Out.i.injEq] at he
      obtain ⟨⟨rfl, rfl⟩, he⟩ := he
      obtain ⟨m, hm, hk, hl⟩ := aIn_witness n s.L s.now a b l he
      have hi := hw.inv m hm
      simp only [inKey, Prod.mk.injEq] at hk
      refine ⟨m.id, hi.1, ?_, ?_⟩
      · rw [← hk.2]; exact hi.2.1
      · rw [hl]; exact hf m hm
    · intro src dst ext he; cases he
  | adv dt =>
    refine ⟨Nat.le_refl _, f, fun _ _ => rfl, hf, ?_, ?_⟩
    · intro r ext l he; cases he
    · intro src dst ext he; cases he

/-- one owner function explains the whole trace -/
theorem aTr_owner (n : NAT) (ops : List Op) :
    ∀ (s : AS), WfS n s → ∀ (f : Nat → Addr), (∀ m ∈ s.L, m.loc = f m.id) →
      ∃ (g : Nat → Addr) (c : Nat), (∀ i, i < s.c → g i = f i) ∧ ∀ e ∈ aTr n s ops, Ev g c e := by
  induction ops with
  | nil =>
    intro s _ f _
    exact ⟨f, 0, fun _ _ => rfl, fun e he => by cases he⟩
  | cons op ops ih =>
    intro s hw f hf
    obtain ⟨hc, g1, hg1, hL1, hev⟩ := aStep_owner n s hw op f hf
    obtain ⟨g, c, hg, hall⟩ := ih (aStep n s op).1 (aStep_wf n s hw op) g1 hL1
    refine ⟨g, max c (aStep n s op).1.c, ?_, ?_⟩
    · intro i hi
      rw [hg i (Nat.lt_of_lt_of_le hi hc), hg1 i hi]
    · intro e he
      simp only [aTr, List.mem_cons] at he
      rcases he with rfl | he
      · exact hev.mono (Nat.le_max_right _ _) hg
      · exact (hall e he).mono (Nat.le_max_left _ _) (fun _ _ => rfl)

/-- the trace of a freshly constructed NAPT NAT is explained by one owner function -/
theorem tr_owner {mb fb : Dep} {lt : Int} {mapped loc : List Nat} {n : NAT} (ops : List Op)
    (hn : NAT.new false mb fb lt mapped loc = some n) :
    ∃ (g : Nat → Addr) (c : Nat), ∀ e ∈ tr (n, 0) ops, Ev g c e := by
  obtain ⟨h1, _, _, _⟩ := new_napt hn
  rw [new_napt_conc hn, tr_conc n h1 ops _ (init_wf n)]
  obtain ⟨g, c, _, h⟩ := aTr_owner n ops AS.init (init_wf n) (fun _ => ⟨0, 0⟩)
    (fun m hm => by cases hm)
  exact ⟨g, c, h⟩

theorem inbound_key_stable (T : NAT × Int → List Op → List (Op × Out))
    (hnil : ∀ s, T s [] = [])
    (hcons : ∀ s op ops, T s (op :: ops) = (op, (step s op).2) :: T (step s op).1 ops)
    (mb fb : Dep) (lt : Int) (mapped loc : List Nat) (n : NAT) (ops : List Op)
    (hn : NAT.new false mb fb lt mapped loc = some n)
    (r1 r2 ext l1 l2 : Addr)
    (h1 : (Op.inb r1 ext, Out.i (.ok l1)) ∈ T (n, 0) ops)
    (h2 : (Op.inb r2 ext, Out.i (.ok l2)) ∈ T (n, 0) ops) : l1 = l2 := by
  rw [tr_unique T hnil hcons] at h1 h2
  obtain ⟨g, c, h⟩ := tr_owner ops hn
  obtain ⟨i1, _, hp1, hl1⟩ := (h _ h1).1 r1 ext l1 rfl
  obtain ⟨i2, _, hp2, hl2⟩ := (h _ h2).1 r2 ext l2 rfl
  have : i1 = i2 := by omega
  rw [hl1, hl2, this]

theorem inbound_goes_to_the_owner (T : NAT × Int → List Op → List (Op × Out))
    (hnil : ∀ s, T s [] = [])
    (hcons : ∀ s op ops, T s (op :: ops) = (op, (step s op).2) :: T (step s op).1 ops)
    (mb fb : Dep) (lt : Int) (mapped loc : List Nat) (n : NAT) (ops : List Op)
    (hn : NAT.new false mb fb lt mapped loc = some n)
    (src dst r ext l : Addr)
    (h1 : (Op.out src dst, Out.o (.ok ext)) ∈ T (n, 0) ops)
    (h2 : (Op.inb r ext, Out.i (.ok l)) ∈ T (n, 0) ops) : l = src := by
  rw [tr_unique T hnil hcons] at h1 h2
  obtain ⟨g, c, h⟩ := tr_owner ops hn
  obtain ⟨i1, _, hp1, hl1⟩ := (h _ h1).2 src dst ext rfl
  obtain ⟨i2, _, hp2, hl2⟩ := (h _ h2).1 r ext l rfl
  have : i1 = i2 := by omega
  rw [hl1, hl2, this]

theorem inbound_key_stable_one2one (n : NAT) (h : n.one2one = true) (now now' : Int) (r1 r2 ext : Addr) :
    (n.translateInbound now r1 ext).2 = (n.translateInbound now' r2 ext).2 ∧
    (n.translateInbound now r1 ext).1 = n := by
  rw [one_to_one_inbound n now r1 ext h, one_to_one_inbound n now' r2 ext h]
  exact ⟨rfl, rfl⟩

end TV.Proofs.NatStable
