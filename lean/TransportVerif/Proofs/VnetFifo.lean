import TransportVerif.Proofs.VnetAcc
import TransportVerif.Proofs.VnetFifoAbs
/-
`flow_fifo_partial`: the abstract ordering invariant (VnetFifoAbs) instantiated with the containers of
a network (router queues and hand-over logs).
-/
set_option autoImplicit false
namespace TV.Proofs.Vnet
open TV TV.Nat TV.Vnet TV.VnetLink

/-- the containers of a network -/
def conts (n : Net) : Conts
  | .queue r => queueAt n r
  | .inbox h s => (sockAt n h s).map (·.delivered)

theorem conts_congr {n n' : Net} (hq : ∀ r, queueAt n' r = queueAt n r)
    (hs : ∀ h s, (sockAt n' h s).map (·.delivered) = (sockAt n h s).map (·.delivered)) : conts n' = conts n := by
  funext k
  cases k with
  | queue r => exact hq r
  | inbox h s => exact hs h s

theorem conts_QEq {n n' : Net} (h : QEq n n') : conts n' = conts n :=
  conts_congr (queueAt_QEq h) (fun hh s => by rw [sockAt_QEq h])

theorem conts_modSock (n : Net) (h s : Nat) (f : SockM → SockM) (hf : ∀ sk, (f sk).delivered = sk.delivered) :
    conts (modSock n h s f) = conts n := by
  refine conts_congr (fun _ => rfl) ?_
  intro h' s'
  rw [sockAt_modSock]
  split
  · cases sockAt n h' s' with
    | none => rfl
    | some sk => simp [hf]
  · rfl

theorem conts_enq (n : Net) (r : Nat) (c : Chunk) (l : List Chunk) (hl : queueAt n r = some l) (k : Ctr) :
    conts (enq n r c) k = if k = .queue r then some (l ++ [qHop r c]) else conts n k := by
  cases k with
  | queue r' =>
    show queueAt (enq n r c) r' = _
    rw [queueAt_enq]
    by_cases e : r' = r
    · subst e; simp [hl]
    · simp [e, conts]
  | inbox h s => simp [conts]; rfl

theorem conts_pop (n : Net) (r : Nat) (rt rt0 : RouterM) (rest : List Chunk) (hr : n.routers[r]? = some rt0) (k : Ctr) :
    conts (pop n r rt rest) k = if k = .queue r then some rest else conts n k := by
  cases k with
  | queue r' =>
    show queueAt (pop n r rt rest) r' = _
    rw [queueAt_pop n r rt rest r' rt0 hr]
    by_cases e : r' = r
    · subst e; simp
    · simp [e, conts]
  | inbox h s => simp [conts]; rfl

theorem conts_handOver (n : Net) (h s : Nat) (c : Chunk) (sk : SockM) (hs : sockAt n h s = some sk) (k : Ctr) :
    conts (handOver n h s c) k = if k = .inbox h s then some (sk.delivered ++ [iHop h s c]) else conts n k := by
  cases k with
  | queue r => simp [conts]; rfl
  | inbox h' s' =>
    show (sockAt (handOver n h s c) h' s').map (·.delivered) = _
    rw [handOver, sockAt_modSock]
    by_cases e : h' = h ∧ s' = s
    · obtain ⟨rfl, rfl⟩ := e
      simp [hs]
    · have : ¬ (Ctr.inbox h' s' = Ctr.inbox h s) := by
        intro x; cases x; exact e ⟨rfl, rfl⟩
      simp only [e, this, if_false]
      rfl

theorem conts_addSock (n : Net) (h ip port : Nat) (remote : Option Addr) (hm : HostM) (hh : n.hosts[h]? = some hm)
    (k : Ctr) (l : List Chunk) (e : conts (addSock n h ip port remote) k = some l) : l = [] ∨ conts n k = some l := by
  cases k with
  | queue r => exact .inr e
  | inbox h' s' =>
    have e' : (sockAt (addSock n h ip port remote) h' s').map (·.delivered) = some l := e
    rw [sockAt_addSock n h ip port remote hm hh] at e'
    split at e'
    · simp at e'; exact .inl e'
    · exact .inr e'

theorem conts_read (n : Net) (h s : Nat) (rest : List Chunk) :
    conts (modSock n h s (fun sk => { sk with inbox := rest })) = conts n :=
  conts_modSock n h s _ (fun _ => rfl)

theorem conts_close (n : Net) (h s : Nat) :
    conts (modSock n h s (fun sk => { sk with closed := true })) = conts n :=
  conts_modSock n h s _ (fun _ => rfl)

def FifoInv (n : Net) (fly : List Chunk) : Prop :=
  FInv (conts n) n.written.length ∧ ∀ x ∈ fly, Fly (conts n) n.written.length x

theorem fifoInv : IsInv FifoInv where
  fresh n hf := by
    refine ⟨FInv.empty _ _ ?_, by simp⟩
    intro k l e
    cases k with
    | queue r => exact fresh_queueAt hf r l e
    | inbox h s =>
      have e' : (sockAt n h s).map (·.delivered) = some l := e
      rw [fresh_sockAt hf] at e'
      cases e'
  qeq n n' fly hq a := by
    unfold FifoInv
    rw [conts_QEq hq, hq.written]
    exact a
  sim n c c' hs a := by
    refine ⟨a.1, ?_⟩
    intro x hx
    simp only [List.mem_singleton] at hx
    subst hx
    exact (a.2 c (by simp)).sim hs.id hs.origin hs.hops
  drop n c d a := ⟨a.1, by simp⟩
  enq n r rt c hr a := by
    refine ⟨?_, by simp⟩
    exact a.1.append (x' := qHop r c) (a.2 c (by simp)) (.queue r) rt.queue (queueAt_of_eq hr) rfl rfl rfl
      (conts_enq n r c rt.queue (queueAt_of_eq hr))
  handOver n h s hm sk c h1 h2 _ a := by
    refine ⟨?_, by simp⟩
    have hs := sockAt_of_eq h1 h2
    exact a.1.append (x' := iHop h s c) (a.2 c (by simp)) (.inbox h s) sk.delivered (by simp [conts, hs]) rfl rfl rfl
      (conts_handOver n h s c sk hs)
  pop n r rt c rest h1 h2 a := by
    have := a.1.pop (.queue r) c rest (by rw [← h2]; exact queueAt_of_eq h1) (conts_pop n r rt rt rest h1)
    refine ⟨this.1, ?_⟩
    intro x hx
    simp only [List.mem_singleton] at hx
    subst hx
    exact this.2
  write n h s hm sk dst src payload _ _ a := by
    have e : (addWritten n h s dst payload).written.length = n.written.length + 1 := by simp [addWritten]
    unfold FifoInv
    rw [e]
    refine ⟨a.1.mono (fun k l hk => .inr hk) (by omega), ?_⟩
    intro x hx
    simp only [List.mem_singleton] at hx
    subst hx
    exact Fly.new a.1 _ rfl rfl
  read n h s sk rest _ _ a := by
    unfold FifoInv
    rw [conts_read]
    exact a
  bind n h hm ip port remote h1 a := by
    refine ⟨a.1.mono (conts_addSock n h ip port remote hm h1) (Nat.le_refl _), by simp⟩
  close n h s a := by
    unfold FifoInv
    rw [conts_close]
    exact a
  now n t a := a
  started n b a := a

theorem getElem?_split {α : Type} : ∀ (l : List α) (i : Nat) (a : α), l[i]? = some a →
    ∃ l1 l2, l = l1 ++ a :: l2 ∧ l1.length = i := by
  intro l
  induction l with
  | nil => intro i a h; simp at h
  | cons x t ih =>
    intro i a h
    cases i with
    | zero => simp at h; subst h; exact ⟨[], t, rfl, rfl⟩
    | succ i =>
      simp at h
      obtain ⟨l1, l2, e1, e2⟩ := ih i a h
      exact ⟨x :: l1, l2, by simp [e1], by simp [e2]⟩

theorem before_of_lt (l : List Chunk) (i j : Nat) (a b : Chunk) (hi : l[i]? = some a) (hj : l[j]? = some b)
    (hlt : i < j) : Before l a b := by
  obtain ⟨l1, l2, e1, e2⟩ := getElem?_split l i a hi
  subst e1
  rw [List.getElem?_append_right (by omega)] at hj
  have : j - l1.length = (j - l1.length - 1) + 1 := by omega
  rw [this, List.getElem?_cons_succ] at hj
  obtain ⟨l3, l4, e3, _⟩ := getElem?_split l2 _ b hj
  subst e3
  exact ⟨l1, l3, l4, by simp⟩

theorem flow_fifo_partial (n : Net) (h : Reach n) (hh s : Nat) (sk : SockM) (hs : sockAt n hh s = some sk)
    (a b : Chunk) (ha : a ∈ sk.delivered) (hb : b ∈ sk.delivered)
    (ho : a.origin = b.origin) (hp : a.hops = b.hops) (hlt : a.id < b.id) :
    Before sk.delivered a b := by
  have inv := (fifoInv.reach n h).1
  obtain ⟨i, hi⟩ := List.getElem?_of_mem ha
  obtain ⟨j, hj⟩ := List.getElem?_of_mem hb
  have hc : conts n (.inbox hh s) = some sk.delivered := by simp [conts, hs]
  exact before_of_lt _ i j a b hi hj (inv.ord _ _ i j a b hc hi hj ho hlt hp)

end TV.Proofs.Vnet
