import TransportVerif.Proofs.ReplayWrapStep
/-
The wrapping detector with maximum 1 (a space of 2 numbers) and a window larger than the maximum
(outside C05's scope, inside C04's).  On first use with the number 1 the folded distance of 1
from the provisional position 0 is +1 (exactly half the space, not folded), so the detector keeps
its window at 0 and marks the number at distance 1, i.e. it is one step out of line with the
recorder; from there the window never moves again.  `Rs` is the invariant of that state;
`R2 = Rw ∨ Rs` is preserved for every configuration.
-/
namespace TV.Proofs.Replay
open TV TV.Replay TV.ReplayLink TV.FixedBig TV.ReplaySpec TV.Proofs.ReplayArith

structure Rs (w m : Nat) (d : Det) (h : Hist) : Prop where
  kind : d.kind = .wrap
  max : d.maxSeq = m
  win : d.windowSize = w
  wf : Wf d.mask
  n : d.mask.n = w
  small : 1 ≤ m ∧ m ≤ 1 ∧ m < w
  init : d.init = true
  started : h.started = true
  latest : d.latestSeq + 1 = h.latest ∧ h.latest ≤ m
  cong : ∀ e ∈ h.acc, e.1 ≤ m ∧ e.2 < m + 1 ∧ (e.1 + e.2) % (m + 1) = h.latest
  bits : ∀ i, i < w → (d.mask.bit i = true ↔ ∃ e ∈ h.acc, (e.2 + m) % (m + 1) = i)

def R2 (w m : Nat) (d : Det) (h : Hist) : Prop := Rw w m d h ∨ Rs w m d h

theorem outOfScope_small (w m : Nat) (h1 : 1 ≤ m) (h2 : m < w) :
    (cfgOf .wrap w m).inScope = false := by
  rw [inScope_wrap]
  have : ¬ 2 * w ≤ m + 1 := by omega
  simp [this]

theorem expectedOk_outOfScope (c : Cfg) (h : Hist) (x : Nat) (hsc : c.inScope = false) :
    expectedOk c h x = none := by
  unfold expectedOk
  simp [hsc]

theorem expectedLatest_outOfScope (c : Cfg) (h : Hist) (x : Nat) (hsc : c.inScope = false) :
    expectedLatest c h x = none := by
  unfold expectedLatest
  simp [hsc]

theorem wrap_above_good (w m : Nat) (R : Det → Hist → Prop) (d : Det) (h : Hist) (x : Nat)
    (hk : d.kind = .wrap) (hmax : d.maxSeq = m) (h1 : m < x) :
    CheckGood (cfgOf .wrap w m) R d h x := by
  left
  refine ⟨?_, ?_⟩
  · unfold check; rw [hk]; unfold wrapCheck; rw [if_pos (by rw [hmax]; exact h1)]
  · rw [expectedOk_wrap, if_pos h1]; split <;> simp

/-! ### arithmetic of the out-of-line state -/

theorem small_diff (Ld m x : Nat) (hm2 : m ≤ 1) (hLd : Ld + 1 ≤ m) (hx : x ≤ m) (D : Int) (bd : Nat)
    (hD : D = if x ≤ Ld then (if m / 2 < Ld - x then ((Ld - x : Nat) : Int) - ((m + 1 : Nat) : Int) else ((Ld - x : Nat) : Int))
      else (if x - Ld ≤ m / 2 then -((x - Ld : Nat) : Int) else ((m + 1 - (x - Ld) : Nat) : Int)))
    (hbd : bd = if x ≤ Ld then Ld - x else Ld + (m + 1) - x) :
    D = (bd : Int) ∧ bd < m + 1 := by
  subst hD
  by_cases h1 : x ≤ Ld
  · rw [if_pos h1] at hbd ⊢
    rw [if_neg (by omega)]; omega
  · rw [if_neg h1] at hbd ⊢
    rw [if_neg (by omega)]; omega

theorem small_rel (L Ld m x bh bd : Nat) (hL : Ld + 1 = L) (hLm : L ≤ m) (hx : x ≤ m)
    (hbh : bh = if x ≤ L then L - x else L + (m + 1) - x)
    (hbd : bd = if x ≤ Ld then Ld - x else Ld + (m + 1) - x) :
    (bh + m) % (m + 1) = bd ∧ bh < m + 1 := by
  have hlt : bh < m + 1 := by split at hbh <;> omega
  refine ⟨?_, hlt⟩
  rw [mod_case _ _ (by omega)]
  split at hbh <;> split at hbd <;> split <;> omega

/-! ### preservation -/

theorem Rw_first0 (w m : Nat) (d : Det) (h : Hist) (x : Nat) (hR : Rw w m d h)
    (hs : h.started = false) (hx : x ≤ m) :
    Rw w m { d with init := true, latestSeq := x, mask := d.mask.setBit 0 }
      { started := true, latest := x, acc := [(x, 0)] } := by
  refine ⟨hR.kind, hR.max, hR.win, setBit_wf _ _ hR.wf, ?_, rfl, fun _ => ⟨rfl, hx⟩, ?_, ?_, ?_⟩
  · show (d.mask.setBit 0).n = w
    rw [setBit_n, hR.n]
  · intro hh; cases hh
  · intro e he
    simp only [List.mem_singleton] at he
    subst he
    exact ⟨hx, Nat.mod_eq_of_lt (by show x + 0 < m + 1; omega)⟩
  · intro i hi
    show (d.mask.setBit 0).bit i = true ↔ _
    rw [setBit_bit _ hR.wf, hR.n, (hR.fresh hs).2]
    simp only [Bool.or_false, Bool.and_eq_true, decide_eq_true_eq, List.mem_singleton]
    constructor
    · rintro ⟨_, h0⟩; exact ⟨(x, 0), rfl, h0.symm⟩
    · rintro ⟨e, rfl, h0⟩; exact ⟨hi, h0.symm⟩

theorem Rs_first (w m : Nat) (d : Det) (h : Hist) (x : Nat) (hR : Rw w m d h)
    (hs : h.started = false) (hx : x ≤ m) (hx0 : x ≠ 0) (hm2 : m ≤ 1) (hwm : m < w) :
    Rs w m { d with init := true, latestSeq := x - 1, mask := d.mask.setBit m }
      { started := true, latest := x, acc := [(x, 0)] } := by
  refine ⟨hR.kind, hR.max, hR.win, setBit_wf _ _ hR.wf, ?_, ⟨by omega, hm2, hwm⟩, rfl, rfl,
    ⟨by show x - 1 + 1 = x; omega, hx⟩, ?_, ?_⟩
  · show (d.mask.setBit m).n = w
    rw [setBit_n, hR.n]
  · intro e he
    simp only [List.mem_singleton] at he
    subst he
    exact ⟨hx, by show 0 < m + 1; omega, Nat.mod_eq_of_lt (by show x + 0 < m + 1; omega)⟩
  · intro i hi
    show (d.mask.setBit m).bit i = true ↔ _
    rw [setBit_bit _ hR.wf, hR.n, (hR.fresh hs).2]
    simp only [Bool.or_false, Bool.and_eq_true, decide_eq_true_eq, List.mem_singleton]
    have hmm : (0 + m) % (m + 1) = m := by rw [Nat.zero_add]; exact Nat.mod_eq_of_lt (by omega)
    constructor
    · rintro ⟨_, h0⟩; exact ⟨(x, 0), rfl, by show (0 + m) % (m + 1) = i; omega⟩
    · rintro ⟨e, rfl, h0⟩
      have : (0 + m) % (m + 1) = i := h0
      exact ⟨hi, by omega⟩

theorem Rs_behind (w m : Nat) (d : Det) (h : Hist) (x bh bd : Nat) (hR : Rs w m d h) (hx : x ≤ m)
    (hbh : bh = if x ≤ h.latest then h.latest - x else h.latest + (m + 1) - x)
    (hrel : (bh + m) % (m + 1) = bd ∧ bh < m + 1) :
    Rs w m { d with init := true, latestSeq := d.latestSeq, mask := d.mask.setBit bd }
      { h with acc := (x, bh) :: h.acc } := by
  refine ⟨hR.kind, hR.max, hR.win, setBit_wf _ _ hR.wf, ?_, hR.small, rfl, hR.started,
    hR.latest, ?_, ?_⟩
  · show (d.mask.setBit bd).n = w
    rw [setBit_n, hR.n]
  · intro e he
    simp only [List.mem_cons] at he
    rcases he with rfl | he
    · refine ⟨hx, hrel.2, ?_⟩
      show (x + bh) % (m + 1) = h.latest
      rw [hbh]; exact behind_cong m h.latest x hx hR.latest.2
    · exact hR.cong e he
  · intro i hi
    show (d.mask.setBit bd).bit i = true ↔ _
    rw [setBit_bit _ hR.wf, hR.n]
    simp only [Bool.and_eq_true, Bool.or_eq_true, decide_eq_true_eq, List.mem_cons]
    constructor
    · rintro ⟨_, h0 | hbit⟩
      · exact ⟨(x, bh), Or.inl rfl, by show (bh + m) % (m + 1) = i; omega⟩
      · obtain ⟨e0, he0, hs0⟩ := (hR.bits i hi).1 hbit
        exact ⟨e0, Or.inr he0, hs0⟩
    · rintro ⟨e, rfl | he0, hs0⟩
      · have : (bh + m) % (m + 1) = i := hs0
        exact ⟨hi, Or.inl (by omega)⟩
      · exact ⟨hi, Or.inr ((hR.bits i hi).2 ⟨e, he0, hs0⟩)⟩

/-! ### the steps -/

theorem none_ne_some {α : Type} (o : Option α) (a : α) (h : o = none) : o ≠ some a := by
  rw [h]; simp

/-- first use in a small space with a large window: accepted without moving the window -/
theorem wrap_first_small (w m : Nat) (hm : m < 2 ^ 62) (hw : w < 2 ^ 63) (hm2 : m ≤ 1)
    (d : Det) (h : Hist) (x : Nat) (hR : Rw w m d h) (hs : h.started = false) (hx : x ≤ m)
    (hDm : wrapDiff (wrapLatest d x) d.maxSeq x = (m : Int)) (hwm : ¬ w ≤ m) :
    CheckGood (cfgOf .wrap w m) (R2 w m) d h x := by
  have hcheck : check d x = wrapCheck d x := by unfold check; rw [hR.kind]
  have hxm : ¬ d.maxSeq < x := by rw [hR.max]; omega
  have hww : d.windowSize < 2 ^ 63 := by rw [hR.win]; exact hw
  have hacc : h.acc = [] := (hR.fresh hs).1
  have hL0 : wrapLatest d x = if x ≠ 0 then x - 1 else m := by
    unfold wrapLatest; rw [hR.init, hs, hR.max]; rfl
  obtain ⟨i1, i2, i3⟩ := int_lt_of _ m w hDm (by omega)
  have hok := wrapCheck_pos d x hxm hww (by rw [hR.win]; exact i1) i2
    (by rw [i3]; exact (hR.fresh hs).2 m)
  have hmr : mustRefuse (cfgOf .wrap w m) h x = false := by
    rw [mustRefuse_wrap, hacc]; simp; omega
  have heo : expectedOk (cfgOf .wrap w m) h x ≠ some false := by
    rw [expectedOk_wrap, if_neg (show ¬ m < x by omega), hs]
    split
    · simp
    · simp only [Bool.not_false, if_true]; rw [if_pos (by omega)]; simp
  have hel : expectedLatest (cfgOf .wrap w m) h x ≠ some (!false) := by
    rw [expectedLatest_wrap, hs]
    split
    · simp
    · simp only [Bool.not_false, if_true]; rw [if_pos (by omega)]; simp
  right
  refine ⟨_, false, by rw [hcheck]; exact hok, ?_, hmr, heo, hel⟩
  rw [record_wrap_first _ _ _ _ _ hs]
  by_cases hx0 : x = 0
  · -- then the space has one number and the detector is in line with the recorder
    have hL : wrapLatest d x = m := by rw [hL0, if_neg (by omega)]
    have hm0 : m = 0 := by
      have hD := wrapDiff_eq m m x hm (Nat.le_refl _) hx
      rw [hL, hR.max, hD, hx0] at hDm
      simp only [Nat.zero_le, if_true, Nat.sub_zero] at hDm
      split at hDm <;> omega
    have hLx : wrapLatest d x = x := by rw [hL, hm0, hx0]
    rw [hLx, wrapPos_self]
    exact Or.inl (Rw_first0 w m d h x hR hs hx)
  · have hL : wrapLatest d x = x - 1 := by rw [hL0, if_pos hx0]
    have hpos : wrapPos (x - 1) d.maxSeq x = m := by
      rw [hR.max, wrapPos_eq _ _ _ hm (by omega) hx, if_neg (by omega)]; omega
    rw [hL, hpos]
    exact Or.inr (Rs_first w m d h x hR hs hx hx0 hm2 (by omega))

/-- every later `Check` in the out-of-line state -/
theorem wrap_small_step (w m : Nat) (hm : m < 2 ^ 62) (hw : w < 2 ^ 63)
    (d : Det) (h : Hist) (x : Nat) (hR : Rs w m d h) :
    CheckGood (cfgOf .wrap w m) (R2 w m) d h x := by
  by_cases h1 : m < x
  · exact wrap_above_good w m _ d h x hR.kind hR.max h1
  have hx : x ≤ m := by omega
  obtain ⟨hm1, hm2, hmw⟩ := hR.small
  obtain ⟨hLd, hLm⟩ := hR.latest
  have hs := hR.started
  have hcheck : check d x = wrapCheck d x := by unfold check; rw [hR.kind]
  have hxm : ¬ d.maxSeq < x := by rw [hR.max]; omega
  have hww : d.windowSize < 2 ^ 63 := by rw [hR.win]; exact hw
  have hsc := outOfScope_small w m hm1 hmw
  have hwl : wrapLatest d x = d.latestSeq := by
    unfold wrapLatest; rw [hR.init]; rfl
  obtain ⟨bd, hbd⟩ : ∃ bd, bd = if x ≤ d.latestSeq then d.latestSeq - x
      else d.latestSeq + (m + 1) - x := ⟨_, rfl⟩
  obtain ⟨bh, hbeq⟩ : ∃ bh, bh = behind (cfgOf .wrap w m) h x := ⟨_, rfl⟩
  have hbh := hbeq.trans (behind_wrap w m h x hLm hx)
  have hrel := small_rel h.latest d.latestSeq m x bh bd hLd hLm hx hbh hbd
  have hD := wrapDiff_eq d.latestSeq m x hm (by omega) hx
  obtain ⟨hDb, hbdM⟩ := small_diff d.latestSeq m x hm2 (by omega) hx _ bd hD hbd
  rw [← hwl, ← hR.max] at hDb
  have hpos : wrapPos d.latestSeq d.maxSeq x = bd := by
    rw [hR.max, wrapPos_eq _ _ _ hm (by omega) hx, hbd]
  have hRb := Rs_behind w m d h x bh bd hR hx hbh hrel
  clear hD hbd hbh
  have hbdw : bd < w := Nat.lt_of_lt_of_le hbdM hmw
  obtain ⟨i1, i2, i3⟩ := int_lt_of _ bd w hDb hbdw
  cases hbit : d.mask.bit bd
  · right
    refine ⟨_, false, by
      rw [hcheck]
      exact wrapCheck_pos d x hxm hww (by rw [hR.win]; exact i1) i2 (by rw [i3]; exact hbit),
      ?_, ?_, none_ne_some _ _ (expectedOk_outOfScope _ _ _ hsc),
      none_ne_some _ _ (expectedLatest_outOfScope _ _ _ hsc)⟩
    · rw [hwl, hpos, record_wrap_false _ _ _ _ hs, ← hbeq]
      exact Or.inr hRb
    · have hany : h.acc.any (fun e => e.1 == x && decide (2 * e.2 < m + 1)) = false := by
        rw [Bool.eq_false_iff]; intro hh
        rw [List.any_eq_true] at hh
        obtain ⟨e, he, hp⟩ := hh
        simp only [Bool.and_eq_true, beq_iff_eq, decide_eq_true_eq] at hp
        obtain ⟨_, c2, c3⟩ := hR.cong e he
        rw [hp.1] at c3
        have he2 : e.2 = bh := by
          rw [hbeq, behind_wrap w m h x hLm hx]
          exact behind_unique m h.latest x e.2 hx hLm c2 c3
        have := (hR.bits bd hbdw).2 ⟨e, he, by rw [he2]; exact hrel.1⟩
        rw [hbit] at this; cases this
      rw [mustRefuse_wrap, hany]; simp; omega
  · left
    exact ⟨by
      rw [hcheck]
      exact wrapCheck_bit d x hxm hww (by rw [hR.win]; exact i1) i2 (by rw [i3]; exact hbit),
      none_ne_some _ _ (expectedOk_outOfScope _ _ _ hsc)⟩

/-- one `Check` of the wrapping detector, every configuration -/
theorem wrap_checkGood2 (w m : Nat) (hm : m < 2 ^ 62) (hw : w < 2 ^ 63)
    (d : Det) (h : Hist) (x : Nat) (hR : R2 w m d h) :
    CheckGood (cfgOf .wrap w m) (R2 w m) d h x := by
  rcases hR with hR | hR
  · exact wrap_checkGood_gen w m hm hw (R2 w m) (fun _ _ hr => Or.inl hr) d h x hR
      (fun hs hx hDm hm4 hwm => wrap_first_small w m hm hw (by omega) d h x hR hs hx hDm hwm)
  · exact wrap_small_step w m hm hw d h x hR

end TV.Proofs.Replay
