import TransportVerif.Proofs.VnetFifo
import TransportVerif.Proofs.NatStable
/-
`same_flow_same_path`, part 1 (no network state): routes as chains of a step relation that is read off
the static part of the initial network and the call histories of its NATs; the relation is
deterministic up to the socket chosen at the hand-over (NAT stability), so two complete routes of one
flow that end in the same inbox visit the same containers.
-/
set_option autoImplicit false
namespace TV.Proofs.Vnet
open TV TV.Nat TV.NatLink TV.Vnet TV.VnetLink
open TV.Proofs.NatStable (tr)

/-- an entry of a chunk's `route` -/
abbrev Ent := Ctr × Addr

/-- the call history of every router's NAT -/
abbrev Hist := Nat → List Nat.Op

/-! ### chains -/

def Chain (R : Ent → Ent → Prop) : List Ent → Prop
  | [] => True
  | [_] => True
  | a :: b :: l => R a b ∧ Chain R (b :: l)

theorem chain_snoc {R : Ent → Ent → Prop} (y : Ent) :
    ∀ l : List Ent, Chain R l → (∀ x, l.getLast? = some x → R x y) → Chain R (l ++ [y])
  | [], _, _ => trivial
  | [a], _, h => ⟨h a rfl, trivial⟩
  | a :: b :: l, hc, h =>
    ⟨hc.1, chain_snoc y (b :: l) hc.2 (fun x hx => h x (by rw [List.getLast?_cons_cons]; exact hx))⟩

theorem Chain.mono {R R' : Ent → Ent → Prop} (hR : ∀ a b, R a b → R' a b) :
    ∀ l : List Ent, Chain R l → Chain R' l
  | [], _ => trivial
  | [_], _ => trivial
  | _ :: b :: l, hc => ⟨hR _ _ hc.1, Chain.mono hR (b :: l) hc.2⟩

/-! ### NAT traces -/

theorem tr_append (ops ops' : List Nat.Op) :
    ∀ s : NAT × Int, tr s (ops ++ ops') = tr s ops ++ tr (runState s ops) ops' := by
  induction ops with
  | nil => intro s; rfl
  | cons op ops ih => intro s; simp only [List.cons_append, tr, runState, ih]

theorem runState_append (ops ops' : List Nat.Op) :
    ∀ s : NAT × Int, runState s (ops ++ ops') = runState (runState s ops) ops' := by
  induction ops with
  | nil => intro s; rfl
  | cons op ops ih => intro s; simp only [List.cons_append, runState, ih]

theorem tr_mono {s : NAT × Int} {ops ops' : List Nat.Op} (h : ops <+: ops') {e : Nat.Op × Out}
    (he : e ∈ tr s ops) : e ∈ tr s ops' := by
  obtain ⟨t, rfl⟩ := h
  rw [tr_append]
  exact List.mem_append_left _ he

/-- 1:1 mode: every inbound answer along a history is the table lookup of the destination -/
theorem tr_one (n : NAT) (h1 : n.one2one = true) (ops : List Nat.Op) :
    ∀ (t : Int) (src d : Addr) (res : InRes), (Nat.Op.inb src d, Out.i res) ∈ tr (n, t) ops →
      res = (match paired n.mappedIPs n.localIPs d.ip with
             | some ip => .ok { ip := ip, port := d.port }
             | none => .noAssoc) := by
  induction ops with
  | nil => intro t src d res h; cases h
  | cons op ops ih =>
    intro t src d res h
    cases op with
    | out a b =>
      simp only [tr, Nat.step, List.mem_cons, Prod.mk.injEq, reduceCtorEq, false_and, false_or] at h
      rw [Proofs.Nat.one_to_one_outbound n t a b h1] at h
      exact ih t src d res h
    | inb a b =>
      simp only [tr, Nat.step, List.mem_cons] at h
      rw [Proofs.Nat.one_to_one_inbound n t a b h1] at h
      rcases h with h | h
      · simp only [Prod.mk.injEq, Nat.Op.inb.injEq, Out.i.injEq] at h
        obtain ⟨⟨_, rfl⟩, rfl⟩ := h
        rfl
      · exact ih t src d res h
    | adv dt =>
      simp only [tr, Nat.step, List.mem_cons, Prod.mk.injEq, reduceCtorEq, false_and, false_or] at h
      exact ih _ src d res h

/-- every NAT of the network is the result of a constructor call -/
def NatsNew (n0 : Net) : Prop :=
  ∀ r ∈ n0.routers, ∀ nat, r.nat = some nat → ∃ o mb fb lt mapped loc, NAT.new o mb fb lt mapped loc = some nat

/-- a constructed NAT never forwards one external address to two internal addresses -/
theorem nat_stable {o : Bool} {mb fb : Dep} {lt : Int} {mapped loc : List Nat} {nat0 : NAT}
    (hn : NAT.new o mb fb lt mapped loc = some nat0) (ops : List Nat.Op) (s1 s2 d d1 d2 : Addr)
    (h1 : (Nat.Op.inb s1 d, Out.i (.ok d1)) ∈ tr (nat0, 0) ops)
    (h2 : (Nat.Op.inb s2 d, Out.i (.ok d2)) ∈ tr (nat0, 0) ops) : d1 = d2 := by
  cases o with
  | false =>
    exact Proofs.NatStable.inbound_key_stable tr (fun _ => rfl) (fun _ _ _ => rfl) mb fb lt mapped loc nat0 ops hn
      s1 s2 d d1 d2 h1 h2
  | true =>
    have ho := (Proofs.Nat.new_one hn).1
    have e1 := tr_one nat0 ho ops 0 s1 d _ h1
    have e2 := tr_one nat0 ho ops 0 s2 d _ h2
    exact InRes.ok.inj (e1.trans e2.symm)

/-! ### the step relation -/

/-- the NIC table lookup of `Net.forward` -/
def nicOf (rt : RouterM) (ip : Nat) : Option Node := (rt.nics.find? (fun e => e.1 == ip)).map (·.2)

/-- `Step n0 H e e'`: a chunk that entered the container of `e` carrying the destination of `e` can enter
    the container of `e'` next, carrying the destination of `e'` -/
inductive Step (n0 : Net) (H : Hist) : Ent → Ent → Prop
  | host (r : Nat) (d : Addr) (rt0 : RouterM) (h s : Nat) : n0.routers[r]? = some rt0 → rt0.contains d.ip = true →
      nicOf rt0 d.ip = some (.host h) → Step n0 H (.queue r, d) (.inbox h s, d)
  | child (r : Nat) (d : Addr) (rt0 : RouterM) (k : Nat) (rtk : RouterM) (nat0 : NAT) (src d' : Addr) :
      n0.routers[r]? = some rt0 → rt0.contains d.ip = true → nicOf rt0 d.ip = some (.router k) →
      n0.routers[k]? = some rtk → rtk.nat = some nat0 →
      (Nat.Op.inb src d, Out.i (.ok d')) ∈ tr (nat0, 0) (H k) → Step n0 H (.queue r, d) (.queue k, d')
  | up (r : Nat) (d : Addr) (rt0 : RouterM) (p : Nat) : n0.routers[r]? = some rt0 → rt0.contains d.ip = false →
      rt0.parent = some p → Step n0 H (.queue r, d) (.queue p, d)

/-- histories only grow -/
def HLe (H H' : Hist) : Prop := ∀ k, H k <+: H' k

theorem HLe.refl (H : Hist) : HLe H H := fun _ => List.prefix_refl _

theorem Step.mono {n0 : Net} {H H' : Hist} (hH : HLe H H') {e e' : Ent} (h : Step n0 H e e') : Step n0 H' e e' := by
  cases h with
  | host r d rt0 h s a1 a2 a3 => exact .host r d rt0 h s a1 a2 a3
  | child r d rt0 k rtk nat0 src d' a1 a2 a3 a4 a5 a6 => exact .child r d rt0 k rtk nat0 src d' a1 a2 a3 a4 a5 (tr_mono (hH k) a6)
  | up r d rt0 p a1 a2 a3 => exact .up r d rt0 p a1 a2 a3

theorem Step.from_queue {n0 : Net} {H : Hist} {e e' : Ent} (h : Step n0 H e e') : ∃ r d, e = (.queue r, d) := by
  cases h <;> exact ⟨_, _, rfl⟩

/-- two entries that differ at most in the socket of an inbox -/
def Alike (e e' : Ent) : Prop := e = e' ∨ ∃ h s s' d, e = (.inbox h s, d) ∧ e' = (.inbox h s', d)

theorem Step.det {n0 : Net} {H : Hist} (hN : NatsNew n0) {e e1 e2 : Ent} (h1 : Step n0 H e e1) (h2 : Step n0 H e e2) :
    Alike e1 e2 := by
  cases h1 with
  | host r d rt0 h s a1 a2 a3 =>
    cases h2 with
    | host _ _ rt0' h' s' b1 b2 b3 =>
      rw [a1] at b1; cases b1
      rw [a3] at b3; cases b3
      exact .inr ⟨h, s, s', d, rfl, rfl⟩
    | child _ _ rt0' k rtk nat0 src d' b1 b2 b3 b4 b5 b6 =>
      rw [a1] at b1; cases b1
      rw [a3] at b3; cases b3
    | up _ _ rt0' p b1 b2 b3 =>
      rw [a1] at b1; cases b1
      rw [a2] at b2; cases b2
  | child r d rt0 k rtk nat0 src d' a1 a2 a3 a4 a5 a6 =>
    cases h2 with
    | host _ _ rt0' h' s' b1 b2 b3 =>
      rw [a1] at b1; cases b1
      rw [a3] at b3; cases b3
    | child _ _ rt0' k' rtk' nat0' src' d'' b1 b2 b3 b4 b5 b6 =>
      rw [a1] at b1; cases b1
      rw [a3] at b3; cases b3
      rw [a4] at b4; cases b4
      rw [a5] at b5; cases b5
      obtain ⟨o, mb, fb, lt, mapped, loc, hn⟩ := hN rtk (List.mem_of_getElem? a4) nat0 a5
      have := nat_stable hn (H k) src src' d d' d'' a6 b6
      subst this
      exact .inl rfl
    | up _ _ rt0' p b1 b2 b3 =>
      rw [a1] at b1; cases b1
      rw [a2] at b2; cases b2
  | up r d rt0 p a1 a2 a3 =>
    cases h2 with
    | host _ _ rt0' h' s' b1 b2 b3 =>
      rw [a1] at b1; cases b1
      rw [a2] at b2; cases b2
    | child _ _ rt0' k rtk nat0 src d' b1 b2 b3 b4 b5 b6 =>
      rw [a1] at b1; cases b1
      rw [a2] at b2; cases b2
    | up _ _ rt0' p' b1 b2 b3 =>
      rw [a1] at b1; cases b1
      rw [a3] at b3; cases b3
      exact .inl rfl

/-! ### complete routes -/

theorem chain_inbox {n0 : Net} {H : Hist} {h s : Nat} {d : Addr} {P : List Ent}
    (hc : Chain (Step n0 H) ((.inbox h s, d) :: P)) : P = [] := by
  cases P with
  | nil => rfl
  | cons e P =>
    obtain ⟨r, d', he⟩ := hc.1.from_queue
    cases he

/-- two chains that start alike and end in the same inbox visit the same containers -/
theorem path_det {n0 : Net} {H : Hist} (hN : NatsNew n0) (hh ss : Nat) :
    ∀ (P Q : List Ent) (e e' : Ent), Alike e e' → Chain (Step n0 H) (e :: P) → Chain (Step n0 H) (e' :: Q) →
      (∃ d, (e :: P).getLast? = some (.inbox hh ss, d)) → (∃ d, (e' :: Q).getLast? = some (.inbox hh ss, d)) →
      (e :: P).map (·.1) = (e' :: Q).map (·.1) := by
  intro P
  induction P with
  | nil =>
    intro Q e e' hal _ hq ⟨d, hl⟩ ⟨d', hl'⟩
    simp only [List.getLast?_singleton, Option.some.injEq] at hl
    subst hl
    have he' : ∃ s' d'', e' = (.inbox hh s', d'') := by
      rcases hal with rfl | ⟨h, s, s', d0, e1, e2⟩
      · exact ⟨_, _, rfl⟩
      · cases e1; exact ⟨_, _, e2⟩
    obtain ⟨s', d'', rfl⟩ := he'
    have := chain_inbox hq
    subst this
    simp only [List.getLast?_singleton, Option.some.injEq, Prod.mk.injEq, Ctr.inbox.injEq] at hl'
    obtain ⟨⟨_, rfl⟩, _⟩ := hl'
    rfl
  | cons e1 P ih =>
    intro Q e e' hal hp hq hl hl'
    obtain ⟨r, d, rfl⟩ := hp.1.from_queue
    have : e' = (.queue r, d) := by
      rcases hal with rfl | ⟨h, s, s', d0, e1, e2⟩
      · rfl
      · cases e1
    subst this
    cases Q with
    | nil =>
      obtain ⟨d', hl'⟩ := hl'
      simp only [List.getLast?_singleton, Option.some.injEq, Prod.mk.injEq, reduceCtorEq, false_and] at hl'
    | cons e2 Q =>
      have hal' := hp.1.det hN hq.1
      rw [List.getLast?_cons_cons] at hl hl'
      have := ih Q e1 e2 hal' hp.2 hq.2 hl hl'
      simp only [List.map_cons] at this ⊢
      rw [this]

/-! ### where a route starts -/

/-- the first container of a chunk written by a socket of host `o.1` to `odst` -/
def StartE (n0 : Net) (o : Nat × Nat) (odst : Addr) (e : Ent) : Prop :=
  (isLoopback odst.ip = true ∧ ∃ s, e = (.inbox o.1 s, odst)) ∨
  (isLoopback odst.ip = false ∧ ∃ hm r0, n0.hosts[o.1]? = some hm ∧ hm.router = some r0 ∧ e = (.queue r0, odst))

theorem StartE.alike {n0 : Net} {o : Nat × Nat} {odst : Addr} {e e' : Ent} (h : StartE n0 o odst e)
    (h' : StartE n0 o odst e') : Alike e e' := by
  rcases h with ⟨l, s, rfl⟩ | ⟨l, hm, r0, a1, a2, rfl⟩
  · rcases h' with ⟨_, s', rfl⟩ | ⟨l', _⟩
    · exact .inr ⟨_, _, _, _, rfl, rfl⟩
    · rw [l] at l'; cases l'
  · rcases h' with ⟨l', _⟩ | ⟨_, hm', r0', b1, b2, rfl⟩
    · rw [l] at l'; cases l'
    · rw [a1] at b1; cases b1
      rw [a2] at b2; cases b2
      exact .inl rfl

end TV.Proofs.Vnet
