import TransportVerif.Proofs.RingInv
/-
`Read` of the ring model simulates `read` of the FIFO spec.
-/
namespace TV.Proofs.Ring
open TV TV.Ring TV.RingLink
open TV.RingSpec (Fifo)

theorem bump_eq (L i : Nat) (h : i < L) : bump L i = widx L (i + 1) := by
  unfold bump widx
  split <;> split <;> omega

theorem widx_lt (L x : Nat) (_h0 : 0 < L) (h : x < 2 * L) : widx L x < L := by
  unfold widx; split <;> omega

theorem widx_widx (L x y : Nat) (h : x + y < 2 * L) :
    widx L (widx L x + y) = widx L (x + y) := by
  unfold widx
  split <;> split <;> (try split) <;> omega

/-- the bytes `Read` copies out (one or two pieces), pointwise -/
theorem ring_slice (a : Array UInt8) (o c : Nat) (ho : o < a.size) (_hc : c ≤ a.size) :
    let bytes := if o + c < a.size then slice a o (o + c)
      else slice a o a.size ++ slice a 0 (c - min c (a.size - o))
    bytes.length = c ∧ ∀ x, x < c → bytes[x]?.getD 0 = a[widx a.size (o + x)]?.getD 0 := by
  intro bytes
  by_cases h : o + c < a.size
  · simp only [bytes, if_pos h]
    refine ⟨by simp, ?_⟩
    intro x hx
    rw [slice_get _ _ _ _ (by omega)]
    simp only [widx]
    rw [if_pos (by omega)]
  · simp only [bytes, if_neg h]
    refine ⟨by simp; omega, ?_⟩
    intro x hx
    rw [List.getElem?_append]
    simp only [slice_length, widx]
    by_cases hx1 : x < a.size - o
    · rw [if_pos hx1, slice_get _ _ _ _ hx1, if_pos (by omega)]
    · rw [if_neg hx1, slice_get _ _ _ _ (by omega), if_neg (by omega)]
      congr 2
      omega

theorem frames_eq_nil (q : List (List UInt8)) (h : (frames q).length = 0) : q = [] := by
  cases q with
  | nil => rfl
  | cons p q => simp at h

theorem read_sim (r : Ring) (f : Fifo) (hi : Inv r f) (d : Nat) :
    Inv (r.read d).1 (f.read d).1 ∧ (r.read d).2 = convR (f.read d).2 ∧
    (r.read d).1.hard = r.hard := by
  have hg := hi.geo
  unfold Geo at hg
  by_cases hne : r.head = r.tail
  · -- empty
    have hs0 : r.size = 0 := by unfold Ring.size; rw [if_pos (by omega)]; omega
    have hq : f.queue = [] := frames_eq_nil _ (by rw [← hi.len]; exact hs0)
    unfold Ring.read Fifo.read
    rw [if_neg (by simpa using hne), hq]
    simp only []
    rw [hi.cl]
    refine ⟨?_, ?_, ?_⟩
    · split <;> exact hi
    · split <;> simp_all [convR]
    · split <;> rfl
  · -- a packet is waiting
    have hL : 0 < r.data.size := by omega
    have hlt := size_lt r hg hL
    have hs1 : 0 < r.size := by unfold Ring.size; split <;> omega
    obtain ⟨p, rest, hq⟩ : ∃ p rest, f.queue = p :: rest := by
      cases hq : f.queue with
      | nil => have := hi.len; rw [hq] at this; simp at this; omega
      | cons p rest => exact ⟨p, rest, rfl⟩
    have hlen := hi.len
    have hbytes := hi.bytes
    rw [hq] at hlen hbytes
    simp only [frames_cons, List.length_cons, List.length_append] at hlen
    have hp : p.length < 65536 := hi.small p (by rw [hq]; simp)
    -- header
    have hb0 : r.data.getD r.head 0 = UInt8.ofNat (p.length >>> 8) := by
      have := hbytes 0 (by omega)
      simpa [widx, hg.2 hL] using this
    have hb1 : r.data.getD (bump r.data.size r.head) 0 = UInt8.ofNat p.length := by
      have := hbytes 1 (by omega)
      rw [bump_eq _ _ (hg.2 hL).1]
      simpa using this
    have hbb : bump r.data.size (bump r.data.size r.head) = widx r.data.size (r.head + 2) := by
      rw [bump_eq _ _ (hg.2 hL).1, bump_eq _ _ (widx_lt _ _ hL (by omega)), widx_widx _ _ _ (by omega)]
    have hcnt : (UInt8.ofNat (p.length >>> 8)).toNat * 256 + (UInt8.ofNat p.length).toNat = p.length :=
      header_decode _ hp
    have ho : widx r.data.size (r.head + 2) < r.data.size := widx_lt _ _ hL (by omega)
    -- the bytes returned
    have hsl := ring_slice r.data (widx r.data.size (r.head + 2)) (min p.length d) ho (by omega)
    simp only [] at hsl
    have htake : (if widx r.data.size (r.head + 2) + min p.length d < r.data.size then
          slice r.data (widx r.data.size (r.head + 2)) (widx r.data.size (r.head + 2) + min p.length d)
        else slice r.data (widx r.data.size (r.head + 2)) r.data.size ++
          slice r.data 0 (min p.length d - min (min p.length d) (r.data.size - widx r.data.size (r.head + 2))))
        = p.take d := by
      apply list_ext_getD
      · rw [hsl.1]; simp; omega
      · intro x hx
        rw [hsl.1] at hx
        rw [hsl.2 x hx, widx_widx _ _ _ (by omega)]
        have := hbytes (2 + x) (by omega)
        rw [show r.head + 2 + x = r.head + (2 + x) by omega, this]
        rw [List.getElem?_take, if_pos (by omega)]
        rw [frames_cons, show 2 + x = x + 1 + 1 by omega, List.getElem?_cons_succ, List.getElem?_cons_succ,
          List.getElem?_append, if_pos (by omega)]
    unfold Ring.read Fifo.read
    rw [if_pos hne, hq]
    simp only [hb0, hb1, hbb, hcnt, htake]
    refine ⟨?_, ?_, ?_⟩
    · have hh4 : (if widx r.data.size (r.head + 2) + p.length ≥ r.data.size then
            widx r.data.size (r.head + 2) + p.length - r.data.size
          else widx r.data.size (r.head + 2) + p.length) = widx r.data.size (r.head + (2 + p.length)) := by
        simp only [widx]
        split <;> split <;> (try split) <;> omega
      simp only [hh4]
      have hsz : r.size = if r.head ≤ r.tail then r.tail - r.head else r.tail + r.data.size - r.head := rfl
      have hsmall : ∀ q ∈ rest, q.length < 65536 := fun q hq' => hi.small q (by rw [hq]; simp [hq'])
      have hcount : r.count - 1 = rest.length := by rw [hi.count, hq]; simp
      by_cases heq : widx r.data.size (r.head + (2 + p.length)) = r.tail
      · rw [if_pos heq]
        have hF : (frames rest).length = 0 := by
          simp only [widx] at heq
          split at heq <;> split at hsz <;> omega
        refine ⟨?_, ?_, ?_, hcount, hi.lc, hi.ls, hi.cl, hsmall⟩
        · simp only [Geo]; omega
        · simp only [Ring.size]; simp [hF]
        · intro k hk
          simp [Ring.size] at hk
      · rw [if_neg heq]
        have hs' : (if widx r.data.size (r.head + (2 + p.length)) ≤ r.tail then
              r.tail - widx r.data.size (r.head + (2 + p.length))
            else r.tail + r.data.size - widx r.data.size (r.head + (2 + p.length))) = (frames rest).length := by
          simp only [widx] at heq ⊢
          split at hsz <;> split <;> split <;> omega
        refine ⟨?_, ?_, ?_, hcount, hi.lc, hi.ls, hi.cl, hsmall⟩
        · simp only [Geo]
          have := widx_lt r.data.size (r.head + (2 + p.length)) hL (by omega)
          omega
        · simp only [Ring.size]; exact hs'
        · intro k hk
          simp only [Ring.size] at hk
          rw [hs'] at hk
          simp only []
          rw [widx_widx _ _ _ (by omega), show r.head + (2 + p.length) + k = r.head + (2 + p.length + k) by omega,
            hbytes _ (by omega), frames_cons,
            show 2 + p.length + k = (p.length + k) + 1 + 1 by omega, List.getElem?_cons_succ,
            List.getElem?_cons_succ, List.getElem?_append, if_neg (by omega)]
          congr 2
          omega
    · by_cases hd : d < p.length
      · rw [if_pos (by omega), if_pos hd]; rfl
      · rw [if_neg (by omega), if_neg hd, List.take_of_length_le (by omega)]; rfl
    · trivial

end TV.Proofs.Ring
