import TransportVerif.Props.C20
#print axioms TV.Props.C20.placeholder
