import TransportVerif.Props.C20
#print axioms TV.Props.C20.xor_old_correct
#print axioms TV.Props.C20.contract_n
#print axioms TV.Props.C20.contract_prefix
#print axioms TV.Props.C20.contract_frame_dst
#print axioms TV.Props.C20.contract_frame_ab
