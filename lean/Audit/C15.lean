import TransportVerif.Props.C15
#print axioms TV.Props.C15.refill_bounds
#print axioms TV.Props.C15.interval_bound
#print axioms TV.Props.C15.run_bound
#print axioms TV.Props.C15.forwarded_is_ordered_sublist
#print axioms TV.Props.C15.dropped_only_when_full
#print axioms TV.Props.C15.full_queue_drops
#print axioms TV.Props.C15.fresh_meets_hypotheses
