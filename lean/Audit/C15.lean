import TransportVerif.Props.C15
#print axioms TV.Props.C15.placeholder
