import TransportVerif.Props.C18
#print axioms TV.Props.C18.placeholder
