import TransportVerif.Props.C18
#print axioms TV.Props.C18.bridge_step_refines
#print axioms TV.Props.C18.bridge_refines_script
#print axioms TV.Props.C18.conservation
#print axioms TV.Props.C18.no_dup
#print axioms TV.Props.C18.no_invention
#print axioms TV.Props.C18.fifo_when_unimpaired
#print axioms TV.Props.C18.reorder_block_reversed
#print axioms TV.Props.C18.deliver_is_head_cut
#print axioms TV.Props.C18.dpipe_step_refines
#print axioms TV.Props.C18.dpipe_is_message_fifo
#print axioms TV.Props.C18.dpipe_close_is_local
