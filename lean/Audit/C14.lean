import TransportVerif.Props.C14
#print axioms TV.Props.C14.placeholder
