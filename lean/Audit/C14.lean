import TransportVerif.Props.C14
#print axioms TV.Props.C14.no_panic
#print axioms TV.Props.C14.not_before_delay
#print axioms TV.Props.C14.fifo_exactly_once
#print axioms TV.Props.C14.timer_never_dead
#print axioms TV.Props.C14.timer_never_dead_of_delay_le_minute
#print axioms TV.Props.C14.tick_forwards_due_head
