import TransportVerif.Props.C01
#print axioms TV.Props.C01.placeholder
