import TransportVerif.Props.C01
import TransportVerif.Props.C01Reply
import TransportVerif.Props.C01NatStable
#print axioms TV.Props.C01.accounting
#print axioms TV.Props.C01.delivered_at_most_once
#print axioms TV.Props.C01.nothing_missing_at_rest
#print axioms TV.Props.C01.payload_intact
#print axioms TV.Props.C01.only_bound_socket
#print axioms TV.Props.C01.deliver_target
#print axioms TV.Props.C01.inbox_is_suffix
#print axioms TV.Props.C01.read_takes_next
#print axioms TV.Props.C01.flow_fifo_partial
#print axioms TV.Props.C01.same_flow_same_path
#print axioms TV.Props.C01.flow_fifo
#print axioms TV.Props.C01.push_keeps
#print axioms TV.Props.C01.deliver_keeps
#print axioms TV.Props.C01.route_pops_head
#print axioms TV.Props.C01Reply.reply_reaches_sender
#print axioms TV.Props.C01Reply.reply_within_lifetime
#print axioms TV.Props.C01Reply.reply_reaches_sender_one2one
#print axioms TV.Props.C01NatStable.inbound_key_stable
#print axioms TV.Props.C01NatStable.inbound_goes_to_the_owner
#print axioms TV.Props.C01NatStable.inbound_key_stable_one2one
