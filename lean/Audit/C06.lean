import TransportVerif.Props.C06
#print axioms TV.Props.C06.placeholder
