import TransportVerif.Props.C06
#print axioms TV.Props.C06.ring_refines_fifo
#print axioms TV.Props.C06.refused_tooBig_or_closed_is_noop
#print axioms TV.Props.C06.tooBig_iff
