import TransportVerif.Props.C07
#print axioms TV.Props.C07.placeholder
