import TransportVerif.Props.C07
#print axioms TV.Props.C07.growUntil_succeeds
#print axioms TV.Props.C07.write_full_iff
#print axioms TV.Props.C07.refused_write_is_noop
#print axioms TV.Props.C07.count_size_exact
