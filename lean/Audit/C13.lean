import TransportVerif.Props.C13
#print axioms TV.Props.C13.placeholder
