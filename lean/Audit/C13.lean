import TransportVerif.Props.C13
#print axioms TV.Props.C13.auto_never_taken
#print axioms TV.Props.C13.assigned_in_subnet
#print axioms TV.Props.C13.no_address_twice
#print axioms TV.Props.C13.exhaustion_is_real
#print axioms TV.Props.C13.open_sockets_never_conflict
#print axioms TV.Props.C13.bind_succeeds_iff
#print axioms TV.Props.C13.ephemeral_in_range_and_free
#print axioms TV.Props.C13.foreign_ip_refused
#print axioms TV.Props.C13.close_frees
#print axioms TV.Props.C13.find_returns_the_covering_socket
