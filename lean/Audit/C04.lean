import TransportVerif.Props.C04
#print axioms TV.Props.C04.placeholder
