import TransportVerif.Props.C04
#print axioms TV.Props.C04.judged04
#print axioms TV.Props.C04.plain_never_twice
#print axioms TV.Props.C04.never_above_max
#print axioms TV.Props.C04.never_panics
