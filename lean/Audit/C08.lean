import TransportVerif.Props.C08
#print axioms TV.Props.C08.placeholder
