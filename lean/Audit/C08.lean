import TransportVerif.Props.C08
#print axioms TV.Props.C08.no_stranded_reader
#print axioms TV.Props.C08.close_wakes_all
#print axioms TV.Props.C08.token_implies_nobody_parked
#print axioms TV.Props.C08.read_at_lock
#print axioms TV.Props.C08.count_conserved
