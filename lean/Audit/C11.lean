import TransportVerif.Props.C11
#print axioms TV.Props.C11.listener_refines_spec
#print axioms TV.Props.C11.one_conn_per_remote
#print axioms TV.Props.C11.delivered_to_own_conn
#print axioms TV.Props.C11.first_datagram_creates_one
#print axioms TV.Props.C11.fresh_conn_after_close
