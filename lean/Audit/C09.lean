import TransportVerif.Props.C09
#print axioms TV.Props.C09.placeholder
