import TransportVerif.Props.C09
#print axioms TV.Props.C09.judged09
#print axioms TV.Props.C09.pending_wrap_witness
#print axioms TV.Props.C09.deadline_reports_last_set
