import TransportVerif.Props.C10
#print axioms TV.Props.C10.placeholder
