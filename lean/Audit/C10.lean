import TransportVerif.Props.C10
#print axioms TV.Props.C10.signal_iff_passed
#print axioms TV.Props.C10.timeout_only_if_passed
#print axioms TV.Props.C10.blocked_read_released_at_expiry
#print axioms TV.Props.C10.timeout_persists
#print axioms TV.Props.C10.later_or_zero_deadline_reads_again
#print axioms TV.Props.C10.close_keeps_deadline
#print axioms TV.Props.C10.closed_never_blocks
