import TransportVerif.Props.C16
#print axioms TV.Props.C16.chance_le_0_forwards_all
#print axioms TV.Props.C16.chance_ge_100_forwards_none
#print axioms TV.Props.C16.forwarded_is_ordered_sublist
#print axioms TV.Props.C16.dropped_draws
