import TransportVerif.Props.C02
#print axioms TV.Props.C02.placeholder
