import TransportVerif.Props.C02
#print axioms TV.Props.C02.judged
#print axioms TV.Props.C02.ext_valid
#print axioms TV.Props.C02.ext_injective
#print axioms TV.Props.C02.one_to_one_outbound
