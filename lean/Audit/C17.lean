import TransportVerif.Props.C17
#print axioms TV.C17.placeholder
