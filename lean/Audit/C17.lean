import TransportVerif.Props.C17
#print axioms TV.Props.C17.no_leftover_deadline
#print axioms TV.Props.C17.result_is_what_moved
#print axioms TV.Props.C17.finished_iff_result
#print axioms TV.Props.C17.bytes_conserved
#print axioms TV.Props.C17.cancelled_returns
#print axioms TV.Props.C17.cancelled_error
#print axioms TV.Props.C17.next_starts_clean
#print axioms TV.Props.C17.session_conserves
#print axioms TV.Props.C17.session_live_ops_unaffected
