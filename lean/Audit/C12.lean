import TransportVerif.Props.C12
#print axioms TV.Props.C12.placeholder
