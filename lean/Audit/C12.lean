import TransportVerif.Props.C12
#print axioms TV.Props.C12.count_exact
#print axioms TV.Props.C12.socket_closed_iff
#print axioms TV.Props.C12.accept_fails_after_close
#print axioms TV.Props.C12.unaccepted_discarded
#print axioms TV.Props.C12.no_new_conn_after_close
#print axioms TV.Props.C12.no_close_stuck
#print axioms TV.Props.C12.inflight_arrival_discarded
#print axioms TV.Props.C12.lock_steps_wait
