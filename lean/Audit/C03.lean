import TransportVerif.Props.C03
#print axioms TV.Props.C03.inbound_judged
#print axioms TV.Props.C03.inbound_is_silent
#print axioms TV.Props.C03.inbound_to_owner
#print axioms TV.Props.C03.one_to_one_inbound
