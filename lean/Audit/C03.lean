import TransportVerif.Props.C03
#print axioms TV.Props.C03.placeholder
