import TransportVerif.Props.C19
import TransportVerif.Props.C19Table
#print axioms TV.Props.C19.lockset_discipline_sound
#print axioms TV.Props.C19.handover
#print axioms TV.Props.C19.fork_orders
#print axioms TV.Props.C19Table.table_disciplined
#print axioms TV.Props.C19Table.table_complete
