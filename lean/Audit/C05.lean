import TransportVerif.Props.C05
#print axioms TV.Props.C05.judged05
#print axioms TV.Props.C05.check_is_pure
#print axioms TV.Props.C05.check_changes_no_later_answer
#print axioms TV.Props.C05.refused_is_pure
