import TransportVerif.Props.C05
#print axioms TV.Props.C05.placeholder
