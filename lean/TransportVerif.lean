-- root of the library: every property module
import TransportVerif.Props.C04
import TransportVerif.Props.C05
import TransportVerif.Props.C16
import TransportVerif.Props.C20
import TransportVerif.Props.C06
import TransportVerif.Props.C07
import TransportVerif.Props.C18
import TransportVerif.Props.C02
import TransportVerif.Props.C03
import TransportVerif.Props.C09
import TransportVerif.Props.C13
import TransportVerif.Props.C15
import TransportVerif.Props.C08
import TransportVerif.Props.C14
import TransportVerif.Props.C10
import TransportVerif.Props.C11
import TransportVerif.Props.C12
