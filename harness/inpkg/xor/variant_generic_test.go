package xor

const verifVariant = "generic"
