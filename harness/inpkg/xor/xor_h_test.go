package xor

import (
	"fmt"
	"testing"

	"github.com/pion/transport/v3/verifshim/vh"
)

func verifGen(n, seed int) []byte {
	b := make([]byte, n)
	for i := range b {
		b[i] = byte(seed + i*131 + (i/256)*7)
	}
	return b
}

const verifGuard = 24

// verifPlace copies content into a fresh guarded backing array at the given misalignment and
// returns the backing array and the slice.
func verifPlace(content []byte, off int) (backing, s []byte) {
	backing = make([]byte, verifGuard+off+len(content)+verifGuard+8)
	for i := range backing {
		backing[i] = 0xA5
	}
	s = backing[verifGuard+off : verifGuard+off+len(content) : verifGuard+off+len(content)]
	copy(s, content)
	return backing, s
}

func verifGuardsOK(backing, s []byte, off int) bool {
	for i := 0; i < verifGuard+off; i++ {
		if backing[i] != 0xA5 {
			return false
		}
	}
	for i := verifGuard + off + len(s); i < len(backing); i++ {
		if backing[i] != 0xA5 {
			return false
		}
	}
	return true
}

// op: x <alias none|dstA|dstB> <dOff> <aOff> <bOff> <dLen> <aLen> <bLen> <seed>
func verifXorOp(f []string) (out string) {
	alias := f[1]
	dOff, aOff, bOff := vh.Atoi(f[2]), vh.Atoi(f[3]), vh.Atoi(f[4])
	dLen, aLen, bLen, seed := vh.Atoi(f[5]), vh.Atoi(f[6]), vh.Atoi(f[7]), vh.Atoi(f[8])
	ab, a := verifPlace(verifGen(aLen, seed), aOff)
	bb, b := verifPlace(verifGen(bLen, seed+77), bOff)
	var db, d []byte
	switch alias {
	case "dstA":
		db, d, dOff = ab, a, aOff
	case "dstB":
		db, d, dOff = bb, b, bOff
	default:
		db, d = verifPlace(verifGen(dLen, seed+33), dOff)
	}
	defer func() {
		if r := recover(); r != nil {
			out = "panic"
		}
	}()
	n := XorBytes(d, a, b)
	g := "ok"
	if !verifGuardsOK(ab, a, aOff) || !verifGuardsOK(bb, b, bOff) || !verifGuardsOK(db, d, dOff) {
		g = "bad"
	}
	return fmt.Sprintf("n=%d d=%s a=%s b=%s g=%s", n, vh.Hex(d), vh.Hex(a), vh.Hex(b), g)
}

func TestVerifXor(t *testing.T) {
	variant := verifVariant
	vh.RunShards(func(shard int, r *vh.Rng, o *vh.Out, n int) {
		k := 0
		emit := func(op string) {
			k++
			o.Case(fmt.Sprintf("%d.%d", shard, k), variant)
			o.Op(op, verifXorOp(vh.Fields(op)), "")
		}
		maxLen := 96
		if vh.Thorough() {
			maxLen = 600
		}
		// shard 0..: a deterministic sweep of small lengths x aliasings, then random cases
		if !vh.Thorough() || true {
			for aLen := shard; aLen <= 40; aLen += vh.Shards() {
				for bLen := 0; bLen <= 40; bLen++ {
					for _, al := range []string{"none", "dstA", "dstB"} {
						op := fmt.Sprintf("x %s %d %d %d %d %d %d %d", al, (aLen+bLen)%8, aLen%8, bLen%8, maxInt(aLen, bLen)+bLen%3, aLen, bLen, aLen*41+bLen)
						emit(op)
					}
				}
			}
		}
		for i := 0; i < n; i++ {
			aLen, bLen := r.Intn(maxLen+1), r.Intn(maxLen+1)
			if r.Chance(30) {
				bLen = aLen + r.Intn(5) - 2
				if bLen < 0 {
					bLen = 0
				}
			}
			mn := aLen
			if bLen < mn {
				mn = bLen
			}
			dLen := mn + r.Intn(12)
			if r.Chance(8) && mn > 0 {
				dLen = r.Intn(mn) // too short: must panic
			}
			al := []string{"none", "none", "dstA", "dstB"}[r.Intn(4)]
			op := fmt.Sprintf("x %s %d %d %d %d %d %d %d", al, r.Intn(8), r.Intn(8), r.Intn(8), dLen, aLen, bLen, r.Intn(1000))
			emit(op)
		}
	}, func(cs []vh.Case, o *vh.Out) {
		for _, c := range cs {
			o.Case(c.ID, variant)
			for _, f := range c.Ops {
				op := f[0]
				for _, x := range f[1:] {
					op += " " + x
				}
				o.Op(op, verifXorOp(f), "")
			}
		}
	})
}

func maxInt(a, b int) int {
	if a > b {
		return a
	}
	return b
}
