package xor

const verifVariant = "old"
