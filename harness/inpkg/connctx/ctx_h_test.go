package connctx

import (
	"testing"

	"github.com/pion/transport/v3/verifshim/ctxh"
)

// C17 harness: the deprecated connctx wrapper over a scripted connection, under the controlled scheduler.
func TestVerifCtx(t *testing.T) {
	ctxh.Main("connctx", func(f *ctxh.Fake) ctxh.Wrapped {
		c := New(f)
		return ctxh.Wrapped{Read: c.ReadContext, Write: c.WriteContext}
	})
}
