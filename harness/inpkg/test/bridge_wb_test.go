package test

import "fmt"

func init() {
	verifBridgeState = func(br *Bridge) string {
		br.mutex.Lock()
		defer br.mutex.Unlock()
		return fmt.Sprintf("%d,%d %d,%d %d,%d", len(br.stack0), len(br.stack1), br.dropNWrites0, br.dropNWrites1,
			br.reorderNWrites0, br.reorderNWrites1)
	}
}
