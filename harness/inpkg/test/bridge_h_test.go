package test

import (
	"fmt"
	"net"
	"runtime"
	"testing"
	"time"

	"github.com/pion/transport/v3/verifshim/vh"
)

var verifBridgeState func(br *Bridge) string

func verifBridgeSt(br *Bridge) string {
	if verifBridgeState == nil {
		return "-"
	}
	return verifBridgeState(br)
}

func verifConn(br *Bridge, id int) net.Conn {
	if id == 0 {
		return br.GetConn0()
	}
	return br.GetConn1()
}

// verifBridgeOp applies one operation; every answer is followed by the two queue lengths.
func verifBridgeOp(br *Bridge, f []string) (out string) {
	defer func() {
		if r := recover(); r != nil {
			out = fmt.Sprintf("panic l=%d,%d", br.Len(0), br.Len(1))
		}
	}()
	switch f[0] {
	case "w":
		d := vh.Atoi(f[1])
		p := vh.UnHex(f[2])
		n, err := verifConn(br, d).Write(p)
		for i := range p {
			p[i] ^= 0xff // the caller reuses its slice
		}
		out = "-"
		if err != nil || n != len(p) {
			out = fmt.Sprintf("werr %v", err)
		}
	case "rd":
		d := vh.Atoi(f[1])
		if br.Len(d) == 0 {
			out = "none"
			break
		}
		buf := make([]byte, vh.Atoi(f[2]))
		type res struct {
			n   int
			err error
		}
		ch := make(chan res, 1)
		go func() {
			n, err := verifConn(br, 1-d).Read(buf)
			ch <- res{n, err}
		}()
		var r res
		deadline := time.Now().Add(5 * time.Second)
	loop:
		for {
			runtime.Gosched()
			br.Tick()
			select {
			case r = <-ch:
				break loop
			default:
			}
			if time.Now().After(deadline) {
				return fmt.Sprintf("stuck l=%d,%d", br.Len(0), br.Len(1))
			}
			time.Sleep(5 * time.Microsecond)
		}
		switch {
		case r.err != nil:
			out = "rerr " + r.err.Error()
		case r.n > len(buf) || r.n < 0:
			out = fmt.Sprintf("bad-n %d", r.n)
		default:
			out = "got " + vh.Hex(buf[:r.n])
		}
	case "reorder":
		if err := br.Reorder(vh.Atoi(f[1])); err != nil {
			out = "reorder err"
		} else {
			out = "reorder ok"
		}
	case "drop":
		br.Drop(vh.Atoi(f[1]), vh.Atoi(f[2]), vh.Atoi(f[3]))
		out = "-"
	case "dropnext":
		br.DropNextNWrites(vh.Atoi(f[1]), vh.Atoi(f[2]))
		out = "-"
	case "reordernext":
		br.ReorderNextNWrites(vh.Atoi(f[1]), vh.Atoi(f[2]))
		out = "-"
	case "filter":
		m, r := vh.Atoi(f[2]), vh.Atoi(f[3])
		br.Filter(vh.Atoi(f[1]), func(b []byte) bool { return len(b)%m != r })
		out = "-"
	case "nofilter":
		br.Filter(vh.Atoi(f[1]), nil)
		out = "-"
	default:
		return "bad-op"
	}
	return out + fmt.Sprintf(" l=%d,%d", br.Len(0), br.Len(1))
}

func verifBridgeGen(r *vh.Rng, o *vh.Out, id string) {
	o.Case(id, "")
	br := NewBridge()
	ctr := 0
	do := func(op string) {
		o.Op(op, verifBridgeOp(br, vh.Fields(op)), verifBridgeSt(br))
	}
	msg := func() string {
		ctr++
		if r.Chance(6) {
			return "-" // an empty message is a message too
		}
		b := append([]byte{byte(ctr >> 8), byte(ctr)}, r.Bytes(r.Intn(7))...)
		return vh.Hex(b)
	}
	steps := 10 + r.Intn(50)
	for i := 0; i < steps; i++ {
		d := r.Intn(2)
		switch c := r.Intn(100); {
		case c < 40:
			do(fmt.Sprintf("w %d %s", d, msg()))
		case c < 60:
			do(fmt.Sprintf("rd %d %d", d, r.Pick(0, 1, 2, 3, 5, 9, 100)))
		case c < 68:
			do(fmt.Sprintf("reordernext %d %d", d, r.Pick(0, 1, 2, 2, 3, 4, -1)))
		case c < 76:
			do(fmt.Sprintf("dropnext %d %d", d, r.Pick(0, 1, 1, 2, 3, -2)))
		case c < 84:
			l := br.Len(d)
			do(fmt.Sprintf("drop %d %d %d", d, r.Pick(0, 1, l-1, l, l+1, l+2, 2), r.Pick(0, 1, 1, 2, 3, l, l+1, -1)))
		case c < 90:
			do(fmt.Sprintf("reorder %d", d))
		case c < 97:
			do(fmt.Sprintf("filter %d %d %d", d, r.Pick(2, 3, 4), r.Intn(2)))
		default:
			do(fmt.Sprintf("nofilter %d", d))
		}
	}
	// drain both directions
	for d := 0; d < 2; d++ {
		for br.Len(d) > 0 {
			do(fmt.Sprintf("rd %d 100", d))
		}
	}
}

func TestVerifBridge(t *testing.T) {
	vh.RunShards(func(shard int, r *vh.Rng, o *vh.Out, n int) {
		for i := 0; i < n; i++ {
			verifBridgeGen(r, o, fmt.Sprintf("%d.%d", shard, i))
		}
	}, func(cs []vh.Case, o *vh.Out) {
		for _, c := range cs {
			o.Case(c.ID, "")
			br := NewBridge()
			for _, f := range c.Ops {
				op := f[0]
				for _, x := range f[1:] {
					op += " " + x
				}
				o.Op(op, verifBridgeOp(br, f), verifBridgeSt(br))
			}
		}
	})
}
