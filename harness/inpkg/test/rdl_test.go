package test

import (
	"errors"
	"io"
	"net"
	"testing"

	"github.com/pion/transport/v3/verifshim/rdl"
)

type verifRDLBridge struct {
	net.Conn
	br *Bridge
}

func (b verifRDLBridge) Deliver(p []byte) { _, _ = b.br.GetConn1().Write(p) }
func (b verifRDLBridge) Poke()            { b.br.Tick() }
func (b verifRDLBridge) Close()           {}
func (b verifRDLBridge) Classify(err error) string {
	var ne interface{ Timeout() bool }
	switch {
	case errors.As(err, &ne) && ne.Timeout():
		return "timeout"
	case errors.Is(err, io.EOF):
		return "closed"
	}
	return "err:" + err.Error()
}

func TestVerifRDL(t *testing.T) {
	rdl.Main("bridge", func() rdl.Conn { br := NewBridge(); return verifRDLBridge{br.GetConn0(), br} })
}
