package dpipe

import (
	"errors"
	"fmt"
	"io"
	"net"
	"testing"

	"github.com/pion/transport/v3/verifshim/vh"
)

var verifPipeState func(a net.Conn) string

type verifPipe struct {
	c      [2]net.Conn
	closed [2]bool
	q      [2]int // messages queued towards end e (harness bookkeeping to avoid blocking calls)
}

func (p *verifPipe) op(f []string) string {
	e := vh.Atoi(f[1])
	switch f[0] {
	case "w":
		if !p.closed[e] && p.q[1-e] >= 1000 {
			return "block" // the channel is full: the call would block, not issued
		}
		b := vh.UnHex(f[2])
		n, err := p.c[e].Write(b)
		for i := range b {
			b[i] ^= 0xff
		}
		switch {
		case err == nil:
			p.q[1-e]++
			return fmt.Sprintf("ok %d", n)
		case errors.Is(err, io.ErrClosedPipe):
			return "closed"
		default:
			return "err " + err.Error()
		}
	case "r":
		if !p.closed[e] && p.q[e] == 0 {
			return "block"
		}
		buf := make([]byte, vh.Atoi(f[2]))
		n, err := p.c[e].Read(buf)
		switch {
		case err == nil && (n > len(buf) || n < 0):
			p.q[e]--
			return fmt.Sprintf("bad-n %d", n)
		case err == nil:
			p.q[e]--
			return "got " + vh.Hex(buf[:n])
		case errors.Is(err, io.EOF):
			return "eof"
		default:
			return "err " + err.Error()
		}
	case "close":
		_ = p.c[e].Close()
		p.closed[e] = true
		return "-"
	}
	return "bad-op"
}

func (p *verifPipe) st() string {
	if verifPipeState == nil {
		return "-"
	}
	return verifPipeState(p.c[0])
}

func TestVerifDPipe(t *testing.T) {
	vh.RunShards(func(shard int, r *vh.Rng, o *vh.Out, n int) {
		for i := 0; i < n; i++ {
			o.Case(fmt.Sprintf("%d.%d", shard, i), "")
			a, b := Pipe()
			p := &verifPipe{c: [2]net.Conn{a, b}}
			ctr := 0
			steps := 10 + r.Intn(60)
			fill := r.Chance(3) // a few cases fill a channel to its capacity
			if fill {
				e := r.Intn(2)
				for k := 0; k < 1002; k++ {
					op := fmt.Sprintf("w %d %s", e, vh.Hex([]byte{byte(k >> 8), byte(k)}))
					o.Op(op, p.op(vh.Fields(op)), p.st())
				}
			}
			for k := 0; k < steps; k++ {
				e := r.Intn(2)
				var op string
				switch c := r.Intn(100); {
				case c < 45:
					ctr++
					op = fmt.Sprintf("w %d %s", e, vh.Hex(append([]byte{byte(ctr)}, r.Bytes(r.Intn(8))...)))
					if r.Chance(6) {
						op = fmt.Sprintf("w %d -", e)
					}
				case c < 92:
					op = fmt.Sprintf("r %d %d", e, r.Pick(0, 1, 2, 4, 9, 100))
				default:
					op = fmt.Sprintf("close %d", e)
				}
				o.Op(op, p.op(vh.Fields(op)), p.st())
			}
		}
	}, func(cs []vh.Case, o *vh.Out) {
		for _, c := range cs {
			o.Case(c.ID, "")
			a, b := Pipe()
			p := &verifPipe{c: [2]net.Conn{a, b}}
			for _, f := range c.Ops {
				op := f[0]
				for _, x := range f[1:] {
					op += " " + x
				}
				o.Op(op, p.op(f), p.st())
			}
		}
	})
}
