package dpipe

import (
	"context"
	"errors"
	"io"
	"net"
	"testing"

	"github.com/pion/transport/v3/verifshim/rdl"
)

type verifRDLPipe struct {
	net.Conn
	peer net.Conn
}

func (p verifRDLPipe) Deliver(b []byte) { _, _ = p.peer.Write(b) }
func (p verifRDLPipe) Poke()            {}
func (p verifRDLPipe) Close()           { _ = p.Conn.Close(); _ = p.peer.Close() }
func (p verifRDLPipe) Classify(err error) string {
	var ne interface{ Timeout() bool }
	switch {
	case errors.Is(err, context.DeadlineExceeded) || (errors.As(err, &ne) && ne.Timeout()):
		return "timeout"
	case errors.Is(err, io.EOF):
		return "closed"
	}
	return "err:" + err.Error()
}

func TestVerifRDL(t *testing.T) {
	rdl.Main("dpipe", func() rdl.Conn { a, b := Pipe(); return verifRDLPipe{a, b} })
}
