package dpipe

import (
	"fmt"
	"net"
)

func init() {
	verifPipeState = func(a net.Conn) string {
		c := a.(*conn) //nolint:forcetypeassert
		return fmt.Sprintf("%d,%d", len(c.rCh), len(c.wCh))
	}
}
