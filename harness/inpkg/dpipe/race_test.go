package dpipe

import (
	"sync"
	"testing"
	"time"
)

// C19 workload: both ends of a pipe read, written, deadlined and closed concurrently.
func TestVerifRace(t *testing.T) {
	for round := 0; round < 20; round++ {
		a, b := Pipe()
		var wg sync.WaitGroup
		run := func(f func(i int)) {
			wg.Add(1)
			go func() {
				defer wg.Done()
				for i := 0; i < 100; i++ {
					f(i)
				}
			}()
		}
		run(func(i int) {
			_ = a.SetWriteDeadline(time.Now().Add(time.Millisecond))
			_, _ = a.Write([]byte{1, 2, 3})
		})
		run(func(i int) {
			_ = b.SetReadDeadline(time.Now().Add(time.Millisecond))
			_, _ = b.Read(make([]byte, 8))
		})
		run(func(i int) {
			_ = b.SetWriteDeadline(time.Now().Add(time.Millisecond))
			_, _ = b.Write([]byte{4})
		})
		run(func(i int) {
			_ = a.SetDeadline(time.Now().Add(time.Millisecond))
			_, _ = a.Read(make([]byte, 8))
		})
		run(func(i int) {
			if i == 80 {
				_ = a.Close()
			}
			if i == 90 {
				_ = b.Close()
			}
		})
		wg.Wait()
		_ = a.Close()
		_ = b.Close()
	}
}
