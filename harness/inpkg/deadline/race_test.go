package deadline

import (
	"sync"
	"testing"
	"time"
)

// C19 workload: one Deadline set, read and waited on from several goroutines.
func TestVerifRace(t *testing.T) {
	for round := 0; round < 20; round++ {
		d := New()
		var wg sync.WaitGroup
		run := func(f func(i int)) {
			wg.Add(1)
			go func() {
				defer wg.Done()
				for i := 0; i < 200; i++ {
					f(i)
				}
			}()
		}
		run(func(i int) { d.Set(time.Now().Add(time.Duration(i%3) * time.Millisecond)) })
		run(func(i int) { d.Set(time.Time{}) })
		run(func(i int) {
			select {
			case <-d.Done():
			default:
			}
			_ = d.Err()
		})
		run(func(i int) { _, _ = d.Deadline() })
		wg.Wait()
	}
}
