package deadline

import (
	"fmt"
	"strings"
	"testing"
	"time"

	"github.com/pion/transport/v3/verifshim/vh"
)

// verifTimer is the scripted runtime timer placed in Deadline.timer: it never fires by itself.
type verifTimer struct {
	h     *verifDL
	armed bool
	due   int64
}

func (t *verifTimer) Stop() bool {
	a := t.armed
	t.armed = false
	return a
}

func (t *verifTimer) Reset(d time.Duration) bool {
	a := t.armed
	t.armed = true
	t.due = t.h.now + int64((d+30*time.Minute)/time.Hour) // virtual hours, rounded
	return a
}

type verifDL struct {
	d           *Deadline
	t           *verifTimer
	now         int64 // virtual time in hours
	outstanding int
	gens        map[<-chan struct{}]int
	lastArg     time.Time
	lastVirt    string
}

func verifNewDL() *verifDL {
	h := &verifDL{d: New(), gens: map[<-chan struct{}]int{}, lastVirt: "none"}
	h.t = &verifTimer{h: h}
	h.d.timer = h.t
	return h
}

func (h *verifDL) op(f []string) (out string) {
	defer func() {
		if r := recover(); r != nil {
			out = "panic"
		}
	}()
	switch f[0] {
	case "set":
		if f[1] == "zero" {
			h.lastArg, h.lastVirt = time.Time{}, "none"
		} else {
			T := int64(vh.Atoi(f[1]))
			h.lastArg, h.lastVirt = time.Now().Add(time.Duration(T-h.now)*time.Hour), f[1]
		}
		h.d.Set(h.lastArg)
	case "fire":
		if h.t.armed && h.t.due <= h.now {
			h.t.armed = false
			h.outstanding++
		}
	case "cb":
		if h.outstanding > 0 {
			h.outstanding--
			h.d.timeout()
		}
	case "adv":
		h.now += int64(vh.Atoi(f[1]))
	default:
		return "bad-op"
	}
	ch := h.d.Done()
	if _, ok := h.gens[ch]; !ok {
		h.gens[ch] = len(h.gens)
	}
	closed := "0"
	select {
	case <-ch:
		closed = "1"
	default:
	}
	e := "0"
	if h.d.Err() != nil {
		e = "1"
	}
	dl := "none"
	if t, ok := h.d.Deadline(); ok {
		dl = "wrong"
		if t.Equal(h.lastArg) {
			dl = h.lastVirt
		}
	}
	return fmt.Sprintf("%s g%d %s %s", closed, h.gens[ch], e, dl)
}

var verifDLState func(h *verifDL) string

func (h *verifDL) st() string {
	if verifDLState == nil {
		return "-"
	}
	return verifDLState(h)
}

func TestVerifDeadline(t *testing.T) {
	vh.RunShards(func(shard int, r *vh.Rng, o *vh.Out, n int) {
		for i := 0; i < n; i++ {
			o.Case(fmt.Sprintf("%d.%d", shard, i), "")
			h := verifNewDL()
			steps := 8 + r.Intn(50)
			maxOut := 8
			if vh.Thorough() && r.Chance(3) {
				maxOut = 300 // beyond what a uint8 can count
				steps = 700
			}
			do := func(op string) { o.Op(op, h.op(vh.Fields(op)), h.st()) }
			for k := 0; k < steps; k++ {
				switch c := r.Intn(100); {
				case c < 30:
					do(fmt.Sprintf("set %d", h.now+int64(r.Pick(1, 1, 2, 5))))
				case c < 38:
					do(fmt.Sprintf("set %d", h.now-int64(r.Pick(0, 1, 3))))
				case c < 46:
					do("set zero")
				case c < 66:
					do(fmt.Sprintf("adv %d", r.Pick(1, 1, 2, 6)))
				case c < 84:
					if h.outstanding < maxOut {
						do("fire")
					}
				default:
					do("cb")
				}
			}
			// settle: dispatch and run everything, then observe
			do("fire")
			for h.outstanding > 0 {
				do("cb")
			}
		}
	}, func(cs []vh.Case, o *vh.Out) {
		for _, c := range cs {
			o.Case(c.ID, "")
			h := verifNewDL()
			for _, f := range c.Ops {
				o.Op(strings.Join(f, " "), h.op(f), h.st())
			}
		}
	})
}
