package deadline

import "fmt"

func init() {
	verifDLState = func(h *verifDL) string {
		h.d.mu.RLock()
		defer h.d.mu.RUnlock()
		st := []string{"stopped", "started", "exceeded"}[h.d.state]
		a := "0"
		if h.t.armed {
			a = "1"
		}
		return fmt.Sprintf("%s p%d a%s o%d", st, h.d.pending, a, h.outstanding)
	}
}
