package udp

import (
	"errors"
	"io"
	"net"
	"testing"

	"github.com/pion/transport/v3/verifshim/rdl"
)

type verifRDLConn struct {
	*Conn
	ln net.Listener
}

// Deliver hands a datagram to the listener exactly as its read loop does (dispatchMsg), without the kernel.
func (c verifRDLConn) Deliver(p []byte)     { c.listener.dispatchMsg(c.rAddr, p) }
func (c verifRDLConn) Poke()                {}
func (c verifRDLConn) Close()               { _ = c.Conn.Close(); _ = c.ln.Close() }
func (c verifRDLConn) CloseKeepsData() bool { return true }

func (c verifRDLConn) Classify(err error) string {
	var ne interface{ Timeout() bool }
	switch {
	case errors.As(err, &ne) && ne.Timeout():
		return "timeout"
	case errors.Is(err, io.EOF):
		return "closed"
	}
	return "err:" + err.Error()
}

func TestVerifRDL(t *testing.T) {
	rdl.Main("udpconn", func() rdl.Conn {
		ln, err := Listen("udp", &net.UDPAddr{IP: net.IPv4(127, 0, 0, 1), Port: 0})
		if err != nil {
			panic(err)
		}
		l := ln.(*listener) //nolint:forcetypeassert
		remote := &net.UDPAddr{IP: net.IPv4(127, 0, 0, 1), Port: 40000}
		l.dispatchMsg(remote, []byte("hello"))
		c, err := ln.Accept()
		if err != nil {
			panic(err)
		}
		buf := make([]byte, 16)
		if _, err := c.Read(buf); err != nil {
			panic(err)
		}
		return verifRDLConn{c.(*Conn), ln} //nolint:forcetypeassert
	})
}
