package udp

import (
	"net"
	"sync"
	"testing"
	"time"
)

// C19 workload: a listener with clients sending, Accept, reads, connection and listener Close concurrently.
func TestVerifRace(t *testing.T) {
	for round := 0; round < 6; round++ {
		ln, err := (&ListenConfig{Backlog: 4}).Listen("udp", &net.UDPAddr{IP: net.IPv4(127, 0, 0, 1), Port: 0})
		if err != nil {
			t.Skip(err)
		}
		var wg sync.WaitGroup
		var mu sync.Mutex
		var conns []net.Conn
		for c := 0; c < 3; c++ {
			wg.Add(1)
			go func() {
				defer wg.Done()
				cl, err := net.Dial("udp", ln.Addr().String())
				if err != nil {
					return
				}
				defer cl.Close() //nolint
				for i := 0; i < 30; i++ {
					_, _ = cl.Write([]byte("x"))
					time.Sleep(200 * time.Microsecond)
				}
			}()
		}
		wg.Add(1)
		go func() {
			defer wg.Done()
			for {
				c, err := ln.Accept()
				if err != nil {
					return
				}
				mu.Lock()
				conns = append(conns, c)
				mu.Unlock()
				wg.Add(1)
				go func() {
					defer wg.Done()
					buf := make([]byte, 16)
					for i := 0; i < 5; i++ {
						_ = c.SetReadDeadline(time.Now().Add(2 * time.Millisecond))
						_, _ = c.Read(buf)
						_, _ = c.Write([]byte("y"))
					}
					_ = c.Close()
				}()
			}
		}()
		time.Sleep(15 * time.Millisecond)
		_ = ln.Close()
		wg.Wait()
		mu.Lock()
		for _, c := range conns {
			_ = c.Close()
		}
		mu.Unlock()
	}
}
