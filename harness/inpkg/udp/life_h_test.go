package udp

import (
	"fmt"
	"net"
	"strings"
	"testing"
	"time"

	"github.com/pion/transport/v3/verifshim/cosched"
	"github.com/pion/transport/v3/verifshim/vh"
)

type verifLife struct {
	ln       *listener
	ids      map[*Conn]int
	accepted []*Conn // connections a client holds (initially accepted + those returned during the phase)
	closedBy map[int]bool
	accIdx   map[int]int // acceptor thread -> index in accepted of the connection it returned
	resConn  map[int]*Conn
	names    []string
	roles    []string
	results  []string
	remote   int
	backlog  int
	// an arrival in progress: the read loop's getConn stopped before it counts the new connection
	arrName string
	arrAddr *net.UDPAddr
	arrHeld bool  // the arrival is past connLock.Lock() (it holds the lock); false while it waits at the lock's yield point
	lastNew *Conn // the connection the last arrival created, if any
}

// receiver is the Accept caller (thread index) that was handed the connection of the last arrival
// directly, or -1: with several callers blocked Go serves the one that has waited longest.
func (v *verifLife) receiver() int {
	if v.lastNew == nil {
		return -1
	}
	for i, c := range v.resConn {
		if c == v.lastNew {
			return i
		}
	}
	return -1
}

// lockConns takes connLock unless somebody keeps it (a Close that waits while holding it would otherwise
// hang the harness itself); it reports whether the lock was obtained.
func (v *verifLife) lockConns() bool {
	for i := 0; i < 300; i++ {
		if v.ln.connLock.TryLock() {
			return true
		}
		time.Sleep(time.Millisecond)
	}
	return false
}

func (v *verifLife) newRemote() *net.UDPAddr {
	v.remote++
	return &net.UDPAddr{IP: net.IPv4(127, 0, 1, byte(v.remote)), Port: 41000 + v.remote}
}

// arrive hands a first datagram of a new remote to the listener's dispatch path and gives the
// connection, if one was created, the next id.
func (v *verifLife) arrive() {
	rm := v.newRemote()
	v.ln.dispatchMsg(rm, []byte{1})
	v.noteConn(rm)
}

// arriveBegin runs the dispatch of a new remote's first datagram as a managed goroutine up to the
// point where getConn is about to count the connection (it holds connLock there).
// arriveAtLock starts the dispatch of a new remote's first datagram and stops it where getConn is about to
// take connLock: nothing has been checked yet in the code as it stands.
func (v *verifLife) arriveAtLock() {
	rm := v.newRemote()
	v.arrAddr = rm
	v.arrHeld = false
	v.arrName = cosched.Go("r", func() { v.ln.dispatchMsg(rm, []byte{1}) })
	cosched.Step(v.arrName, 2*time.Second)
}

func (v *verifLife) arriveBegin() {
	if v.arrName == "" {
		rm := v.newRemote()
		v.arrAddr = rm
		v.arrName = cosched.Go("r", func() { v.ln.dispatchMsg(rm, []byte{1}) })
	}
	v.arrHeld = true
	for i := 0; i < 4; i++ {
		st := ""
		for _, p := range cosched.Positions() {
			if p.Name == v.arrName {
				st = p.State
			}
		}
		if st == "done" || strings.Contains(st, ":wgadd#") {
			break
		}
		cosched.Step(v.arrName, 2*time.Second)
	}
}

func (v *verifLife) arriveEnd() {
	for i := 0; i < 6; i++ {
		done := false
		for _, p := range cosched.Positions() {
			if p.Name == v.arrName && p.State == "done" {
				done = true
			}
		}
		if done {
			break
		}
		cosched.Step(v.arrName, 2*time.Second)
	}
	v.noteConn(v.arrAddr)
	v.arrName, v.arrAddr, v.arrHeld = "", nil, false
}

func (v *verifLife) noteConn(rm *net.UDPAddr) {
	v.lastNew = nil
	locked := v.lockConns()
	c, ok := v.ln.conns[rm.String()]
	if locked {
		v.ln.connLock.Unlock()
	}
	if ok {
		if _, seen := v.ids[c]; !seen {
			v.ids[c] = len(v.ids)
			v.lastNew = c
		}
	}
}

// canStart says whether a closer of an accepted-during-the-phase connection may leave its start point.
func (v *verifLife) canStart(i int) bool {
	if !strings.HasPrefix(v.roles[i], "K") || v.pcOf(i) != "S" {
		return true
	}
	_, ok := v.accIdx[vh.Atoi(v.roles[i][1:])]
	return ok
}

// pcOf is the position letter of thread i as printed by line().
func (v *verifLife) pcOf(i int) string {
	f := strings.Fields(v.line())
	pcs := strings.Split(f[len(f)-1], ",")
	if i < len(pcs) {
		return pcs[i]
	}
	return ""
}

func (v *verifLife) sockClosed() bool {
	uc, ok := v.ln.pConn.(*net.UDPConn)
	if !ok {
		return false
	}
	return uc.SetDeadline(time.Time{}) != nil
}

// settleClose waits, once the socket has been closed, until the unmanaged goroutines (the closer and the
// read loop) have finished and everybody who was blocked in readWG.Wait() has been released: their
// exit is asynchronous and the scheduler's quiescence test cannot see it coming.
func (v *verifLife) settleClose() {
	if !v.sockClosed() {
		return
	}
	select {
	case <-v.ln.readDoneCh:
	case <-time.After(2 * time.Second):
		return
	}
	for i := 0; i < 200; i++ {
		waiting := false
		for _, p := range cosched.Positions() {
			if p.State == "parked semacquire" || p.State == "parked sync.WaitGroup.Wait" {
				waiting = true
			}
		}
		if !waiting {
			return
		}
		time.Sleep(time.Millisecond)
		cosched.Quiesce(time.Second)
	}
}

func (v *verifLife) line() string {
	v.settleClose()
	pos := cosched.Positions()
	pcs := make([]string, len(v.names))
	index := map[string]int{}
	for i, n := range v.names {
		index[n] = i
	}
	for _, p := range pos {
		i, known := index[p.Name]
		if !known {
			continue // an arrival in progress
		}
		switch {
		case p.State == "done":
			pcs[i] = v.results[i]
			if c := v.resConn[i]; c != nil {
				pcs[i] = fmt.Sprintf("c%d", v.ids[c])
			}
		case p.State == "at start":
			pcs[i] = "S"
		case strings.Contains(p.State, ":select#"):
			pcs[i] = "X"
		case strings.Contains(p.State, ":lock#"):
			pcs[i] = "L"
		case strings.Contains(p.State, ":wait#"):
			pcs[i] = "W"
		case strings.Contains(p.State, ":wgadd#"):
			pcs[i] = "ADD" // only the pinned code has this point: between taking the connection and counting it
		case p.State == "parked select":
			pcs[i] = "P"
		case p.State == "parked semacquire" || p.State == "parked sync.WaitGroup.Wait":
			pcs[i] = "V"
		default:
			pcs[i] = "?" + strings.ReplaceAll(p.State, " ", "_")
		}
	}
	k := "0"
	if v.sockClosed() {
		k = "1"
	}
	locked := false
	if !v.arrHeld {
		locked = v.lockConns()
	}
	n := len(v.ln.conns)
	if locked {
		v.ln.connLock.Unlock()
	}
	return fmt.Sprintf("k=%s q=%d n=%d %s", k, len(v.ln.acceptCh), n, strings.Join(pcs, ","))
}

func verifLifeRun(o *vh.Out, id string, cfg []string, sched []string, r *vh.Rng) {
	o.Case(id, strings.Join(cfg, " "))
	nAcc, nQ, backlog := vh.Atoi(cfg[0]), vh.Atoi(cfg[1]), vh.Atoi(cfg[2])
	roles := cfg[3:]
	cosched.Reset()
	lc := &ListenConfig{Backlog: backlog}
	ln, err := lc.Listen("udp", &net.UDPAddr{IP: net.IPv4(127, 0, 0, 1), Port: 0})
	if err != nil {
		panic(err)
	}
	v := &verifLife{ln: ln.(*listener), ids: map[*Conn]int{}, closedBy: map[int]bool{}, accIdx: map[int]int{}, resConn: map[int]*Conn{}, roles: roles, backlog: backlog} //nolint:forcetypeassert
	for i := 0; i < nAcc+nQ; i++ {
		v.arrive()
	}
	for i := 0; i < nAcc; i++ {
		c, err := ln.Accept() // unmanaged: yields pass through
		if err != nil {
			panic(err)
		}
		v.accepted = append(v.accepted, c.(*Conn)) //nolint:forcetypeassert
	}
	v.results = make([]string, len(roles))
	for i, role := range roles {
		i := i
		switch {
		case role == "A":
			v.names = append(v.names, cosched.Go("a", func() {
				c, err := ln.Accept()
				if err != nil {
					v.results[i] = "err"
					return
				}
				cc := c.(*Conn) //nolint:forcetypeassert
				v.accepted = append(v.accepted, cc)
				v.accIdx[i] = len(v.accepted) - 1
				v.resConn[i] = cc
				v.results[i] = "conn" // the id is looked up when the line is printed (it is assigned after the arrival ends)
			}))
		case role == "L":
			v.names = append(v.names, cosched.Go("l", func() {
				_ = ln.Close()
				v.results[i] = "ok"
			}))
		case strings.HasPrefix(role, "K"):
			// the client closes the connection that acceptor thread a returned (scheduled only once it has one)
			a := vh.Atoi(role[1:])
			v.names = append(v.names, cosched.Go("k", func() {
				k, ok := v.accIdx[a]
				if !ok {
					v.results[i] = "ok"
					return
				}
				v.closedBy[k] = true
				_ = v.accepted[k].Close()
				v.results[i] = "ok"
			}))
		default:
			k := vh.Atoi(role[1:])
			v.names = append(v.names, cosched.Go("c", func() {
				v.closedBy[k] = true
				_ = v.accepted[k].Close()
				v.results[i] = "ok"
			}))
		}
	}
	cosched.Quiesce(2 * time.Second)
	step := 0
	for step < 200 {
		ay := cosched.AtYield()
		var op string
		if sched != nil {
			if step >= len(sched) && v.arrName != "" && !v.arrHeld {
				op = "arb"
			} else if step >= len(sched) && v.arrName != "" {
				op = "are"
			} else if step >= len(sched) {
				if len(ay) == 0 {
					break
				}
				// run the rest to quiescence, lowest index first
				best := len(v.names)
				for _, nm := range ay {
					for i, x := range v.names {
						if x == nm && i < best && v.canStart(i) {
							best = i
						}
					}
				}
				if best == len(v.names) {
					break
				}
				op = fmt.Sprintf("g %d", best)
			} else {
				op = sched[step]
			}
		} else {
			// threads that can be granted: not the arrival itself, and nobody who is about to take
			// connLock while the arrival holds it
			var cand []int
			for _, nm := range ay {
				for i, x := range v.names {
					if x == nm && !(v.arrHeld && v.pcOf(i) == "L") && v.canStart(i) {
						cand = append(cand, i)
					}
				}
			}
			switch {
			case v.arrName != "" && !v.arrHeld && (len(cand) == 0 || r.Chance(30)):
				op = "arb"
			case v.arrHeld && (len(cand) == 0 || r.Chance(40)):
				op = "are"
			case len(cand) == 0:
				op = ""
			case v.arrName == "" && r.Chance(8):
				op = []string{"arr", "arb", "arb", "ar0", "ar0"}[r.Intn(5)]
			default:
				op = fmt.Sprintf("g %d", cand[r.Intn(len(cand))])
			}
			if op == "" {
				break
			}
		}
		f := vh.Fields(op)
		switch f[0] {
		case "arr":
			if v.arrName == "" {
				v.arrive()
				cosched.Quiesce(2 * time.Second)
				if t := v.receiver(); t >= 0 && len(f) == 1 {
					op = fmt.Sprintf("arr %d", t)
				}
			}
		case "ar0":
			if v.arrName == "" {
				v.arriveAtLock()
			}
		case "arb":
			if !v.arrHeld {
				v.arriveBegin()
			}
		case "are":
			if v.arrHeld {
				v.arriveEnd()
				cosched.Quiesce(2 * time.Second)
				if t := v.receiver(); t >= 0 && len(f) == 1 {
					op = fmt.Sprintf("are %d", t)
				}
			}
		case "g":
			t := vh.Atoi(f[1])
			ok := false
			if t < len(v.names) {
				for _, nm := range ay {
					if nm == v.names[t] {
						ok = true
					}
				}
			}
			if ok && !v.canStart(t) {
				ok = false
			}
			if ok {
				ambiguous := v.roles[t] == "A" && len(v.ln.acceptCh) > 0 && v.results[t] == ""
				cosched.Step(v.names[t], 2*time.Second)
				// Accept's select may have had both a queued connection and the closed doneCh ready:
				// tell the model which way it went
				if ambiguous && v.results[t] == "err" && len(f) == 2 {
					op += " err"
				}
			}
		}
		o.Op(op, v.line(), "")
		step++
	}
	// the judgement of C12 on what the implementation did
	lclosed := 0
	if acc, _ := v.ln.accepting.Load().(bool); !acc {
		lclosed = 1
	}
	pending := 0
	for _, p := range cosched.Positions() {
		idle := false
		for i, nm := range v.names {
			if nm == p.Name && p.State == "at start" && !v.canStart(i) {
				idle = true // closer of a connection that was never accepted
			}
		}
		// an Accept with nothing to accept on an open listener waits legitimately
		if p.State != "done" && !idle && !(p.State == "parked select" && lclosed == 0) {
			pending++
		}
	}
	open := 0
	for k := range v.accepted {
		if !v.closedBy[k] {
			open++
		}
	}
	k := 0
	if v.sockClosed() {
		k = 1
	}
	o.Op(fmt.Sprintf("end # k=%d lc=%d open=%d pending=%d", k, lclosed, open, pending), "end", "")
	// clean up: close everything that is still open (also exercises idempotence: second Close calls)
	cosched.Disable()
	_ = ln.Close()
	for _, c := range v.accepted {
		_ = c.Close()
		_ = c.Close()
	}
	_ = ln.Close()
	cosched.Quiesce(time.Second)
}

func TestVerifLife(t *testing.T) {
	vh.RunShardsSerial(func(shard int, r *vh.Rng, o *vh.Out, n int) {
		for i := 0; i < n; i++ {
			nAcc, nQ := r.Intn(3), r.Intn(3)
			cfg := []string{fmt.Sprint(nAcc), fmt.Sprint(nQ), fmt.Sprint(r.Pick(1, 2, 3, 128))}
			if vh.Atoi(cfg[2]) < nAcc+nQ {
				cfg[2] = "128"
			}
			nA := r.Intn(3)
			for k := 0; k < nA; k++ {
				cfg = append(cfg, "A")
			}
			var ks []string
			for k := 0; k < nA; k++ {
				if r.Chance(50) {
					ks = append(ks, fmt.Sprintf("K%d", k))
				}
			}
			if r.Chance(75) {
				cfg = append(cfg, "L")
			}
			for k := 0; k < nAcc; k++ {
				if r.Chance(70) {
					cfg = append(cfg, fmt.Sprintf("C%d", k))
				}
			}
			cfg = append(cfg, ks...)
			if len(cfg) == 3 {
				cfg = append(cfg, "L")
			}
			verifLifeRun(o, fmt.Sprintf("%d.%d", shard, i), cfg, nil, r)
		}
	}, func(cs []vh.Case, o *vh.Out) {
		for _, c := range cs {
			var sched []string
			for _, f := range c.Ops {
				if f[0] == "g" || f[0] == "arr" || f[0] == "arb" || f[0] == "are" || f[0] == "ar0" {
					sched = append(sched, strings.Join(f, " "))
				}
			}
			verifLifeRun(o, c.ID, c.Cfg, sched, nil)
		}
	})
}
