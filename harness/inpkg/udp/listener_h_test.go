package udp

import (
	"errors"
	"fmt"
	"io"
	"net"
	"sort"
	"strings"
	"testing"
	"time"

	"github.com/pion/transport/v3/verifshim/vh"
)

type verifLn struct {
	ln    *listener
	conns []*Conn // in order of creation as seen by Accept (ids are assigned at creation: see idOf)
	byPtr map[*Conn]int
	next  int
	acc   map[int]bool // ids returned by Accept
}

func verifRemote(k int) *net.UDPAddr {
	// remotes share one IP and differ in the port, and vice versa
	return &net.UDPAddr{IP: net.IPv4(127, 0, byte(k/4), byte(1+k%4)), Port: 40000 + k%3}
}

func verifNewLn(cfg []string) *verifLn {
	lc := &ListenConfig{Backlog: vh.Atoi(cfg[0])}
	if cfg[1] != "-" {
		m, r := vh.Atoi(cfg[1]), vh.Atoi(cfg[2])
		lc.AcceptFilter = func(b []byte) bool {
			var first byte
			if len(b) > 0 {
				first = b[0]
			}
			return int(first)%m != r
		}
	}
	ln, err := lc.Listen("udp", &net.UDPAddr{IP: net.IPv4(127, 0, 0, 1), Port: 0})
	if err != nil {
		panic(err)
	}
	return &verifLn{ln: ln.(*listener), byPtr: map[*Conn]int{}, acc: map[int]bool{}} //nolint:forcetypeassert
}

// noteCreated assigns ids to connections in creation order by looking at the listener's table.
func (v *verifLn) noteCreated(remote net.Addr) {
	v.ln.connLock.Lock()
	c, ok := v.ln.conns[remote.String()]
	v.ln.connLock.Unlock()
	if ok {
		if _, seen := v.byPtr[c]; !seen {
			v.byPtr[c] = v.next
			v.conns = append(v.conns, c)
			v.next++
		}
	}
}

func (v *verifLn) state() string {
	v.ln.connLock.Lock()
	defer v.ln.connLock.Unlock()
	var parts []string
	for _, c := range v.ln.conns {
		rm := -1
		for k := 0; k < 12; k++ {
			if verifRemote(k).String() == c.rAddr.String() {
				rm = k
			}
		}
		parts = append(parts, fmt.Sprintf("%d>%d", rm, v.byPtr[c]))
	}
	sort.Strings(parts)
	return fmt.Sprintf("q%d %s", len(v.ln.acceptCh), strings.Join(parts, ","))
}

func (v *verifLn) op(f []string) string {
	switch f[0] {
	case "arr":
		rm := verifRemote(vh.Atoi(f[1]))
		v.ln.dispatchMsg(rm, vh.UnHex(f[2]))
		v.noteCreated(rm)
		return "-"
	case "accept":
		if len(v.ln.acceptCh) == 0 {
			if acc, _ := v.ln.accepting.Load().(bool); acc {
				return "block" // Accept would block: not issued
			}
		}
		c, err := v.ln.Accept()
		switch {
		case err == nil:
			v.acc[v.byPtr[c.(*Conn)]] = true                  //nolint:forcetypeassert
			return fmt.Sprintf("conn %d", v.byPtr[c.(*Conn)]) //nolint:forcetypeassert
		case errors.Is(err, ErrClosedListener):
			return "closed"
		default:
			// once the socket is closed Accept may also report the read loop's error (its select has
			// both channels ready): either way Accept fails because the listener was closed
			if acc, _ := v.ln.accepting.Load().(bool); !acc {
				return "closed"
			}
			return "err " + err.Error()
		}
	case "read":
		k := vh.Atoi(f[1])
		if k >= len(v.conns) || !v.acc[k] {
			return "noconn"
		}
		c := v.conns[k]
		_ = c.SetReadDeadline(time.Now().Add(-time.Second)) // never block: an empty open buffer answers with a timeout
		buf := make([]byte, vh.Atoi(f[2]))
		n, err := c.Read(buf)
		var ne interface{ Timeout() bool }
		switch {
		case err == nil || errors.Is(err, io.ErrShortBuffer):
			return "got " + vh.Hex(buf[:n])
		case errors.Is(err, io.EOF):
			return "eof"
		case errors.As(err, &ne) && ne.Timeout():
			// the deadline check comes first in Buffer.Read: look again without a deadline if data is there
			_ = c.SetReadDeadline(time.Time{})
			if c.buffer.Count() > 0 {
				n, err = c.Read(buf)
				if err == nil || errors.Is(err, io.ErrShortBuffer) {
					return "got " + vh.Hex(buf[:n])
				}
			}
			select {
			case <-c.doneCh:
				// closed connection whose buffer is closed answers EOF once drained
				n, err = c.Read(buf)
				if errors.Is(err, io.EOF) {
					return "eof"
				}
				return fmt.Sprintf("odd %d %v", n, err)
			default:
			}
			return "block"
		default:
			return "err " + err.Error()
		}
	case "cclose":
		k := vh.Atoi(f[1])
		if k < len(v.conns) && v.acc[k] {
			_ = v.conns[k].Close()
		}
		return "-"
	case "lclose":
		_ = v.ln.Close()
		return "-"
	}
	return "bad-op"
}

func (v *verifLn) finish() {
	_ = v.ln.Close()
	for k, c := range v.conns {
		if v.acc[k] {
			_ = c.Close()
		}
	}
}

func verifLnGen(r *vh.Rng, o *vh.Out, id string) {
	cfg := fmt.Sprintf("%d -", r.Pick(0, 1, 2, 3, 128))
	if r.Chance(35) {
		cfg = fmt.Sprintf("%d %d %d", r.Pick(0, 1, 2, 5), r.Pick(2, 3), r.Intn(2))
	}
	o.Case(id, cfg)
	v := verifNewLn(vh.Fields(cfg))
	defer v.finish()
	ctr := 0
	n := 15 + r.Intn(60)
	for i := 0; i < n; i++ {
		var op string
		switch c := r.Intn(100); {
		case c < 45:
			ctr++
			op = fmt.Sprintf("arr %d %s", r.Intn(6), vh.Hex(append([]byte{byte(r.Intn(7)), byte(ctr)}, r.Bytes(r.Intn(5))...)))
		case c < 62:
			op = "accept"
		case c < 85:
			op = fmt.Sprintf("read %d %d", r.Intn(v.next+1), r.Pick(0, 1, 2, 3, 100))
		case c < 95:
			op = fmt.Sprintf("cclose %d", r.Intn(v.next+1))
		default:
			op = "lclose"
		}
		o.Op(op, v.op(vh.Fields(op)), v.state())
	}
}

func TestVerifListener(t *testing.T) {
	vh.RunShards(func(shard int, r *vh.Rng, o *vh.Out, n int) {
		for i := 0; i < n; i++ {
			verifLnGen(r, o, fmt.Sprintf("%d.%d", shard, i))
		}
	}, func(cs []vh.Case, o *vh.Out) {
		for _, c := range cs {
			o.Case(c.ID, strings.Join(c.Cfg, " "))
			v := verifNewLn(c.Cfg)
			for _, f := range c.Ops {
				o.Op(strings.Join(f, " "), v.op(f), v.state())
			}
			v.finish()
		}
	})
}
