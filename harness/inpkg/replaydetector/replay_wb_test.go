package replaydetector

import (
	"fmt"
	"strings"
)

func init() {
	verifState = func(d ReplayDetector) string {
		var latest uint64
		var init bool
		var mask *fixedBigInt
		switch x := d.(type) {
		case *slidingWindowDetector:
			latest, mask = x.latestSeq, x.mask
		case *wrappedSlidingWindowDetector:
			latest, mask, init = x.latestSeq, x.mask, x.init
		}
		words := make([]string, len(mask.bits))
		for i, w := range mask.bits {
			words[i] = fmt.Sprintf("%016x", w)
		}
		b := "0"
		if init {
			b = "1"
		}
		return fmt.Sprintf("%d %s %s", latest, b, strings.Join(words, ","))
	}
}
