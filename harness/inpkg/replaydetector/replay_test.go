package replaydetector

import (
	"fmt"
	"strconv"
	"testing"

	"github.com/pion/transport/v3/verifshim/vh"
)

// verifState is set by the white-box file (latestSeq, init flag, mask words).
var verifState func(d ReplayDetector) string

func verifNew(kind string, w uint, m uint64) ReplayDetector {
	if kind == "wrap" {
		return WithWrap(w, m)
	}
	return New(w, m)
}

// verifOp runs one operation: "check s" or "ca s" (check, and invoke accept iff ok).
func verifOp(d ReplayDetector, op string, s uint64) (out string) {
	defer func() {
		if r := recover(); r != nil {
			out = "panic"
		}
	}()
	accept, ok := d.Check(s)
	if !ok {
		return "0"
	}
	if op == "check" {
		return "1"
	}
	if accept() {
		return "1 t"
	}
	return "1 f"
}

func verifStateOf(d ReplayDetector) string {
	if verifState == nil {
		return "-"
	}
	return verifState(d)
}

func verifRunCase(o *vh.Out, id string, kind string, w uint, m uint64, ops [][2]string) {
	o.Case(id, fmt.Sprintf("%s %d %d", kind, w, m))
	d := verifNew(kind, w, m)
	for _, op := range ops {
		s, _ := strconv.ParseUint(op[1], 10, 64)
		out := verifOp(d, op[0], s)
		o.Op(op[0]+" "+op[1], out, verifStateOf(d))
	}
}

var verifWindows = []uint{0, 1, 2, 8, 31, 32, 33, 48, 50, 63, 64, 65, 100, 127, 128, 129, 191, 192, 193, 196, 255, 256, 257, 300}

func verifGenCase(r *vh.Rng, thorough bool) (kind string, w uint, m uint64, ops [][2]string) {
	kind = "plain"
	if r.Chance(50) {
		kind = "wrap"
	}
	if thorough && r.Chance(60) {
		w = uint(r.Intn(521))
	} else {
		w = verifWindows[r.Intn(len(verifWindows))]
	}
	// maximum sequence number
	switch r.Intn(10) {
	case 0: // small, possibly below the window
		m = uint64(r.Intn(int(w)*2 + 3))
	case 1:
		m = uint64(w)*2 - 1 + uint64(r.Intn(3)) // around twice the window (wrapping scope edge)
		if w == 0 {
			m = uint64(r.Intn(3))
		}
	case 2:
		m = 1<<16 - 1
	case 3:
		m = 1<<48 - 1
	case 4:
		m = 1<<62 - 1
	case 5:
		m = 1<<64 - 1
	case 6:
		m = 1<<63 - 1 + uint64(r.Intn(3))
	default:
		m = uint64(w) + uint64(r.Intn(600))
		if r.Chance(30) {
			m = uint64(r.Intn(2000))
		}
	}
	n := 5 + r.Intn(55)
	// the generator keeps its own idea of "the newest number" to aim operations at the edges
	var cur uint64
	switch r.Intn(6) {
	case 0:
		cur = 0
	case 1:
		cur = m
	case 2:
		cur = m - uint64(r.Intn(int(w)+3))
	case 3:
		cur = uint64(r.Intn(int(w) + 70))
	default:
		if m > 0 {
			cur = r.U64() % m
		}
	}
	var accepted []uint64
	M := m + 1 // 0 when m = 2^64-1: arithmetic below then wraps naturally
	norm := func(x uint64) uint64 {
		if kind == "wrap" && M != 0 {
			return x % M
		}
		return x
	}
	for i := 0; i < n; i++ {
		var s uint64
		switch c := r.Intn(100); {
		case c < 22: // forward jump of some class
			var j uint64
			switch r.Intn(8) {
			case 0:
				j = 1
			case 1:
				j = uint64(1 + r.Intn(63))
			case 2:
				j = 64
			case 3:
				j = uint64(64 * (1 + r.Intn(5)))
			case 4:
				j = uint64(w) + uint64(r.Intn(3)) - 1
			case 5:
				j = uint64(1 + r.Intn(int(w)+2))
			case 6:
				j = uint64(r.Intn(700))
			default:
				j = uint64(w) + uint64(r.Intn(200))
			}
			s = norm(cur + j)
		case c < 50: // late arrival at some window offset
			off := uint64(r.Intn(int(w) + 3))
			s = norm(cur - off)
			if kind == "wrap" && M != 0 {
				s = (cur + M - off%M) % M
			}
		case c < 78 && len(accepted) > 0: // replay of an accepted number
			s = accepted[r.Intn(len(accepted))]
		case c < 84: // around the maximum / zero / 2^64
			switch r.Intn(6) {
			case 0:
				s = m
			case 1:
				s = m + 1
			case 2:
				s = 0
			case 3:
				s = m - uint64(r.Intn(4))
			case 4:
				s = ^uint64(0) - uint64(r.Intn(int(w)+2))
			default:
				s = uint64(r.Intn(4))
			}
		case c < 92 && kind == "wrap" && M != 0: // around the half-space boundary
			h := M / 2
			s = (cur + h + uint64(r.Intn(5)) - 2) % M
		default:
			if m > 0 {
				s = r.U64() % m
			}
			if r.Chance(10) {
				s = r.U64()
			}
		}
		op := "ca"
		if r.Chance(25) {
			op = "check"
		}
		ops = append(ops, [2]string{op, strconv.FormatUint(s, 10)})
		// follow the history roughly (the harness does not know the outcome yet; good enough for aiming)
		if op == "ca" && s <= m {
			accepted = append(accepted, s)
			if len(accepted) > 12 {
				accepted = accepted[1:]
			}
			if kind == "plain" {
				if s > cur {
					cur = s
				}
			} else if M == 0 || (s-cur)%M < M/2 || i == 0 {
				cur = s
			}
		}
	}
	return kind, w, m, ops
}

// verifSmallSpaces enumerates every history of check+accept up to length L over every number of
// a tiny sequence space (and one above it), for every small window: the corner where the window is
// larger than the space and where the half-space boundary is one step away.
func verifSmallSpaces(o *vh.Out, shard, shards int, thorough bool) {
	maxM, maxW, maxL := 4, 6, 4
	if thorough {
		maxM, maxW, maxL = 5, 9, 5
	}
	k := 0
	for _, kind := range []string{"wrap", "plain"} {
		for m := 0; m <= maxM; m++ {
			for w := 0; w <= maxW; w++ {
				for L := 1; L <= maxL; L++ {
					idx := make([]int, L)
					for {
						k++
						if k%shards == shard {
							ops := make([][2]string, L)
							for i, x := range idx {
								ops[i] = [2]string{"ca", strconv.Itoa(x)}
							}
							verifRunCase(o, fmt.Sprintf("s%d", k), kind, uint(w), uint64(m), ops)
						}
						// next tuple over 0..m+1
						i := L - 1
						for i >= 0 {
							idx[i]++
							if idx[i] <= m+1 {
								break
							}
							idx[i] = 0
							i--
						}
						if i < 0 {
							break
						}
					}
				}
			}
		}
	}
}

func TestVerifReplay(t *testing.T) {
	vh.RunShards(func(shard int, r *vh.Rng, o *vh.Out, n int) {
		verifSmallSpaces(o, shard, vh.Shards(), vh.Thorough())
		for i := 0; i < n; i++ {
			kind, w, m, ops := verifGenCase(r, vh.Thorough())
			verifRunCase(o, fmt.Sprintf("%d.%d", shard, i), kind, w, m, ops)
		}
	}, func(cs []vh.Case, o *vh.Out) {
		for _, c := range cs {
			var ops [][2]string
			for _, f := range c.Ops {
				ops = append(ops, [2]string{f[0], f[1]})
			}
			w, _ := strconv.ParseUint(c.Cfg[1], 10, 64)
			m, _ := strconv.ParseUint(c.Cfg[2], 10, 64)
			verifRunCase(o, c.ID, c.Cfg[0], uint(w), m, ops)
		}
	})
}
