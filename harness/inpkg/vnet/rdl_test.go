package vnet

import (
	"errors"
	"net"
	"testing"

	"github.com/pion/transport/v3/verifshim/rdl"
)

type verifRDLObs struct{}

func (verifRDLObs) write(Chunk) error                    { return nil }
func (verifRDLObs) onClosed(net.Addr)                    {}
func (verifRDLObs) determineSourceIP(_, _ net.IP) net.IP { return nil }

type verifRDLUDP struct{ *UDPConn }

func (c verifRDLUDP) Deliver(p []byte) {
	ch := newChunkUDP(&net.UDPAddr{IP: net.IPv4(9, 9, 9, 9), Port: 9}, c.locAddr)
	ch.userData = append([]byte{}, p...)
	c.onInboundChunk(ch)
}
func (c verifRDLUDP) Poke()                {}
func (c verifRDLUDP) Close()               { _ = c.UDPConn.Close() }
func (c verifRDLUDP) CloseKeepsData() bool { return true }

func (c verifRDLUDP) Classify(err error) string {
	var ne interface{ Timeout() bool }
	switch {
	case errors.As(err, &ne) && ne.Timeout():
		return "timeout"
	case errors.Is(err, errUseClosedNetworkConn):
		return "closed"
	}
	return "err:" + err.Error()
}

func TestVerifRDL(t *testing.T) {
	rdl.Main("vnetudp", func() rdl.Conn {
		c, err := newUDPConn(&net.UDPAddr{IP: net.IPv4(10, 0, 0, 2), Port: 5000}, nil, verifRDLObs{})
		if err != nil {
			panic(err)
		}
		return verifRDLUDP{c}
	})
}
