package vnet

import (
	"context"
	"fmt"
	"net"
	"strings"
	"sync"
	"testing"
	"time"

	"github.com/pion/transport/v3"
	"github.com/pion/transport/v3/verifshim/cosched"
	"github.com/pion/transport/v3/verifshim/vh"
	"github.com/pion/transport/v3/verifshim/vtime"
)

type verifDelaySink struct {
	mu  sync.Mutex
	ids map[string]int
	got []string
}

func (n *verifDelaySink) getInterface(string) (*transport.Interface, error) { return nil, nil } //nolint:nilnil
func (n *verifDelaySink) onInboundChunk(c Chunk) {
	n.mu.Lock()
	defer n.mu.Unlock()
	id, ok := n.ids[c.Tag()]
	if !ok {
		id = -1
	}
	n.got = append(n.got, fmt.Sprintf("%d@%d", id, vtime.SinceEpoch()))
}
func (n *verifDelaySink) getStaticIPs() []net.IP  { return nil }
func (n *verifDelaySink) setRouter(*Router) error { return nil }

type verifDelay struct {
	f        *DelayFilter
	sink     *verifDelaySink
	run      string
	senders  []string
	panicked bool
	cancel   context.CancelFunc
}

func verifNewDelay(delay time.Duration, n int) *verifDelay {
	vtime.ResetClock()
	vtime.Late = 1
	cosched.Reset()
	v := &verifDelay{sink: &verifDelaySink{ids: map[string]int{}}}
	f, err := NewDelayFilter(v.sink, delay)
	if err != nil {
		panic(err)
	}
	v.f = f
	ctx, cancel := context.WithCancel(context.Background())
	v.cancel = cancel
	v.run = cosched.Go("run", func() {
		defer func() {
			if r := recover(); r != nil {
				v.panicked = true
			}
		}()
		f.Run(ctx)
	})
	for k := 0; k < n; k++ {
		c := newChunkUDP(&net.UDPAddr{IP: net.IPv4(1, 2, 3, 4), Port: 1}, &net.UDPAddr{IP: net.IPv4(5, 6, 7, 8), Port: 2})
		c.userData = []byte{byte(k)}
		if k%2 == 1 {
			// a chunk that was stamped upstream (a router stamps on entry) some time before it reaches the filter:
			// the filter's delay counts from the arrival at the filter, not from that stamp
			c.timestamp = vtime.Now()
		}
		v.sink.ids[c.Tag()] = k
		v.senders = append(v.senders, cosched.Go("s", func() { f.onInboundChunk(c) }))
	}
	cosched.Quiesce(2 * time.Second)
	cosched.Step(v.run, 2*time.Second) // from "start" to the yield before the select
	return v
}

func (v *verifDelay) pcs() (loop string, senders []string) {
	for _, p := range cosched.Positions() {
		var pc string
		switch {
		case p.State == "at start":
			pc = "S"
		case strings.HasPrefix(p.State, "at ") && strings.Contains(p.State, ":select#"):
			pc = "A"
		case strings.HasPrefix(p.State, "at ") && strings.Contains(p.State, ":send#"):
			pc = "N"
		case p.State == "parked select":
			pc = "P"
		case p.State == "parked chan send":
			pc = "W"
		case p.State == "parked chan receive":
			pc = "K" // `<-timer.C` with nothing to receive
		case p.State == "done":
			pc = "D"
		default:
			pc = "?" + strings.ReplaceAll(p.State, " ", "_")
		}
		if p.Name == v.run {
			if pc == "D" && v.panicked {
				pc = "X"
			}
			loop = pc
		} else {
			senders = append(senders, pc)
		}
	}
	return loop, senders
}

func (v *verifDelay) line() string {
	l, s := v.pcs()
	v.sink.mu.Lock()
	f := "-"
	if len(v.sink.got) > 0 {
		f = strings.Join(v.sink.got, ",")
	}
	v.sink.mu.Unlock()
	v.f.queue.mutex.RLock()
	q := len(v.f.queue.chunks)
	v.f.queue.mutex.RUnlock()
	return fmt.Sprintf("t=%d q=%d L=%s S=%s f=%s", vtime.SinceEpoch(), q, l, strings.Join(s, ","), f)
}

func (v *verifDelay) op(f []string) string {
	settle := func() { cosched.Quiesce(2 * time.Second) }
	switch f[0] {
	case "s", "n":
		k := vh.Atoi(f[1])
		_, pcs := v.pcs()
		if k < len(v.senders) && ((f[0] == "s" && pcs[k] == "S") || (f[0] == "n" && pcs[k] == "N")) {
			cosched.Step(v.senders[k], 2*time.Second)
		}
	case "l":
		if l, _ := v.pcs(); l == "A" {
			cosched.Step(v.run, 2*time.Second)
		}
	case "adv":
		vtime.Step(time.Duration(vh.Atoi(f[1])), settle)
		settle()
	}
	return v.line()
}

func (v *verifDelay) finish() {
	cosched.Disable()
	v.cancel()
	// senders still blocked on the notification are released by a receiver
	go func() {
		for i := 0; i < len(v.senders); i++ {
			select {
			case <-v.f.push:
			case <-time.After(50 * time.Millisecond):
				return
			}
		}
	}()
	time.Sleep(2 * time.Millisecond)
}

// allowed reports which operations keep the select of the loop deterministic (never both a blocked
// sender and a pending tick while the loop is at its yield) and meaningful.
func (v *verifDelay) choices(r *vh.Rng) []string {
	loop, s := v.pcs()
	var out []string
	sending := false
	for _, pc := range s {
		if pc == "W" {
			sending = true
		}
	}
	tick := vtime.PendingTicks() > 0
	if loop == "X" || loop == "K" || loop == "D" {
		return nil
	}
	for k, pc := range s {
		if pc == "S" {
			out = append(out, fmt.Sprintf("s %d", k))
		}
		if pc == "N" && (loop == "P" || !tick) {
			out = append(out, fmt.Sprintf("n %d", k))
		}
	}
	if loop == "A" {
		out = append(out, "l", "l")
	}
	if !sending {
		out = append(out, fmt.Sprintf("adv %d", r.Pick(0, 0, 1, 1000, int(v.f.delay), int(v.f.delay)+1, int(v.f.delay)/2, 60000000000)))
	}
	return out
}

func (v *verifDelay) drain(o *vh.Out) {
	// drain: give the loop every chance to forward what was notified
	for i := 0; i < 40; i++ {
		loop, s := v.pcs()
		if loop == "X" || loop == "K" || loop == "D" {
			break
		}
		op := ""
		sending := false
		for _, pc := range s {
			if pc == "W" {
				sending = true
			}
		}
		switch {
		case loop == "A":
			op = "l"
		case !sending:
			v.f.queue.mutex.RLock()
			q := len(v.f.queue.chunks)
			v.f.queue.mutex.RUnlock()
			if q == 0 {
				i = 1000
				continue
			}
			op = "adv 60000000000"
		default:
			i = 1000
			continue
		}
		o.Op(op, v.op(vh.Fields(op)), "")
	}
}

func verifDelayGen(r *vh.Rng, o *vh.Out, id string) {
	delay := r.Pick(0, 0, 1, 1000, 1000000, 10000000, 50000000)
	n := 1 + r.Intn(5)
	o.Case(id, fmt.Sprintf("%d %d", delay, n))
	v := verifNewDelay(time.Duration(delay), n)
	defer v.finish()
	for i := 0; i < 60; i++ {
		ch := v.choices(r)
		if len(ch) == 0 {
			break
		}
		op := ch[r.Intn(len(ch))]
		o.Op(op, v.op(vh.Fields(op)), "")
	}
	v.drain(o)
	o.Op("end # "+v.line(), "end", "")
}

func TestVerifDelay(t *testing.T) {
	vh.RunShardsSerial(func(shard int, r *vh.Rng, o *vh.Out, n int) {
		for i := 0; i < n; i++ {
			verifDelayGen(r, o, fmt.Sprintf("%d.%d", shard, i))
		}
	}, func(cs []vh.Case, o *vh.Out) {
		for _, c := range cs {
			o.Case(c.ID, strings.Join(c.Cfg, " "))
			v := verifNewDelay(time.Duration(vh.Atoi(c.Cfg[0])), vh.Atoi(c.Cfg[1]))
			for _, f := range c.Ops {
				if f[0] == "end" {
					continue
				}
				if l, _ := v.pcs(); l == "X" || l == "K" || l == "D" {
					break
				}
				o.Op(strings.Join(f, " "), v.op(f), "")
			}
			v.drain(o)
			o.Op("end # "+v.line(), "end", "")
			v.finish()
		}
	})
}
