package vnet

import (
	"fmt"
	"math"
	"net"
	"strings"
	"sync"
	"testing"
	"time"

	"github.com/pion/transport/v3"
	"github.com/pion/transport/v3/verifshim/vh"
	"github.com/pion/transport/v3/verifshim/vtime"
)

type verifTBFSink struct {
	mu  sync.Mutex
	ids map[string]int
	got []int
}

func (n *verifTBFSink) snapshot() []int {
	n.mu.Lock()
	defer n.mu.Unlock()
	return append([]int{}, n.got...)
}

func (n *verifTBFSink) getInterface(string) (*transport.Interface, error) { return nil, nil } //nolint:nilnil
func (n *verifTBFSink) onInboundChunk(c Chunk) {
	n.mu.Lock()
	defer n.mu.Unlock()
	id, ok := n.ids[c.Tag()]
	if !ok {
		id = -1
	}
	n.got = append(n.got, id)
}
func (n *verifTBFSink) getStaticIPs() []net.IP  { return nil }
func (n *verifTBFSink) setRouter(*Router) error { return nil }

type verifTBF struct {
	f    *TokenBucketFilter
	sink *verifTBFSink
	next int
}

func verifNewTBF(cfg []string) *verifTBF {
	vtime.ResetClock()
	s := &verifTBFSink{ids: map[string]int{}}
	f, err := NewTokenBucketFilter(s, TBFRate(vh.Atoi(cfg[0])), TBFMaxBurst(vh.Atoi(cfg[1])), TBFQueueSizeInBytes(vh.Atoi(cfg[2])))
	if err != nil {
		panic(err)
	}
	v := &verifTBF{f: f, sink: s}
	v.settle()
	return v
}

// settle waits until the filter's goroutine exists and is parked in its select again.
func (v *verifTBF) settle() bool {
	return vh.WaitParked("(*TokenBucketFilter).run", 1, 5*time.Second)
}

func verifIDs(l []int) string {
	if len(l) == 0 {
		return "-"
	}
	s := make([]string, len(l))
	for i, x := range l {
		s[i] = fmt.Sprint(x)
	}
	return strings.Join(s, ",")
}

// op returns the ids forwarded during the operation.
func (v *verifTBF) op(f []string) string {
	before := len(v.sink.snapshot())
	switch f[0] {
	case "arr":
		vtime.Advance(time.Duration(vh.Atoi(f[1])), nil)
		c := newChunkUDP(&net.UDPAddr{IP: net.IPv4(1, 2, 3, 4), Port: 1}, &net.UDPAddr{IP: net.IPv4(5, 6, 7, 8), Port: 2})
		c.userData = make([]byte, vh.Atoi(f[2]))
		v.sink.mu.Lock()
		v.sink.ids[c.Tag()] = v.next
		v.sink.mu.Unlock()
		v.next++
		v.f.onInboundChunk(c)
		if !v.settle() {
			return "stuck"
		}
	case "rate":
		v.f.Set(TBFRate(vh.Atoi(f[1])))
	case "burst":
		v.f.Set(TBFMaxBurst(vh.Atoi(f[1])))
	case "close":
		_ = v.f.Close()
	case "end":
		return "end"
	default:
		return "bad-op"
	}
	return verifIDs(v.sink.snapshot()[before:])
}

func (v *verifTBF) state() string {
	v.f.mutex.Lock()
	defer v.f.mutex.Unlock()
	return fmt.Sprintf("%x q%d/%d", math.Float64bits(v.f.currentTokensInBucket), len(v.f.queue.chunks), v.f.queue.currentBytes)
}

func verifTBFRun(o *vh.Out, id string, cfg string, ops []string) {
	o.Case(id, cfg)
	v := verifNewTBF(vh.Fields(cfg))
	closed := false
	for _, op := range ops {
		f := vh.Fields(op)
		if i := strings.Index(op, " #"); i >= 0 {
			op = op[:i]
			f = vh.Fields(op)
		}
		if closed && f[0] != "end" {
			continue
		}
		ids := v.op(f)
		if f[0] == "close" {
			closed = true
		}
		switch f[0] {
		case "end":
			o.Op("end", "end", "-")
		default:
			// the implementation's forwards travel with the operation so that the oracle can judge them
			o.Op(op+" # "+ids, "fwd "+ids, v.state())
		}
	}
	if !closed {
		_ = v.f.Close()
	}
}

func verifTBFGen(r *vh.Rng) (cfg string, ops []string) {
	rate := r.Pick(1000000, 500000, 8000000, 64000, 1000000)
	burst := r.Pick(8000, 1500, 100000, 100, 8000)
	queue := r.Pick(50000, 3000, 20000, 50000)
	cfg = fmt.Sprintf("%d %d %d", rate, burst, queue)
	n := 10 + r.Intn(70)
	for i := 0; i < n; i++ {
		switch c := r.Intn(100); {
		case c < 88:
			dt := r.Pick(0, 0, 1000, 1000000, 20000000, 50000000, 99000000, 100000000, 101000000, 150000000, 1000000000, 10000000000, r.Intn(200000000))
			size := r.Pick(0, 1, 100, 1200, 1200, 1500, burst-1, burst, burst+1, burst/2, 3*burst, r.Intn(2000))
			if size < 0 {
				size = 0
			}
			if size > 70000 {
				size = 70000
			}
			ops = append(ops, fmt.Sprintf("arr %d %d", dt, size))
		case c < 93:
			ops = append(ops, fmt.Sprintf("rate %d", r.Pick(1000000, 500000, 8000000, 64000, 16000)))
		case c < 98:
			ops = append(ops, fmt.Sprintf("burst %d", r.Pick(8000, 1500, 100000, 100, 50)))
		default:
			ops = append(ops, "close")
		}
	}
	ops = append(ops, "end")
	return cfg, ops
}

func TestVerifTBF(t *testing.T) {
	// one virtual clock per process: cases run one after another
	vh.RunShardsSerial(func(shard int, r *vh.Rng, o *vh.Out, n int) {
		for i := 0; i < n; i++ {
			cfg, ops := verifTBFGen(r)
			verifTBFRun(o, fmt.Sprintf("%d.%d", shard, i), cfg, ops)
		}
	}, func(cs []vh.Case, o *vh.Out) {
		for _, c := range cs {
			var ops []string
			for _, f := range c.Ops {
				ops = append(ops, strings.Join(f, " "))
			}
			if len(ops) == 0 || ops[len(ops)-1] != "end" {
				ops = append(ops, "end")
			}
			verifTBFRun(o, c.ID, strings.Join(c.Cfg, " "), ops)
		}
	})
}
